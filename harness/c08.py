"""C08 - an MPS's recorded canonical form is always true, and its consumers are correct.

Proof part (coq/C08): an isometry-status machine (per site: what is GUARANTEED
left-/right-isometric, plus the tensor's `left_inds` flag) and the record
info["cur_orthog"]; every library operation that accepts the record is a program
over primitive effects with the record update written as in
quimb/tensor/tn1d/core.py (current, fixed code).  Theorem: over ALL histories of
the WHOLE operation alphabet the record stays sound.  The pre-fix programs that
left a false record (F9, F17 and three more) are kept in coq/C08/Historic.v,
labelled historic, with their vm_compute witnesses.

Tie (H, exact): random histories on random MPS threading ONE info dict through
the real implementation; after every operation the record and every tensor's
flag are compared (inside Coq) with the model, and `guaranteed => measured`
(isometry defect < 1e-9 from the raw arrays) validates the primitive effects.

Oracle / searcher (test): the property on the implementation itself - measured
isometry defects against the implementation's own record and flags after every
operation; canonical-form consumers against the dense state at 1e-8.

Cooperating holders (coq/C08/World.v + World / world_stream below): circuits of
the CircuitMPS family related by .copy() / Circuit(psi0=other's state) each own
their tensors AND their record dict.  Theorem: over all interleavings no two
holders thread the same dict and every holder's record stays true of its own
tensors.  Tie (exact): after every operation on any holder, the identity classes
of the record dicts and every holder's record and flags equal the world model's.
Oracle (test): every holder's record against its own tensors, its state against
its own gate history on a dense vector, fidelity_estimate against its norm.
"""

import json

import numpy as np

from harness.common import blit, natlit

TOL_ISO = 1e-9
TOL_VAL = 1e-8

RULE = (
    "histories: random MPS (L 2-7, bonds 1-4 per bond, phys 2-3 per site, real/complex; raw, partially canonical, "
    "product, MPS_rand_state), initial info {} / None / 'calc' / a sound (a,b); ops drawn from canonicalize[_] (int / "
    "pair / unordered tuples), partial_trace_to_dense_canonical, local_expectation_canonical, magnetization, "
    "singular_values / schmidt_values / entropy / schmidt_gap / bipartite_schmidt_state, compress_site, "
    "swap_sites_with_compress (adjacent and distant, absorb default/left/right/both), swap_site_to, "
    "gate_with_auto_swap / gate(contract='swap+split'|'auto-mps') in both site orders with and without swap_back, "
    "gate_nonlocal / gate(contract='nonlocal') / gate_with_submpo with sweep_reverse, one-site gates (unitary and not), "
    "measure (project / remove / get='outcome', in place and on copies), sample_configuration / sample, "
    "compute_local_expectation_canonical, and the scalar rescalings that do NOT take the record (multiply[_] with spread_over "
    "1/2/3/8/'all', multiply_each_, psi *= c, psi /= c, psi[i] *= c, psi[i] /= c, normalize; real, negative, complex and modulus-1 "
    "factors) - inside the recorded range, or outside it followed by a fresh record ('calc' / None / {}) and an immediate "
    "canonical query; magnetization in directions X, Y, Z, +, -. Circuit layer: CircuitMPS gate sequences with non-unitary raw "
    "one-qubit gates, record + fidelity_estimate / error_estimate after every gate. Families of cooperating circuits "
    "(CircuitMPS, CircuitPermMPS; CircuitMPSLazy oracle-only): a circuit started from a random MPS (or |0..0>), 2-4 holders made by "
    ".copy() and by Circuit(psi0=another holder's state) at random points of the history, operations (one- and two-qubit gates in "
    "logical qubits, non-unitary raw gates, SWAP, local_expectation, local_expectation(dtype=) on a converted copy, to_dense / "
    "get_psi, exact and with max_bond 2-3) on a randomly chosen holder, ALL holders observed after every operation; directed "
    "two-holder scripts (centre at one end, copy / fork, move one holder's centre by gates / query / non-unitary gate, query the "
    "other; both orders). Non-trivial: the operation moved the centre or changed a tensor's status."
)

# --------------------------------------------------------------------------- observation


def site_inds(mps, i):
    L = mps.L
    t = mps[i]
    lb = None if i == 0 else mps.bond(i - 1, i)
    rb = None if i == L - 1 else mps.bond(i, i + 1)
    return t, lb, rb


def iso_defect(t, keep):
    """max |M^dag M - 1| where M maps the index `keep` to all other indices of t
    (keep None: the tensor as a vector, |<t|t> - 1|)."""
    A = np.asarray(t.data)
    if keep is None:
        v = A.reshape(-1)
        return float(abs(np.vdot(v, v) - 1.0))
    ax = t.inds.index(keep)
    M = np.moveaxis(A, ax, -1).reshape(-1, A.shape[ax])
    return float(np.abs(M.conj().T @ M - np.eye(A.shape[ax])).max())


def observe(mps):
    """per site: (defect as left isometry, defect as right isometry, flag class)"""
    out = []
    for i in range(mps.L):
        t, lb, rb = site_inds(mps, i)
        f = t.left_inds
        if f is None:
            fc = "FNone"
        elif set(f) == set(t.inds) - {rb}:
            fc = "FL"
        elif set(f) == set(t.inds) - {lb}:
            fc = "FR"
        else:
            fc = "other:" + ",".join(map(str, f))
        out.append((iso_defect(t, rb), iso_defect(t, lb), fc))
    return out


MISSING = object()


def read_record(info):
    r = info.get("cur_orthog", MISSING)
    if r is MISSING:
        return "unset"
    if r is None:
        return "none"
    if isinstance(r, str):
        return r
    if isinstance(r, tuple) and len(r) == 2 and all(isinstance(x, (int, np.integer)) for x in r):
        return (int(r[0]), int(r[1]))
    return "weird:" + repr(r)


def record_violations(rec, obs):
    """the property itself on the implementation: list of reasons the record is unsound"""
    L = len(obs)
    bad = []
    if isinstance(rec, tuple):
        a, b = rec
        if not (0 <= a <= b < L):
            bad.append(f"record {rec} outside 0 <= a <= b < L={L}")
        for k in range(L):
            if k < a and not obs[k][0] < TOL_ISO:
                bad.append(f"site {k} < {a} not left-isometric (defect {obs[k][0]:.3g})")
            if k > b and not obs[k][1] < TOL_ISO:
                bad.append(f"site {k} > {b} not right-isometric (defect {obs[k][1]:.3g})")
    elif isinstance(rec, str) and rec.startswith("weird"):
        bad.append("record has an unexpected form " + rec)
    return bad


def flag_violations(obs):
    bad = []
    for k, (dl, dr, fc) in enumerate(obs):
        if fc == "FL" and not dl < TOL_ISO:
            bad.append(f"site {k} flagged left-isometric, defect {dl:.3g}")
        if fc == "FR" and not dr < TOL_ISO:
            bad.append(f"site {k} flagged right-isometric, defect {dr:.3g}")
    return bad


# --------------------------------------------------------------------------- states


def rand_array(g, shape, cplx):
    a = g.normal(size=shape)
    if cplx:
        a = a + 1j * g.normal(size=shape)
    return a


def make_state(spec):
    """spec -> (mps, info, claimed) ; claimed[k] = (gL, gR) guaranteed by construction"""
    import quimb.tensor as qtn

    g = np.random.default_rng(spec["seed"])
    L, bonds, phys, cplx = spec["L"], spec["bonds"], spec["phys"], spec["complex"]
    prep = spec["prep"]
    if prep == "rand_state":
        mps = qtn.MPS_rand_state(L, max(bonds), phys_dim=phys[0], dtype="complex128" if cplx else "float64", seed=spec["seed"])
    elif prep == "product":
        arrays = []
        for i in range(L):
            v = rand_array(g, (phys[i],), cplx)
            arrays.append(v.reshape((1, phys[i]) if i in (0, L - 1) else (1, 1, phys[i])))
        mps = qtn.MatrixProductState(arrays)
    else:
        arrays = []
        for i in range(L):
            if i == 0:
                shp = (bonds[0], phys[0])
            elif i == L - 1:
                shp = (bonds[L - 2], phys[i])
            else:
                shp = (bonds[i - 1], bonds[i], phys[i])
            arrays.append(rand_array(g, shp, cplx))
        mps = qtn.MatrixProductState(arrays)
    claimed = [(False, False)] * L
    if prep == "canon":
        c1, c2 = spec["center"]
        mps.canonicalize_((c1, c2), info={"cur_orthog": None})
        claimed = [(k < c1, k > c2) for k in range(L)]
    r0 = spec["record"]
    if r0 == "unset":
        info = {}
    elif r0 == "none":
        info = {"cur_orthog": None}
    elif r0 == "calc":
        info = {"cur_orthog": "calc"}
    else:
        info = {"cur_orthog": (int(r0[0]), int(r0[1]))}
    return mps, info, claimed


def gen_spec(rng, k):
    L = rng.choice([2, 3, 3, 4, 4, 5, 5, 6, 6, 7])
    uniform_phys = rng.random() < 0.6
    d0 = rng.choice([2, 2, 3])
    phys = [d0 if uniform_phys else rng.choice([2, 2, 3]) for _ in range(L)]
    bonds = [rng.randint(1, 4) for _ in range(L - 1)]
    prep = rng.choice(["raw", "raw", "raw", "canon", "canon", "canon", "product", "rand_state"])
    if prep == "rand_state":
        phys = [d0] * L
    spec = {"L": L, "bonds": bonds, "phys": phys, "complex": rng.random() < 0.5, "prep": prep, "seed": rng.randrange(1 << 30)}
    if prep == "canon":
        c1 = rng.randrange(L)
        c2 = rng.randrange(c1, L)
        spec["center"] = [c1, c2]
        # a sound record: any range containing the true one; or let the library work it out
        kind = rng.choice(["exact", "loose", "calc", "unset", "none"])
        if kind == "exact":
            spec["record"] = [c1, c2]
        elif kind == "loose":
            spec["record"] = [rng.randint(0, c1), rng.randint(c2, L - 1)]
        else:
            spec["record"] = kind
    else:
        spec["record"] = rng.choice(["unset", "unset", "none", "calc"])
    return spec


# --------------------------------------------------------------------------- dense references


def dense_of(mps):
    return np.asarray(mps.to_dense()).reshape(-1)


def dims_of(mps):
    return [int(mps.phys_dim(i)) for i in range(mps.L)]


def dense_apply(psi, dims, G, where):
    n = len(dims)
    T = psi.reshape(dims)
    k = len(where)
    Gt = np.asarray(G).reshape([dims[w] for w in where] * 2)
    T = np.tensordot(Gt, T, axes=(list(range(k, 2 * k)), list(where)))
    # result axes: where..., then the remaining in order
    rest = [i for i in range(n) if i not in where]
    order = list(where) + rest
    inv = [order.index(i) for i in range(n)]
    return T.transpose(inv).reshape(-1)


def dense_expec(psi, dims, G, where):
    return np.vdot(psi, dense_apply(psi, dims, G, where))


def dense_rho(psi, dims, where):
    n = len(dims)
    T = psi.reshape(dims)
    rest = [i for i in range(n) if i not in where]
    M = T.transpose(list(where) + rest).reshape(int(np.prod([dims[w] for w in where])), -1)
    return M @ M.conj().T


def dense_swap(psi, dims, i, j):
    n = len(dims)
    perm = list(range(n))
    perm[i], perm[j] = perm[j], perm[i]
    nd = [dims[p] for p in perm]
    return psi.reshape(dims).transpose(perm).reshape(-1), nd


def dense_move(psi, dims, i, f):
    n = len(dims)
    order = list(range(n))
    x = order.pop(i)
    order.insert(f, x)
    return psi.reshape(dims).transpose(order).reshape(-1), [dims[p] for p in order]


def dense_compress_around(psi, dims, i, k):
    """reference for compress_site(i, max_bond=k, cutoff=0) from the centre i: optimal
    rank-k truncation of the bond (i-1|i), then of the bond (i|i+1) of the result.
    Returns (state, unique) - unique is False when a cut falls on (nearly) degenerate
    Schmidt values, where the optimal truncation is not unique."""
    L = len(dims)
    cur, unique = psi, True
    for cut in (i, i + 1):
        if not 0 < cut < L:
            continue
        M = cur.reshape(int(np.prod(dims[:cut])), -1)
        u, sv, vh = np.linalg.svd(M, full_matrices=False)
        if len(sv) > k:
            if sv[k - 1] - sv[k] < 1e-6 * max(sv[0], 1e-300):
                unique = False
            M = (u[:, :k] * sv[:k]) @ vh[:k]
        cur = M.reshape(-1)
    return cur, unique


def close(a, b, scale=1.0, tol=TOL_VAL):
    a, b = np.asarray(a), np.asarray(b)
    if a.shape != b.shape:
        return False
    if a.size == 0:
        return True
    return bool(np.abs(a - b).max() <= tol * max(1.0, scale))


# --------------------------------------------------------------------------- gates


def rand_unitary(g, d, cplx):
    a = rand_array(g, (d, d), cplx)
    q, r = np.linalg.qr(a)
    ph = np.diag(r) / np.abs(np.diag(r))
    return q * ph


def rand_general(g, d, cplx):
    # well conditioned, clearly not unitary
    return np.eye(d) * 1.5 + 0.4 * rand_array(g, (d, d), cplx)


def make_gate(op, d, cplx):
    g = np.random.default_rng(op["seed"])
    return rand_unitary(g, d, cplx) if op.get("unitary", True) else rand_general(g, d, cplx)


# --------------------------------------------------------------------------- op generation

ABS = {None: "ADefault", "left": "ALeft", "right": "ARight", "both": "ABoth"}


def gen_opts(rng):
    r = rng.random()
    if r < 0.6:
        return {"cutoff": 0.0}
    if r < 0.8:
        return {}
    return {"max_bond": rng.randint(1, 3)}


def gen_op(rng, L, p_bad):
    """one random operation on an MPS of L sites.  p_bad = probability of drawing
    one of the operations that broke the record before the fix commits (they are
    ordinary operations now; the name is kept for the replay files)."""
    seed = rng.randrange(1 << 30)
    bad = rng.random() < p_bad
    if bad:
        kind = rng.choice(["swap_bad", "gate1_bad", "compress_site_bad", "dropped", "measure_last", "swap_to_bad"])
        if kind == "swap_bad":
            i, j = rng.sample(range(L), 2)
            return {"kind": "swap", "i": i, "j": j, "absorb": rng.choice([None, "both"]), "opts": gen_opts(rng), "seed": seed}
        if kind == "swap_to_bad":
            i, f = rng.sample(range(L), 2)
            return {"kind": "swap_to", "i": i, "f": f, "absorb": "both", "opts": gen_opts(rng), "seed": seed}
        if kind == "gate1_bad":
            return {"kind": "gate1", "i": rng.randrange(L), "unitary": False,
                    "contract": rng.choice([True, "auto-mps", "swap+split", "nonlocal"]), "seed": seed}
        if kind == "compress_site_bad":
            return {"kind": "compress_site", "i": rng.randrange(L), "canonize": False, "opts": gen_opts(rng), "seed": seed}
        if kind == "dropped":
            api = rng.choice(["sample_configuration", "sample", "measure_outcome_copy"])
            return {"kind": "dropped", "api": api, "site": rng.randrange(L), "seed": seed}
        if kind == "measure_last" and L >= 3:
            return {"kind": "measure", "site": L - 1, "remove": True, "renorm": rng.random() < 0.7, "inplace": rng.random() < 0.5, "seed": seed}
    kind = rng.choice(
        ["canon"] * 5 + ["singvals"] * 2 + ["compress_site"] * 2 + ["swap"] * 3 + ["swap_to"] * 2
        + ["auto_swap"] * 4 + ["submpo"] * 3 + ["gate1"] * 2 + ["measure"] * 2 + ["many"] + ["nocopy_many"] + ["scale"] * 3
    )
    if kind == "scale":
        api = rng.choice(["multiply_", "multiply_", "multiply", "multiply_each_", "imul", "itruediv", "site_imul", "site_itruediv",
                          "site_imul", "normalize", "site_normalize"])
        c = rng.choice([2.0, 0.5, -1.5, -1.0, 1.0, 3.0, [0.6, 0.8], [0.0, 1.0], [1.5, -0.5], [-2.0, 1.0]])
        return {"kind": "scale", "api": api, "c": c, "spread": rng.choice([1, 2, 3, 8, "all"]), "site": rng.randrange(L),
                "insert": rng.choice([None, rng.randrange(L)]), "seed": seed}
    if kind == "canon":
        api = rng.choice(["canonicalize_", "canonicalize_", "canonicalize", "ptr_canonical", "local_exp_canonical",
                          "magnetization", "measure_outcome_inplace"])
        if api in ("magnetization", "measure_outcome_inplace"):
            where = [rng.randrange(L)]
        elif api in ("ptr_canonical", "local_exp_canonical"):
            n = rng.choice([1, 1, 2, 2, 3]) if L >= 3 else rng.choice([1, 2])
            where = rng.sample(range(L), n)
        else:
            n = rng.choice([1, 1, 2, 2, 3]) if L >= 3 else rng.choice([1, 2])
            where = rng.sample(range(L), n)
        op = {"kind": "canon", "api": api, "where": where, "as_int": len(where) == 1 and rng.random() < 0.7, "seed": seed}
        if api == "magnetization":
            op["direction"] = rng.choice(["X", "Y", "Z", "Z", "+", "-"])
        return op
    if kind == "singvals":
        api = rng.choice(["singular_values", "schmidt_values", "entropy", "schmidt_gap", "bipartite_schmidt_state"])
        return {"kind": "singvals", "api": api, "i": rng.randint(1, L - 1), "seed": seed}
    if kind == "compress_site":
        opts = gen_opts(rng) if rng.random() < 0.5 else {"max_bond": rng.randint(1, 3), "cutoff": 0.0}
        return {"kind": "compress_site", "i": rng.randrange(L), "canonize": True, "opts": opts, "seed": seed}
    if kind == "swap":
        i, j = rng.sample(range(L), 2)
        return {"kind": "swap", "i": i, "j": j, "absorb": rng.choice(["left", "right", "left", "right", None, "both"]), "opts": gen_opts(rng), "seed": seed}
    if kind == "swap_to":
        i, f = rng.randrange(L), rng.randrange(L)
        return {"kind": "swap_to", "i": i, "f": f, "absorb": rng.choice([None, None, "left", "right"]), "opts": gen_opts(rng), "seed": seed}
    if kind == "auto_swap":
        i, j = rng.sample(range(L), 2)
        api = rng.choice(["gate_with_auto_swap_", "gate_with_auto_swap_", "gate:swap+split", "gate:auto-mps"])
        return {"kind": "auto_swap", "api": api, "i": i, "j": j,
                "swap_back": True if api.startswith("gate:") else rng.random() < 0.6,
                "unitary": rng.random() < 0.6, "opts": gen_opts(rng), "seed": seed}
    if kind == "submpo":
        n = rng.choice([1, 2, 2, 2, 3]) if L >= 3 else rng.choice([1, 2])
        where = rng.sample(range(L), n)
        api = rng.choice(["gate_nonlocal_", "gate_nonlocal_", "gate:nonlocal", "gate_with_submpo_"])
        if api == "gate:nonlocal" and n == 1:
            api = "gate_nonlocal_"
        return {"kind": "submpo", "api": api, "where": where, "rev": rng.random() < 0.4, "unitary": rng.random() < 0.5,
                "opts": rng.choice([{"cutoff": 0.0}, {"cutoff": 0.0}, {}, {"max_bond": 2}]), "seed": seed}
    if kind == "gate1":
        return {"kind": "gate1", "i": rng.randrange(L), "unitary": True,
                "contract": rng.choice([True, "auto-mps", "swap+split", "nonlocal"]), "seed": seed}
    if kind == "measure":
        remove = L >= 3 and rng.random() < 0.4
        site = rng.randrange(L)
        return {"kind": "measure", "site": site, "remove": remove, "renorm": rng.random() < 0.7, "inplace": rng.random() < 0.5, "seed": seed}
    n = rng.randint(1, 3)
    terms = []
    for _ in range(n):
        w = rng.sample(range(L), rng.choice([1, 2]) if L >= 2 else 1)
        if tuple(w) not in [tuple(t) for t in terms]:
            terms.append(w)
    return {"kind": "many", "terms": terms, "inplace": kind == "many", "seed": seed}


# --------------------------------------------------------------------------- model text


def op_to_coq(op):
    k = op["kind"]
    if k == "canon":
        w = op["where"]
        dec = op["api"] in ("magnetization", "measure_outcome_inplace")
        return f"OCanon {blit(dec)} {natlit(min(w))} {natlit(max(w))}"
    if k == "singvals":
        return f"OSingVals {natlit(op['i'])}"
    if k == "compress_site":
        return f"OCompressSite {natlit(op['i'])} {blit(op['canonize'])}"
    if k == "swap":
        return f"OSwap {natlit(op['i'])} {natlit(op['j'])} {ABS[op['absorb']]}"
    if k == "swap_to":
        return f"OSwapTo {natlit(op['i'])} {natlit(op['f'])} {ABS[op['absorb']]}"
    if k == "auto_swap":
        return f"OGateAutoSwap {natlit(op['i'])} {natlit(op['j'])} {blit(op['swap_back'])}"
    if k == "submpo":
        w = op["where"]
        return f"OGateSubMPO {natlit(min(w))} {natlit(max(w))} {blit(op['rev'])}"
    if k == "gate1":
        return f"OGate1 {natlit(op['i'])} {blit(op['unitary'])}"
    if k == "measure":
        return f"OMeasure {natlit(op['site'])} {blit(op['remove'])}"
    if k == "circ_dropped":
        w = op["where"]
        return f"ODroppedCopy false {natlit(min(w))} {natlit(max(w))}"
    if k == "dropped":
        if op["api"] == "measure_outcome_copy":
            return f"ODroppedCopy true {natlit(op['site'])} {natlit(op['site'])}"
        return "ODroppedCopy false 0%nat 0%nat"
    if k == "scale" and op["api"] == "site_normalize":
        return f"ONormalizeSite {natlit(op['_sites'][0])}"
    if k == "scale":
        return "OScale [" + "; ".join(natlit(x) for x in op["_sites"]) + "]"
    if k == "fresh":
        return "OSetRecord " + {"unset": "RUnset", "none": "RNone", "calc": "RCalc"}[op["record"]]
    if k == "many":
        ws = "; ".join(f"({natlit(min(w))}, {natlit(max(w))})" for w in op["terms"])
        return f"OLocalExpMany [{ws}] {blit(op['inplace'])}"
    raise ValueError(k)


def is_bad(op, L, pre_rec=None):
    """does the operation fall outside the record theorem's domain (model: not good_b)?
    Since the fix commits every record-taking operation is inside.  The only
    operations outside are scalar rescalings (which do not take the record) that
    touch a site outside a recorded pair range: there the CALLER has to start a
    fresh record, which the harness does right after (kind 'fresh')."""
    if op["kind"] == "scale":
        if isinstance(pre_rec, tuple):
            a, b = pre_rec
            return any(not (a <= x <= b) for x in op["_sites"])
    return False


def rec_to_coq(r):
    if r == "unset":
        return "RUnset"
    if r == "none":
        return "RNone"
    if r == "calc":
        return "RCalc"
    return f"(RSome {natlit(r[0])} {natlit(r[1])})"


def obs_to_coq(obs):
    return "[" + "; ".join(f"({fc}, {blit(dl < TOL_ISO)}, {blit(dr < TOL_ISO)})" for dl, dr, fc in obs) + "]"


HEADER = """From Coq Require Import ZArith List Bool Arith.
From QV Require Import C08.Model C08.Proofs.
Import ListNotations.
Definition flag_eqb (a b : flag) : bool := match a, b with FNone, FNone | FL, FL | FR, FR => true | _, _ => false end.
Definition rcd_eqb (a b : rcd) : bool := match a, b with
  | RUnset, RUnset | RNone, RNone | RCalc, RCalc => true
  | RSome x y, RSome u v => Nat.eqb x u && Nat.eqb y v | _, _ => false end.
(* observed tensor: (flag, measured left-isometric, measured right-isometric) *)
Fixpoint obs_ok (l : list site) (o : list (flag * bool * bool)) : bool :=
  match l, o with
  | [], [] => true
  | s :: l', (f, mL, mR) :: o' =>
      flag_eqb (fl s) f && (negb (gL s) || mL) && (negb (gR s) || mR) && obs_ok l' o'
  | _, _ => false
  end.
Definition st_ok (st : mps) (e : rcd * list (flag * bool * bool)) : bool :=
  rcd_eqb (rec st) (fst e) && obs_ok (sites st) (snd e).
(* replay one history: after every operation the model's record and flags equal
   the observed ones and everything the model guarantees was measured; a `None`
   expectation = the implementation raised there.  `bad` = the harness classifies
   the operation as outside the record theorem's domain (never, since the fix
   commits): the domain of the positive theorem (good_b) must be exactly the
   complement, i.e. every generated operation must lie in it. *)
Fixpoint check (st : mps) (h : list (op * (nat * nat) * bool * option (rcd * list (flag * bool * bool)))) : bool :=
  match h with
  | [] => true
  | (o, c, bad, e) :: r =>
      Bool.eqb (good_b st o && calc_ok_b (length (sites st)) c) (negb bad) &&
      match step o c st, e with
      | Some st', Some e' => st_ok st' e' && check st' r
      | None, None => true
      | _, _ => false
      end
  end.
(* first step at which model and implementation part (0 = none) and what the model says there *)
Fixpoint diag (st : mps) (h : list (op * (nat * nat) * bool * option (rcd * list (flag * bool * bool)))) (n : nat)
  : nat * bool * option mps :=
  match h with
  | [] => (0, true, None)
  | (o, c, bad, e) :: r =>
      let dom := Bool.eqb (good_b st o && calc_ok_b (length (sites st)) c) (negb bad) in
      if negb dom then (n, false, step o c st) else
      match step o c st, e with
      | Some st', Some e' => if st_ok st' e' then diag st' r (S n) else (n, true, Some st')
      | None, None => (0, true, None)
      | x, _ => (n, true, x)
      end
  end.
Definition start (l : list (flag * bool * bool)) (r : rcd) : mps :=
  mkM (map (fun x => match x with (f, a, b) => mkS a b f end) l) r.
"""


# --------------------------------------------------------------------------- the implementation driver


class Stop(Exception):
    pass


# correspondence cases collected by the streams, evaluated by one parallel Coq run
PENDING = []


def flush(ctx):
    """evaluate all collected correspondence cases inside Coq"""
    todo = list(PENDING)
    del PENDING[:]
    if not todo:
        return
    by_id = {cid: (kind, D) for cid, _, kind, D in todo}
    shard = max(10, -(-len(todo) // 8)) if ctx.quick else 40
    # the shards are evaluated in parallel: fill them so that their text sizes (= elaboration time) are balanced
    nb = -(-len(todo) // shard)
    caps = [shard] * (nb - 1) + [len(todo) - shard * (nb - 1)]
    bins, weight = [[] for _ in range(nb)], [0] * nb
    for item in sorted(todo, key=lambda t: -len(t[1])):
        b = min((i for i in range(nb) if len(bins[i]) < caps[i]), key=lambda i: weight[i])
        bins[b].append(item)
        weight[b] += len(item[1])
    todo = [item for b in bins for item in b]
    failed, errors = ctx.coq_cases("corr", WORLD_HEADER, [(cid, case) for cid, case, _, _ in todo], shard=shard)
    for path, err in errors:
        ctx.broken_obligation("correspondence:" + path.split("/")[-1], err)
    shown = 0
    for cid in failed:
        kind, D = by_id.get(cid, ("?", None))
        if D is None:
            ctx.broken_obligation(f"correspondence:{kind}_model_vs_implementation", {"case": cid})
        elif shown < 4:
            shown += 1
            ctx.broken_obligation(f"correspondence:model_vs_implementation({kind})",
                                  world_divergence(ctx, D) if isinstance(D, World) else first_divergence(ctx, D))


class Driver:
    """runs one history on the real implementation, checking the property
    (oracle) after every operation and collecting what the model must reproduce"""

    def __init__(self, ctx, spec, hid):
        self.ctx = ctx
        self.spec = spec
        self.hid = hid
        self.mps, self.info, claimed = make_state(spec)
        self.cplx = spec["complex"]
        self.ops_done = []
        obs = observe(self.mps)
        self.init_obs = obs
        # what the model may assume at the start: the construction's claims and
        # the flags already on the tensors (both validated by measurement below)
        self.init_sites = []
        for (dl, dr, fc), (cl, cr) in zip(obs, claimed):
            self.init_sites.append((fc, cl or fc == "FL", cr or fc == "FR"))
        self.init_ok = all((not a or o[0] < TOL_ISO) and (not b or o[1] < TOL_ISO)
                           for (f, a, b), o in zip(self.init_sites, obs)) and not any(
            fc.startswith("other") for _, _, fc in obs)
        self.steps = []  # (op, calc, bad, expectation or None)
        self.record_void = False  # a rescale outside the recorded range: the record is the caller's to renew
        self.circ = None  # set by run_circuit_history: the state lives in a CircuitMPS, the record in its gate_opts
        self.calc_seen = None
        self.keyprefix = "CircuitMPS(psi0):"  # violation-key prefix of the circuit layer
        self.world = None  # set by World: this driver is one holder of a family of cooperating circuits
        self.truncating = False  # the circuit truncates (max_bond): no dense reference for its gates

    # -- replay payload ------------------------------------------------------
    def payload(self, extra=None):
        if self.world is not None:
            return self.world.payload(extra)
        d = {"spec": self.spec, "ops": self.ops_done}
        if self.circ is not None:
            d["circuit"] = True
        if extra:
            d.update(extra)
        return d

    def key_of(self, op):
        k = op["kind"]
        if op.get("circuit"):
            return self.keyprefix + op["circuit"][0]
        if k == "swap":
            adj = abs(op["i"] - op["j"]) == 1
            return f"swap_sites_with_compress:{'adjacent' if adj else 'distant'}:absorb={op['absorb'] or 'default'}"
        if k == "swap_to":
            return f"swap_site_to:absorb={op['absorb'] or 'default'}"
        if k == "gate1":
            return f"gate:one_site:contract={op['contract']}:{'unitary' if op['unitary'] else 'non_unitary'}"
        if k == "compress_site":
            return f"compress_site:canonize={op['canonize']}"
        if k == "dropped":
            return {"sample_configuration": "sample_configuration:info", "sample": "sample:info",
                    "measure_outcome_copy": "measure:get=outcome:inplace=False"}[op["api"]]
        if k == "measure":
            last = op["site"] == self.L_before - 1
            return f"measure:remove={op['remove']}:{'last_site' if last else 'inner_site'}"
        if k == "canon":
            return "canon:" + op["api"]
        if k == "singvals":
            return "singvals:" + op["api"]
        if k == "auto_swap":
            return "auto_swap:" + op["api"] + (":flipped" if op["i"] > op["j"] else "") + ("" if op["swap_back"] else ":no_swap_back")
        if k == "submpo":
            return "submpo:" + op["api"] + (":sweep_reverse" if op["rev"] else "")
        if k == "many":
            return "compute_local_expectation_canonical:inplace=" + str(op["inplace"])
        if k == "scale":
            return "scale:" + op["api"] + (":spread_over=" + str(op["spread"]) if op["api"] in ("multiply_", "multiply") else "")
        if k == "fresh":
            return "fresh_record:" + op["record"]
        return k

    # -- one operation ---------------------------------------------------------
    def apply(self, op):
        import quimb.tensor as qtn
        from quimb.tensor.tn1d.core import TensorNetwork1DFlat

        ctx = self.ctx
        # a history that has driven the state to (numerically) zero norm is over: the zero
        # vector is not a state (probabilities 0/0); happens after truncating to max_bond
        n2 = float(np.vdot(*(2 * [dense_of(self.mps)])).real)
        if not np.isfinite(n2) or n2 < 1e-24:
            ctx.bump("history_stopped:zero_norm_state")
            raise Stop()
        self.ops_done.append(op)
        self.L_before = self.mps.L
        if self.record_void and op["kind"] != "fresh":
            ctx.broken_obligation("harness:record_not_renewed_after_rescale", self.payload())
            raise Stop()
        if op["kind"] == "scale":
            op["_sites"] = self.scaled_sites(op)
            op["_flag"] = observe(self.mps)[op["_sites"][0]][2]
        key = self.key_of(op)
        pre_obs = observe(self.mps)
        pre_rec = read_record(self.info)
        calc_box = {}
        real_calc = TensorNetwork1DFlat.calc_current_orthog_center

        def spy(slf):
            r = real_calc(slf)
            calc_box.setdefault("v", (int(r[0]), int(r[1])))
            calc_box["pre"] = observe(slf)
            return r

        TensorNetwork1DFlat.calc_current_orthog_center = spy
        try:
            try:
                self._do(op, key)
                raised = None
            except Stop:
                raise
            except Exception as e:  # the implementation raised on a valid call
                raised = e
        finally:
            TensorNetwork1DFlat.calc_current_orthog_center = real_calc
        calc = calc_box.get("v", (0, 0))
        if "v" in calc_box:
            ctx.bump("calc_consulted")
            lo, hi = calc
            pre = calc_box["pre"]
            okc = 0 <= lo <= hi < len(pre) and all(pre[k][0] < TOL_ISO for k in range(lo)) and all(
                pre[k][1] < TOL_ISO for k in range(hi + 1, len(pre)))
            if not okc:
                ctx.violation("calc_current_orthog_center:unsound", f"calc_current_orthog_center returned {calc} but the sites outside are not isometric",
                              self.payload({"calc": calc}))
        if raised is not None:
            self.steps.append((op, calc, is_bad(op, self.L_before, pre_rec), None))
            ctx.violation(key + ":raised", f"{key} raised {type(raised).__name__}: {str(raised)[:160]} on a valid call with a sound record",
                          self.payload({"record_before": pre_rec}))
            raise Stop()
        try:
            obs = observe(self.mps)
        except Exception as e:  # not an MPS any more (missing / multiple bonds, wrong tags)
            ctx.violation(key + ":broken_structure", f"after {key} the state is no longer a well-formed MPS ({type(e).__name__}: {str(e)[:100]})",
                          self.payload({"record_before": pre_rec}))
            raise Stop()
        rec = read_record(self.info)
        self.steps.append((op, calc, is_bad(op, self.L_before, pre_rec), (rec, obs)))
        changed = rec != pre_rec or [o[2] for o in obs] != [o[2] for o in pre_obs]
        ctx.count((key, self.spec["L"], str(pre_rec), str(rec), tuple(o[2] for o in pre_obs)), changed)
        ctx.bump("op:" + op["kind"])
        if any(o[2].startswith("other") for o in obs):
            ctx.broken_obligation("correspondence:unexpected_flag", {"history": self.payload(), "flags": [o[2] for o in obs]})
            raise Stop()
        if op["kind"] == "scale" and is_bad(op, self.L_before, pre_rec):
            self.record_void = True  # not the library's record to keep: the call does not take it
        elif op["kind"] == "fresh":
            self.record_void = False
        # the property itself, on the implementation
        bad = [] if self.record_void else record_violations(rec, obs)
        if bad:
            ctx.violation(key + ":stale_record", f"after {key} the record is {rec} but " + "; ".join(bad[:2]),
                          self.payload({"record_before": pre_rec, "record_after": rec}))
            raise Stop()
        badf = flag_violations(obs)
        if badf:
            ctx.violation(key + ":false_flag", f"after {key}: " + "; ".join(badf[:2]), self.payload())
            raise Stop()
        if self.circ is not None:
            self.circuit_consumers(rec)

    def circuit_consumers(self, rec, role=""):
        """record consumers of the circuit layer: the norm based fidelity / error estimate"""
        psid = dense_of(self.circ._psi)
        n2 = float(np.vdot(psid, psid).real)
        fe, ee = float(self.circ.fidelity_estimate()), float(self.circ.error_estimate())
        isrange = isinstance(rec, tuple) and rec[0] != rec[1]
        self.ctx.bump("circuit_psi0_fidelity_estimate" + (":range_record" if isrange else ""))
        if abs(fe - n2) > TOL_VAL * max(1.0, n2) or abs(ee - (1 - n2)) > TOL_VAL * max(1.0, n2):
            self.ctx.violation(self.keyprefix + role + "fidelity_estimate", f"fidelity_estimate {fe} / error_estimate {ee} with record {rec}; dense <psi|psi> = {n2}",
                               self.payload())
            raise Stop()

    def scaled_sites(self, op):
        """which site tensors the rescale touches, by the library's own rule: TensorNetwork.multiply
        takes the first min(N, spread_over) tensors in the network's iteration order"""
        mps = self.mps
        L = mps.L
        order = []
        for t in mps:
            (site,) = [i for i in range(L) if mps.site_tag(i) in t.tags]
            order.append(site)
        api = op["api"]
        if api in ("multiply_", "multiply"):
            k = L if op["spread"] == "all" else min(L, op["spread"])
            return order[:k]
        if api in ("imul", "itruediv"):
            return order[: min(L, 8)]
        if api == "multiply_each_":
            return order
        if api in ("site_imul", "site_itruediv", "site_normalize"):
            return [op["site"] % L]
        if api == "normalize":
            return [L - 1 if op["insert"] is None else op["insert"] % L]
        raise ValueError(api)

    def consumer(self, key, ok, what, extra=None):
        if not ok:
            self.ctx.violation("consumer:" + key, what, self.payload(extra))
        self.ctx.bump("consumer_checked")

    def _do(self, op, key):
        import quimb as qu
        import quimb.tensor as qtn

        mps, info = self.mps, self.info
        k = op["kind"]
        L = mps.L
        dims = dims_of(mps)
        small = int(np.prod(dims)) <= 4096
        psi0 = dense_of(mps) if small else None
        nrm2 = float(np.vdot(psi0, psi0).real) if small else 1.0
        preserved = False
        want = None
        opts = dict(op.get("opts", {}))
        exact = opts.get("cutoff", None) == 0.0 and "max_bond" not in opts
        g = np.random.default_rng(op["seed"])
        if k == "canon":
            api = op["api"]
            w = op["where"]
            wa = w[0] if op.get("as_int") else tuple(w)
            preserved = True
            if api == "canonicalize_":
                mps.canonicalize_(wa, info=info)
            elif api == "canonicalize":
                self.mps = mps.canonicalize(wa, info=info)
            elif api == "ptr_canonical":
                rho = np.asarray(mps.partial_trace_to_dense_canonical(wa, info=info))
                if small:
                    ref = dense_rho(psi0, dims, list(w))
                    self.consumer(api, close(rho, ref / np.trace(ref)), "partial_trace_to_dense_canonical differs from the dense reduced density matrix",
                                  {"where": w})
            elif api == "circuit_local_expectation":
                d = int(np.prod([dims[x] for x in w]))
                G = rand_general(g, d, True)
                # `w` are the physical sites; the call names the logical qubits (they differ for CircuitPermMPS)
                qw = op.get("q", w)
                val = complex(self.circ.local_expectation(G, qw[0] if op.get("as_int") else tuple(qw)))
                self.mps = self.circ._psi
                if small:
                    ref = dense_expec(psi0, dims, G, list(w))
                    self.consumer(type(self.circ).__name__ + ":local_expectation", abs(val - ref) <= TOL_VAL * max(1, abs(ref)),
                                  f"{type(self.circ).__name__}.local_expectation {val} vs dense <psi|G|psi> = {ref}", {"where": w})
            elif api == "local_exp_canonical":
                d = int(np.prod([dims[x] for x in w]))
                G = rand_general(g, d, self.cplx)
                val = complex(mps.local_expectation_canonical(G, wa, info=info))
                if small:
                    ref = dense_expec(psi0, dims, G, list(w)) / nrm2
                    self.consumer(api, abs(val - ref) <= TOL_VAL * max(1, abs(ref)), f"local_expectation_canonical {val} vs dense {ref}", {"where": w})
            elif api == "magnetization":
                d = dims[w[0]]
                dirn = op.get("direction", "Z")
                val = complex(mps.magnetization(w[0], dirn, info=info))
                if small:
                    O = np.asarray(qu.spin_operator(dirn, S=(d - 1) / 2))
                    ref = dense_expec(psi0, dims, O, [w[0]])
                    self.consumer(f"magnetization:direction={dirn}", abs(val - ref) <= TOL_VAL * max(1, abs(ref)),
                                  f"magnetization({w[0]}, {dirn!r}) = {val} vs dense <psi|S_{dirn}|psi> = {ref}", {"site": w[0], "direction": dirn})
            elif api == "measure_outcome_inplace":
                s = op["seed"] % 1000
                out = mps.measure(w[0], get="outcome", seed=s, info=info, inplace=True)
                if small:
                    p = np.real(np.diag(dense_rho(psi0, dims, [w[0]])))
                    p = p / p.sum()
                    ref = int(np.random.default_rng(s).choice(len(p), p=p))
                    self.consumer("measure:outcome", out == ref, f"measure(get='outcome') gave {out}, dense probabilities with the same seed give {ref}")
        elif k == "singvals":
            api, i = op["api"], op["i"]
            preserved = True
            res = getattr(mps, api)(i, info=info) if api != "bipartite_schmidt_state" else mps.bipartite_schmidt_state(i, get="ket-dense", info=info)
            if small:
                M = psi0.reshape(int(np.prod(dims[:i])), -1)
                sv = np.linalg.svd(M, compute_uv=False)
                if api == "singular_values":
                    got, ref = np.sort(np.asarray(res))[::-1], sv
                elif api == "schmidt_values":
                    got, ref = np.sort(np.asarray(res))[::-1], sv**2
                elif api == "entropy":
                    s2 = sv**2
                    s2 = s2[s2 > 0]
                    got, ref = np.array([float(res)]), np.array([float(np.sum(-s2 * np.log2(s2)))])
                elif api == "schmidt_gap":
                    s2 = sv**2
                    got, ref = np.array([float(res)]), np.array([s2[0] if len(s2) == 1 else s2[0] - s2[1]])
                else:
                    got, ref = np.sort(np.abs(np.asarray(res)).reshape(-1))[::-1], sv
                n = min(len(got), len(ref))
                ok = close(got[:n], ref[:n], scale=float(np.abs(ref).max())) and np.all(np.abs(got[n:]) < 1e-7 * max(1, nrm2)) and np.all(
                    np.abs(ref[n:]) < 1e-7 * max(1, nrm2))
                if api == "entropy":
                    ok = abs(got[0] - ref[0]) < 1e-6 * max(1.0, nrm2) if nrm2 > 10 else abs(got[0] - ref[0]) < 1e-6
                self.consumer(api, bool(ok), f"{api}({i}) differs from the dense state's Schmidt spectrum", {"i": i})
        elif k == "compress_site":
            mps.compress_site(op["i"], canonize=op["canonize"], info=info, **opts)
            preserved = exact and op["canonize"]
            if small and op["canonize"] and opts.get("cutoff", None) == 0.0 and "max_bond" in opts:
                # the truncation itself: from the centre it must be the optimal one for the two bonds in turn
                ref, unique = dense_compress_around(psi0, dims, op["i"], opts["max_bond"])
                if unique:
                    got = dense_of(self.mps)
                    e_got, e_ref = float(np.linalg.norm(got - psi0)), float(np.linalg.norm(ref - psi0))
                    self.ctx.bump("compress_site_optimality_checked")
                    if not close(got, ref, scale=float(np.abs(psi0).max())):
                        self.ctx.violation("compress_site:truncates_wrong_factor",
                                           f"compress_site({op['i']}, max_bond={opts['max_bond']}, cutoff=0) truncation error {e_got:.6g}, "
                                           f"optimal for the two bonds in turn {e_ref:.6g} (norm of the state {nrm2 ** 0.5:.4g})",
                                           self.payload({"error": e_got, "optimal": e_ref}))
        elif k == "swap":
            if op.get("circuit"):
                self.circ.apply_gate("SWAP", op["i"], op["j"])
                self.mps = self.circ._psi
                exact = not self.truncating
            else:
                mps.swap_sites_with_compress_(op["i"], op["j"], info=info, **({} if op["absorb"] is None else {"absorb": op["absorb"]}), **opts)
            if small and exact:
                want, _ = dense_swap(psi0, dims, op["i"], op["j"])
        elif k == "swap_to":
            mps.swap_site_to_(op["i"], op["f"], info=info, **({} if op["absorb"] is None else {"absorb": op["absorb"]}), **opts)
            if small and exact:
                want, _ = dense_move(psi0, dims, op["i"], op["f"])
        elif k == "auto_swap":
            i, j = op["i"], op["j"]
            api = op["api"]
            if op.get("circuit"):
                lab, params = op["circuit"]
                G = np.asarray(qtn.Gate(lab, tuple(params), (i, j)).array).reshape(4, 4)
                self.circ.apply_gate(lab, *params, *op.get("q", (i, j)))
                self.mps = self.circ._psi
                exact = not self.truncating
            else:
                G = make_gate(op, dims[i] * dims[j], self.cplx)
            if op.get("circuit"):
                pass
            elif api == "gate_with_auto_swap_":
                mps.gate_with_auto_swap_(G, (i, j), info=info, swap_back=op["swap_back"], **opts)
            else:
                mps.gate_(G, (i, j), contract=api.split(":")[1], info=info, **opts)
            if small and exact:
                want = dense_apply(psi0, dims, G, [i, j])
                if not op["swap_back"] and abs(i - j) != 1:
                    a, b = min(i, j), max(i, j)
                    want, _ = dense_move(want, dims, b, a + 1)
        elif k == "submpo":
            w = op["where"]
            G = make_gate(op, int(np.prod([dims[x] for x in w])), self.cplx)
            api = op["api"]
            kw = dict(opts)
            if op["rev"]:
                kw["sweep_reverse"] = True
            if api == "gate_nonlocal_":
                mps.gate_nonlocal_(G, tuple(w), info=info, **kw)
            elif api == "gate:nonlocal":
                mps.gate_(G, tuple(w), contract="nonlocal", info=info, **kw)
            else:
                mpo = qtn.MatrixProductOperator.from_dense(G, dims=[dims[x] for x in w], sites=tuple(w), L=L)
                mps.gate_with_submpo_(mpo, info=info, **kw)
            if small and exact:
                want = dense_apply(psi0, dims, G, list(w))
        elif k == "gate1":
            i = op["i"]
            if op.get("circuit"):
                lab, params = op["circuit"]
                qi = op.get("q", [i])[0]
                if lab == "RAW":
                    G = make_gate(op, dims[i], True)
                    self.circ.apply_gate_raw(G, [qi])
                else:
                    G = np.asarray(qtn.Gate(lab, tuple(params), (i,)).array)
                    self.circ.apply_gate(lab, *params, qi)
                self.mps = self.circ._psi
            else:
                G = make_gate(op, dims[i], self.cplx)
                mps.gate_(G, i, contract=op["contract"], info=info)
            if small:
                want = dense_apply(psi0, dims, G, [i])
        elif k == "measure":
            site, s = op["site"], op["seed"] % 1000
            out, new = mps.measure(site, remove=op["remove"], renorm=op["renorm"], seed=s, info=info, inplace=op["inplace"])
            if op["inplace"] and new is not mps:
                self.consumer("measure:inplace", False, "measure(inplace=True) returned a different object")
            self.mps = new
            if small:
                p = np.real(np.diag(dense_rho(psi0, dims, [site])))
                pn = p / p.sum()
                ref = int(np.random.default_rng(s).choice(len(pn), p=pn))
                self.consumer("measure:outcome", out == ref, f"measure sampled outcome {out}; dense probabilities with the same seed give {ref}",
                              {"site": site})
                T = psi0.reshape(dims)
                sl = [slice(None)] * L
                if op["remove"]:
                    sl[site] = out
                    post = T[tuple(sl)].reshape(-1)
                else:
                    post = np.zeros_like(T)
                    sl[site] = out
                    post[tuple(sl)] = T[tuple(sl)]
                    post = post.reshape(-1)
                if op["renorm"]:
                    post = post / np.sqrt(pn[out])
                got = dense_of(new)
                self.consumer("measure:post_state", close(got, post, scale=float(np.abs(post).max())),
                              "post-measurement state differs from the projected dense state", {"site": site, "remove": op["remove"], "renorm": op["renorm"]})
        elif k == "circ_dropped":
            # Circuit*.local_expectation(G, where, dtype=...): works on a converted COPY of the state and of the record
            w = op["where"]
            qw = op.get("q", w)
            preserved = True
            G = rand_general(g, int(np.prod([dims[x] for x in w])), True)
            val = complex(self.circ.local_expectation(G, qw[0] if op.get("as_int") else tuple(qw), dtype="complex128"))
            self.mps = self.circ._psi
            if small:
                ref = dense_expec(psi0, dims, G, list(w))
                self.consumer(type(self.circ).__name__ + ":local_expectation(dtype)", abs(val - ref) <= TOL_VAL * max(1, abs(ref)),
                              f"{type(self.circ).__name__}.local_expectation(dtype='complex128') {val} vs dense <psi|G|psi> = {ref}", {"where": w})
        elif k == "dropped":
            api = op["api"]
            preserved = True
            s = op["seed"] % 1000
            if api == "measure_outcome_copy":
                mps.measure(op["site"], get="outcome", seed=s, info=info)
            else:
                if api == "sample_configuration":
                    res = [mps.sample_configuration(seed=s, info=info)]
                else:
                    res = list(mps.sample(2, seed=s, info=info))
                if small:
                    T = psi0.reshape(dims)
                    for cfg, omega in res:
                        amp = T[tuple(int(c) for c in cfg)]
                        ref = abs(amp) ** 2 / nrm2
                        self.consumer(api, abs(float(omega) - ref) <= TOL_VAL * max(1.0, ref), f"{api}: probability {omega} of {list(map(int, cfg))} vs dense {ref}")
                    # the sampled configuration itself: replay the draws on the dense state
                    rg = np.random.default_rng(s)
                    okc = True
                    for cfg, _ in res:
                        cur = T
                        refcfg = []
                        for site in range(L):
                            p = (np.abs(cur) ** 2).reshape(cur.shape[0], -1).sum(axis=1)
                            p = p / p.sum()
                            x = int(rg.choice(len(p), p=p))
                            refcfg.append(x)
                            cur = cur[x]
                        okc = okc and refcfg == [int(c) for c in cfg]
                    self.consumer(api + ":config", okc, f"{api}: configuration differs from sequential sampling of the dense state with the same seed")
        elif k == "scale":
            api = op["api"]
            c = op["c"]
            c = complex(c[0], c[1]) if isinstance(c, list) else float(c)
            if isinstance(c, complex) and not self.cplx:
                c = abs(c)  # keep real states real
            want = None
            if api == "multiply_":
                mps.multiply_(c, spread_over=op["spread"])
                want = psi0 * c
            elif api == "multiply":
                self.mps = mps.multiply(c, spread_over=op["spread"])
                want = psi0 * c
            elif api == "multiply_each_":
                mps.multiply_each_(c)
                want = psi0 * c**L
            elif api == "imul":
                mps *= c
                self.mps = mps
                want = psi0 * c
            elif api == "itruediv":
                mps /= c
                self.mps = mps
                want = psi0 / c
            elif api == "site_imul":
                t = mps[op["site"] % L]
                t *= c
                want = psi0 * c
            elif api == "site_itruediv":
                t = mps[op["site"] % L]
                t /= c
                want = psi0 / c
            elif api == "site_normalize":
                t = mps[op["site"] % L]
                tn = float(np.linalg.norm(np.asarray(t.data)))
                t.normalize_()
                want = psi0 / tn
            elif api == "normalize":
                old = mps.normalize(insert=op["insert"])
                if small:
                    self.consumer("normalize:returned_norm", abs(complex(old) - nrm2) <= TOL_VAL * max(1.0, nrm2),
                                  f"normalize returned {old}, dense <psi|psi> = {nrm2}")
                want = psi0 / np.sqrt(nrm2)
        elif k == "fresh":
            r = op["record"]
            self.info.clear()
            if r == "none":
                self.info["cur_orthog"] = None
            elif r == "calc":
                self.info["cur_orthog"] = "calc"
            preserved = True
        elif k == "many":
            terms = {}
            for w in op["terms"]:
                terms[tuple(w)] = rand_general(g, int(np.prod([dims[x] for x in w])), self.cplx)
            preserved = True
            res = mps.compute_local_expectation_canonical(terms, return_all=True, info=info, inplace=op["inplace"])
            if small:
                for w, G in terms.items():
                    ref = dense_expec(psi0, dims, G, list(w)) / nrm2
                    self.consumer("compute_local_expectation_canonical", abs(complex(res[w]) - ref) <= TOL_VAL * max(1, abs(ref)),
                                  f"compute_local_expectation_canonical[{w}] = {res[w]} vs dense {ref}")
        else:
            raise ValueError(k)
        if small and (preserved or want is not None):
            got = dense_of(self.mps)
            ref = psi0 if want is None else want
            # gate_nonlocal decomposes G into an MPO with from_dense's own default cutoff (1e-10, rsum2),
            # whatever cutoff the caller passes: the applied gate is G only to ~1e-5 relative
            tol = 1e-4 if k == "submpo" else TOL_VAL
            self.consumer("state:" + key, close(got, ref, scale=float(np.abs(ref).max()), tol=tol),
                          f"{key} changed the state beyond what the operation denotes")

    # -- the model side ----------------------------------------------------------
    def coq_terms(self):
        init = "[" + "; ".join(f"({fc}, {blit(a)}, {blit(b)})" for fc, a, b in self.init_sites) + "]"
        steps = []
        for op, calc, bad, exp in self.steps:
            e = "None" if exp is None else f"(Some ({rec_to_coq(exp[0])}, {obs_to_coq(exp[1])}))"
            steps.append(f"({op_to_coq(op)}, ({natlit(calc[0])}, {natlit(calc[1])}), {blit(bad)}, {e})")
        r0 = self.spec["record"]
        r0 = r0 if isinstance(r0, str) else (int(r0[0]), int(r0[1]))
        return f"(start {init} {rec_to_coq(r0)})", "[" + ";\n    ".join(steps) + "]"

    def coq_case(self):
        st, h = self.coq_terms()
        return f"check {st} {h}"


def run_history(ctx, spec, ops=None, nops=25, p_bad=0.03, hid=0):
    """run one history (generated or given) on the implementation; returns the driver"""
    D = Driver(ctx, spec, hid)
    if not D.init_ok:
        ctx.broken_obligation("harness:initial_state_claims", {"spec": spec})
        return D
    rng = ctx.rng
    try:
        if ops is not None:
            for op in ops:
                D.apply(op)
        else:
            for _ in range(nops):
                if D.mps.L < 2:
                    break
                D.apply(gen_op(rng, D.mps.L, p_bad))
                if D.record_void:
                    # a rescale (which does not take the record) touched sites outside the recorded
                    # range: the caller starts a fresh record, here mostly one the library works out
                    D.apply({"kind": "fresh", "record": rng.choice(["calc", "calc", "none", "unset"]), "seed": 0})
                    # ... and uses it straight away, in one of the two sweep directions
                    if rng.random() < 0.8:
                        D.apply({"kind": "canon", "api": rng.choice(["canonicalize_", "ptr_canonical", "magnetization", "measure_outcome_inplace"]),
                                 "where": [rng.randrange(D.mps.L)], "as_int": True, "seed": rng.randrange(1 << 30)})
                        D.apply({"kind": "singvals", "api": rng.choice(["schmidt_values", "entropy"]), "i": rng.randint(1, D.mps.L - 1),
                                 "seed": rng.randrange(1 << 30)})
    except Stop:
        pass
    return D


def gen_circuit_op(rng, L):
    seed = rng.randrange(1 << 30)
    r = rng.random()
    if r < 0.12:
        return {"kind": "gate1", "i": rng.randrange(L), "unitary": False, "contract": "auto-mps", "circuit": ["RAW", []], "seed": seed}
    if r < 0.40:
        lab = rng.choice(["H", "X", "T", "S", "RZ", "RX", "U3"])
        params = [round(rng.uniform(-3, 3), 3) for _ in range({"RZ": 1, "RX": 1, "U3": 3}.get(lab, 0))]
        return {"kind": "gate1", "i": rng.randrange(L), "unitary": True, "contract": "auto-mps", "circuit": [lab, params], "seed": seed}
    if r < 0.50:
        i, j = rng.sample(range(L), 2)
        return {"kind": "swap", "i": i, "j": j, "absorb": None, "opts": {"cutoff": 0.0}, "circuit": ["SWAP", []], "seed": seed}
    if r < 0.85:
        lab = rng.choice(["CNOT", "CZ", "ISWAP", "RZZ", "FSIM"])
        params = [round(rng.uniform(-3, 3), 3) for _ in range({"RZZ": 1, "FSIM": 2}.get(lab, 0))]
        i, j = rng.sample(range(L), 2)
        return {"kind": "auto_swap", "api": "circuit", "i": i, "j": j, "swap_back": True, "unitary": True, "opts": {"cutoff": 0.0},
                "circuit": [lab, params], "seed": seed}
    w = rng.sample(range(L), rng.choice([1, 2]))
    return {"kind": "canon", "api": "circuit_local_expectation", "where": w, "as_int": len(w) == 1 and rng.random() < 0.5,
            "circuit": ["local_expectation", []], "seed": seed}


def run_circuit_history(ctx, spec, ops=None, nops=10, hid=0):
    """CircuitMPS(psi0=<the state of spec>): the circuit's own record (gate_opts['info']) is threaded
    through gates and queries; the model starts from the documented initial record, an empty dict"""
    import quimb.tensor as qtn

    D = Driver(ctx, spec, hid)
    if not D.init_ok:
        ctx.broken_obligation("harness:initial_state_claims", {"spec": spec})
        return D
    D.circ = qtn.CircuitMPS(psi0=D.mps, cutoff=0.0)
    D.mps, D.info = D.circ._psi, D.circ.gate_opts["info"]
    D.cplx = True
    # straight after construction: the record the circuit starts with must be true of the state it was given
    rec0, obs0 = read_record(D.info), observe(D.mps)
    bad = record_violations(rec0, obs0)
    ctx.count(("circuit_init", spec["prep"], str(rec0)), True)
    if bad:
        ctx.violation("CircuitMPS(psi0):init:stale_record", f"CircuitMPS(psi0=...) starts with record {rec0} but " + "; ".join(bad[:2]),
                      {"spec": spec, "ops": [], "circuit": True})
        return D
    try:
        D.circuit_consumers(rec0)
        if ops is not None:
            for op in ops:
                D.apply(op)
        else:
            for _ in range(nops):
                D.apply(gen_circuit_op(ctx.rng, D.mps.L))
    except Stop:
        pass
    return D


def circuit_psi0_stream(ctx):
    """circuits started from a user supplied MPS (raw, partially canonical, MPS_rand_state): exact
    correspondence of the circuit's record with the model + oracle + circuit-level consumers"""
    rng = ctx.rng
    for h in range(1, ctx.n(30, 200) + 1):
        L = rng.randint(2, 6)
        spec = {"L": L, "bonds": [rng.randint(1, 4) for _ in range(L - 1)], "phys": [2] * L, "complex": rng.random() < 0.5,
                "prep": rng.choice(["raw", "raw", "canon", "rand_state", "product"]), "seed": rng.randrange(1 << 30), "record": "unset"}
        if spec["prep"] == "canon":
            c1 = rng.randrange(L)
            spec["center"] = [c1, rng.randrange(c1, L)]
        ctx.bump("circuit_psi0:" + spec["prep"])
        D = run_circuit_history(ctx, spec, nops=rng.randint(3, 12), hid=5000 + h)
        if D.steps:
            PENDING.append((500000 + h, D.coq_case(), "circuit_psi0", D))


# --------------------------------------------------------------------------- worlds of cooperating circuits

WORLD_HEADER = HEADER + """From QV Require Import C08.World.
(* observed world: per holder (canonical number of the record dict it threads - dicts numbered by first
   occurrence over the holders in order -, its record, its observed tensors) *)
Fixpoint wobs_ok (os : list obj) (w : world) (e : list (nat * rcd * list (flag * bool * bool))) : bool :=
  match os, e with
  | [], [] => true
  | ob :: os', (c, r, o) :: e' =>
      Nat.eqb (ocell ob) c && rcd_eqb (cell w (ocell ob)) r && obs_ok (osites ob) o && wobs_ok os' w e'
  | _, _ => false
  end.
(* replay one world history: every operation lies in the theorem's domain (wgood_b), after every operation
   every holder's dict identity, record and flags equal the observed ones, what the model guarantees was
   measured, and the model world satisfies the (proved) invariant *)
Fixpoint wcheck (w : world) (h : list (wop * option (list (nat * rcd * list (flag * bool * bool))))) : bool :=
  match h with
  | [] => true
  | (x, e) :: r =>
      wgood_b w x &&
      match wstep x w, e with
      | Some w', Some e' => wobs_ok (objs w') w' e' && winv_b w' && wcheck w' r
      | None, None => true
      | _, _ => false
      end
  end.
Fixpoint wdiag (w : world) (h : list (wop * option (list (nat * rcd * list (flag * bool * bool))))) (n : nat) : nat :=
  match h with
  | [] => 0
  | (x, e) :: r =>
      if negb (wgood_b w x) then n else
      match wstep x w, e with
      | Some w', Some e' => if wobs_ok (objs w') w' e' && winv_b w' then wdiag w' r (S n) else n
      | None, None => 0
      | _, _ => n
      end
  end.
Definition wstart (l : list (flag * bool * bool)) (r : rcd) : world := mkW [mkO (sites (start l r)) 0] [r].
"""

WORLD_CLASSES = ("CircuitMPS", "CircuitPermMPS")


def logical_dense(circ):
    """the holder's state as a vector over LOGICAL qubits, from its raw tensors and (CircuitPermMPS) its
    own qubit bookkeeping"""
    phys = dense_of(circ._psi)
    qubits = getattr(circ, "qubits", None)
    if qubits is None:
        return phys
    N = circ.N
    return phys.reshape([2] * N).transpose([list(qubits).index(q) for q in range(N)]).reshape(-1)


class Holder:
    def __init__(self, D, ref, how, parent):
        self.D, self.ref, self.how, self.parent = D, ref, how, parent

    @property
    def circ(self):
        return self.D.circ


class World:
    """a family of circuits of one class related by .copy() / Circuit(psi0=other's state); operations are
    applied to one holder at a time, and after EVERY operation EVERY holder is observed: which record dict
    it threads, its record against its own tensors (the property), its flags, its state against an
    independently evolved dense reference (test), fidelity_estimate against its dense norm (test)"""

    def __init__(self, ctx, wspec, hid):
        import quimb.tensor as qtn

        self.ctx, self.wspec, self.hid = ctx, wspec, hid
        self.cls = wspec["cls"]
        self.ops_done = []
        self.wsteps = []  # (coq wop, expectation or None)
        self.stopped = False
        self.alias_seen = False
        D = Driver(ctx, wspec["spec"], hid)
        self.root = D
        self.holders = []
        if not D.init_ok:
            ctx.broken_obligation("harness:initial_state_claims", {"world": wspec})
            self.stopped = True
            return
        kw = {"cutoff": 0.0}
        if wspec.get("max_bond"):
            kw["max_bond"] = int(wspec["max_bond"])
        ref = dense_of(D.mps)
        circ = getattr(qtn, self.cls)(psi0=D.mps, **kw)
        self.adopt(D, circ)
        self.holders.append(Holder(D, None if D.truncating else ref, "root", None))
        self.init_rec = read_record(D.info)
        if not self.observe_all("init", 0, "init"):
            self.stopped = True

    def adopt(self, D, circ):
        D.circ, D.mps, D.info = circ, circ._psi, circ.gate_opts["info"]
        D.cplx = True
        D.world = self
        D.truncating = bool(self.wspec.get("max_bond"))
        D.keyprefix = f"circuit_world:{self.cls}:"

    def payload(self, extra=None):
        d = {"world": self.wspec, "ops": self.ops_done}
        if extra:
            d.update(extra)
        return d

    # -- observation of the whole family ---------------------------------------------
    def observe_all(self, what, actor, relation, check_actor=True):
        """returns False (after reporting) when some holder violates the property; the acting holder of a
        library operation has already been checked by its own Driver (check_actor=False)"""
        ctx = self.ctx
        ids, exp = [], []
        ok = True
        for j, H in enumerate(self.holders):
            H.D.info = H.circ.gate_opts["info"]
            H.D.mps = H.circ._psi
            ident = id(H.D.info)
            if ident not in ids:
                ids.append(ident)
            cellno = ids.index(ident)
            rec, obs = read_record(H.D.info), observe(H.circ._psi)
            exp.append((cellno, rec, obs))
            role = "actor" if j == actor else "bystander"
            # how the younger of (this holder, the acting holder) came into being
            rel = relation or self.holders[max(j, actor)].how
            if j != actor or check_actor:
                bad = record_violations(rec, obs)
                if bad:
                    ok = False
                    ctx.violation(f"circuit_world:{self.cls}:{rel}:{role}:stale_record",
                                  f"{self.cls} family: after {what} on holder {actor}, holder {j}'s own record is {rec} but " + "; ".join(bad[:2]),
                                  self.payload({"holder": j, "actor": actor}))
                    continue
                badf = flag_violations(obs)
                if badf:
                    ok = False
                    ctx.violation(f"circuit_world:{self.cls}:{rel}:{role}:false_flag",
                                  f"{self.cls} family: after {what} on holder {actor}, holder {j}: " + "; ".join(badf[:2]),
                                  self.payload({"holder": j, "actor": actor}))
                    continue
                try:
                    H.D.circuit_consumers(rec, role=f"{rel}:{role}:")
                except Stop:
                    ok = False
                    continue
            if H.ref is not None:
                got = logical_dense(H.circ)
                ctx.bump("world_state_vs_reference")
                if not close(got, H.ref, scale=float(np.abs(H.ref).max())):
                    ok = False
                    ctx.violation(f"circuit_world:{self.cls}:{rel}:{role}:state",
                                  f"{self.cls} family: after {what} on holder {actor}, the state of holder {j} differs from its own gate history "
                                  f"applied to the dense state (max deviation {float(np.abs(got - H.ref).max()):.3g})",
                                  self.payload({"holder": j, "actor": actor}))
        self.last_exp = exp
        if len(ids) != len(self.holders):
            self.alias_seen = True
            ctx.bump("world_shared_record_dict_observed")
        return ok

    # -- one world operation -------------------------------------------------------------
    def apply(self, wop):
        import quimb.tensor as qtn

        ctx = self.ctx
        self.ops_done.append(wop)
        k = wop["k"]
        H = self.holders[k]
        kind = wop["w"]
        N = H.circ.N
        ctx.bump("world_op:" + kind)
        if kind in ("copy", "psi0_fork"):
            if kind == "copy":
                circ = H.circ.copy()
                ref = None if H.ref is None else H.ref.copy()
                coq = f"WCopy {natlit(k)}"
            else:
                kw = {"cutoff": 0.0}
                if self.wspec.get("max_bond"):
                    kw["max_bond"] = int(self.wspec["max_bond"])
                qubits = list(getattr(H.circ, "qubits", range(N)))
                # the new circuit starts from the physical chain of the old one: logical qubit s of the new = physical site s of the old
                ref = None if H.ref is None else H.ref.reshape([2] * N).transpose(qubits).reshape(-1)
                circ = getattr(qtn, self.cls)(psi0=H.circ._psi, **kw)
                coq = f"WNew {natlit(k)}"
            D = Driver.__new__(Driver)
            D.__dict__.update(H.D.__dict__)
            D.steps, D.ops_done = [], []
            self.adopt(D, circ)
            self.holders.append(Holder(D, ref, kind, k))
            ok = self.observe_all(kind, k, kind)
            self.wsteps.append((coq, self.last_exp))
            ctx.count(("world", self.cls, kind, len(self.holders)), True)
            return ok
        if kind == "noop":
            api = wop["api"]
            if api == "perm_swap":
                q1, q2 = wop["q"]
                H.circ.apply_gate("SWAP", q1, q2)
                if H.ref is not None:
                    H.ref, _ = dense_swap(H.ref, [2] * N, q1, q2)
            elif api == "to_dense":
                got = np.asarray(H.circ.to_dense()).reshape(-1)
                if H.ref is not None and not close(got, H.ref, scale=float(np.abs(H.ref).max())):
                    ctx.violation(f"circuit_world:{self.cls}:to_dense", f"{self.cls}.to_dense() of holder {k} differs from its gate history applied to the dense state",
                                  self.payload({"holder": k}))
                    return False
            elif api == "get_psi":
                H.circ.get_psi()
            else:
                raise ValueError(api)
            ok = self.observe_all(api, k, None)
            self.wsteps.append((f"WNoop {natlit(k)}", self.last_exp))
            ctx.count(("world", self.cls, api), False)
            return ok
        # a library operation on holder k
        op = wop["op"]
        D = H.D
        D.info, D.mps = H.circ.gate_opts["info"], H.circ._psi
        qubits = list(getattr(H.circ, "qubits", range(N)))
        if "q" in op:  # logical qubits -> the physical sites they sit on now (the library's own bookkeeping)
            phys = [qubits.index(q) for q in op["q"]]
            if op["kind"] in ("canon", "circ_dropped"):
                op["where"] = phys
            elif op["kind"] == "gate1":
                op["i"] = phys[0]
            else:
                op["i"], op["j"] = phys
        n0 = len(D.steps)
        try:
            D.apply(op)
        except Stop:
            if len(D.steps) > n0 and D.steps[-1][3] is None:
                self.wsteps.append((f"WStep {natlit(k)} ({op_to_coq(op)}) ({natlit(D.steps[-1][1][0])}, {natlit(D.steps[-1][1][1])})", None))
            return False
        _, calc, _, _ = D.steps[-1]
        # the dense reference of the acting holder: the gate on the LOGICAL qubits
        if H.ref is not None and op["kind"] in ("gate1", "auto_swap", "swap"):
            lab, params = op["circuit"]
            qs = op.get("q") or ([op["i"]] if op["kind"] == "gate1" else [op["i"], op["j"]])
            if lab == "RAW":
                G = make_gate(op, 2, True)
            else:
                G = np.asarray(qtn.Gate(lab, tuple(params), tuple(qs)).array).reshape(2 ** len(qs), -1)
            H.ref = dense_apply(H.ref, [2] * N, G, list(qs))
        ok = self.observe_all(D.key_of(op), k, None, check_actor=False)
        self.wsteps.append((f"WStep {natlit(k)} ({op_to_coq(op)}) ({natlit(calc[0])}, {natlit(calc[1])})", self.last_exp))
        return ok

    # -- model side ------------------------------------------------------------------------
    def coq_terms(self):
        D = self.root
        init = "[" + "; ".join(f"({fc}, {blit(a)}, {blit(b)})" for fc, a, b in D.init_sites) + "]"
        steps = []
        names = {}  # an observed tensor list is written once (most holders do not change in a step)
        for coq, exp in self.wsteps:
            if exp is None:
                e = "None"
            else:
                e = "(Some [" + "; ".join(f"({natlit(c)}, {rec_to_coq(r)}, {names.setdefault(obs_to_coq(o), f'o{len(names)}')})"
                                          for c, r, o in exp) + "])"
            steps.append(f"({coq}, {e})")
        lets = "".join(f"let {nm} := {txt} in\n    " for txt, nm in names.items())
        return lets, f"(wstart {init} {rec_to_coq(self.init_rec)})", "[" + ";\n    ".join(steps) + "]"

    def coq_case(self):
        lets, w, h = self.coq_terms()
        return f"{lets}wcheck {w} {h}"


def gen_world_circuit_op(rng, cls, N):
    """an operation on one holder, in LOGICAL qubits (translated to physical sites when it is applied)"""
    seed = rng.randrange(1 << 30)
    perm = cls == "CircuitPermMPS"
    r = rng.random()
    if r < 0.08:
        q = [rng.randrange(N)]
        return {"kind": "gate1", "q": q, "i": q[0], "unitary": False, "contract": "auto-mps", "circuit": ["RAW", []], "seed": seed}
    if r < 0.28:
        lab = rng.choice(["H", "X", "T", "S", "RZ", "RX", "RY", "U3"])
        params = [round(rng.uniform(-3, 3), 3) for _ in range({"RZ": 1, "RX": 1, "RY": 1, "U3": 3}.get(lab, 0))]
        q = [rng.randrange(N)]
        return {"kind": "gate1", "q": q, "i": q[0], "unitary": True, "contract": "auto-mps", "circuit": [lab, params], "seed": seed}
    if r < 0.36 and not perm:
        i, j = rng.sample(range(N), 2)
        return {"kind": "swap", "i": i, "j": j, "absorb": None, "opts": {"cutoff": 0.0}, "circuit": ["SWAP", []], "seed": seed}
    if r < 0.66:
        lab = rng.choice(["CNOT", "CZ", "ISWAP", "RZZ", "FSIM", "CNOT"])
        params = [round(rng.uniform(-3, 3), 3) for _ in range({"RZZ": 1, "FSIM": 2}.get(lab, 0))]
        q = rng.sample(range(N), 2)
        return {"kind": "auto_swap", "api": "circuit", "q": q, "i": q[0], "j": q[1], "swap_back": not perm, "unitary": True,
                "opts": {"cutoff": 0.0}, "circuit": [lab, params], "seed": seed}
    q = rng.sample(range(N), rng.choice([1, 1, 2]))
    as_int = len(q) == 1 and rng.random() < 0.5
    if r < 0.90:
        return {"kind": "canon", "api": "circuit_local_expectation", "q": q, "where": list(q), "as_int": as_int,
                "circuit": ["local_expectation", []], "seed": seed}
    return {"kind": "circ_dropped", "q": q, "where": list(q), "as_int": as_int, "circuit": ["local_expectation(dtype)", []], "seed": seed}


def gen_world_op(rng, W):
    n = len(W.holders)
    N = W.holders[0].circ.N
    r = rng.random()
    if n == 1 and len(W.ops_done) >= W.wspec.get("warmup", 0) or (n < 4 and r < 0.07):
        return {"w": "copy" if rng.random() < 0.75 else "psi0_fork", "k": rng.randrange(n)}
    k = rng.randrange(n)
    if W.alias_seen and n >= 2 and rng.random() < 0.5:
        # two holders were seen threading the same dict: look for the concrete failing input - move one
        # holder's centre to an end of the chain, every other holder is then checked against its own tensors
        q = [rng.choice([0, N - 1])]
        return {"w": "step", "k": k, "op": {"kind": "canon", "api": "circuit_local_expectation", "q": q, "where": list(q), "as_int": True,
                                             "circuit": ["local_expectation", []], "seed": rng.randrange(1 << 30)}}
    if r < 0.16:
        if W.cls == "CircuitPermMPS" and rng.random() < 0.6:
            return {"w": "noop", "k": k, "api": "perm_swap", "q": rng.sample(range(N), 2)}
        return {"w": "noop", "k": k, "api": rng.choice(["to_dense", "get_psi"])}
    return {"w": "step", "k": k, "op": gen_world_circuit_op(rng, W.cls, N)}


def run_world(ctx, wspec, ops=None, nops=14, hid=0):
    W = World(ctx, wspec, hid)
    if W.stopped:
        return W
    try:
        if ops is not None:
            for wop in ops:
                if not W.apply(wop):
                    break
        else:
            for _ in range(nops):
                if not W.apply(gen_world_op(ctx.rng, W)):
                    break
    except Stop:
        pass
    return W


def world_spec(rng, cls, L=None, entangled=False):
    L = L or rng.randint(3, 6)
    prep = rng.choice(["raw", "raw", "canon", "rand_state"]) if entangled else rng.choice(["raw", "raw", "canon", "rand_state", "product"])
    spec = {"L": L, "bonds": [rng.randint(2 if entangled else 1, 4) for _ in range(L - 1)], "phys": [2] * L, "complex": rng.random() < 0.5,
            "prep": prep, "seed": rng.randrange(1 << 30), "record": "unset"}
    if prep == "canon":
        c1 = rng.randrange(L)
        spec["center"] = [c1, rng.randrange(c1, L)]
    return {"cls": cls, "spec": spec, "max_bond": rng.choice([2, 3]) if rng.random() < 0.2 else None, "warmup": rng.randint(0, 6)}


def directed_world_scripts(cls, N=5):
    """the two-holder histories every ownership rule of copy() has to survive: entangle, leave the centre at one
    end, copy (or fork from the state), move ONE holder's centre to the other end (gates / canonical queries /
    a truncation-free SWAP), then query the OTHER; both orders of who moves and who is queried"""
    perm = cls == "CircuitPermMPS"

    def g2(lab, a, b, params=()):
        return {"kind": "auto_swap", "api": "circuit", "q": [a, b], "i": a, "j": b, "swap_back": not perm, "unitary": True,
                "opts": {"cutoff": 0.0}, "circuit": [lab, list(params)], "seed": 1}

    def g1(lab, a, params=(), unitary=True):
        return {"kind": "gate1", "q": [a], "i": a, "unitary": unitary, "contract": "auto-mps", "circuit": [lab, list(params)], "seed": 7}

    def le(a, kind="canon"):
        if kind == "canon":
            return {"kind": "canon", "api": "circuit_local_expectation", "q": [a], "where": [a], "as_int": True, "circuit": ["local_expectation", []], "seed": 3}
        return {"kind": "circ_dropped", "q": [a], "where": [a], "as_int": False, "circuit": ["local_expectation(dtype)", []], "seed": 3}

    scripts = []
    for how in ("copy", "psi0_fork"):
        for mover, other in ((1, 0), (0, 1)):
            for move in ("gates", "query", "raw"):
                ops = [{"w": "step", "k": 0, "op": g2("CNOT", N - 2, N - 1)}, {"w": "step", "k": 0, "op": g1("RY", N - 1, [0.7])},
                       {"w": how, "k": 0}]
                if move == "gates":
                    ops += [{"w": "step", "k": mover, "op": g2("CNOT", 0, 1)}, {"w": "step", "k": mover, "op": g1("RY", 0, [0.7])}]
                elif move == "query":
                    ops += [{"w": "step", "k": mover, "op": le(0)}]
                else:
                    ops += [{"w": "step", "k": mover, "op": g1("RAW", 0, unitary=False)}, {"w": "step", "k": mover, "op": le(1)}]
                ops += [{"w": "noop", "k": other, "api": "to_dense"}, {"w": "step", "k": other, "op": le(2)},
                        {"w": "step", "k": other, "op": le(N - 2, "dropped")}, {"w": "step", "k": mover, "op": le(1)},
                        {"w": "copy", "k": other}, {"w": "step", "k": 2, "op": g2("CZ", 0, N - 1)}, {"w": "step", "k": other, "op": le(3)}]
                scripts.append(ops)
    return scripts


def world_stream(ctx):
    """families of CircuitMPS / CircuitPermMPS related by copy() and Circuit(psi0=other's state): exact
    correspondence with the world model of coq/C08/World.v (which dict each holder threads, every holder's
    record and flags after every operation on any holder) + the property on every holder (oracle) + every
    holder's state against an independently evolved dense reference and fidelity_estimate (tests)"""
    rng = ctx.rng
    n = 0
    for cls in WORLD_CLASSES:
        for ops in directed_world_scripts(cls):
            n += 1
            spec = {"L": 5, "bonds": [2, 3, 3, 2], "phys": [2] * 5, "complex": True, "prep": "raw", "seed": 100 + n, "record": "unset"}
            W = run_world(ctx, {"cls": cls, "spec": spec, "max_bond": None, "warmup": 0}, ops=[json.loads(json.dumps(o)) for o in ops], hid=7000 + n)
            ctx.bump("world_directed:" + cls)
            if W.wsteps:
                PENDING.append((700000 + n, W.coq_case(), "world_directed", W))
    for h in range(1, ctx.n(90, 400) + 1):
        cls = WORLD_CLASSES[h % len(WORLD_CLASSES)]
        wspec = world_spec(rng, cls, entangled=rng.random() < 0.7)
        ctx.bump("world:" + cls + (":truncating" if wspec["max_bond"] else ""))
        W = run_world(ctx, wspec, nops=rng.randint(6, 18), hid=8000 + h)
        if h <= 1:
            ctx.sample({"world": wspec, "ops": W.ops_done[:5]})
        if W.wsteps:
            PENDING.append((800000 + h, W.coq_case(), "world", W))


def run_lazy_world(ctx, lspec, ops=None, nops=14):
    """a family of CircuitMPSLazy circuits related by copy().  Oracle only (a test, not a theorem: the lazily
    stacked gate layers are not in the Coq model): two-qubit gates are stacked lazily and the record is only
    meaningful when no layer is pending, so a holder is checked whenever it is in plain MPS form (nothing
    pending): its own record and flags against its own tensors, its state against its own gate history applied
    to a dense vector (1e-6: method='dm' goes through eigendecompositions), and the value of the query that
    was just made"""
    import quimb.tensor as qtn

    rng = ctx.rng
    N = lspec["N"]
    circ = qtn.CircuitMPSLazy(N, cutoff=0.0, compress_every=lspec["compress_every"], method=lspec["method"])
    ref0 = np.zeros(2**N, dtype=complex)
    ref0[0] = 1.0
    holders = [[circ, ref0]]
    done = []
    key0 = "circuit_world:CircuitMPSLazy:copy:"

    def payload(extra=None):
        d = {"lazy_world": lspec, "ops": done}
        if extra:
            d.update(extra)
        return d

    def check_all(what, actor):
        for j, (c, ref) in enumerate(holders):
            if c._uncompressed_sites or c._psi.num_tensors != N:
                ctx.bump("lazy_world_holder_pending")
                continue
            role = "actor" if j == actor else "bystander"
            rec, obs = read_record(c.gate_opts["info"]), observe(c._psi)
            ctx.bump("lazy_world_holder_checked")
            bad = record_violations(rec, obs) + flag_violations(obs)
            if bad:
                ctx.violation(key0 + role + ":stale_record", f"CircuitMPSLazy family: after {what} on holder {actor}, holder {j} (nothing pending) has "
                              f"record {rec} but " + "; ".join(bad[:2]), payload({"holder": j, "actor": actor}))
                return False
            got = dense_of(c._psi)
            if not close(got, ref, scale=float(np.abs(ref).max()), tol=1e-6):
                ctx.violation(key0 + role + ":state", f"CircuitMPSLazy family: after {what} on holder {actor}, the state of holder {j} differs from its own "
                              f"gate history applied to the dense state (max deviation {float(np.abs(got - ref).max()):.3g})", payload({"holder": j, "actor": actor}))
                return False
        return True

    for step in range(len(ops) if ops is not None else nops):
        if ops is not None:
            op = ops[step]
        else:
            n = len(holders)
            r = rng.random()
            k = rng.randrange(n)
            if (n == 1 and step >= lspec["warmup"]) or (n < 3 and r < 0.08):
                op = {"w": "copy", "k": k}
            elif r < 0.30:
                lab = rng.choice(["H", "T", "RX", "RY", "RZ"])
                op = {"w": "gate", "k": k, "lab": lab, "params": [round(rng.uniform(-3, 3), 3)] if lab[0] == "R" else [], "q": [rng.randrange(N)]}
            elif r < 0.65:
                lab = rng.choice(["CNOT", "CZ", "RZZ", "ISWAP"])
                op = {"w": "gate", "k": k, "lab": lab, "params": [round(rng.uniform(-3, 3), 3)] if lab == "RZZ" else [], "q": rng.sample(range(N), 2)}
            elif r < 0.90:
                op = {"w": "local_expectation", "k": k, "q": rng.sample(range(N), rng.choice([1, 1, 2])), "seed": rng.randrange(1 << 30)}
            else:
                op = {"w": "fidelity_estimate", "k": k}
        done.append(op)
        k = op["k"]
        c, ref = holders[k]
        kind = op["w"]
        ctx.bump("lazy_world_op:" + kind)
        ctx.count(("lazy_world", kind, len(holders), str(read_record(c.gate_opts["info"]))), kind != "gate")
        try:
            if kind == "copy":
                holders.append([c.copy(), ref.copy()])
            elif kind == "gate":
                G = np.asarray(qtn.Gate(op["lab"], tuple(op["params"]), tuple(op["q"])).array).reshape(2 ** len(op["q"]), -1)
                c.apply_gate(op["lab"], *op["params"], *op["q"])
                holders[k][1] = dense_apply(ref, [2] * N, G, list(op["q"]))
            elif kind == "local_expectation":
                G = rand_general(np.random.default_rng(op["seed"]), 2 ** len(op["q"]), True)
                val = complex(c.local_expectation(G, tuple(op["q"])))
                want = dense_expec(ref, [2] * N, G, list(op["q"]))
                if abs(val - want) > 1e-6 * max(1.0, abs(want)):
                    ctx.violation(key0 + "local_expectation", f"CircuitMPSLazy.local_expectation {val} of holder {k} vs its gate history on the dense state {want}",
                                  payload({"holder": k}))
                    return
            else:
                fe = float(c.fidelity_estimate())
                n2 = float(np.vdot(ref, ref).real)
                if abs(fe - n2) > 1e-6 * max(1.0, n2):
                    ctx.violation(key0 + "fidelity_estimate", f"CircuitMPSLazy.fidelity_estimate {fe} of holder {k}; dense <psi|psi> = {n2}", payload({"holder": k}))
                    return
        except Exception as e:
            ctx.violation(key0 + kind + ":raised", f"CircuitMPSLazy family: {kind} on holder {k} raised {type(e).__name__}: {str(e)[:140]}", payload({"holder": k}))
            return
        if not check_all(kind, k):
            return


def lazy_world_stream(ctx):
    rng = ctx.rng
    for it in range(ctx.n(30, 200)):
        lspec = {"N": rng.randint(3, 6), "compress_every": rng.choice([1, 2, 3]), "method": rng.choice(["dm", "direct", "zipup"]), "warmup": rng.randint(2, 8)}
        ctx.bump("lazy_world:" + lspec["method"])
        run_lazy_world(ctx, lspec, nops=rng.randint(8, 20))


def histories_stream(ctx):
    nh = ctx.n(150, 600)
    cases, drivers = [], {}
    for h in range(1, nh + 1):
        spec = gen_spec(ctx.rng, h)
        nops = ctx.rng.randint(5, 25) if ctx.quick else ctx.rng.randint(10, 50)
        ctx.bump("prep:" + spec["prep"])
        ctx.bump("record0:" + (spec["record"] if isinstance(spec["record"], str) else "tuple"))
        D = run_history(ctx, spec, nops=nops, p_bad=0.12, hid=h)
        if D.steps:
            cases.append((h, D.coq_case()))
            drivers[h] = D
        if h <= 2:
            ctx.sample({"spec": spec, "ops": D.ops_done[:4], "records": [str(s[3][0]) if s[3] else "raised" for s in D.steps[:4]]})
    for h, case in cases:
        PENDING.append((h, case, "histories", drivers[h]))


def first_divergence(ctx, D):
    """locate (inside Coq, one evaluation) the first step where model and
    implementation disagree, for the replay file"""
    import re

    st, h = D.coq_terms()
    rc, out, err = ctx.coq_eval(f"diag{D.hid}", HEADER + f"Eval vm_compute in (diag {st} {h} 1%nat).\n")
    info = D.payload()
    m = re.search(r"=\s*\((\d+),\s*(true|false),(.*)\)\s*:\s*nat \* bool \* option mps", out.replace("\n", " "), re.S)
    if rc != 0 or not m:
        info["diag_error"] = (out + err)[-600:]
        return info
    lo = int(m.group(1))
    info["first_bad_step"] = lo
    info["domain_check_ok"] = m.group(2) == "true"
    info["model_says"] = re.sub(r"\s+", " ", m.group(3))[:700]
    if lo:
        op, calc, bad, exp = D.steps[lo - 1]
        info["op"] = op
        info["impl_record_after"] = str(exp[0]) if exp else "raised"
        info["impl_flags_after"] = [o[2] for o in exp[1]] if exp else None
        info["impl_measured_LR_after"] = [(o[0] < TOL_ISO, o[1] < TOL_ISO) for o in exp[1]] if exp else None
    return info


def world_divergence(ctx, W):
    """first world step at which model and implementation part (one evaluation inside Coq)"""
    import re

    lets, w, h = W.coq_terms()
    rc, out, err = ctx.coq_eval(f"wdiag{W.hid}", WORLD_HEADER + f"Eval vm_compute in ({lets}wdiag {w} {h} 1%nat).\n")
    info = W.payload()
    m = re.search(r"=\s*(\d+)\s*:\s*nat", out.replace("\n", " "))
    if rc != 0 or not m:
        info["diag_error"] = (out + err)[-600:]
        return info
    lo = int(m.group(1))
    info["first_bad_step"] = lo
    if lo:
        coq, exp = W.wsteps[lo - 1]
        info["world_op"] = coq
        info["impl_after"] = None if exp is None else [{"record_dict": c, "record": str(r), "flags": [o[2] for o in obs]} for c, r, obs in exp]
    return info


# --------------------------------------------------------------------------- directed streams


def findings_stream(ctx):
    """the operations that left a false record before the fix commits (F9, F17,
    compress_site(canonize=False), dropped copies, measure at the last site),
    replayed on the implementation: regression scripts, each must now keep the
    record sound and agree with the model"""
    base = {"L": 6, "bonds": [3, 4, 4, 3, 2], "phys": [2] * 6, "complex": False, "prep": "canon", "seed": 11, "center": [3, 3], "record": [3, 3]}
    scripts = [
        [{"kind": "swap", "i": 2, "j": 3, "absorb": None, "opts": {"cutoff": 0.0}, "seed": 1}],
        [{"kind": "swap", "i": 1, "j": 4, "absorb": "both", "opts": {"cutoff": 0.0}, "seed": 1}],
        [{"kind": "swap_to", "i": 1, "f": 4, "absorb": "both", "opts": {"cutoff": 0.0}, "seed": 1}],
        [{"kind": "gate1", "i": 1, "unitary": False, "contract": True, "seed": 2}],
        [{"kind": "gate1", "i": 5, "unitary": False, "contract": "auto-mps", "seed": 2}],
        [{"kind": "gate1", "i": 0, "unitary": False, "contract": "swap+split", "seed": 2}],
        [{"kind": "gate1", "i": 4, "unitary": False, "contract": "nonlocal", "seed": 2}],
        [{"kind": "compress_site", "i": 1, "canonize": False, "opts": {"cutoff": 0.0}, "seed": 3}],
        [{"kind": "dropped", "api": "sample_configuration", "site": 0, "seed": 4}],
        [{"kind": "dropped", "api": "sample", "site": 0, "seed": 4}],
        [{"kind": "dropped", "api": "measure_outcome_copy", "site": 0, "seed": 4}],
        [{"kind": "measure", "site": 5, "remove": True, "renorm": False, "inplace": True, "seed": 5}],
        [{"kind": "measure", "site": 5, "remove": True, "renorm": True, "inplace": False, "seed": 5}],
    ]
    # compress_site must truncate from the centre (fix 3d1294d6; before it the error here was ~3x the optimal one)
    wide = {"L": 6, "bonds": [2, 4, 8, 4, 2], "phys": [2] * 6, "complex": True, "prep": "raw", "seed": 3, "record": "unset"}
    specs = [dict(base)] * len(scripts)
    for i, k in ((3, 2), (2, 1), (0, 1), (5, 1), (4, 3)):
        scripts.append([{"kind": "compress_site", "i": i, "canonize": True, "opts": {"max_bond": k, "cutoff": 0.0}, "seed": 6}])
        specs.append(dict(wide))
    # Tensor.normalize_ on a flagged site (before 7d04d5b5 the flag survived the rescale)
    for site in (1, 4):
        scripts.append([{"kind": "scale", "api": "site_normalize", "c": 1.0, "spread": 1, "site": site, "insert": None, "seed": 7},
                        {"kind": "fresh", "record": "calc", "seed": 0},
                        {"kind": "singvals", "api": "schmidt_values", "i": 3, "seed": 8}])
        specs.append(dict(base))
    cases, drivers = [], {}
    for n, ops in enumerate(scripts, 1):
        D = run_history(ctx, specs[n - 1], ops=ops, hid=1000 + n)
        ctx.bump("directed_finding_scripts")
        if D.steps:
            cases.append((n, D.coq_case()))
            drivers[n] = D
    for n, case in cases:
        PENDING.append((100000 + n, case, "findings", drivers[n]))


def rejected_stream(ctx):
    """calls outside the domain must be rejected on both sides"""
    import quimb.tensor as qtn

    cases = []
    cid = 0
    for L in (2, 4):
        for i in (0, L, L + 2):
            mps = qtn.MPS_rand_state(L, 2, seed=L)
            try:
                mps.singular_values(i, info={"cur_orthog": None})
                rejected = False
            except ValueError:
                rejected = True
            ctx.bump("rejected_stream")
            ctx.count(("rejected", L, i), True)
            if not rejected:
                ctx.violation("singular_values:out_of_range_accepted", f"singular_values({i}) on L={L} did not raise", {"L": L, "i": i})
            cid += 1
            sites = "[" + "; ".join("(FNone, false, false)" for _ in range(L)) + "]"
            cases.append((cid, f"match step (OSingVals {natlit(i)}) (0%nat, 0%nat) (start {sites} RNone) with None => true | Some _ => false end"))
    for cid, case in cases:
        PENDING.append((200000 + cid, case, "rejected", None))


def methods_stream(ctx):
    """gate_with_submpo with the other 1D compression methods (oracle only: the
    record (si,si) / (sf,sf) must be measured sound whatever the method)"""
    import quimb.tensor as qtn

    rng = ctx.rng
    methods = ["direct", "dm", "zipup"]
    for it in range(ctx.n(24, 240)):
        L = rng.randint(3, 6)
        spec = {"L": L, "bonds": [rng.randint(1, 3) for _ in range(L - 1)], "phys": [2] * L, "complex": rng.random() < 0.5, "prep": "raw",
                "seed": rng.randrange(1 << 30), "record": "none"}
        mps, info, _ = make_state(spec)
        method = methods[it % len(methods)]
        rev = rng.random() < 0.5
        where = sorted(rng.sample(range(L), 2))
        g = np.random.default_rng(spec["seed"] + 1)
        G = rand_general(g, 4, spec["complex"])
        c = rng.randrange(L)
        payload = {"spec": spec, "method": method, "where": where, "sweep_reverse": rev, "canonicalize_first": c}
        ctx.count(("method", method, L, tuple(where), rev, c), True)
        ctx.bump("submpo_method:" + method)
        try:
            mps.canonicalize_(c, info=info)
            psi0 = dense_of(mps)
            kw = {"sweep_reverse": True} if rev else {}
            mps.gate_nonlocal_(G, tuple(where), method=method, info=info, cutoff=0.0, max_bond=64, **kw)
        except Exception as e:
            ctx.violation(f"gate_nonlocal:method={method}:raised", f"gate_nonlocal(method={method}) raised {type(e).__name__}: {str(e)[:120]}", payload)
            continue
        obs = observe(mps)
        rec = read_record(info)
        bad = record_violations(rec, obs) + flag_violations(obs)
        if bad:
            ctx.violation(f"gate_nonlocal:method={method}:stale_record", f"gate_nonlocal(method={method}, sweep_reverse={rev}): record {rec} but " + "; ".join(bad[:2]), payload)
        want = dense_apply(psi0, [2] * L, G, where)
        if not close(dense_of(mps), want, scale=float(np.abs(want).max()), tol=1e-4):
            ctx.violation(f"gate_nonlocal:method={method}:state", f"gate_nonlocal(method={method}) state differs from the dense gate application", payload)


def circuit_stream(ctx):
    """CircuitMPS threads gate_opts['info'] through every gate: after each gate
    the record must be measured sound; local_expectation vs the dense state"""
    import quimb as qu
    import quimb.tensor as qtn

    rng = ctx.rng
    one = ["H", "X", "T", "S", "RZ", "RX"]
    two = ["CNOT", "CZ", "ISWAP", "RZZ", "FSIM", "SWAP"]
    for it in range(ctx.n(20, 200)):
        N = rng.randint(3, 6)
        circ = qtn.CircuitMPS(N, cutoff=0.0)
        gates = []
        ok = True
        for gi in range(rng.randint(4, 16)):
            raw = None
            if gi >= 2 and rng.random() < 0.18:
                # a non-unitary one-qubit operation (damping-like Kraus operator): widens the record to a
                # genuine range when it acts away from the centre
                lab = "RAW"
                q = (rng.randrange(N),)
                gk = np.random.default_rng(rng.randrange(1 << 30))
                raw = np.diag([1.0, round(rng.uniform(0.3, 0.8), 3)]) @ rand_unitary(gk, 2, True)
            elif rng.random() < 0.4:
                lab = rng.choice(one)
                q = (rng.randrange(N),)
            else:
                lab = rng.choice(two if rng.random() < 0.9 else ["SWAP"])
                q = tuple(rng.sample(range(N), 2))
            params = ()
            if lab in ("RZ", "RX", "RZZ"):
                params = (round(rng.uniform(-3, 3), 3),)
            elif lab == "FSIM":
                params = (round(rng.uniform(-3, 3), 3), round(rng.uniform(-3, 3), 3))
            gates.append([lab, list(params) if raw is None else [[str(x) for x in row] for row in raw.tolist()], list(q)])
            payload = {"N": N, "gates": gates}
            adj = len(q) == 2 and abs(q[0] - q[1]) == 1
            try:
                if raw is not None:
                    circ.apply_gate_raw(raw, list(q))
                else:
                    circ.apply_gate(lab, *params, *q)
            except Exception as e:
                ctx.violation(f"CircuitMPS:{lab}:raised", f"CircuitMPS.apply_gate({lab}) raised {type(e).__name__}: {str(e)[:120]}", payload)
                ok = False
                break
            psi = circ._psi
            rec = read_record(circ.gate_opts["info"])
            obs = observe(psi)
            ctx.count(("circuit", N, lab, q, str(rec)), True)
            ctx.bump("circuit_gate")
            bad = record_violations(rec, obs) + flag_violations(obs)
            if bad:
                cls = lab if lab != "SWAP" else ("SWAP:adjacent" if adj else "SWAP:distant")
                ctx.violation(f"CircuitMPS:{cls}:stale_record", f"CircuitMPS after {lab}{q}: record {rec} but " + "; ".join(bad[:2]), payload)
                ok = False
                break
            # consumers of the record in the circuit layer: the norm-based fidelity / error estimate
            psid = dense_of(psi)
            n2 = float(np.vdot(psid, psid).real)
            try:
                fe, ee = float(circ.fidelity_estimate()), float(circ.error_estimate())
            except Exception as e:
                ctx.violation("CircuitMPS:fidelity_estimate:raised", f"fidelity_estimate raised {type(e).__name__}: {str(e)[:120]}", payload)
                ok = False
                break
            isrange = isinstance(rec, tuple) and rec[0] != rec[1]
            ctx.bump("circuit_fidelity_estimate" + (":range_record" if isrange else ""))
            if abs(fe - n2) > TOL_VAL * max(1.0, n2) or abs(ee - (1 - n2)) > TOL_VAL * max(1.0, n2):
                ctx.violation("CircuitMPS:fidelity_estimate" + (":range_record" if isrange else ""),
                              f"CircuitMPS.fidelity_estimate {fe} / error_estimate {ee} with record {rec}; dense <psi|psi> = {n2}", payload)
                ok = False
                break
        if not ok:
            continue
        dense = np.asarray(circ.to_dense()).reshape(-1)
        w = rng.sample(range(N), rng.choice([1, 2]))
        g = np.random.default_rng(it)
        G = rand_general(g, 2 ** len(w), True)
        try:
            val = complex(circ.local_expectation(G, tuple(w)))
        except Exception as e:
            ctx.violation("CircuitMPS:local_expectation:raised", f"local_expectation raised {type(e).__name__}: {str(e)[:120]}", {"N": N, "gates": gates, "where": w})
            continue
        ref = dense_expec(dense, [2] * N, G, w)
        if abs(val - ref) > TOL_VAL * max(1, abs(ref)):
            ctx.violation("CircuitMPS:local_expectation", f"CircuitMPS.local_expectation {val} vs dense {ref}", {"N": N, "gates": gates, "where": w})


# --------------------------------------------------------------------------- entry points


def setup(ctx):
    ctx.extra["rule"] = RULE
    ctx.trusted_base += [
        "hand-written model coq/C08/Model.v of quimb/tensor/tn1d/core.py (canonicalize, swap_sites_with_compress, swap_site_to, "
        "gate_with_auto_swap, gate_with_submpo/gate_nonlocal, compress_site, singular_values, measure, sample_configuration, "
        "compute_local_expectation_canonical) and of the left_inds shortcut of tensor_canonize_bond; tie = correspondence evaluated "
        "in Coq: record and every tensor's flag after every operation of every history must equal the implementation's",
        "oracle contracts (primitive effects, Section-free: they are the definitions of the primitives in Model.v): QR/LQ returns an "
        "isometry; SVD factors U, V^dag are isometries and absorb=left/right puts the singular values on that side; a unitary on the "
        "physical leg preserves isometry; tensor_network_1d_compress(method='direct') leaves the block right- (left- if sweep_reverse) "
        "canonical; calc_current_orthog_center is sound. Each is validated numerically on every run by `guaranteed => measured` "
        f"(isometry defect < {TOL_ISO}) - a test of the assumption, not a proof",
        "consumers (Schmidt values, entropies, canonical expectations, reduced density matrices, magnetization, measurement "
        f"probabilities / post-measurement state, sampling probabilities) are compared with the dense state at {TOL_VAL}: test, not theorem",
    ]
    ctx.assumptions += [
        "the record theorem is about the model; the implementation is tied to it by the exact correspondence on the sampled histories",
        "numerics (QR, SVD, contraction) enter only through the primitive effects listed in the trusted base",
        "cyclic MPS, bra= arguments and non-'direct' sub-MPO compression methods are not modelled (the latter are covered by the oracle stream)",
        "world model (C08/World.v): a holder = tensor statuses + the address of the record dict it threads; Circuit.copy() and Circuit(psi0=...) "
        "allocate a new dict. The implementation's dict identities (id of gate_opts['info']) are compared with the model's addresses after every "
        "operation. CircuitPermMPS is modelled through the physical sites its own `qubits` list names; that list (and every holder's tensors) is "
        "checked only by the dense-reference test. CircuitMPSLazy's pending gate layers are not modelled: oracle-only stream, holders checked "
        "whenever nothing is pending",
    ]
    ctx.check_props(["Base/Sums.vo", "C08/Model.vo", "C08/Proofs.vo", "C08/Region.vo", "C08/Historic.vo", "C08/World.vo", "C08/Props.v"])


def run(ctx):
    import time

    t = time.time()
    setup(ctx)
    times = {"coq_props": round(time.time() - t, 1)}
    for fn in (corpus_stream, findings_stream, rejected_stream, histories_stream, circuit_psi0_stream, world_stream, flush, lazy_world_stream,
               methods_stream, circuit_stream):
        t = time.time()
        ctx.stage(fn)
        times[fn.__name__] = round(time.time() - t, 1)
    ctx.extra["stage_wall_s"] = times


def corpus_stream(ctx):
    import glob
    import os

    from harness.common import VERIF

    cases, drivers = [], {}
    for n, path in enumerate(sorted(glob.glob(os.path.join(VERIF, "corpus", "C08", "*.json"))), 1):
        with open(path) as f:
            d = json.load(f)
        d = d.get("replay", d)
        if "world" in d and "ops" in d:
            W = run_world(ctx, d["world"], ops=d["ops"], hid=2000 + n)
            ctx.bump("corpus")
            if W.wsteps:
                PENDING.append((300000 + n, W.coq_case(), "corpus_world", W))
            continue
        if "spec" not in d or "ops" not in d:
            continue
        D = (run_circuit_history if d.get("circuit") else run_history)(ctx, d["spec"], ops=d["ops"], hid=2000 + n)
        ctx.bump("corpus")
        if D.steps:
            cases.append((n, D.coq_case()))
            drivers[n] = D
    for n, case in cases:
        PENDING.append((300000 + n, case, "corpus", drivers[n]))


def replay(ctx, path):
    """re-run the history stored in a replay file (oracle + correspondence)"""
    setup(ctx)
    with open(path) as f:
        d = json.load(f)
    d = d.get("replay", d)
    if isinstance(d, dict) and "lazy_world" in d and "ops" in d:
        run_lazy_world(ctx, d["lazy_world"], ops=d["ops"])
    elif isinstance(d, dict) and "world" in d and "ops" in d:
        W = run_world(ctx, d["world"], ops=d["ops"], hid=1)
        if W.wsteps:
            failed, errors = ctx.coq_cases("replay", WORLD_HEADER, [(1, W.coq_case())], shard=5)
            for p, err in errors:
                ctx.broken_obligation("correspondence:replay", err)
            if failed:
                ctx.broken_obligation("correspondence:model_vs_implementation(replay)", world_divergence(ctx, W))
    elif isinstance(d, dict) and "spec" in d and "ops" in d:
        D = (run_circuit_history if d.get("circuit") else run_history)(ctx, d["spec"], ops=d["ops"], hid=1)
        if D.steps:
            failed, errors = ctx.coq_cases("replay", HEADER, [(1, D.coq_case())], shard=5)
            for p, err in errors:
                ctx.broken_obligation("correspondence:replay", err)
            if failed:
                ctx.broken_obligation("correspondence:model_vs_implementation(replay)", first_divergence(ctx, D))
    else:
        run(ctx)

#!/bin/bash
# Re-check every compiled .vo of the development (and everything it depends on) with Coq's independent
# checker and print the axioms the whole closure relies on.  Needs the .vo files (run tools/setup.sh first).
# Writes docs/coqchk_report.txt.  ~3-5 min, up to 4 GB.
cd /verif/coq
mods=$(find . -name '*.v' -not -path './.work/*' | sed 's|^\./||; s|\.v$||; s|/|.|g; s|^|QV.|' | sort | tr '\n' ' ')
{ echo "# coqchk -o -silent -Q . QV <$(echo $mods | wc -w) modules>  ($(coqchk --version 2>/dev/null | head -1))"; 
  timeout 6000 coqchk -o -silent -Q . QV $mods 2>&1; echo "exit=$?"; } | grep -v "WARNING conda" > /verif/docs/coqchk_report.txt
tail -25 /verif/docs/coqchk_report.txt

#!/usr/bin/env python3
"""Regenerate /verif/MANIFEST.json from harness/meta/Cxx.json and
/verif/known_findings.json from known_findings.d/Cxx.json."""
import glob, json, os

ROOT = os.path.dirname(os.path.dirname(os.path.abspath(__file__)))
ALL = [f"C{i:02d}" for i in range(1, 21)]
CHECKS = {}
for f in sorted(glob.glob(os.path.join(ROOT, "harness/meta/C*.json"))):
    d = json.load(open(f))
    # a property is claimed only once the lead has integrated it (ready flag set by tools/mark_ready.py)
    if d.get("ready") and os.path.exists(os.path.join(ROOT, "harness", d["property_id"].lower() + ".py")):
        CHECKS[d["property_id"]] = d
NA = {}
if os.path.exists(os.path.join(ROOT, "harness/meta/not_applicable.json")):
    NA = json.load(open(os.path.join(ROOT, "harness/meta/not_applicable.json")))

m = {
    "version": 1,
    "setup_cmd": "bash /verif/tools/setup.sh",
    "hooks": {
        "guard": "QUIMB_VERIF",
        "enable": "no source hooks: checks observe quimb through its Python API and by rebinding module globals at run time (QUIMB_VERIF=1 is exported by ./check but nothing in /repo reads it)",
        "baseline_off_cmd": "cd /repo && /venv/bin/python -m pytest -ra -q -p no:cacheprovider --timeout=900 --continue-on-collection-errors",
        "source_commits": [],
        "add_only": True,
    },
    "engines": [
        {
            "name": "coq-proof-and-correspondence",
            "path": "/verif/check",
            "serves_properties": sorted(CHECKS),
            "kind_free_text": "Coq 8.16.1 theorems over translated / hand-written executable Gallina models; models tied to /repo by a Python-ast translator and by vm_compute correspondence against the running implementation",
        }
    ],
    "checks": [],
    "not_applicable": [],
    "notes": "Repairs of genuine defects are 'fix:' commits in /repo, listed as fixed entries in known_findings.json (merged from known_findings.d/).",
}
for pid in ALL:
    if pid in CHECKS:
        c = CHECKS[pid]
        m["checks"].append(
            {
                "property_id": pid,
                "quick_cmd": f"./check {pid} --tier quick",
                "thorough_cmd": f"./check {pid} --tier thorough",
                "evidence_file": f"/verif/evidence/{pid}.json",
                "replay_cmd_template": f"./check {pid} --replay {{path}}",
                "engine": "coq-proof-and-correspondence",
                "level_claimed": {"category": c.get("category", "proof"), "text": c["level_text"], "design_ref": c["design_ref"]},
                "level_note": c["level_note"],
                "technique": c["technique"],
            }
        )
    else:
        m["not_applicable"].append(
            {"property_id": pid, "reason": NA.get(pid, "check not built yet in this round (see DESIGN.md section 4); not claimed")}
        )
json.dump(m, open(os.path.join(ROOT, "MANIFEST.json"), "w"), indent=1)

merged = {"_doc": "Merged from known_findings.d/Cxx.json by tools/gen_manifest.py. 'findings' with status open suppress exactly the violation whose key matches (key = call site + input class); 'fixed' lines suppress nothing. Never written at run time.", "findings": [], "fixed": []}
for f in sorted(glob.glob(os.path.join(ROOT, "known_findings.d/C*.json"))):
    if os.path.basename(f)[:-5] not in CHECKS:
        continue
    d = json.load(open(f))
    merged["findings"] += d.get("findings", [])
    merged["fixed"] += d.get("fixed", [])
json.dump(merged, open(os.path.join(ROOT, "known_findings.json"), "w"), indent=1)
print("checks:", [c["property_id"] for c in m["checks"]], "open findings:", len(merged["findings"]), "fixed:", len(merged["fixed"]))

#!/usr/bin/env python3
"""Regenerate /verif/MANIFEST.json from harness/registry.py."""
import json, os, sys
sys.path.insert(0, os.path.dirname(os.path.dirname(os.path.abspath(__file__))))
from harness.registry import CHECKS

ALL = [f"C{i:02d}" for i in range(1, 21)]
NA = {}
try:
    from harness.registry import NOT_APPLICABLE as NA
except ImportError:
    pass

m = {
    "version": 1,
    "setup_cmd": "bash /verif/tools/setup.sh",
    "hooks": {
        "guard": "QUIMB_VERIF",
        "enable": "no source hooks: checks observe quimb through its Python API and by rebinding module globals at run time (QUIMB_VERIF=1 is exported by ./check but nothing in /repo reads it)",
        "baseline_off_cmd": "cd /repo && /venv/bin/python -m pytest -ra -q -p no:cacheprovider --timeout=900 --continue-on-collection-errors",
        "source_commits": [],
        "add_only": True,
    },
    "engines": [
        {
            "name": "coq-proof-and-correspondence",
            "path": "/verif/check",
            "serves_properties": sorted(CHECKS),
            "kind_free_text": "Coq 8.16.1 theorems over translated / hand-written executable Gallina models; models tied to /repo by a Python-ast translator and by vm_compute correspondence against the running implementation",
        }
    ],
    "checks": [],
    "not_applicable": [],
    "notes": "Repairs of genuine defects are 'fix:' commits in /repo, listed as fixed entries in known_findings.json.",
}
for pid in ALL:
    if pid in CHECKS:
        c = CHECKS[pid]
        m["checks"].append(
            {
                "property_id": pid,
                "quick_cmd": f"./check {pid} --tier quick",
                "thorough_cmd": f"./check {pid} --tier thorough",
                "evidence_file": f"/verif/evidence/{pid}.json",
                "replay_cmd_template": f"./check {pid} --replay {{path}}",
                "engine": "coq-proof-and-correspondence",
                "level_claimed": {"category": c["category"], "text": c["level_text"], "design_ref": c["design_ref"]},
                "level_note": c["level_note"],
                "technique": c["technique"],
            }
        )
    else:
        m["not_applicable"].append(
            {"property_id": pid, "reason": NA.get(pid, "check not built yet in this round (see DESIGN.md section 4); not claimed")}
        )
with open(os.path.join(os.path.dirname(os.path.dirname(os.path.abspath(__file__))), "MANIFEST.json"), "w") as f:
    json.dump(m, f, indent=1)
print("checks:", [c["property_id"] for c in m["checks"]])

#!/bin/bash
# Build the whole Coq development from files on disk (full .vo build).
set -e
cd /verif/coq
if grep -rnE '\b(Admitted|admit|Axiom|Parameter|Conjecture|bypass_check)\b|Unset Guard' --include=*.v . | grep -v '(\*.*\*)' ; then
  echo "grep gate failed" >&2; exit 1
fi
# _CoqProject lists every .v file under coq/ (dependencies are found by coqdep)
{ echo "-Q . QV"; find . -name '*.v' -not -path './.work/*' | sed 's|^\./||' | sort; } > _CoqProject
coq_makefile -f _CoqProject -o Makefile > /dev/null
# -k: one file that does not compile must not take the other properties down with it (the check of the property that
# needs it reports the broken obligation itself: Ctx.check_props rebuilds its own closure and fails closed)
timeout 3000 make -k -j16 2>&1 | grep -v "^COQC\|^COQDEP\|WARNING conda" || true
# every listed file must have been built
missing=0
for f in $(grep '\.v$' _CoqProject); do test -f "${f}o" || { echo "setup: NOT BUILT ${f}o (the checks that need it will report it)" >&2; missing=$((missing+1)); }; done
mkdir -p /verif/.cache/numba /verif/.work /verif/replay /verif/evidence
# networkx (needed by quimb MPO builder paths) from the offline wheelhouse into a private dir; /venv is left untouched
if [ ! -d /verif/.pydeps/networkx ]; then /venv/bin/pip install -q --no-index --find-links /opt/veriftools/wheels --target /verif/.pydeps networkx 2>&1 | grep -v WARNING || true; fi
echo "setup-ok (files not built: $missing)"

#!/usr/bin/env python3
"""Run quimb's pinned test suite (guard off, plain environment) and compare with
/root/.vp/BASELINE.json: prints every stable_pass test that did not pass.
usage: run_baseline.py [-n WORKERS] [pytest selection args...]"""
import json, subprocess, sys, xml.etree.ElementTree as ET, os, time

args = sys.argv[1:]
workers = "8"
if args[:1] == ["-n"]:
    workers = args[1]; args = args[2:]
out = "/root/scratch/junit_baseline.xml"
os.makedirs("/root/scratch", exist_ok=True)
cmd = ["/venv/bin/python", "-m", "pytest", "-q", "-p", "no:cacheprovider", "--timeout=1800",
       "--continue-on-collection-errors", f"--junitxml={out}", "-n", workers] + args
t0 = time.time()
env = dict(os.environ); env.pop("PYTHONPATH", None); env.pop("QUIMB_VERIF", None); env.setdefault("OMP_NUM_THREADS", "1")
p = subprocess.run(cmd, cwd="/repo", env=env, capture_output=True, text=True)
print(p.stdout[-1500:])
base = json.load(open("/root/.vp/BASELINE.json"))
stable = set(base["stable_pass"])
res = {}
for tc in ET.parse(out).getroot().iter("testcase"):
    name = f"{tc.get('classname')}::{tc.get('name')}"
    bad = any(ch.tag in ("failure", "error", "skipped") for ch in tc)
    res[name] = not bad
ran = [n for n in stable if n in res]
notpass = sorted(n for n in ran if not res[n])
missing = sorted(n for n in stable if n not in res) if not args else []
print(f"stable_pass total={len(stable)} ran={len(ran)} not_passing={len(notpass)} missing={len(missing)} wall={time.time()-t0:.0f}s")
for n in notpass[:80]:
    print("NOT PASSING:", n)
for n in missing[:20]:
    print("MISSING:", n)
sys.exit(1 if (notpass or missing) else 0)

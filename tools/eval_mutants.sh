#!/bin/bash
# usage: eval_mutants.sh Cxx  -> runs ./check Cxx against each /tmp/mut_Cxx_out/mN patch in the /tmp/mut_Cxx worktree
P=$1
cd /verif
git -C /tmp/mut_$P checkout -q -- . ; git -C /tmp/mut_$P checkout -q --detach $(git -C /repo rev-parse HEAD)
for m in m1 m2 m3; do
  echo "== $P $m"
  if git -C /tmp/mut_$P apply /tmp/mut_${P}_out/$m/patch.diff; then
    VERIF_REPO=/tmp/mut_$P timeout 3000 ./check $P 2>&1 | grep -E "VIOLATION|^  \(|^\[$P\]" | head -6 | cut -c1-260
  else
    echo "PATCH DOES NOT APPLY"
  fi
  git -C /tmp/mut_$P checkout -q -- .
done

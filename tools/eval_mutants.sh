#!/bin/bash
# usage: eval_mutants.sh Cxx [prefix] -> runs ./check Cxx against each /tmp/<prefix>_Cxx_out/mN patch in the
# scratch worktree /tmp/<prefix>_Cxx (checked out at /repo's current HEAD first). prefix defaults to "mut".
P=$1
PFX=${2:-mut}
W=/tmp/${PFX}_$P
cd /verif
git -C $W checkout -q -- . ; git -C $W checkout -q --detach $(git -C /repo rev-parse HEAD)
for d in /tmp/${PFX}_${P}_out/m[0-9]; do
  m=$(basename $d)
  echo "== $P $m"
  if git -C $W apply $d/patch.diff; then
    VERIF_REPO=$W timeout 3000 ./check $P 2>&1 | grep -E "VIOLATION|^  \(|^\[$P\]" | head -6 | cut -c1-260
  else
    echo "PATCH DOES NOT APPLY"
  fi
  git -C $W checkout -q -- .
done

"""Fail-closed translator: a small integer subset of Python -> Gallina.

Every translated function becomes

    Definition f (args : Z) : option T := ...

where `None` stands for "Python raises here" (division or modulo by zero, an
index out of range, a loop that ran out of fuel).  All locals are unbounded
integers (Z); arrays are `list Z`.  Anything outside the whitelisted subset
raises `Refuse` - the caller treats that as a broken proof obligation.

Whitelist
  statements : assignment (name, tuple of names, `a[i] = e`), augmented
               assignment (+=, -=, *=, //=), if/elif/else, return (value or
               tuple), `for i in range(...)` with loop-carried locals and an
               optional `break`/early `return`-free body, `while cond:` (fuelled),
               docstrings, `pass`, `assert` (ignored - recorded)
  exprs      : int constants, names, + - * // % **(const), unary -, comparisons
               (chained), and/or/not, `x if c else y`, min/max/abs/int/len,
               divmod, round(a / b), np.ceil(a / b), int(np.ceil(a / b)),
               a[i] reads, `a / b` only inside round/ceil, calls to other
               translated functions, True/False, bit ops << >> & | ^
"""

import ast
import textwrap

COQ_KEYWORDS = {
    "in", "at", "as", "by", "do", "end", "exists", "fix", "for", "forall", "fun",
    "if", "is", "let", "match", "mod", "return", "then", "using", "where", "with",
    "Type", "Set", "Prop", "else", "cofix", "nat", "list", "Some", "None", "pair",
    "fst", "snd", "length", "nth", "id", "le", "lt", "eq", "S", "O", "I", "tt",
}


class Refuse(Exception):
    pass


def cname(n):
    if n in COQ_KEYWORDS:
        return n + "_"
    if n.startswith("_"):
        return "u" + n
    return n


class FnTranslator:
    def __init__(self, fn, known, array_params=(), bool_params=(), ret_arity=None, fuel="1000"):
        self.fn = fn
        self.known = known  # name -> (coq name, ret_arity)
        self.arrays = set(array_params)
        self.bools = set(bool_params)
        self.ret_arity = ret_arity
        self.fuel = fuel
        self.notes = []

    # ---- expressions -----------------------------------------------------
    # returns (coq_text, guards) where guards is a list of coq bool exprs that
    # must be true for the expression not to raise
    def ex(self, e):
        if isinstance(e, ast.Constant):
            if isinstance(e.value, bool):
                return ("1" if e.value else "0"), []
            if isinstance(e.value, int):
                return (f"({e.value})" if e.value < 0 else str(e.value)), []
            raise Refuse(f"constant {e.value!r}")
        if isinstance(e, ast.Name):
            return cname(e.id), []
        if isinstance(e, ast.UnaryOp):
            if isinstance(e.op, ast.USub):
                t, g = self.ex(e.operand)
                return f"(- {t})", g
            if isinstance(e.op, ast.UAdd):
                return self.ex(e.operand)
            if isinstance(e.op, ast.Not):
                t, g = self.bx(e.operand)
                return f"(b2z (negb {t}))", g
            raise Refuse("unary op")
        if isinstance(e, ast.BinOp):
            if isinstance(e.op, ast.Div):
                raise Refuse("true division outside round()/ceil()")
            a, ga = self.ex(e.left)
            b, gb = self.ex(e.right)
            g = ga + gb
            if isinstance(e.op, ast.Add):
                return f"({a} + {b})", g
            if isinstance(e.op, ast.Sub):
                return f"({a} - {b})", g
            if isinstance(e.op, ast.Mult):
                return f"({a} * {b})", g
            if isinstance(e.op, ast.FloorDiv):
                return f"({a} / {b})", g + [f"negb ({b} =? 0)"]
            if isinstance(e.op, ast.Mod):
                return f"({a} mod {b})", g + [f"negb ({b} =? 0)"]
            if isinstance(e.op, ast.Pow):
                return f"({a} ^ {b})", g + [f"(0 <=? {b})"]
            if isinstance(e.op, ast.LShift):
                return f"(Z.shiftl {a} {b})", g + [f"(0 <=? {b})"]
            if isinstance(e.op, ast.RShift):
                return f"(Z.shiftr {a} {b})", g + [f"(0 <=? {b})"]
            if isinstance(e.op, ast.BitAnd):
                return f"(Z.land {a} {b})", g
            if isinstance(e.op, ast.BitOr):
                return f"(Z.lor {a} {b})", g
            if isinstance(e.op, ast.BitXor):
                return f"(Z.lxor {a} {b})", g
            raise Refuse("binop")
        if isinstance(e, ast.IfExp):
            c, gc = self.bx(e.test)
            a, ga = self.ex(e.body)
            b, gb = self.ex(e.orelse)
            # guards of the branches only matter on their side
            ga_ = " && ".join(ga) if ga else "true"
            gb_ = " && ".join(gb) if gb else "true"
            g = gc + ([f"(if {c} then {ga_} else {gb_})"] if (ga or gb) else [])
            return f"(if {c} then {a} else {b})", g
        if isinstance(e, (ast.Compare, ast.BoolOp)):
            t, g = self.bx(e)
            return f"(b2z {t})", g
        if isinstance(e, ast.Subscript):
            if not isinstance(e.value, ast.Name):
                raise Refuse("subscript of non-name")
            arr = cname(e.value.id)
            if isinstance(e.slice, ast.Slice):
                raise Refuse("slice in expression")
            i, gi = self.ex(e.slice)
            return f"(nthZ {arr} {i})", gi + [f"(inb {arr} {i})"]
        if isinstance(e, ast.Call):
            return self.call(e)
        raise Refuse(f"expression {ast.dump(e)[:80]}")

    def _ratio(self, e):
        """e must be `a / b`; returns (a, b, guards)."""
        if isinstance(e, ast.BinOp) and isinstance(e.op, ast.Div):
            a, ga = self.ex(e.left)
            b, gb = self.ex(e.right)
            return a, b, ga + gb + [f"negb ({b} =? 0)"]
        raise Refuse("expected a / b")

    def call(self, e):
        f = e.func
        if e.keywords:
            raise Refuse("keyword arguments")
        name = None
        if isinstance(f, ast.Name):
            name = f.id
        elif isinstance(f, ast.Attribute) and isinstance(f.value, ast.Name):
            name = f.value.id + "." + f.attr
        if name in ("min", "max"):
            args = [self.ex(a) for a in e.args]
            if len(args) < 2:
                raise Refuse("min/max arity")
            t, g = args[0]
            op = "Z.min" if name == "min" else "Z.max"
            for t2, g2 in args[1:]:
                t = f"({op} {t} {t2})"
                g = g + g2
            return t, g
        if name == "abs":
            t, g = self.ex(e.args[0])
            return f"(Z.abs {t})", g
        if name == "int":
            return self.ex(e.args[0])
        if name == "len":
            t, g = self.ex(e.args[0])
            return f"(lenZ {t})", g
        if name == "round" and len(e.args) == 1:
            a, b, g = self._ratio(e.args[0])
            return f"(round_half_even {a} {b})", g
        if name in ("np.ceil", "math.ceil") and len(e.args) == 1:
            a, b, g = self._ratio(e.args[0])
            return f"(ceil_div {a} {b})", g
        if name in ("np.floor", "math.floor") and len(e.args) == 1:
            a, b, g = self._ratio(e.args[0])
            return f"({a} / {b})", g
        if name == "divmod" and len(e.args) == 2:
            a, ga = self.ex(e.args[0])
            b, gb = self.ex(e.args[1])
            return f"(({a} / {b}), ({a} mod {b}))", ga + gb + [f"negb ({b} =? 0)"]
        if name in self.known:
            raise Refuse("call to translated function must be a statement-level binding")
        raise Refuse(f"call to {name}")

    def bx(self, e):
        if isinstance(e, ast.Compare):
            parts = []
            g = []
            left, gl = self.ex(e.left)
            g += gl
            for op, right in zip(e.ops, e.comparators):
                r, gr = self.ex(right)
                g += gr
                sym = {
                    ast.Lt: "<?", ast.LtE: "<=?", ast.Gt: ">?", ast.GtE: ">=?", ast.Eq: "=?",
                }.get(type(op))
                if sym:
                    parts.append(f"({left} {sym} {r})")
                elif isinstance(op, ast.NotEq):
                    parts.append(f"(negb ({left} =? {r}))")
                else:
                    raise Refuse("comparison op")
                left = r
            return ("(" + " && ".join(parts) + ")"), g
        if isinstance(e, ast.BoolOp):
            ts = [self.bx(v) for v in e.values]
            # short-circuit: guards of later operands only matter if reached;
            # we are conservative and refuse guarded operands after the first
            for t, g in ts[1:]:
                if g:
                    raise Refuse("guarded operand under short-circuit")
            op = " && " if isinstance(e.op, ast.And) else " || "
            return "(" + op.join(t for t, _ in ts) + ")", ts[0][1]
        if isinstance(e, ast.UnaryOp) and isinstance(e.op, ast.Not):
            t, g = self.bx(e.operand)
            return f"(negb {t})", g
        if isinstance(e, ast.Constant) and isinstance(e.value, bool):
            return ("true" if e.value else "false"), []
        if isinstance(e, ast.Name) and e.id in self.bools:
            return f"(negb ({cname(e.id)} =? 0))", []
        t, g = self.ex(e)
        return f"(negb ({t} =? 0))", g

    # ---- statements ------------------------------------------------------------
    @staticmethod
    def assigned(stmts):
        out = []

        def add(n):
            if n not in out:
                out.append(n)

        for s in stmts:
            if isinstance(s, ast.Assign):
                for t in s.targets:
                    if isinstance(t, ast.Name):
                        add(t.id)
                    elif isinstance(t, ast.Tuple):
                        for x in t.elts:
                            if isinstance(x, ast.Name):
                                add(x.id)
                            else:
                                raise Refuse("tuple target")
                    elif isinstance(t, ast.Subscript) and isinstance(t.value, ast.Name):
                        add(t.value.id)
                    else:
                        raise Refuse("assign target")
            elif isinstance(s, ast.AugAssign):
                if isinstance(s.target, ast.Name):
                    add(s.target.id)
                elif isinstance(s.target, ast.Subscript) and isinstance(s.target.value, ast.Name):
                    add(s.target.value.id)
                else:
                    raise Refuse("augassign target")
            elif isinstance(s, ast.If):
                for n in FnTranslator.assigned(s.body) + FnTranslator.assigned(s.orelse):
                    add(n)
            elif isinstance(s, (ast.For, ast.While)):
                if isinstance(s, ast.For):
                    if isinstance(s.target, ast.Name):
                        pass
                    else:
                        raise Refuse("for target")
                for n in FnTranslator.assigned(s.body):
                    add(n)
        return out

    @staticmethod
    def always_returns(stmts):
        if not stmts:
            return False
        s = stmts[-1]
        if isinstance(s, ast.Return):
            return True
        if isinstance(s, ast.Raise):
            return True
        if isinstance(s, ast.If):
            return FnTranslator.always_returns(s.body) and FnTranslator.always_returns(s.orelse)
        return False

    @staticmethod
    def contains(stmts, kinds):
        for s in stmts:
            for n in ast.walk(s):
                if isinstance(n, kinds):
                    return True
        return False

    def guard(self, g, body):
        if not g:
            return body
        return f"if negb ({' && '.join(g)}) then None else\n{body}"

    def tuple_of(self, names):
        if len(names) == 1:
            return cname(names[0])
        return "(" + ", ".join(cname(n) for n in names) + ")"

    def mpat_of(self, names):
        return self.tuple_of(names)

    def pat_of(self, names):
        if len(names) == 1:
            return cname(names[0])
        return "'(" + ", ".join(cname(n) for n in names) + ")"

    def block(self, stmts, defined, final):
        """Translate stmts followed by `final` (a function of the defined-name
        set giving the coq text of the continuation, of type option T)."""
        if not stmts:
            return final(defined)
        s, rest = stmts[0], stmts[1:]
        if isinstance(s, ast.Expr) and isinstance(s.value, ast.Constant):
            return self.block(rest, defined, final)  # docstring
        if isinstance(s, ast.Pass):
            return self.block(rest, defined, final)
        if isinstance(s, ast.Assert):
            self.notes.append("assert ignored: " + ast.unparse(s.test))
            return self.block(rest, defined, final)
        if isinstance(s, ast.Raise):
            return "None"
        if isinstance(s, ast.Return):
            if s.value is None:
                raise Refuse("bare return")
            if isinstance(s.value, ast.Tuple):
                ts = [self.ex(x) for x in s.value.elts]
                g = sum((g for _, g in ts), [])
                return self.guard(g, "Some (" + ", ".join(t for t, _ in ts) + ")")
            if isinstance(s.value, ast.Call) and self._known_call(s.value):
                return self._known_call_text(s.value)
            t, g = self.ex(s.value)
            return self.guard(g, f"Some {t}")
        if isinstance(s, ast.Assign):
            if len(s.targets) != 1:
                raise Refuse("multi-target assign")
            tgt = s.targets[0]
            if isinstance(tgt, ast.Subscript):
                if not isinstance(tgt.value, ast.Name) or isinstance(tgt.slice, ast.Slice):
                    raise Refuse("subscript store")
                arr = tgt.value.id
                i, gi = self.ex(tgt.slice)
                v, gv = self.ex(s.value)
                body = self.block(rest, defined, final)
                return self.guard(
                    gi + gv + [f"(inb {cname(arr)} {i})"],
                    f"let {cname(arr)} := updZ {cname(arr)} {i} {v} in\n{body}",
                )
            if isinstance(s.value, ast.Call) and self._known_call(s.value):
                callee = self._known_call_text(s.value)
                names = [tgt.id] if isinstance(tgt, ast.Name) else [x.id for x in tgt.elts]
                body = self.block(rest, defined | set(names), final)
                return f"match {callee} with None => None | Some {self.mpat_of(names)} =>\n{body}\nend"
            if isinstance(tgt, ast.Name):
                if isinstance(s.value, ast.Tuple):
                    raise Refuse("tuple value to a single name")
                t, g = self.ex(s.value)
                body = self.block(rest, defined | {tgt.id}, final)
                return self.guard(g, f"let {cname(tgt.id)} := {t} in\n{body}")
            if isinstance(tgt, ast.Tuple):
                names = []
                for x in tgt.elts:
                    if not isinstance(x, ast.Name):
                        raise Refuse("tuple target element")
                    names.append(x.id)
                if isinstance(s.value, ast.Tuple):
                    ts = [self.ex(x) for x in s.value.elts]
                    g = sum((g for _, g in ts), [])
                    val = "(" + ", ".join(t for t, _ in ts) + ")"
                else:
                    val, g = self.ex(s.value)
                body = self.block(rest, defined | set(names), final)
                return self.guard(g, f"let {self.pat_of(names)} := {val} in\n{body}")
            raise Refuse("assign target")
        if isinstance(s, ast.AugAssign):
            op = s.op
            new = ast.Assign(
                targets=[s.target],
                value=ast.BinOp(left=_load(s.target), op=op, right=s.value),
            )
            return self.block([new] + rest, defined, final)
        if isinstance(s, ast.If):
            c, gc = self.bx(s.test)
            if self.always_returns(s.body) and not self.contains(s.body, (ast.Break, ast.Continue)):
                a = self.block(s.body, defined, final)
                b = self.block(list(s.orelse) + rest, defined, final)
                return self.guard(gc, f"if {c} then\n{a}\nelse\n{b}")
            if s.orelse and self.always_returns(s.orelse):
                b = self.block(s.orelse, defined, final)
                a = self.block(list(s.body) + rest, defined, final)
                return self.guard(gc, f"if {c} then\n{a}\nelse\n{b}")
            if self.contains([s], (ast.Return,)):
                raise Refuse("return inside a non-terminal branch")
            V = self.assigned([s])
            for v in V:
                if v not in defined:
                    ina = v in self.assigned(s.body)
                    inb = v in self.assigned(s.orelse)
                    if not (ina and inb):
                        raise Refuse(f"{v} may be unbound after if")
            fin = lambda d: f"Some {self.tuple_of(V)}"
            a = self.block(s.body, defined, fin)
            b = self.block(s.orelse, defined, fin) if s.orelse else fin(defined)
            body = self.block(rest, defined | set(V), final)
            return self.guard(
                gc,
                f"match (if {c} then\n{a}\nelse\n{b}) with None => None | Some {self.mpat_of(V)} =>\n{body}\nend",
            )
        if isinstance(s, ast.For):
            return self.for_loop(s, rest, defined, final)
        if isinstance(s, ast.While):
            return self.while_loop(s, rest, defined, final)
        raise Refuse(f"statement {type(s).__name__}")

    def _known_call(self, e):
        return isinstance(e.func, ast.Name) and e.func.id in self.known

    def _known_call_text(self, e):
        if e.keywords:
            raise Refuse("keyword arguments")
        args = [self.ex(a) for a in e.args]
        for _, g in args:
            if g:
                raise Refuse("guarded argument to a translated call")
        return "(" + self.known[e.func.id] + " " + " ".join(t for t, _ in args) + ")"

    def for_loop(self, s, rest, defined, final):
        if s.orelse:
            raise Refuse("for-else")
        it = s.iter
        if not (isinstance(it, ast.Call) and isinstance(it.func, ast.Name) and it.func.id == "range"):
            raise Refuse("for over non-range")
        if self.contains(s.body, (ast.Return, ast.Continue)):
            raise Refuse("return/continue in loop body")
        has_break = self.contains(s.body, (ast.Break,))
        args = [self.ex(a) for a in it.args]
        g = sum((g for _, g in args), [])
        if len(args) == 1:
            lo, hi, st = "0", args[0][0], "1"
        elif len(args) == 2:
            lo, hi, st = args[0][0], args[1][0], "1"
        else:
            lo, hi, st = args[0][0], args[1][0], args[2][0]
            g = g + [f"negb ({st} =? 0)"]
        V = [v for v in self.assigned(s.body) if v in defined]
        newv = [v for v in self.assigned(s.body) if v not in defined]
        # names first assigned inside the body are loop-local unless used later
        i = s.target.id
        if not V:
            raise Refuse("loop without carried state")
        if has_break:
            # carried flag: once set, the remaining iterations are skipped
            fin = lambda d: f"Some ({self.tuple_of(V)}, false)"
            body = self.block_break(s.body, defined | {i}, V)
            step = (
                f"(fun {cname(i)} st => let '({self.tuple_of(V)}, brk) := st in "
                f"if brk then Some st else\n{body})"
            )
            tail = self.block(rest, defined | set(V) | {i}, final)
            return self.guard(
                g,
                f"match for_range {lo} {hi} {st} {step} ({self.tuple_of(V)}, false) with None => None "
                f"| Some ({self.tuple_of(V)}, _) =>\n{tail}\nend",
            )
        fin = lambda d: f"Some {self.tuple_of(V)}"
        body = self.block(s.body, defined | {i}, fin)
        step = f"(fun {cname(i)} {self.pat_of(V) if len(V) > 1 else cname(V[0])} =>\n{body})"
        tail = self.block(rest, defined | set(V), final)
        del newv
        return self.guard(
            g,
            f"match for_range {lo} {hi} {st} {step} {self.tuple_of(V)} with None => None "
            f"| Some {self.mpat_of(V)} =>\n{tail}\nend",
        )

    def block_break(self, stmts, defined, V):
        """body of a loop that may `break`: result Some (V, brk)."""

        def conv(stmts):
            out = []
            for s in stmts:
                out.append(s)
            return out

        def go(stmts, defined):
            if not stmts:
                return f"Some ({self.tuple_of(V)}, false)"
            s, rest = stmts[0], stmts[1:]
            if isinstance(s, ast.Break):
                return f"Some ({self.tuple_of(V)}, true)"
            if isinstance(s, ast.If) and self.contains([s], (ast.Break,)):
                c, gc = self.bx(s.test)
                a = go(list(s.body) + ([] if self._ends_break(s.body) else rest), defined)
                b = go(list(s.orelse) + ([] if self._ends_break(s.orelse) else rest), defined)
                return self.guard(gc, f"if {c} then\n{a}\nelse\n{b}")
            # ordinary statement: translate it alone with continuation
            return self.block([s], defined, lambda d: go(rest, d))

        del conv
        return go(stmts, defined)

    @staticmethod
    def _ends_break(stmts):
        return bool(stmts) and isinstance(stmts[-1], ast.Break)

    def while_loop(self, s, rest, defined, final):
        if s.orelse or self.contains(s.body, (ast.Return, ast.Continue, ast.Break)):
            raise Refuse("while with else/return/continue/break")
        c, gc = self.bx(s.test)
        if gc:
            raise Refuse("guarded while condition")
        V = [v for v in self.assigned(s.body) if v in defined]
        if not V:
            raise Refuse("while without carried state")
        fin = lambda d: f"Some {self.tuple_of(V)}"
        body = self.block(s.body, defined, fin)
        pat = self.pat_of(V) if len(V) > 1 else cname(V[0])
        tail = self.block(rest, defined | set(V), final)
        return (
            f"match while_fuel ({self.fuel}) (fun {pat} => {c}) (fun {pat} =>\n{body}) "
            f"{self.tuple_of(V)} with None => None | Some {self.mpat_of(V)} =>\n{tail}\nend"
        )

    def translate(self, coq_name=None, ret_type=None):
        fn = self.fn
        a = fn.args
        if a.vararg or a.kwarg or a.kwonlyargs:
            raise Refuse("varargs")
        params = [x.arg for x in a.args]
        binders = []
        for p in params:
            ty = "list Z" if p in self.arrays else "Z"
            binders.append(f"({cname(p)} : {ty})")
        body = self.block(list(fn.body), set(params), lambda d: (_ for _ in ()).throw(Refuse("falls off the end")))
        name = coq_name or cname(fn.name)
        rt = f" : option ({ret_type})" if ret_type else ""
        return f"Definition {name} {' '.join(binders)}{rt} :=\n{textwrap.indent(body, '  ')}."


def _load(t):
    import copy

    t2 = copy.deepcopy(t)
    for n in ast.walk(t2):
        if hasattr(n, "ctx"):
            n.ctx = ast.Load()
    return t2


def find_function(path, name):
    with open(path) as f:
        src = f.read()
    tree = ast.parse(src)
    for n in ast.walk(tree):
        if isinstance(n, ast.FunctionDef) and n.name == name:
            return n
    raise Refuse(f"{name} not found in {path}")


HEADER = """(* GENERATED by /verif/tools/py2coq.py from {src} - do not edit.
   Regenerated on every check run; the proofs in the importing files are
   re-checked against this text. *)
From Coq Require Import ZArith List Bool.
From QV Require Import Base.PyZ.
Import ListNotations.
Open Scope Z_scope.
"""


def translate_functions(path, specs, relsrc=None):
    """specs: list of dicts {name, arrays, bools, ret, coq_name}.  Functions
    are translated in order; earlier ones may be called by later ones."""
    known = {}
    out = [HEADER.format(src=relsrc or path)]
    notes = []
    for sp in specs:
        fn = find_function(path, sp["name"])
        tr = FnTranslator(
            fn, dict(known), sp.get("arrays", ()), sp.get("bools", ()), fuel=sp.get("fuel", "1000")
        )
        text = tr.translate(sp.get("coq_name"), sp.get("ret"))
        out.append(text)
        out.append("")
        known[sp["name"]] = sp.get("coq_name") or cname(sp["name"])
        notes += tr.notes
    return "\n".join(out), notes


if __name__ == "__main__":
    import sys

    txt, notes = translate_functions(sys.argv[1], [{"name": n} for n in sys.argv[2:]])
    print(txt)

#!/bin/bash
# run every registered quick check once; usage: run_all.sh [seed] [ids...]
SEED=${1:-0}; shift
IDS=${@:-C01 C02 C03 C04 C05 C06 C07 C08 C09 C10 C11 C12 C13 C14 C15 C16 C17 C18 C19 C20}
cd /verif
for P in $IDS; do
  s=$(date +%s)
  VERIF_SEED=$SEED ./check $P --tier quick > /root/scratch/all_$P.log 2>&1; rc=$?
  e=$(date +%s)
  echo "$P rc=$rc wall=$((e-s))s $(grep -c '^VIOLATION' /root/scratch/all_$P.log) violations $(grep -c '^KNOWN-FINDING' /root/scratch/all_$P.log) known | $(tail -1 /root/scratch/all_$P.log | cut -c1-150)"
done

#!/bin/bash
# usage: eval_seeded.sh Cxx mN [tier]  -> applies /verif/seeded/Cxx/mN/patch.diff in a throw-away worktree of /repo's HEAD,
# runs ./check Cxx against it (evidence/work files of such runs go to .work/, never to evidence/), removes the worktree.
P=$1; M=$2; T=${3:-quick}
W=/tmp/ev_${P}_$M
git -C /repo worktree remove --force $W >/dev/null 2>&1
git -C /repo worktree add -q --detach $W HEAD 2>&1 | grep -v WARNING
if git -C $W apply /verif/seeded/$P/$M/patch.diff; then
  cd /verif && VERIF_REPO=$W timeout 3000 ./check $P --tier $T > /root/scratch/ev_${P}_$M.log 2>&1
  echo "== $P $M exit=$? : $(grep -c '^VIOLATION' /root/scratch/ev_${P}_$M.log) violation lines"
  grep -E "^VIOLATION|^  \(" /root/scratch/ev_${P}_$M.log | head -8 | cut -c1-300
else
  echo "== $P $M PATCH DOES NOT APPLY"
fi
git -C /repo worktree remove --force $W

#!/bin/bash
# Sanity gate before committing /verif: full Coq build (every file must compile), grep gate, MANIFEST and
# evidence files valid against the task's schemas, every claimed property has an evidence file with
# obligations >= 1, discharged == obligations and violations == 0.
cd /verif
bash tools/setup.sh 2>&1 | grep -v "Closed under\|WARNING conda" | tail -5
python3 tools/gen_manifest.py > /dev/null
python3-vt - <<'P'
import json, jsonschema, glob, sys
bad = 0
m = json.load(open('/verif/MANIFEST.json')); jsonschema.validate(m, json.load(open('/root/.vp/MANIFEST.schema.json')))
es = json.load(open('/root/.vp/EVIDENCE.schema.json'))
for c in m['checks']:
    f = c['evidence_file']
    try:
        e = json.load(open(f)); jsonschema.validate(e, es)
        cov = e['coverage']
        if cov['obligations'] < 1 or cov['discharged'] != cov['obligations'] or e.get('violations', 0) != 0 or cov.get('broken_obligations'):
            print('EVIDENCE NOT CLEAN', f, cov['obligations'], cov['discharged'], e.get('violations'), cov.get('broken_obligations')); bad += 1
    except Exception as ex:
        print('EVIDENCE INVALID', f, str(ex)[:200]); bad += 1
print('precommit:', 'OK' if not bad else f'{bad} problems')
sys.exit(1 if bad else 0)
P

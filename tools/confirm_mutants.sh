#!/bin/bash
# usage: confirm_mutants.sh Cxx prefix offset -> for each /tmp/<prefix>_Cxx_out/mN: demo exits 0 on the clean scratch
# worktree and 1 with the patch applied; then copy patch.diff, demo.py, meta.json to /verif/seeded/Cxx/m<N+offset>/
P=$1; PFX=$2; OFF=${3:-3}
W=/tmp/${PFX}_$P
git -C $W checkout -q -- . ; git -C $W checkout -q --detach $(git -C /repo rev-parse HEAD)
for d in /tmp/${PFX}_${P}_out/m[0-9]; do
  n=$(basename $d | tr -d m); t=/verif/seeded/$P/m$((n+OFF))
  (cd $d && PYTHONPATH=$W:/verif/.pydeps OMP_NUM_THREADS=2 timeout 1200 /venv/bin/python demo.py >/dev/null 2>&1); c=$?
  git -C $W apply $d/patch.diff || { echo "$P m$n: patch does not apply"; continue; }
  (cd $d && PYTHONPATH=$W:/verif/.pydeps OMP_NUM_THREADS=2 timeout 1200 /venv/bin/python demo.py >/dev/null 2>&1); p=$?
  git -C $W checkout -q -- .
  echo "$P m$n -> $(basename $t): demo clean=$c patched=$p"
  if [ $c -eq 0 ] && [ $p -eq 1 ]; then mkdir -p $t && cp $d/patch.diff $d/demo.py $d/meta.json $t/; fi
done

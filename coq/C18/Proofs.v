(* C18 - proofs about the Evolution state machine of C18/Model.v. *)
From Coq Require Import ZArith List Bool Lia.
From QV Require Import C18.Model.
Import ListNotations.

Lemma last_cons : forall (A : Type) (l : list A) (a d : A), last (a :: l) d = last l a.
Proof.
  intros A l; induction l as [|b l IH]; intros a d; [reflexivity|].
  change (last (a :: b :: l) d) with (last (b :: l) d). rewrite !IH. reflexivity.
Qed.

(* which (sidedness, time-dependence) a stored routine realises *)
Definition implements (r : routine) (m : method) (q : option eqkind) (two td : bool) : Prop :=
  match r with
  | R_solved_ket | R_expm_ket => m <> M_integrate /\ two = false /\ td = false
  | R_solved_dop | R_expm_dop => m <> M_integrate /\ two = true /\ td = false
  | R_integrate => m = M_integrate /\ exists q', q = Some q' /\ eq_two q' = two /\ eq_td q' = td
  end.

(* ---- finite tables by reflection: boolean quantifiers over the finite types ---- *)
Definition all_bool (f : bool -> bool) : bool := f false && f true.
Definition all_method (f : method -> bool) : bool := f M_solve && f M_integrate && f M_expm && f M_other.
Definition all_ham (f : hamkind -> bool) : bool :=
  f H_dense && f H_sparse && f H_linop && f H_tuple && f H_callable.
Definition all_policy (f : expm_dop_policy -> bool) : bool := f EDP_onesided && f EDP_twosided && f EDP_reject.
Definition all_config (f : config -> bool) : bool :=
  all_method (fun m => all_bool (fun d => all_ham (fun h => all_bool (fun d2 => all_bool (fun i =>
    f (mk_config m d h d2 i)))))).
Definition all_version (f : version -> bool) : bool :=
  all_policy (fun p => all_bool (fun b => all_bool (fun k => f (mk_version p b k)))).

Lemma all_bool_ok : forall f, all_bool f = true -> forall b, f b = true.
Proof. unfold all_bool; intros f H b. apply andb_prop in H. destruct H, b; assumption. Qed.
Lemma all_method_ok : forall f, all_method f = true -> forall m, f m = true.
Proof.
  unfold all_method; intros f H m. repeat (apply andb_prop in H; destruct H as [H ?]). destruct m; assumption.
Qed.
Lemma all_ham_ok : forall f, all_ham f = true -> forall h, f h = true.
Proof.
  unfold all_ham; intros f H h. repeat (apply andb_prop in H; destruct H as [H ?]). destruct h; assumption.
Qed.
Lemma all_policy_ok : forall f, all_policy f = true -> forall p, f p = true.
Proof.
  unfold all_policy; intros f H p. repeat (apply andb_prop in H; destruct H as [H ?]). destruct p; assumption.
Qed.
Lemma all_config_ok : forall f, all_config f = true -> forall c, f c = true.
Proof.
  unfold all_config; intros f H [m d h d2 i].
  apply (all_bool_ok _ (all_bool_ok _ (all_ham_ok _ (all_bool_ok _ (all_method_ok _ H m) d) h) d2) i).
Qed.
Lemma all_version_ok : forall f, all_version f = true -> forall v, f v = true.
Proof.
  unfold all_version; intros f H [p b k]. apply (all_bool_ok _ (all_bool_ok _ (all_policy_ok _ H p) b) k).
Qed.

Definition implements_b (r : routine) (m : method) (q : option eqkind) (two td : bool) : bool :=
  match r with
  | R_solved_ket | R_expm_ket => negb (method_eqb m M_integrate) && negb two && negb td
  | R_solved_dop | R_expm_dop => negb (method_eqb m M_integrate) && two && negb td
  | R_integrate => method_eqb m M_integrate &&
      match q with Some q' => Bool.eqb (eq_two q') two && Bool.eqb (eq_td q') td | None => false end
  end.

Lemma implements_b_sound : forall r m q two td, implements_b r m q two td = true -> implements r m q two td.
Proof.
  intros r m q two td H. destruct r; cbn in *.
  1-4: (apply andb_prop in H; destruct H as [H H3]; apply andb_prop in H; destruct H as [H1 H2];
        repeat split; [destruct m; cbn in H1; discriminate
                      | destruct two; cbn in H2; congruence | destruct td; cbn in H3; congruence]).
  apply andb_prop in H; destruct H as [H1 H2]. split; [destruct m; cbn in H1; congruence|].
  destruct q as [q'|]; [|discriminate]. exists q'. apply andb_prop in H2. destruct H2 as [H2 H3].
  repeat split; apply eqb_prop; assumption.
Qed.

Definition check_implements (v : version) (c : config) : bool :=
  match construct v c with
  | Accepted r m q => unsound_cell v c || implements_b r m q (c_isdop c) (timedep (c_ham c))
  | Raised _ => true
  end.
Lemma check_implements_all : all_version (fun v => all_config (check_implements v)) = true.
Proof. vm_compute. reflexivity. Qed.

(* the finite table: every accepted cell outside the refuted one installs a
   routine that realises the configuration's sidedness and time dependence *)
Lemma construct_implements : forall v c r m q,
  construct v c = Accepted r m q -> unsound_cell v c = false ->
  implements r m q (c_isdop c) (timedep (c_ham c)).
Proof.
  intros v c r m q H Hu.
  pose proof (all_config_ok _ (all_version_ok _ check_implements_all v) c) as K.
  unfold check_implements in K. rewrite H, Hu in K. apply implements_b_sound. exact K.
Qed.

Definition check_unsupported (v : version) (c : config) : bool :=
  spec_supported v c ||
  match construct v c with Raised E_Type | Raised E_Value => true | _ => false end.
Lemma check_unsupported_all : all_version (fun v => all_config (check_unsupported v)) = true.
Proof. vm_compute. reflexivity. Qed.

Lemma unsupported_rejected : forall v c, spec_supported v c = false ->
  construct v c = Raised E_Type \/ construct v c = Raised E_Value.
Proof.
  intros v c H.
  pose proof (all_config_ok _ (all_version_ok _ check_unsupported_all v) c) as K.
  unfold check_unsupported in K. rewrite H in K. cbn in K.
  destruct (construct v c) as [? ? ?|[]]; try discriminate; auto.
Qed.

Definition hamkind_dense_or_sparse (h : hamkind) : bool :=
  match h with H_dense | H_sparse => true | _ => false end.
Definition check_supported (v : version) (c : config) : bool :=
  negb (spec_supported v c) ||
  match construct v c with
  | Accepted _ _ _ => true
  | Raised E_Crash => negb (v_tuple_by_type v) && c_dim2 c && method_eqb (c_method c) M_solve
                      && hamkind_dense_or_sparse (c_ham c)
  | Raised _ => false
  end.
Lemma check_supported_all : all_version (fun v => all_config (check_supported v)) = true.
Proof. vm_compute. reflexivity. Qed.

Lemma supported_not_rejected : forall v c, spec_supported v c = true ->
  (exists r m q, construct v c = Accepted r m q) \/
  (v_tuple_by_type v = false /\ c_dim2 c = true /\ c_method c = M_solve
   /\ (c_ham c = H_dense \/ c_ham c = H_sparse) /\ construct v c = Raised E_Crash).
Proof.
  intros v c H.
  pose proof (all_config_ok _ (all_version_ok _ check_supported_all v) c) as K.
  unfold check_supported in K. rewrite H in K. cbn in K.
  destruct (construct v c) as [r m q|[]]; try discriminate.
  - left; eauto.
  - right. repeat (apply andb_prop in K; destruct K as [K ?]).
    repeat split; auto.
    + destruct (v_tuple_by_type v); [discriminate|reflexivity].
    + destruct (c_method c); cbn in *; congruence.
    + destruct (c_ham c); cbn in *; try discriminate; auto.
Qed.

Lemma repaired_accepts_supported : forall v c, v_tuple_by_type v = true ->
  spec_supported v c = true -> exists r m q, construct v c = Accepted r m q.
Proof.
  intros v c Hv H. destruct (supported_not_rejected v c H) as [?|(Hf & _)]; [assumption|].
  rewrite Hv in Hf; discriminate.
Qed.

Lemma repaired_no_unsound_cell : forall v c, v_expm_dop v <> EDP_onesided -> unsound_cell v c = false.
Proof. intros [[] ? ?] c H; cbn in *; try reflexivity; congruence. Qed.

(* accepted configurations record a consistent (routine, self._method) pair *)
Lemma accepted_routine_matches_state_kind : forall v c r m q, construct v c = Accepted r m q ->
  unsound_cell v c = false ->
  match r with
  | R_solved_ket | R_expm_ket => c_isdop c = false
  | R_solved_dop | R_expm_dop => c_isdop c = true
  | R_integrate => exists q', q = Some q' /\ eq_two q' = c_isdop c
  end.
Proof.
  intros v c r m q H Hu. pose proof (construct_implements v c r m q H Hu) as I.
  destruct r; cbn in I; try (destruct I as (_ & ? & _); congruence).
  destruct I as (_ & q' & ? & ? & _); eauto.
Qed.

Section Laws.
  Variables T Op St : Type.
  Variables (tzero : T) (tadd tsub : T -> T -> T).
  Variables (oid : Op) (ocomp : Op -> Op -> Op).
  Variable U : T -> Op.
  Variable P : T -> T -> Op.
  Variables actL actR : Op -> St -> St.
  Variable steps : T -> T -> list T.
  Variable near : T -> T -> bool.
  Variable skip : bool.
  Hypothesis L : propagator_laws T Op St tzero tadd tsub oid ocomp U P actL actR.

  Let act' := act Op St actL actR.
  Let prop' := prop T Op tsub U P.
  Let update' := update_to T Op St tsub U P actL actR steps near skip.
  Let run' := run T Op St tsub U P actL actR steps near skip.
  Let integ' := integ T Op St tsub U P actL actR.
  Let st' := st T St.

  Lemma act_id : forall two x, act' two oid x = x.
  Proof.
    destruct L as [_ _ _ _ _ _ LLi _ LRi _ _].
    intros [] x; unfold act', act; [rewrite LLi; apply LRi | apply LLi].
  Qed.

  Lemma act_comp : forall two u w x, act' two (ocomp u w) x = act' two u (act' two w x).
  Proof.
    destruct L as [_ _ _ _ _ _ _ LLc _ LRc Lcm].
    intros [] u w x; unfold act', act.
    - rewrite LLc, LRc, (Lcm u w). reflexivity.
    - apply LLc.
  Qed.

  Lemma prop_diag : forall td t, prop' td t t = oid.
  Proof.
    destruct L as [Ltd _ LU0 _ LPd _ _ _ _ _ _].
    intros [] t; unfold prop', prop; [apply LPd | rewrite Ltd; apply LU0].
  Qed.

  Lemma prop_chain : forall td a b c, ocomp (prop' td c b) (prop' td b a) = prop' td c a.
  Proof.
    destruct L as [_ Ltc _ LUa _ LPc _ _ _ _ _].
    intros [] a b c; unfold prop', prop; [apply LPc | rewrite <- LUa, Ltc; reflexivity].
  Qed.

  (* what the state at time t must be *)
  Definition target (two td : bool) (t0 : T) (p0 : St) (t : T) : St := act' two (prop' td t t0) p0.

  Lemma target_t0 : forall two td t0 p0, target two td t0 p0 t0 = p0.
  Proof. intros. unfold target. rewrite prop_diag. apply act_id. Qed.

  Lemma target_step : forall two td t0 p0 a b,
    act' two (prop' td b a) (target two td t0 p0 a) = target two td t0 p0 b.
  Proof. intros. unfold target. rewrite <- act_comp, prop_chain. reflexivity. Qed.

  Definition good (two td : bool) (t0 : T) (p0 : St) (tp : T * St) : Prop :=
    snd tp = target two td t0 p0 (fst tp).

  Section Resolved.
  (* Lt: t0 and all the times that will be requested *)
  Variable Lt : list T.
  Hypothesis HLt : resolved T near skip Lt.

  Definition Inv (r : routine) (m : method) (q : option eqkind) (two td : bool) (t0 : T) (p0 : St)
             (s : st') : Prop :=
    s_routine _ _ s = r /\ s_method _ _ s = m /\ s_eq _ _ s = q /\ s_t0 _ _ s = t0 /\ s_p0 _ _ s = p0
    /\ (r <> R_integrate -> s_pt _ _ s = target two td t0 p0 (s_t _ _ s))
    /\ (r = R_integrate -> s_sy _ _ s = target two td t0 p0 (s_st _ _ s))
    /\ Forall (good two td t0 p0) (s_results _ _ s)
    /\ In (s_st _ _ s) Lt.

  Lemma Inv_init : forall r m q two td t0 p0, In t0 Lt -> Inv r m q two td t0 p0 (init T St r m q t0 p0).
  Proof.
    intros. unfold Inv, init; cbn. repeat split; auto; intros; symmetry; apply target_t0.
  Qed.

  Lemma integ_inv : forall two td t0 p0 q' l tc y res, eq_two q' = two -> eq_td q' = td ->
    y = target two td t0 p0 tc -> Forall (good two td t0 p0) res ->
    match integ' q' l tc y res with
    | (tc', y', res') => y' = target two td t0 p0 tc' /\ Forall (good two td t0 p0) res'
                         /\ tc' = last l tc
    end.
  Proof.
    intros two td t0 p0 q' l; induction l as [|s l IH]; intros tc y res H2 Ht Hy Hres; cbn.
    - auto.
    - set (y' := act Op St actL actR (eq_two q') (prop T Op tsub U P (eq_td q') s tc) y).
      assert (Hy' : y' = target two td t0 p0 s).
      { unfold y'. rewrite H2, Ht, Hy. apply target_step. }
      specialize (IH s y' ((s, y') :: res) H2 Ht Hy').
      assert (Hres' : Forall (good two td t0 p0) ((s, y') :: res)) by (constructor; [exact Hy'|exact Hres]).
      specialize (IH Hres').
      unfold integ' in *.
      destruct (integ T Op St tsub U P actL actR q' l s y' ((s, y') :: res)) as [[tc' y''] res'].
      destruct IH as (A & B & C). repeat split; auto.
      rewrite C. symmetry. apply last_cons.
  Qed.

  Lemma Inv_update : forall r m q two td t0 p0, implements r m q two td ->
    forall s t, In t Lt -> Inv r m q two td t0 p0 s ->
      Inv r m q two td t0 p0 (update' s t) /\ get_t T St (update' s t) = t.
  Proof.
    intros r m q two td t0 p0 I s t Hti (Hr & Hm & Hq & Ht0 & Hp0 & Hd & Hs & Hres & Hin).
    unfold update', update_to. rewrite Hr.
    destruct r; cbn in I.
    - (* solved ket *)
      destruct I as (Hmi & -> & ->).
      assert (E : actL (U (tsub t (s_t0 T St s))) (s_p0 T St s) = target false false t0 p0 t)
        by (rewrite Ht0, Hp0; reflexivity).
      split.
      + unfold Inv, upd_direct; cbn. repeat split; auto; try discriminate;
          try (constructor; [exact E|exact Hres]).
      + unfold get_t, upd_direct; cbn. rewrite Hm. destruct m; try reflexivity. congruence.
    - (* solved dop *)
      destruct I as (Hmi & -> & ->).
      assert (E : actR (U (tsub t (s_t0 T St s))) (actL (U (tsub t (s_t0 T St s))) (s_p0 T St s))
                  = target true false t0 p0 t) by (rewrite Ht0, Hp0; reflexivity).
      split.
      + unfold Inv, upd_direct; cbn. repeat split; auto; try discriminate;
          try (constructor; [exact E|exact Hres]).
      + unfold get_t, upd_direct; cbn. rewrite Hm. destruct m; try reflexivity. congruence.
    - (* expm ket: incremental from the current time *)
      destruct I as (Hmi & -> & ->).
      assert (E : actL (U (tsub t (s_t T St s))) (s_pt T St s) = target false false t0 p0 t).
      { rewrite (Hd ltac:(discriminate)).
        exact (target_step false false t0 p0 (s_t T St s) t). }
      split.
      + unfold Inv, upd_direct; cbn. repeat split; auto; try discriminate;
          try (constructor; [exact E|exact Hres]).
      + unfold get_t, upd_direct; cbn. rewrite Hm. destruct m; try reflexivity. congruence.
    - (* expm dop, two-sided variant *)
      destruct I as (Hmi & -> & ->).
      assert (E : actR (U (tsub t (s_t T St s))) (actL (U (tsub t (s_t T St s))) (s_pt T St s))
                  = target true false t0 p0 t).
      { rewrite (Hd ltac:(discriminate)).
        exact (target_step true false t0 p0 (s_t T St s) t). }
      split.
      + unfold Inv, upd_direct; cbn. repeat split; auto; try discriminate;
          try (constructor; [exact E|exact Hres]).
      + unfold get_t, upd_direct; cbn. rewrite Hm. destruct m; try reflexivity. congruence.
    - (* integrate *)
      destruct I as (Hmi & q' & Hq' & H2 & Htd).
      destruct (skip && near t (s_st T St s)) eqn:K.
      { (* already at t: nothing is done *)
        apply andb_prop in K. destruct K as [Ks K]. apply (HLt Ks t (s_st T St s) Hti Hin) in K.
        split; [unfold Inv; repeat split; auto|].
        unfold get_t. rewrite Hm, Hmi. symmetry; exact K. }
      rewrite Hq, Hq'.
      pose proof (integ_inv two td t0 p0 q' (steps (s_st T St s) t ++ [t]) (s_st T St s) (s_sy T St s)
                            (s_results T St s) H2 Htd (Hs eq_refl) Hres) as X.
      unfold integ' in X.
      destruct (integ T Op St tsub U P actL actR q' (steps (s_st T St s) t ++ [t]) (s_st T St s)
                      (s_sy T St s) (s_results T St s)) as [[tc' y'] res'].
      destruct X as (A & B & C). rewrite last_last in C. subst tc'.
      split.
      + unfold Inv; cbn. repeat split; auto; try (intros Hne; congruence).
      + unfold get_t; cbn. rewrite Hm, Hmi. reflexivity.
  Qed.

  Lemma Inv_get_pt : forall r m q two td t0 p0, implements r m q two td ->
    forall s, Inv r m q two td t0 p0 s -> get_pt T St s = target two td t0 p0 (get_t T St s).
  Proof.
    intros r m q two td t0 p0 I s (Hr & Hm & Hq & Ht0 & Hp0 & Hd & Hs & Hres & Hin).
    unfold get_pt, get_t. rewrite Hm.
    destruct r; cbn in I.
    1-4: destruct I as (Hmi & _); destruct m; try congruence; apply Hd; discriminate.
    destruct I as (-> & _). apply Hs; reflexivity.
  Qed.

  Lemma Inv_run : forall r m q two td t0 p0, implements r m q two td ->
    forall ts s, incl ts Lt -> Inv r m q two td t0 p0 s ->
      Inv r m q two td t0 p0 (run' s ts) /\ get_t T St (run' s ts) = last ts (get_t T St s).
  Proof.
    intros r m q two td t0 p0 I.
    induction ts as [|t ts IH]; intros s Hi Hs.
    - cbn. auto.
    - destruct (Inv_update r m q two td t0 p0 I s t (Hi t (or_introl eq_refl)) Hs) as (Hs' & Hc).
      destruct (IH _ (fun x Hx => Hi x (or_intror Hx)) Hs') as (A & B).
      change (run' s (t :: ts)) with (run' (update' s t) ts).
      split; [exact A|]. rewrite B, Hc. symmetry. apply last_cons.
  Qed.

  Lemma run_sound : forall r m q two td t0 p0, implements r m q two td ->
    forall ts, In t0 Lt -> incl ts Lt -> let s := run' (init T St r m q t0 p0) ts in
      get_pt T St s = target two td t0 p0 (last ts t0) /\ get_t T St s = last ts t0
      /\ Forall (good two td t0 p0) (s_results T St s).
  Proof.
    intros r m q two td t0 p0 I ts H0 Hi s.
    destruct (Inv_run r m q two td t0 p0 I ts _ Hi (Inv_init r m q two td t0 p0 H0)) as (A & B). fold s in A, B.
    assert (G0 : get_t T St (init T St r m q t0 p0) = t0) by (unfold get_t, init; cbn; destruct m; reflexivity).
    rewrite G0 in B. repeat split.
    - rewrite (Inv_get_pt r m q two td t0 p0 I s A), B. reflexivity.
    - exact B.
    - destruct A as (_ & _ & _ & _ & _ & _ & _ & R & _). exact R.
  Qed.

  Lemma at_times_inv : forall r m q two td t0 p0, implements r m q two td ->
    forall ts s, incl ts Lt -> Inv r m q two td t0 p0 s ->
      Forall2 (fun t p => p = target two td t0 p0 t) ts (at_times T Op St tsub U P actL actR steps near skip s ts)
      /\ clocks T Op St tsub U P actL actR steps near skip s ts = ts.
  Proof.
    intros r m q two td t0 p0 I.
    induction ts as [|t ts IH]; intros s Hi Hs; cbn.
    - split; [constructor|reflexivity].
    - destruct (Inv_update r m q two td t0 p0 I s t (Hi t (or_introl eq_refl)) Hs) as (Hs' & Hc). unfold update' in Hs', Hc.
      destruct (IH _ (fun x Hx => Hi x (or_intror Hx)) Hs') as (A & B). split.
      + constructor; [|exact A]. rewrite (Inv_get_pt r m q two td t0 p0 I _ Hs'). rewrite Hc. reflexivity.
      + rewrite Hc, B. reflexivity.
  Qed.

  End Resolved.

  (* for the direct routines the callback is called exactly once per requested time *)
  Lemma direct_cb_times : forall r, r <> R_integrate -> forall ts s, s_routine T St s = r ->
    map fst (s_results T St (run' s ts)) = rev ts ++ map fst (s_results T St s)
    /\ s_routine T St (run' s ts) = r.
  Proof.
    intros r Hne; induction ts as [|t ts IH]; intros s Hr; [cbn; auto|].
    assert (X : map fst (s_results T St (update' s t)) = t :: map fst (s_results T St s)
                /\ s_routine T St (update' s t) = r).
    { unfold update', update_to. rewrite Hr. destruct r; cbn; auto. congruence. }
    destruct X as (X1 & X2). destruct (IH _ X2) as (A & B).
    change (run' s (t :: ts)) with (run' (update' s t) ts).
    rewrite A, B, X1. split; [|reflexivity]. cbn [rev]. rewrite <- app_assoc. reflexivity.
  Qed.

  (* the recorded trace, replayed with the propagator semantics of each event,
     is the reported state - for every version, sound or not (no laws needed
     for the direct routines; the integrator's steps compose by the cocycle law) *)
  Lemma integ_total : forall q' l tc y res,
    match integ' q' l tc y res with
    | (tc', y', _) => y' = act' (eq_two q') (prop' (eq_td q') tc' tc) y
    end.
  Proof.
    intros q' l; induction l as [|s l IH]; intros tc y res; cbn.
    - rewrite prop_diag, act_id. reflexivity.
    - specialize (IH s (act Op St actL actR (eq_two q') (prop T Op tsub U P (eq_td q') s tc) y)
                     ((s, act Op St actL actR (eq_two q') (prop T Op tsub U P (eq_td q') s tc) y) :: res)).
      unfold integ' in *.
      destruct (integ T Op St tsub U P actL actR q' l s _ _) as [[tc' y'] res'].
      rewrite IH. fold act' prop'. rewrite <- act_comp, prop_chain. reflexivity.
  Qed.

  Lemma integ_last : forall q' l tc y res,
    match integ' q' l tc y res with (tc', _, _) => tc' = last l tc end.
  Proof.
    intros q' l; induction l as [|s l IH]; intros tc y res; cbn; [reflexivity|].
    specialize (IH s (act Op St actL actR (eq_two q') (prop T Op tsub U P (eq_td q') s tc) y)
                   ((s, act Op St actL actR (eq_two q') (prop T Op tsub U P (eq_td q') s tc) y) :: res)).
    unfold integ' in *.
    destruct (integ T Op St tsub U P actL actR q' l s _ _) as [[tc' y'] res'].
    rewrite IH. symmetry. apply last_cons.
  Qed.

  Definition cur_state (s : st') : St :=
    match s_routine T St s with R_integrate => s_sy T St s | _ => s_pt T St s end.

  Definition TInv (q : option eqkind) (p0 : St) (s : st') : Prop :=
    s_eq T St s = q /\ s_p0 T St s = p0 /\
    replay_trace T Op St tsub U P actL actR q p0 (rev (s_trace T St s)) = cur_state s.

  Lemma TInv_update : forall q p0 s t, TInv q p0 s -> TInv q p0 (update' s t)
    /\ s_routine T St (update' s t) = s_routine T St s.
  Proof.
    intros q p0 s t (Hq & Hp & Hr).
    unfold update', update_to, TInv, cur_state in *.
    destruct (s_routine T St s) eqn:R; cbn;
      try (rewrite R; split; [|reflexivity]; repeat split; auto;
           unfold replay_trace in *; rewrite fold_left_app; cbn; rewrite ?Hr, ?Hp; reflexivity).
    destruct (skip && near t (s_st T St s)) eqn:K.
    { split; [|exact R]. repeat split; auto. rewrite R. exact Hr. }
    destruct (s_eq T St s) as [q'|] eqn:Q.
    - pose proof (integ_total q' (steps (s_st T St s) t ++ [t]) (s_st T St s) (s_sy T St s) (s_results T St s)) as X.
      pose proof (integ_last q' (steps (s_st T St s) t ++ [t]) (s_st T St s) (s_sy T St s) (s_results T St s)) as Y.
      unfold integ' in X, Y.
      destruct (integ T Op St tsub U P actL actR q' _ _ _ _) as [[tc' y'] res']. cbn.
      split; [|reflexivity]. repeat split; auto.
      unfold replay_trace in *. rewrite fold_left_app. cbn. rewrite Hr, <- Hq.
      rewrite X, Y, last_last. reflexivity.
    - split; [|exact R]. repeat split; auto; [congruence|]. rewrite R. exact Hr.
  Qed.

  Lemma trace_replay : forall r m q t0 p0 ts,
    let s := run' (init T St r m q t0 p0) ts in
    replay_trace T Op St tsub U P actL actR q p0 (rev (s_trace T St s)) = cur_state s.
  Proof.
    intros r m q t0 p0 ts.
    assert (G : forall ts s, TInv q p0 s -> TInv q p0 (run' s ts)).
    { induction ts0 as [|t ts0 IH]; intros s Hs; cbn; [exact Hs|].
      apply IH. apply TInv_update. exact Hs. }
    cbn. apply G. unfold TInv, init, cur_state; cbn. repeat split; auto. destruct r; reflexivity.
  Qed.

  (* ---- the statements exported to Props.v ---- *)

  Lemma resolved_incl : forall t0 (ts : list T), incl ts (t0 :: ts).
  Proof. intros t0 ts x Hx. right. exact Hx. Qed.

  Theorem evolution_sound : forall v c r m q,
    construct v c = Accepted r m q -> unsound_cell v c = false ->
    forall t0 p0 ts, resolved T near skip (t0 :: ts) ->
    let s := run' (init T St r m q t0 p0) ts in
      get_pt T St s = spec_state T Op St tsub U P actL actR c t0 p0 (last ts t0)
      /\ get_t T St s = last ts t0.
  Proof.
    intros v c r m q H Hu t0 p0 ts HR s.
    pose proof (construct_implements v c r m q H Hu) as I.
    destruct (run_sound (t0 :: ts) HR r m q _ _ t0 p0 I ts (or_introl eq_refl) (resolved_incl t0 ts)) as (A & B & _).
    split; [exact A|exact B].
  Qed.

  Theorem callbacks_sound : forall v c r m q,
    construct v c = Accepted r m q -> unsound_cell v c = false ->
    forall t0 p0 ts, resolved T near skip (t0 :: ts) ->
    let s := run' (init T St r m q t0 p0) ts in
      Forall (fun tp => snd tp = spec_state T Op St tsub U P actL actR c t0 p0 (fst tp)) (s_results T St s)
      /\ (r <> R_integrate -> rev (map fst (s_results T St s)) = ts).
  Proof.
    intros v c r m q H Hu t0 p0 ts HR s.
    pose proof (construct_implements v c r m q H Hu) as I.
    destruct (run_sound (t0 :: ts) HR r m q _ _ t0 p0 I ts (or_introl eq_refl) (resolved_incl t0 ts)) as (_ & _ & C).
    split; [exact C|].
    intros Hne. destruct (direct_cb_times r Hne ts (init T St r m q t0 p0) eq_refl) as (A & _).
    fold s in A. rewrite A. cbn. rewrite app_nil_r. apply rev_involutive.
  Qed.

  Theorem at_times_sound : forall v c r m q,
    construct v c = Accepted r m q -> unsound_cell v c = false ->
    forall t0 p0 ts, resolved T near skip (t0 :: ts) ->
      Forall2 (fun t p => p = spec_state T Op St tsub U P actL actR c t0 p0 t) ts
              (at_times T Op St tsub U P actL actR steps near skip (init T St r m q t0 p0) ts)
      /\ clocks T Op St tsub U P actL actR steps near skip (init T St r m q t0 p0) ts = ts.
  Proof.
    intros v c r m q H Hu t0 p0 ts HR.
    pose proof (construct_implements v c r m q H Hu) as I.
    exact (at_times_inv (t0 :: ts) HR r m q _ _ t0 p0 I ts _ (resolved_incl t0 ts)
                        (Inv_init (t0 :: ts) r m q _ _ t0 p0 (or_introl eq_refl))).
  Qed.

  Theorem conserved : forall v c r m q,
    construct v c = Accepted r m q -> unsound_cell v c = false ->
    forall (V : Type) (f : St -> V), (forall u x, f (act' (c_isdop c) u x) = f x) ->
    forall t0 p0 ts, resolved T near skip (t0 :: ts) ->
      f (get_pt T St (run' (init T St r m q t0 p0) ts)) = f p0.
  Proof.
    intros v c r m q H Hu V f Hf t0 p0 ts HR.
    destruct (evolution_sound v c r m q H Hu t0 p0 ts HR) as (A & _). cbn in A.
    rewrite A. unfold spec_state. apply Hf.
  Qed.
End Laws.

(* ---------------------------------------------------------------------- *)
(* The integer instance satisfies the contract (so the Section is not
   vacuous), and exhibits the failures of today's code.                      *)

Lemma ZI_laws : propagator_laws Z Z (Z * Z) 0%Z Z.add ZI.tsub 0%Z Z.add ZI.U ZI.P ZI.actL ZI.actR.
Proof.
  constructor; unfold ZI.tsub, ZI.U, ZI.P, ZI.actL, ZI.actR; intros;
    try destruct x as [a0 b0]; cbn [fst snd]; try (f_equal; lia); lia.
Qed.

(* the coded skip test distinguishes all (scaled dyadic) times below 2^50 units:
   every list of such times is resolved *)
Lemma ZI_near_exact : forall a b, (Z.abs a < 2 ^ 50)%Z -> (Z.abs b < 2 ^ 50)%Z -> ZI.near a b = true -> a = b.
Proof.
  intros a b Ha Hb H. unfold ZI.near in H. apply Z.leb_le in H.
  assert (E : (2 ^ 50 = 1125899906842624)%Z) by reflexivity. rewrite E in *. lia.
Qed.

Lemma ZI_resolved : forall skip l, Forall (fun t => (Z.abs t < 2 ^ 50)%Z) l -> resolved Z ZI.near skip l.
Proof.
  intros skip l Hl _ a b Ha Hb. rewrite Forall_forall in Hl. apply ZI_near_exact; auto.
Qed.

Definition c_expm_dop : config := mk_config M_expm true H_dense false false.
Definition c_solve_dim2 : config := mk_config M_solve false H_dense true false.

Lemma expm_dop_refuted_witness :
  spec_supported current c_expm_dop = true /\
  construct current c_expm_dop = Accepted R_expm_ket M_expm None /\
  let s := ZI.zrun false (init Z ZI.St R_expm_ket M_expm None 4%Z ZI.p0) [10%Z] in
    ZI.zget_pt s = (6, 0)%Z /\ ZI.zspec c_expm_dop 4%Z ZI.p0 10%Z = (6, 6)%Z
    /\ ZI.zget_pt s <> ZI.zspec c_expm_dop 4%Z ZI.p0 10%Z
    /\ ZI.balance (ZI.zget_pt s) <> ZI.balance ZI.p0.
Proof. vm_compute. repeat split; discriminate. Qed.

Lemma solve_dim2_refuted_witness :
  spec_supported current c_solve_dim2 = true /\ construct current c_solve_dim2 = Raised E_Crash.
Proof. vm_compute. split; reflexivity. Qed.

(* ---------------------------------------------------------------------- *)
(* The step rule: the trace of every run is the closed form of
   (routine, t0, requested times); no update depends on earlier step sizes.
   No propagator law is needed.                                              *)

Section StepRule.
  Variables T Op St : Type.
  Variable tsub : T -> T -> T.
  Variable U : T -> Op.
  Variable P : T -> T -> Op.
  Variables actL actR : Op -> St -> St.
  Variable steps : T -> T -> list T.
  Variable near : T -> T -> bool.
  Variable skip : bool.

  Let update' := update_to T Op St tsub U P actL actR steps near skip.
  Let run' := run T Op St tsub U P actL actR steps near skip.

  (* the clock the next step is measured from *)
  Definition step_clock (s : st T St) : T :=
    match s_routine T St s with R_integrate => s_st T St s | _ => s_t T St s end.

  Lemma integ_end : forall q l tc y res,
    fst (fst (integ T Op St tsub U P actL actR q l tc y res)) = last l tc.
  Proof.
    intros q l; induction l as [|a l IH]; intros tc y res; cbn; [reflexivity|].
    rewrite IH. symmetry. apply last_cons.
  Qed.

  Lemma update_shape : forall s t,
    (s_routine T St s = R_integrate -> s_eq T St s <> None) ->
    let s' := update' s t in
    s_routine T St s' = s_routine T St s /\ s_t0 T St s' = s_t0 T St s /\ s_eq T St s' = s_eq T St s
    /\ ((s_routine T St s = R_integrate /\ (skip && near t (s_st T St s)) = true
         /\ s_trace T St s' = s_trace T St s /\ step_clock s' = step_clock s)
        \/ ((s_routine T St s <> R_integrate \/ (skip && near t (s_st T St s)) = false)
            /\ step_clock s' = t
            /\ exists e, s_trace T St s' = e :: s_trace T St s
               /\ closed_trace T tsub near skip (s_routine T St s) (s_t0 T St s) (step_clock s) [t] = [e])).
  Proof.
    intros s t Hq. unfold update', update_to, step_clock.
    destruct (s_routine T St s) eqn:R.
    1-4: (cbn; rewrite R; repeat split; auto;
          right; split; [left; discriminate|]; split; [reflexivity|]; eexists; split; reflexivity).
    destruct (skip && near t (s_st T St s)) eqn:K.
    { rewrite R. split; [reflexivity|]. split; [reflexivity|]. split; [reflexivity|]. left. repeat split; reflexivity. }
    destruct (s_eq T St s) as [q|] eqn:Q; [|exfalso; apply Hq; reflexivity].
    pose proof (integ_end q (steps (s_st T St s) t ++ [t]) (s_st T St s) (s_sy T St s) (s_results T St s)) as E.
    destruct (integ T Op St tsub U P actL actR q (steps (s_st T St s) t ++ [t]) (s_st T St s) (s_sy T St s)
                    (s_results T St s)) as [[tc' y'] res'].
    cbn in E. rewrite last_last in E. subst tc'. cbn. repeat split; auto.
    right. split; [right; reflexivity|]. split; [reflexivity|]. eexists; split; [reflexivity|].
    rewrite K. reflexivity.
  Qed.

  Lemma closed_trace_cons : forall r t0 cur t ts,
    closed_trace T tsub near skip r t0 cur (t :: ts)
    = match r with
      | R_integrate => if skip && near t cur then closed_trace T tsub near skip r t0 cur ts
                       else closed_trace T tsub near skip r t0 cur [t] ++ closed_trace T tsub near skip r t0 t ts
      | _ => closed_trace T tsub near skip r t0 cur [t] ++ closed_trace T tsub near skip r t0 t ts
      end.
  Proof.
    intros r t0 cur t ts. destruct r; cbn; try reflexivity.
    destruct (skip && near t cur); reflexivity.
  Qed.

  Lemma run_trace_from : forall ts s,
    (s_routine T St s = R_integrate -> s_eq T St s <> None) ->
    rev (s_trace T St (run' s ts))
    = rev (s_trace T St s) ++ closed_trace T tsub near skip (s_routine T St s) (s_t0 T St s) (step_clock s) ts.
  Proof.
    induction ts as [|t ts IH]; intros s Hq.
    - cbn. destruct (s_routine T St s); cbn; rewrite app_nil_r; reflexivity.
    - change (run' s (t :: ts)) with (run' (update' s t) ts).
      destruct (update_shape s t Hq) as (Hr & H0 & He & Hcase).
      rewrite IH by (rewrite Hr, He; exact Hq).
      rewrite Hr, H0, closed_trace_cons.
      destruct Hcase as [(Ri & K & Htr & Hc) | (Hn & Hc & e & Htr & Hcl)].
      + rewrite Ri. unfold step_clock at 2. rewrite Ri. rewrite K. rewrite Htr, Hc.
        unfold step_clock. rewrite Ri. reflexivity.
      + rewrite Htr, Hc, Hcl. cbn [rev]. rewrite <- app_assoc. cbn [app].
        destruct (s_routine T St s) eqn:R; try reflexivity.
        destruct Hn as [Hn|Hn]; [congruence|].
        unfold step_clock. rewrite R. rewrite Hn. reflexivity.
  Qed.

  Theorem trace_closed_form : forall r m q t0 p0 ts, (r = R_integrate -> q <> None) ->
    rev (s_trace T St (run' (init T St r m q t0 p0) ts)) = closed_trace T tsub near skip r t0 t0 ts.
  Proof.
    intros r m q t0 p0 ts Hq.
    rewrite run_trace_from by (cbn; exact Hq).
    cbn. unfold step_clock; cbn. destruct r; reflexivity.
  Qed.

  (* a step-reuse rule is harmless when (and, see ZI_reuse_key_must_be_exact,
     only when) its key test accepts nothing but the cached step itself *)
  Lemma reuse_exact_key_sound : forall close : T -> T -> bool,
    (forall a b, close a b = true -> a = b) ->
    forall ts cache prev, reuse_steps T tsub close cache prev ts = increments T tsub prev ts.
  Proof.
    intros close Hc; induction ts as [|t ts IH]; intros cache prev; cbn; [reflexivity|].
    rewrite IH. f_equal. unfold used_step. destruct cache as [c|]; [|reflexivity].
    destruct (close (tsub t prev) c) eqn:K; [|reflexivity]. symmetry. apply Hc. exact K.
  Qed.
End StepRule.

(* every accepted integrate cell has a right-hand side *)
Lemma accepted_integrate_has_eq : forall v c r m q, construct v c = Accepted r m q ->
  r = R_integrate -> q <> None.
Proof.
  intros v c r m q H Hr.
  assert (K : all_version (fun v => all_config (fun c =>
            match construct v c with Accepted R_integrate _ None => false | _ => true end)) = true)
    by (vm_compute; reflexivity).
  pose proof (all_config_ok _ (all_version_ok _ K v) c) as X. cbn in X. rewrite H in X. subst r.
  destruct q; [discriminate|discriminate X].
Qed.

(* on the integer instance the converse holds: a key test that accepts two
   different steps a <> b makes some run apply the wrong step *)
Lemma ZI_reuse_key_must_be_exact : forall close : Z -> Z -> bool,
  (forall t0 ts, ZI.zreuse_steps close None t0 ts = ZI.zincrements t0 ts) ->
  forall a b, close a b = true -> a = b.
Proof.
  intros close H a b K.
  specialize (H 0%Z [b; (b + a)%Z]).
  unfold ZI.zreuse_steps, ZI.zincrements, ZI.tsub in H. cbn [reuse_steps increments used_step] in H.
  replace (b - 0)%Z with b in H by lia. replace (b + a - b)%Z with a in H by lia.
  rewrite K in H. injection H as H. symmetry. exact H.
Qed.

Lemma ZI_reuse_iff : forall close : Z -> Z -> bool,
  (forall t0 ts, ZI.zreuse_steps close None t0 ts = ZI.zincrements t0 ts)
  <-> (forall a b, close a b = true -> a = b).
Proof.
  intros close; split.
  - apply ZI_reuse_key_must_be_exact.
  - intros H t0 ts. apply reuse_exact_key_sound. exact H.
Qed.

(* exported form: every accepted configuration, every code version, every list
   of requested times *)
Theorem step_rule : forall (T Op St : Type) (tsub : T -> T -> T) (U : T -> Op) (P : T -> T -> Op)
    (actL actR : Op -> St -> St) (steps : T -> T -> list T) (near : T -> T -> bool) (skip : bool),
  forall v c r m q, construct v c = Accepted r m q ->
  forall (t0 : T) (p0 : St) (ts : list T),
    rev (s_trace T St (run T Op St tsub U P actL actR steps near skip (init T St r m q t0 p0) ts))
    = closed_trace T tsub near skip r t0 t0 ts.
Proof.
  intros. apply trace_closed_form. exact (accepted_integrate_has_eq v c r m q H).
Qed.

(* C18 - executable model of quimb.evo.Evolution (constructor support table and
   the per-method update routines).  Definitions only; proofs in Proofs.v.

   The numerics (eigh, expm_multiply, the scipy integrator) are NOT modelled:
   they appear as an abstract propagator family acting on an abstract state
   space (Section variables).  The same definitions are executed by vm_compute
   on the integer instance at the end of the file ("phase counters"). *)
From Coq Require Import ZArith List Bool.
Import ListNotations.

(* ---------------------------------------------------------------------- *)
(* Constructor: quimb/evo.py Evolution.__init__ + _setup_solved_ham +
   _start_integrator/_calc_evo_eq, branch for branch.                        *)

Inductive method := M_solve | M_integrate | M_expm | M_other.
Inductive hamkind := H_dense | H_sparse | H_linop | H_tuple | H_callable.
(* E_Type / E_Value: the documented `raise TypeError / ValueError` of __init__;
   E_Crash: any other exception, from the constructor or from the first update *)
Inductive exn := E_Type | E_Value | E_Crash.
(* which bound method is stored in self._update_method *)
Inductive routine := R_solved_ket | R_solved_dop | R_expm_ket | R_expm_dop | R_integrate.
(* which right-hand-side builder _calc_evo_eq selects for the integrator *)
Inductive eqkind := Q_ket | Q_dop | Q_dop_vec | Q_ket_td | Q_dop_td.

(* The two places where the code that exists today departs from the property
   are kept as explicit switches, so that the faithful model of today's code
   (`current`) and the model of the repaired code are the same definitions.
   v_expm_dop: what method='expm' does with a density operator -
     EDP_onesided: installs _update_to_expm_ket regardless of isdop (today),
     EDP_twosided: installs a two-sided update, EDP_reject: raises TypeError.
   v_tuple_by_type: false = `evals, evecs = self._ham` is *tried* (so a 2x2
     dense/sparse Hamiltonian unpacks as (row0, row1), today); true = a
     pre-diagonalised Hamiltonian is recognised by isinstance(tuple/list). *)
Inductive expm_dop_policy := EDP_onesided | EDP_twosided | EDP_reject.
(* v_int_skip_same: false = _update_to_integrate always calls
     stepper.integrate(t) (today); true = it returns at once when t is the time
     the stepper is already at (the stepper reaches a requested time only up to
     rounding, so a repeated request is otherwise a one-ulp integration, possibly
     backwards, which scipy's dop853 can fail on - see the known findings). *)
Record version := mk_version { v_expm_dop : expm_dop_policy; v_tuple_by_type : bool; v_int_skip_same : bool }.
Definition current : version := mk_version EDP_onesided false false.

Record config := mk_config {
  c_method : method;      (* method=... *)
  c_isdop : bool;         (* isop(p0) *)
  c_ham : hamkind;        (* representation of ham *)
  c_dim2 : bool;          (* Hilbert-space dimension is exactly 2 *)
  c_int_stop : bool       (* int_stop is not None *)
}.

Inductive ctor :=
| Accepted (r : routine) (m : method) (q : option eqkind)  (* _update_method, final self._method, rhs *)
| Raised (e : exn).

Definition method_eqb (a b : method) : bool :=
  match a, b with
  | M_solve, M_solve | M_integrate, M_integrate | M_expm, M_expm | M_other, M_other => true
  | _, _ => false
  end.
Definition is_tuple (h : hamkind) := match h with H_tuple => true | _ => false end.
Definition is_linop (h : hamkind) := match h with H_linop => true | _ => false end.
(* self._timedep = callable(ham) and not isinstance(ham, (LinearOperator, Lazy)) *)
Definition timedep (h : hamkind) := match h with H_callable => true | _ => false end.
Definition is_sparse (h : hamkind) := match h with H_sparse => true | _ => false end.

(* _calc_evo_eq(isdop, issparse(H0), False, timedep) *)
Definition calc_evo_eq (isdop sparse td : bool) : eqkind :=
  match isdop, sparse, td with
  | false, _, false => Q_ket
  | true, false, false => Q_dop
  | true, true, false => Q_dop_vec
  | false, _, true => Q_ket_td
  | true, _, true => Q_dop_td
  end.

(* _setup_solved_ham *)
Definition setup_solved (v : version) (c : config) : ctor :=
  let r := if c_isdop c then R_solved_dop else R_solved_ket in
  if is_tuple (c_ham c) then Accepted r M_solve None          (* unpack succeeds; self._method = 'solve' *)
  else if negb (v_tuple_by_type v) && c_dim2 c then Raised E_Crash   (* 2x2 matrix unpacks as two rows *)
  else Accepted r M_solve None.                                 (* ValueError -> eigh(ham.toarray()) *)

Definition construct (v : version) (c : config) : ctor :=
  if c_int_stop c && negb (method_eqb (c_method c) M_integrate) then Raised E_Value
  else if method_eqb (c_method c) M_solve || is_tuple (c_ham c) then
    if is_linop (c_ham c) then Raised E_Type
    else if timedep (c_ham c) then Raised E_Type
    else setup_solved v c
  else match c_method c with
    | M_integrate =>
        Accepted R_integrate M_integrate
                 (Some (calc_evo_eq (c_isdop c) (is_sparse (c_ham c)) (timedep (c_ham c))))
    | M_expm =>
        if is_linop (c_ham c) then Raised E_Type
        else if timedep (c_ham c) then Raised E_Type
        else match v_expm_dop v with
          | EDP_onesided => Accepted R_expm_ket M_expm None
          | EDP_twosided => Accepted (if c_isdop c then R_expm_dop else R_expm_ket) M_expm None
          | EDP_reject => if c_isdop c then Raised E_Type else Accepted R_expm_ket M_expm None
          end
    | _ => Raised E_Value
    end.

(* The documented support table (docstring of Evolution): a tuple is a
   pre-diagonalised system whatever `method` says; 'solve' needs a concrete
   time-independent matrix; 'integrate' takes anything; 'expm' needs a concrete
   time-independent matrix; int_stop only with 'integrate'. *)
Definition spec_supported (v : version) (c : config) : bool :=
  negb (c_int_stop c && negb (method_eqb (c_method c) M_integrate)) &&
  match c_ham c, c_method c with
  | H_tuple, _ => true
  | _, M_integrate => true
  | (H_dense | H_sparse), M_solve => true
  | (H_dense | H_sparse), M_expm =>
      match v_expm_dop v with EDP_reject => negb (c_isdop c) | _ => true end
  | _, _ => false
  end.

(* the cells where today's code accepts a configuration it does not evolve
   correctly (see the `_refuted` theorems) *)
Definition unsound_cell (v : version) (c : config) : bool :=
  match v_expm_dop v, c_method c, c_ham c with
  | EDP_onesided, M_expm, (H_dense | H_sparse) => c_isdop c
  | _, _, _ => false
  end.

Definition eq_two (q : eqkind) : bool := match q with Q_ket | Q_ket_td => false | _ => true end.
Definition eq_td (q : eqkind) : bool := match q with Q_ket_td | Q_dop_td => true | _ => false end.

(* ---------------------------------------------------------------------- *)
(* The state machine over an abstract propagator family.                     *)

Section Machine.
  Variables T Op St : Type.
  Variable tsub : T -> T -> T.
  Variable U : T -> Op.            (* exp(-i H dt), time-independent H *)
  Variable P : T -> T -> Op.       (* time-ordered propagator P t2 t1 of a callable H *)
  Variable actL : Op -> St -> St.  (* x |-> u x *)
  Variable actR : Op -> St -> St.  (* x |-> x u^dagger *)
  (* the adaptive integrator's accepted intermediate step times between the
     current stepper time and the target (arbitrary: chosen by scipy) *)
  Variable steps : T -> T -> list T.
  (* the coded test `abs(t - tc) <= 4 * eps * max(abs(t), abs(tc))` (eps = 2^-52)
     of _update_to_integrate: t is the time the stepper is already at, up to
     rounding *)
  Variable near : T -> T -> bool.
  Variable skip : bool.            (* v_int_skip_same of the code version *)

  Definition act (two : bool) (u : Op) (x : St) : St :=
    if two then actR u (actL u x) else actL u x.
  Definition prop (td : bool) (t2 t1 : T) : Op := if td then P t2 t1 else U (tsub t2 t1).

  (* one observable propagator application *)
  Inductive event :=
  | Ev_diag (delta : T) (two : bool)   (* explt(evals, delta); ldmul on pe0 [; rdmul with the conjugate] *)
  | Ev_expm (delta : T) (two : bool)   (* expm_multiply((-i delta) H, pt) [; and on the right] *)
  | Ev_int (tfrom tto : T).            (* stepper.integrate(tto) issued when stepper.t = tfrom *)

  Record st := mk_st {
    s_routine : routine; s_method : method; s_eq : option eqkind;
    s_t0 : T; s_p0 : St;             (* self.t0, self._p0 (pe0 is p0 in the eigenbasis) *)
    s_t : T; s_pt : St;              (* self._t, self._pt *)
    s_st : T; s_sy : St;             (* self._stepper.t, self._stepper.y *)
    s_trace : list event;            (* newest first *)
    s_results : list (T * St)        (* what the compute callback was handed, newest first *)
  }.

  Definition init (r : routine) (m : method) (q : option eqkind) (t0 : T) (p0 : St) : st :=
    mk_st r m q t0 p0 t0 p0 t0 p0 [] [].

  (* the integrator oracle: advances exactly through its accepted steps, handing
     each accepted point to solout *)
  Fixpoint integ (q : eqkind) (l : list T) (tc : T) (y : St) (res : list (T * St))
    : T * St * list (T * St) :=
    match l with
    | [] => (tc, y, res)
    | s :: l' =>
        let y' := act (eq_two q) (prop (eq_td q) s tc) y in
        integ q l' s y' ((s, y') :: res)
    end.

  Definition upd_direct (s : st) (t : T) (pt : St) (e : event) : st :=
    mk_st (s_routine s) (s_method s) (s_eq s) (s_t0 s) (s_p0 s) t pt (s_st s) (s_sy s)
          (e :: s_trace s) ((t, pt) :: s_results s).

  (* self._update_method(t) *)
  Definition update_to (s : st) (t : T) : st :=
    match s_routine s with
    | R_solved_ket =>
        let d := tsub t (s_t0 s) in
        upd_direct s t (actL (U d) (s_p0 s)) (Ev_diag d false)
    | R_solved_dop =>
        let d := tsub t (s_t0 s) in
        upd_direct s t (actR (U d) (actL (U d) (s_p0 s))) (Ev_diag d true)
    | R_expm_ket =>
        let d := tsub t (s_t s) in
        upd_direct s t (actL (U d) (s_pt s)) (Ev_expm d false)
    | R_expm_dop =>
        let d := tsub t (s_t s) in
        upd_direct s t (actR (U d) (actL (U d) (s_pt s))) (Ev_expm d true)
    | R_integrate =>
        if skip && near t (s_st s) then s else
        match s_eq s with
        | None => s
        | Some q =>
            match integ q (steps (s_st s) t ++ [t]) (s_st s) (s_sy s) (s_results s) with
            | (tnew, y, res) =>
                mk_st (s_routine s) (s_method s) (s_eq s) (s_t0 s) (s_p0 s) (s_t s) (s_pt s)
                      tnew y (Ev_int (s_st s) t :: s_trace s) res
            end
        end
    end.

  (* the `t` and `pt` properties *)
  Definition get_t (s : st) : T := match s_method s with M_integrate => s_st s | _ => s_t s end.
  Definition get_pt (s : st) : St := match s_method s with M_integrate => s_sy s | _ => s_pt s end.

  Definition run (s : st) (ts : list T) : st := fold_left update_to ts s.

  (* at_times: update, then yield self.pt *)
  Fixpoint at_times (s : st) (ts : list T) : list St :=
    match ts with
    | [] => []
    | t :: ts' => let s' := update_to s t in get_pt s' :: at_times s' ts'
    end.

  (* evo.t observed after every call *)
  Fixpoint clocks (s : st) (ts : list T) : list T :=
    match ts with
    | [] => []
    | t :: ts' => let s' := update_to s t in get_t s' :: clocks s' ts'
    end.

  (* what the property demands of the state at time t *)
  Definition spec_state (c : config) (t0 : T) (p0 : St) (t : T) : St :=
    act (c_isdop c) (prop (timedep (c_ham c)) t t0) p0.

  (* semantics of an observed trace (oldest first): what state the recorded
     propagator applications produce from p0 *)
  Definition apply_event (q : option eqkind) (p0 : St) (x : St) (e : event) : St :=
    match e with
    | Ev_diag d two => act two (U d) p0
    | Ev_expm d two => act two (U d) x
    | Ev_int a b => match q with
                    | Some q' => act (eq_two q') (prop (eq_td q') b a) x
                    | None => x
                    end
    end.
  Definition replay_trace (q : option eqkind) (p0 : St) (tr : list event) : St :=
    fold_left (apply_event q p0) tr p0.

  Definition start (v : version) (c : config) (t0 : T) (p0 : St) : exn + st :=
    match construct v c with
    | Accepted r m q => inr (init r m q t0 p0)
    | Raised e => inl e
    end.
End Machine.

Arguments Ev_diag {T}. Arguments Ev_expm {T}. Arguments Ev_int {T}.

(* ---------------------------------------------------------------------- *)
(* The step rule: which propagator step every update applies, in closed form,
   as a function of (routine, t0, requested times) ALONE.  The update routines
   keep no memory of earlier step sizes: 'solve' always steps from t0, 'expm'
   steps by exactly t - (previous requested time), 'integrate' is asked to go
   from the time the stepper is at to t (unless the code version skips a
   request for the time it is already at).                                    *)

Section StepRule.
  Variable T : Type.
  Variable tsub : T -> T -> T.
  Variable near : T -> T -> bool.
  Variable skip : bool.

  (* the successive differences of the requested times, starting from prev *)
  Fixpoint increments (prev : T) (ts : list T) : list T :=
    match ts with
    | [] => []
    | t :: ts' => tsub t prev :: increments t ts'
    end.

  Fixpoint int_trace (cur : T) (ts : list T) : list (event T) :=
    match ts with
    | [] => []
    | t :: ts' => if skip && near t cur then int_trace cur ts' else Ev_int cur t :: int_trace t ts'
    end.

  (* the whole trace (oldest first) of a run that starts at clock `cur` *)
  Definition closed_trace (r : routine) (t0 cur : T) (ts : list T) : list (event T) :=
    match r with
    | R_solved_ket => map (fun t => Ev_diag (tsub t t0) false) ts
    | R_solved_dop => map (fun t => Ev_diag (tsub t t0) true) ts
    | R_expm_ket => map (fun d => Ev_expm d false) (increments cur ts)
    | R_expm_dop => map (fun d => Ev_expm d true) (increments cur ts)
    | R_integrate => int_trace cur ts
    end.

  (* A step-reuse rule (NOT in the code as it stands, which is the instance
     close = fun _ _ => false): an update that keeps the previously used step
     (i.e. the scaled operator (-i dt) H built for it) and uses it again
     whenever the key test `close dt cached` accepts the new step dt.
     reuse_steps lists the steps such an update really applies. *)
  Definition used_step (close : T -> T -> bool) (cache : option T) (dt : T) : T :=
    match cache with
    | Some c => if close dt c then c else dt
    | None => dt
    end.
  Fixpoint reuse_steps (close : T -> T -> bool) (cache : option T) (prev : T) (ts : list T) : list T :=
    match ts with
    | [] => []
    | t :: ts' => let u := used_step close cache (tsub t prev) in
                  u :: reuse_steps close (Some u) t ts'
    end.
End StepRule.

(* ---------------------------------------------------------------------- *)
(* The oracle contract under which the machine is proved sound: times form a
   group (only the two consequences used are stated), U is a one-parameter
   group of operators, P is a two-parameter propagator family with the cocycle
   law, operators act on states from the left (u x) and from the right
   (x u^dagger) and the two actions commute.  For quimb these are the
   properties of exp(-iHt) delivered by eigh/explt, expm_multiply and the ODE
   integrator; they are validated numerically by the oracle stream and are
   NOT proved about those routines. *)
Record propagator_laws (T Op St : Type) (tzero : T) (tadd tsub : T -> T -> T)
       (oid : Op) (ocomp : Op -> Op -> Op) (U : T -> Op) (P : T -> T -> Op)
       (actL actR : Op -> St -> St) : Prop := mk_laws {
  pl_tsub_diag : forall t, tsub t t = tzero;
  pl_tsub_chain : forall a b c, tadd (tsub a b) (tsub b c) = tsub a c;
  pl_U_zero : U tzero = oid;
  pl_U_add : forall s t, U (tadd s t) = ocomp (U s) (U t);
  pl_P_diag : forall t, P t t = oid;
  pl_P_chain : forall a b c, ocomp (P c b) (P b a) = P c a;
  pl_actL_id : forall x, actL oid x = x;
  pl_actL_comp : forall u w x, actL (ocomp u w) x = actL u (actL w x);
  pl_actR_id : forall x, actR oid x = x;
  pl_actR_comp : forall u w x, actR (ocomp u w) x = actR u (actR w x);
  pl_act_comm : forall u w x, actL u (actR w x) = actR w (actL u x)
}.

(* The requested times are resolved by the skip test: among t0 and the
   requested times, two that the coded test calls "the same up to rounding" are
   the same.  (Times closer than 4 ulp are deliberately not distinguished by the
   repaired code; for them the clock is only right up to 4 ulp.)  Only matters
   for a code version that skips. *)
Definition resolved (T : Type) (near : T -> T -> bool) (skip : bool) (l : list T) : Prop :=
  skip = true -> forall a b, In a l -> In b l -> near a b = true -> a = b.

(* ---------------------------------------------------------------------- *)
(* Integer instance: times are integers (dyadic times scaled by a power of
   two), a propagator is the amount of time it advances by, a state is a pair
   of phase counters (time applied on the left, time applied on the right).
   The time-dependent family is P t2 t1 = t2^2 - t1^2 (a genuine cocycle that
   is not a function of t2 - t1). *)

Module ZI.
  Open Scope Z_scope.
  Definition T := Z. Definition Op := Z. Definition St := (Z * Z)%type.
  Definition tsub (a b : Z) := a - b.
  Definition U (t : Z) : Op := t.
  Definition P (t2 t1 : Z) : Op := t2 * t2 - t1 * t1.
  Definition actL (u : Op) (x : St) : St := (fst x + u, snd x).
  Definition actR (u : Op) (x : St) : St := (fst x, snd x + u).
  (* a deterministic stand-in for the adaptive step selection *)
  Definition steps (a b : Z) : list Z := if a =? b then [a] else [a; (a + b) / 2].
  Definition p0 : St := (0, 0).
  (* |a - b| <= 4 * 2^-52 * max(|a|, |b|), exactly, on scaled dyadic times
     (the test is scale invariant) *)
  Definition near (a b : Z) : bool := 2 ^ 50 * Z.abs (a - b) <=? Z.max (Z.abs a) (Z.abs b).

  Definition zst := st Z St.
  Definition zupdate := update_to Z Op St tsub U P actL actR steps near.
  Definition zrun := run Z Op St tsub U P actL actR steps near.
  Definition zclocks := clocks Z Op St tsub U P actL actR steps near.
  Definition zat_times := at_times Z Op St tsub U P actL actR steps near.
  Definition zspec := spec_state Z Op St tsub U P actL actR.
  Definition zstart (v : version) (c : config) (t0 : Z) := start Z St v c t0 p0.
  Definition zget_t := get_t Z St.
  Definition zget_pt := get_pt Z St.
  Definition zreplay := replay_trace Z Op St tsub U P actL actR.
  Definition zclosed_trace (skip : bool) := closed_trace Z tsub near skip.
  Definition zincrements := increments Z tsub.
  Definition zreuse_steps := reuse_steps Z tsub.
  (* a tolerance key test |a - b| <= atol + |b| / rinv on scaled times (the
     shape of numpy.isclose(a, b, rtol = 1 / rinv, atol)) *)
  Definition tol_close (atol rinv : Z) (a b : Z) : bool :=
    rinv * Z.abs (a - b) <=? rinv * atol + Z.abs b.

  (* a quantity conserved by every two-sided action and by no one-sided one
     (stands for trace / purity / hermiticity of a density operator) *)
  Definition balance (x : St) : Z := fst x - snd x.

  (* observable protocol of one run: constructor outcome, then per requested
     time the clock, and the trace oldest first *)
  Record obs := mk_obs {
    o_ctor : ctor;
    o_clocks : list Z;
    o_trace : list (event Z);
    o_cb_times : list Z
  }.
  Definition observe (v : version) (c : config) (t0 : Z) (ts : list Z) : obs :=
    match construct v c with
    | Raised e => mk_obs (Raised e) [] [] []
    | Accepted r m q =>
        let s0 := init Z St r m q t0 p0 in
        let s := zrun (v_int_skip_same v) s0 ts in
        mk_obs (Accepted r m q) (zclocks (v_int_skip_same v) s0 ts) (rev (s_trace Z St s))
               (rev (map fst (s_results Z St s)))
    end.
End ZI.

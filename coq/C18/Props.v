(* C18 property theorems (statements only; proofs in C18/Proofs.v).

   Reading guide.  `construct v c` is Evolution.__init__ on configuration c
   (method x ket/dop x Hamiltonian kind x [dimension is 2] x [int_stop given])
   for code version v; `current` is the code as it stands.  `run` folds
   `update_to` over a list of requested times; `get_pt` / `get_t` are the `pt`
   and `t` properties.  `spec_state c t0 p0 t` is what the property demands:
   the propagator from t0 to t (U (t - t0), or the time-ordered P t t0 for a
   callable Hamiltonian) applied to p0 - on the left for a ket, on both sides
   for a density operator.  `propagator_laws` (C18/Model.v) is the oracle
   contract of the numeric routines; `steps` is the integrator's arbitrary
   choice of intermediate steps.  `near` is the coded test of
   _update_to_integrate ("t is where the stepper already is, up to 4 ulp") and
   `skip` says whether the code version has it; `resolved near skip (t0 :: ts)`
   says the requested times are not closer to each other than that test
   resolves (C18_skip_rule_exact: always true for dyadic times < 2^50 units).
   `closed_trace` / `increments` / `reuse_steps` (C18/Model.v, StepRule): the
   closed form of the propagator applications of a run, and the step-reuse rule. *)
From Coq Require Import ZArith List Bool.
From QV Require Import C18.Model C18.Proofs.
Import ListNotations.

(* Every accepted configuration, outside the cell refuted below, reports after
   EVERY list of requested times (non-uniform, repeated, non-monotonic) the
   exactly evolved state and the last requested time. *)
Theorem C18_evolution_sound :
  forall (T Op St : Type) (tzero : T) (tadd tsub : T -> T -> T) (oid : Op) (ocomp : Op -> Op -> Op)
         (U : T -> Op) (P : T -> T -> Op) (actL actR : Op -> St -> St) (steps : T -> T -> list T)
         (near : T -> T -> bool) (skip : bool),
  propagator_laws T Op St tzero tadd tsub oid ocomp U P actL actR ->
  forall v c r m q, construct v c = Accepted r m q -> unsound_cell v c = false ->
  forall (t0 : T) (p0 : St) (ts : list T), resolved T near skip (t0 :: ts) ->
    let s := run T Op St tsub U P actL actR steps near skip (init T St r m q t0 p0) ts in
    get_pt T St s = spec_state T Op St tsub U P actL actR c t0 p0 (last ts t0)
    /\ get_t T St s = last ts t0.
Proof. exact evolution_sound. Qed.
Print Assumptions C18_evolution_sound.

(* at_times yields, for each requested time, the exactly evolved state, and the
   clock read after each step is that time. *)
Theorem C18_at_times_sound :
  forall (T Op St : Type) (tzero : T) (tadd tsub : T -> T -> T) (oid : Op) (ocomp : Op -> Op -> Op)
         (U : T -> Op) (P : T -> T -> Op) (actL actR : Op -> St -> St) (steps : T -> T -> list T)
         (near : T -> T -> bool) (skip : bool),
  propagator_laws T Op St tzero tadd tsub oid ocomp U P actL actR ->
  forall v c r m q, construct v c = Accepted r m q -> unsound_cell v c = false ->
  forall (t0 : T) (p0 : St) (ts : list T), resolved T near skip (t0 :: ts) ->
    Forall2 (fun t p => p = spec_state T Op St tsub U P actL actR c t0 p0 t) ts
            (at_times T Op St tsub U P actL actR steps near skip (init T St r m q t0 p0) ts)
    /\ clocks T Op St tsub U P actL actR steps near skip (init T St r m q t0 p0) ts = ts.
Proof. exact at_times_sound. Qed.
Print Assumptions C18_at_times_sound.

(* compute callbacks: every (t, state) pair handed to a callback - including the
   integrator's intermediate steps - is the exactly evolved state at that t; the
   direct methods call it exactly once per requested time, in order. *)
Theorem C18_callbacks_see_state :
  forall (T Op St : Type) (tzero : T) (tadd tsub : T -> T -> T) (oid : Op) (ocomp : Op -> Op -> Op)
         (U : T -> Op) (P : T -> T -> Op) (actL actR : Op -> St -> St) (steps : T -> T -> list T)
         (near : T -> T -> bool) (skip : bool),
  propagator_laws T Op St tzero tadd tsub oid ocomp U P actL actR ->
  forall v c r m q, construct v c = Accepted r m q -> unsound_cell v c = false ->
  forall (t0 : T) (p0 : St) (ts : list T), resolved T near skip (t0 :: ts) ->
    let s := run T Op St tsub U P actL actR steps near skip (init T St r m q t0 p0) ts in
    Forall (fun tp => snd tp = spec_state T Op St tsub U P actL actR c t0 p0 (fst tp)) (s_results T St s)
    /\ (r <> R_integrate -> rev (map fst (s_results T St s)) = ts).
Proof. exact callbacks_sound. Qed.
Print Assumptions C18_callbacks_see_state.

(* conservation: any functional invariant under the group action (norm for
   kets; trace, purity, spectrum for density operators; energy, as U commutes
   with H) keeps its initial value along every run. *)
Theorem C18_conserved_quantities :
  forall (T Op St : Type) (tzero : T) (tadd tsub : T -> T -> T) (oid : Op) (ocomp : Op -> Op -> Op)
         (U : T -> Op) (P : T -> T -> Op) (actL actR : Op -> St -> St) (steps : T -> T -> list T)
         (near : T -> T -> bool) (skip : bool),
  propagator_laws T Op St tzero tadd tsub oid ocomp U P actL actR ->
  forall v c r m q, construct v c = Accepted r m q -> unsound_cell v c = false ->
  forall (V : Type) (f : St -> V), (forall u x, f (act Op St actL actR (c_isdop c) u x) = f x) ->
  forall (t0 : T) (p0 : St) (ts : list T), resolved T near skip (t0 :: ts) ->
    f (get_pt T St (run T Op St tsub U P actL actR steps near skip (init T St r m q t0 p0) ts)) = f p0.
Proof. exact conserved. Qed.
Print Assumptions C18_conserved_quantities.

(* the recorded sequence of propagator applications (what the correspondence
   observes on the implementation), replayed with each event's meaning, IS the
   held state - for every code version, sound or not. *)
Theorem C18_state_is_trace_replay :
  forall (T Op St : Type) (tzero : T) (tadd tsub : T -> T -> T) (oid : Op) (ocomp : Op -> Op -> Op)
         (U : T -> Op) (P : T -> T -> Op) (actL actR : Op -> St -> St) (steps : T -> T -> list T)
         (near : T -> T -> bool) (skip : bool),
  propagator_laws T Op St tzero tadd tsub oid ocomp U P actL actR ->
  forall r m q (t0 : T) (p0 : St) (ts : list T),
    let s := run T Op St tsub U P actL actR steps near skip (init T St r m q t0 p0) ts in
    replay_trace T Op St tsub U P actL actR q p0 (rev (s_trace T St s)) = cur_state T St s.
Proof. exact trace_replay. Qed.
Print Assumptions C18_state_is_trace_replay.

(* support table: a combination outside the documented table is rejected with
   the documented TypeError / ValueError - never accepted, never a crash. *)
Theorem C18_unsupported_rejected : forall v c, spec_supported v c = false ->
  construct v c = Raised E_Type \/ construct v c = Raised E_Value.
Proof. exact unsupported_rejected. Qed.
Print Assumptions C18_unsupported_rejected.

(* a supported combination is accepted - except, while the tuple test is
   `try: evals, evecs = ham`, method='solve' on an unsolved 2x2 Hamiltonian. *)
Theorem C18_supported_accepted : forall v c, spec_supported v c = true ->
  (exists r m q, construct v c = Accepted r m q) \/
  (v_tuple_by_type v = false /\ c_dim2 c = true /\ c_method c = M_solve
   /\ (c_ham c = H_dense \/ c_ham c = H_sparse) /\ construct v c = Raised E_Crash).
Proof. exact supported_not_rejected. Qed.
Print Assumptions C18_supported_accepted.

(* the installed routine matches the kind of state (ket routine for kets, dop
   routine for density operators, two-sided right-hand side for the integrator) *)
Theorem C18_routine_matches_state_kind : forall v c r m q, construct v c = Accepted r m q ->
  unsound_cell v c = false ->
  match r with
  | R_solved_ket | R_expm_ket => c_isdop c = false
  | R_solved_dop | R_expm_dop => c_isdop c = true
  | R_integrate => exists q', q = Some q' /\ eq_two q' = c_isdop c
  end.
Proof. exact accepted_routine_matches_state_kind. Qed.
Print Assumptions C18_routine_matches_state_kind.

(* once both constructor defects are repaired (either repair of the expm cell), every
   supported combination is accepted and no cell is excluded from soundness *)
Theorem C18_repaired_version_complete : forall v c,
  v_expm_dop v <> EDP_onesided -> v_tuple_by_type v = true ->
  unsound_cell v c = false /\
  (spec_supported v c = true -> exists r m q, construct v c = Accepted r m q).
Proof.
  intros v c H1 H2. split; [exact (repaired_no_unsound_cell v c H1)|exact (repaired_accepts_supported v c H2)].
Qed.
Print Assumptions C18_repaired_version_complete.

(* REFUTED for the code as it stands (DESIGN section 5, F13): method='expm' with a
   density operator is accepted, installs the ket update and evolves one-sidedly:
   the reported state is not the evolved one and the two-sided invariant breaks. *)
Theorem C18_expm_dop_refuted :
  exists (c : config) (t0 : Z) (ts : list Z) r m q,
    spec_supported current c = true /\ construct current c = Accepted r m q /\
    let s := ZI.zrun (v_int_skip_same current) (init Z ZI.St r m q t0 ZI.p0) ts in
    ZI.zget_pt s <> ZI.zspec c t0 ZI.p0 (last ts t0)
    /\ ZI.balance (ZI.zget_pt s) <> ZI.balance ZI.p0.
Proof.
  exists c_expm_dop, 4%Z, [10%Z], R_expm_ket, M_expm, None.
  destruct expm_dop_refuted_witness as (A & B & _ & _ & C & D). repeat split; assumption.
Qed.
Print Assumptions C18_expm_dop_refuted.

(* REFUTED for the code as it stands: a supported combination that is not
   evolved at all (2x2 Hamiltonian unpacked as a pre-diagonalised tuple). *)
Theorem C18_solve_dim2_refuted :
  exists c, spec_supported current c = true /\ construct current c = Raised E_Crash.
Proof. exists c_solve_dim2. exact solve_dim2_refuted_witness. Qed.
Print Assumptions C18_solve_dim2_refuted.

(* the coded skip test |t - tc| <= 4 * 2^-52 * max(|t|, |tc|) separates every two
   distinct times of the dyadic grid below 2^50 grid units - however small the
   increment is RELATIVE to the current time (t0 = 256 with dt = 2^-10, t = 64
   with dt = 2^-13, ...): no requested time is skipped unless it is the time
   the stepper is at. *)
Theorem C18_skip_rule_exact : forall skip (l : list Z),
  Forall (fun t => (Z.abs t < 2 ^ 50)%Z) l -> resolved Z ZI.near skip l.
Proof. exact ZI_resolved. Qed.
Print Assumptions C18_skip_rule_exact.

(* THE STEP RULE.  For every accepted configuration of every code version and EVERY
   list of requested times, the sequence of propagator applications is the closed
   form `closed_trace` of (installed routine, t0, requested times) alone: 'solve'
   applies U(t - t0) to p0; 'expm' applies U(t - t_prev) with t_prev the previously
   requested time - exactly the increment, however close it is to the step before
   (no step size is remembered, rounded or reused); 'integrate' asks the stepper
   to go from where it is to t.  This is what the trace correspondence observes
   on the implementation (operator handed to expm_multiply = (-i (t - evo.t)) H). *)
Theorem C18_step_rule :
  forall (T Op St : Type) (tsub : T -> T -> T) (U : T -> Op) (P : T -> T -> Op)
         (actL actR : Op -> St -> St) (steps : T -> T -> list T) (near : T -> T -> bool) (skip : bool),
  forall v c r m q, construct v c = Accepted r m q ->
  forall (t0 : T) (p0 : St) (ts : list T),
    rev (s_trace T St (run T Op St tsub U P actL actR steps near skip (init T St r m q t0 p0) ts))
    = closed_trace T tsub near skip r t0 t0 ts.
Proof. exact step_rule. Qed.
Print Assumptions C18_step_rule.

(* A step-reuse rule ("keep the scaled operator of the previous step and use it
   again when `close dt cached`") applies the right steps for every list of
   requested times IF its key test accepts only the cached step itself ... *)
Theorem C18_step_reuse_exact_key_sound :
  forall (T : Type) (tsub : T -> T -> T) (close : T -> T -> bool),
  (forall a b, close a b = true -> a = b) ->
  forall ts cache prev, reuse_steps T tsub close cache prev ts = increments T tsub prev ts.
Proof. exact reuse_exact_key_sound. Qed.
Print Assumptions C18_step_reuse_exact_key_sound.

(* ... and, on the integer time grid, ONLY if: any key test that accepts two
   different steps (any absolute or relative tolerance) makes some run apply a
   wrong step.  The code as it stands is the instance close = (fun _ _ => false). *)
Theorem C18_step_reuse_sound_iff_exact_key : forall close : Z -> Z -> bool,
  (forall t0 ts, ZI.zreuse_steps close None t0 ts = ZI.zincrements t0 ts)
  <-> (forall a b, close a b = true -> a = b).
Proof. exact ZI_reuse_iff. Qed.
Print Assumptions C18_step_reuse_sound_iff_exact_key.

(* non-vacuity: the integer instance satisfies the contract, so the theorems
   above apply to it; and concrete runs of the model *)
Example C18_examples :
  propagator_laws Z Z (Z * Z) 0%Z Z.add ZI.tsub 0%Z Z.add ZI.U ZI.P ZI.actL ZI.actR
  /\ (forall skip ts, Forall (fun t => (Z.abs t < 2 ^ 50)%Z) (4%Z :: ts) -> ZI.zget_pt (ZI.zrun skip (init Z ZI.St R_solved_dop M_solve None 4%Z ZI.p0) ts)
                 = ZI.zspec (mk_config M_solve true H_sparse false false) 4%Z ZI.p0 (last ts 4%Z))
  /\ ZI.observe current (mk_config M_expm false H_sparse false false) 4%Z [10; 10; 16; 8]%Z
     = ZI.mk_obs (Accepted R_expm_ket M_expm None) [10; 10; 16; 8]%Z
                 [Ev_expm 6%Z false; Ev_expm 0%Z false; Ev_expm 6%Z false; Ev_expm (-8)%Z false]
                 [10; 10; 16; 8]%Z
  /\ ZI.observe current (mk_config M_integrate true H_callable false false) 4%Z [10; 6]%Z
     = ZI.mk_obs (Accepted R_integrate M_integrate (Some Q_dop_td)) [10; 6]%Z
                 [Ev_int 4%Z 10%Z; Ev_int 10%Z 6%Z] [4; 7; 10; 10; 8; 6]%Z
  /\ ZI.zget_pt (ZI.zrun false (init Z ZI.St R_integrate M_integrate (Some Q_dop_td) 4%Z ZI.p0) [10; 6]%Z)
     = (20, 20)%Z
  /\ ZI.o_trace (ZI.observe (mk_version EDP_twosided true true) (mk_config M_integrate true H_dense false false) 4%Z [10; 10; 12]%Z)
     = [Ev_int 4%Z 10%Z; Ev_int 10%Z 12%Z]
  (* t0 = 256, increments 2^-10 (times in units of 2^-13): nothing but the exact repeat is skipped *)
  /\ ZI.observe (mk_version EDP_twosided true true) (mk_config M_integrate false H_dense false false)
                2097152%Z [2097160; 2097160; 2097168]%Z
     = ZI.mk_obs (Accepted R_integrate M_integrate (Some Q_ket)) [2097160; 2097160; 2097168]%Z
                 [Ev_int 2097152%Z 2097160%Z; Ev_int 2097160%Z 2097168%Z] [2097152; 2097156; 2097160; 2097160; 2097164; 2097168]%Z
  (* the test is a genuine few-ulp test, not equality: beyond 2^50 units neighbours coincide *)
  /\ ZI.near (2 ^ 60) (2 ^ 60 + 1) = true /\ ZI.near 2097152 2097153 = false
  /\ ZI.zclosed_trace false R_expm_ket 4%Z 4%Z [10; 10; 16; 8]%Z
     = [Ev_expm 6%Z false; Ev_expm 0%Z false; Ev_expm 6%Z false; Ev_expm (-8)%Z false]
  (* steps 2^20, 2^20 + 1, 2^20 (equal to 1e-6 relative): a tolerance key test reuses the first one, the elapsed time is off *)
  /\ ZI.zreuse_steps (ZI.tol_close 0 100000) None 0%Z [1048576; 2097153; 3145729]%Z = [1048576; 1048576; 1048576]%Z
  /\ ZI.zincrements 0%Z [1048576; 2097153; 3145729]%Z = [1048576; 1048577; 1048576]%Z
  (* tiny steps (all below the absolute tolerance): nothing moves after the first step 0 *)
  /\ ZI.zreuse_steps (ZI.tol_close 10 100000) None 0%Z [0; 3; 7]%Z = [0; 0; 0]%Z
  /\ construct current (mk_config M_other false H_tuple false false) = Accepted R_solved_ket M_solve None
  /\ construct current (mk_config M_expm false H_linop false false) = Raised E_Type.
Proof.
  split; [exact ZI_laws|]. split.
  - intros skip ts Hts.
    exact (proj1 (evolution_sound Z Z (Z * Z)%type 0%Z Z.add ZI.tsub 0%Z Z.add ZI.U ZI.P ZI.actL ZI.actR
                   ZI.steps ZI.near skip ZI_laws current (mk_config M_solve true H_sparse false false)
                   R_solved_dop M_solve None eq_refl eq_refl 4%Z ZI.p0 ts (ZI_resolved skip _ Hts))).
  - vm_compute. repeat split.
Qed.

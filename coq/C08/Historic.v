(* C08 - HISTORIC: the record programs as they were BEFORE the fix commits
   4980426d (swap), f9934bdc (one-site gate), eb8c2f1e (compress_site),
   e1e3f983 (dropped copies), 47017e6a (measure at the last site), 7d04d5b5
   (Tensor.normalize kept the flag of the tensor it rescaled), kept only to
   document why each fix was needed.  Nothing here models the current code:
   the current programs are in C08/Model.v and are covered by the positive
   theorem.  Each pre-fix program, started from a sound state, ends in a state
   whose record is false (vm_compute witness). *)
From Coq Require Import List Bool Arith.
From QV Require Import C08.Model C08.Proofs.
Import ListNotations.

(* swap_sites_with_compress, adjacent: record untouched unless absorb is left / right *)
Definition swap_adj_prefix (i : nat) (ab : absorb) (calc : nat * nat) (st : mps) : option mps :=
  bind (canonicalize i (S i) calc st) (fun st1 =>
  bind (split_pair i (S i) ab (sites st1)) (fun l =>
  Some (mkM l (match ab with ALeft => RSome i i | ARight => RSome (S i) (S i) | _ => rec st1 end)))).

(* one-site gate contracted into the site: record never touched *)
Definition gate_one_site_prefix (i : nat) (unitary : bool) (st : mps) : option mps :=
  bind (gate1 i unitary (sites st)) (fun l => Some (mkM l (rec st))).

(* compress_site: record never touched after the optional canonicalize *)
Definition compress_site_prefix (i : nat) (canonize : bool) (calc : nat * nat) (st : mps) : option mps :=
  let st := decorated st in
  bind (if canonize then canonicalize i i calc st else Some st) (fun st1 =>
  bind (if 0 <? i then compress_bond (pred i) ARight (sites st1) else Some (sites st1)) (fun l1 =>
  bind (if S i <? length l1 then compress_bond i ALeft l1 else Some l1) (fun l2 =>
  Some (mkM l2 (rec st1))))).

(* sample_configuration / sample / measure(get='outcome'): the caller's record
   is updated for a copy of the state that is dropped *)
Definition dropped_copy_prefix (w1 w2 : nat) (calc : nat * nat) (st : mps) : option mps :=
  bind (canonicalize w1 w2 calc st) (fun st1 => Some (mkM (sites st) (rec st1))).

(* measure(remove=True): record left at the measured site even when it was the last one *)
Definition measure_prefix (s : nat) (remove : bool) (calc : nat * nat) (st : mps) : option mps :=
  let st := decorated st in
  bind (canonicalize s s calc st) (fun st1 =>
  bind (project s (sites st1)) (fun l1 =>
  bind (if remove then remove_site s l1 else Some l1) (fun l2 =>
  Some (mkM l2 (rec st1))))).

Definition BreaksRecord (f : mps -> option mps) : Prop :=
  exists st st', Inv st /\ f st = Some st' /\ ~ Inv st'.

Ltac break_with f :=
  match eval vm_compute in (f w_state) with
  | Some ?s => exists w_state, s; split; [exact w_state_inv | split; [vm_compute; reflexivity |
                 let H := fresh in intro H; apply inv_b_iff in H; vm_compute in H; discriminate]]
  end.

Lemma swap_prefix_breaks :
  BreaksRecord (swap_adj_prefix 2 ADefault (0, 0)) /\ BreaksRecord (swap_adj_prefix 2 ABoth (0, 0)).
Proof. split; [break_with (swap_adj_prefix 2 ADefault (0, 0)) | break_with (swap_adj_prefix 2 ABoth (0, 0))]. Qed.

Lemma gate_one_site_prefix_breaks :
  BreaksRecord (gate_one_site_prefix 1 false) /\ BreaksRecord (gate_one_site_prefix 5 false).
Proof. split; [break_with (gate_one_site_prefix 1 false) | break_with (gate_one_site_prefix 5 false)]. Qed.

Lemma compress_site_prefix_breaks :
  BreaksRecord (compress_site_prefix 1 false (0, 0)) /\ BreaksRecord (compress_site_prefix 5 false (0, 0)).
Proof. split; [break_with (compress_site_prefix 1 false (0, 0)) | break_with (compress_site_prefix 5 false (0, 0))]. Qed.

Lemma dropped_copy_prefix_breaks : BreaksRecord (dropped_copy_prefix 0 0 (0, 0)).
Proof. break_with (dropped_copy_prefix 0 0 (0, 0)). Qed.

Lemma measure_prefix_breaks : BreaksRecord (measure_prefix 5 true (0, 0)).
Proof. break_with (measure_prefix 5 true (0, 0)). Qed.

(* Tensor.normalize[_] before 7d04d5b5: modify(data=T.data / T.norm(), left_inds=T.left_inds) - the
   data was rescaled and the isometry flag passed on.  From a sound state whose loose record (0,5)
   stays true, site 1 ends flagged left-isometric without being so. *)
Definition normalize_site_prefix (i : nat) (st : mps) : option mps :=
  if i <? length (sites st)
  then Some (mkM (setS (sites st) i (mkS false false (fl (get (sites st) i)))) (rec st))
  else None.

Lemma normalize_site_prefix_breaks_flag :
  exists st', Inv w_loose /\ normalize_site_prefix 1 w_loose = Some st'
              /\ record_ok st' = true /\ ~ FlagsOK (sites st').
Proof.
  match eval vm_compute in (normalize_site_prefix 1 w_loose) with
  | Some ?s => exists s
  end.
  split; [apply inv_b_iff; vm_compute; reflexivity|].
  split; [vm_compute; reflexivity|]. split; [vm_compute; reflexivity|].
  intro H. apply flags_ok_iff in H. vm_compute in H. discriminate.
Qed.

(* C08 - why a sound record makes the canonical-form consumers right: the
   algebraic core, over ANY commutative ring K with a conjugation (Section
   variables + hypotheses, no axioms).

   An open-boundary MPS is A k : left-bond -> physical -> right-bond -> K with
   bond sizes D k (left of site k) and physical sizes d k.  lamp n s b is the
   amplitude of the first n sites in configuration s with the open right bond
   fixed to b.  The LEFT ENVIRONMENT of bond n - the contraction of sites
   0..n-1 of the ket with the same sites of the bra over all physical indices,
   i.e. exactly what partial_trace_to_dense_canonical / magnetization /
   measure / singular_values leave out on the left -

       env n b b' = sum over s_0..s_{n-1} of conj (lamp n s b) * lamp n s b'

   is the identity as soon as every site k < n is left-isometric. *)
From Coq Require Import Arith List Lia Ring PeanoNat.
From QV Require Import Base.Sums.

Section Region.
  Variable K : Type.
  Variables (k0 k1 : K) (kadd kmul ksub : K -> K -> K) (kopp : K -> K).
  Hypothesis Kring : ring_theory k0 k1 kadd kmul ksub kopp eq.
  Add Ring Kr2 : Kring.
  Infix "+" := kadd. Infix "*" := kmul.
  Notation sumK := (sum K k0 kadd).

  Variable cj : K -> K.
  Hypothesis cj_add : forall a b, cj (a + b) = cj a + cj b.
  Hypothesis cj_mul : forall a b, cj (a * b) = cj a * cj b.
  Hypothesis cj_zero : cj k0 = k0.
  Hypothesis cj_one : cj k1 = k1.

  Variable A : nat -> nat -> nat -> nat -> K.   (* site, left bond, physical, right bond *)
  Variable D : nat -> nat.                       (* D k = size of the bond left of site k *)
  Variable d : nat -> nat.                       (* physical sizes *)

  Definition delta (a b : nat) : K := if Nat.eqb a b then k1 else k0.

  Definition upd (s : nat -> nat) (k x : nat) : nat -> nat := fun j => if Nat.eqb j k then x else s j.

  (* sum over the physical indices of sites 0..n-1 *)
  Fixpoint csum (n : nat) (F : (nat -> nat) -> K) (s : nat -> nat) : K :=
    match n with
    | O => F s
    | S n' => csum n' (fun s' => sumK (d n') (fun x => F (upd s' n' x))) s
    end.

  Fixpoint lamp (n : nat) (s : nat -> nat) (b : nat) : K :=
    match n with
    | O => delta b 0
    | S n' => sumK (D n') (fun a => lamp n' s a * A n' a (s n') b)
    end.

  Definition env (n : nat) (s0 : nat -> nat) (b b' : nat) : K :=
    csum n (fun s => cj (lamp n s b) * lamp n s b') s0.

  Definition left_iso (k : nat) : Prop :=
    forall g g', g < D (S k) -> g' < D (S k) ->
      sumK (D k) (fun a => sumK (d k) (fun x => cj (A k a x g) * A k a x g')) = delta g g'.

  (* ---------------------------------------------------------------- csum *)
  Lemma csum_ext : forall n F G s, (forall s', F s' = G s') -> csum n F s = csum n G s.
  Proof.
    induction n; simpl; intros F G s H; auto.
    apply IHn. intros s'. apply sum_ext. intros. apply H.
  Qed.

  Lemma csum_zero : forall n s, csum n (fun _ => k0) s = k0.
  Proof.
    induction n; simpl; intros; auto.
    rewrite (csum_ext n _ (fun _ => k0)); auto.
    intros. apply (sum_zero K k0 k1 kadd kmul ksub kopp Kring).
  Qed.

  Lemma csum_add : forall n F G s, csum n (fun t => F t + G t) s = csum n F s + csum n G s.
  Proof.
    induction n; simpl; intros; auto.
    rewrite <- IHn. apply csum_ext. intros.
    apply (sum_add K k0 k1 kadd kmul ksub kopp Kring).
  Qed.

  Lemma csum_mul_r : forall n F c s, csum n (fun t => F t * c) s = csum n F s * c.
  Proof.
    induction n; simpl; intros; auto.
    rewrite <- IHn. apply csum_ext. intros.
    apply (sum_mul_r K k0 k1 kadd kmul ksub kopp Kring).
  Qed.

  Lemma csum_sum : forall m n (F : nat -> (nat -> nat) -> K) s,
    csum n (fun t => sumK m (fun i => F i t)) s = sumK m (fun i => csum n (F i) s).
  Proof.
    induction m; simpl; intros.
    - apply csum_zero.
    - rewrite csum_add. rewrite IHm. reflexivity.
  Qed.

  (* --------------------------------------------------------------- helpers *)
  Lemma cj_sum : forall n f, cj (sumK n f) = sumK n (fun i => cj (f i)).
  Proof. induction n; simpl; intros; auto. rewrite cj_add, IHn. reflexivity. Qed.

  Lemma sum_sum_mul : forall n m (f g : nat -> K),
    sumK n f * sumK m g = sumK n (fun i => sumK m (fun j => f i * g j)).
  Proof.
    intros. rewrite <- (sum_mul_r K k0 k1 kadd kmul ksub kopp Kring).
    apply sum_ext. intros. rewrite (sum_mul_l K k0 k1 kadd kmul ksub kopp Kring). reflexivity.
  Qed.

  Lemma lamp_upd : forall n s k x b, n <= k -> lamp n (upd s k x) b = lamp n s b.
  Proof.
    induction n; simpl; intros; auto.
    apply sum_ext. intros a Ha. rewrite IHn by lia.
    unfold upd at 1. replace (Nat.eqb n k) with false; auto.
    symmetry. apply Nat.eqb_neq. lia.
  Qed.

  Lemma upd_same : forall s k x, upd s k x k = x.
  Proof. intros. unfold upd. rewrite Nat.eqb_refl. reflexivity. Qed.

  (* one transfer step: env (n+1) = sum_{a,a'} env n a a' * T a a' *)
  Definition transfer (n a a' g g' : nat) : K :=
    sumK (d n) (fun x => cj (A n a x g) * A n a' x g').

  Lemma env_step : forall n s0 g g',
    env (S n) s0 g g' = sumK (D n) (fun a => sumK (D n) (fun a' => env n s0 a a' * transfer n a a' g g')).
  Proof.
    intros. unfold env at 1. simpl csum.
    (* rewrite the summand *)
    rewrite (csum_ext n _ (fun s' =>
      sumK (D n) (fun a => sumK (D n) (fun a' => (cj (lamp n s' a) * lamp n s' a') * transfer n a a' g g')))).
    - rewrite csum_sum. apply sum_ext. intros a Ha.
      rewrite csum_sum. apply sum_ext. intros a' Ha'.
      rewrite csum_mul_r. reflexivity.
    - intros s'.
      (* sum over x of conj(lamp (S n)) * lamp (S n) *)
      rewrite (sum_ext K k0 kadd (d n) _ (fun x =>
        sumK (D n) (fun a => sumK (D n) (fun a' =>
          (cj (lamp n s' a) * lamp n s' a') * (cj (A n a x g) * A n a' x g'))))).
      + rewrite (sum_swap K k0 k1 kadd kmul ksub kopp Kring).
        apply sum_ext. intros a Ha.
        rewrite (sum_swap K k0 k1 kadd kmul ksub kopp Kring).
        apply sum_ext. intros a' Ha'.
        unfold transfer. rewrite (sum_mul_l K k0 k1 kadd kmul ksub kopp Kring). reflexivity.
      + intros x Hx. simpl lamp. rewrite upd_same.
        rewrite cj_sum. rewrite sum_sum_mul.
        apply sum_ext. intros a Ha. apply sum_ext. intros a' Ha'.
        rewrite !lamp_upd by lia. rewrite cj_mul. ring.
  Qed.

  (* the left environment of a left-canonical block is the identity *)
  Theorem left_env_identity : forall n s0,
    D 0 = 1 -> (forall k, k < n -> left_iso k) ->
    forall g g', g < D n -> g' < D n -> env n s0 g g' = delta g g'.
  Proof.
    induction n; intros s0 D0 ISO g g' Hg Hg'.
    - unfold env. simpl. rewrite D0 in *. replace g with 0 by lia. replace g' with 0 by lia.
      unfold delta. simpl. rewrite cj_one. ring.
    - rewrite env_step.
      rewrite (sum_ext K k0 kadd (D n) _ (fun a =>
        sumK (D n) (fun a' => if Nat.eqb a' a then transfer n a a' g g' else k0))).
      + rewrite (sum_ext K k0 kadd (D n) _ (fun a => transfer n a a g g')).
        * unfold transfer. apply ISO; auto.
        * intros a Ha. rewrite (sum_delta K k0 k1 kadd kmul ksub kopp Kring) by auto. reflexivity.
      + intros a Ha. apply sum_ext. intros a' Ha'.
        rewrite (IHn s0 D0 (fun k Hk => ISO k (Nat.lt_lt_succ_r _ _ Hk)) a a' Ha Ha'). unfold delta.
        rewrite (Nat.eqb_sym a' a). destruct (Nat.eqb a a'); ring.
  Qed.
End Region.

(* The mirror image: the RIGHT environment of a right-canonical block is the
   identity.  Obtained by applying the theorem to the reversed chain
   (site j of the mirror = site L-1-j, bonds exchanged). *)
Section Mirror.
  Variable K : Type.
  Variables (k0 k1 : K) (kadd kmul ksub : K -> K -> K) (kopp : K -> K).
  Hypothesis Kring : ring_theory k0 k1 kadd kmul ksub kopp eq.
  Variable cj : K -> K.
  Hypothesis cj_add : forall a b, cj (kadd a b) = kadd (cj a) (cj b).
  Hypothesis cj_mul : forall a b, cj (kmul a b) = kmul (cj a) (cj b).
  Hypothesis cj_zero : cj k0 = k0.
  Hypothesis cj_one : cj k1 = k1.
  Variable A : nat -> nat -> nat -> nat -> K.
  Variable D : nat -> nat.
  Variable d : nat -> nat.
  Variable L : nat.

  Definition mirrorA : nat -> nat -> nat -> nat -> K := fun j a x b => A (L - 1 - j) b x a.
  Definition mirrorD : nat -> nat := fun j => D (L - j).
  Definition mirrord : nat -> nat := fun j => d (L - 1 - j).

  Definition right_iso (k : nat) : Prop :=
    forall g g', g < D k -> g' < D k ->
      sum K k0 kadd (D (S k)) (fun b => sum K k0 kadd (d k) (fun x => kmul (cj (A k g x b)) (A k g' x b)))
      = delta K k0 k1 g g'.

  (* contraction of sites L-n..L-1 of ket and bra, open on the bond left of site L-n *)
  Definition renv (n : nat) (s0 : nat -> nat) (g g' : nat) : K :=
    env K k0 k1 kadd kmul cj mirrorA mirrorD mirrord n s0 g g'.

  Lemma mirror_iso : forall j, j < L -> right_iso (L - 1 - j) ->
    left_iso K k0 k1 kadd kmul cj mirrorA mirrorD mirrord j.
  Proof.
    unfold left_iso, right_iso, mirrorA, mirrorD, mirrord. intros j Hj H g g' Hg Hg'.
    replace (L - S j) with (L - 1 - j) in * by lia.
    replace (L - j) with (S (L - 1 - j)) by lia. apply H; auto.
  Qed.

  Theorem right_env_identity : forall n s0, n <= L ->
    D L = 1 -> (forall k, L - n <= k -> k < L -> right_iso k) ->
    forall g g', g < D (L - n) -> g' < D (L - n) -> renv n s0 g g' = delta K k0 k1 g g'.
  Proof.
    intros n s0 Hn DL ISO g g' Hg Hg'. unfold renv.
    apply (left_env_identity K k0 k1 kadd kmul ksub kopp Kring cj cj_add cj_mul cj_zero cj_one); auto.
    - unfold mirrorD. rewrite Nat.sub_0_r. exact DL.
    - intros k Hk. apply mirror_iso; [lia|]. apply ISO; lia.
  Qed.
End Mirror.

(* C08 - executable model of the canonical-form record of a matrix product state.

   Abstract MPS = one [site] per tensor:
     gL / gR : what is GUARANTEED about the tensor (left- / right-isometric);
     fl      : the tensor's `left_inds` flag as the library keeps it
               (FL = all indices but the right bond, FR = all but the left bond),
               consulted by the `tensor_canonize_bond` shortcut
   plus the record info["cur_orthog"].

   Primitive effects (each is an oracle contract about QR / SVD / contraction,
   validated numerically on every run, see harness/c08.py):
     qr_left i      tensor_canonize_bond(T[i], T[i+1])  (skipped when T[i] is flagged FL)
     qr_right i     tensor_canonize_bond(T[i], T[i-1])  (skipped when T[i] is flagged FR)
     split_pair     contract two neighbours (+gate), split, copy the data back
     compress_bond  tensor_compress_bond with absorb = left | right | both
     region_compress  tensor_network_1d_compress(method='direct') of a block
     gate1          one-site gate contracted into the tensor
     project / remove_site   measurement projection, removal of a measured site
     assume         calc_current_orthog_center() reported (lo, hi)

   Library operations are programs over the primitives, with the record
   update written as in quimb/tensor/tn1d/core.py.  `None` = the code raises. *)
From Coq Require Import List Bool Arith.
Import ListNotations.

Inductive flag := FNone | FL | FR.
Record site := mkS { gL : bool; gR : bool; fl : flag }.
Definition blank := mkS false false FNone.

(* info["cur_orthog"]: key missing | None | "calc" | (a, b) *)
Inductive rcd := RUnset | RNone | RCalc | RSome (a b : nat).
Record mps := mkM { sites : list site; rec : rcd }.

Inductive absorb := ADefault | ALeft | ARight | ABoth.

Definition bind {A B} (x : option A) (f : A -> option B) : option B :=
  match x with Some a => f a | None => None end.

Definition get (l : list site) (k : nat) : site := nth k l blank.

Fixpoint setS (l : list site) (k : nat) (s : site) : list site :=
  match l, k with
  | [], _ => []
  | _ :: t, 0 => s :: t
  | h :: t, S k' => h :: setS t k' s
  end.

(* ---------------------------------------------------------------- primitives *)

(* left_canonize_site(i): ta = T[i], tb = T[i+1] *)
Definition qr_left (i : nat) (l : list site) : option (list site) :=
  if S i <? length l then
    match fl (get l i) with
    | FL => Some l   (* shortcut: flagged isometric w.r.t. the shared bond *)
    | _ => Some (setS (setS l i (mkS true false FL)) (S i) blank)
    end
  else None.

(* right_canonize_site(i): ta = T[i], tb = T[i-1] *)
Definition qr_right (i : nat) (l : list site) : option (list site) :=
  if (0 <? i) && (i <? length l) then
    match fl (get l i) with
    | FR => Some l
    | _ => Some (setS (setS l i (mkS false true FR)) (pred i) blank)
    end
  else None.

(* for k in range(c, c+n): left_canonize_site(k) *)
Fixpoint sweepL (c n : nat) (l : list site) : option (list site) :=
  match n with
  | 0 => Some l
  | S n' => bind (qr_left c l) (sweepL (S c) n')
  end.

(* for k in range(c, c-n, -1): right_canonize_site(k) *)
Fixpoint sweepR (c n : nat) (l : list site) : option (list site) :=
  match n with
  | 0 => Some l
  | S n' => bind (qr_right c l) (sweepR (pred c) n')
  end.

(* shift_orthogonality_center(current, new) *)
Definition shift (cur new : nat) (l : list site) : option (list site) :=
  if cur <? new then sweepL cur (new - cur) l else sweepR cur (cur - new) l.

(* contract neighbours a (the `left` tensor of the split) and b, split, copy
   data back (flags cleared).  absorb=left: singular values into a, b isometric
   towards the shared bond; right: the converse; both/default: neither. *)
Definition iso_towards (me other : nat) : site :=
  if me <? other then mkS true false FNone else mkS false true FNone.

Definition split_pair (a b : nat) (ab : absorb) (l : list site) : option (list site) :=
  if (a <? length l) && (b <? length l) && ((S a =? b) || (S b =? a)) then
    match ab with
    | ALeft => Some (setS (setS l a blank) b (iso_towards b a))
    | ARight => Some (setS (setS l b blank) a (iso_towards a b))
    | _ => Some (setS (setS l a blank) b blank)
    end
  else None.

(* tensor_compress_bond(T[i], T[i+1], absorb=...) : flags are set *)
Definition compress_bond (i : nat) (ab : absorb) (l : list site) : option (list site) :=
  if S i <? length l then
    match ab with
    | ARight => Some (setS (setS l (S i) blank) i (mkS true false FL))
    | ALeft => Some (setS (setS l i blank) (S i) (mkS false true FR))
    | _ => Some (setS (setS l i blank) (S i) blank)
    end
  else None.

(* tensor_compress_bond with `reduced` on the side of `other` (the SVD is taken of
   T[other] alone; T[keep] is multiplied by the isometric factor, singular values
   stay on `other`): T[keep] stays isometric towards `other` iff it was, its data
   is replaced so its flag is cleared (this mode never sets a flag), T[other] is
   left non-isometric *)
Definition compress_bond_onto (keep other : nat) (l : list site) : option (list site) :=
  if (keep <? length l) && (other <? length l) && ((S keep =? other) || (S other =? keep)) then
    let s := get l keep in
    Some (setS (setS l other blank) keep
            (if keep <? other then mkS (gL s) false FNone else mkS false (gR s) FNone))
  else None.

(* tensor_network_1d_compress(method='direct') on sites si..sf:
   not reversed: T[si] centre, T[si+1..sf] right-isometric and flagged;
   reversed: T[si..sf-1] left-isometric and flagged, T[sf] centre *)
Fixpoint fill (l : list site) (k n : nat) (s : site) : list site :=
  match n with 0 => l | S n' => fill (setS l k s) (S k) n' s end.

Definition region_compress (si sf : nat) (rev : bool) (l : list site) : option (list site) :=
  if (si <=? sf) && (sf <? length l) then
    if rev then Some (setS (fill l si (sf - si) (mkS true false FL)) sf blank)
    else Some (setS (fill l (S si) (sf - si) (mkS false true FR)) si blank)
  else None.

(* one-site gate contracted into T[i]: data replaced (flag cleared); a unitary
   on the physical leg keeps isometry, anything else does not *)
Definition gate1 (i : nat) (unitary : bool) (l : list site) : option (list site) :=
  if i <? length l then
    let s := get l i in
    Some (setS l i (if unitary then mkS (gL s) (gR s) FNone else blank))
  else None.

Definition project (i : nat) (l : list site) : option (list site) :=
  if i <? length l then Some (setS l i blank) else None.

Fixpoint delete (l : list site) (k : nat) : list site :=
  match l, k with
  | [], _ => []
  | _ :: t, 0 => t
  | h :: t, S k' => h :: delete t k'
  end.

(* measure(remove=True): projected T[i] contracted into T[i+1] (or T[i-1] when
   i is the last site), sites above renumbered *)
Definition remove_site (i : nat) (l : list site) : option (list site) :=
  if (i <? length l) && (2 <=? length l) then
    if S i =? length l then Some (delete (setS l (pred i) blank) i)
    else Some (delete (setS l (S i) blank) i)
  else None.

(* in-place rescaling of the listed site tensors by a scalar (Tensor.__imul__ /
   __itruediv__, TensorNetwork.multiply[_] with any spread_over, multiply_each[_],
   `psi *= c`, `psi /= c` go through Tensor.modify(apply=...); MPS.normalize goes
   through modify(data=...)): the data is replaced, so the flag is cleared, and a
   rescaled tensor is not guaranteed isometric any more *)
Fixpoint scale_sites (ss : list nat) (l : list site) : option (list site) :=
  match ss with
  | [] => Some l
  | s :: r => if s <? length l then scale_sites r (setS l s blank) else None
  end.

(* calc_current_orthog_center() = (lo, hi): sites < lo are left-, > hi right-isometric *)
Fixpoint assume_from (k lo hi : nat) (l : list site) : list site :=
  match l with
  | [] => []
  | s :: t =>
      mkS (gL s || (k <? lo)) (gR s || (hi <? k)) (fl s) :: assume_from (S k) lo hi t
  end.
Definition assume (lo hi : nat) (l : list site) := assume_from 0 lo hi l.

(* ---------------------------------------------------------- library programs *)

(* TensorNetwork1DFlat.canonicalize(where, info=info); `calc` is what
   calc_current_orthog_center returns if it is consulted. *)
Definition canonicalize (w1 w2 : nat) (calc : nat * nat) (st : mps) : option mps :=
  let i := Nat.min w1 w2 in
  let j := Nat.max w1 w2 in
  let l0 := sites st in
  (* parse_cur_orthog(cur_orthog="calc", info): setdefault *)
  let r := match rec st with RUnset => RCalc | r => r end in
  let '(l, cur) :=
    match r with
    | RCalc => (assume (fst calc) (snd calc) l0, Some calc)
    | RSome a b => (l0, Some (a, b))
    | _ => (l0, None)
    end in
  match cur with
  | Some (c1, c2) =>
      let cmin := Nat.min c1 c2 in
      let cmax := Nat.max c1 c2 in
      bind (if cmin <? i then shift cmin i l else Some l) (fun l1 =>
      let i' := if cmin <? i then i else Nat.min j cmin in
      bind (if j <? cmax then shift cmax j l1 else Some l1) (fun l2 =>
      let j' := if j <? cmax then j else Nat.max i' cmax in
      Some (mkM l2 (RSome i' j'))))
  | None =>
      (* left_canonicalize_(stop=i); right_canonicalize_(stop=j) *)
      bind (sweepL 0 i l) (fun l1 =>
      bind (sweepR (pred (length l1)) (pred (length l1) - j) l1) (fun l2 =>
      Some (mkM l2 (RSome i j))))
  end.

(* the decorator convert_cur_orthog: info.setdefault("cur_orthog", None) *)
Definition decorated (st : mps) : mps :=
  match rec st with RUnset => mkM (sites st) RNone | _ => st end.

(* swap_sites_with_compress, adjacent branch (i, i+1) *)
Definition swap_adj (i : nat) (ab : absorb) (calc : nat * nat) (st : mps) : option mps :=
  bind (canonicalize i (S i) calc st) (fun st1 =>
  bind (split_pair i (S i) ab (sites st1)) (fun l =>
  Some (mkM l (match ab with
               | ALeft => RSome i i
               | ARight => RSome (S i) (S i)
               | _ => RSome i (S i)   (* both sides absorb: neither site is isometric *)
               end)))).

Fixpoint fold_swaps (js : list nat) (ab : absorb) (calc : nat * nat) (st : mps) : option mps :=
  match js with
  | [] => Some st
  | j :: r => bind (swap_adj j ab calc st) (fold_swaps r ab calc)
  end.

(* range(a, a+n) and range(a, a-n, -1) *)
Fixpoint range_up (a n : nat) : list nat := match n with 0 => [] | S n' => a :: range_up (S a) n' end.
Fixpoint range_down (a n : nat) : list nat := match n with 0 => [] | S n' => a :: range_down (pred a) n' end.

(* swap_site_to(i, f, **compress_opts) *)
Definition swap_site_to (i f : nat) (ab : absorb) (calc : nat * nat) (st : mps) : option mps :=
  let st := decorated st in
  if i =? f then Some st
  else if i <? f then
    fold_swaps (range_up i (f - i)) (match ab with ADefault => ARight | x => x end) calc st
  else
    fold_swaps (range_down (pred i) (i - f)) (match ab with ADefault => ALeft | x => x end) calc st.

(* swap_sites_with_compress(i, j, **compress_opts) *)
Definition swap_sites (i j : nat) (ab : absorb) (calc : nat * nat) (st : mps) : option mps :=
  let st := decorated st in
  let a := Nat.min i j in
  let b := Nat.max i j in
  if S a =? b then swap_adj a ab calc st
  else bind (swap_site_to b a ab calc st) (swap_site_to (S a) b ab calc).

(* gate_with_auto_swap(G, (i, j), swap_back=...) *)
Definition gate_auto_swap (i j : nat) (swap_back : bool) (calc : nat * nat) (st : mps) : option mps :=
  let st := decorated st in
  let flipped := j <? i in
  let a := if flipped then j else i in
  let b := if flipped then i else j in
  let need := negb (S a =? b) in
  bind (if need then swap_site_to b (S a) ADefault calc st else Some st) (fun st1 =>
  bind (canonicalize a (S a) calc st1) (fun st2 =>
  bind (if flipped then split_pair (S a) a ALeft (sites st2)
        else split_pair a (S a) ARight (sites st2)) (fun l =>
  let st3 := mkM l (RSome (S a) (S a)) in
  if need && swap_back then swap_site_to (S a) b ADefault calc st3 else Some st3))).

(* gate_with_submpo / gate_nonlocal (method='direct'), where spans si..sf *)
Definition gate_submpo (w1 w2 : nat) (rev : bool) (calc : nat * nat) (st : mps) : option mps :=
  let st := decorated st in
  let si := Nat.min w1 w2 in
  let sf := Nat.max w1 w2 in
  bind (canonicalize si sf calc st) (fun st1 =>
  bind (region_compress si sf rev (sites st1)) (fun l =>
  Some (mkM l (if rev then RSome sf sf else RSome si si)))).

(* widen a pair record so that it covers site i (other records are left alone):
   new record = (min of the old pair and i, max of the old pair and i) *)
Definition widen (r : rcd) (i : nat) : rcd :=
  match r with
  | RSome a b => RSome (Nat.min (Nat.min a b) i) (Nat.max (Nat.max a b) i)
  | r => r
  end.

(* compress_site(i, canonize=...): left_compress_site(i-1) then right_compress_site(i+1);
   with canonize the truncation is decided from the centre (reduced='right' / 'left'),
   without it each neighbour is SVD'd on its own (absorb right / left, flags set) *)
Definition compress_site (i : nat) (canonize : bool) (calc : nat * nat) (st : mps) : option mps :=
  let st := decorated st in
  bind (if canonize then canonicalize i i calc st else Some st) (fun st1 =>
  bind (if 0 <? i then
          (if canonize then compress_bond_onto (pred i) i (sites st1)
           else compress_bond (pred i) ARight (sites st1))
        else Some (sites st1)) (fun l1 =>
  bind (if S i <? length l1 then
          (if canonize then compress_bond_onto (S i) i l1 else compress_bond i ALeft l1)
        else Some l1) (fun l2 =>
  Some (mkM l2 (if canonize then rec st1 else widen (rec st1) i))))).

(* singular_values / schmidt_values / entropy / schmidt_gap / bipartite_schmidt_state *)
Definition singular_values (i : nat) (calc : nat * nat) (st : mps) : option mps :=
  let st := decorated st in
  if (0 <? i) && (i <? length (sites st)) then canonicalize i i calc st else None.

(* gate(G, i, contract=True | 'auto-mps' | 'swap+split' | 'nonlocal', info=info):
   gate_TN_1D widens a pair record to cover the site unless G is unitary, then
   the generic one-site path contracts G into the tensor *)
Definition gate_one_site (i : nat) (unitary : bool) (st : mps) : option mps :=
  bind (gate1 i unitary (sites st)) (fun l =>
  Some (mkM l (if unitary then rec st else widen (rec st) i))).

(* measure(site, remove=...), continuing with the returned state *)
Definition measure (s : nat) (remove : bool) (calc : nat * nat) (st : mps) : option mps :=
  let st := decorated st in
  bind (canonicalize s s calc st) (fun st1 =>
  bind (project s (sites st1)) (fun l1 =>
  bind (if remove then remove_site s l1 else Some l1) (fun l2 =>
  (* removing the last site: the record moves onto the new last site *)
  Some (mkM l2 (if remove && (S s =? length l1)
                then RSome (length l1 - 2) (length l1 - 2) else rec st1))))).

(* a copy of the state is canonicalized with a COPY of the record and dropped:
   measure(site, get='outcome', inplace=False), sample_configuration(info=info),
   sample(C, info=info); the caller's state and record are untouched (the call
   still raises where canonicalize does) *)
Definition canonicalize_dropped_copy (w1 w2 : nat) (calc : nat * nat) (st : mps) : option mps :=
  bind (canonicalize w1 w2 calc st) (fun _ => Some st).

(* compute_local_expectation_canonical(terms, inplace=True): stable sort of the
   terms by |min(where) - cur_orthog[0]| (a tuple record) or by min(where), then
   local_expectation_canonical on each *)
Definition absdiff (a b : nat) := (a - b) + (b - a).
Fixpoint insert_key (key : nat * nat -> nat) (x : nat * nat) (l : list (nat * nat)) :=
  match l with
  | [] => [x]
  | y :: t => if key x <? key y then x :: y :: t else y :: insert_key key x t
  end.
Definition stable_sort (key : nat * nat -> nat) (l : list (nat * nat)) :=
  fold_left (fun acc x => insert_key key x acc) l [].
Fixpoint canon_all (ws : list (nat * nat)) (calc : nat * nat) (st : mps) : option mps :=
  match ws with
  | [] => Some st
  | (w1, w2) :: r => bind (canonicalize w1 w2 calc st) (canon_all r calc)
  end.
Definition local_exp_many (ws : list (nat * nat)) (inplace : bool) (calc : nat * nat) (st : mps) : option mps :=
  if inplace then
    let key := match rec st with
               | RSome a _ => fun w => absdiff (Nat.min (fst w) (snd w)) a
               | _ => fun w => Nat.min (fst w) (snd w)
               end in
    canon_all (stable_sort key ws) calc st
  else Some st.   (* works on copies of both the state and the info *)

(* ------------------------------------------------------------------ alphabet *)
Inductive op :=
| OCanon (dec : bool) (w1 w2 : nat)
    (* dec = false: canonicalize[_], partial_trace_to_dense_canonical, local_expectation_canonical;
       dec = true (behind the convert_cur_orthog decorator): magnetization (w1 = w2),
       measure(get='outcome', inplace=True) *)
| OSingVals (i : nat)
| OCompressSite (i : nat) (canonize : bool)
| OSwap (i j : nat) (ab : absorb)
| OSwapTo (i f : nat) (ab : absorb)
| OGateAutoSwap (i j : nat) (swap_back : bool)
| OGateSubMPO (w1 w2 : nat) (rev : bool)
| OGate1 (i : nat) (unitary : bool)
| OMeasure (s : nat) (remove : bool)
| ODroppedCopy (dec : bool) (w1 w2 : nat)
| OLocalExpMany (ws : list (nat * nat)) (inplace : bool)
| OScale (ss : list nat)
    (* a scalar rescale that touches the site tensors ss; these calls do not take the
       record, which is left as it is *)
| ONormalizeSite (i : nat)
    (* Tensor.normalize[_] on the site tensor: T.modify(data=T.data / T.norm()) - a rescale of one
       site like OScale [i]: data replaced, flag cleared *)
| OSetRecord (r : rcd).
    (* the user starts a fresh record: info = {} / info["cur_orthog"] = None / "calc" *)

Definition step (o : op) (calc : nat * nat) (st : mps) : option mps :=
  match o with
  | OCanon dec w1 w2 => canonicalize w1 w2 calc (if dec then decorated st else st)
  | OSingVals i => singular_values i calc st
  | OCompressSite i c => compress_site i c calc st
  | OSwap i j ab => swap_sites i j ab calc st
  | OSwapTo i f ab => swap_site_to i f ab calc st
  | OGateAutoSwap i j sb => gate_auto_swap i j sb calc st
  | OGateSubMPO w1 w2 rev => gate_submpo w1 w2 rev calc st
  | OGate1 i u => gate_one_site i u st
  | OMeasure s r => measure s r calc st
  | ODroppedCopy dec w1 w2 => canonicalize_dropped_copy w1 w2 calc (if dec then decorated st else st)
  | OLocalExpMany ws ip => local_exp_many ws ip calc st
  | OScale ss => bind (scale_sites ss (sites st)) (fun l => Some (mkM l (rec st)))
  | ONormalizeSite i =>
      if i <? length (sites st)
      then Some (mkM (setS (sites st) i blank) (rec st))
      else None
  | OSetRecord r => Some (mkM (sites st) r)
  end.

Fixpoint run (ops : list (op * (nat * nat))) (st : mps) : option mps :=
  match ops with
  | [] => Some st
  | (o, c) :: r => bind (step o c st) (run r)
  end.

(* ------------------------------------------------- the property, as a checker *)
Fixpoint all_from (f : nat -> site -> bool) (k : nat) (l : list site) : bool :=
  match l with [] => true | s :: t => f k s && all_from f (S k) t end.

Definition flags_ok (l : list site) : bool :=
  all_from (fun _ s => match fl s with FL => gL s | FR => gR s | FNone => true end) 0 l.

Definition record_ok (st : mps) : bool :=
  match rec st with
  | RSome a b =>
      (a <=? b) && (b <? length (sites st))
      && all_from (fun k s => (negb (k <? a) || gL s) && (negb (b <? k) || gR s)) 0 (sites st)
  | _ => true
  end.

Definition inv_b (st : mps) : bool := flags_ok (sites st) && record_ok st.

(* C08 - several cooperating MPS holders (circuits) and who owns which record.

   A CircuitMPS-family object keeps its tensors in `_psi` and threads ONE record
   dict, gate_opts["info"], through every gate and canonical-form query.  New
   holders come into being from existing ones:
     Circuit.copy()                      tensors copied (`_psi.copy()`, flags kept);
                                         gate_opts rebuilt container by container
                                         (tree_map), i.e. a NEW info dict holding the
                                         same entries;
     CircuitMPS(psi0 = other's state)    tensors copied, a NEW empty info dict.
   The property of one MPS (its record is true of ITS tensors) is then a property
   of the whole family: an operation on one holder must not make another holder's
   record false.

   World = the holders (tensor statuses + the ADDRESS of the record dict each one
   threads) and a heap of record dicts.  An operation on holder k is the
   single-MPS program `step` of C08/Model.v run on k's tensors and the dict k
   points to, written back to that dict.  The theorem is the ownership
   discipline: copies allocate, so no two holders ever point to the same dict, so
   every holder's record stays true over all histories.  `copy_shallow` (the
   alternative `dict(self.gate_opts)`, which keeps the ADDRESS of the nested info
   dict) is NOT the current code; it is kept, labelled counterfactual, with the
   witness that it breaks the property. *)
From Coq Require Import List Bool Arith Lia.
From QV Require Import C08.Model C08.Proofs.
Import ListNotations.

Record obj := mkO { osites : list site; ocell : nat }.
Record world := mkW { objs : list obj; heap : list rcd }.

Definition cell (w : world) (c : nat) : rcd := nth c (heap w) RUnset.
Definition view (w : world) (o : obj) : mps := mkM (osites o) (cell w (ocell o)).

Fixpoint set_nth {A : Type} (l : list A) (k : nat) (x : A) : list A :=
  match l, k with
  | [], _ => []
  | _ :: t, 0 => x :: t
  | h :: t, S k' => h :: set_nth t k' x
  end.

Inductive wop :=
| WStep (k : nat) (o : op) (c : nat * nat)
    (* library operation o on holder k, threading k's own record dict *)
| WCopy (k : nat)
    (* Circuit.copy(): a new holder, tensors (and their flags) copied, a NEW dict with the same entry *)
| WNew (k : nat)
    (* CircuitMPS(psi0 = holder k's state): a new holder, tensors copied, a NEW empty dict *)
| WNoop (k : nat).
    (* an operation on holder k that touches neither tensors nor record (fidelity_estimate,
       to_dense, CircuitPermMPS's SWAP, which only relabels qubits) *)

Definition wstep (x : wop) (w : world) : option world :=
  match x with
  | WStep k o c =>
      match nth_error (objs w) k with
      | None => None
      | Some ob =>
          match step o c (view w ob) with
          | None => None
          | Some st' =>
              Some (mkW (set_nth (objs w) k (mkO (sites st') (ocell ob)))
                        (set_nth (heap w) (ocell ob) (rec st')))
          end
      end
  | WCopy k =>
      match nth_error (objs w) k with
      | None => None
      | Some ob => Some (mkW (objs w ++ [mkO (osites ob) (length (heap w))])
                             (heap w ++ [cell w (ocell ob)]))
      end
  | WNew k =>
      match nth_error (objs w) k with
      | None => None
      | Some ob => Some (mkW (objs w ++ [mkO (osites ob) (length (heap w))]) (heap w ++ [RUnset]))
      end
  | WNoop k => match nth_error (objs w) k with None => None | Some _ => Some w end
  end.

Fixpoint wrun (xs : list wop) (w : world) : option world :=
  match xs with
  | [] => Some w
  | x :: r => bind (wstep x w) (wrun r)
  end.

(* COUNTERFACTUAL (not the current code): new.gate_opts = dict(self.gate_opts) - the
   nested info dict is the SAME object for both holders *)
Definition copy_shallow (k : nat) (w : world) : option world :=
  match nth_error (objs w) k with
  | None => None
  | Some ob => Some (mkW (objs w ++ [mkO (osites ob) (ocell ob)]) (heap w))
  end.

(* ------------------------------------------------------------------ invariant *)
Definition Owned (w : world) : Prop :=
  forall i j oi oj, nth_error (objs w) i = Some oi -> nth_error (objs w) j = Some oj ->
    ocell oi = ocell oj -> i = j.

Definition WInv (w : world) : Prop :=
  Owned w
  /\ forall k ob, nth_error (objs w) k = Some ob -> ocell ob < length (heap w) /\ Inv (view w ob).

(* domain: the operation on holder k is in the domain of the single-MPS theorem
   for k's own view (sites exist; calc answers well formed) *)
Definition wgood (w : world) (x : wop) : Prop :=
  match x with
  | WStep k o c =>
      forall ob, nth_error (objs w) k = Some ob -> good (view w ob) o /\ calc_ok (length (osites ob)) c
  | _ => True
  end.

Fixpoint wall_good (xs : list wop) (w : world) : Prop :=
  match xs with
  | [] => True
  | x :: r => wgood w x /\ match wstep x w with Some w' => wall_good r w' | None => True end
  end.

(* ------------------------------------------------------------------ list lemmas *)
Lemma length_set_nth : forall (A : Type) (l : list A) k x, length (set_nth l k x) = length l.
Proof. induction l; destruct k; simpl; intros; auto. Qed.

Lemma nth_error_set_nth_eq : forall (A : Type) (l : list A) k x, k < length l ->
  nth_error (set_nth l k x) k = Some x.
Proof. induction l; destruct k; simpl; intros; auto; try lia. apply IHl. lia. Qed.

Lemma nth_error_set_nth_neq : forall (A : Type) (l : list A) k j x, j <> k ->
  nth_error (set_nth l k x) j = nth_error l j.
Proof. induction l; destruct k; destruct j; simpl; intros; auto; try lia. Qed.

Lemma nth_set_nth_eq : forall (A : Type) (l : list A) k x d, k < length l -> nth k (set_nth l k x) d = x.
Proof. induction l; destruct k; simpl; intros; auto; try lia. apply IHl. lia. Qed.

Lemma nth_set_nth_neq : forall (A : Type) (l : list A) k j x d, j <> k -> nth j (set_nth l k x) d = nth j l d.
Proof. induction l; destruct k; destruct j; simpl; intros; auto; try lia. Qed.

Lemma nth_error_lt : forall (A : Type) (l : list A) k x, nth_error l k = Some x -> k < length l.
Proof. intros. apply nth_error_Some. congruence. Qed.

Lemma nth_error_snoc : forall (A : Type) (l : list A) x j y, nth_error (l ++ [x]) j = Some y ->
  (j < length l /\ nth_error l j = Some y) \/ (j = length l /\ y = x).
Proof.
  intros A l x j y H. destruct (Nat.lt_ge_cases j (length l)) as [Lt|Ge].
  - left. split; auto. rewrite nth_error_app1 in H; auto.
  - right. rewrite nth_error_app2 in H by lia.
    destruct (j - length l) eqn:E; simpl in H.
    + inversion H. split; auto. lia.
    + destruct n; discriminate.
Qed.

Lemma mps_eta : forall st, mkM (sites st) (rec st) = st.
Proof. destruct st; reflexivity. Qed.

(* ------------------------------------------------------------------ one step *)
Lemma alloc_inv : forall w k ob r,
  WInv w -> nth_error (objs w) k = Some ob -> RecOK (mkM (osites ob) r) ->
  WInv (mkW (objs w ++ [mkO (osites ob) (length (heap w))]) (heap w ++ [r])).
Proof.
  intros w k ob r (OW & IV) K RO. split.
  - intros i j oi oj Hi Hj E. simpl in Hi, Hj.
    apply nth_error_snoc in Hi. apply nth_error_snoc in Hj.
    destruct Hi as [(Li & Hi)|(Li & Hi)]; destruct Hj as [(Lj & Hj)|(Lj & Hj)]; subst.
    + eapply OW; eauto.
    + simpl in E. destruct (IV _ _ Hi) as (C & _). lia.
    + simpl in E. destruct (IV _ _ Hj) as (C & _). lia.
    + reflexivity.
  - intros j oj Hj. simpl in Hj. apply nth_error_snoc in Hj. simpl.
    rewrite app_length; simpl. destruct Hj as [(Lj & Hj)|(Lj & Hj)]; subst.
    + destruct (IV _ _ Hj) as (C & I). split; [lia|].
      unfold view, cell in *; simpl. rewrite app_nth1 by lia. exact I.
    + simpl. split; [lia|]. destruct (IV _ _ K) as (C & (F & _)).
      unfold view, cell; simpl. rewrite nth_middle. split; simpl; auto.
Qed.

Theorem wstep_inv : forall x w w', WInv w -> wgood w x -> wstep x w = Some w' -> WInv w'.
Proof.
  intros x w w' I G H. destruct x as [k o c|k|k|k]; simpl in H.
  - destruct (nth_error (objs w) k) as [ob|] eqn:K; try discriminate.
    destruct (step o c (view w ob)) as [st'|] eqn:S1; try discriminate.
    inversion H; subst; clear H.
    pose proof I as (OW & IV). destruct (IV _ _ K) as (C & IK).
    destruct (G _ K) as (G1 & G2).
    assert (I' : Inv st') by (eapply step_inv; eauto).
    pose proof (nth_error_lt _ _ _ _ K) as KL.
    split.
    + intros i j oi oj Hi Hj E. simpl in Hi, Hj.
      destruct (Nat.eq_dec i k) as [->|Ni]; destruct (Nat.eq_dec j k) as [->|Nj]; auto.
      * rewrite nth_error_set_nth_eq in Hi by auto. inversion Hi; subst; simpl in E.
        rewrite nth_error_set_nth_neq in Hj by auto. symmetry. eapply OW; eauto.
      * rewrite nth_error_set_nth_eq in Hj by auto. inversion Hj; subst; simpl in E.
        rewrite nth_error_set_nth_neq in Hi by auto. eapply OW; eauto.
      * rewrite nth_error_set_nth_neq in Hi, Hj by auto. eapply OW; eauto.
    + intros j oj Hj. simpl in Hj. simpl. rewrite length_set_nth.
      destruct (Nat.eq_dec j k) as [->|Nj].
      * rewrite nth_error_set_nth_eq in Hj by auto. inversion Hj; subst; simpl. split; auto.
        unfold view, cell; simpl. rewrite nth_set_nth_eq by auto. rewrite mps_eta. exact I'.
      * rewrite nth_error_set_nth_neq in Hj by auto. destruct (IV _ _ Hj) as (Cj & Ij). split; auto.
        assert (ocell oj <> ocell ob) by (intro E; apply Nj; eapply OW; eauto).
        unfold view, cell in *; simpl. rewrite nth_set_nth_neq by auto. exact Ij.
  - destruct (nth_error (objs w) k) as [ob|] eqn:K; try discriminate.
    inversion H; subst; clear H. eapply alloc_inv; eauto.
    destruct I as (_ & IV). destruct (IV _ _ K) as (_ & (_ & R)). exact R.
  - destruct (nth_error (objs w) k) as [ob|] eqn:K; try discriminate.
    inversion H; subst; clear H. eapply alloc_inv; eauto; unfold RecOK; simpl; auto.
  - destruct (nth_error (objs w) k); try discriminate. inversion H; subst; auto.
Qed.

(* ------------------------------------------------------------------ all histories *)
Theorem wrun_inv : forall xs w w', WInv w -> wall_good xs w -> wrun xs w = Some w' -> WInv w'.
Proof.
  induction xs as [|x r]; simpl; intros w w' I G H.
  - inversion H; subst; auto.
  - destruct G as (G1 & G2). destruct (wstep x w) as [w1|] eqn:S1; simpl in H; try discriminate.
    apply (IHr w1 w'); auto. apply (wstep_inv x w w1); auto.
Qed.

Lemma wall_good_firstn : forall n xs w, wall_good xs w -> wall_good (firstn n xs) w.
Proof.
  induction n; destruct xs as [|x r]; simpl; intros; auto.
  destruct H as (A & B). split; auto. destruct (wstep x w); auto.
Qed.

(* the statement used in Props.v: after every prefix, every holder's own record is true of
   its own tensors, and no two holders thread the same dict *)
Theorem world_sound_every_prefix : forall xs w, WInv w -> wall_good xs w ->
  forall n w', wrun (firstn n xs) w = Some w' ->
    (forall i j oi oj, nth_error (objs w') i = Some oi -> nth_error (objs w') j = Some oj ->
       ocell oi = ocell oj -> i = j)
    /\ forall k ob, nth_error (objs w') k = Some ob -> Inv (view w' ob).
Proof.
  intros xs w I G n w' H.
  assert (W : WInv w') by (apply (wrun_inv (firstn n xs) w w'); auto; apply wall_good_firstn; auto).
  destruct W as (OW & IV). split; auto. intros k ob K. apply (IV _ _ K).
Qed.

(* a single holder with a sound state is a sound world: the theorem's starting point *)
Lemma single_inv : forall st, Inv st -> WInv (mkW [mkO (sites st) 0] [rec st]).
Proof.
  intros st I. split.
  - intros i j oi oj Hi Hj _. destruct i; destruct j; simpl in *; auto;
      try (destruct i; discriminate); try (destruct j; discriminate).
  - intros k ob K. destruct k; simpl in K; [|destruct k; discriminate]. inversion K; subst; simpl.
    split; auto; unfold view, cell; simpl; try rewrite mps_eta; exact I.
Qed.

(* ------------------------------------------------------------------ deciders *)
Definition wgood_b (w : world) (x : wop) : bool :=
  match x with
  | WStep k o c =>
      match nth_error (objs w) k with
      | Some ob => good_b (view w ob) o && calc_ok_b (length (osites ob)) c
      | None => true
      end
  | _ => true
  end.

Lemma wgood_b_sound : forall w x, wgood_b w x = true -> wgood w x.
Proof.
  intros w x H. destruct x; simpl in *; auto.
  intros ob K. rewrite K in H. apply andb_true_iff in H. destruct H as (A & B). split.
  - apply good_b_sound; auto.
  - unfold calc_ok, calc_ok_b in *. apply andb_true_iff in B. destruct B as (B1 & B2).
    apply Nat.leb_le in B1. apply Nat.ltb_lt in B2. auto.
Qed.

Fixpoint nat_mem (x : nat) (l : list nat) : bool :=
  match l with [] => false | y :: t => (x =? y) || nat_mem x t end.
Fixpoint nodup_b (l : list nat) : bool :=
  match l with [] => true | x :: t => negb (nat_mem x t) && nodup_b t end.

Definition winv_b (w : world) : bool :=
  nodup_b (map ocell (objs w))
  && forallb (fun ob => (ocell ob <? length (heap w)) && inv_b (view w ob)) (objs w).

(* ------------------------------------------------------------------ counterfactual *)
(* a six-site holder with centre and record at site 3 (w_state of C08/Proofs.v); shallow
   copy; canonicalize the COPY at site 0: the original's tensors are untouched, but the
   dict it threads now says (0, 0) *)
Definition w_single : world := mkW [mkO (sites w_state) 0] [rec w_state].

Definition shallow_then_move : option world :=
  bind (copy_shallow 0 w_single) (wstep (WStep 1 (OCanon false 0 0) (0, 0))).

Lemma w_single_inv : WInv w_single.
Proof. apply (single_inv w_state). exact w_state_inv. Qed.

Lemma shallow_copy_breaks :
  exists w', WInv w_single /\ shallow_then_move = Some w'
    /\ (exists ob, nth_error (objs w') 0 = Some ob /\ osites ob = sites w_state /\ ~ Inv (view w' ob))
    /\ (exists ob, nth_error (objs w') 1 = Some ob /\ Inv (view w' ob)).
Proof.
  match eval vm_compute in shallow_then_move with
  | Some ?s => exists s
  end.
  split; [exact w_single_inv|]. split; [vm_compute; reflexivity|]. split.
  - eexists. split; [vm_compute; reflexivity|]. split; [vm_compute; reflexivity|].
    intro H. apply inv_b_iff in H. vm_compute in H. discriminate.
  - eexists. split; [vm_compute; reflexivity|]. apply inv_b_iff. vm_compute. reflexivity.
Qed.

(* the same two steps with the real copy: both holders sound, original's record still (3, 3) *)
Definition deep_then_move : option world :=
  bind (wstep (WCopy 0) w_single) (wstep (WStep 1 (OCanon false 0 0) (0, 0))).

Lemma deep_copy_demo :
  match deep_then_move with
  | Some w' => winv_b w' = true /\ map ocell (objs w') = [0; 1] /\ heap w' = [RSome 3 3; RSome 0 0]
  | None => False
  end.
Proof. vm_compute. repeat split. Qed.

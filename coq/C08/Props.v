(* C08 property theorems (statements only; proofs in C08/Proofs.v).

   Model (C08/Model.v): an MPS is a list of sites, each carrying what is
   GUARANTEED about its tensor (gL / gR: left- / right-isometric) and the
   tensor's `left_inds` flag; `rec` is info["cur_orthog"].  `step o calc st`
   is the library operation `o` (calc = what calc_current_orthog_center
   answers if consulted), `None` where the code raises.

   Inv st  =  every flagged tensor is guaranteed isometric in the flagged
              direction, and if the record is a pair (a, b) then
              a <= b < L, every site k < a is guaranteed left-isometric and
              every site b < k < L right-isometric. *)
From Coq Require Import List Bool Arith ZArith Ring.
From QV Require Import Base.Sums C08.Model C08.Proofs C08.Region C08.Historic C08.World.
Import ListNotations.

(* The record stays sound over ALL histories of the WHOLE operation alphabet -
   swaps with any absorb, unitary and non-unitary one-site gates, compress_site
   with and without canonize, sample / measure on copies, measure(remove=True)
   at any site included - from any sound start, for any well-formed answers of
   calc_current_orthog_center, and this after every prefix of the history, not
   only at its end.  `all_good` only asks that each operation names sites that
   exist (see `good` in C08/Proofs.v, decided by `good_b`). *)
Theorem C08_record_sound : forall ops st, Inv st -> all_good ops st ->
  forall n st', run (firstn n ops) st = Some st' ->
    FlagsOK (sites st')
    /\ match rec st' with
       | RSome a b =>
           a <= b /\ b < length (sites st')
           /\ (forall k, k < a -> gL (get (sites st') k) = true)
           /\ (forall k, b < k -> k < length (sites st') -> gR (get (sites st') k) = true)
       | _ => True
       end.
Proof. exact run_inv_every_prefix. Qed.
Print Assumptions C08_record_sound.

(* one operation, with the domain written out *)
Theorem C08_step_sound : forall o c st st', Inv st -> good st o -> calc_ok (length (sites st)) c ->
  step o c st = Some st' -> Inv st'.
Proof. exact step_inv. Qed.
Print Assumptions C08_step_sound.

(* every tensor flagged isometric (left_inds) is isometric: over ALL histories
   of the WHOLE alphabet, unconditionally (rescalings that do not take the record and
   Tensor.normalize_ included) *)
Theorem C08_flag_sound : forall ops st st', FlagsOK (sites st) -> run ops st = Some st' ->
  forall k, (fl (get (sites st') k) = FL -> gL (get (sites st') k) = true)
         /\ (fl (get (sites st') k) = FR -> gR (get (sites st') k) = true).
Proof. exact run_flags. Qed.
Print Assumptions C08_flag_sound.

(* canonicalize: from a sound record (or none, or 'calc') the new record lies
   inside the requested range and is sound *)
Theorem C08_canonicalize_sound : forall w1 w2 calc st st',
  canonicalize w1 w2 calc st = Some st' -> Inv st ->
  w1 < length (sites st) -> w2 < length (sites st) -> calc_ok (length (sites st)) calc ->
  exists a b, rec st' = RSome a b /\ Nat.min w1 w2 <= a /\ b <= Nat.max w1 w2 /\ Inv st'
              /\ length (sites st') = length (sites st).
Proof.
  intros w1 w2 calc st st' H (F & R) W1 W2 CO.
  destruct (canonicalize_spec _ _ _ _ _ H F) as (F1 & L1 & R1).
  destruct (R1 R W1 W2 CO) as (a & b & RR & M1 & M2 & SS).
  exists a, b. split; [exact RR|]. split; [exact M1|]. split; [exact M2|]. split; [|exact L1].
  split; [exact F1|]. unfold RecOK. rewrite RR. exact SS.
Qed.
Print Assumptions C08_canonicalize_sound.

(* the boolean checkers used by the harness decide the propositions *)
Theorem C08_checker_decides_invariant : forall st, inv_b st = true <-> Inv st.
Proof. exact inv_b_iff. Qed.
Print Assumptions C08_checker_decides_invariant.

Theorem C08_checker_decides_domain : forall ops st, all_good_b ops st = true -> all_good ops st.
Proof. exact all_good_b_sound. Qed.
Print Assumptions C08_checker_decides_domain.

(* the domain of the theorem, written out: nothing but "the sites exist" *)
Theorem C08_domain_is_whole_alphabet : forall st o,
  good st o <->
  let L := length (sites st) in
  match o with
  | OCanon _ w1 w2 | OGateSubMPO w1 w2 _ => w1 < L /\ w2 < L
  | OSwap i j _ | OGateAutoSwap i j _ => i < L /\ j < L /\ i <> j
  | OSwapTo i f _ => i < L /\ f < L
  | OCompressSite i _ | OMeasure i _ => i < L
  | OSingVals _ | OGate1 _ _ | ODroppedCopy _ _ _ => True
  | OLocalExpMany ws _ => Forall (fun w => fst w < L /\ snd w < L) ws
  (* the two operations that do NOT take the record: a scalar rescale keeps a pair
     record true only for sites inside the recorded range; a fresh record is anything
     but a pair *)
  | OScale ss => match rec st with RSome a b => Forall (fun s => a <= s /\ s <= b) ss | _ => True end
  | ONormalizeSite i => match rec st with RSome a b => a <= i /\ i <= b | _ => True end
  | OSetRecord r => match r with RSome _ _ => False | _ => True end
  end.
Proof. intros st o. destruct o; simpl; tauto. Qed.
Print Assumptions C08_domain_is_whole_alphabet.

(* ---- several cooperating holders of an MPS (C08/World.v): circuits of the CircuitMPS
   family, each with its tensors and the ADDRESS of the record dict (gate_opts["info"]) it
   threads; new holders are made by Circuit.copy() (tensors copied, a NEW dict with the same
   entry) and by CircuitMPS(psi0 = another holder's state) (a NEW empty dict).  Over ALL
   histories of operations of the whole single-MPS alphabet on ANY holder, interleaved with
   copies, and after every prefix: no two holders thread the same dict, and every holder's
   own record is true of its own tensors (Inv of its view). *)
Theorem C08_world_record_sound : forall xs w, WInv w -> wall_good xs w ->
  forall n w', wrun (firstn n xs) w = Some w' ->
    (forall i j oi oj, nth_error (objs w') i = Some oi -> nth_error (objs w') j = Some oj ->
       ocell oi = ocell oj -> i = j)
    /\ forall k ob, nth_error (objs w') k = Some ob -> Inv (view w' ob).
Proof. exact world_sound_every_prefix. Qed.
Print Assumptions C08_world_record_sound.

(* one world operation; the domain is the single-MPS domain for the acting holder's own view *)
Theorem C08_world_step_sound : forall x w w', WInv w -> wgood w x -> wstep x w = Some w' -> WInv w'.
Proof. exact wstep_inv. Qed.
Print Assumptions C08_world_step_sound.

(* the theorem's starting point: one holder with a sound state *)
Theorem C08_world_single_holder_start : forall st, Inv st -> WInv (mkW [mkO (sites st) 0] [rec st]).
Proof. exact single_inv. Qed.
Print Assumptions C08_world_single_holder_start.

Theorem C08_world_checker_decides_domain : forall w x, wgood_b w x = true -> wgood w x.
Proof. exact wgood_b_sound. Qed.
Print Assumptions C08_world_checker_decides_domain.

(* COUNTERFACTUAL (not the current code): had copy() kept the address of the nested info
   dict (`dict(self.gate_opts)`), then from a sound single holder: shallow copy, canonicalize
   the COPY elsewhere - the original's tensors are untouched but its record is false, while
   the copy (the only holder that was operated on) is sound *)
Theorem C08_counterfactual_shallow_copy_breaks_record :
  exists w', WInv w_single /\ shallow_then_move = Some w'
    /\ (exists ob, nth_error (objs w') 0 = Some ob /\ osites ob = sites w_state /\ ~ Inv (view w' ob))
    /\ (exists ob, nth_error (objs w') 1 = Some ob /\ Inv (view w' ob)).
Proof. exact shallow_copy_breaks. Qed.
Print Assumptions C08_counterfactual_shallow_copy_breaks_record.

(* non-vacuity: the same two steps with the real copy end sound, two dicts, (3,3) and (0,0) *)
Example C08_world_demo :
  match deep_then_move with
  | Some w' => winv_b w' = true /\ map ocell (objs w') = [0; 1] /\ heap w' = [RSome 3 3; RSome 0 0]
  | None => False
  end.
Proof. exact deep_copy_demo. Qed.

(* ---- HISTORIC (pre-fix variants, C08/Historic.v; none of this models the
   current code).  Before the fix commits 4980426d, f9934bdc, eb8c2f1e,
   e1e3f983, 47017e6a (and 7d04d5b5 for the flag kept by Tensor.normalize) the
   programs below left a false record (a false flag) from a sound
   state (DESIGN section 5 F9, F17 and three more found while building C08);
   the witnesses were replayed on the implementation at the time. *)
Theorem C08_historic_swap_prefix_broke_record :
  BreaksRecord (swap_adj_prefix 2 ADefault (0, 0)) /\ BreaksRecord (swap_adj_prefix 2 ABoth (0, 0)).
Proof. exact swap_prefix_breaks. Qed.
Print Assumptions C08_historic_swap_prefix_broke_record.

Theorem C08_historic_nonunitary_1site_prefix_broke_record :
  BreaksRecord (gate_one_site_prefix 1 false) /\ BreaksRecord (gate_one_site_prefix 5 false).
Proof. exact gate_one_site_prefix_breaks. Qed.
Print Assumptions C08_historic_nonunitary_1site_prefix_broke_record.

Theorem C08_historic_compress_site_prefix_broke_record :
  BreaksRecord (compress_site_prefix 1 false (0, 0)) /\ BreaksRecord (compress_site_prefix 5 false (0, 0)).
Proof. exact compress_site_prefix_breaks. Qed.
Print Assumptions C08_historic_compress_site_prefix_broke_record.

Theorem C08_historic_dropped_copy_prefix_broke_record : BreaksRecord (dropped_copy_prefix 0 0 (0, 0)).
Proof. exact dropped_copy_prefix_breaks. Qed.
Print Assumptions C08_historic_dropped_copy_prefix_broke_record.

Theorem C08_historic_measure_last_prefix_broke_record : BreaksRecord (measure_prefix 5 true (0, 0)).
Proof. exact measure_prefix_breaks. Qed.
Print Assumptions C08_historic_measure_last_prefix_broke_record.

Theorem C08_historic_tensor_normalize_prefix_kept_flag :
  exists st', Inv w_loose /\ normalize_site_prefix 1 w_loose = Some st'
              /\ record_ok st' = true /\ ~ FlagsOK (sites st').
Proof. exact normalize_site_prefix_breaks_flag. Qed.
Print Assumptions C08_historic_tensor_normalize_prefix_kept_flag.

(* ---- why a sound record makes the canonical-form consumers right (partial:
   the two environment identities; the consumers' values themselves are decided
   by the dense-state oracle).  Over ANY commutative ring with a conjugation:
   if every site left of bond n is left-isometric, the contraction of sites
   0..n-1 of ket and bra over all their physical indices is the identity on
   bond n - the part that partial_trace_to_dense_canonical, magnetization,
   measure and singular_values drop on the left of the recorded range. *)
Theorem C08_canonical_left_environment_partial :
  forall (K : Type) (k0 k1 : K) (kadd kmul ksub : K -> K -> K) (kopp : K -> K),
  ring_theory k0 k1 kadd kmul ksub kopp eq ->
  forall cj : K -> K,
  (forall a b, cj (kadd a b) = kadd (cj a) (cj b)) ->
  (forall a b, cj (kmul a b) = kmul (cj a) (cj b)) ->
  cj k0 = k0 -> cj k1 = k1 ->
  forall (A : nat -> nat -> nat -> nat -> K) (D d : nat -> nat) (n : nat) (s0 : nat -> nat),
  D 0 = 1 ->
  (forall k, k < n -> left_iso K k0 k1 kadd kmul cj A D d k) ->
  forall g g', g < D n -> g' < D n ->
    env K k0 k1 kadd kmul cj A D d n s0 g g' = delta K k0 k1 g g'.
Proof. exact left_env_identity. Qed.
Print Assumptions C08_canonical_left_environment_partial.

(* ... and the mirror image for the sites right of the recorded range *)
Theorem C08_canonical_right_environment_partial :
  forall (K : Type) (k0 k1 : K) (kadd kmul ksub : K -> K -> K) (kopp : K -> K),
  ring_theory k0 k1 kadd kmul ksub kopp eq ->
  forall cj : K -> K,
  (forall a b, cj (kadd a b) = kadd (cj a) (cj b)) ->
  (forall a b, cj (kmul a b) = kmul (cj a) (cj b)) ->
  cj k0 = k0 -> cj k1 = k1 ->
  forall (A : nat -> nat -> nat -> nat -> K) (D d : nat -> nat) (L n : nat) (s0 : nat -> nat),
  n <= L -> D L = 1 ->
  (forall k, L - n <= k -> k < L -> right_iso K k0 k1 kadd kmul cj A D d k) ->
  forall g g', g < D (L - n) -> g' < D (L - n) ->
    renv K k0 k1 kadd kmul cj A D d L n s0 g g' = delta K k0 k1 g g'.
Proof. exact right_env_identity. Qed.
Print Assumptions C08_canonical_right_environment_partial.

(* non-vacuity of the environment theorem over Z: a 2-site chain whose first
   site is the 2x2 identity (left-isometric); its left environment of bond 1 *)
Example C08_env_demo :
  let A := fun (k a x b : nat) => if Nat.eqb x b then 1%Z else 0%Z in
  let D := fun k => match k with 0 => 1 | 1 => 2 | _ => 1 end in
  let d := fun _ : nat => 2 in
  env Z 0%Z 1%Z Z.add Z.mul (fun z => z) A D d 1 (fun _ => 0) 0 0 = 1%Z
  /\ env Z 0%Z 1%Z Z.add Z.mul (fun z => z) A D d 1 (fun _ => 0) 0 1 = 0%Z
  /\ env Z 0%Z 1%Z Z.add Z.mul (fun z => z) A D d 1 (fun _ => 0) 1 1 = 1%Z.
Proof. vm_compute. repeat split. Qed.

(* non-vacuity: a 13-operation history through every formerly refuted operation
   (adjacent swap with default absorb, distant swap and swap_site_to with
   absorb='both', non-unitary one-site gate, compress_site without canonize, a
   sampled copy, removal of the measured LAST site, a rescale of the centre) from an uncanonicalised
   5-site state and an empty info dict lies in the theorem's domain, runs to
   the end (4 sites left) and ends with record (1, 1), sound *)
Example C08_demo :
  all_good_b demo_ops demo_start = true
  /\ inv_b demo_start = true
  /\ match run demo_ops demo_start with
     | Some st => inv_b st = true /\ rec st = RSome 1 1 /\ length (sites st) = 4
     | None => False
     end.
Proof. vm_compute. repeat split. Qed.

(* C08 - proofs about the canonical-form record machine of C08/Model.v *)
From Coq Require Import List Bool Arith Lia ZifyBool.
From QV Require Import C08.Model.
Import ListNotations.

(* ------------------------------------------------------------------ lists *)
Lemma length_setS : forall l k s, length (setS l k s) = length l.
Proof. induction l; destruct k; simpl; intros; auto. Qed.

Lemma get_setS_eq : forall l k s, k < length l -> get (setS l k s) k = s.
Proof.
  unfold get. induction l; destruct k; simpl; intros; try lia; auto.
  apply IHl. lia.
Qed.

Lemma get_setS_neq : forall l k j s, j <> k -> get (setS l k s) j = get l j.
Proof.
  unfold get. induction l; destruct k; destruct j; simpl; intros; try lia; auto.
Qed.

Lemma get_overflow : forall l k, length l <= k -> get l k = blank.
Proof. unfold get. intros. apply nth_overflow. auto. Qed.

Lemma get_setS : forall l k j s, get (setS l k s) j = if (j =? k) && (k <? length l) then s else get l j.
Proof.
  intros. destruct (j =? k) eqn:E; simpl.
  - apply Nat.eqb_eq in E. subst. destruct (k <? length l) eqn:F.
    + apply get_setS_eq. lia.
    + rewrite !get_overflow; auto; rewrite ?length_setS; lia.
  - apply get_setS_neq. lia.
Qed.

Lemma length_fill : forall n l k s, length (fill l k n s) = length l.
Proof. induction n; simpl; intros; auto. rewrite IHn, length_setS. auto. Qed.

Lemma get_fill : forall n l k s j,
  get (fill l k n s) j = if (k <=? j) && (j <? k + n) && (j <? length l) then s else get l j.
Proof.
  induction n; simpl; intros.
  - replace ((k <=? j) && (j <? k + 0)) with false by lia. auto.
  - rewrite IHn, length_setS, get_setS.
    destruct ((S k <=? j) && (j <? S k + n) && (j <? length l)) eqn:A;
    destruct ((j =? k) && (k <? length l)) eqn:B;
    destruct ((k <=? j) && (j <? k + S n) && (j <? length l)) eqn:C; auto; lia.
Qed.

Lemma length_delete : forall l k, k < length l -> length (delete l k) = pred (length l).
Proof.
  induction l; destruct k; simpl; intros; try lia.
  rewrite IHl by lia. destruct l; simpl in *; lia.
Qed.

Lemma get_delete : forall l k j, get (delete l k) j = if j <? k then get l j else get l (S j).
Proof.
  unfold get. induction l; destruct k; destruct j; simpl; intros; auto.
  - destruct (S j <? S k); auto.
  - rewrite IHl. replace (S j <? S k) with (j <? k) by lia. destruct (j <? k); auto.
Qed.

Lemma length_assume_from : forall l k lo hi, length (assume_from k lo hi l) = length l.
Proof. induction l; simpl; intros; auto. Qed.

Lemma get_assume_from : forall l k lo hi j, j < length l ->
  get (assume_from k lo hi l) j =
  mkS (gL (get l j) || (k + j <? lo)) (gR (get l j) || (hi <? k + j)) (fl (get l j)).
Proof.
  unfold get. induction l; simpl; intros; try lia.
  destruct j; simpl.
  - rewrite Nat.add_0_r. auto.
  - rewrite IHl by lia. replace (S k + j) with (k + S j) by lia. auto.
Qed.

(* ------------------------------------------------------------- invariants *)
Definition site_ok (s : site) : Prop :=
  (fl s = FL -> gL s = true) /\ (fl s = FR -> gR s = true).

Definition FlagsOK (l : list site) : Prop := forall k, site_ok (get l k).

Definition Sound (l : list site) (a b : nat) : Prop :=
  a <= b /\ b < length l
  /\ (forall k, k < a -> gL (get l k) = true)
  /\ (forall k, b < k -> k < length l -> gR (get l k) = true).

Definition RecOK (st : mps) : Prop :=
  match rec st with RSome a b => Sound (sites st) a b | _ => True end.

Definition Inv (st : mps) : Prop := FlagsOK (sites st) /\ RecOK st.

Lemma site_ok_blank : site_ok blank.
Proof. split; discriminate. Qed.
Lemma site_ok_L : site_ok (mkS true false FL).
Proof. split; simpl; auto; discriminate. Qed.
Lemma site_ok_R : site_ok (mkS false true FR).
Proof. split; simpl; auto; discriminate. Qed.
Lemma site_ok_none : forall a b, site_ok (mkS a b FNone).
Proof. split; discriminate. Qed.
#[export] Hint Resolve site_ok_blank site_ok_L site_ok_R site_ok_none : c08.

Lemma FlagsOK_setS : forall l k s, FlagsOK l -> site_ok s -> FlagsOK (setS l k s).
Proof.
  intros l k s H Hs j. rewrite get_setS. destruct ((j =? k) && (k <? length l)); auto.
Qed.

Lemma FlagsOK_fill : forall n l k s, FlagsOK l -> site_ok s -> FlagsOK (fill l k n s).
Proof.
  intros n l k s H Hs j. rewrite get_fill. destruct ((k <=? j) && (j <? k + n) && (j <? length l)); auto.
Qed.

Lemma FlagsOK_delete : forall l k, FlagsOK l -> FlagsOK (delete l k).
Proof. intros l k H j. rewrite get_delete. destruct (j <? k); auto. Qed.

Lemma FlagsOK_assume : forall l lo hi, FlagsOK l -> FlagsOK (assume lo hi l).
Proof.
  intros l lo hi H j. unfold assume.
  destruct (j <? length l) eqn:E.
  - rewrite get_assume_from by lia. destruct (H j) as [A B].
    split; simpl; intro F; [rewrite (A F) | rewrite (B F)]; auto.
  - rewrite get_overflow. apply site_ok_blank. rewrite length_assume_from. lia.
Qed.

(* ---------------------------------------------------------------- sweeps *)
Ltac splits := repeat match goal with |- _ /\ _ => split end.

Lemma qr_left_spec : forall i l l', qr_left i l = Some l' -> FlagsOK l ->
  length l' = length l /\ FlagsOK l' /\ S i < length l
  /\ gL (get l' i) = true
  /\ (forall k, k <> i -> k <> S i -> get l' k = get l k).
Proof.
  unfold qr_left. intros i l l' H F.
  destruct (S i <? length l) eqn:E; try discriminate.
  assert (FF : FlagsOK (setS (setS l i (mkS true false FL)) (S i) blank))
    by (apply FlagsOK_setS; auto with c08; apply FlagsOK_setS; auto with c08).
  assert (GG : gL (get (setS (setS l i (mkS true false FL)) (S i) blank) i) = true)
    by (rewrite get_setS_neq by lia; rewrite get_setS_eq by lia; auto).
  assert (RR : forall k, k <> i -> k <> S i ->
     get (setS (setS l i (mkS true false FL)) (S i) blank) k = get l k)
    by (intros; rewrite !get_setS_neq by lia; auto).
  destruct (fl (get l i)) eqn:G; inversion H; subst; clear H; splits; auto;
    rewrite ?length_setS; auto; try lia.
  apply (F i). auto.
Qed.

Lemma qr_right_spec : forall i l l', qr_right i l = Some l' -> FlagsOK l ->
  length l' = length l /\ FlagsOK l' /\ 0 < i /\ i < length l
  /\ gR (get l' i) = true
  /\ (forall k, k <> i -> k <> pred i -> get l' k = get l k).
Proof.
  unfold qr_right. intros i l l' H F.
  destruct ((0 <? i) && (i <? length l)) eqn:E; try discriminate.
  assert (FF : FlagsOK (setS (setS l i (mkS false true FR)) (pred i) blank))
    by (apply FlagsOK_setS; auto with c08; apply FlagsOK_setS; auto with c08).
  assert (GG : gR (get (setS (setS l i (mkS false true FR)) (pred i) blank) i) = true)
    by (rewrite get_setS_neq by lia; rewrite get_setS_eq by lia; auto).
  assert (RR : forall k, k <> i -> k <> pred i ->
     get (setS (setS l i (mkS false true FR)) (pred i) blank) k = get l k)
    by (intros; rewrite !get_setS_neq by lia; auto).
  destruct (fl (get l i)) eqn:G; inversion H; subst; clear H; splits; auto;
    rewrite ?length_setS; auto; try lia.
  apply (F i). auto.
Qed.

Lemma sweepL_spec : forall n c l l', sweepL c n l = Some l' -> FlagsOK l ->
  length l' = length l /\ FlagsOK l'
  /\ (0 < n -> c + n < length l)
  /\ (forall k, c <= k -> k < c + n -> gL (get l' k) = true)
  /\ (forall k, k < c \/ c + n < k -> get l' k = get l k).
Proof.
  induction n; simpl; intros c l l' H F.
  - inversion H; subst. splits; auto; intros; lia.
  - destruct (qr_left c l) as [l1|] eqn:Q; simpl in H; try discriminate.
    destruct (qr_left_spec _ _ _ Q F) as (L1 & F1 & B1 & G1 & R1).
    destruct (IHn _ _ _ H F1) as (L2 & F2 & B2 & G2 & R2).
    splits; auto; try lia.
    + intros k K1 K2. destruct (Nat.eq_dec k c).
      * subst. rewrite R2 by lia. auto.
      * apply G2; lia.
    + intros k K. rewrite R2 by lia. apply R1; lia.
Qed.

Lemma sweepR_spec : forall n c l l', sweepR c n l = Some l' -> FlagsOK l ->
  length l' = length l /\ FlagsOK l'
  /\ (0 < n -> n <= c /\ c < length l)
  /\ (forall k, c < k + n -> k <= c -> gR (get l' k) = true)
  /\ (forall k, k + n < c \/ c < k -> get l' k = get l k).
Proof.
  induction n; simpl; intros c l l' H F.
  - inversion H; subst. splits; auto; intros; lia.
  - destruct (qr_right c l) as [l1|] eqn:Q; simpl in H; try discriminate.
    destruct (qr_right_spec _ _ _ Q F) as (L1 & F1 & B0 & B1 & G1 & R1).
    destruct (IHn _ _ _ H F1) as (L2 & F2 & B2 & G2 & R2).
    splits; auto; try lia.
    + intros k K1 K2. destruct (Nat.eq_dec k c).
      * subst. rewrite R2 by lia. auto.
      * apply G2; lia.
    + intros k K. rewrite R2 by lia. apply R1; lia.
Qed.

(* ----------------------------------------------------------- canonicalize *)
Definition core (i j c1 c2 : nat) (l : list site) : option mps :=
  let cmin := Nat.min c1 c2 in
  let cmax := Nat.max c1 c2 in
  bind (if cmin <? i then shift cmin i l else Some l) (fun l1 =>
  let i' := if cmin <? i then i else Nat.min j cmin in
  bind (if j <? cmax then shift cmax j l1 else Some l1) (fun l2 =>
  let j' := if j <? cmax then j else Nat.max i' cmax in
  Some (mkM l2 (RSome i' j')))).

Definition fresh (i j : nat) (l : list site) : option mps :=
  bind (sweepL 0 i l) (fun l1 =>
  bind (sweepR (pred (length l1)) (pred (length l1) - j) l1) (fun l2 =>
  Some (mkM l2 (RSome i j)))).

Lemma canonicalize_unfold : forall w1 w2 calc st,
  canonicalize w1 w2 calc st =
  match rec st with
  | RUnset | RCalc => core (Nat.min w1 w2) (Nat.max w1 w2) (fst calc) (snd calc) (assume (fst calc) (snd calc) (sites st))
  | RSome a b => core (Nat.min w1 w2) (Nat.max w1 w2) a b (sites st)
  | RNone => fresh (Nat.min w1 w2) (Nat.max w1 w2) (sites st)
  end.
Proof.
  intros. unfold canonicalize, core, fresh. destruct calc as [lo hi].
  destruct (rec st); reflexivity.
Qed.

Lemma shift_up : forall c n l, c < n -> shift c n l = sweepL c (n - c) l.
Proof. intros. unfold shift. replace (c <? n) with true by lia. auto. Qed.
Lemma shift_down : forall c n l, n <= c -> shift c n l = sweepR c (c - n) l.
Proof. intros. unfold shift. replace (c <? n) with false by lia. auto. Qed.

Lemma core_spec : forall i j c1 c2 l st', core i j c1 c2 l = Some st' -> FlagsOK l ->
  FlagsOK (sites st') /\ length (sites st') = length l
  /\ (i <= j -> j < length l -> Sound l c1 c2 ->
      exists a b, rec st' = RSome a b /\ i <= a /\ b <= j /\ Sound (sites st') a b).
Proof.
  unfold core. intros i j c1 c2 l st' H F.
  set (cmin := Nat.min c1 c2) in *. set (cmax := Nat.max c1 c2) in *.
  destruct (cmin <? i) eqn:E1.
  - (* move cmin up to i *)
    rewrite shift_up in H by lia.
    destruct (sweepL cmin (i - cmin) l) as [l1|] eqn:S1; simpl in H; try discriminate.
    destruct (sweepL_spec _ _ _ _ S1 F) as (L1 & F1 & B1 & G1 & R1).
    destruct (j <? cmax) eqn:E2.
    + rewrite shift_down in H by lia.
      destruct (sweepR cmax (cmax - j) l1) as [l2|] eqn:S2; simpl in H; try discriminate.
      destruct (sweepR_spec _ _ _ _ S2 F1) as (L2 & F2 & B2 & G2 & R2).
      inversion H; subst; clear H; simpl. splits; auto; try lia.
      intros IJ JL (C12 & CL & OKL & OKR). exists i, j. unfold Sound. splits; auto; try lia.
      * intros k K. rewrite R2 by lia.
        destruct (k <? cmin) eqn:K2.
        -- rewrite R1 by lia. apply OKL. lia.
        -- apply G1; lia.
      * intros k K KL. destruct (k <=? cmax) eqn:K2.
        -- apply G2; lia.
        -- rewrite R2 by lia. rewrite R1 by lia. apply OKR; lia.
    + simpl in H. inversion H; subst; clear H; simpl. splits; auto.
      intros IJ JL (C12 & CL & OKL & OKR). exists i, (Nat.max i cmax). unfold Sound. splits; auto; try lia.
      * intros k K. destruct (k <? cmin) eqn:K2.
        -- rewrite R1 by lia. apply OKL. lia.
        -- apply G1; lia.
      * intros k K KL. rewrite R1 by lia. apply OKR; lia.
  - simpl in H.
    destruct (j <? cmax) eqn:E2.
    + rewrite shift_down in H by lia.
      destruct (sweepR cmax (cmax - j) l) as [l2|] eqn:S2; simpl in H; try discriminate.
      destruct (sweepR_spec _ _ _ _ S2 F) as (L2 & F2 & B2 & G2 & R2).
      inversion H; subst; clear H; simpl. splits; auto.
      intros IJ JL (C12 & CL & OKL & OKR). exists (Nat.min j cmin), j. unfold Sound. splits; auto; try lia.
      * intros k K. rewrite R2 by lia. apply OKL. lia.
      * intros k K KL. destruct (k <=? cmax) eqn:K2.
        -- apply G2; lia.
        -- rewrite R2 by lia. apply OKR; lia.
    + simpl in H. inversion H; subst; clear H; simpl. splits; auto.
      intros IJ JL (C12 & CL & OKL & OKR).
      exists (Nat.min j cmin), (Nat.max (Nat.min j cmin) cmax). unfold Sound. splits; auto; try lia.
      * intros k K. apply OKL. lia.
      * intros k K KL. apply OKR; lia.
Qed.

Lemma fresh_spec : forall i j l st', fresh i j l = Some st' -> FlagsOK l ->
  FlagsOK (sites st') /\ length (sites st') = length l
  /\ (i <= j -> j < length l ->
      exists a b, rec st' = RSome a b /\ i <= a /\ b <= j /\ Sound (sites st') a b).
Proof.
  unfold fresh. intros i j l st' H F.
  destruct (sweepL 0 i l) as [l1|] eqn:S1; simpl in H; try discriminate.
  destruct (sweepL_spec _ _ _ _ S1 F) as (L1 & F1 & B1 & G1 & R1).
  destruct (sweepR (pred (length l1)) (pred (length l1) - j) l1) as [l2|] eqn:S2; simpl in H; try discriminate.
  destruct (sweepR_spec _ _ _ _ S2 F1) as (L2 & F2 & B2 & G2 & R2).
  inversion H; subst; clear H; simpl. splits; auto; try lia.
  intros IJ JL. exists i, j. unfold Sound. splits; auto; try lia.
  - intros k K. rewrite R2 by lia. apply G1; lia.
  - intros k K KL. apply G2; lia.
Qed.

Lemma Sound_assume : forall l lo hi, lo <= hi -> hi < length l -> Sound (assume lo hi l) lo hi.
Proof.
  intros. unfold Sound, assume. rewrite length_assume_from. splits; auto.
  - intros k K. rewrite get_assume_from by lia. simpl. destruct (k <? lo) eqn:Q; [apply orb_true_r | lia].
  - intros k K KL. rewrite get_assume_from by lia. simpl. destruct (hi <? k) eqn:Q; [apply orb_true_r | lia].
Qed.

Definition calc_ok (L : nat) (c : nat * nat) : Prop := fst c <= snd c /\ snd c < L.

Lemma canonicalize_spec : forall w1 w2 calc st st',
  canonicalize w1 w2 calc st = Some st' -> FlagsOK (sites st) ->
  FlagsOK (sites st') /\ length (sites st') = length (sites st)
  /\ (RecOK st -> w1 < length (sites st) -> w2 < length (sites st) -> calc_ok (length (sites st)) calc ->
      exists a b, rec st' = RSome a b /\ Nat.min w1 w2 <= a /\ b <= Nat.max w1 w2 /\ Sound (sites st') a b).
Proof.
  intros w1 w2 calc st st' H F. rewrite canonicalize_unfold in H. unfold RecOK, calc_ok.
  destruct (rec st) eqn:R.
  - destruct (core_spec _ _ _ _ _ _ H (FlagsOK_assume _ _ _ F)) as (A & B & C).
    unfold assume in B. rewrite length_assume_from in B. splits; auto.
    intros _ W1 W2 (C1 & C2). apply C; try lia.
    + unfold assume. rewrite length_assume_from. lia.
    + apply Sound_assume; auto.
  - destruct (fresh_spec _ _ _ _ H F) as (A & B & C). splits; auto.
    intros _ W1 W2 _. apply C; lia.
  - destruct (core_spec _ _ _ _ _ _ H (FlagsOK_assume _ _ _ F)) as (A & B & C).
    unfold assume in B. rewrite length_assume_from in B. splits; auto.
    intros _ W1 W2 (C1 & C2). apply C; try lia.
    + unfold assume. rewrite length_assume_from. lia.
    + apply Sound_assume; auto.
  - destruct (core_spec _ _ _ _ _ _ H F) as (A & B & C). splits; auto.
    intros S W1 W2 _. apply C; auto; lia.
Qed.

(* ------------------------------------------------- other primitive effects *)
Lemma two_set : forall l x y sx sy, x <> y -> x < length l -> y < length l ->
  FlagsOK l -> site_ok sx -> site_ok sy ->
  FlagsOK (setS (setS l x sx) y sy) /\ length (setS (setS l x sx) y sy) = length l
  /\ get (setS (setS l x sx) y sy) x = sx /\ get (setS (setS l x sx) y sy) y = sy
  /\ (forall k, k <> x -> k <> y -> get (setS (setS l x sx) y sy) k = get l k).
Proof.
  intros. splits.
  - apply FlagsOK_setS; auto. apply FlagsOK_setS; auto.
  - rewrite !length_setS. auto.
  - rewrite get_setS_neq by lia. apply get_setS_eq. auto.
  - apply get_setS_eq. rewrite length_setS. auto.
  - intros. rewrite !get_setS_neq by lia. auto.
Qed.

Lemma site_ok_iso : forall a b, site_ok (iso_towards a b).
Proof. intros. unfold iso_towards. destruct (a <? b); auto with c08. Qed.

Lemma split_pair_spec : forall a b ab l l', split_pair a b ab l = Some l' -> FlagsOK l ->
  FlagsOK l' /\ length l' = length l /\ a < length l /\ b < length l /\ (S a = b \/ S b = a)
  /\ (forall k, k <> a -> k <> b -> get l' k = get l k)
  /\ (ab = ALeft -> (a < b -> gR (get l' b) = true) /\ (b < a -> gL (get l' b) = true))
  /\ (ab = ARight -> (a < b -> gL (get l' a) = true) /\ (b < a -> gR (get l' a) = true)).
Proof.
  unfold split_pair. intros a b ab l l' H F.
  destruct ((a <? length l) && (b <? length l) && ((S a =? b) || (S b =? a))) eqn:E; try discriminate.
  assert (NE : a <> b) by lia. assert (A : a < length l) by lia. assert (B : b < length l) by lia.
  destruct ab; inversion H; subst; clear H.
  - destruct (two_set l a b blank blank NE A B F site_ok_blank site_ok_blank) as (T1 & T2 & T3 & T4 & T5).
    splits; auto; try lia; try discriminate.
  - destruct (two_set l a b blank (iso_towards b a) NE A B F site_ok_blank (site_ok_iso _ _)) as (T1 & T2 & T3 & T4 & T5).
    splits; auto; try lia; try discriminate; intros _; rewrite T4; unfold iso_towards; split; intros Q.
    + replace (b <? a) with false by lia. auto.
    + replace (b <? a) with true by lia. auto.
  - assert (NE' : b <> a) by lia.
    destruct (two_set l b a blank (iso_towards a b) NE' B A F site_ok_blank (site_ok_iso _ _)) as (T1 & T2 & T3 & T4 & T5).
    splits; auto; try lia; try discriminate; intros _; rewrite T4; unfold iso_towards; split; intros Q.
    + replace (a <? b) with true by lia. auto.
    + replace (a <? b) with false by lia. auto.
  - destruct (two_set l a b blank blank NE A B F site_ok_blank site_ok_blank) as (T1 & T2 & T3 & T4 & T5).
    splits; auto; try lia; try discriminate.
Qed.

Lemma compress_bond_spec : forall i ab l l', compress_bond i ab l = Some l' -> FlagsOK l ->
  FlagsOK l' /\ length l' = length l /\ S i < length l
  /\ (forall k, k <> i -> k <> S i -> get l' k = get l k)
  /\ (ab = ARight -> gL (get l' i) = true)
  /\ (ab = ALeft -> gR (get l' (S i)) = true).
Proof.
  unfold compress_bond. intros i ab l l' H F.
  destruct (S i <? length l) eqn:E; try discriminate.
  assert (NE : i <> S i) by lia. assert (NE' : S i <> i) by lia.
  assert (A : i < length l) by lia. assert (B : S i < length l) by lia.
  destruct ab; inversion H; subst; clear H.
  - destruct (two_set l i (S i) blank blank NE A B F site_ok_blank site_ok_blank) as (T1 & T2 & T3 & T4 & T5).
    splits; auto; try discriminate.
  - destruct (two_set l i (S i) blank (mkS false true FR) NE A B F site_ok_blank site_ok_R) as (T1 & T2 & T3 & T4 & T5).
    splits; auto; try discriminate. intros _. rewrite T4. auto.
  - destruct (two_set l (S i) i blank (mkS true false FL) NE' B A F site_ok_blank site_ok_L) as (T1 & T2 & T3 & T4 & T5).
    splits; auto; try discriminate. intros _. rewrite T4. auto.
  - destruct (two_set l i (S i) blank blank NE A B F site_ok_blank site_ok_blank) as (T1 & T2 & T3 & T4 & T5).
    splits; auto; try discriminate.
Qed.

Lemma compress_bond_onto_spec : forall keep other l l', compress_bond_onto keep other l = Some l' -> FlagsOK l ->
  FlagsOK l' /\ length l' = length l /\ keep < length l /\ other < length l
  /\ (forall k, k <> keep -> k <> other -> get l' k = get l k)
  /\ (keep < other -> gL (get l keep) = true -> gL (get l' keep) = true)
  /\ (other < keep -> gR (get l keep) = true -> gR (get l' keep) = true).
Proof.
  unfold compress_bond_onto. intros keep other l l' H F.
  destruct ((keep <? length l) && (other <? length l) && ((S keep =? other) || (S other =? keep))) eqn:E; try discriminate.
  assert (NE : other <> keep) by lia. assert (A : keep < length l) by lia. assert (B : other < length l) by lia.
  inversion H; subst; clear H.
  assert (OK : site_ok (if keep <? other then mkS (gL (get l keep)) false FNone else mkS false (gR (get l keep)) FNone))
    by (destruct (keep <? other); auto with c08).
  destruct (two_set l other keep blank _ NE B A F site_ok_blank OK) as (T1 & T2 & T3 & T4 & T5).
  splits; auto.
  - intros Q G. rewrite T4. replace (keep <? other) with true by lia. auto.
  - intros Q G. rewrite T4. replace (keep <? other) with false by lia. auto.
Qed.

Lemma region_compress_spec : forall si sf rev l l', region_compress si sf rev l = Some l' -> FlagsOK l ->
  FlagsOK l' /\ length l' = length l /\ si <= sf /\ sf < length l
  /\ (forall k, k < si \/ sf < k -> get l' k = get l k)
  /\ (rev = false -> forall k, si < k -> k <= sf -> gR (get l' k) = true)
  /\ (rev = true -> forall k, si <= k -> k < sf -> gL (get l' k) = true).
Proof.
  unfold region_compress. intros si sf rev l l' H F.
  destruct ((si <=? sf) && (sf <? length l)) eqn:E; try discriminate.
  destruct rev; inversion H; subst; clear H; rewrite length_setS, length_fill; splits; try lia; try discriminate;
    try (apply FlagsOK_setS; [apply FlagsOK_fill; auto with c08 | auto with c08]).
  - intros k K. rewrite get_setS_neq by lia. rewrite get_fill.
    replace ((si <=? k) && (k <? si + (sf - si)) && (k <? length l)) with false by lia. auto.
  - intros _ k K1 K2. rewrite get_setS_neq by lia. rewrite get_fill.
    replace ((si <=? k) && (k <? si + (sf - si)) && (k <? length l)) with true by lia. auto.
  - intros k K. rewrite get_setS_neq by lia. rewrite get_fill.
    replace ((S si <=? k) && (k <? S si + (sf - si)) && (k <? length l)) with false by lia. auto.
  - intros _ k K1 K2. rewrite get_setS_neq by lia. rewrite get_fill.
    replace ((S si <=? k) && (k <? S si + (sf - si)) && (k <? length l)) with true by lia. auto.
Qed.

Lemma gate1_spec : forall i u l l', gate1 i u l = Some l' -> FlagsOK l ->
  FlagsOK l' /\ length l' = length l /\ i < length l
  /\ (forall k, k <> i -> get l' k = get l k)
  /\ (u = true -> forall k, gL (get l' k) = gL (get l k) /\ gR (get l' k) = gR (get l k)).
Proof.
  unfold gate1. intros i u l l' H F.
  destruct (i <? length l) eqn:E; try discriminate. inversion H; subst; clear H.
  rewrite length_setS. splits; auto; try lia.
  - apply FlagsOK_setS; auto. destruct u; auto with c08.
  - intros. apply get_setS_neq; auto.
  - intros U k. subst. rewrite get_setS. destruct ((k =? i) && (i <? length l)) eqn:Q; simpl; auto.
    replace k with i by lia. auto.
Qed.

Lemma project_spec : forall i l l', project i l = Some l' -> FlagsOK l ->
  FlagsOK l' /\ length l' = length l /\ (forall k, k <> i -> get l' k = get l k).
Proof.
  unfold project. intros i l l' H F. destruct (i <? length l); try discriminate.
  inversion H; subst. rewrite length_setS. splits; auto.
  - apply FlagsOK_setS; auto with c08.
  - intros. apply get_setS_neq; auto.
Qed.

Lemma remove_site_spec : forall i l l', remove_site i l = Some l' -> FlagsOK l ->
  FlagsOK l' /\ S (length l') = length l /\ i < length l /\ 2 <= length l
  /\ (S i < length l -> forall k, get l' k = if k <? i then get l k else if k =? i then blank else get l (S k))
  /\ (S i = length l -> forall k, S k < i -> get l' k = get l k).
Proof.
  unfold remove_site. intros i l l' H F.
  destruct ((i <? length l) && (2 <=? length l)) eqn:E; try discriminate.
  destruct (S i =? length l) eqn:E2; inversion H; subst; clear H.
  - rewrite length_delete by (rewrite length_setS; lia). rewrite length_setS. splits; try lia.
    + apply FlagsOK_delete. apply FlagsOK_setS; auto with c08.
    + intros _ k K. rewrite get_delete. replace (k <? i) with true by lia. apply get_setS_neq. lia.
  - rewrite length_delete by (rewrite length_setS; lia). rewrite length_setS. splits; try lia.
    + apply FlagsOK_delete. apply FlagsOK_setS; auto with c08.
    + intros _ k. rewrite get_delete. destruct (k <? i) eqn:K.
      * apply get_setS_neq. lia.
      * destruct (k =? i) eqn:K2.
        -- replace k with i by lia. apply get_setS_eq. lia.
        -- apply get_setS_neq. lia.
Qed.

(* ---------------------------------------------------------------- programs *)
Lemma decorated_sites : forall st, sites (decorated st) = sites st.
Proof. intros. unfold decorated. destruct (rec st); auto. Qed.
Lemma decorated_RecOK : forall st, RecOK st -> RecOK (decorated st).
Proof. intros st. unfold decorated, RecOK. destruct (rec st) eqn:R; simpl; auto; rewrite R; auto. Qed.

Definition Pres (f : mps -> option mps) (pre : mps -> Prop) : Prop :=
  forall st st', f st = Some st' -> FlagsOK (sites st) ->
    FlagsOK (sites st') /\ length (sites st') = length (sites st) /\ (RecOK st -> pre st -> RecOK st').

Lemma swap_adj_pres : forall i ab calc,
  Pres (swap_adj i ab calc) (fun st => S i < length (sites st) /\ calc_ok (length (sites st)) calc).
Proof.
  intros i ab calc st st' H F. unfold swap_adj in H.
  destruct (canonicalize i (S i) calc st) as [st1|] eqn:C; simpl in H; try discriminate.
  destruct (canonicalize_spec _ _ _ _ _ C F) as (F1 & L1 & R1).
  destruct (split_pair i (S i) ab (sites st1)) as [l|] eqn:SP; simpl in H; try discriminate.
  destruct (split_pair_spec _ _ _ _ _ SP F1) as (F2 & L2 & A1 & A2 & A3 & FR & SL & SR).
  inversion H; subst; clear H; simpl. splits; auto; try lia.
  intros RO (B1 & CO).
  destruct (R1 RO) as (a & b & RR & M1 & M2 & (S1 & S2 & S3 & S4)); auto; try lia.
  assert (WIDE : Sound l i (S i)).
  { unfold Sound. splits; auto; try lia.
    - intros k K. rewrite FR by lia. apply S3. lia.
    - intros k K KL. rewrite FR by lia. apply S4; lia. }
  unfold RecOK; simpl. destruct ab; auto.
  - unfold Sound. splits; auto; try lia.
    + intros k K. rewrite FR by lia. apply S3. lia.
    + intros k K KL. destruct (k =? S i) eqn:Q.
      * replace k with (S i) by lia. apply SL; auto.
      * rewrite FR by lia. apply S4; lia.
  - unfold Sound. splits; auto; try lia.
    + intros k K. destruct (k =? i) eqn:Q.
      * replace k with i by lia. apply SR; auto.
      * rewrite FR by lia. apply S3. lia.
    + intros k K KL. rewrite FR by lia. apply S4; lia.
Qed.

Lemma fold_swaps_pres : forall js ab calc,
  Pres (fold_swaps js ab calc)
       (fun st => (forall j, In j js -> S j < length (sites st)) /\ calc_ok (length (sites st)) calc).
Proof.
  induction js; intros ab calc st st' H F; simpl in H.
  - inversion H; subst. splits; auto.
  - destruct (swap_adj a ab calc st) as [st1|] eqn:SP; simpl in H; try discriminate.
    destruct (swap_adj_pres _ _ _ _ _ SP F) as (F1 & L1 & R1).
    destruct (IHjs _ _ _ _ H F1) as (F2 & L2 & R2).
    splits; auto; try lia.
    intros RO (B & CO). apply R2.
    + apply R1; auto. splits; auto. apply B. left. auto.
    + rewrite L1. splits; auto. intros j J. apply B. right. auto.
Qed.

Lemma in_range_up : forall n a j, In j (range_up a n) -> a <= j /\ j < a + n.
Proof. induction n; simpl; intros; try tauto. destruct H; [lia|]. apply IHn in H. lia. Qed.
Lemma in_range_down : forall n a j, In j (range_down a n) -> j <= a.
Proof. induction n; simpl; intros; try tauto. destruct H; [lia|]. apply IHn in H. lia. Qed.

Lemma swap_site_to_pres : forall i f ab calc,
  Pres (swap_site_to i f ab calc)
       (fun st => i < length (sites st) /\ f < length (sites st) /\ calc_ok (length (sites st)) calc).
Proof.
  intros i f ab calc st st' H F. unfold swap_site_to in H.
  pose proof (decorated_sites st) as DS. pose proof (decorated_RecOK st) as DR.
  destruct (i =? f) eqn:E.
  - inversion H; subst. rewrite DS. splits; auto.
  - rewrite <- DS in F. destruct (i <? f) eqn:E2.
    + destruct (fold_swaps_pres _ _ _ _ _ H F) as (F1 & L1 & R1). rewrite DS in L1. splits; auto.
      intros RO (B1 & B2 & CO). apply R1; auto. rewrite DS. splits; auto.
      intros j J. apply in_range_up in J. lia.
    + destruct (fold_swaps_pres _ _ _ _ _ H F) as (F1 & L1 & R1). rewrite DS in L1. splits; auto.
      intros RO (B1 & B2 & CO). apply R1; auto. rewrite DS. splits; auto.
      intros j J. apply in_range_down in J. lia.
Qed.

Lemma swap_sites_pres : forall i j ab calc,
  Pres (swap_sites i j ab calc)
       (fun st => i < length (sites st) /\ j < length (sites st) /\ i <> j /\ calc_ok (length (sites st)) calc).
Proof.
  intros i j ab calc st st' H F. unfold swap_sites in H.
  pose proof (decorated_sites st) as DS. pose proof (decorated_RecOK st) as DR.
  rewrite <- DS in F.
  destruct (S (Nat.min i j) =? Nat.max i j) eqn:E.
  - destruct (swap_adj_pres _ _ _ _ _ H F) as (F1 & L1 & R1). rewrite DS in L1. splits; auto.
    intros RO (B1 & B2 & NE & CO). apply R1; auto. rewrite DS. splits; auto; try lia.
  - destruct (swap_site_to (Nat.max i j) (Nat.min i j) ab calc (decorated st)) as [st1|] eqn:S1; simpl in H; try discriminate.
    destruct (swap_site_to_pres _ _ _ _ _ _ S1 F) as (F1 & L1 & R1).
    destruct (swap_site_to_pres _ _ _ _ _ _ H F1) as (F2 & L2 & R2).
    rewrite DS in L1. splits; auto; try lia.
    intros RO (B1 & B2 & NE & CO).
    apply R2.
    + apply R1; auto. rewrite DS. splits; auto; lia.
    + rewrite L1. splits; auto; lia.
Qed.

Lemma gate_auto_swap_pres : forall i j sb calc,
  Pres (gate_auto_swap i j sb calc)
       (fun st => i < length (sites st) /\ j < length (sites st) /\ i <> j /\ calc_ok (length (sites st)) calc).
Proof.
  intros i j sb calc st st' H F. unfold gate_auto_swap in H.
  pose proof (decorated_sites st) as DS. pose proof (decorated_RecOK st) as DR.
  rewrite <- DS in F.
  set (a := if j <? i then j else i) in *. set (b := if j <? i then i else j) in *.
  set (need := negb (S a =? b)) in *.
  destruct (if need then swap_site_to b (S a) ADefault calc (decorated st) else Some (decorated st)) as [st1|] eqn:S1;
    simpl in H; try discriminate.
  assert (P1 : FlagsOK (sites st1) /\ length (sites st1) = length (sites st)
               /\ (RecOK st -> i < length (sites st) /\ j < length (sites st) /\ i <> j /\ calc_ok (length (sites st)) calc -> RecOK st1)).
  { destruct need.
    - destruct (swap_site_to_pres _ _ _ _ _ _ S1 F) as (F1 & L1 & R1). rewrite DS in L1. splits; auto.
      intros RO (B1 & B2 & NE & CO). apply R1; auto. rewrite DS. splits; auto; try discriminate;
      subst a b; destruct (j <? i) eqn:Q; lia.
    - inversion S1; subst. splits; auto; rewrite DS; auto. }
  destruct P1 as (F1 & L1 & R1).
  destruct (canonicalize a (S a) calc st1) as [st2|] eqn:C; simpl in H; try discriminate.
  destruct (canonicalize_spec _ _ _ _ _ C F1) as (F2 & L2 & R2).
  destruct (if j <? i then split_pair (S a) a ALeft (sites st2) else split_pair a (S a) ARight (sites st2)) as [l|] eqn:S2;
    simpl in H; try discriminate.
  assert (P3 : FlagsOK l /\ length l = length (sites st2) /\ S a < length (sites st2)
               /\ (forall k, k <> a -> k <> S a -> get l k = get (sites st2) k) /\ gL (get l a) = true).
  { destruct (j <? i).
    - destruct (split_pair_spec _ _ _ _ _ S2 F2) as (F3 & L3 & A1 & A2 & A3 & FR & SL & SR).
      splits; auto. apply SL; auto.
    - destruct (split_pair_spec _ _ _ _ _ S2 F2) as (F3 & L3 & A1 & A2 & A3 & FR & SL & SR).
      splits; auto. apply SR; auto. }
  destruct P3 as (F3 & L3 & A3 & FR & GA).
  set (st3 := mkM l (RSome (S a) (S a))) in *.
  assert (P4 : RecOK st -> i < length (sites st) /\ j < length (sites st) /\ i <> j /\ calc_ok (length (sites st)) calc -> RecOK st3).
  { intros RO PRE. pose proof (R1 RO PRE) as RO1. destruct PRE as (B1 & B2 & NE & CO).
    destruct (R2 RO1) as (x & y & RR & M1 & M2 & (S1' & S2' & S3' & S4')); try lia.
    { rewrite L1. auto. }
    unfold RecOK, st3; simpl. unfold Sound. splits; auto; try lia.
    - intros k K. destruct (k =? a) eqn:Q.
      + replace k with a by lia. auto.
      + rewrite FR by lia. apply S3'. lia.
    - intros k K KL. rewrite FR by lia. apply S4'; lia. }
  destruct (need && sb).
  - destruct (swap_site_to_pres _ _ _ _ _ _ H F3) as (F4 & L4 & R4). simpl in L4. splits; auto; try lia.
    intros RO PRE. apply R4; auto. simpl. destruct PRE as (B1 & B2 & NE & CO).
    rewrite L3, L2, L1. splits; auto; try discriminate; try lia.
    subst b. destruct (j <? i); lia.
  - inversion H; subst. simpl. splits; auto; try lia.
Qed.

Lemma gate_submpo_pres : forall w1 w2 rev calc,
  Pres (gate_submpo w1 w2 rev calc)
       (fun st => w1 < length (sites st) /\ w2 < length (sites st) /\ calc_ok (length (sites st)) calc).
Proof.
  intros w1 w2 rev calc st st' H F. unfold gate_submpo in H.
  pose proof (decorated_sites st) as DS. pose proof (decorated_RecOK st) as DR.
  rewrite <- DS in F.
  destruct (canonicalize (Nat.min w1 w2) (Nat.max w1 w2) calc (decorated st)) as [st1|] eqn:C; simpl in H; try discriminate.
  destruct (canonicalize_spec _ _ _ _ _ C F) as (F1 & L1 & R1).
  destruct (region_compress (Nat.min w1 w2) (Nat.max w1 w2) rev (sites st1)) as [l|] eqn:SP; simpl in H; try discriminate.
  destruct (region_compress_spec _ _ _ _ _ SP F1) as (F2 & L2 & A1 & A2 & FR & GR & GL).
  rewrite DS in L1. inversion H; subst; clear H; simpl. splits; auto; try lia.
  intros RO (B1 & B2 & CO).
  destruct (R1 (DR RO)) as (x & y & RR & M1 & M2 & (S1 & S2 & S3 & S4)); rewrite ?DS; auto; try lia.
  unfold RecOK; simpl. destruct rev; unfold Sound; splits; auto; try lia.
  - intros k K. destruct (Nat.min w1 w2 <=? k) eqn:Q.
    + apply GL; auto; lia.
    + rewrite FR by lia. apply S3. lia.
  - intros k K KL. rewrite FR by lia. apply S4; lia.
  - intros k K. rewrite FR by lia. apply S3. lia.
  - intros k K KL. destruct (k <=? Nat.max w1 w2) eqn:Q.
    + apply GR; auto; lia.
    + rewrite FR by lia. apply S4; lia.
Qed.

Lemma compress_site_spec : forall i cz calc st st', compress_site i cz calc st = Some st' -> FlagsOK (sites st) ->
  FlagsOK (sites st') /\ length (sites st') = length (sites st)
  /\ (RecOK st -> i < length (sites st) -> calc_ok (length (sites st)) calc -> RecOK st').
Proof.
  intros i cz calc st st' H F. unfold compress_site in H.
  pose proof (decorated_sites st) as DS. pose proof (decorated_RecOK st) as DR.
  rewrite <- DS in F.
  destruct (if cz then canonicalize i i calc (decorated st) else Some (decorated st)) as [st1|] eqn:C; simpl in H; try discriminate.
  assert (P1 : FlagsOK (sites st1) /\ length (sites st1) = length (sites st)
     /\ (RecOK st -> i < length (sites st) -> calc_ok (length (sites st)) calc ->
         RecOK st1 /\ (cz = true -> rec st1 = RSome i i))).
  { destruct cz.
    - destruct (canonicalize_spec _ _ _ _ _ C F) as (F1 & L1 & R1). rewrite DS in L1. splits; auto.
      intros RO B CO. destruct (R1 (DR RO)) as (x & y & RR & M1 & M2 & SS); rewrite ?DS; auto.
      pose proof SS as (S1 & _). assert (x = i) by lia. assert (y = i) by lia. subst.
      split; auto. unfold RecOK. rewrite RR. auto.
    - inversion C; subst. splits; auto. rewrite DS; auto. intros. split; auto. intros; discriminate. }
  destruct P1 as (F1 & L1 & R1).
  destruct (if 0 <? i then
              (if cz then compress_bond_onto (pred i) i (sites st1) else compress_bond (pred i) ARight (sites st1))
            else Some (sites st1)) as [l1|] eqn:C1; simpl in H; try discriminate.
  assert (P2 : FlagsOK l1 /\ length l1 = length (sites st1)
     /\ (forall k, k <> pred i -> k <> i -> get l1 k = get (sites st1) k)
     /\ (0 < i -> gL (get (sites st1) (pred i)) = true -> gL (get l1 (pred i)) = true)).
  { destruct (0 <? i) eqn:Q; [destruct cz|].
    - destruct (compress_bond_onto_spec _ _ _ _ C1 F1) as (A1 & A2 & A3 & A4 & A5 & A6 & A7).
      splits; auto; intros; try (apply A5; lia); try (apply A6; auto; lia).
    - destruct (compress_bond_spec _ _ _ _ C1 F1) as (A1 & A2 & A3 & A4 & A5 & A6). splits; auto.
      intros. apply A4; lia.
    - inversion C1; subst. splits; auto; try lia. }
  destruct P2 as (F2 & L2 & FR2 & G2).
  destruct (if S i <? length l1 then (if cz then compress_bond_onto (S i) i l1 else compress_bond i ALeft l1)
            else Some l1) as [l2|] eqn:C2; simpl in H; try discriminate.
  assert (P3 : FlagsOK l2 /\ length l2 = length l1
     /\ (forall k, k <> i -> k <> S i -> get l2 k = get l1 k)
     /\ (S i < length l1 -> gR (get l1 (S i)) = true -> gR (get l2 (S i)) = true)).
  { destruct (S i <? length l1) eqn:Q; [destruct cz|].
    - destruct (compress_bond_onto_spec _ _ _ _ C2 F2) as (A1 & A2 & A3 & A4 & A5 & A6 & A7).
      splits; auto; intros; try (apply A5; lia); try (apply A7; auto).
    - destruct (compress_bond_spec _ _ _ _ C2 F2) as (A1 & A2 & A3 & A4 & A5 & A6). splits; auto.
    - inversion C2; subst. splits; auto; try lia. }
  destruct P3 as (F3 & L3 & FR3 & G3).
  (* any sound range of st1 widened to contain i is sound afterwards *)
  assert (AROUND : forall a b a' b', Sound (sites st1) a b -> a' <= a -> b <= b' -> a' <= i -> i <= b' ->
                   b' < length (sites st1) -> Sound l2 a' b').
  { intros a b a' b' (S1 & S2 & S3 & S4) Q1 Q2 Q3 Q4 Q5. unfold Sound. splits; auto; try lia.
    - intros k K. rewrite FR3 by lia. destruct (k =? pred i) eqn:Q.
      + replace k with (pred i) by lia. apply G2; [lia|]. apply S3. lia.
      + rewrite FR2 by lia. apply S3. lia.
    - intros k K KL. destruct (k =? S i) eqn:Q.
      + replace k with (S i) by lia. apply G3; [lia|]. rewrite FR2 by lia. apply S4; lia.
      + rewrite FR3 by lia. rewrite FR2 by lia. apply S4; lia. }
  inversion H; subst; clear H; simpl. splits; auto; try lia.
  intros RO B CO. destruct (R1 RO B CO) as (RO1 & RCZ).
  unfold RecOK in *; simpl. destruct cz.
  - rewrite (RCZ eq_refl) in *. apply (AROUND i i i i); auto; lia.
  - unfold widen. destruct (rec st1); auto.
    pose proof RO1 as (S1 & S2 & _). apply (AROUND a b); auto; lia.
Qed.

Lemma singular_values_pres : forall i calc,
  Pres (singular_values i calc) (fun st => calc_ok (length (sites st)) calc).
Proof.
  intros i calc st st' H F. unfold singular_values in H.
  pose proof (decorated_sites st) as DS. pose proof (decorated_RecOK st) as DR.
  rewrite <- DS in F.
  destruct ((0 <? i) && (i <? length (sites (decorated st)))) eqn:E; try discriminate.
  destruct (canonicalize_spec _ _ _ _ _ H F) as (F1 & L1 & R1). rewrite DS in *. splits; auto.
  intros RO CO. destruct (R1 (DR RO)) as (x & y & RR & M1 & M2 & SS); auto; try lia.
  unfold RecOK. rewrite RR. auto.
Qed.

Lemma canon_pres : forall (dec : bool) w1 w2 calc,
  Pres (fun st => canonicalize w1 w2 calc (if dec then decorated st else st))
       (fun st => w1 < length (sites st) /\ w2 < length (sites st) /\ calc_ok (length (sites st)) calc).
Proof.
  intros dec w1 w2 calc st st' H F.
  assert (DS : sites (if dec then decorated st else st) = sites st) by (destruct dec; auto using decorated_sites).
  assert (DR : RecOK st -> RecOK (if dec then decorated st else st)) by (destruct dec; auto using decorated_RecOK).
  rewrite <- DS in F.
  destruct (canonicalize_spec _ _ _ _ _ H F) as (F1 & L1 & R1). rewrite DS in *. splits; auto.
  intros RO (B1 & B2 & CO). destruct (R1 (DR RO)) as (x & y & RR & M1 & M2 & SS); auto.
  unfold RecOK. rewrite RR. auto.
Qed.

Lemma gate_one_site_pres : forall i u, Pres (gate_one_site i u) (fun _ => True).
Proof.
  intros i u st st' H F. unfold gate_one_site in H.
  destruct (gate1 i u (sites st)) as [l|] eqn:G; simpl in H; try discriminate.
  destruct (gate1_spec _ _ _ _ G F) as (F1 & L1 & B1 & FR & GU).
  inversion H; subst; clear H; simpl. splits; auto.
  intros RO _. unfold RecOK in *. simpl. destruct u.
  - destruct (rec st); auto.
    destruct RO as (S1 & S2 & S3 & S4). unfold Sound. rewrite L1. splits; auto.
    + intros k K. destruct (GU eq_refl k) as (A & _). rewrite A. auto.
    + intros k K KL. destruct (GU eq_refl k) as (_ & A). rewrite A. auto.
  - unfold widen. destruct (rec st); auto.
    destruct RO as (S1 & S2 & S3 & S4). unfold Sound. rewrite L1. splits; try lia.
    + intros k K. rewrite FR by lia. apply S3. lia.
    + intros k K KL. rewrite FR by lia. apply S4; lia.
Qed.

Lemma measure_spec : forall s rm calc st st', measure s rm calc st = Some st' -> FlagsOK (sites st) ->
  FlagsOK (sites st')
  /\ (RecOK st -> s < length (sites st) -> calc_ok (length (sites st)) calc -> RecOK st').
Proof.
  intros s rm calc st st' H F. unfold measure in H.
  pose proof (decorated_sites st) as DS. pose proof (decorated_RecOK st) as DR.
  rewrite <- DS in F.
  destruct (canonicalize s s calc (decorated st)) as [st1|] eqn:C; cbn [bind] in H; try discriminate.
  destruct (canonicalize_spec _ _ _ _ _ C F) as (F1 & L1 & R1). rewrite DS in *.
  destruct (project s (sites st1)) as [l1|] eqn:P; cbn [bind] in H; try discriminate.
  destruct (project_spec _ _ _ P F1) as (F2 & L2 & FR2).
  destruct rm.
  - destruct (remove_site s l1) as [l2|] eqn:RM; cbn [bind] in H; try discriminate.
    destruct (remove_site_spec _ _ _ RM F2) as (F3 & L3 & B3 & B4 & G3 & G4).
    destruct (S s =? length l1) eqn:LAST; simpl in H; inversion H; subst; clear H; simpl; (split; [auto|]);
      intros RO B CO; destruct (R1 (DR RO)) as (x & y & RR & M1 & M2 & (S1 & S2 & S3 & S4)); auto;
      assert (x = s) by lia; assert (y = s) by lia; subst x y; unfold RecOK; simpl.
    + (* the last site is removed *)
      unfold Sound. splits; try lia.
      intros k K. rewrite G4 by lia. rewrite FR2 by lia. apply S3. lia.
    + rewrite RR. unfold Sound. splits; auto; try lia.
      * intros k K. rewrite G3 by lia. replace (k <? s) with true by lia. rewrite FR2 by lia. apply S3. lia.
      * intros k K KL. rewrite G3 by lia.
        replace (k <? s) with false by lia. replace (k =? s) with false by lia.
        rewrite FR2 by lia. apply S4; lia.
  - cbn [bind andb] in H. inversion H; subst; clear H; cbn [sites rec]. splits; auto.
    intros RO B CO. destruct (R1 (DR RO)) as (x & y & RR & M1 & M2 & (S1 & S2 & S3 & S4)); auto.
    assert (x = s) by lia. assert (y = s) by lia. subst x y.
    unfold RecOK; simpl. rewrite RR. unfold Sound. splits; auto; try lia.
    + intros k K. rewrite FR2 by lia. apply S3. lia.
    + intros k K KL. rewrite FR2 by lia. apply S4; lia.
Qed.

Lemma dropped_same : forall w1 w2 calc st st', canonicalize_dropped_copy w1 w2 calc st = Some st' -> st' = st.
Proof.
  intros. unfold canonicalize_dropped_copy in H.
  destruct (canonicalize w1 w2 calc st); simpl in H; try discriminate. inversion H; auto.
Qed.

Lemma Forall_insert_key : forall (P : nat * nat -> Prop) key x l, P x -> Forall P l -> Forall P (insert_key key x l).
Proof.
  induction l; simpl; intros; auto.
  inversion H0; subst. destruct (key x <? key a); auto.
Qed.

Lemma Forall_stable_sort : forall (P : nat * nat -> Prop) key l, Forall P l -> Forall P (stable_sort key l).
Proof.
  intros P key l H. unfold stable_sort.
  assert (G : forall acc, Forall P acc -> Forall P (fold_left (fun acc x => insert_key key x acc) l acc)).
  { induction H; simpl; intros; auto. apply IHForall. apply Forall_insert_key; auto. }
  apply G. constructor.
Qed.

Lemma canon_all_pres : forall ws calc,
  Pres (canon_all ws calc)
       (fun st => Forall (fun w => fst w < length (sites st) /\ snd w < length (sites st)) ws
                  /\ calc_ok (length (sites st)) calc).
Proof.
  induction ws as [|[w1 w2] ws]; intros calc st st' H F; simpl in H.
  - inversion H; subst. splits; auto.
  - destruct (canonicalize w1 w2 calc st) as [st1|] eqn:C; simpl in H; try discriminate.
    destruct (canon_pres false _ _ _ _ _ C F) as (F1 & L1 & R1).
    destruct (IHws _ _ _ H F1) as (F2 & L2 & R2). splits; auto; try lia.
    intros RO (FA & CO). inversion FA; subst. simpl in *. apply R2.
    + apply R1; auto. splits; auto; lia.
    + rewrite L1. auto.
Qed.

Lemma local_exp_many_pres : forall ws ip calc,
  Pres (local_exp_many ws ip calc)
       (fun st => Forall (fun w => fst w < length (sites st) /\ snd w < length (sites st)) ws
                  /\ calc_ok (length (sites st)) calc).
Proof.
  intros ws ip calc st st' H F. unfold local_exp_many in H. destruct ip.
  - destruct (canon_all_pres _ _ _ _ H F) as (F1 & L1 & R1). splits; auto.
    intros RO (FA & CO). apply R1; auto. splits; auto. apply Forall_stable_sort. auto.
  - inversion H; subst. splits; auto.
Qed.

Lemma scale_sites_spec : forall ss l l', scale_sites ss l = Some l' -> FlagsOK l ->
  FlagsOK l' /\ length l' = length l /\ (forall k, ~ In k ss -> get l' k = get l k).
Proof.
  induction ss; simpl; intros l l' H F.
  - inversion H; subst. splits; auto.
  - destruct (a <? length l) eqn:E; try discriminate.
    destruct (IHss _ _ H (FlagsOK_setS _ _ _ F site_ok_blank)) as (A & B & C).
    rewrite length_setS in B. splits; auto.
    intros k K. rewrite C by tauto. apply get_setS_neq. intro; subst; tauto.
Qed.

(* --------------------------------------------------------------- one step *)
Theorem step_flags : forall o c st st', step o c st = Some st' -> FlagsOK (sites st) -> FlagsOK (sites st').
Proof.
  intros o c st st' H F. destruct o; simpl in H.
  - apply (canon_pres _ _ _ _ _ _ H F).
  - apply (singular_values_pres _ _ _ _ H F).
  - apply (compress_site_spec _ _ _ _ _ H F).
  - apply (swap_sites_pres _ _ _ _ _ _ H F).
  - apply (swap_site_to_pres _ _ _ _ _ _ H F).
  - apply (gate_auto_swap_pres _ _ _ _ _ _ H F).
  - apply (gate_submpo_pres _ _ _ _ _ _ H F).
  - apply (gate_one_site_pres _ _ _ _ H F).
  - apply (measure_spec _ _ _ _ _ H F).
  - apply dropped_same in H. subst st'. destruct dec; auto. rewrite decorated_sites. auto.
  - apply (local_exp_many_pres _ _ _ _ _ H F).
  - destruct (scale_sites ss (sites st)) as [l|] eqn:SC; simpl in H; try discriminate.
    inversion H; subst; simpl. apply (scale_sites_spec _ _ _ SC F).
  - destruct (i <? length (sites st)); try discriminate. inversion H; subst; simpl.
    apply FlagsOK_setS; auto with c08.
  - inversion H; subst; simpl. auto.
Qed.

(* the domain of the record theorem: every operation of the alphabet, called
   with sites that exist (an operation on a missing site raises or is outside
   the documented domain) *)
Definition good (st : mps) (o : op) : Prop :=
  let L := length (sites st) in
  match o with
  | OCanon _ w1 w2 => w1 < L /\ w2 < L
  | OSingVals _ => True
  | OCompressSite i _ => i < L
  | OSwap i j _ => i < L /\ j < L /\ i <> j
  | OSwapTo i f _ => i < L /\ f < L
  | OGateAutoSwap i j _ => i < L /\ j < L /\ i <> j
  | OGateSubMPO w1 w2 _ => w1 < L /\ w2 < L
  | OGate1 _ _ => True
  | OMeasure s _ => s < L
  | ODroppedCopy _ _ _ => True
  | OLocalExpMany ws _ => Forall (fun w => fst w < L /\ snd w < L) ws
  (* rescaling does not take the record: it keeps a pair record true only if every
     rescaled site lies inside the recorded range; otherwise the caller has to start
     a fresh record (OSetRecord with anything but a pair) *)
  | OScale ss => match rec st with RSome a b => Forall (fun s => a <= s /\ s <= b) ss | _ => True end
  (* Tensor.normalize_ of a site: as a rescale of that one site *)
  | ONormalizeSite i => match rec st with RSome a b => a <= i /\ i <= b | _ => True end
  | OSetRecord r => match r with RSome _ _ => False | _ => True end
  end.

Theorem step_inv : forall o c st st', Inv st -> good st o -> calc_ok (length (sites st)) c ->
  step o c st = Some st' -> Inv st'.
Proof.
  intros o c st st' (F & RO) G CO H. split; [eapply step_flags; eauto|].
  destruct o; simpl in H, G.
  - apply (canon_pres _ _ _ _ _ _ H F); auto. tauto.
  - apply (singular_values_pres _ _ _ _ H F); auto.
  - apply (compress_site_spec _ _ _ _ _ H F); auto.
  - apply (swap_sites_pres _ _ _ _ _ _ H F); auto. tauto.
  - apply (swap_site_to_pres _ _ _ _ _ _ H F); auto. tauto.
  - apply (gate_auto_swap_pres _ _ _ _ _ _ H F); auto. tauto.
  - apply (gate_submpo_pres _ _ _ _ _ _ H F); auto. tauto.
  - apply (gate_one_site_pres _ _ _ _ H F); auto.
  - apply (measure_spec _ _ _ _ _ H F); auto.
  - apply dropped_same in H. subst st'. destruct dec; auto. apply decorated_RecOK. auto.
  - apply (local_exp_many_pres _ _ _ _ _ H F); auto.
  - destruct (scale_sites ss (sites st)) as [l|] eqn:SC; simpl in H; try discriminate.
    inversion H; subst; clear H. destruct (scale_sites_spec _ _ _ SC F) as (A & B & C).
    unfold RecOK in *; simpl. destruct (rec st); auto.
    destruct RO as (S1 & S2 & S3 & S4). unfold Sound. rewrite B. splits; auto.
    + intros k K. rewrite C. apply S3; auto.
      intro IN. rewrite Forall_forall in G. apply G in IN. lia.
    + intros k K KL. rewrite C. apply S4; auto.
      intro IN. rewrite Forall_forall in G. apply G in IN. lia.
  - destruct (i <? length (sites st)) eqn:E; try discriminate. inversion H; subst; clear H.
    unfold RecOK in *; simpl. destruct (rec st); auto.
    destruct RO as (S1 & S2 & S3 & S4). unfold Sound. rewrite length_setS. splits; auto.
    + intros k K. rewrite get_setS_neq by lia. apply S3; auto.
    + intros k K KL. rewrite get_setS_neq by lia. apply S4; auto.
  - inversion H; subst; clear H. unfold RecOK; simpl. destruct r; auto. contradiction.
Qed.

(* ---------------------------------------------------------- all histories *)
Fixpoint all_good (ops : list (op * (nat * nat))) (st : mps) : Prop :=
  match ops with
  | [] => True
  | (o, c) :: r =>
      good st o /\ calc_ok (length (sites st)) c
      /\ match step o c st with Some st' => all_good r st' | None => True end
  end.

Theorem run_inv : forall ops st st', Inv st -> all_good ops st -> run ops st = Some st' -> Inv st'.
Proof.
  induction ops as [|[o c] r]; simpl; intros st st' I G H.
  - inversion H; subst; auto.
  - destruct G as (G1 & G2 & G3). destruct (step o c st) as [st1|] eqn:S1; simpl in H; try discriminate.
    apply (IHr st1 st'); auto. apply (step_inv o c st st1); auto.
Qed.

Lemma all_good_firstn : forall n ops st, all_good ops st -> all_good (firstn n ops) st.
Proof.
  induction n; destruct ops as [|[o c] r]; simpl; intros; auto.
  destruct H as (A & B & C). splits; auto. destruct (step o c st); auto.
Qed.

Theorem run_inv_every_prefix : forall ops st, Inv st -> all_good ops st ->
  forall n st', run (firstn n ops) st = Some st' -> Inv st'.
Proof. intros ops st I G n st' H. apply (run_inv (firstn n ops) st st'); auto. apply all_good_firstn. auto. Qed.

Theorem run_flags : forall ops st st', FlagsOK (sites st) -> run ops st = Some st' -> FlagsOK (sites st').
Proof.
  induction ops as [|[o c] r]; simpl; intros st st' F H.
  - inversion H; subst; auto.
  - destruct (step o c st) as [st1|] eqn:S1; simpl in H; try discriminate.
    apply (IHr st1 st'); auto. apply (step_flags o c st st1); auto.
Qed.

(* ------------------------------------------- boolean checkers = the property *)
Lemma all_from_spec : forall f l k,
  all_from f k l = true <-> (forall j, j < length l -> f (k + j) (get l j) = true).
Proof.
  unfold get. induction l; simpl; intros.
  - split; auto. intros; lia.
  - rewrite andb_true_iff, IHl. split.
    + intros (A & B) j J. destruct j; simpl.
      * rewrite Nat.add_0_r. auto.
      * replace (k + S j) with (S k + j) by lia. apply B. lia.
    + intros H. split.
      * specialize (H 0). rewrite Nat.add_0_r in H. apply H. lia.
      * intros j J. specialize (H (S j)). replace (k + S j) with (S k + j) in H by lia. apply H. lia.
Qed.

Lemma site_ok_b : forall s, match fl s with FL => gL s | FR => gR s | FNone => true end = true <-> site_ok s.
Proof.
  intros [a b f]. unfold site_ok. simpl.
  destruct f, a, b; simpl; split; intros H; try reflexivity; try discriminate;
    try (split; intros; auto; discriminate); destruct H as [H1 H2]; auto.
Qed.

Lemma flags_ok_iff : forall l, flags_ok l = true <-> FlagsOK l.
Proof.
  intros. unfold flags_ok, FlagsOK. rewrite all_from_spec. split.
  - intros H k. destruct (k <? length l) eqn:E.
    + apply site_ok_b. apply H. lia.
    + rewrite get_overflow by lia. apply site_ok_blank.
  - intros H j J. apply site_ok_b. apply H.
Qed.

Lemma record_ok_iff : forall st, record_ok st = true <-> RecOK st.
Proof.
  intros. unfold record_ok, RecOK. destruct (rec st); try tauto.
  unfold Sound. rewrite !andb_true_iff, all_from_spec. split.
  - intros ((A & B) & C). splits; try lia.
    + intros k K. specialize (C k). simpl in C. assert (k < length (sites st)) by lia.
      apply C in H. apply andb_true_iff in H. destruct H as (H & _).
      replace (k <? a) with true in H by lia. simpl in H. auto.
    + intros k K KL. specialize (C k KL). simpl in C. apply andb_true_iff in C. destruct C as (_ & H).
      replace (b <? k) with true in H by lia. simpl in H. auto.
  - intros (A & B & C & D). splits; try lia.
    intros j J. simpl. apply andb_true_iff. split.
    + destruct (j <? a) eqn:Q; simpl; auto. apply C. lia.
    + destruct (b <? j) eqn:Q; simpl; auto. apply D; lia.
Qed.

Theorem inv_b_iff : forall st, inv_b st = true <-> Inv st.
Proof.
  intros. unfold inv_b, Inv. rewrite andb_true_iff, flags_ok_iff, record_ok_iff. tauto.
Qed.

(* decidable form of `good`, used by the correspondence to check that every
   operation the harness classifies as outside the refuted cases is covered *)
Definition absorb_eqb (a b : absorb) : bool :=
  match a, b with ADefault, ADefault | ALeft, ALeft | ARight, ARight | ABoth, ABoth => true | _, _ => false end.

Definition good_b (st : mps) (o : op) : bool :=
  let L := length (sites st) in
  match o with
  | OCanon _ w1 w2 => (w1 <? L) && (w2 <? L)
  | OSingVals _ => true
  | OCompressSite i _ => i <? L
  | OSwap i j _ => (i <? L) && (j <? L) && negb (i =? j)
  | OSwapTo i f _ => (i <? L) && (f <? L)
  | OGateAutoSwap i j _ => (i <? L) && (j <? L) && negb (i =? j)
  | OGateSubMPO w1 w2 _ => (w1 <? L) && (w2 <? L)
  | OGate1 _ _ => true
  | OMeasure s _ => s <? L
  | ODroppedCopy _ _ _ => true
  | OLocalExpMany ws _ => forallb (fun w => (fst w <? L) && (snd w <? L)) ws
  | OScale ss => match rec st with RSome a b => forallb (fun s => (a <=? s) && (s <=? b)) ss | _ => true end
  | ONormalizeSite i => match rec st with RSome a b => (a <=? i) && (i <=? b) | _ => true end
  | OSetRecord r => match r with RSome _ _ => false | _ => true end
  end.

Lemma good_b_sound : forall st o, good_b st o = true -> good st o.
Proof.
  intros st o H.
  destruct o as [dec w1 w2 | i | i cz | i j ab | i f ab | i j sb | w1 w2 rev | i u | s rm | dec w1 w2 | ws ip | ss | i | r];
    unfold good_b in H; unfold good; cbv zeta in *; auto; try lia.
  - rewrite forallb_forall in H. apply Forall_forall. intros w W. apply H in W. lia.
  - destruct (rec st); auto. rewrite forallb_forall in H. apply Forall_forall. intros w W. apply H in W. lia.
  - destruct (rec st); auto. lia.
  - destruct r; auto. discriminate.
Qed.

Definition calc_ok_b (L : nat) (c : nat * nat) : bool := (fst c <=? snd c) && (snd c <? L).

Fixpoint all_good_b (ops : list (op * (nat * nat))) (st : mps) : bool :=
  match ops with
  | [] => true
  | (o, c) :: r =>
      good_b st o && calc_ok_b (length (sites st)) c
      && match step o c st with Some st' => all_good_b r st' | None => true end
  end.

Lemma all_good_b_sound : forall ops st, all_good_b ops st = true -> all_good ops st.
Proof.
  induction ops as [|[o c] r]; simpl; intros; auto.
  rewrite !andb_true_iff in H. destruct H as ((A & B) & C). splits.
  - apply good_b_sound; auto.
  - unfold calc_ok, calc_ok_b in *. lia.
  - destruct (step o c st); auto.
Qed.

(* a sound six-site state: centre at site 3, record (3,3), flags as canonicalize leaves them *)
Definition w_state : mps :=
  mkM [mkS true false FL; mkS true false FL; mkS true false FL; blank; mkS false true FR; mkS false true FR]
      (RSome 3 3).

Lemma w_state_inv : Inv w_state.
Proof. apply inv_b_iff. vm_compute. reflexivity. Qed.

(* a sound state with a loose record (0,5): every site flagged as canonicalize leaves it *)
Definition w_loose : mps := mkM (sites w_state) (RSome 0 5).

(* a history through every formerly refuted operation, from an uncanonicalised
   5-site state and an empty info dict *)
Definition demo_ops : list (op * (nat * nat)) :=
  [ (OGateAutoSwap 4 1 true, (0, 0)); (OSwap 2 3 ADefault, (0, 0)); (OSwap 0 3 ABoth, (0, 0));
    (OGate1 0 false, (0, 0)); (OGateSubMPO 1 3 true, (0, 0)); (OCompressSite 1 false, (0, 0));
    (ODroppedCopy false 0 0, (0, 0)); (OMeasure 4 true, (0, 0)); (OSwapTo 3 0 ABoth, (0, 0));
    (OGate1 3 true, (0, 0)); (OSingVals 2, (0, 0)); (OScale [2], (0, 0)); (OLocalExpMany [(3, 3); (0, 1)] true, (0, 0)) ].
Definition demo_start : mps := mkM [blank; blank; blank; blank; blank] RUnset.

(* C07: who owns the canonical-form record of the MPS simulators.
   Every simulator holds an MPS (abstracted to its true orthogonality centre)
   and a reference to an `info` dict (gate_opts['info']) that records the centre.
   Definitions only. *)
From Coq Require Import List Arith Bool.
Import ListNotations.

Record sim := { s_ctr : nat;      (* the true centre of this simulator's own MPS *)
                s_info : nat }.   (* address of the info dict it reads and writes *)
Definition heap := list (nat * nat).          (* address -> recorded centre *)
Record world := { sims : list sim; cells : heap; next : nat }.

Fixpoint hget (a : nat) (h : heap) : option nat :=
  match h with [] => None | (k, v) :: t => if Nat.eqb k a then Some v else hget a t end.
Fixpoint hset (a v : nat) (h : heap) : heap :=
  match h with
  | [] => [(a, v)]
  | (k, w) :: t => if Nat.eqb k a then (k, v) :: t else (k, w) :: hset a v t
  end.

Fixpoint set_ctr (i c : nat) (l : list sim) : list sim :=
  match l, i with
  | [], _ => []
  | s :: t, 0 => {| s_ctr := c; s_info := s_info s |} :: t
  | s :: t, S i' => s :: set_ctr i' c t
  end.

Inductive rop :=
| RTouch (i c : nat)          (* gate or canonicalising query on simulator i: its MPS centre moves to c, c is written to ITS info *)
| RCopyDeep (i : nat)         (* CircuitBase.copy(): own MPS copy and own copy of gate_opts (tree_map) *)
| RCopyShallow (i : nat)      (* defective copy: gate_opts['info'] shared with the original *)
| RQueryOnCopy (i c : nat)    (* local_expectation(..., dtype=...) / convert_eager=False (since fcc41fff): a converted COPY of the
                                 MPS is canonicalised and c is written into a COPY of the record (info = dict(gate_opts["info"]));
                                 the simulator's own MPS and record are untouched, the temporary record is dropped *)
| RTouchCopyOnly (i c : nat). (* the defective variant (before fcc41fff): the copy of the MPS is canonicalised (own centre
                                 unchanged) but c is written into the simulator's OWN info *)

Definition rstep (w : world) (o : rop) : world :=
  match o with
  | RTouch i c =>
      match nth_error (sims w) i with
      | Some s => {| sims := set_ctr i c (sims w); cells := hset (s_info s) c (cells w); next := next w |}
      | None => w
      end
  | RCopyDeep i =>
      match nth_error (sims w) i with
      | Some s =>
          match hget (s_info s) (cells w) with
          | Some v => {| sims := sims w ++ [{| s_ctr := s_ctr s; s_info := next w |}];
                         cells := cells w ++ [(next w, v)]; next := S (next w) |}
          | None => w
          end
      | None => w
      end
  | RCopyShallow i =>
      match nth_error (sims w) i with
      | Some s => {| sims := sims w ++ [{| s_ctr := s_ctr s; s_info := s_info s |}]; cells := cells w; next := next w |}
      | None => w
      end
  | RQueryOnCopy i c =>
      match nth_error (sims w) i with
      | Some s => {| sims := sims w; cells := cells w ++ [(next w, c)]; next := S (next w) |}
      | None => w
      end
  | RTouchCopyOnly i c =>
      match nth_error (sims w) i with
      | Some s => {| sims := sims w; cells := hset (s_info s) c (cells w); next := next w |}
      | None => w
      end
  end.

Definition rrun (w : world) (ops : list rop) : world := fold_left rstep ops w.

Definition init_world (c : nat) : world :=
  {| sims := [{| s_ctr := c; s_info := 0 |}]; cells := [(0, c)]; next := 1 |}.

(* the record of simulator s is true *)
Definition rec_true_b (w : world) (s : sim) : bool :=
  match hget (s_info s) (cells w) with Some v => Nat.eqb v (s_ctr s) | None => false end.
Definition all_records_true (w : world) : bool := forallb (rec_true_b w) (sims w).

Definition sound_op (o : rop) : bool :=
  match o with RTouch _ _ | RCopyDeep _ | RQueryOnCopy _ _ => true | _ => false end.

(* executable ownership check used by the correspondence: no two simulators share an info dict *)
Fixpoint nodupb (l : list nat) : bool :=
  match l with [] => true | x :: t => negb (existsb (Nat.eqb x) t) && nodupb t end.
Definition owned_b (w : world) : bool := nodupb (map s_info (sims w)).

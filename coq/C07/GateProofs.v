(* C07 sub-model 1: every registered gate matrix (coq/C07/GatesGen.v,
   regenerated from quimb/tensor/circuit/gates.py on every run) is unitary for
   ALL real parameter values.  The proofs are one generic tactic applied to the
   generated text, so a changed builder is re-proved (or fails) on the next run. *)
From Coq Require Import Reals Lra Lia List Arith Nsatz Psatz.
From QV Require Import Base.Sums C07.CMat C07.GatesGen.
Import ListNotations.
Open Scope R_scope.

Ltac solve_real :=
  first
    [ lra
    | ring
    | solve [ gen_sqrt2; gen_trig; nsatz ]
    | solve [ gen_sqrt2; trig_expand; gen_trig; nsatz ]
    | solve [ gen_sqrt2; gen_trig; nra ]
    | solve [ gen_sqrt2; trig_expand; gen_trig; nra ] ].

Ltac entry :=
  unfold fmul, fdag, fid, of_list, csum;
  cbn [Sums.sum List.nth Nat.eqb];
  unfold cadd, cmul, cconj, c0, c1; cbn [fst snd];
  f_equal; solve_real.

Ltac gate_unitary g :=
  intros; unfold unitary; apply unitary_by_cases; unfold g;
  cbn [seq]; repeat (first [apply Forall_cons | apply Forall_nil]); entry.

Lemma g_CCNOT_unitary : unitary 8 (g_CCNOT).
Proof. gate_unitary g_CCNOT. Qed.
Lemma g_CCX_unitary : unitary 8 (g_CCX).
Proof. gate_unitary g_CCX. Qed.
Lemma g_CCY_unitary : unitary 8 (g_CCY).
Proof. gate_unitary g_CCY. Qed.
Lemma g_CCZ_unitary : unitary 8 (g_CCZ).
Proof. gate_unitary g_CCZ. Qed.
Lemma g_CNOT_unitary : unitary 4 (g_CNOT).
Proof. gate_unitary g_CNOT. Qed.
Lemma g_CPHASE_unitary : forall p0, unitary 4 (g_CPHASE p0).
Proof. gate_unitary g_CPHASE. Qed.
Lemma g_CRX_unitary : forall p0, unitary 4 (g_CRX p0).
Proof. gate_unitary g_CRX. Qed.
Lemma g_CRY_unitary : forall p0, unitary 4 (g_CRY p0).
Proof. gate_unitary g_CRY. Qed.
Lemma g_CRZ_unitary : forall p0, unitary 4 (g_CRZ p0).
Proof. gate_unitary g_CRZ. Qed.
Lemma g_CSWAP_unitary : unitary 8 (g_CSWAP).
Proof. gate_unitary g_CSWAP. Qed.
Lemma g_CU1_unitary : forall p0, unitary 4 (g_CU1 p0).
Proof. gate_unitary g_CU1. Qed.
Lemma g_CU2_unitary : forall p0 p1, unitary 4 (g_CU2 p0 p1).
Proof. gate_unitary g_CU2. Qed.
Lemma g_CU3_unitary : forall p0 p1 p2, unitary 4 (g_CU3 p0 p1 p2).
Proof. gate_unitary g_CU3. Qed.
Lemma g_CX_unitary : unitary 4 (g_CX).
Proof. gate_unitary g_CX. Qed.
Lemma g_CY_unitary : unitary 4 (g_CY).
Proof. gate_unitary g_CY. Qed.
Lemma g_CZ_unitary : unitary 4 (g_CZ).
Proof. gate_unitary g_CZ. Qed.
Lemma g_FREDKIN_unitary : unitary 8 (g_FREDKIN).
Proof. gate_unitary g_FREDKIN. Qed.
Lemma g_FS_unitary : forall p0 p1, unitary 4 (g_FS p0 p1).
Proof. gate_unitary g_FS. Qed.
Lemma g_FSIM_unitary : forall p0 p1, unitary 4 (g_FSIM p0 p1).
Proof. gate_unitary g_FSIM. Qed.
Lemma g_FSIMG_unitary : forall p0 p1 p2 p3 p4, unitary 4 (g_FSIMG p0 p1 p2 p3 p4).
Proof. gate_unitary g_FSIMG. Qed.
Lemma g_GIVENS_unitary : forall p0, unitary 4 (g_GIVENS p0).
Proof. gate_unitary g_GIVENS. Qed.
Lemma g_GIVENS2_unitary : forall p0 p1, unitary 4 (g_GIVENS2 p0 p1).
Proof. gate_unitary g_GIVENS2. Qed.
Lemma g_H_unitary : unitary 2 (g_H).
Proof. gate_unitary g_H. Qed.
Lemma g_HZ_1_2_unitary : unitary 2 (g_HZ_1_2).
Proof. gate_unitary g_HZ_1_2. Qed.
Lemma g_IDEN_unitary : unitary 2 (g_IDEN).
Proof. gate_unitary g_IDEN. Qed.
Lemma g_IS_unitary : unitary 4 (g_IS).
Proof. gate_unitary g_IS. Qed.
Lemma g_ISWAP_unitary : unitary 4 (g_ISWAP).
Proof. gate_unitary g_ISWAP. Qed.
Lemma g_PHASE_unitary : forall p0, unitary 2 (g_PHASE p0).
Proof. gate_unitary g_PHASE. Qed.
Lemma g_RX_unitary : forall p0, unitary 2 (g_RX p0).
Proof. gate_unitary g_RX. Qed.
Lemma g_RXX_unitary : forall p0, unitary 4 (g_RXX p0).
Proof. gate_unitary g_RXX. Qed.
Lemma g_RY_unitary : forall p0, unitary 2 (g_RY p0).
Proof. gate_unitary g_RY. Qed.
Lemma g_RYY_unitary : forall p0, unitary 4 (g_RYY p0).
Proof. gate_unitary g_RYY. Qed.
Lemma g_RZ_unitary : forall p0, unitary 2 (g_RZ p0).
Proof. gate_unitary g_RZ. Qed.
Lemma g_RZZ_unitary : forall p0, unitary 4 (g_RZZ p0).
Proof. gate_unitary g_RZZ. Qed.
Lemma g_S_unitary : unitary 2 (g_S).
Proof. gate_unitary g_S. Qed.
Lemma g_SDG_unitary : unitary 2 (g_SDG).
Proof. gate_unitary g_SDG. Qed.
Lemma g_SWAP_unitary : unitary 4 (g_SWAP).
Proof. gate_unitary g_SWAP. Qed.
Lemma g_SX_unitary : unitary 2 (g_SX).
Proof. gate_unitary g_SX. Qed.
Lemma g_SXDG_unitary : unitary 2 (g_SXDG).
Proof. gate_unitary g_SXDG. Qed.
Lemma g_T_unitary : unitary 2 (g_T).
Proof. gate_unitary g_T. Qed.
Lemma g_TDG_unitary : unitary 2 (g_TDG).
Proof. gate_unitary g_TDG. Qed.
Lemma g_TOFFOLI_unitary : unitary 8 (g_TOFFOLI).
Proof. gate_unitary g_TOFFOLI. Qed.
Lemma g_U1_unitary : forall p0, unitary 2 (g_U1 p0).
Proof. gate_unitary g_U1. Qed.
Lemma g_U2_unitary : forall p0 p1, unitary 2 (g_U2 p0 p1).
Proof. gate_unitary g_U2. Qed.
Lemma g_U3_unitary : forall p0 p1 p2, unitary 2 (g_U3 p0 p1 p2).
Proof. gate_unitary g_U3. Qed.
Lemma g_W_1_2_unitary : unitary 2 (g_W_1_2).
Proof. gate_unitary g_W_1_2. Qed.
Lemma g_X_unitary : unitary 2 (g_X).
Proof. gate_unitary g_X. Qed.
Lemma g_XXMINUSYY_unitary : forall p0 p1, unitary 4 (g_XXMINUSYY p0 p1).
Proof. gate_unitary g_XXMINUSYY. Qed.
Lemma g_XXPLUSYY_unitary : forall p0 p1, unitary 4 (g_XXPLUSYY p0 p1).
Proof. gate_unitary g_XXPLUSYY. Qed.
Lemma g_X_1_2_unitary : unitary 2 (g_X_1_2).
Proof. gate_unitary g_X_1_2. Qed.
Lemma g_Y_unitary : unitary 2 (g_Y).
Proof. gate_unitary g_Y. Qed.
Lemma g_Y_1_2_unitary : unitary 2 (g_Y_1_2).
Proof. gate_unitary g_Y_1_2. Qed.
Lemma g_Z_unitary : unitary 2 (g_Z).
Proof. gate_unitary g_Z. Qed.
Lemma g_Z_1_2_unitary : unitary 2 (g_Z_1_2).
Proof. gate_unitary g_Z_1_2. Qed.

Lemma g_NOTC_unitary : unitary 4 g_NOTC.
Proof. gate_unitary g_NOTC. Qed.

(* SU4: product of Kronecker products of unitaries *)
Lemma g_SU4_unitary : forall p0 p1 p2 p3 p4 p5 p6 p7 p8 p9 p10 p11 p12 p13 p14,
  funitary 4 (g_SU4 p0 p1 p2 p3 p4 p5 p6 p7 p8 p9 p10 p11 p12 p13 p14).
Proof.
  intros. unfold g_SU4.
  repeat (apply funitary_mul);
    first [ apply (funitary_kron 2 2); [lia | first [apply fid_unitary | apply g_U3_unitary | apply g_RZ_unitary | apply g_RY_unitary]
                                             | first [apply fid_unitary | apply g_U3_unitary | apply g_RZ_unitary | apply g_RY_unitary] ]
          | apply g_NOTC_unitary | apply g_CX_unitary ].
Qed.

(* C07 executable models (definitions only).
   (2) CircuitPermMPS qubit tracker  - quimb/tensor/circuit/mps.py:602-615 and
       MatrixProductState.gate_with_auto_swap / swap_site_to (tn1d/core.py).
   (3) the cache state machine of the exact Circuit - core.py:143-147, 1151-1161
       and the query methods of exact.py with their storage keys. *)
From Coq Require Import List Arith Bool ZArith Lia.
Import ListNotations.

(* ------------------------------------------------------------------------- *)
(* (2) permutation tracker                                                     *)

(* list.index: position of the first occurrence (None = ValueError) *)
Fixpoint index (q : nat) (l : list nat) : option nat :=
  match l with
  | [] => None
  | x :: t => if Nat.eqb x q then Some 0 else option_map S (index q t)
  end.

(* list.pop(j) : the element and the remaining list (None = IndexError) *)
Fixpoint pop (j : nat) (l : list nat) : option (nat * list nat) :=
  match l, j with
  | [], _ => None
  | x :: t, 0 => Some (x, t)
  | x :: t, S j' => match pop j' t with Some (y, t') => Some (y, x :: t') | None => None end
  end.

(* list.insert(i, x) : positions past the end append *)
Fixpoint insert (i : nat) (x : nat) (l : list nat) : list nat :=
  match i, l with
  | 0, _ => x :: l
  | S i', [] => [x]
  | S i', y :: t => y :: insert i' x t
  end.

Fixpoint indices (qs : list nat) (gq : list nat) : option (list nat) :=
  match gq with
  | [] => Some []
  | q :: r => match index q qs, indices qs r with
              | Some p, Some ps => Some (p :: ps)
              | _, _ => None
              end
  end.

(* CircuitPermMPS._apply_gate, tracker part: returns the new `qubits` list and
   the physical sites handed to the MPS gate (in the gate's qubit order).
       phys_sites = [self.qubits.index(q) for q in qubits]
       if len(phys_sites) == 2:
           i, j = sorted(phys_sites); new_qubits = list(self.qubits); q = new_qubits.pop(j); new_qubits.insert(i + 1, q)
       super()._apply_gate(...); self.qubits = new_qubits      (committed only once the gate has been applied:
       a rejected gate leaves the tracker unchanged = the model's None)   *)
Definition perm_step (qs : list nat) (gq : list nat) : option (list nat * list nat) :=
  match indices qs gq with
  | None => None
  | Some phys =>
      match phys with
      | [a; b] =>
          let i := Nat.min a b in let j := Nat.max a b in
          match pop j qs with
          | Some (q, rest) => Some (insert (S i) q rest, phys)
          | None => None
          end
      | _ => Some (qs, phys)
      end
  end.

Fixpoint perm_run (qs : list nat) (gates : list (list nat)) : option (list nat) :=
  match gates with
  | [] => Some qs
  | g :: r => match perm_step qs g with Some (qs', _) => perm_run qs' r | None => None end
  end.

(* the tracker after every gate (what the harness observes as circ.qubits) *)
Fixpoint perm_trace (qs : list nat) (gates : list (list nat)) : list (list nat) :=
  match gates with
  | [] => []
  | g :: r => match perm_step qs g with
              | Some (qs', _) => qs' :: perm_trace qs' r
              | None => []
              end
  end.

(* MPS side: swap_sites_with_compress_(k, k+1) exchanges the physical spaces of
   two neighbouring sites; `content` lists which logical qubit each site holds *)
Fixpoint swap_adj (k : nat) (l : list nat) : list nat :=
  match k, l with
  | 0, x :: y :: t => y :: x :: t
  | S k', x :: t => x :: swap_adj k' t
  | _, _ => l
  end.

(* swap_site_to(j, f) for f <= j : js = range(j - 1, f - 1, -1), i.e. n = j - f
   adjacent swaps at j-1, j-2, ..., f *)
Fixpoint move_down (n : nat) (f : nat) (l : list nat) : list nat :=
  match n with
  | 0 => l
  | S n' => move_down n' f (swap_adj (f + n') l)
  end.

(* gate_with_auto_swap(G, (a, b), swap_back=False): site contents afterwards and
   the ordered pair of sites the gate finally acts on (final_gate_where) *)
Definition auto_swap (content : list nat) (a b : nat) : list nat * (nat * nat) :=
  let i := Nat.min a b in let j := Nat.max a b in
  let c' := if Nat.eqb (S i) j then content else move_down (j - S i) (S i) content in
  (c', if Nat.ltb b a then (S i, i) else (i, S i)).

(* tracker and MPS side run together: the gate is handed the tracker's physical
   sites; returns (tracker', content', sites the gate finally acts on) *)
Definition sim_step (tr content : list nat) (g : list nat) : option (list nat * list nat * list nat) :=
  match perm_step tr g with
  | None => None
  | Some (tr', phys) =>
      match phys with
      | [a; b] => let '(c', (s1, s2)) := auto_swap content a b in Some (tr', c', [s1; s2])
      | _ => Some (tr', content, phys)
      end
  end.

Fixpoint sim_ok (tr content : list nat) (gates : list (list nat)) : Prop :=
  match gates with
  | [] => True
  | g :: r =>
      match sim_step tr content g with
      | None => True
      | Some (tr', c', sites) =>
          tr' = c' /\ map (fun s => nth s c' 0) sites = g /\ sim_ok tr' c' r
      end
  end.

(* ---- the complete step of CircuitPermMPS._apply_gate (since /repo 34d08a81, de0b2923) ----
       phys_sites = [self.qubits.index(q) for q in gate.qubits]
       phys_controls = [self.qubits.index(q) for q in gate.controls]          (if any)
       if gate.label == "SWAP" and not gate.controls:
           a, b = phys_sites; self.qubits[a], self.qubits[b] = self.qubits[b], self.qubits[a]; return
       if len(phys_sites) == 2 and not gate.controls:  pop j / insert i+1 (committed after the gate succeeded)
       otherwise (one / three qubit gates, every controlled gate): the tracker is unchanged             *)
Record pgate := { pg_swap : bool;            (* gate.label == "SWAP" *)
                  pg_ctrl : list nat;        (* gate.controls *)
                  pg_qubits : list nat }.    (* gate.qubits *)

Fixpoint set_nth (i x : nat) (l : list nat) : list nat :=
  match l, i with
  | [], _ => []
  | _ :: t, 0 => x :: t
  | y :: t, S i' => y :: set_nth i' x t
  end.
(* qs[a], qs[b] = qs[b], qs[a] *)
Definition swap_entries (a b : nat) (l : list nat) : list nat :=
  set_nth b (nth a l 0) (set_nth a (nth b l 0) l).

Definition is_nil (l : list nat) : bool := match l with [] => true | _ => false end.

(* -> (new tracker, physical sites of the targets, physical sites of the controls) *)
Definition perm_step_g (qs : list nat) (g : pgate) : option (list nat * list nat * list nat) :=
  match indices qs (pg_qubits g), indices qs (pg_ctrl g) with
  | Some phys, Some pc =>
      if pg_swap g && is_nil (pg_ctrl g) then
        match phys with
        | [a; b] => Some (swap_entries a b qs, phys, pc)
        | _ => None                                   (* a, b = phys_sites raises *)
        end
      else if is_nil (pg_ctrl g) then
        match perm_step qs (pg_qubits g) with
        | Some (qs', ph) => Some (qs', ph, pc)
        | None => None
        end
      else Some (qs, phys, pc)
  | _, _ => None
  end.

Fixpoint perm_run_g (qs : list nat) (gates : list pgate) : option (list nat) :=
  match gates with
  | [] => Some qs
  | g :: r => match perm_step_g qs g with Some (qs', _, _) => perm_run_g qs' r | None => None end
  end.

(* tracker / target sites / control sites after every gate (what the harness observes) *)
Fixpoint perm_trace_g (qs : list nat) (gates : list pgate) : list (list nat * list nat * list nat) :=
  match gates with
  | [] => []
  | g :: r => match perm_step_g qs g with
              | Some (qs', ph, pc) => (qs', ph, pc) :: perm_trace_g qs' r
              | None => []
              end
  end.

(* joint run with the site contents (which logical qubit's state each MPS site holds):
   - uncontrolled SWAP: no site moves, the two logical qubits exchange their states, i.e. the owners
     of the two sites are exchanged;
   - uncontrolled two-qubit gate: gate_with_auto_swap(swap_back=False) moves sites (auto_swap);
   - everything else: applied where the qubits are.
   returns (tracker', contents', sites the gate acts on (targets), control sites) *)
Definition sim_step_g (tr content : list nat) (g : pgate) : option (list nat * list nat * list nat * list nat) :=
  match perm_step_g tr g with
  | None => None
  | Some (tr', phys, pc) =>
      if pg_swap g && is_nil (pg_ctrl g) then
        match phys with
        | [a; b] => Some (tr', swap_entries a b content, [], pc)
        | _ => None
        end
      else if is_nil (pg_ctrl g) then
        match phys with
        | [a; b] => let '(c', (s1, s2)) := auto_swap content a b in Some (tr', c', [s1; s2], pc)
        | _ => Some (tr', content, phys, pc)
        end
      else Some (tr', content, phys, pc)
  end.

(* after every gate: tracker = contents; a non-SWAP gate acts on the sites holding its targets and
   controls; a SWAP exchanges the owners of the two sites *)
Fixpoint sim_ok_g (tr content : list nat) (gates : list pgate) : Prop :=
  match gates with
  | [] => True
  | g :: r =>
      match sim_step_g tr content g with
      | None => True
      | Some (tr', c', sites, pc) =>
          tr' = c'
          /\ (if pg_swap g && is_nil (pg_ctrl g)
              then map (fun q => index q c') (pg_qubits g) = map (fun q => index q content) (rev (pg_qubits g))
              else map (fun s => nth s c' 0) sites = pg_qubits g /\ map (fun s => nth s c' 0) pc = pg_ctrl g)
          /\ sim_ok_g tr' c' r
      end
  end.

Definition is_perm_of_range (n : nat) (l : list nat) : bool :=
  Nat.eqb (length l) n && forallb (fun q => match index q l with Some _ => true | None => false end) (seq 0 n).

Fixpoint natlist_eqb (a b : list nat) : bool :=
  match a, b with
  | [], [] => true
  | x :: a', y :: b' => Nat.eqb x y && natlist_eqb a' b'
  | _, _ => false
  end.

Fixpoint natll_eqb (a b : list (list nat)) : bool :=
  match a, b with
  | [], [] => true
  | x :: a', y :: b' => natlist_eqb x y && natll_eqb a' b'
  | _, _ => false
  end.

Definition triple_eqb (a b : list nat * list nat * list nat) : bool :=
  let '(a1, a2, a3) := a in let '(b1, b2, b3) := b in natlist_eqb a1 b1 && natlist_eqb a2 b2 && natlist_eqb a3 b3.
Fixpoint triples_eqb (a b : list (list nat * list nat * list nat)) : bool :=
  match a, b with
  | [], [] => true
  | x :: a', y :: b' => triple_eqb x y && triples_eqb a' b'
  | _, _ => false
  end.


(* ------------------------------------------------------------------------- *)
(* (3) cache state machine                                                     *)

(* storage keys exactly as in exact.py (simplification sequences and tolerances
   are interned as small numbers by the harness; tuple equality = eqb) *)
Inductive key :=
| KPsi (sq atol : nat)                         (* ("psi_simplified", seq, atol) *)
| KRdm (region : list nat) (sq atol : nat)     (* ("rdm_lightcone_simplified", tuple(sorted(where)), seq, atol) *)
| KOrder (method : nat) (qubits : list nat)    (* ("lightcone_ordering", method, qubits) *)
| KGbg (group_size : nat)                      (* ("gate_by_gate_circuits", group_size) *)
| KCond (region : list nat) (fixed : list (nat * nat)).   (* _sampled_conditionals[(where, sorted(result.items()))] *)

Fixpoint pairl_eqb (a b : list (nat * nat)) : bool :=
  match a, b with
  | [], [] => true
  | (x, y) :: a', (u, v) :: b' => Nat.eqb x u && Nat.eqb y v && pairl_eqb a' b'
  | _, _ => false
  end.

Definition key_eqb (a b : key) : bool :=
  match a, b with
  | KPsi s t, KPsi s' t' => Nat.eqb s s' && Nat.eqb t t'
  | KRdm r s t, KRdm r' s' t' => natlist_eqb r r' && Nat.eqb s s' && Nat.eqb t t'
  | KOrder m q, KOrder m' q' => Nat.eqb m m' && natlist_eqb q q'
  | KGbg g, KGbg g' => Nat.eqb g g'
  | KCond r f, KCond r' f' => natlist_eqb r r' && pairl_eqb f f'
  | _, _ => false
  end.

(* a mutator of the circuit object, classified by what it does *)
Record mut := {
  m_world : bool;    (* may change (gates, params, psi): the "world" the queries describe *)
  m_append : nat;    (* number of gates appended to self._gates (num_gates grows by this) *)
  m_clear : bool     (* calls clear_storage() after the change *)
}.
(* the inventory obligation: a world change either changes num_gates or clears *)
Definition covered (m : mut) : bool :=
  implb (m_world m) (negb (Nat.eqb (m_append m) 0) || m_clear m).

Record st := {
  ngates : nat;                 (* len(self._gates) *)
  world : nat;                  (* abstract identity of (gates, params, psi): bumped by every world change *)
  stamp : Z;                    (* self._sample_n_gates (starts at -1) *)
  storage : list (key * nat)    (* _storage and _sampled_conditionals: key -> world the value was computed in *)
}.

Definition init_st : st := {| ngates := 0; world := 0; stamp := (-1)%Z; storage := [] |}.

Fixpoint lookup (k : key) (s : list (key * nat)) : option nat :=
  match s with
  | [] => None
  | (k', w) :: t => if key_eqb k k' then Some w else lookup k t
  end.

(* clear_storage(): _storage.clear(); _sampled_conditionals.clear(); _sample_n_gates = num_gates *)
Definition clear_storage (s : st) : st :=
  {| ngates := ngates s; world := world s; stamp := Z.of_nat (ngates s); storage := [] |}.

(* _maybe_init_storage(): if self._sample_n_gates != self.num_gates: clear_storage() *)
Definition maybe_init (s : st) : st :=
  if Z.eqb (stamp s) (Z.of_nat (ngates s)) then s else clear_storage s.

Definition apply_mut (m : mut) (s : st) : st :=
  let s1 := {| ngates := ngates s + m_append m;
               world := if m_world m then S (world s) else world s;
               stamp := stamp s; storage := storage s |} in
  if m_clear m then clear_storage s1 else s1.

(* one observed cache access: the key, whether it was a hit, the world the
   returned value was computed in, and the world at the time of the query *)
Record event := { e_key : key; e_hit : bool; e_value : nat; e_now : nat }.

Fixpoint access (ks : list key) (s : st) : st * list event :=
  match ks with
  | [] => (s, [])
  | k :: r =>
      match lookup k (storage s) with
      | Some w =>
          let '(s', ev) := access r s in
          (s', {| e_key := k; e_hit := true; e_value := w; e_now := world s |} :: ev)
      | None =>
          let s1 := {| ngates := ngates s; world := world s; stamp := stamp s;
                       storage := storage s ++ [(k, world s)] |} in
          let '(s', ev) := access r s1 in
          (s', {| e_key := k; e_hit := false; e_value := world s; e_now := world s |} :: ev)
      end
  end.

(* ---- the query methods of exact.py as key sequences ------------------------- *)
Fixpoint ins_sorted (x : nat) (l : list nat) : list nat :=
  match l with
  | [] => [x]
  | y :: t => if Nat.leb x y then x :: l else y :: ins_sorted x t
  end.
Definition sort_nat (l : list nat) : list nat := fold_right ins_sorted [] l.
Fixpoint ins_set (x : nat) (l : list nat) : list nat :=      (* sorted set insertion *)
  match l with
  | [] => [x]
  | y :: t => if Nat.eqb x y then l else if Nat.ltb x y then x :: l else y :: ins_set x t
  end.
Definition sorted_set (l : list nat) : list nat := fold_right ins_set [] l.

Fixpoint ins_pair (p : nat * nat) (l : list (nat * nat)) : list (nat * nat) :=
  match l with
  | [] => [p]
  | q :: t => if Nat.leb (fst p) (fst q) then p :: l else q :: ins_pair p t
  end.
Definition sort_pairs (l : list (nat * nat)) : list (nat * nat) := fold_right ins_pair [] l.

(* get_psi_simplified(seq, atol) / to_dense / amplitude *)
Definition q_psi (sq atol : nat) : list key := [KPsi sq atol].
(* get_rdm_lightcone_simplified(where, seq, atol) / partial_trace / local_expectation *)
Definition q_rdm (where_ : list nat) (sq atol : nat) : list key := [KRdm (sort_nat where_) sq atol].
(* compute_marginal(where, fix): region = sorted(set(where) | set(fix)); all qubits -> ket only *)
Definition q_marginal (N : nat) (where_ : list nat) (fix_ : list (nat * nat)) (sq atol : nat) : list key :=
  let region := sorted_set (where_ ++ map fst fix_) in
  if Nat.eqb (length region) N then [KPsi sq atol] else [KRdm region sq atol].
(* calc_qubit_ordering(qubits) with the default method *)
Definition q_order (qubits : list nat) : list key := [KOrder 0 (sort_nat qubits)].

(* the key of a memoised conditional marginal: key = (where, tuple(sorted(result.items()))) - the target
   group and the (qubit, outcome) pairs conditioned on *)
Definition cond_key (where_ : list nat) (fixed : list (nat * nat)) : key := KCond where_ (sort_pairs fixed).
(* a compacted variant keeping only the outcome BITS of the conditioned qubits (sorted by qubit): it does
   not determine the conditioning event once different calls condition on different qubit sets *)
Definition cond_key_bits (where_ : list nat) (fixed : list (nat * nat)) : list nat * list nat :=
  (where_, map snd (sort_pairs fixed)).

(* one pass of Circuit.sample over the groups for one sample whose outcome is
   `bits` (qubit -> sampled bit): for each group the conditional key, and - on
   a miss - the keys compute_marginal touches.  Hits and misses are decided by
   `access`; on a conditional hit compute_marginal is not called, so the
   marginal's keys are only accessed when the conditional is absent: the
   harness therefore feeds one `Query` per group and the model decides. *)
Fixpoint group_keys (N : nat) (groups : list (list nat)) (fixed : list (nat * nat))
         (bits : list (nat * nat)) (sq atol : nat) : list (key * list key) :=
  match groups with
  | [] => []
  | g :: r =>
      let ck := cond_key g fixed in
      let mk := q_marginal N g fixed sq atol in
      let newfixed := fixed ++ filter (fun p => existsb (Nat.eqb (fst p)) g) bits in
      (ck, mk) :: group_keys N r newfixed bits sq atol
  end.

(* access a conditional: hit -> nothing else; miss -> the marginal's keys are
   accessed first (compute_marginal), then the conditional is stored *)
Definition access_cond (ck : key) (mk : list key) (s : st) : st * list event :=
  match lookup ck (storage s) with
  | Some w => (s, [{| e_key := ck; e_hit := true; e_value := w; e_now := world s |}])
  | None =>
      let '(s1, ev) := access mk s in
      let s2 := {| ngates := ngates s1; world := world s1; stamp := stamp s1;
                   storage := storage s1 ++ [(ck, world s1)] |} in
      (s2, {| e_key := ck; e_hit := false; e_value := world s; e_now := world s |} :: ev)
  end.

Fixpoint access_groups (gk : list (key * list key)) (s : st) : st * list event :=
  match gk with
  | [] => (s, [])
  | (ck, mk) :: r =>
      let '(s1, e1) := access_cond ck mk s in
      let '(s2, e2) := access_groups r s1 in (s2, e1 ++ e2)
  end.

(* Circuit.sample(C=1, qubits=qubits (range(N) when None), order=order or None, group_size): *)
Definition sample_one (N : nat) (qubits : list nat) (order_given : bool) (groups : list (list nat))
           (bits : list (nat * nat)) (sq atol : nat) (s : st) : st * list event :=
  let s0 := maybe_init s in
  let '(s1, e1) := if order_given then (s0, []) else access (q_order qubits) s0 in
  let '(s2, e2) := access_groups (group_keys N groups [] bits sq atol) s1 in
  (s2, e1 ++ e2).


Inductive op :=
| Mut (m : mut)
| Query (ks : list key)    (* _maybe_init_storage(); then each key: hit, or miss + compute + store *)
| Sample (N : nat) (qubits : list nat) (order_given : bool) (groups : list (list nat)) (bits : list (nat * nat)) (sq atol : nat).

Definition step (s : st) (o : op) : st * list event :=
  match o with
  | Mut m => (apply_mut m s, [])
  | Query ks => access ks (maybe_init s)
  | Sample N qs og groups bits sq atol => sample_one N qs og groups bits sq atol s
  end.

Fixpoint run (s : st) (ops : list op) : st * list event :=
  match ops with
  | [] => (s, [])
  | o :: r => let '(s1, e1) := step s o in let '(s2, e2) := run s1 r in (s2, e1 ++ e2)
  end.

Definition op_covered (o : op) : bool :=
  match o with Mut m => covered m | _ => true end.

(* per-op trace for the correspondence: events and observable state after each op *)
Fixpoint run_trace (s : st) (ops : list op) : list (list event * st) :=
  match ops with
  | [] => []
  | o :: r => let '(s1, e1) := step s o in (e1, s1) :: run_trace s1 r
  end.

(* observable part of the state compared with the implementation *)
Definition obs_keys (s : st) : list key := map fst (storage s).
Fixpoint keyl_eqb (a b : list key) : bool :=
  match a, b with
  | [], [] => true
  | x :: a', y :: b' => key_eqb x y && keyl_eqb a' b'
  | _, _ => false
  end.
Fixpoint evl_eqb (a : list event) (b : list (key * bool)) : bool :=
  match a, b with
  | [], [] => true
  | e :: a', (k, h) :: b' => key_eqb (e_key e) k && Bool.eqb (e_hit e) h && evl_eqb a' b'
  | _, _ => false
  end.

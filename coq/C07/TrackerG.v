(* C07: the complete CircuitPermMPS tracker step (SWAP = relabelling, controlled gates
   untracked, uncontrolled two-qubit gates = pop j / insert i+1): invariants and the
   refinement of the MPS site contents, for every gate sequence. *)
From Coq Require Import List Arith Bool Lia Permutation.
From QV Require Import C07.Model C07.Proofs.
Import ListNotations.

Lemma set_nth_length i x l : length (set_nth i x l) = length l.
Proof. revert i. induction l as [|y t IH]; intros [|i]; cbn; auto. Qed.

Lemma set_nth_app A : forall x y B, set_nth (length A) x (A ++ y :: B) = A ++ x :: B.
Proof. induction A as [|a A IH]; intros; cbn; [reflexivity|]. rewrite IH. reflexivity. Qed.

Lemma set_nth_same_val i l : i < length l -> set_nth i (nth i l 0) l = l.
Proof. revert i. induction l as [|y t IH]; intros [|i] H; cbn in *; try lia; auto. rewrite IH by lia. reflexivity. Qed.

Lemma nth_set_nth_same i x l : i < length l -> nth i (set_nth i x l) 0 = x.
Proof. revert i. induction l as [|y t IH]; intros [|i] H; cbn in *; try lia; auto. apply IH. lia. Qed.

Lemma nth_set_nth_other i j x l : i <> j -> nth j (set_nth i x l) 0 = nth j l 0.
Proof.
  revert i j. induction l as [|y t IH]; intros [|i] [|j] H; cbn; try reflexivity; try lia.
  apply IH. lia.
Qed.

(* explicit form of the exchange for i < j *)
Lemma swap_entries_lt i j l : i < j -> j < length l ->
  exists A M B, l = (A ++ [nth i l 0]) ++ M ++ nth j l 0 :: B
    /\ swap_entries i j l = (A ++ [nth j l 0]) ++ M ++ nth i l 0 :: B
    /\ swap_entries j i l = (A ++ [nth j l 0]) ++ M ++ nth i l 0 :: B.
Proof.
  intros Hij Hj. destruct (split_two l i j Hij Hj) as (A & M & B & E & LA & LM).
  exists A, M, B. split; [exact E|].
  set (xi := nth i l 0) in *. set (xj := nth j l 0) in *.
  assert (Ei : forall u v, set_nth i u ((A ++ [v]) ++ M ++ xj :: B) = (A ++ [u]) ++ M ++ xj :: B).
  { intros u v. rewrite <- !app_assoc. cbn [app]. rewrite <- LA. rewrite set_nth_app. reflexivity. }
  assert (Ej : forall u v w, set_nth j u ((A ++ [w]) ++ M ++ v :: B) = (A ++ [w]) ++ M ++ u :: B).
  { intros u v w. rewrite !app_assoc.
    replace j with (length ((A ++ [w]) ++ M)) by (rewrite !app_length; cbn; lia).
    rewrite set_nth_app. reflexivity. }
  split.
  - unfold swap_entries. fold xi xj. rewrite E at 1. rewrite Ei. rewrite Ej. reflexivity.
  - unfold swap_entries. fold xi xj. rewrite E at 1. rewrite Ej.
    assert (Ei' : forall u v w, set_nth i u ((A ++ [v]) ++ M ++ w :: B) = (A ++ [u]) ++ M ++ w :: B).
    { intros u v w. rewrite <- !app_assoc. cbn [app]. rewrite <- LA. rewrite set_nth_app. reflexivity. }
    rewrite Ei'. reflexivity.
Qed.

Lemma perm_two (A M B : list nat) x y :
  Permutation ((A ++ [y]) ++ M ++ x :: B) ((A ++ [x]) ++ M ++ y :: B).
Proof.
  rewrite <- !app_assoc. apply Permutation_app_head. cbn [app].
  apply perm_trans with (y :: x :: M ++ B).
  - apply perm_skip. apply Permutation_sym. apply Permutation_middle.
  - apply perm_trans with (x :: y :: M ++ B); [apply perm_swap|].
    apply perm_skip. apply Permutation_middle.
Qed.

Lemma swap_entries_perm a b l : a < length l -> b < length l -> Permutation (swap_entries a b l) l.
Proof.
  intros Ha Hb. destruct (Nat.lt_trichotomy a b) as [H|[H|H]].
  - destruct (swap_entries_lt a b l H Hb) as (A & M & B & E & S1 & _). rewrite S1. rewrite E at 3. apply perm_two.
  - subst b. unfold swap_entries. rewrite set_nth_same_val by exact Ha.
    rewrite set_nth_same_val by exact Ha. apply Permutation_refl.
  - destruct (swap_entries_lt b a l H Ha) as (A & M & B & E & _ & S2). rewrite S2. rewrite E at 3. apply perm_two.
Qed.

Lemma swap_entries_nth a b l : a < length l -> b < length l ->
  nth a (swap_entries a b l) 0 = nth b l 0 /\ nth b (swap_entries a b l) 0 = nth a l 0
  /\ forall p, p <> a -> p <> b -> nth p (swap_entries a b l) 0 = nth p l 0.
Proof.
  intros Ha Hb. unfold swap_entries. repeat split.
  - destruct (Nat.eq_dec a b) as [->|Hne].
    + rewrite nth_set_nth_same by (rewrite set_nth_length; exact Hb). reflexivity.
    + rewrite nth_set_nth_other by lia. apply nth_set_nth_same. exact Ha.
  - apply nth_set_nth_same. rewrite set_nth_length. exact Hb.
  - intros p Hpa Hpb. rewrite nth_set_nth_other by lia. apply nth_set_nth_other. lia.
Qed.

Lemma index_of_nth l : NoDup l -> forall p, p < length l -> index (nth p l 0) l = Some p.
Proof.
  induction l as [|x t IH]; intros ND p Hp; cbn in Hp; [lia|].
  inversion ND as [|? ? Hx Ht]; subst. destruct p as [|p]; cbn.
  - rewrite Nat.eqb_refl. reflexivity.
  - destruct (Nat.eqb x (nth p t 0)) eqn:E.
    + apply Nat.eqb_eq in E. exfalso. apply Hx. rewrite E. apply nth_In. lia.
    + rewrite (IH Ht p) by lia. reflexivity.
Qed.

Lemma is_nil_spec l : is_nil l = true -> l = [].
Proof. destruct l; [reflexivity|discriminate]. Qed.

(* ---- invariants of the complete step ---------------------------------------------- *)
Lemma perm_step_g_perm qs g qs' ph pc : perm_step_g qs g = Some (qs', ph, pc) -> Permutation qs' qs.
Proof.
  unfold perm_step_g.
  destruct (indices qs (pg_qubits g)) as [phys|] eqn:Ei; [|discriminate].
  destruct (indices qs (pg_ctrl g)) as [pcs|] eqn:Ec; [|discriminate].
  destruct (indices_spec _ _ _ Ei) as [_ Hlt].
  destruct (pg_swap g && is_nil (pg_ctrl g)).
  - destruct phys as [|a [|b [|c r]]]; try discriminate. intros H.
    assert (qs' = swap_entries a b qs) by congruence. subst qs'.
    inversion Hlt as [|? ? Ha Hr]; subst. inversion Hr as [|? ? Hb _]; subst.
    apply swap_entries_perm; assumption.
  - destruct (is_nil (pg_ctrl g)).
    + destruct (perm_step qs (pg_qubits g)) as [[q1 p1]|] eqn:Es; [|discriminate]. intros H.
      assert (qs' = q1) by congruence. subst. eapply perm_step_perm. exact Es.
    + intros H. assert (qs' = qs) by congruence. subst. apply Permutation_refl.
Qed.

Theorem perm_run_g_perm N gates : forall qs qs', Permutation qs (seq 0 N) ->
  perm_run_g qs gates = Some qs' -> Permutation qs' (seq 0 N).
Proof.
  induction gates as [|g r IH]; intros qs qs' HP H; cbn in H.
  - inversion H; subst. exact HP.
  - destruct (perm_step_g qs g) as [[[qs1 ph] pc]|] eqn:E; [|discriminate].
    apply (IH qs1 qs'); [|exact H].
    apply perm_trans with qs; [eapply perm_step_g_perm; exact E | exact HP].
Qed.

(* a gate on register qubits (a SWAP names exactly two) is never rejected by the tracker *)
Theorem perm_step_g_total N qs g : Permutation qs (seq 0 N) ->
  Forall (fun q => q < N) (pg_qubits g) -> Forall (fun q => q < N) (pg_ctrl g) ->
  (pg_swap g = true -> length (pg_qubits g) = 2) ->
  exists r, perm_step_g qs g = Some r.
Proof.
  intros HP Hq Hc Hs.
  assert (Hin : forall l, Forall (fun q => q < N) l -> Forall (fun q => In q qs) l).
  { intros l Hl. rewrite Forall_forall in *. intros q Hq'. apply Permutation_in with (seq 0 N); [apply Permutation_sym; exact HP|].
    apply in_seq. specialize (Hl q Hq'). lia. }
  destruct (indices_total qs _ (Hin _ Hq)) as [phys Ep].
  destruct (indices_total qs _ (Hin _ Hc)) as [pcs Ec].
  unfold perm_step_g. rewrite Ep, Ec.
  destruct (pg_swap g) eqn:Sw; cbn [andb].
  - destruct (is_nil (pg_ctrl g)).
    + specialize (Hs eq_refl). destruct (indices_spec _ _ _ Ep) as [Hm _].
      assert (length phys = 2) by (rewrite <- Hs, <- Hm, map_length; reflexivity).
      destruct phys as [|a [|b [|c r]]]; cbn in *; try lia. eexists; reflexivity.
    + eexists; reflexivity.
  - destruct (is_nil (pg_ctrl g)); [|eexists; reflexivity].
    destruct (perm_step_total N qs (pg_qubits g) HP Hq) as [[q1 p1] E]. rewrite E. eexists; reflexivity.
Qed.

(* ---- refinement of the site contents ------------------------------------------------ *)
Lemma sim_step_g_ok tr g : NoDup tr -> NoDup (pg_qubits g) ->
  match sim_step_g tr tr g with
  | None => True
  | Some (tr', c', sites, pc) =>
      tr' = c' /\ Permutation tr' tr
      /\ (if pg_swap g && is_nil (pg_ctrl g)
          then map (fun q => index q c') (pg_qubits g) = map (fun q => index q tr) (rev (pg_qubits g))
          else map (fun s => nth s c' 0) sites = pg_qubits g /\ map (fun s => nth s c' 0) pc = pg_ctrl g)
  end.
Proof.
  intros NDt NDg. unfold sim_step_g.
  destruct (perm_step_g tr g) as [[[tr' phys] pc]|] eqn:E; [|exact I].
  pose proof (perm_step_g_perm _ _ _ _ _ E) as HP.
  unfold perm_step_g in E.
  destruct (indices tr (pg_qubits g)) as [ph|] eqn:Ei; [|discriminate].
  destruct (indices tr (pg_ctrl g)) as [pcs|] eqn:Ec; [|discriminate].
  destruct (indices_spec _ _ _ Ei) as [Hmq Hltq]. destruct (indices_spec _ _ _ Ec) as [Hmc _].
  destruct (pg_swap g && is_nil (pg_ctrl g)) eqn:Sw.
  - (* SWAP: relabelling *)
    destruct ph as [|a [|b [|c r]]]; try discriminate.
    assert (tr' = swap_entries a b tr) by congruence. assert (phys = [a; b]) by congruence. subst tr' phys.
    split; [reflexivity|]. split; [exact HP|].
    inversion Hltq as [|? ? Ha Hr]; subst. inversion Hr as [|? ? Hb _]; subst.
    destruct (pg_qubits g) as [|x [|y [|z r]]] eqn:Eq; cbn in Hmq; try discriminate.
    injection Hmq as Hx Hy.
    destruct (swap_entries_nth a b tr Ha Hb) as (Na & Nb & _).
    assert (ND' : NoDup (swap_entries a b tr)) by (apply Permutation_NoDup with tr; [apply Permutation_sym; exact HP | exact NDt]).
    assert (L' : length (swap_entries a b tr) = length tr) by (unfold swap_entries; rewrite !set_nth_length; reflexivity).
    cbn [map rev app].
    (* x now sits at site b, y at site a *)
    assert (Ix : index x (swap_entries a b tr) = Some b).
    { rewrite <- Hx, <- Nb. apply index_of_nth; [exact ND' | lia]. }
    assert (Iy : index y (swap_entries a b tr) = Some a).
    { rewrite <- Hy, <- Na. apply index_of_nth; [exact ND' | lia]. }
    assert (Jx : index x tr = Some a) by (rewrite <- Hx; apply index_of_nth; assumption).
    assert (Jy : index y tr = Some b) by (rewrite <- Hy; apply index_of_nth; assumption).
    rewrite Ix, Iy, Jx, Jy. reflexivity.
  - destruct (is_nil (pg_ctrl g)) eqn:Nil.
    + (* uncontrolled gate: the core step *)
      destruct (perm_step tr (pg_qubits g)) as [[q1 p1]|] eqn:Es; [|discriminate].
      assert (tr' = q1) by congruence. assert (phys = p1) by congruence. assert (pc = pcs) by congruence. subst q1 p1 pc.
      pose proof (sim_step_ok tr (pg_qubits g) NDt NDg) as H. unfold sim_step in H. rewrite Es in H.
      apply is_nil_spec in Nil. rewrite Nil in Ec. cbn in Ec. assert (pcs = []) by congruence. subst pcs.
      destruct phys as [|a [|b [|c r]]].
      * destruct H as (A & B & D). subst. repeat split; auto; try (rewrite Nil; reflexivity).
      * destruct H as (A & B & D). subst. repeat split; auto; try (rewrite Nil; reflexivity).
      * destruct (auto_swap tr a b) as [c' [s1 s2]]. destruct H as (A & B & D). subst. repeat split; auto; try (rewrite Nil; reflexivity).
      * destruct H as (A & B & D). subst. repeat split; auto; try (rewrite Nil; reflexivity).
    + (* controlled gate: nothing moves *)
      assert (tr' = tr) by congruence. assert (phys = ph) by congruence. assert (pc = pcs) by congruence. subst.
      repeat split; auto.
Qed.

Theorem sim_run_g_ok gates : forall tr, NoDup tr -> Forall (fun g => NoDup (pg_qubits g)) gates -> sim_ok_g tr tr gates.
Proof.
  induction gates as [|g r IH]; intros tr ND Hg; cbn [sim_ok_g]; [exact I|].
  inversion Hg as [|? ? Hg1 Hgr]; subst.
  pose proof (sim_step_g_ok tr g ND Hg1) as H.
  destruct (sim_step_g tr tr g) as [[[[tr' c'] sites] pc]|]; [|exact I].
  destruct H as (E & P & S). subst c'. split; [reflexivity|]. split; [exact S|].
  apply IH; [|exact Hgr]. apply Permutation_NoDup with tr; [apply Permutation_sym; exact P | exact ND].
Qed.

(* C07: proofs about identity-keyed caches (model: IdCacheModel.v).
   Main result: if every entry pins its key object - or, without pinning, if no simulator is ever dropped and no
   gate is rejected - then for EVERY history and EVERY allocator the array returned for G is the conversion of G,
   hit or miss.  Without pinning, a dropped copy or a rejected gate gives a stale hit. *)
From Coq Require Import List Arith Bool ZArith Lia.
From QV Require Import C07.IdCacheModel.
Import ListNotations.

Lemma memb_true : forall a l, memb a l = true <-> In a l.
Proof.
  intros a l. unfold memb. rewrite existsb_exists. split.
  - intros [x [Hin E]]. apply Nat.eqb_eq in E. subst. exact Hin.
  - intros H. exists a. split; [exact H | apply Nat.eqb_refl].
Qed.

Lemma hfind_cons_other : forall a k v h, k <> a -> hfind a ((k, v) :: h) = hfind a h.
Proof. intros a k v h N. cbn. destruct (Nat.eqb k a) eqn:E; [apply Nat.eqb_eq in E; contradiction | reflexivity]. Qed.

Lemma hfind_hdel_other : forall a b h, a <> b -> hfind a (hdel b h) = hfind a h.
Proof.
  intros a b h N. induction h as [|[k v] t IH]; [reflexivity|].
  unfold hdel in *. cbn. destruct (Nat.eqb k b) eqn:Eb; cbn.
  - apply Nat.eqb_eq in Eb. subst k. destruct (Nat.eqb b a) eqn:Ea.
    + apply Nat.eqb_eq in Ea. subst. contradiction.
    + exact IH.
  - destruct (Nat.eqb k a); [reflexivity | exact IH].
Qed.

Lemma cfind_some : forall a c en, cfind a c = Some en -> In en c /\ ie_key en = a.
Proof.
  intros a c en. induction c as [|e t IH]; cbn; [discriminate|].
  destruct (Nat.eqb (ie_key e) a) eqn:E.
  - intros H. inversion H; subst. split; [left; reflexivity | apply Nat.eqb_eq; exact E].
  - intros H. destruct (IH H) as [Hin K]. split; [right; exact Hin | exact K].
Qed.

Lemma pinned_of_entry : forall c en, In en c -> ie_pin en = true -> pinned (ie_key en) c = true.
Proof.
  intros c en Hin P. unfold pinned. apply existsb_exists. exists en. split; [exact Hin|].
  rewrite P, Nat.eqb_refl. reflexivity.
Qed.

(* _gates lists *)
Lemma held_app : forall a cs x, held a cs = true -> held a (cs ++ [x]) = true.
Proof. intros a cs x H. unfold held in *. rewrite existsb_app, H. reflexivity. Qed.

Lemma held_set_nth_grow : forall a b cs c l,
  nth_error cs c = Some (Some l) -> held a cs = true -> held a (iset_nth c (Some (l ++ [b])) cs) = true.
Proof.
  intros a b cs. induction cs as [|y t IH]; intros c l Hn H.
  - destruct c; discriminate.
  - destruct c as [|c'].
    + cbn in Hn. inversion Hn; subst y. cbn in H |- *. apply orb_true_iff in H. destruct H as [H|H].
      * apply orb_true_iff. left. apply memb_true. apply in_or_app. left. apply memb_true. exact H.
      * apply orb_true_iff. right. exact H.
    + cbn in Hn. cbn in H |- *. apply orb_true_iff in H. destruct H as [H|H].
      * apply orb_true_iff. left. exact H.
      * apply orb_true_iff. right. exact (IH _ _ Hn H).
Qed.

Lemma held_set_nth_new : forall a cs c l,
  nth_error cs c = Some (Some l) -> held a (iset_nth c (Some (l ++ [a])) cs) = true.
Proof.
  intros a cs. induction cs as [|y t IH]; intros c l Hn.
  - destruct c; discriminate.
  - destruct c as [|c'].
    + cbn. apply orb_true_iff. left. apply memb_true. apply in_or_app. right. left. reflexivity.
    + cbn in Hn. cbn. apply orb_true_iff. right. exact (IH _ _ Hn).
Qed.

(* ---- the invariant ------------------------------------------------------------------------------------------------ *)
(* every entry is PROTECTED (it pins its key object, or - unpinned discipline - a live _gates list holds it) and its
   value is the conversion of the present contents of the object at its key *)
Definition protected (pin : bool) (s : ist) (en : ientry) : Prop :=
  ie_pin en = true \/ (pin = false /\ held (ie_key en) (circs s) = true).
Definition entry_ok (conv : Z -> Z) (pin : bool) (s : ist) (en : ientry) : Prop :=
  protected pin s en /\ exists v, hfind (ie_key en) (heap s) = Some v /\ ie_val en = conv v.
Definition inv (conv : Z -> Z) (pin : bool) (s : ist) : Prop := forall en, In en (cache s) -> entry_ok conv pin s en.

Lemma protected_rooted : forall pin s en, In en (cache s) -> protected pin s en -> rooted s (ie_key en) = true.
Proof.
  intros pin s en Hin [P|[_ H]]; unfold rooted.
  - rewrite (pinned_of_entry _ _ Hin P). apply orb_true_r.
  - rewrite H. rewrite orb_true_r. reflexivity.
Qed.

Lemma istep_inv : forall conv pin s e s' o, gentle pin e = true ->
  inv conv pin s -> istep conv pin s e = Some (s', o) ->
  inv conv pin s' /\ match o with Some x => o_ans x = o_want x | None => True end.
Proof.
  intros conv pin s e s' o G I St. destruct e as [a v|a|a|c a acc|c|c]; cbn in St.
  - (* IAlloc *)
    destruct (hfind a (heap s)) eqn:Hf; [discriminate|]. inversion St; subst; clear St. split; [|exact Logic.I].
    intros en Hin. cbn in Hin. destruct (I en Hin) as [P [w [Hw Ev]]]. split; [exact P|].
    exists w. split; [|exact Ev]. cbn [heap]. rewrite hfind_cons_other; [exact Hw|].
    intros E. subst a. rewrite Hw in Hf. discriminate.
  - (* IDropUser *)
    inversion St; subst; clear St. split; [|exact Logic.I]. intros en Hin. exact (I en Hin).
  - (* IGc *)
    destruct (rooted s a) eqn:R; [discriminate|]. destruct (hfind a (heap s)) eqn:Hf; [|discriminate].
    inversion St; subst; clear St. split; [|exact Logic.I].
    intros en Hin. cbn in Hin. destruct (I en Hin) as [P [w [Hw Ev]]]. split; [exact P|].
    exists w. split; [|exact Ev]. cbn [heap]. rewrite hfind_hdel_other; [exact Hw|].
    intros E. pose proof (protected_rooted pin s en Hin P) as R'. rewrite E, R in R'. discriminate.
  - (* IApply *)
    destruct (negb (memb a (user s))) eqn:U; [discriminate|].
    destruct (hfind a (heap s)) as [v|] eqn:Hf; [|discriminate].
    destruct (nth_error (circs s) c) as [[l|]|] eqn:Hn; try discriminate.
    assert (Hgrow : forall k, held k (circs s) = true ->
                    held k (if acc then iset_nth c (Some (l ++ [a])) (circs s) else circs s) = true).
    { intros k Hk. destruct acc; [apply held_set_nth_grow; assumption | exact Hk]. }
    destruct (cfind a (cache s)) as [en|] eqn:Cf.
    + inversion St; subst; clear St. split.
      * intros en' Hin. cbn in Hin. destruct (I en' Hin) as [P [w [Hw Ev]]]. split.
        -- destruct P as [P|[Q P]]; [left; exact P | right; split; [exact Q | cbn [circs]; apply Hgrow; exact P]].
        -- exists w. split; [exact Hw | exact Ev].
      * cbn. destruct (cfind_some _ _ _ Cf) as [Hin K]. destruct (I en Hin) as [_ [w [Hw Ev]]].
        rewrite K, Hf in Hw. inversion Hw; subst w. exact Ev.
    + inversion St; subst; clear St. split; [|reflexivity].
      intros en' Hin. cbn [cache] in Hin. apply in_app_or in Hin. destruct Hin as [Hin|Hin].
      * destruct (I en' Hin) as [P [w [Hw Ev]]]. split.
        -- destruct P as [P|[Q P]]; [left; exact P | right; split; [exact Q | cbn [circs]; apply Hgrow; exact P]].
        -- exists w. split; [exact Hw | exact Ev].
      * destruct Hin as [E|[]]. subst en'. split.
        -- unfold protected. cbn [ie_pin ie_key circs]. destruct pin; [left; reflexivity|].
           right. split; [reflexivity|]. cbn in G. rewrite G. apply held_set_nth_new. exact Hn.
        -- exists v. split; [exact Hf | reflexivity].
  - (* ICopy *)
    destruct (nth_error (circs s) c) as [[l|]|] eqn:Hn; try discriminate.
    inversion St; subst; clear St. split; [|exact Logic.I].
    intros en Hin. cbn in Hin. destruct (I en Hin) as [P [w [Hw Ev]]]. split.
    + destruct P as [P|[Q P]]; [left; exact P | right; split; [exact Q | cbn [circs]; apply held_app; exact P]].
    + exists w. split; [exact Hw | exact Ev].
  - (* IDrop: only allowed with pin = true, where every entry pins *)
    unfold gentle in G. rewrite orb_false_r in G. subst pin.
    destruct (nth_error (circs s) c) as [[l|]|] eqn:Hn; try discriminate.
    inversion St; subst; clear St. split; [|exact Logic.I].
    intros en Hin. cbn [cache] in Hin.
    destruct (any_live (iset_nth c None (circs s))); [|destruct Hin].
    destruct (I en Hin) as [P [w [Hw Ev]]]. split.
    + destruct P as [P|[Q _]]; [left; exact P | discriminate].
    + exists w. split; [exact Hw | exact Ev].
Qed.

Lemma inv_init : forall conv pin, inv conv pin iinit.
Proof. intros conv pin en []. Qed.

Lemma irun_fresh_from : forall conv pin evs s s' outs, forallb (gentle pin) evs = true ->
  inv conv pin s -> irun conv pin s evs = Some (s', outs) ->
  Forall (fun o => o_ans o = o_want o) outs.
Proof.
  intros conv pin evs. induction evs as [|e r IH]; intros s s' outs G I R.
  - cbn in R. inversion R; subst. constructor.
  - cbn in G. apply andb_true_iff in G. destruct G as [Ge Gr]. cbn in R.
    destruct (istep conv pin s e) as [[s1 o]|] eqn:St; [|discriminate].
    destruct (irun conv pin s1 r) as [[s2 os]|] eqn:Rr; [|discriminate].
    inversion R; subst; clear R.
    destruct (istep_inv conv pin s e s1 o Ge I St) as [I1 Ho].
    pose proof (IH s1 s' os Gr I1 Rr) as F.
    destruct o as [x|]; [constructor; assumption | exact F].
Qed.

(* (a) the general statement: pinned entries - any history; unpinned entries - histories without dropped simulators
       and without rejected gates *)
Lemma idcache_fresh_gentle : forall conv pin evs s' outs, forallb (gentle pin) evs = true ->
  irun conv pin iinit evs = Some (s', outs) -> Forall (fun o => o_ans o = o_want o) outs.
Proof. intros. eapply irun_fresh_from; eauto using inv_init. Qed.

(* (b) the code as it stands (entries pin their key object): every history, every allocator *)
Lemma idcache_fresh_pinned : forall conv evs s' outs,
  irun conv true iinit evs = Some (s', outs) -> Forall (fun o => o_ans o = o_want o) outs.
Proof.
  intros conv evs s' outs R. apply (idcache_fresh_gentle conv true evs s' outs); [|exact R].
  apply forallb_forall. intros e _. reflexivity.
Qed.

(* (c) a pinned key object is never freed while its entry lives: its address cannot be handed out again *)
Lemma pinned_never_freed : forall conv s a s' o, pinned a (cache s) = true -> istep conv true s (IGc a) <> Some (s', o).
Proof.
  intros conv s a s' o P H. cbn in H. unfold rooted in H. rewrite P, orb_true_r in H. discriminate.
Qed.

(* (d) unpinned entries: a short-lived copy (or a rejected gate) + a recycled address = a stale hit *)
Definition stale_by_copy : list iev :=
  [ICopy 0; IAlloc 7 1; IApply 1 7 true; IDrop 1; IDropUser 7; IGc 7; IAlloc 7 2; ICopy 0; IApply 2 7 true].
Definition stale_by_rejection : list iev :=
  [IAlloc 7 1; IApply 0 7 false; IDropUser 7; IGc 7; IAlloc 7 2; IApply 0 7 true].

Lemma unpinned_stale : forall evs, evs = stale_by_copy \/ evs = stale_by_rejection ->
  exists s' outs o, irun (fun z => z) false iinit evs = Some (s', outs) /\ In o outs
                    /\ o_hit o = true /\ o_ans o <> o_want o.
Proof.
  intros evs [E|E]; subst evs.
  - eexists. eexists. exists {| o_hit := true; o_ans := 1%Z; o_want := 2%Z |}.
    split; [vm_compute; reflexivity|]. split; [right; left; reflexivity|]. split; [reflexivity | cbn; discriminate].
  - eexists. eexists. exists {| o_hit := true; o_ans := 1%Z; o_want := 2%Z |}.
    split; [vm_compute; reflexivity|]. split; [right; left; reflexivity|]. split; [reflexivity | cbn; discriminate].
Qed.

(* the same two histories are IMPOSSIBLE when entries pin: the allocator cannot reuse the address *)
Lemma pinned_blocks_recycling :
  irun (fun z => z) true iinit stale_by_copy = None /\ irun (fun z => z) true iinit stale_by_rejection = None.
Proof. split; vm_compute; reflexivity. Qed.

(* C07: the reverse light cone is sound for data flow.  Gates are ARBITRARY local
   update functions on wire values (a gate reads and writes only its registers);
   SWAP exchanges two wires (the simulator re-labels indices lazily, so a SWAP is
   always in effect); the values on the wires of `where` after the whole circuit
   equal those after the circuit restricted to the gates the light cone keeps.
   This is the classical (non-interference) reading of light-cone cancellation:
   it validates the cone bookkeeping - SWAP membership exchange, controls joined
   with targets, IDEN skipped - for every circuit; the quantum statement (unitary
   gates outside the cone cancel in the reduced density operator) is NOT proved. *)
From Coq Require Import List Arith Bool Lia.
From QV Require Import C07.LightconeModel.
Import ListNotations.

Section DataFlow.
  Variable V : Type.
  Definition wires := nat -> V.

  (* a gate reads and writes only its registers *)
  Definition local_fn (regs : list nat) (f : wires -> wires) : Prop :=
    (forall s k, mem k regs = false -> f s k = s k) /\
    (forall s s', (forall k, mem k regs = true -> s k = s' k) -> forall k, mem k regs = true -> f s k = f s' k).

  Definition swap_idx (i j k : nat) : nat := if Nat.eqb k i then j else if Nat.eqb k j then i else k.

  (* semantic gate: the shape the light cone sees + its update function *)
  Definition sgate := (lgate * (wires -> wires))%type.
  Definition wf_gate (g : sgate) : Prop :=
    match fst g with LGate regs => local_fn regs (snd g) | _ => True end.

  Definition exec (g : sgate) (s : wires) : wires :=
    match fst g with
    | LIden => s
    | LSwap i j => fun k => s (swap_idx i j k)
    | LGate _ => snd g s
    end.

  Fixpoint run_all (gs : list sgate) (s : wires) : wires :=
    match gs with [] => s | g :: r => run_all r (exec g s) end.

  (* only the gates flagged by the light cone (SWAP / IDEN relabelling always in effect) *)
  Fixpoint run_cone (gs : list sgate) (flags : list bool) (s : wires) : wires :=
    match gs, flags with
    | g :: r, b :: fr =>
        match fst g with
        | LGate _ => run_cone r fr (if b then exec g s else s)
        | _ => run_cone r fr (exec g s)
        end
    | _, _ => s
    end.

  Lemma swap_cone_spec i j c k : swap_cone i j c k = c (swap_idx i j k).
  Proof.
    unfold swap_cone, swap_idx, cadd_, cdiscard.
    destruct (c i) eqn:Ci; destruct (c j) eqn:Cj;
      destruct (Nat.eqb k i) eqn:Ei; destruct (Nat.eqb k j) eqn:Ej;
      cbn; rewrite ?Ei, ?Ej, ?Ci, ?Cj; reflexivity.
  Qed.

  Lemma intersects_false regs c : intersects regs c = false -> forall k, mem k regs = true -> c k = false.
  Proof.
    unfold intersects, mem. intros H k Hk. apply existsb_exists in Hk. destruct Hk as [x [Hin E]].
    apply Nat.eqb_eq in E. subst x.
    destruct (c k) eqn:Ck; [|reflexivity].
    assert (existsb c regs = true) by (apply existsb_exists; exists k; auto). congruence.
  Qed.

  Lemma lightcone_agree gs : forall c_end s s',
    Forall wf_gate gs ->
    (forall k, snd (lightcone (map fst gs) c_end) k = true -> s k = s' k) ->
    forall k, c_end k = true ->
      run_all gs s k = run_cone gs (fst (lightcone (map fst gs) c_end)) s' k.
  Proof.
    induction gs as [|[g f] r IH]; intros c_end s s' Hwf Hag k Hk.
    - cbn in *. apply Hag. exact Hk.
    - inversion Hwf as [|? ? Hg Hr]; subst.
      cbn [map fst run_all lightcone] in Hag |- *.
      remember (lightcone (map fst r) c_end) as p eqn:EL. destruct p as [flags c].
      assert (IH' : forall s1 s1', (forall k, c k = true -> s1 k = s1' k) ->
                    run_all r s1 k = run_cone r flags s1' k).
      { intros s1 s1' H1. specialize (IH c_end s1 s1' Hr). rewrite <- EL in IH. cbn [fst snd] in IH. apply IH; assumption. }
      destruct g as [|i j|regs]; cbn [fst snd] in Hag, Hg |- *.
      + cbn [run_cone fst snd exec]. apply IH'. exact Hag.
      + cbn [run_cone fst snd exec]. apply IH'. intros m Hm. unfold exec; cbn [fst].
        apply Hag. rewrite swap_cone_spec.
        (* swap_idx is an involution *)
        replace (swap_idx i j (swap_idx i j m)) with m; [exact Hm|].
        unfold swap_idx. destruct (Nat.eqb m i) eqn:E1.
        * apply Nat.eqb_eq in E1. subst. destruct (Nat.eqb j i) eqn:E2; [apply Nat.eqb_eq in E2; congruence|].
          rewrite Nat.eqb_refl. reflexivity.
        * destruct (Nat.eqb m j) eqn:E2.
          -- apply Nat.eqb_eq in E2. subst. rewrite Nat.eqb_refl. reflexivity.
          -- rewrite E1, E2. reflexivity.
      + destruct Hg as [Hout Hin]. destruct (intersects regs c) eqn:EI; cbn [fst snd] in *.
        * cbn [run_cone fst snd]. apply IH'. intros m Hm. unfold exec; cbn [fst snd].
          destruct (mem m regs) eqn:Em.
          -- apply Hin; [|exact Em]. intros q Hq. apply Hag. unfold cunion. rewrite Hq. apply orb_true_r.
          -- rewrite !Hout by exact Em. apply Hag. unfold cunion. rewrite Hm. reflexivity.
        * cbn [run_cone fst snd]. apply IH'. intros m Hm. unfold exec; cbn [fst snd].
          destruct (mem m regs) eqn:Em.
          -- rewrite (intersects_false regs c EI m Em) in Hm. discriminate.
          -- rewrite Hout by exact Em. apply Hag. exact Hm.
  Qed.

  Theorem lightcone_dataflow_sound gs where_ s :
    Forall wf_gate gs ->
    forall k, mem k where_ = true ->
      run_all gs s k = run_cone gs (fst (lightcone (map fst gs) (cone_of where_))) s k.
  Proof. intros Hwf k Hk. apply lightcone_agree; auto. Qed.
End DataFlow.

(* C07 sub-model: (multi-)controlled gates.
   mctrl m d G is the gate G (dimension d) controlled on the LAST of m control
   configurations (m = 2^ncontrol, controls are the most significant qubits):
   block diagonal with G in the last d x d block.
   - it equals the two-term low-rank (CP) form that build_controlled_gate_htn /
     Gate.build_mpo assemble:  1 (x) ... (x) 1  +  |1..1><1..1| (x) (G - 1);
   - it is unitary whenever G is. *)
From Coq Require Import Reals List Arith Lia Ring PeanoNat Bool.
From QV Require Import Base.Sums C07.CMat.
Import ListNotations.
Close Scope R_scope.
Open Scope nat_scope.

Definition mctrl (m d : nat) (G : fmat) : fmat :=
  let off := (m - 1) * d in
  fun i j => if (i <? off) || (j <? off) then fid i j else G (i - off) (j - off).

Definition proj_last (m : nat) : fmat :=
  fun a b => if (a =? m - 1) && (b =? m - 1) then c1 else c0.

Lemma block_idx m d i : 0 < m -> 0 < d -> i < m * d ->
  (i < (m - 1) * d -> i / d < m - 1) /\
  ((m - 1) * d <= i -> i / d = m - 1 /\ i mod d = i - (m - 1) * d).
Proof.
  intros Hm Hd Hi. split.
  - intros H. apply Nat.div_lt_upper_bound; lia.
  - intros H. destruct (divmod_idx (m - 1) (i - (m - 1) * d) d) as [A B]; [nia|].
    replace ((m - 1) * d + (i - (m - 1) * d)) with i in * by lia. split; assumption.
Qed.

Lemma fid_shift off i j : off <= i -> off <= j -> fid i j = fid (i - off) (j - off).
Proof.
  intros Hi Hj. unfold fid.
  destruct (Nat.eqb i j) eqn:E; destruct (Nat.eqb (i - off) (j - off)) eqn:E'; try reflexivity.
  - apply Nat.eqb_eq in E. apply Nat.eqb_neq in E'. lia.
  - apply Nat.eqb_neq in E. apply Nat.eqb_eq in E'. lia.
Qed.

Theorem controlled_cp_identity m d G i j : 0 < m -> 0 < d -> i < m * d -> j < m * d ->
  mctrl m d G i j =
  cadd (fid i j) (fkron d (proj_last m) (fun a b => csub (G a b) (fid a b)) i j).
Proof.
  intros Hm Hd Hi Hj. unfold mctrl, fkron, proj_last.
  destruct (block_idx m d i Hm Hd Hi) as [Li Gi].
  destruct (block_idx m d j Hm Hd Hj) as [Lj Gj].
  destruct (i <? (m - 1) * d) eqn:Ei.
  - apply Nat.ltb_lt in Ei. specialize (Li Ei). cbn [orb].
    replace (i / d =? m - 1) with false by (symmetry; apply Nat.eqb_neq; lia).
    cbn [andb]. destruct (fid i j); unfold cadd, cmul, csub, c0; cbn [fst snd]; f_equal; ring.
  - apply Nat.ltb_ge in Ei. destruct (Gi Ei) as [Di Mi]. cbn [orb].
    destruct (j <? (m - 1) * d) eqn:Ej.
    + apply Nat.ltb_lt in Ej. specialize (Lj Ej).
      replace (j / d =? m - 1) with false by (symmetry; apply Nat.eqb_neq; lia).
      rewrite andb_false_r. destruct (fid i j); unfold cadd, cmul, csub, c0; cbn [fst snd]; f_equal; ring.
    + apply Nat.ltb_ge in Ej. destruct (Gj Ej) as [Dj Mj].
      rewrite Di, Dj, Mi, Mj, !Nat.eqb_refl. cbn [andb].
      rewrite (fid_shift ((m - 1) * d) i j Ei Ej).
      destruct (G (i - (m - 1) * d) (j - (m - 1) * d)), (fid (i - (m - 1) * d) (j - (m - 1) * d)).
      unfold cadd, cmul, csub, c1; cbn [fst snd]; f_equal; ring.
Qed.

Lemma csum_all_zero n f : (forall k, k < n -> f k = c0) -> csum n f = c0.
Proof. intros H. unfold csum. apply (sum_all_zero C c0 c1 cadd cmul csub copp C_ring). exact H. Qed.

Lemma cmul_0_l x : cmul c0 x = c0.
Proof. destruct x; unfold cmul, c0; cbn [fst snd]; f_equal; ring. Qed.
Lemma cmul_0_r x : cmul x c0 = c0.
Proof. destruct x; unfold cmul, c0; cbn [fst snd]; f_equal; ring. Qed.
Lemma cadd_0_l x : cadd c0 x = x.
Proof. destruct x; unfold cadd, c0; cbn [fst snd]; f_equal; ring. Qed.
Lemma cadd_0_r x : cadd x c0 = x.
Proof. destruct x; unfold cadd, c0; cbn [fst snd]; f_equal; ring. Qed.

Lemma fid_ne i j : i <> j -> fid i j = c0.
Proof. intros H. unfold fid. apply Nat.eqb_neq in H. rewrite H. reflexivity. Qed.

Theorem mctrl_unitary m d G : 0 < m -> 0 < d -> funitary d G -> funitary (m * d) (mctrl m d G).
Proof.
  intros Hm Hd HG i j Hi Hj.
  set (off := (m - 1) * d).
  assert (Emd : m * d = off + d) by (unfold off; nia).
  unfold fmul. unfold csum. rewrite Emd.
  rewrite (sum_app C c0 c1 cadd cmul csub copp C_ring off d).
  fold csum.
  (* part 1: rows below the last block are rows of the identity *)
  assert (P1 : csum off (fun k => cmul (fdag (mctrl m d G) i k) (mctrl m d G k j))
               = if (i <? off) && (j <? off) then fid i j else c0).
  { destruct (i <? off) eqn:Ei.
    - apply Nat.ltb_lt in Ei. cbn [andb].
      rewrite (cs_ext off _ (fun k => if Nat.eqb k i then mctrl m d G k j else c0)).
      + unfold csum. rewrite (cs_delta off i _ Ei). unfold mctrl. fold off.
        replace (i <? off) with true by (symmetry; apply Nat.ltb_lt; exact Ei). cbn [orb].
        destruct (j <? off) eqn:Ej; [reflexivity|]. apply Nat.ltb_ge in Ej. apply fid_ne. lia.
      + intros k Hk. unfold fdag, mctrl. fold off.
        replace (k <? off) with true by (symmetry; apply Nat.ltb_lt; exact Hk). cbn [orb].
        unfold fid at 1. destruct (Nat.eqb k i) eqn:E.
        * rewrite cconj_1. unfold cmul, c1; destruct (fid k j); cbn [fst snd]; f_equal; ring.
        * rewrite cconj_0. apply cmul_0_l.
    - apply Nat.ltb_ge in Ei. cbn [andb]. apply csum_all_zero. intros k Hk.
      unfold fdag, mctrl. fold off.
      replace (k <? off) with true by (symmetry; apply Nat.ltb_lt; exact Hk). cbn [orb].
      rewrite (fid_ne k i) by lia. rewrite cconj_0. apply cmul_0_l. }
  (* part 2: the last block *)
  assert (P2 : csum d (fun t => cmul (fdag (mctrl m d G) i (off + t)) (mctrl m d G (off + t) j))
               = if (i <? off) || (j <? off) then c0 else fid (i - off) (j - off)).
  { destruct (i <? off) eqn:Ei.
    - apply Nat.ltb_lt in Ei. cbn [orb]. apply csum_all_zero. intros t Ht.
      unfold fdag, mctrl. fold off.
      replace (i <? off) with true by (symmetry; apply Nat.ltb_lt; exact Ei). rewrite orb_true_r.
      rewrite (fid_ne (off + t) i) by lia. rewrite cconj_0. apply cmul_0_l.
    - apply Nat.ltb_ge in Ei. cbn [orb]. destruct (j <? off) eqn:Ej.
      + apply Nat.ltb_lt in Ej. apply csum_all_zero. intros t Ht.
        unfold fdag, mctrl. fold off.
        replace (j <? off) with true by (symmetry; apply Nat.ltb_lt; exact Ej). rewrite orb_true_r.
        rewrite (fid_ne (off + t) j) by lia. apply cmul_0_r.
      + apply Nat.ltb_ge in Ej.
        rewrite <- (HG (i - off) (j - off)) by lia.
        unfold fmul. apply cs_ext. intros t Ht.
        unfold fdag, mctrl. fold off.
        replace (off + t <? off) with false by (symmetry; apply Nat.ltb_ge; lia).
        replace (i <? off) with false by (symmetry; apply Nat.ltb_ge; exact Ei).
        replace (j <? off) with false by (symmetry; apply Nat.ltb_ge; exact Ej).
        cbn [orb]. replace (off + t - off) with t by lia. reflexivity. }
  rewrite P1, P2.
  destruct (i <? off) eqn:Ei; destruct (j <? off) eqn:Ej; cbn [andb orb].
  - apply cadd_0_r.
  - apply Nat.ltb_lt in Ei. apply Nat.ltb_ge in Ej. rewrite cadd_0_l. symmetry. apply fid_ne. lia.
  - apply Nat.ltb_ge in Ei. apply Nat.ltb_lt in Ej. rewrite cadd_0_l. symmetry. apply fid_ne. lia.
  - apply Nat.ltb_ge in Ei. apply Nat.ltb_ge in Ej. rewrite cadd_0_l. symmetry. apply fid_shift; assumption.
Qed.

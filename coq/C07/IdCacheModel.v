(* C07: caches keyed by the IDENTITY of a Python object (id(x)) - the cache-key /
   liveness discipline.  Definitions only.

   Modelled code (quimb/tensor/circuit/core.py):

       def _maybe_convert_gate_array(self, G):
           if not self.convert_eager: return G
           key = id(G)
           if key not in self._backend_gate_cache:
               self._backend_gate_cache[key] = (G, self._maybe_convert(G))   # the entry PINS G
           return self._backend_gate_cache[key][1]

       def copy(self): ... new._backend_gate_cache = self._backend_gate_cache   # ONE dict for the whole family
                           new._gates = self._gates.copy()

   id(x) is the address of x: it identifies x only while x is alive.  The heap
   below has an ADVERSARIAL allocator: a new object may be given any address
   that is not occupied by a live object, and an object may be freed at any
   time once nothing refers to it (the caller, the _gates list of a live
   simulator, or a cache entry that stores the object itself).  Contents of
   gate arrays are immutable (arrays are not modified in place after they were
   handed to a simulator - documented domain). *)
From Coq Require Import List Arith Bool ZArith.
Import ListNotations.

Record ientry := { ie_key : nat;     (* id(G) at insertion *)
                   ie_pin : bool;    (* does the entry hold G itself (directly, or through a view's .base) ? *)
                   ie_val : Z }.     (* the converted array *)

Record ist := { heap : list (nat * Z);              (* live objects: address -> contents *)
                user : list nat;                    (* references held by the caller *)
                circs : list (option (list nat));   (* simulators of the family (None = dropped): arrays held by _gates *)
                cache : list ientry }.              (* the dict shared by reference by every copy *)

Inductive iev :=
| IAlloc (a : nat) (v : Z)             (* the caller creates an array with contents v; the allocator answers address a *)
| IDropUser (a : nat)                  (* the caller drops its reference(s) to a *)
| IGc (a : nat)                        (* the object at a is freed *)
| IApply (c a : nat) (acc : bool)      (* simulator c is handed the array a: _maybe_convert_gate_array, then the gate is
                                          applied - accepted (appended to _gates) or rejected (raises, not appended) *)
| ICopy (c : nat)                      (* c.copy() *)
| IDrop (c : nat).                     (* simulator c is dropped; the dict dies with the last simulator of the family *)

Record iout := { o_hit : bool; o_ans : Z; o_want : Z }.   (* o_want = conversion of the contents of the array handed in *)

Definition memb (a : nat) (l : list nat) : bool := existsb (Nat.eqb a) l.

Fixpoint hfind (a : nat) (h : list (nat * Z)) : option Z :=
  match h with [] => None | (k, v) :: t => if Nat.eqb k a then Some v else hfind a t end.
Definition hdel (a : nat) (h : list (nat * Z)) : list (nat * Z) := filter (fun p => negb (Nat.eqb (fst p) a)) h.

Fixpoint cfind (a : nat) (c : list ientry) : option ientry :=
  match c with [] => None | e :: t => if Nat.eqb (ie_key e) a then Some e else cfind a t end.

Definition held (a : nat) (cs : list (option (list nat))) : bool :=
  existsb (fun oc => match oc with Some l => memb a l | None => false end) cs.
Definition pinned (a : nat) (c : list ientry) : bool := existsb (fun e => ie_pin e && Nat.eqb (ie_key e) a) c.
Definition rooted (s : ist) (a : nat) : bool := memb a (user s) || held a (circs s) || pinned a (cache s).

Fixpoint iset_nth {A} (i : nat) (x : A) (l : list A) : list A :=
  match l, i with
  | [], _ => []
  | _ :: t, 0 => x :: t
  | y :: t, S i' => y :: iset_nth i' x t
  end.

Definition any_live (cs : list (option (list nat))) : bool :=
  existsb (fun oc => match oc with Some _ => true | None => false end) cs.

(* one event; None = the event is impossible in this state (address occupied, object still referenced, array not held
   by the caller, simulator dropped); `pin` = does the code store the original in the entry; `conv` = the conversion *)
Definition istep (conv : Z -> Z) (pin : bool) (s : ist) (e : iev) : option (ist * option iout) :=
  match e with
  | IAlloc a v =>
      match hfind a (heap s) with
      | Some _ => None
      | None => Some ({| heap := (a, v) :: heap s; user := a :: user s; circs := circs s; cache := cache s |}, None)
      end
  | IDropUser a =>
      Some ({| heap := heap s; user := filter (fun x => negb (Nat.eqb x a)) (user s); circs := circs s; cache := cache s |}, None)
  | IGc a =>
      if rooted s a then None
      else match hfind a (heap s) with
           | None => None
           | Some _ => Some ({| heap := hdel a (heap s); user := user s; circs := circs s; cache := cache s |}, None)
           end
  | IApply c a acc =>
      if negb (memb a (user s)) then None
      else match hfind a (heap s), nth_error (circs s) c with
           | Some v, Some (Some l) =>
               let cs' := if acc then iset_nth c (Some (l ++ [a])) (circs s) else circs s in
               match cfind a (cache s) with
               | Some en =>
                   Some ({| heap := heap s; user := user s; circs := cs'; cache := cache s |},
                         Some {| o_hit := true; o_ans := ie_val en; o_want := conv v |})
               | None =>
                   Some ({| heap := heap s; user := user s; circs := cs';
                            cache := cache s ++ [{| ie_key := a; ie_pin := pin; ie_val := conv v |}] |},
                         Some {| o_hit := false; o_ans := conv v; o_want := conv v |})
               end
           | _, _ => None
           end
  | ICopy c =>
      match nth_error (circs s) c with
      | Some (Some l) => Some ({| heap := heap s; user := user s; circs := circs s ++ [Some l]; cache := cache s |}, None)
      | _ => None
      end
  | IDrop c =>
      match nth_error (circs s) c with
      | Some (Some _) =>
          let cs' := iset_nth c None (circs s) in
          Some ({| heap := heap s; user := user s; circs := cs'; cache := if any_live cs' then cache s else [] |}, None)
      | _ => None
      end
  end.

Fixpoint irun (conv : Z -> Z) (pin : bool) (s : ist) (evs : list iev) : option (ist * list iout) :=
  match evs with
  | [] => Some (s, [])
  | e :: r =>
      match istep conv pin s e with
      | None => None
      | Some (s', o) =>
          match irun conv pin s' r with
          | None => None
          | Some (s'', os) => Some (s'', match o with Some x => x :: os | None => os end)
          end
      end
  end.

Definition iinit : ist := {| heap := []; user := []; circs := [Some []]; cache := [] |}.

(* histories on which even an entry that does NOT pin its key object stays valid: no simulator is ever dropped and no
   gate is rejected, so the _gates list of a live simulator holds every array that was ever converted *)
Definition gentle (pin : bool) (e : iev) : bool :=
  pin || match e with IDrop _ => false | IApply _ _ acc => acc | _ => true end.

(* ---- executable correspondence check ---------------------------------------------------------------------------- *)
(* observation after one event: for IApply (hit, content tag of the converted array that was returned); and - after
   the last event of every operation of the program - the dict's (key, pins-its-key-object) listing in insertion order
   and the sorted addresses of the live arrays of the program *)
Definition iobs := (option (list (nat * bool) * list nat) * option (bool * Z))%type.

Fixpoint listing_eqb (a b : list (nat * bool)) : bool :=
  match a, b with
  | [], [] => true
  | (k, p) :: a', (k', p') :: b' => Nat.eqb k k' && Bool.eqb p p' && listing_eqb a' b'
  | _, _ => false
  end.
Fixpoint natl_eqb (a b : list nat) : bool :=
  match a, b with [], [] => true | x :: a', y :: b' => Nat.eqb x y && natl_eqb a' b' | _, _ => false end.
Definition out_eqb (o : option iout) (p : option (bool * Z)) : bool :=
  match o, p with
  | None, None => true
  | Some x, Some (h, t) => Bool.eqb (o_hit x) h && Z.eqb (o_ans x) t
  | _, _ => false
  end.
Fixpoint iins_sorted (x : nat) (l : list nat) : list nat :=
  match l with [] => [x] | y :: t => if Nat.leb x y then x :: l else y :: iins_sorted x t end.
Definition isort (l : list nat) : list nat := fold_right iins_sorted [] l.

Definition state_eqb (s : ist) (o : option (list (nat * bool) * list nat)) : bool :=
  match o with
  | None => true
  | Some (kl, live) => listing_eqb (map (fun en => (ie_key en, ie_pin en)) (cache s)) kl
                       && natl_eqb (isort (map fst (heap s))) live
  end.

(* the model (pin = true: the code as it stands, conv = identity on content tags) reproduces every observation *)
Fixpoint icheck (s : ist) (tr : list (iev * iobs)) : bool :=
  match tr with
  | [] => true
  | (e, (so, oo)) :: r =>
      match istep (fun z => z) true s e with
      | None => false
      | Some (s', o) => state_eqb s' so && out_eqb o oo && icheck s' r
      end
  end.

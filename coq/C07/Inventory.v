(* C07: the regenerated mutator inventory (C07/Mutators.v) satisfies the
   coverage obligation, hence the cache-freshness theorem applies to every
   history built from the inventoried mutators. *)
From Coq Require Import List Arith Bool ZArith String.
From QV Require Import C07.Model C07.Proofs C07.Mutators.
Import ListNotations.

Lemma inventory_covered : forallb (fun p => covered (snd p)) mutators = true.
Proof. vm_compute. reflexivity. Qed.

Lemma cache_fresh_inventory : forall ops,
  Forall (fun o => match o with Mut m => In m (map snd mutators) | _ => True end) ops ->
  Forall (fun e => e_value e = e_now e) (snd (run init_st ops)).
Proof.
  intros ops H. apply cache_fresh_all.
  apply forallb_forall. intros o Ho. rewrite Forall_forall in H. specialize (H o Ho).
  destruct o as [m|ks|N qs og groups bits sq atol]; cbn; try reflexivity.
  apply in_map_iff in H. destruct H as [[name m'] [E Hin]]. cbn in E. subst m'.
  pose proof inventory_covered as C. rewrite forallb_forall in C. exact (C _ Hin).
Qed.

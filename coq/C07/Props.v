(* C07 property theorems (statements only; proofs in C07/GateProofs.v, C07/Proofs.v).
   g_* are the gate matrices REGENERATED from quimb/tensor/circuit/gates.py on every
   run (C07/GatesGen.v); `mutators` is the inventory REGENERATED from the circuit
   classes' source (C07/Mutators.v).
   unitary n M  :=  forall i j < n, (M^dagger M) i j = delta i j   over Coq's reals
   (complex numbers are pairs of reals).  The gate theorems depend on the standard
   library's real-number axioms only; the tracker and cache theorems are closed. *)
From Coq Require Import Reals List Arith Bool ZArith Permutation String.
From QV Require Import Base.Sums C07.CMat C07.Ctrl C07.GatesGen C07.GateProofs C07.Model C07.Proofs C07.TrackerG C07.Mutators C07.Inventory C07.LightconeModel C07.Lightcone C07.RecordModel C07.Record C07.IdCacheModel C07.IdCache C07.IdCacheSites.
Import ListNotations.
Close Scope R_scope.
Open Scope nat_scope.

(* ---- (1) the gate vocabulary is unitary for ALL parameter values ---------- *)
Theorem C07_constant_one_qubit_gates_unitary :
  (unitary 2 (g_H))
  /\ (unitary 2 (g_HZ_1_2))
  /\ (unitary 2 (g_IDEN))
  /\ (unitary 2 (g_S))
  /\ (unitary 2 (g_SDG))
  /\ (unitary 2 (g_SX))
  /\ (unitary 2 (g_SXDG))
  /\ (unitary 2 (g_T))
  /\ (unitary 2 (g_TDG))
  /\ (unitary 2 (g_W_1_2))
  /\ (unitary 2 (g_X))
  /\ (unitary 2 (g_X_1_2))
  /\ (unitary 2 (g_Y))
  /\ (unitary 2 (g_Y_1_2))
  /\ (unitary 2 (g_Z))
  /\ (unitary 2 (g_Z_1_2)).
Proof.
  repeat split; first [exact g_H_unitary | exact g_HZ_1_2_unitary | exact g_IDEN_unitary | exact g_S_unitary | exact g_SDG_unitary | exact g_SX_unitary | exact g_SXDG_unitary | exact g_T_unitary | exact g_TDG_unitary | exact g_W_1_2_unitary | exact g_X_unitary | exact g_X_1_2_unitary | exact g_Y_unitary | exact g_Y_1_2_unitary | exact g_Z_unitary | exact g_Z_1_2_unitary].
Qed.
Print Assumptions C07_constant_one_qubit_gates_unitary.

Theorem C07_constant_multi_qubit_gates_unitary :
  (unitary 8 (g_CCNOT))
  /\ (unitary 8 (g_CCX))
  /\ (unitary 8 (g_CCY))
  /\ (unitary 8 (g_CCZ))
  /\ (unitary 4 (g_CNOT))
  /\ (unitary 8 (g_CSWAP))
  /\ (unitary 4 (g_CX))
  /\ (unitary 4 (g_CY))
  /\ (unitary 4 (g_CZ))
  /\ (unitary 8 (g_FREDKIN))
  /\ (unitary 4 (g_IS))
  /\ (unitary 4 (g_ISWAP))
  /\ (unitary 4 (g_SWAP))
  /\ (unitary 8 (g_TOFFOLI)).
Proof.
  repeat split; first [exact g_CCNOT_unitary | exact g_CCX_unitary | exact g_CCY_unitary | exact g_CCZ_unitary | exact g_CNOT_unitary | exact g_CSWAP_unitary | exact g_CX_unitary | exact g_CY_unitary | exact g_CZ_unitary | exact g_FREDKIN_unitary | exact g_IS_unitary | exact g_ISWAP_unitary | exact g_SWAP_unitary | exact g_TOFFOLI_unitary].
Qed.
Print Assumptions C07_constant_multi_qubit_gates_unitary.

Theorem C07_param_one_qubit_gates_unitary :
  (forall p0, unitary 2 (g_PHASE p0))
  /\ (forall p0, unitary 2 (g_RX p0))
  /\ (forall p0, unitary 2 (g_RY p0))
  /\ (forall p0, unitary 2 (g_RZ p0))
  /\ (forall p0, unitary 2 (g_U1 p0))
  /\ (forall p0 p1, unitary 2 (g_U2 p0 p1))
  /\ (forall p0 p1 p2, unitary 2 (g_U3 p0 p1 p2)).
Proof.
  repeat split; first [exact g_PHASE_unitary | exact g_RX_unitary | exact g_RY_unitary | exact g_RZ_unitary | exact g_U1_unitary | exact g_U2_unitary | exact g_U3_unitary].
Qed.
Print Assumptions C07_param_one_qubit_gates_unitary.

Theorem C07_param_two_qubit_gates_unitary :
  (forall p0, unitary 4 (g_CPHASE p0))
  /\ (forall p0, unitary 4 (g_CRX p0))
  /\ (forall p0, unitary 4 (g_CRY p0))
  /\ (forall p0, unitary 4 (g_CRZ p0))
  /\ (forall p0, unitary 4 (g_CU1 p0))
  /\ (forall p0 p1, unitary 4 (g_CU2 p0 p1))
  /\ (forall p0 p1 p2, unitary 4 (g_CU3 p0 p1 p2))
  /\ (forall p0 p1, unitary 4 (g_FS p0 p1))
  /\ (forall p0 p1, unitary 4 (g_FSIM p0 p1))
  /\ (forall p0 p1 p2 p3 p4, unitary 4 (g_FSIMG p0 p1 p2 p3 p4))
  /\ (forall p0, unitary 4 (g_GIVENS p0))
  /\ (forall p0 p1, unitary 4 (g_GIVENS2 p0 p1))
  /\ (forall p0, unitary 4 (g_RXX p0))
  /\ (forall p0, unitary 4 (g_RYY p0))
  /\ (forall p0, unitary 4 (g_RZZ p0))
  /\ (forall p0 p1, unitary 4 (g_XXMINUSYY p0 p1))
  /\ (forall p0 p1, unitary 4 (g_XXPLUSYY p0 p1)).
Proof.
  repeat split; first [exact g_CPHASE_unitary | exact g_CRX_unitary | exact g_CRY_unitary | exact g_CRZ_unitary | exact g_CU1_unitary | exact g_CU2_unitary | exact g_CU3_unitary | exact g_FS_unitary | exact g_FSIM_unitary | exact g_FSIMG_unitary | exact g_GIVENS_unitary | exact g_GIVENS2_unitary | exact g_RXX_unitary | exact g_RYY_unitary | exact g_RZZ_unitary | exact g_XXMINUSYY_unitary | exact g_XXPLUSYY_unitary].
Qed.
Print Assumptions C07_param_two_qubit_gates_unitary.

Theorem C07_su4_gate_unitary : forall p0 p1 p2 p3 p4 p5 p6 p7 p8 p9 p10 p11 p12 p13 p14 : R,
  funitary 4 (g_SU4 p0 p1 p2 p3 p4 p5 p6 p7 p8 p9 p10 p11 p12 p13 p14).
Proof. exact g_SU4_unitary. Qed.
Print Assumptions C07_su4_gate_unitary.

(* products and Kronecker products of unitaries are unitary (circuits of
   registered gates, gates embedded next to identities) *)
Theorem C07_unitaries_closed_under_product_and_kron :
  (forall n A B, funitary n A -> funitary n B -> funitary n (fmul n A B))
  /\ (forall n m A B, (0 < m)%nat -> funitary n A -> funitary m B -> funitary (n * m) (fkron m A B))
  /\ (forall n, funitary n fid).
Proof. exact (conj funitary_mul (conj funitary_kron fid_unitary)). Qed.
Print Assumptions C07_unitaries_closed_under_product_and_kron.

(* (multi-)controlled gates: mctrl m d G = G on the last of m = 2^ncontrol control
   configurations (block diagonal).  It equals the two-term low-rank form assembled by
   build_controlled_gate_htn / Gate.build_mpo,  1 + |1..1><1..1| (x) (G - 1),  and is
   unitary whenever G is. *)
Theorem C07_controlled_gate_is_low_rank_sum : forall m d G i j, 0 < m -> 0 < d -> i < m * d -> j < m * d ->
  mctrl m d G i j = cadd (fid i j) (fkron d (proj_last m) (fun a b => csub (G a b) (fid a b)) i j).
Proof. exact controlled_cp_identity. Qed.
Print Assumptions C07_controlled_gate_is_low_rank_sum.

Theorem C07_controlled_gate_unitary : forall m d G, 0 < m -> 0 < d -> funitary d G -> funitary (m * d) (mctrl m d G).
Proof. exact mctrl_unitary. Qed.
Print Assumptions C07_controlled_gate_unitary.

(* ---- (2) CircuitPermMPS: the qubit tracker ------------------------------------ *)
(* perm_step_g is the complete step of _apply_gate (since /repo 34d08a81 + de0b2923): an
   uncontrolled SWAP exchanges two entries (relabelling, no MPS operation), an uncontrolled
   two-qubit gate does pop j / insert i+1 (committed after the gate succeeded), every other
   gate - one / three qubits, any controlled gate - leaves the tracker alone; gate.qubits and
   gate.controls are both mapped to physical sites. *)

(* the `qubits` list stays a permutation of range(N) for every gate sequence *)
Theorem C07_tracker_stays_permutation : forall N gates qs qs',
  Permutation qs (seq 0 N) -> perm_run_g qs gates = Some qs' -> Permutation qs' (seq 0 N).
Proof. exact perm_run_g_perm. Qed.
Print Assumptions C07_tracker_stays_permutation.

(* a gate on qubits of the register (a SWAP naming two of them) is never rejected by the tracker *)
Theorem C07_tracker_accepts_register_gates : forall N qs g,
  Permutation qs (seq 0 N) -> Forall (fun q => q < N) (pg_qubits g) -> Forall (fun q => q < N) (pg_ctrl g) ->
  (pg_swap g = true -> List.length (pg_qubits g) = 2) ->
  exists r, perm_step_g qs g = Some r.
Proof. exact perm_step_g_total. Qed.
Print Assumptions C07_tracker_accepts_register_gates.

(* logical qubit q sits at exactly one physical site, the one list.index reports *)
Theorem C07_tracker_locates_each_qubit : forall N qs q, Permutation qs (seq 0 N) -> q < N ->
  exists p, index q qs = Some p /\ p < N /\ nth p qs 0 = q
            /\ forall p', p' < N -> nth p' qs 0 = q -> p' = p.
Proof. exact tracker_locates. Qed.
Print Assumptions C07_tracker_locates_each_qubit.

(* refinement: run the tracker and the MPS side together from any duplicate-free start
   (contents = which logical qubit's state each site holds).  After every gate the tracker
   equals the contents; an uncontrolled two-qubit gate goes through
   gate_with_auto_swap(swap_back=False) (adjacent swaps j-1, ..., i+1, then the gate on
   final_gate_where) and acts on the sites holding its two qubits in the gate's order; every
   other non-SWAP gate acts on the sites holding its targets AND its controls; a SWAP moves
   no site and afterwards each of its two qubits is located where the other one was - for
   every gate sequence whose gates name pairwise different target qubits. *)
Theorem C07_tracker_refines_mps_site_contents : forall gates tr,
  NoDup tr -> Forall (fun g => NoDup (pg_qubits g)) gates -> sim_ok_g tr tr gates.
Proof. exact sim_run_g_ok. Qed.
Print Assumptions C07_tracker_refines_mps_site_contents.

(* ---- reverse light cone (get_reverse_lightcone_tags): data-flow soundness ------ *)
(* Gates are ARBITRARY local update functions on wire values (a gate reads and writes
   only its registers = controls and targets), SWAP exchanges two wires and is always in
   effect (lazy re-indexing), IDEN does nothing.  The values on the wires of `where` after
   the whole circuit equal those after only the gates the light cone keeps - for every
   circuit, every `where`, every input.  (Classical non-interference reading of light-cone
   cancellation; the quantum statement - unitaries outside the cone cancel in the reduced
   density operator - is not proved: hence _partial.) *)
Theorem C07_lightcone_dataflow_sound_partial :
  forall (V : Type) (gs : list (sgate V)) (where_ : list nat) (s : wires V),
  Forall (wf_gate V) gs ->
  forall k, mem k where_ = true ->
    run_all V gs s k = run_cone V gs (fst (lightcone (map fst gs) (cone_of where_))) s k.
Proof. exact lightcone_dataflow_sound. Qed.
Print Assumptions C07_lightcone_dataflow_sound_partial.

(* ---- ownership of the canonical-form record of the MPS simulators -------------- *)
(* Simulators hold an MPS (abstracted to its true centre) and a reference to an info dict
   recording the centre.  For every history of gates / canonicalising queries (RTouch), queries
   that canonicalise a converted copy together with a COPY of the record (RQueryOnCopy =
   local_expectation(dtype=...) / convert_eager=False since fcc41fff) and deep copies
   (RCopyDeep = CircuitBase.copy with tree_map) on ANY of the simulators: no two
   simulators share an info dict and every record is true - whatever is done to a copy
   leaves the original's record (hence its canonical shortcuts) right, and vice versa. *)
Theorem C07_mps_records_owned_and_true : forall c ops, forallb sound_op ops = true ->
  let w := rrun (init_world c) ops in
  NoDup (map s_info (sims w)) /\ all_records_true w = true.
Proof. exact records_owned_and_true. Qed.
Print Assumptions C07_mps_records_owned_and_true.

(* deep copying is necessary: with a shared info dict an operation on the copy falsifies
   the original's record *)
Theorem C07_record_needs_deep_copy :
  all_records_true (rrun (init_world 2) [RCopyShallow 0; RTouch 1 5]) = false.
Proof. exact shallow_copy_breaks_record. Qed.
Print Assumptions C07_record_needs_deep_copy.

(* the copied record is necessary: the pre-fcc41fff dtype / convert_eager=False path (a copy of the
   MPS is canonicalised but the simulator's OWN record is written) falsifies the record *)
Theorem C07_record_needs_copied_record_for_converted_query :
  all_records_true (rrun (init_world 2) [RTouchCopyOnly 0 0]) = false.
Proof. exact touch_copy_only_breaks_record. Qed.
Print Assumptions C07_record_needs_copied_record_for_converted_query.

(* ---- (3) caches are never stale ------------------------------------------------ *)

(* every mutator found in the source either appends to self._gates (num_gates
   changes) or is followed by clear_storage() *)
Theorem C07_mutator_inventory_covered : forallb (fun p => covered (snd p)) mutators = true.
Proof. vm_compute. reflexivity. Qed.
Print Assumptions C07_mutator_inventory_covered.

(* for every history of covered mutators, queries and sampler passes, every
   cache answer - hit or miss - is the value computed from the current
   (gates, params, psi) *)
Theorem C07_cache_fresh : forall ops, forallb op_covered ops = true ->
  Forall (fun e => e_value e = e_now e) (snd (run init_st ops)).
Proof. exact cache_fresh_all. Qed.
Print Assumptions C07_cache_fresh.

(* ... in particular for histories built from the inventoried mutators *)
Theorem C07_cache_fresh_for_inventory : forall ops,
  Forall (fun o => match o with Mut m => In m (map snd mutators) | _ => True end) ops ->
  Forall (fun e => e_value e = e_now e) (snd (run init_st ops)).
Proof. exact cache_fresh_inventory. Qed.
Print Assumptions C07_cache_fresh_for_inventory.

(* the key of a memoised conditional marginal determines the conditioning event: equal keys mean the
   same target group and the same (qubit, outcome) conditions, so a hit can never return the
   conditional of another event (together with C07_cache_fresh: of another circuit either) *)
Theorem C07_conditional_key_determines_event : forall w f w' f', cond_key w f = cond_key w' f' ->
  w = w' /\ forall q b, In (q, b) f <-> In (q, b) f'.
Proof. exact cond_key_determines_event. Qed.
Print Assumptions C07_conditional_key_determines_event.

(* a key made of the outcome bits only (without the qubit labels) does not: different events collide *)
Theorem C07_bits_only_conditional_key_collides :
  cond_key_bits [2] [(0, 1)] = cond_key_bits [2] [(1, 1)] /\ cond_key [2] [(0, 1)] <> cond_key [2] [(1, 1)].
Proof. exact bits_only_key_collides. Qed.
Print Assumptions C07_bits_only_conditional_key_collides.

(* the coverage hypothesis is necessary: a mutator that changes the circuit
   without changing num_gates or clearing produces a stale hit *)
Theorem C07_uncovered_mutator_gives_stale_hit :
  exists e, In e (snd (run init_st [Query [KPsi 0 0]; Mut bad_mut; Query [KPsi 0 0]]))
            /\ e_hit e = true /\ e_value e <> e_now e.
Proof. exact uncovered_mutator_stale. Qed.
Print Assumptions C07_uncovered_mutator_gives_stale_hit.

(* ---- (3c) caches keyed by the IDENTITY of an object (id(G)): key / liveness discipline ---------- *)
(* model: coq/C07/IdCacheModel.v - a heap whose allocator may hand out ANY address not occupied by a live
   object and free any object nothing refers to; simulators of one family (a circuit and its copies) share one
   dict keyed by address; gates are accepted (array kept in _gates) or rejected after the conversion *)

(* every use of id() found in the circuit modules (regenerated inventory, C07/IdCacheSites.v) stores the object
   itself next to its id: the key cannot outlive the object it names *)
Theorem C07_idcache_sites_store_their_key_object : forallb site_pins idkey_sites = true.
Proof. vm_compute. reflexivity. Qed.
Print Assumptions C07_idcache_sites_store_their_key_object.

(* the code as it stands (the entry stores the original array): for EVERY history of allocations, dropped
   references, frees, copies, dropped simulators, accepted and rejected gates - and every allocator - the array
   returned for G is the conversion of G, hit or miss *)
Theorem C07_idcache_pinned_entries_fresh : forall conv evs s' outs,
  irun conv true iinit evs = Some (s', outs) -> Forall (fun o => o_ans o = o_want o) outs.
Proof. exact idcache_fresh_pinned. Qed.
Print Assumptions C07_idcache_pinned_entries_fresh.

(* general form: an entry that does NOT store its key object is still safe on histories without dropped
   simulators and without rejected gates (the _gates list of a live simulator keeps every converted array alive)
   - the only histories the library's own tests exercise *)
Theorem C07_idcache_fresh_without_drops_and_rejections : forall conv pin evs s' outs,
  forallb (gentle pin) evs = true -> irun conv pin iinit evs = Some (s', outs) ->
  Forall (fun o => o_ans o = o_want o) outs.
Proof. exact idcache_fresh_gentle. Qed.
Print Assumptions C07_idcache_fresh_without_drops_and_rejections.

(* the key object of a pinning entry cannot be freed while the entry lives *)
Theorem C07_idcache_pinned_object_never_freed : forall conv s a s' o,
  pinned a (cache s) = true -> istep conv true s (IGc a) <> Some (s', o).
Proof. exact pinned_never_freed. Qed.
Print Assumptions C07_idcache_pinned_object_never_freed.

(* pinning is necessary: without it a short-lived copy, or a gate rejected after the conversion, followed by a
   fresh array at the recycled address gives a HIT that returns the conversion of the dead array *)
Theorem C07_idcache_unpinned_entry_gives_stale_hit : forall evs, evs = stale_by_copy \/ evs = stale_by_rejection ->
  exists s' outs o, irun (fun z => z) false iinit evs = Some (s', outs) /\ In o outs
                    /\ o_hit o = true /\ o_ans o <> o_want o.
Proof. exact unpinned_stale. Qed.
Print Assumptions C07_idcache_unpinned_entry_gives_stale_hit.

(* ... and the same two histories cannot happen when entries pin (the allocator may not reuse the address) *)
Theorem C07_idcache_pinning_blocks_recycling :
  irun (fun z => z) true iinit stale_by_copy = None /\ irun (fun z => z) true iinit stale_by_rejection = None.
Proof. exact pinned_blocks_recycling. Qed.
Print Assumptions C07_idcache_pinning_blocks_recycling.

Example C07_examples :
  perm_trace [0; 1; 2; 3] [[0; 3]; [2]; [1; 2]; [3; 0]] = [[0; 3; 1; 2]; [0; 3; 1; 2]; [0; 3; 1; 2]; [0; 3; 1; 2]]
  /\ perm_trace_g [0; 1; 2; 3] [{| pg_swap := false; pg_ctrl := []; pg_qubits := [0; 3] |};
                                  {| pg_swap := true; pg_ctrl := []; pg_qubits := [0; 2] |};
                                  {| pg_swap := false; pg_ctrl := [3]; pg_qubits := [1; 0] |}]
     = [([0; 3; 1; 2], [0; 3], []); ([2; 3; 1; 0], [0; 3], []); ([2; 3; 1; 0], [2; 3], [1])]
  /\ perm_step [0; 1; 2; 3; 4] [4; 1] = Some ([0; 1; 4; 2; 3], [4; 1])
  /\ auto_swap [0; 1; 2; 3; 4] 4 1 = ([0; 1; 4; 2; 3], (2, 1))
  /\ lightcone_tags [LGate [0]; LGate [1; 2]; LSwap 0 1; LGate [2]; LIden; LGate [0; 3]] [0] = [1; 5]
  /\ q_marginal 3 [1] [(0, 1); (2, 0)] 0 1 = [KPsi 0 1]
  /\ q_marginal 3 [2] [(0, 1)] 0 1 = [KRdm [0; 2] 0 1]
  /\ map e_hit (snd (run init_st [Query (q_psi 0 0); Query (q_psi 0 0); Mut {| m_world := true; m_append := 1; m_clear := false |}; Query (q_psi 0 0)]))
     = [false; true; false]
  /\ option_map (fun r => map (fun o => (o_hit o, o_ans o)) (snd r))
       (irun (fun z => z) true iinit [IAlloc 7 1; ICopy 0; IApply 1 7 true; IDrop 1; IDropUser 7; IAlloc 8 2; IApply 0 8 false; IApply 0 8 true])
     = Some [(false, 1%Z); (false, 2%Z); (true, 2%Z)].
Proof. vm_compute. repeat split. Qed.

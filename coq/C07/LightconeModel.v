(* C07: executable model of Circuit.get_reverse_lightcone_tags (exact.py:215-269). *)
From Coq Require Import List Arith Bool.
Import ListNotations.

(* what the loop distinguishes: IDEN is skipped, SWAP exchanges cone membership,
   every other gate (controls and targets together) joins the cone when it touches it *)
Inductive lgate :=
| LIden
| LSwap (i j : nat)
| LGate (regs : list nat).     (* {*gate.controls, *gate.qubits} *)

Definition cone := nat -> bool.
Definition mem (k : nat) (l : list nat) : bool := existsb (Nat.eqb k) l.
Definition cone_of (l : list nat) : cone := fun k => mem k l.
Definition cadd_ (c : cone) (x : nat) : cone := fun k => if Nat.eqb k x then true else c k.       (* cone.add(x) *)
Definition cdiscard (c : cone) (x : nat) : cone := fun k => if Nat.eqb k x then false else c k.  (* cone.discard(x) *)
Definition cunion (c : cone) (l : list nat) : cone := fun k => c k || mem k l.                   (* cone |= regs *)
Definition intersects (l : list nat) (c : cone) : bool := existsb c l.                           (* regs & cone *)

(*  i_in_cone = i in cone; j_in_cone = j in cone
    if i_in_cone: cone.add(j) else: cone.discard(j)
    if j_in_cone: cone.add(i) else: cone.discard(i)   *)
Definition swap_cone (i j : nat) (c : cone) : cone :=
  let i_in := c i in let j_in := c j in
  let c1 := if i_in then cadd_ c j else cdiscard c j in
  if j_in then cadd_ c1 i else cdiscard c1 i.

(* processes the gates from the last to the first (reversed(enumerate(gates))):
   returns for every gate whether its tag is in the light cone, and the cone at the input *)
Fixpoint lightcone (gs : list lgate) (c_end : cone) : list bool * cone :=
  match gs with
  | [] => ([], c_end)
  | g :: r =>
      let '(flags, c) := lightcone r c_end in
      match g with
      | LIden => (false :: flags, c)
      | LSwap i j => (false :: flags, swap_cone i j c)
      | LGate regs => if intersects regs c then (true :: flags, cunion c regs) else (false :: flags, c)
      end
  end.

Fixpoint true_positions (n : nat) (fl : list bool) : list nat :=
  match fl with
  | [] => []
  | b :: r => if b then n :: true_positions (S n) r else true_positions (S n) r
  end.

(* the gate numbers whose tags GATE_i are returned (after "PSI0"), ascending *)
Definition lightcone_tags (gs : list lgate) (where_ : list nat) : list nat :=
  true_positions 0 (fst (lightcone gs (cone_of where_))).

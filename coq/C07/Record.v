(* C07: with deep copies every simulator OWNS its record, so whatever is done to
   one simulator (gates, canonicalising queries, further copies) leaves the
   record of every other simulator true.  Witnesses: a shallow copy, and a query
   that canonicalises a copy of the MPS but writes the simulator's record, both
   falsify a record. *)
From Coq Require Import List Arith Bool Lia.
From QV Require Import C07.RecordModel.
Import ListNotations.

Definition RInv (w : world) : Prop :=
  NoDup (map s_info (sims w))
  /\ (forall s, In s (sims w) -> s_info s < next w)
  /\ (forall s, In s (sims w) -> hget (s_info s) (cells w) = Some (s_ctr s))
  /\ (forall a v, hget a (cells w) = Some v -> a < next w).

Lemma hget_hset_same a v h : hget a (hset a v h) = Some v.
Proof.
  induction h as [|[k w] t IH]; cbn; [rewrite Nat.eqb_refl; reflexivity|].
  destruct (Nat.eqb k a) eqn:E; cbn; rewrite E; [reflexivity | exact IH].
Qed.

Lemma hget_hset_other a b v h : a <> b -> hget b (hset a v h) = hget b h.
Proof.
  intros Hab. induction h as [|[k w] t IH]; cbn.
  - destruct (Nat.eqb a b) eqn:E; [apply Nat.eqb_eq in E; congruence | reflexivity].
  - destruct (Nat.eqb k a) eqn:E; cbn.
    + apply Nat.eqb_eq in E. subst k. destruct (Nat.eqb a b) eqn:E2; [apply Nat.eqb_eq in E2; congruence | reflexivity].
    + destruct (Nat.eqb k b); [reflexivity | exact IH].
Qed.

Lemma hget_hset_bound a v h b x n : a < n -> (forall c y, hget c h = Some y -> c < n) ->
  hget b (hset a v h) = Some x -> b < n.
Proof.
  intros Ha Hh H. destruct (Nat.eq_dec a b) as [->|Hne]; [exact Ha|].
  rewrite hget_hset_other in H by exact Hne. exact (Hh _ _ H).
Qed.

Lemma hget_app_fresh h a v b : hget a h = None -> hget b (h ++ [(a, v)]) = if Nat.eqb a b then (match hget b h with Some x => Some x | None => Some v end) else hget b h.
Proof.
  intros Hn. induction h as [|[k w] t IH]; cbn in *.
  - destruct (Nat.eqb a b); reflexivity.
  - destruct (Nat.eqb k a) eqn:E; [discriminate|].
    destruct (Nat.eqb k b) eqn:E2.
    + destruct (Nat.eqb a b); reflexivity.
    + apply IH. exact Hn.
Qed.

Lemma hget_none_of_bound h n : (forall a v, hget a h = Some v -> a < n) -> hget n h = None.
Proof. intros H. destruct (hget n h) eqn:E; [specialize (H _ _ E); lia | reflexivity]. Qed.

Lemma set_ctr_infos i c l : map s_info (set_ctr i c l) = map s_info l.
Proof. revert i. induction l as [|s t IH]; intros [|i]; cbn; try reflexivity. rewrite IH. reflexivity. Qed.

Lemma in_set_ctr i c l s0 : nth_error l i = Some s0 ->
  forall s, In s (set_ctr i c l) ->
    (s = {| s_ctr := c; s_info := s_info s0 |}) \/ (In s l /\ (NoDup (map s_info l) -> s_info s <> s_info s0)).
Proof.
  revert i. induction l as [|x t IH]; intros [|i] H s Hin; cbn in *; try discriminate; try contradiction.
  - inversion H; subst. destruct Hin as [<-|Hin]; [left; reflexivity|].
    right. split; [right; exact Hin|]. intros ND. inversion ND as [|? ? Hn _]; subst.
    intro E. apply Hn. rewrite <- E. apply in_map. exact Hin.
  - destruct Hin as [<-|Hin].
    + right. split; [left; reflexivity|]. intros ND. inversion ND as [|? ? Hn _]; subst.
      intro E. apply Hn. rewrite E. apply in_map. eapply nth_error_In. exact H.
    + destruct (IH i H s Hin) as [->|[A B]]; [left; reflexivity|].
      right. split; [right; exact A|]. intros ND. inversion ND; subst. auto.
Qed.

Lemma NoDup_snoc (l : list nat) x : NoDup l -> ~ In x l -> NoDup (l ++ [x]).
Proof.
  induction l as [|y t IH]; intros ND Hn; cbn.
  - constructor; [intros []|constructor].
  - inversion ND as [|? ? Hy Ht]; subst. constructor.
    + intro Hin. apply in_app_or in Hin. destruct Hin as [Hin|[->|[]]]; [contradiction|]. apply Hn. left. reflexivity.
    + apply IH; [exact Ht|]. intro; apply Hn; right; assumption.
Qed.

Lemma rstep_inv w o : sound_op o = true -> RInv w -> RInv (rstep w o).
Proof.
  intros Hs (ND & Hlt & Htrue & Hb). destruct o as [i c|i|i|i c|i c]; cbn in Hs; try discriminate; cbn [rstep].
  - destruct (nth_error (sims w) i) as [s0|] eqn:E; [|repeat split; assumption].
    assert (Hin0 : In s0 (sims w)) by (eapply nth_error_In; exact E).
    repeat split; cbn [sims cells next].
    + rewrite set_ctr_infos. exact ND.
    + intros s Hin. destruct (in_set_ctr i c _ s0 E s Hin) as [->|[A _]]; cbn; auto.
    + intros s Hin. destruct (in_set_ctr i c _ s0 E s Hin) as [->|[A B]]; cbn.
      * apply hget_hset_same.
      * rewrite hget_hset_other by (intro X; apply (B ND); auto). auto.
    + intros a v H. eapply hget_hset_bound; [apply Hlt; exact Hin0 | exact Hb | exact H].
  - destruct (nth_error (sims w) i) as [s0|] eqn:E; [|repeat split; assumption].
    assert (Hin0 : In s0 (sims w)) by (eapply nth_error_In; exact E).
    rewrite (Htrue s0 Hin0).
    pose proof (hget_none_of_bound _ _ Hb) as Hfresh.
    repeat split; cbn [sims cells next].
    + rewrite map_app. cbn. apply NoDup_snoc; [exact ND|].
      intro Hin. apply in_map_iff in Hin. destruct Hin as [s [Es Hs']]. specialize (Hlt s Hs'). lia.
    + intros s Hin. apply in_app_or in Hin. destruct Hin as [Hin|[Es|[]]]; [specialize (Hlt s Hin); lia | subst s; cbn; lia].
    + intros s Hin. rewrite (hget_app_fresh _ _ _ _ Hfresh).
      apply in_app_or in Hin. destruct Hin as [Hin|[Es|[]]]; [|subst s].
      * destruct (Nat.eqb (next w) (s_info s)) eqn:E2.
        -- apply Nat.eqb_eq in E2. specialize (Hlt s Hin). lia.
        -- auto.
      * cbn. rewrite Nat.eqb_refl. rewrite Hfresh. reflexivity.
    + intros a v H. rewrite (hget_app_fresh _ _ _ _ Hfresh) in H.
      destruct (Nat.eqb (next w) a) eqn:E2.
      * apply Nat.eqb_eq in E2. lia.
      * specialize (Hb _ _ H). lia.
  - (* query on a converted copy with a copied record: a fresh, unreferenced cell *)
    destruct (nth_error (sims w) i) as [s0|] eqn:E; [|repeat split; assumption].
    pose proof (hget_none_of_bound _ _ Hb) as Hfresh.
    repeat split; cbn [sims cells next].
    + exact ND.
    + intros s Hin. specialize (Hlt s Hin). lia.
    + intros s Hin. rewrite (hget_app_fresh _ _ _ _ Hfresh).
      destruct (Nat.eqb (next w) (s_info s)) eqn:E2.
      * apply Nat.eqb_eq in E2. specialize (Hlt s Hin). lia.
      * auto.
    + intros a v H. rewrite (hget_app_fresh _ _ _ _ Hfresh) in H.
      destruct (Nat.eqb (next w) a) eqn:E2.
      * apply Nat.eqb_eq in E2. lia.
      * specialize (Hb _ _ H). lia.
Qed.

Lemma rinv_init c : RInv (init_world c).
Proof.
  unfold RInv, init_world; cbn. repeat split.
  - constructor; [intros []|constructor].
  - intros s [<-|[]]. cbn. lia.
  - intros s [<-|[]]. cbn. reflexivity.
  - intros a v H. destruct a as [|a]; [lia | cbn in H; discriminate].
Qed.

Lemma rrun_inv ops : forall w, forallb sound_op ops = true -> RInv w -> RInv (rrun w ops).
Proof.
  induction ops as [|o r IH]; intros w H HI; cbn; [exact HI|].
  cbn in H. apply andb_true_iff in H. destruct H as [Ho Hr].
  apply IH; [exact Hr|]. apply rstep_inv; assumption.
Qed.

(* every simulator owns its info dict and its record is true, after every history of gates /
   canonicalising queries / queries on a converted copy (with a copied record) / deep copies on
   any of the simulators *)
Theorem records_owned_and_true c ops : forallb sound_op ops = true ->
  let w := rrun (init_world c) ops in
  NoDup (map s_info (sims w)) /\ all_records_true w = true.
Proof.
  intros H w. destruct (rrun_inv ops (init_world c) H (rinv_init c)) as (ND & _ & Ht & _).
  split; [exact ND|]. unfold all_records_true. apply forallb_forall. intros s Hin.
  unfold rec_true_b. fold w in Ht. rewrite (Ht s Hin). apply Nat.eqb_refl.
Qed.

(* the two defective operations falsify a record *)
Lemma shallow_copy_breaks_record :
  all_records_true (rrun (init_world 2) [RCopyShallow 0; RTouch 1 5]) = false.
Proof. reflexivity. Qed.

Lemma touch_copy_only_breaks_record :
  all_records_true (rrun (init_world 2) [RTouchCopyOnly 0 0]) = false.
Proof. reflexivity. Qed.

(* C07 proofs for the permutation tracker and the cache state machine. *)
From Coq Require Import List Arith Bool ZArith Lia Permutation.
From QV Require Import C07.Model.
Import ListNotations.

(* ========================================================================= *)
(* cache state machine                                                         *)

Definition Fresh (s : st) : Prop := Forall (fun kw => snd kw = world s) (storage s).

Definition Inv (s : st) : Prop :=
  (stamp s <= Z.of_nat (ngates s))%Z /\ (stamp s = Z.of_nat (ngates s) -> Fresh s).

Definition ev_fresh (ev : list event) : Prop := Forall (fun e => e_value e = e_now e) ev.

Lemma inv_init : Inv init_st.
Proof. split; cbn; [lia | intros H; lia]. Qed.

Lemma inv_clear s : Inv (clear_storage s) /\ Fresh (clear_storage s)
  /\ stamp (clear_storage s) = Z.of_nat (ngates (clear_storage s)).
Proof. unfold Inv, Fresh, clear_storage; cbn. repeat split; try lia; constructor. Qed.

Lemma maybe_init_ok s : Inv s ->
  let s' := maybe_init s in
  Inv s' /\ Fresh s' /\ stamp s' = Z.of_nat (ngates s') /\ world s' = world s /\ ngates s' = ngates s.
Proof.
  intros [H1 H2]. unfold maybe_init. destruct (Z.eqb (stamp s) (Z.of_nat (ngates s))) eqn:E.
  - apply Z.eqb_eq in E. cbn zeta. split; [split; assumption|]. split; [apply H2; exact E|]. repeat split; auto.
  - destruct (inv_clear s) as (A & B & D). cbn zeta. split; [exact A|]. split; [exact B|]. split; [exact D|]. split; reflexivity.
Qed.

Lemma apply_mut_inv m s : covered m = true -> Inv s -> Inv (apply_mut m s).
Proof.
  intros Hc [H1 H2]. unfold apply_mut. destruct (m_clear m) eqn:Ec.
  - apply inv_clear.
  - unfold covered in Hc. rewrite Ec in Hc. rewrite orb_false_r in Hc.
    unfold Inv, Fresh; cbn [ngates world stamp storage].
    destruct (m_world m) eqn:Ew; cbn [implb] in Hc.
    + apply negb_true_iff in Hc. apply Nat.eqb_neq in Hc. split; [lia | intros E; lia].
    + split; [lia|]. intros E. destruct (Nat.eq_dec (m_append m) 0) as [Z0|NZ].
      * apply H2. rewrite Z0, Nat.add_0_r in E. exact E.
      * lia.
Qed.

Lemma lookup_in k s w : lookup k s = Some w -> exists k', In (k', w) s.
Proof.
  induction s as [|[k' w'] t IH]; cbn; [discriminate|].
  destruct (key_eqb k k'); intros H.
  - inversion H; subst. eexists; left; reflexivity.
  - destruct (IH H) as [k2 Hin]. exists k2. right. exact Hin.
Qed.

Lemma access_ok ks : forall s, Fresh s ->
  Fresh (fst (access ks s)) /\ world (fst (access ks s)) = world s
  /\ ngates (fst (access ks s)) = ngates s /\ stamp (fst (access ks s)) = stamp s
  /\ ev_fresh (snd (access ks s)).
Proof.
  induction ks as [|k r IH]; intros s HF; cbn [access].
  - cbn. repeat split; auto. constructor.
  - destruct (lookup k (storage s)) as [w|] eqn:L.
    + destruct (IH s HF) as (A & B & D & E & F).
      destruct (access r s) as [s' ev] eqn:Ea. cbn [fst snd] in *.
      repeat split; auto. constructor; [|exact F]. cbn.
      destruct (lookup_in _ _ _ L) as [k' Hin]. unfold Fresh in HF. rewrite Forall_forall in HF.
      exact (HF _ Hin).
    + set (s1 := {| ngates := ngates s; world := world s; stamp := stamp s;
                    storage := storage s ++ [(k, world s)] |}).
      assert (HF1 : Fresh s1).
      { unfold Fresh, s1; cbn. apply Forall_app. split; [exact HF|]. constructor; [reflexivity|constructor]. }
      destruct (IH s1 HF1) as (A & B & D & E & F).
      destruct (access r s1) as [s' ev] eqn:Ea. cbn [fst snd] in *.
      repeat split; auto. constructor; [reflexivity | exact F].
Qed.

Lemma access_cond_ok ck mk s : Fresh s ->
  Fresh (fst (access_cond ck mk s)) /\ world (fst (access_cond ck mk s)) = world s
  /\ ngates (fst (access_cond ck mk s)) = ngates s /\ stamp (fst (access_cond ck mk s)) = stamp s
  /\ ev_fresh (snd (access_cond ck mk s)).
Proof.
  intros HF. unfold access_cond. destruct (lookup ck (storage s)) as [w|] eqn:L.
  - cbn. repeat split; auto. constructor; [|constructor]. cbn.
    destruct (lookup_in _ _ _ L) as [k' Hin]. unfold Fresh in HF. rewrite Forall_forall in HF. exact (HF _ Hin).
  - destruct (access_ok mk s HF) as (A & B & D & E & F).
    destruct (access mk s) as [s1 ev] eqn:Ea. cbn [fst snd] in *.
    repeat split; auto.
    + unfold Fresh; cbn. apply Forall_app. split; [exact A|]. constructor; [reflexivity|constructor].
    + constructor; [reflexivity|exact F].
Qed.

Lemma access_groups_ok gk : forall s, Fresh s ->
  Fresh (fst (access_groups gk s)) /\ world (fst (access_groups gk s)) = world s
  /\ ngates (fst (access_groups gk s)) = ngates s /\ stamp (fst (access_groups gk s)) = stamp s
  /\ ev_fresh (snd (access_groups gk s)).
Proof.
  induction gk as [|[ck mk] r IH]; intros s HF; cbn [access_groups].
  - cbn. repeat split; auto. constructor.
  - destruct (access_cond_ok ck mk s HF) as (A & B & D & E & F).
    destruct (access_cond ck mk s) as [s1 e1] eqn:E1. cbn [fst snd] in *.
    destruct (IH s1 A) as (A2 & B2 & D2 & E2 & F2).
    destruct (access_groups r s1) as [s2 e2] eqn:Eg. cbn [fst snd] in *.
    repeat split; try congruence. apply Forall_app. split; assumption.
Qed.

Lemma fresh_inv s : Fresh s -> stamp s = Z.of_nat (ngates s) -> Inv s.
Proof. intros F E. split; [lia | intros _; exact F]. Qed.

Lemma step_ok s o : op_covered o = true -> Inv s ->
  Inv (fst (step s o)) /\ ev_fresh (snd (step s o)).
Proof.
  intros Hc HI. destruct o as [m|ks|N qs og groups bits sq atol]; cbn [step].
  - cbn [fst snd]. split; [apply apply_mut_inv; assumption | constructor].
  - destruct (maybe_init_ok s HI) as (A & B & D & E & F).
    destruct (access_ok ks (maybe_init s) B) as (A2 & B2 & D2 & E2 & F2).
    split; [|exact F2]. apply fresh_inv; [exact A2|]. rewrite E2, D2. exact D.
  - unfold sample_one.
    destruct (maybe_init_ok s HI) as (A & B & D & E & F).
    set (s0 := maybe_init s) in *.
    assert (H1 : exists s1 e1, (if og then (s0, []) else access (q_order qs) s0) = (s1, e1)
               /\ Fresh s1 /\ ngates s1 = ngates s0 /\ stamp s1 = stamp s0 /\ ev_fresh e1).
    { destruct og.
      - exists s0, []. repeat split; auto. constructor.
      - destruct (access_ok (q_order qs) s0 B) as (A2 & B2 & D2 & E2 & F2).
        destruct (access (q_order qs) s0) as [s1 e1]. exists s1, e1. cbn in *. repeat split; auto. }
    destruct H1 as (s1 & e1 & Eq & F1 & N1 & S1 & V1). rewrite Eq.
    destruct (access_groups_ok (group_keys N groups [] bits sq atol) s1 F1) as (A3 & B3 & D3 & E3 & F3).
    destruct (access_groups (group_keys N groups [] bits sq atol) s1) as [s2 e2]. cbn [fst snd] in *.
    split.
    + apply fresh_inv; [exact A3|]. rewrite E3, D3, S1, N1. exact D.
    + apply Forall_app. split; assumption.
Qed.

Lemma run_ok ops : forall s, forallb op_covered ops = true -> Inv s ->
  Inv (fst (run s ops)) /\ ev_fresh (snd (run s ops)).
Proof.
  induction ops as [|o r IH]; intros s Hc HI; cbn [run].
  - cbn. split; [exact HI | constructor].
  - cbn [forallb] in Hc. apply andb_true_iff in Hc. destruct Hc as [Ho Hr].
    destruct (step_ok s o Ho HI) as [I1 V1].
    destruct (step s o) as [s1 e1]. cbn [fst snd] in *.
    destruct (IH s1 Hr I1) as [I2 V2].
    destruct (run s1 r) as [s2 e2]. cbn [fst snd] in *.
    split; [exact I2 | apply Forall_app; split; assumption].
Qed.

(* every cache answer - hit or miss - is the value computed from the current
   (gates, params, psi), for every history of covered mutators and queries *)
Theorem cache_fresh_all : forall ops, forallb op_covered ops = true ->
  Forall (fun e => e_value e = e_now e) (snd (run init_st ops)).
Proof. intros ops H. exact (proj2 (run_ok ops init_st H inv_init)). Qed.

(* the hypothesis is needed: an uncovered mutator gives a stale hit *)
Definition bad_mut : mut := {| m_world := true; m_append := 0; m_clear := false |}.
Lemma uncovered_mutator_stale :
  exists e, In e (snd (run init_st [Query [KPsi 0 0]; Mut bad_mut; Query [KPsi 0 0]]))
            /\ e_hit e = true /\ e_value e <> e_now e.
Proof. eexists. split; [cbn; right; left; reflexivity|]. cbn. split; [reflexivity|discriminate]. Qed.

(* ---- the conditional-marginal key determines the conditioning event ---------- *)
Lemma ins_pair_perm p l : Permutation (ins_pair p l) (p :: l).
Proof.
  induction l as [|q t IH]; cbn; [apply Permutation_refl|].
  destruct (Nat.leb (fst p) (fst q)); [apply Permutation_refl|].
  apply perm_trans with (q :: p :: t); [apply perm_skip; exact IH | apply perm_swap].
Qed.

Lemma sort_pairs_perm l : Permutation (sort_pairs l) l.
Proof.
  induction l as [|p t IH]; cbn; [apply Permutation_refl|].
  apply perm_trans with (p :: sort_pairs t); [apply ins_pair_perm | apply perm_skip; exact IH].
Qed.

(* equal keys => same target group and the same set of (qubit, outcome) conditions *)
Theorem cond_key_determines_event w f w' f' : cond_key w f = cond_key w' f' ->
  w = w' /\ forall q b, In (q, b) f <-> In (q, b) f'.
Proof.
  unfold cond_key. intros H. injection H as Hw Hf. split; [exact Hw|].
  intros q b. split; intros Hin.
  - apply (Permutation_in _ (sort_pairs_perm f')). rewrite <- Hf.
    apply (Permutation_in _ (Permutation_sym (sort_pairs_perm f))). exact Hin.
  - apply (Permutation_in _ (sort_pairs_perm f)). rewrite Hf.
    apply (Permutation_in _ (Permutation_sym (sort_pairs_perm f'))). exact Hin.
Qed.

(* the bits-only key does not: two different conditioning events share a key *)
Lemma bits_only_key_collides :
  cond_key_bits [2] [(0, 1)] = cond_key_bits [2] [(1, 1)] /\ cond_key [2] [(0, 1)] <> cond_key [2] [(1, 1)].
Proof. split; [reflexivity | discriminate]. Qed.

(* ========================================================================= *)
(* permutation tracker                                                         *)

Lemma index_spec q l p : index q l = Some p -> nth p l 0 = q /\ p < length l.
Proof.
  revert p. induction l as [|x t IH]; cbn; intros p H; [discriminate|].
  destruct (Nat.eqb x q) eqn:E.
  - inversion H; subst. apply Nat.eqb_eq in E. cbn. split; [exact E|lia].
  - destruct (index q t) as [p'|] eqn:Ei; cbn in H; [|discriminate].
    inversion H; subst. destruct (IH p' eq_refl) as [A B]. cbn. split; [exact A|lia].
Qed.

Lemma index_in q l : In q l -> exists p, index q l = Some p.
Proof.
  induction l as [|x t IH]; cbn; intros H; [contradiction|].
  destruct (Nat.eqb x q) eqn:E; [eexists; reflexivity|].
  destruct H as [H|H]; [subst; rewrite Nat.eqb_refl in E; discriminate|].
  destruct (IH H) as [p Hp]. rewrite Hp. eexists; reflexivity.
Qed.

Lemma indices_spec qs g : forall phys, indices qs g = Some phys ->
  map (fun p => nth p qs 0) phys = g /\ Forall (fun p => p < length qs) phys.
Proof.
  induction g as [|q r IH]; cbn; intros phys H.
  - inversion H; subst. cbn. split; [reflexivity|constructor].
  - destruct (index q qs) as [p|] eqn:E; [|discriminate].
    destruct (indices qs r) as [ps|] eqn:Er; [|discriminate].
    inversion H; subst. destruct (index_spec _ _ _ E) as [A B].
    destruct (IH ps eq_refl) as [C D]. cbn. split; [congruence | constructor; assumption].
Qed.

Lemma indices_total qs g : Forall (fun q => In q qs) g -> exists phys, indices qs g = Some phys.
Proof.
  induction g as [|q r IH]; intros H; cbn; [eexists; reflexivity|].
  inversion H; subst. destruct (index_in q qs H2) as [p Hp]. destruct (IH H3) as [ps Hps].
  rewrite Hp, Hps. eexists; reflexivity.
Qed.

Lemma pop_app A : forall y B, pop (length A) (A ++ y :: B) = Some (y, A ++ B).
Proof. induction A as [|a A IH]; intros; cbn; [reflexivity|]. rewrite IH. reflexivity. Qed.

Lemma insert_app A : forall y B, insert (length A) y (A ++ B) = A ++ y :: B.
Proof. induction A as [|a A IH]; intros; cbn; [destruct B; reflexivity|]. rewrite IH. reflexivity. Qed.

Lemma swap_adj_app P : forall k l, swap_adj (length P + k) (P ++ l) = P ++ swap_adj k l.
Proof. induction P as [|p P IH]; intros; cbn; [reflexivity|]. rewrite IH. reflexivity. Qed.

Lemma move_down_spec n : forall f A M y B, length A = f -> length M = n ->
  move_down n f (A ++ M ++ y :: B) = A ++ y :: M ++ B.
Proof.
  induction n as [|n IH]; intros f A M y B HA HM.
  - destruct M; [reflexivity|discriminate].
  - destruct (exists_last (l := M)) as (M' & z & EM); [destruct M; [discriminate|congruence]|].
    subst M. rewrite app_length in HM. cbn in HM.
    cbn [move_down].
    replace (A ++ (M' ++ [z]) ++ y :: B) with ((A ++ M') ++ z :: y :: B)
      by (rewrite <- !app_assoc; reflexivity).
    replace (f + n) with (length (A ++ M') + 0) by (rewrite app_length; lia).
    rewrite swap_adj_app. cbn [swap_adj].
    rewrite <- app_assoc.
    rewrite (IH f A M' y (z :: B)) by lia.
    rewrite <- app_assoc. reflexivity.
Qed.

Lemma split_at (l : list nat) j : j < length l ->
  l = firstn j l ++ nth j l 0 :: skipn (S j) l /\ length (firstn j l) = j.
Proof.
  revert j. induction l as [|x t IH]; intros j H; cbn in H; [lia|].
  destruct j as [|j]; cbn; [split; reflexivity|].
  destruct (IH j) as [A B]; [lia|]. split; [f_equal; exact A | f_equal; exact B].
Qed.

(* decomposition of a list around two positions i < j *)
Lemma split_two (l : list nat) i j : i < j -> j < length l ->
  exists A M B, l = (A ++ [nth i l 0]) ++ M ++ nth j l 0 :: B
                /\ length A = i /\ length M = j - S i.
Proof.
  intros Hij Hj.
  destruct (split_at l j Hj) as [E1 L1].
  remember (firstn j l) as P eqn:EP.
  assert (Hi : i < length P) by lia.
  destruct (split_at P i Hi) as [E2 L2].
  exists (firstn i P), (skipn (S i) P), (skipn (S j) l).
  assert (Hn : nth i P 0 = nth i l 0).
  { symmetry. rewrite E1. rewrite app_nth1 by lia. reflexivity. }
  split; [|split].
  - rewrite <- Hn. rewrite <- app_assoc. cbn [app].
    rewrite app_comm_cons. rewrite app_assoc. rewrite <- E2. exact E1.
  - exact L2.
  - assert (length P = length (firstn i P) + S (length (skipn (S i) P))).
    { rewrite E2 at 1. rewrite app_length. cbn. reflexivity. }
    lia.
Qed.

Lemma nth_app_exact (A : list nat) y B : nth (length A) (A ++ y :: B) 0 = y.
Proof. rewrite app_nth2 by lia. rewrite Nat.sub_diag. reflexivity. Qed.

(* the tracker's pop/insert and the MPS side's adjacent swaps agree, and the
   gate finally acts on the sites that now hold its two logical qubits *)
Lemma auto_swap_tracks qs a b : a <> b -> a < length qs -> b < length qs ->
  let i := Nat.min a b in let j := Nat.max a b in
  exists q rest, pop j qs = Some (q, rest) /\
    let tr' := insert (S i) q rest in
    fst (auto_swap qs a b) = tr'
    /\ nth (fst (snd (auto_swap qs a b))) tr' 0 = nth a qs 0
    /\ nth (snd (snd (auto_swap qs a b))) tr' 0 = nth b qs 0.
Proof.
  intros Hab Ha Hb i j.
  assert (Hij : i < j) by (unfold i, j; lia).
  assert (Hj : j < length qs) by (unfold j; lia).
  destruct (split_two qs i j Hij Hj) as (A & M & B & E & LA & LM).
  set (xi := nth i qs 0) in *. set (y := nth j qs 0) in *.
  assert (LAi : length (A ++ [xi]) = S i) by (rewrite app_length; cbn; lia).
  exists y, ((A ++ [xi]) ++ M ++ B).
  split.
  { rewrite E. replace j with (length ((A ++ [xi]) ++ M)) by (rewrite app_length; lia).
    rewrite app_assoc. rewrite pop_app. rewrite <- app_assoc. reflexivity. }
  cbn zeta.
  assert (Etr : insert (S i) y ((A ++ [xi]) ++ M ++ B) = (A ++ [xi]) ++ y :: M ++ B).
  { rewrite <- LAi. apply insert_app. }
  rewrite Etr.
  assert (Ec : fst (auto_swap qs a b) = (A ++ [xi]) ++ y :: M ++ B).
  { unfold auto_swap. fold i j. cbn [fst].
    destruct (Nat.eqb (S i) j) eqn:Eq.
    - apply Nat.eqb_eq in Eq. assert (M = []) by (destruct M; [reflexivity|cbn in LM; lia]). subst M.
      cbn [app]. exact E.
    - rewrite E at 1. apply move_down_spec; [exact LAi | exact LM]. }
  split; [exact Ec|].
  assert (Nsi : nth (S i) ((A ++ [xi]) ++ y :: M ++ B) 0 = y)
    by (rewrite <- LAi; apply nth_app_exact).
  assert (Ni : nth i ((A ++ [xi]) ++ y :: M ++ B) 0 = xi).
  { rewrite <- app_assoc. cbn [app]. rewrite <- LA. apply nth_app_exact. }
  unfold auto_swap. fold i j. cbn [fst snd].
  destruct (Nat.ltb b a) eqn:Elt.
  - apply Nat.ltb_lt in Elt. cbn [fst snd].
    assert (i = b) by (unfold i; lia). assert (j = a) by (unfold j; lia).
    split; [rewrite Nsi; unfold y; congruence | rewrite Ni; unfold xi; congruence].
  - apply Nat.ltb_ge in Elt. cbn [fst snd].
    assert (i = a) by (unfold i; lia). assert (j = b) by (unfold j; lia).
    split; [rewrite Ni; unfold xi; congruence | rewrite Nsi; unfold y; congruence].
Qed.

Lemma pop_perm j : forall l q rest, pop j l = Some (q, rest) -> Permutation (q :: rest) l.
Proof.
  induction j as [|j IH]; intros l q rest H; destruct l as [|x t]; cbn in H; try discriminate.
  - inversion H; subst. apply Permutation_refl.
  - destruct (pop j t) as [[y t']|] eqn:E; [|discriminate]. inversion H; subst.
    apply perm_trans with (x :: q :: t'); [apply perm_swap|]. apply perm_skip. apply IH. exact E.
Qed.

Lemma insert_perm i : forall x l, Permutation (insert i x l) (x :: l).
Proof.
  induction i as [|i IH]; intros x l; cbn; [destruct l; apply Permutation_refl|].
  destruct l as [|y t]; [apply Permutation_refl|].
  apply perm_trans with (y :: x :: t); [apply perm_skip; apply IH | apply perm_swap].
Qed.

Lemma perm_step_perm qs g qs' phys : perm_step qs g = Some (qs', phys) -> Permutation qs' qs.
Proof.
  unfold perm_step. destruct (indices qs g) as [ph|]; [|discriminate].
  destruct ph as [|a [|b [|c r]]]; intros H; try (inversion H; subst; apply Permutation_refl).
  destruct (pop (Nat.max a b) qs) as [[q rest]|] eqn:E; [|discriminate].
  assert (Eq : qs' = insert (S (Nat.min a b)) q rest) by congruence. rewrite Eq.
  apply perm_trans with (q :: rest); [apply insert_perm | apply pop_perm with (j := Nat.max a b); exact E].
Qed.

(* the tracker stays a permutation of range(N) for every gate sequence *)
Theorem perm_run_perm N gates : forall qs qs', Permutation qs (seq 0 N) ->
  perm_run qs gates = Some qs' -> Permutation qs' (seq 0 N).
Proof.
  induction gates as [|g r IH]; intros qs qs' HP H; cbn in H.
  - inversion H; subst. exact HP.
  - destruct (perm_step qs g) as [[qs1 phys]|] eqn:E; [|discriminate].
    apply (IH qs1 qs'); [|exact H].
    apply perm_trans with qs; [eapply perm_step_perm; exact E | exact HP].
Qed.

Lemma pop_total j : forall l, j < length l -> exists q rest, pop j l = Some (q, rest).
Proof.
  induction j as [|j IH]; intros l H; destruct l as [|x t]; cbn in H; try lia; cbn.
  - eexists; eexists; reflexivity.
  - destruct (IH t) as (q & rest & E); [lia|]. rewrite E. eexists; eexists; reflexivity.
Qed.

(* valid gates (qubits of the register) are never rejected by the tracker *)
Theorem perm_step_total N qs g : Permutation qs (seq 0 N) -> Forall (fun q => q < N) g ->
  exists r, perm_step qs g = Some r.
Proof.
  intros HP Hg.
  assert (Hin : Forall (fun q => In q qs) g).
  { rewrite Forall_forall in *. intros q Hq. apply Permutation_in with (seq 0 N); [apply Permutation_sym; exact HP|].
    apply in_seq. specialize (Hg q Hq). lia. }
  destruct (indices_total qs g Hin) as [phys Hp]. unfold perm_step. rewrite Hp.
  destruct (indices_spec qs g phys Hp) as [_ Hlt].
  destruct phys as [|a [|b [|c r]]]; try (eexists; reflexivity).
  inversion Hlt as [|? ? Ha Hr]; subst. inversion Hr as [|? ? Hb _]; subst.
  destruct (pop_total (Nat.max a b) qs) as (q & rest & E); [lia|]. rewrite E. eexists; reflexivity.
Qed.

(* logical qubit q sits at physical site index q qs, and that is its only site *)
Theorem tracker_locates N qs q : Permutation qs (seq 0 N) -> q < N ->
  exists p, index q qs = Some p /\ p < N /\ nth p qs 0 = q
            /\ forall p', p' < N -> nth p' qs 0 = q -> p' = p.
Proof.
  intros HP Hq.
  assert (Hin : In q qs).
  { apply Permutation_in with (seq 0 N); [apply Permutation_sym; exact HP | apply in_seq; lia]. }
  destruct (index_in q qs Hin) as [p Hp]. destruct (index_spec _ _ _ Hp) as [A B].
  assert (HL : length qs = N) by (rewrite (Permutation_length HP); apply seq_length).
  assert (ND : NoDup qs) by (apply Permutation_NoDup with (seq 0 N); [apply Permutation_sym; exact HP | apply seq_NoDup]).
  exists p. repeat split; try lia; auto.
  intros p' Hp' E. rewrite NoDup_nth with (d := 0) in ND. apply ND; lia || congruence.
Qed.

(* joint run: tracker = contents of the MPS sites, and every gate acts on the
   sites holding its logical qubits - for every gate sequence whose two-qubit
   gates act on two different qubits *)
Lemma sim_step_ok tr g : NoDup tr -> NoDup g ->
  match sim_step tr tr g with
  | None => True
  | Some (tr', c', sites) => tr' = c' /\ map (fun s => nth s c' 0) sites = g /\ Permutation tr' tr
  end.
Proof.
  intros NDt NDg. unfold sim_step.
  destruct (perm_step tr g) as [[tr' phys]|] eqn:E; [|exact I].
  pose proof (perm_step_perm _ _ _ _ E) as HP.
  unfold perm_step in E. destruct (indices tr g) as [ph|] eqn:Ei; [|discriminate].
  destruct (indices_spec tr g ph Ei) as [Hmap Hlt].
  destruct ph as [|a [|b [|c r]]].
  - inversion E; subst. auto.
  - inversion E; subst. auto.
  - destruct (pop (Nat.max a b) tr) as [[q rest]|] eqn:Ep; [|discriminate].
    assert (Et : tr' = insert (S (Nat.min a b)) q rest) by congruence.
    assert (Eph : phys = [a; b]) by congruence. subst phys. clear E.
    assert (Ha : a < length tr) by (inversion Hlt; assumption).
    assert (Hb : b < length tr) by (inversion Hlt as [|? ? _ Hr]; inversion Hr; assumption).
    cbn [map] in Hmap.
    assert (Hab : a <> b).
    { intro; subst b. rewrite <- Hmap in NDg. inversion NDg as [|? ? Hn _]. apply Hn. left. reflexivity. }
    destruct (auto_swap_tracks tr a b Hab Ha Hb) as (q' & rest' & Ep' & Etr & E1 & E2).
    rewrite Ep in Ep'. assert (q' = q) by congruence. assert (rest' = rest) by congruence. subst q' rest'.
    rewrite <- Et in Etr, E1, E2.
    destruct (auto_swap tr a b) as [c' [s1 s2]] eqn:Ea. cbn [fst snd] in *.
    split; [congruence|]. split; [|exact HP].
    cbn [map]. rewrite Etr. rewrite E1, E2. exact Hmap.
  - inversion E; subst. auto.
Qed.

Theorem sim_run_ok gates : forall tr, NoDup tr -> Forall (@NoDup nat) gates -> sim_ok tr tr gates.
Proof.
  induction gates as [|g r IH]; intros tr ND Hg; cbn [sim_ok]; [exact I|].
  inversion Hg as [|? ? Hg1 Hgr]; subst.
  pose proof (sim_step_ok tr g ND Hg1) as H.
  destruct (sim_step tr tr g) as [[[tr' c'] sites]|]; [|exact I].
  destruct H as (E & M & P). subst c'. repeat split; auto.
  apply IH; [|exact Hgr]. apply Permutation_NoDup with tr; [apply Permutation_sym; exact P | exact ND].
Qed.

(* C07: complex numbers as pairs of Coq reals, matrices as nested lists (the
   shape the gate builders produce) and as index functions (for the algebra:
   products and Kronecker products of unitaries are unitary).
   Imports Reals: the only axioms are the standard library's real-number ones. *)
From Coq Require Import Reals Lra List Arith Lia Ring PeanoNat.
From QV Require Import Base.Sums.
Import ListNotations.
Open Scope R_scope.

Definition C := (R * R)%type.
Definition c0 : C := (0, 0).
Definition c1 : C := (1, 0).
Definition cadd (a b : C) : C := (fst a + fst b, snd a + snd b).
Definition cmul (a b : C) : C := (fst a * fst b - snd a * snd b, fst a * snd b + snd a * fst b).
Definition copp (a : C) : C := (- fst a, - snd a).
Definition csub (a b : C) : C := (fst a - fst b, snd a - snd b).
Definition cconj (a : C) : C := (fst a, - snd a).

Lemma C_ring : ring_theory c0 c1 cadd cmul csub copp eq.
Proof.
  constructor; intros; repeat match goal with x : C |- _ => destruct x end;
    unfold c0, c1, cadd, cmul, csub, copp; cbn [fst snd]; f_equal; ring.
Qed.

Lemma cconj_add a b : cconj (cadd a b) = cadd (cconj a) (cconj b).
Proof. destruct a, b; unfold cconj, cadd; cbn [fst snd]; f_equal; ring. Qed.
Lemma cconj_mul a b : cconj (cmul a b) = cmul (cconj a) (cconj b).
Proof. destruct a, b; unfold cconj, cmul; cbn [fst snd]; f_equal; ring. Qed.
Lemma cconj_0 : cconj c0 = c0.
Proof. unfold cconj, c0; cbn [fst snd]; f_equal; ring. Qed.
Lemma cconj_1 : cconj c1 = c1.
Proof. unfold cconj, c1; cbn [fst snd]; f_equal; ring. Qed.

(* ---- matrices as index functions -------------------------------------- *)
Definition fmat := nat -> nat -> C.
Definition csum := sum C c0 cadd.
Definition fmul (n : nat) (A B : fmat) : fmat := fun i j => csum n (fun k => cmul (A i k) (B k j)).
Definition fdag (A : fmat) : fmat := fun i j => cconj (A j i).
Definition fid : fmat := fun i j => if Nat.eqb i j then c1 else c0.
Definition fkron (m : nat) (A B : fmat) : fmat :=
  fun i j => cmul (A (i / m)%nat (j / m)%nat) (B (i mod m)%nat (j mod m)%nat).
(* U^dagger U = 1 on the n x n block *)
Definition funitary (n : nat) (U : fmat) : Prop :=
  forall i j, (i < n)%nat -> (j < n)%nat -> fmul n (fdag U) U i j = fid i j.

(* ---- matrices as nested lists (what the builders return) ---------------- *)
Definition lmat := list (list C).
Definition of_list (M : lmat) : fmat := fun i j => nth j (nth i M []) c0.
Definition unitary (n : nat) (M : lmat) : Prop := funitary n (of_list M).

Add Ring Cring : C_ring.
Definition cs_ext := sum_ext C c0 cadd.
Definition cs_mul_l := sum_mul_l C c0 c1 cadd cmul csub copp C_ring.
Definition cs_mul_r := sum_mul_r C c0 c1 cadd cmul csub copp C_ring.
Definition cs_swap := sum_swap C c0 c1 cadd cmul csub copp C_ring.
Definition cs_delta := sum_delta C c0 c1 cadd cmul csub copp C_ring.
Definition cs_prod := sum_prod C c0 c1 cadd cmul csub copp C_ring.

Lemma cconj_csum n f : cconj (csum n f) = csum n (fun k => cconj (f k)).
Proof.
  unfold csum. induction n as [|n IH]; cbn [sum]; [apply cconj_0|].
  rewrite cconj_add, IH. reflexivity.
Qed.

Lemma fid_unitary n : funitary n fid.
Proof.
  intros i j Hi Hj. unfold fmul, fdag, fid, csum.
  rewrite (cs_ext n _ (fun k => if Nat.eqb k i then (if Nat.eqb k j then c1 else c0) else c0)).
  - rewrite (cs_delta n i (fun k => if Nat.eqb k j then c1 else c0) Hi). reflexivity.
  - intros k Hk. destruct (Nat.eqb k i); [rewrite cconj_1 | rewrite cconj_0]; ring.
Qed.

(* product of unitaries *)
Lemma funitary_mul n A B : funitary n A -> funitary n B -> funitary n (fmul n A B).
Proof.
  intros HA HB i j Hi Hj.
  unfold fmul at 1. unfold fdag at 1.
  (* sum_k conj(sum_a A k a * B a i) * (sum_b A k b * B b j) *)
  transitivity (csum n (fun a => csum n (fun b =>
      cmul (cmul (cconj (B a i)) (B b j)) (fmul n (fdag A) A a b)))).
  - unfold fmul. unfold fdag.
    transitivity (csum n (fun k => csum n (fun a => csum n (fun b =>
        cmul (cmul (cconj (B a i)) (B b j)) (cmul (cconj (A k a)) (A k b)))))).
    + apply cs_ext. intros k Hk.
      rewrite cconj_csum.
      unfold csum.
      rewrite <- cs_mul_r.
      apply cs_ext. intros a Ha.
      rewrite <- cs_mul_l.
      apply cs_ext. intros b Hb.
      rewrite cconj_mul. ring.
    + unfold csum.
      rewrite (cs_swap n n).
      apply cs_ext. intros a Ha.
      rewrite (cs_swap n n).
      apply cs_ext. intros b Hb.
      rewrite cs_mul_l. reflexivity.
  - transitivity (csum n (fun a => cmul (cconj (B a i)) (B a j))).
    + apply cs_ext. intros a Ha.
      rewrite (cs_ext n _
                 (fun b => if Nat.eqb b a then cmul (cconj (B a i)) (B b j) else c0)).
      * unfold csum. rewrite (cs_delta n a _ Ha). reflexivity.
      * intros b Hb. rewrite (HA a b Ha Hb). unfold fid.
        rewrite (Nat.eqb_sym a b). destruct (Nat.eqb b a); ring.
    + exact (HB i j Hi Hj).
Qed.

(* Kronecker product of unitaries *)
Lemma divmod_idx a b m : (b < m)%nat -> ((a * m + b) / m = a)%nat /\ ((a * m + b) mod m = b)%nat.
Proof.
  intros Hb. split.
  - rewrite Nat.div_add_l by lia. rewrite Nat.div_small by lia. lia.
  - rewrite Nat.add_comm. rewrite Nat.mod_add by lia. apply Nat.mod_small; lia.
Qed.

Lemma funitary_kron n m A B : (0 < m)%nat ->
  funitary n A -> funitary m B -> funitary (n * m) (fkron m A B).
Proof.
  intros Hm HA HB i j Hi Hj.
  assert (Hid : (i / m < n)%nat) by (apply Nat.div_lt_upper_bound; lia).
  assert (Hjd : (j / m < n)%nat) by (apply Nat.div_lt_upper_bound; lia).
  assert (Him : (i mod m < m)%nat) by (apply Nat.mod_upper_bound; lia).
  assert (Hjm : (j mod m < m)%nat) by (apply Nat.mod_upper_bound; lia).
  unfold fmul at 1. unfold csum.
  rewrite (cs_prod n m).
  transitivity (cmul (fmul n (fdag A) A (i / m)%nat (j / m)%nat)
                     (fmul m (fdag B) B (i mod m)%nat (j mod m)%nat)).
  - unfold fmul, csum.
    rewrite <- cs_mul_r.
    apply cs_ext. intros a Ha.
    rewrite <- cs_mul_l.
    apply cs_ext. intros b Hb.
    unfold fdag, fkron.
    destruct (divmod_idx a b m Hb) as [E1 E2]. rewrite E1, E2.
    rewrite cconj_mul. ring.
  - rewrite (HA _ _ Hid Hjd), (HB _ _ Him Hjm). unfold fid.
    destruct (Nat.eqb i j) eqn:E.
    + apply Nat.eqb_eq in E. subst. rewrite !Nat.eqb_refl. ring.
    + apply Nat.eqb_neq in E.
      destruct (Nat.eqb (i / m) (j / m)) eqn:E1; destruct (Nat.eqb (i mod m) (j mod m)) eqn:E2; try ring.
      exfalso. apply Nat.eqb_eq in E1. apply Nat.eqb_eq in E2. apply E.
      rewrite (Nat.div_mod i m) by lia. rewrite (Nat.div_mod j m) by lia. rewrite E1, E2. reflexivity.
Qed.

(* extensionality on the block: unitarity only looks at entries below n *)
Lemma funitary_ext n A B : (forall i j, (i < n)%nat -> (j < n)%nat -> A i j = B i j) ->
  funitary n A -> funitary n B.
Proof.
  intros E HA i j Hi Hj. rewrite <- (HA i j Hi Hj). unfold fmul, fdag, csum.
  apply cs_ext. intros k Hk. rewrite (E k i Hk Hi), (E k j Hk Hj). reflexivity.
Qed.

Lemma unitary_by_cases n U :
  Forall (fun i => Forall (fun j => fmul n (fdag U) U i j = fid i j) (seq 0 n)) (seq 0 n) -> funitary n U.
Proof.
  intros H i j Hi Hj. rewrite Forall_forall in H.
  assert (Hi' : In i (seq 0 n)) by (apply in_seq; lia).
  specialize (H i Hi'). rewrite Forall_forall in H. apply H. apply in_seq. lia.
Qed.

(* controlled gate: block diag(1_d, G) on 2d dimensions (control = most significant qubit) *)
Definition fctrl (d : nat) (G : fmat) : fmat :=
  fun i j => if (i <? d)%nat then fid i j else if (j <? d)%nat then c0 else G (i - d)%nat (j - d)%nat.

(* ---- tactics for concrete gates --------------------------------------------- *)
Lemma inv_sqrt2_sq : (/ sqrt 2) * (/ sqrt 2) = 1 / 2.
Proof.
  assert (H : sqrt 2 * sqrt 2 = 2) by (apply sqrt_sqrt; lra).
  assert (Hn : sqrt 2 <> 0) by (intro E; rewrite E in H; lra).
  field_simplify_eq; [|exact Hn]. lra.
Qed.

Ltac trig_expand :=
  repeat (rewrite ?cos_plus, ?sin_plus, ?cos_minus, ?sin_minus, ?cos_neg, ?sin_neg, ?cos_2a, ?sin_2a).

Ltac gen_trig :=
  repeat match goal with
  | |- context [cos ?t] =>
      let c := fresh "c" in let s := fresh "s" in let H := fresh "H" in
      pose proof (sin2_cos2 t) as H; unfold Rsqr in H;
      set (c := cos t) in *; set (s := sin t) in *; clearbody c s
  | |- context [sin ?t] =>
      let c := fresh "c" in let s := fresh "s" in let H := fresh "H" in
      pose proof (sin2_cos2 t) as H; unfold Rsqr in H;
      set (c := cos t) in *; set (s := sin t) in *; clearbody c s
  end.

Ltac gen_sqrt2 :=
  unfold Rdiv;
  try match goal with
  | |- context [/ sqrt 2] =>
      let q := fresh "q" in let H := fresh "Hq" in
      pose proof inv_sqrt2_sq as H; set (q := / sqrt 2) in *; clearbody q
  end.

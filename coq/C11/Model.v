(* C11 model (a): trotter_schedule, the TEBD clock / queue state machine
   (quimb/tensor/tn1d/tebd.py: TEBD.__init__, sweep, step, _compute_sweep_dt_tol,
   update_to, at_times) and the even / odd / boundary bond colouring of a sweep.

   Clock values (t, dt, T) are integers: multiples of a fixed unit 1/D (the
   harness uses dyadic floats, D = 2^k, for which the float clock is exact).
   Sweep fractions live in Qc (canonical rationals, Leibniz equality); the
   order-4 Suzuki coefficient s is a parameter of the model (every theorem
   holds for every s; the real-number identity it satisfies is in Suzuki.v).
   `None` = the Python code raises (or, for the while loop, does not terminate).
   Hand-written; tied to the implementation by correspondence (harness/c11.py). *)
From Coq Require Import ZArith QArith Qcanon List Bool.
Import ListNotations.
Open Scope Z_scope.

Definition zq (z : Z) : Qc := Q2Qc (inject_Z z).
Definition qtwo : Qc := (1 + 1)%Qc.
Definition qhalf : Qc := (/ qtwo)%Qc.
Definition qfour : Qc := (qtwo * qtwo)%Qc.

Inductive dir := Right | Left.
Definition dir_eqb (a b : dir) : bool :=
  match a, b with Right, Right => true | Left, Left => true | _, _ => false end.

(* ---------------------------------------------------------------- *)
(* trotter_schedule(nlayers, order)                                  *)

(* order 2: [*((k, .5) for k in range(n-1)), (n-1, 1.), *((k, .5) for k in reversed(range(n-1)))] *)
Definition sched2 (n : nat) : list (nat * Qc) :=
  match n with
  | O => []
  | S m => map (fun k => (k, qhalf)) (seq 0 m) ++ [(m, 1%Qc)] ++ map (fun k => (k, qhalf)) (rev (seq 0 m))
  end.

Definition scale_sched (l : list (nat * Qc)) (f : Qc) : list (nat * Qc) :=
  map (fun kf => (fst kf, (snd kf * f)%Qc)) l.

Definition suzuki_factors (s : Qc) : list Qc := [s; s; (1 - qfour * s)%Qc; s; s].

Definition sched (s : Qc) (n : nat) (order : Z) : option (list (nat * Qc)) :=
  if order =? 1 then Some (map (fun k => (k, 1%Qc)) (seq 0 n))
  else if order =? 2 then Some (sched2 n)
  else if order =? 4 then Some (flat_map (scale_sched (sched2 n)) (suzuki_factors s))
  else None.                                   (* raise ValueError *)

(* sum of the fractions a schedule gives to layer k *)
Fixpoint layer_sum (k : nat) (l : list (nat * Qc)) : Qc :=
  match l with
  | [] => 0%Qc
  | (k', f) :: r => ((if Nat.eqb k' k then f else 0) + layer_sum k r)%Qc
  end.

(* ---------------------------------------------------------------- *)
(* bonds touched by one sweep, in application order                  *)

Record cfg := {
  cL : Z;          (* chain length *)
  cCyc : bool;     (* periodic *)
  cLns : Z;        (* site whose tensor a LEFT sweep divides by its norm when imag (final_site_ind) *)
  cTolU : Z        (* TARGET_TOL in clock units (0 when 1/D > 1e-13) *)
}.

Definition right_bonds (c : cfg) : list (Z * Z) :=
  let L := cL c in
  map (fun k => (2 * Z.of_nat k, (2 * Z.of_nat k + 1) mod L)) (seq 0 (Z.to_nat (L / 2)))
  ++ (if (L mod 2 =? 1) && cCyc c then [(L - 1, 0)] else []).

Definition left_bonds (c : cfg) : list (Z * Z) :=
  let L := cL c in
  (if cCyc c && (L mod 2 =? 0) then [(L - 1, 0)] else [])
  ++ rev (map (fun k => (2 * Z.of_nat k + 1, (2 * Z.of_nat k + 2) mod L)) (seq 0 (Z.to_nat ((L - 1) / 2)))).

Definition bonds (c : cfg) (d : dir) : list (Z * Z) :=
  match d with Right => right_bonds c | Left => left_bonds c end.

Definition has_gates (c : cfg) (d : dir) : bool :=
  match bonds c d with [] => false | _ => true end.

(* orthogonality centre after a sweep, and the site that is normalised when imag *)
Definition sweep_centre (c : cfg) (d : dir) : Z :=
  match d with Right => cL c - 1 | Left => 0 end.
Definition sweep_normsite (c : cfg) (d : dir) : Z :=
  match d with Right => cL c - 1 | Left => cLns c end.

(* ---------------------------------------------------------------- *)
(* the clock / queue machine                                          *)

Record state := mkst {
  clk : Z;                        (* self.t *)
  dflt_dt : option Z;             (* self.dt *)
  dflt_tol : bool;                (* bool(self.tol) *)
  cur : option Z;                 (* self._dt *)
  queued : option (dir * Qc);     (* self._queued_sweep = [direction, dt_frac] *)
  log : list (dir * Qc);          (* executed sweeps: (direction, self._dt * dt_frac) *)
  errlog : list (Z * Z)           (* one (order, dt) per step: self._err += norm * dt ** (order + 1) *)
}.

Definition set_cur st x := mkst (clk st) (dflt_dt st) (dflt_tol st) x (queued st) (log st) (errlog st).
Definition set_queued st x := mkst (clk st) (dflt_dt st) (dflt_tol st) (cur st) x (log st) (errlog st).
Definition set_log st x := mkst (clk st) (dflt_dt st) (dflt_tol st) (cur st) (queued st) x (errlog st).
Definition set_clk_err st t e := mkst t (dflt_dt st) (dflt_tol st) (cur st) (queued st) (log st) e.

Definition truthy (o : option Z) : bool :=
  match o with Some z => negb (z =? 0) | None => false end.

(* TEBD.__init__(dt, tol, t0): `if dt and tol: raise ValueError` *)
Definition init (t0 : Z) (dt : option Z) (tol : bool) : option state :=
  if truthy dt && tol then None else Some (mkst t0 dt tol dt None [] []).

(* one executed sweep: every gate is expm(-i * self._dt * dt_frac * h) *)
Definition exec (c : cfg) (d : dir) (f : Qc) (st : state) : option state :=
  match cur st with
  | Some dt => Some (set_log st (log st ++ [(d, (zq dt * f)%Qc)]))
  | None => if has_gates c d then None else Some st       (* None * float: TypeError *)
  end.

(* `if dt is not None: dt_frac *= dt / self._dt` *)
Definition scale (frac : Qc) (dtarg : option Z) (st : state) : option Qc :=
  match dtarg with
  | None => Some frac
  | Some d =>
      match cur st with
      | None => None                                           (* TypeError *)
      | Some c0 => if c0 =? 0 then None                        (* ZeroDivisionError *)
                   else Some (frac * (zq d / zq c0))%Qc
      end
  end.

Definition sweep (c : cfg) (d : dir) (frac : Qc) (dtarg : option Z) (queue : bool) (st : state)
  : option state :=
  match scale frac dtarg st with
  | None => None
  | Some f =>
    if queue then
      match queued st with
      | Some (qd, qf) =>
          if dir_eqb d qd then Some (set_queued st (Some (qd, (qf + f)%Qc)))   (* combine *)
          else exec c qd qf (set_queued st (Some (d, f)))                     (* perform old, queue new *)
      | None => Some (set_queued st (Some (d, f)))
      end
    else
      match queued st with
      | Some (qd, qf) =>                                                       (* drain first *)
          match exec c qd qf (set_queued st None) with
          | None => None
          | Some st1 => exec c d f st1
          end
      | None => exec c d f st
      end
  end.

Definition dir_of (k : nat) : option dir :=
  match k with O => Some Right | S O => Some Left | _ => None end.

Fixpoint sweeps (c : cfg) (l : list (nat * Qc)) (dtarg : option Z) (queue : bool) (st : state)
  : option state :=
  match l with
  | [] => Some st
  | (k, f) :: r =>
      match dir_of k with
      | None => None
      | Some d =>
          match sweep c d f dtarg queue st with
          | None => None
          | Some st1 => sweeps c r dtarg queue st1
          end
      end
  end.

(* TEBD.step(order, dt, queue) *)
Definition step (c : cfg) (s : Qc) (order : Z) (dtarg : option Z) (queue : bool) (st : state)
  : option state :=
  match sched s 2 order with
  | None => None
  | Some l =>
      match sweeps c l dtarg queue st with
      | None => None
      | Some st1 =>
          match (match dtarg with None => cur st1 | Some d => Some d end) with
          | None => None
          | Some d => Some (set_clk_err st1 (clk st1 + d) (errlog st1 ++ [(order, d)]))
          end
      end
  end.

(* _compute_sweep_dt_tol; `chosen` = what choose_time_step returns if it is consulted *)
Definition compute_dt (dtarg : option Z) (tolarg : option bool) (chosen : Z) (st : state)
  : option state :=
  let dt := match dtarg with None => dflt_dt st | Some d => Some d end in
  let tol := match tolarg with None => dflt_tol st | Some b => b end in
  if negb (truthy dt || tol) then None
  else if truthy dt && tol then None
  else match dt with
       | None => Some (set_cur st (Some chosen))
       | Some d => Some (set_cur st (Some d))
       end.

(* while self.t < T - self._dt: self.step(order, dt=None, queue=True) *)
Fixpoint loop (c : cfg) (s : Qc) (order T : Z) (fuel : nat) (st : state) : option state :=
  match cur st with
  | None => None
  | Some d =>
      if clk st <? T - d then
        match fuel with
        | O => None                                    (* does not terminate *)
        | S fuel' =>
            match step c s order None true st with
            | None => None
            | Some st1 => loop c s order T fuel' st1
            end
        end
      else Some st
  end.

Definition update_to (c : cfg) (s : Qc) (T : Z) (dtarg : option Z) (tolarg : option bool)
  (chosen order : Z) (st : state) : option state :=
  if T <? clk st - cTolU c then None                   (* NotImplementedError *)
  else
    match compute_dt dtarg tolarg chosen st with
    | None => None
    | Some st1 =>
        match loop c s order T (Z.to_nat (T - clk st1)) st1 with
        | None => None
        | Some st2 => step c s order (Some (T - clk st2)) false st2
        end
    end.

Fixpoint insert_sorted (x : Z) (l : list Z) : list Z :=
  match l with
  | [] => [x]
  | y :: r => if x <=? y then x :: l else y :: insert_sorted x r
  end.
Definition sorted (l : list Z) : list Z := fold_right insert_sorted [] l.

Fixpoint update_each (c : cfg) (s : Qc) (ts : list Z) (dt order : Z) (st : state) : option state :=
  match ts with
  | [] => Some st
  | T :: r =>
      match update_to c s T (Some dt) (Some false) 0 order st with
      | None => None
      | Some st1 => update_each c s r dt order st1
      end
  end.

(* at_times (consumed completely) *)
Definition at_times (c : cfg) (s : Qc) (ts : list Z) (dtarg : option Z) (tolarg : option bool)
  (chosen order : Z) (st : state) : option state :=
  let ts' := sorted ts in
  match ts' with
  | [] => None                                          (* ts[-1]: IndexError *)
  | _ =>
      match compute_dt dtarg tolarg chosen st with
      | None => None
      | Some st1 =>
          match cur st1 with
          | None => None
          | Some d => update_each c s ts' d order st1
          end
      end
  end.

Inductive op :=
| OSweep (d : dir) (frac : Qc) (dt : option Z) (queue : bool)
| OStep (order : Z) (dt : option Z) (queue : bool)
| OUpdateTo (T : Z) (dt : option Z) (tol : option bool) (chosen order : Z)
| OAtTimes (ts : list Z) (dt : option Z) (tol : option bool) (chosen order : Z).

Definition apply_op (c : cfg) (s : Qc) (o : op) (st : state) : option state :=
  match o with
  | OSweep d f dt q => sweep c d f dt q st
  | OStep order dt q => step c s order dt q st
  | OUpdateTo T dt tol ch order => update_to c s T dt tol ch order st
  | OAtTimes ts dt tol ch order => at_times c s ts dt tol ch order st
  end.

Fixpoint run (c : cfg) (s : Qc) (ops : list op) (st : state) : option state :=
  match ops with
  | [] => Some st
  | o :: r => match apply_op c s o st with None => None | Some st1 => run c s r st1 end
  end.

(* ---------------------------------------------------------------- *)
(* merged form of a sweep log: adjacent equal-direction entries add
   (kept reversed: head = most recent)                               *)

Definition push (acc : list (dir * Qc)) (e : dir * Qc) : list (dir * Qc) :=
  match acc with
  | (d', f') :: r => if dir_eqb (fst e) d' then (d', (f' + snd e)%Qc) :: r else e :: acc
  | [] => [e]
  end.
Definition normr (l : list (dir * Qc)) : list (dir * Qc) := fold_left push l [].

(* the product formula of one step of length `len` (clock units) *)
Definition dirs_of (l : list (nat * Qc)) : list (dir * Qc) :=
  flat_map (fun kf => match dir_of (fst kf) with Some d => [(d, snd kf)] | None => [] end) l.
Definition formula (l : list (nat * Qc)) (len : Z) : list (dir * Qc) :=
  map (fun df => (fst df, (zq len * snd df)%Qc)) (dirs_of l).

Fixpoint repeat_app {A} (l : list A) (n : nat) : list A :=
  match n with O => [] | S m => l ++ repeat_app l m end.

(* what is still to be executed, at the current self._dt *)
Definition pending (st : state) : list (dir * Qc) :=
  log st ++ match queued st, cur st with
            | Some (qd, qf), Some d => [(qd, (zq d * qf)%Qc)]
            | _, _ => []
            end.

(* gate level expansion of a sweep log: (site_a, site_b, time) *)
Definition expand (c : cfg) (l : list (dir * Qc)) : list (Z * Z * Qc) :=
  flat_map (fun df => map (fun b => (fst b, snd b, snd df)) (bonds c (fst df))) l.

(* number of full steps update_to takes from t to T with step d *)
Definition nfull (t T d : Z) : Z := Z.max 0 ((T - t - 1) / d).

(* C11: the order-4 condition of the Suzuki recursion
   S4(x) = S2(s x)^2 S2((1 - 4 s) x) S2(s x)^2:  4 s^3 + (1 - 4 s)^3 = 0
   for s = 1 / (4 - 4^(1/3)), over Coq's real numbers (standard-library real
   axioms only). *)
From Coq Require Import Reals Lra.
Open Scope R_scope.

Definition cbrt4 : R := Rpower 4 (/ 3).

Lemma cbrt4_cube : cbrt4 * cbrt4 * cbrt4 = 4.
Proof.
  unfold cbrt4. rewrite <- !Rpower_plus.
  replace (/ 3 + / 3 + / 3) with 1 by field.
  apply Rpower_1. lra.
Qed.

Lemma cube_root_not_4 c : c * c * c = 4 -> 4 - c <> 0.
Proof. intros H E. assert (c = 4) by lra. subst c. lra. Qed.

Lemma suzuki_cubic_any c : c * c * c = 4 ->
  let s := / (4 - c) in 4 * (s * s * s) + (1 - 4 * s) * (1 - 4 * s) * (1 - 4 * s) = 0.
Proof.
  intros H s. subst s. pose proof (cube_root_not_4 c H) as Hn.
  assert (E : 1 - 4 * / (4 - c) = - c * / (4 - c)) by (field; exact Hn).
  rewrite E.
  replace (- c * / (4 - c) * (- c * / (4 - c)) * (- c * / (4 - c)))
    with (- (c * c * c) * (/ (4 - c) * / (4 - c) * / (4 - c))) by ring.
  rewrite H. ring.
Qed.

Theorem suzuki_cubic :
  let s := 1 / (4 - Rpower 4 (/ 3)) in 4 * s ^ 3 + (1 - 4 * s) ^ 3 = 0.
Proof.
  cbn zeta. pose proof (suzuki_cubic_any cbrt4 cbrt4_cube) as H. cbn zeta in H.
  unfold cbrt4 in H. unfold Rdiv. rewrite Rmult_1_l. cbn [pow]. rewrite !Rmult_1_r.
  rewrite <- H. ring.
Qed.

(* C11 proofs: the generic sweep of TEBDSweepMixin (with and without
   second_order_reflect) and the default-term fill of LocalHam2D / LocalHam3D. *)
From Coq Require Import ZArith QArith Qcanon List Bool Lia Field.
From QV Require Import C11.Model C11.Proofs C11.Sched C11.HamModel C11.HamProofs.
Import ListNotations.
Open Scope Z_scope.

Lemma sweep_order_palindromic o : rev (sweep_order o true) = sweep_order o true.
Proof. unfold sweep_order. rewrite rev_app_distr, rev_involutive. reflexivity. Qed.

Lemma sweep_gates_palindromic o tau : rev (sweep_gates o true tau) = sweep_gates o true tau.
Proof. unfold sweep_gates. rewrite <- map_rev, sweep_order_palindromic. reflexivity. Qed.

Lemma term_exponent_app w a b : term_exponent w (a ++ b) = (term_exponent w a + term_exponent w b)%Qc.
Proof. induction a as [|[w' x] r IH]; cbn [term_exponent app]; [ring|]. rewrite IH. ring. Qed.

Lemma kcount_app w a b : kcount w (a ++ b) = (kcount w a + kcount w b)%nat.
Proof. induction a as [|w' r IH]; cbn [kcount app]; [reflexivity|]. rewrite IH. lia. Qed.

Lemma kcount_rev w o : kcount w (rev o) = kcount w o.
Proof. induction o as [|w' r IH]; cbn [rev kcount]; [reflexivity|]. rewrite kcount_app, IH. cbn [kcount]. lia. Qed.

Lemma term_exponent_const w x o :
  term_exponent w (map (fun u => (u, x)) o) = (zq (Z.of_nat (kcount w o)) * x)%Qc.
Proof.
  induction o as [|w' r IH]; cbn [map term_exponent kcount].
  - change (Z.of_nat 0) with 0. rewrite zq_0. ring.
  - rewrite IH. destruct (key_eqb w w').
    + rewrite Nat2Z.inj_add, zq_add. change (Z.of_nat 1) with 1. rewrite zq_1. ring.
    + cbn [Nat.add]. ring.
Qed.

(* every sweep, reflected or not, exponentiates each term for tau times the
   number of times its pair occurs in the ordering (once, for an ordering
   without repetitions) *)
Theorem sweep_term_exponent w o reflect tau :
  term_exponent w (sweep_gates o reflect tau) = (zq (Z.of_nat (kcount w o)) * tau)%Qc.
Proof.
  unfold sweep_gates, sweep_order. destruct reflect.
  - rewrite term_exponent_const, kcount_app, kcount_rev, Nat2Z.inj_add, zq_add.
    unfold qtwo. field. intro H; discriminate H.
  - apply term_exponent_const.
Qed.

Lemma kcount_once w o : NoDup o -> In w o -> kcount w o = 1%nat.
Proof.
  induction 1 as [|u r Hu Hr IH]; cbn [In kcount]; [tauto|]. intros [->|Hin].
  - rewrite key_eqb_refl.
    assert (kcount w r = 0%nat); [|lia].
    clear -Hu. induction r as [|v r IH]; cbn [kcount]; [reflexivity|].
    destruct (key_eqb w v) eqn:E; [apply key_eqb_eq in E; subst; exfalso; apply Hu; left; reflexivity|].
    apply IH. intros H. apply Hu. right. exact H.
  - destruct (key_eqb w u) eqn:E; [apply key_eqb_eq in E; subst; contradiction|]. rewrite (IH Hin). reflexivity.
Qed.

Corollary sweep_term_exponent_once w o reflect tau : NoDup o -> In w o ->
  term_exponent w (sweep_gates o reflect tau) = tau.
Proof.
  intros Hn Hi. rewrite sweep_term_exponent, (kcount_once _ _ Hn Hi). change (Z.of_nat 1) with 1. rewrite zq_1. ring.
Qed.

Lemma sweep_gates_length o reflect tau :
  length (sweep_gates o reflect tau) = ((if reflect then 2 else 1) * length o)%nat.
Proof. unfold sweep_gates, sweep_order. rewrite map_length. destruct reflect; [rewrite app_length, rev_length|]; lia. Qed.

(* ---- LocalHam2D / 3D: the default term goes under the DIRECTED bonds ---- *)

Lemma fill_default_spec bs : forall H2 X,
  exists added, fill_default bs H2 X = H2 ++ added
    /\ Forall (fun kv => In (fst kv) bs /\ snd kv = X) added.
Proof.
  unfold fill_default. induction bs as [|b r IH]; intros H2 X; cbn [fold_left].
  - exists []. rewrite app_nil_r. split; [reflexivity|constructor].
  - destruct (mem_key b H2 || mem_key (snd b, fst b) H2).
    + destruct (IH H2 X) as (added & E & F). exists added. split; [exact E|].
      eapply Forall_impl; [|exact F]. intros kv [A B]. split; [right; exact A|exact B].
    + destruct (IH (H2 ++ [(b, X)]) X) as (added & E & F). exists ((b, X) :: added).
      rewrite E, <- app_assoc. split; [reflexivity|]. constructor.
      * split; [left; reflexivity|reflexivity].
      * eapply Forall_impl; [|exact F]. intros kv [A B]. split; [right; exact A|exact B].
Qed.

(* C11 proofs (b): the pair terms stored by LocalHamGen denote
   sum(H2) + sum(H1); flipping a (j, i) term is swap conjugation. *)
From Coq Require Import ZArith QArith Qcanon List Bool Lia Field PeanoNat.
From QV Require Import C11.Model C11.Proofs C11.HamModel.
Import ListNotations.
Open Scope Z_scope.

Lemma key_eqb_eq a b : key_eqb a b = true -> a = b.
Proof.
  destruct a as [a1 a2], b as [b1 b2]. unfold key_eqb. cbn. intros H.
  apply andb_true_iff in H as [H1 H2]. apply Z.eqb_eq in H1, H2. congruence.
Qed.
Lemma key_eqb_refl a : key_eqb a a = true.
Proof. unfold key_eqb. rewrite !Z.eqb_refl. reflexivity. Qed.

Lemma zq_add a b : zq (a + b) = (zq a + zq b)%Qc.
Proof.
  unfold zq, Qcplus. apply Q2Qc_eq_iff. cbn [this Q2Qc]. rewrite !Qred_correct.
  rewrite inject_Z_plus. reflexivity.
Qed.
Lemma zq_1 : zq 1 = 1%Qc.
Proof. apply Qc_is_canon. reflexivity. Qed.
Lemma zq_0 : zq 0 = 0%Qc.
Proof. apply Qc_is_canon. reflexivity. Qed.

(* raveled two-site indices *)
Lemma ravel_mod d i j : (j < d)%nat -> ((i * d + j) mod d = j)%nat.
Proof. intros H. rewrite Nat.add_comm, Nat.mod_add by lia. apply Nat.mod_small. exact H. Qed.
Lemma ravel_div d i j : (j < d)%nat -> ((i * d + j) / d = i)%nat.
Proof. intros H. rewrite Nat.add_comm, Nat.div_add by lia. rewrite Nat.div_small by exact H. reflexivity. Qed.

Definition keys (l : dict) : list key := map fst l.

Lemma lookup_in k l X : lookup k l = Some X -> In k (keys l).
Proof.
  induction l as [|[k' v] r IH]; cbn [lookup keys map fst]; [discriminate|].
  destruct (key_eqb k k') eqn:E; [intros _; left; symmetry; apply key_eqb_eq; exact E|].
  intros H. right. apply IH. exact H.
Qed.
Lemma in_lookup k l : In k (keys l) -> exists X, lookup k l = Some X.
Proof.
  induction l as [|[k' v] r IH]; cbn [lookup keys map fst In]; [tauto|].
  intros [->|H]; [rewrite key_eqb_refl; eexists; reflexivity|].
  destruct (key_eqb k k'); [eexists; reflexivity|apply IH; exact H].
Qed.
Lemma keys_update k v l : keys (update k v l) = keys l.
Proof.
  induction l as [|[k' v'] r IH]; cbn [update keys map fst]; [reflexivity|].
  destruct (key_eqb k k'); cbn [map fst]; [reflexivity|]. f_equal. exact IH.
Qed.
Lemma keys_remove_incl k l w : In w (keys (remove k l)) -> In w (keys l).
Proof.
  induction l as [|[k' v] r IH]; cbn [remove keys map fst]; [tauto|].
  destruct (key_eqb k k'); cbn [map fst In]; [tauto|]. intros [H|H]; [left; exact H|right; apply IH; exact H].
Qed.

Section Sum.
  Variable d : nat.
  Variable sites : list Z.
  Variables sg sg' : Z -> nat.
  Hypothesis Hd : (0 < d)%nat.
  Hypothesis Hsg : forall k, (sg k < d)%nat /\ (sg' k < d)%nat.
  Hypothesis Hnd : NoDup sites.

  Notation E2 := (E2 d sites sg sg').
  Notation E1 := (E1 sites sg sg').
  Notation total := (total d sites sg sg').
  Notation total1 := (total1 sites sg sg').
  Notation delta_rest := (delta_rest sg sg').

  (* ---- index arithmetic ---- *)

  Lemma delta_rest_swap a b l : delta_rest [b; a] l = delta_rest [a; b] l.
  Proof.
    induction l as [|k r IH]; cbn [HamModel.delta_rest existsb]; [reflexivity|].
    rewrite !orb_false_r. rewrite (orb_comm (k =? b) (k =? a)). rewrite IH. reflexivity.
  Qed.

  Lemma delta_rest_notin a b l : ~ In b l -> delta_rest [a] l = delta_rest [a; b] l.
  Proof.
    induction l as [|k r IH]; cbn [HamModel.delta_rest existsb In]; [reflexivity|].
    intros Hn. rewrite !orb_false_r.
    replace (k =? b) with false by (symmetry; apply Z.eqb_neq; intro; subst; tauto).
    rewrite orb_false_r. rewrite IH by tauto. reflexivity.
  Qed.

  Lemma delta_split a b l : NoDup l -> In b l -> b <> a ->
    delta_rest [a] l = ((if Nat.eqb (sg b) (sg' b) then 1 else 0) * delta_rest [a; b] l)%Qc.
  Proof.
    induction 1 as [|k r Hk Hr IH]; cbn [HamModel.delta_rest existsb In]; [tauto|].
    intros Hin Hne. rewrite !orb_false_r. destruct (Z.eq_dec k b) as [->|Hkb].
    - replace (b =? a) with false by (symmetry; apply Z.eqb_neq; exact Hne).
      rewrite Z.eqb_refl. cbn [orb]. rewrite (delta_rest_notin a b r Hk).
      destruct (Nat.eqb (sg b) (sg' b)); ring.
    - replace (k =? b) with false by (symmetry; apply Z.eqb_neq; exact Hkb). rewrite orb_false_r.
      assert (Hin' : In b r) by (destruct Hin; [congruence|assumption]).
      rewrite (IH Hin' Hne).
      destruct (k =? a); [reflexivity|]. destruct (Nat.eqb (sg k) (sg' k)); ring.
  Qed.

  (* flipping a (j, i) term is conjugation with the swap of the two factors *)
  Lemma flip_swaps a b X : E2 (b, a) (flipm d X) = E2 (a, b) X.
  Proof.
    unfold HamModel.E2, flipm. cbn [fst snd].
    destruct (Hsg a) as [Ha Ha']. destruct (Hsg b) as [Hb Hb'].
    rewrite !ravel_mod, !ravel_div by assumption. rewrite delta_rest_swap. reflexivity.
  Qed.

  Lemma op_id_embeds a b h : a <> b -> In b sites -> E2 (a, b) (op_id d h) = E1 a h.
  Proof.
    intros Hne Hin. unfold HamModel.E2, HamModel.E1, op_id. cbn [fst snd].
    destruct (Hsg a) as [Ha Ha']. destruct (Hsg b) as [Hb Hb'].
    rewrite !ravel_mod, !ravel_div by assumption.
    rewrite (delta_split a b sites Hnd Hin) by congruence.
    destruct (Nat.eqb (sg b) (sg' b)); ring.
  Qed.

  Lemma id_op_embeds a b h : a <> b -> In a sites -> E2 (a, b) (id_op d h) = E1 b h.
  Proof.
    intros Hne Hin. unfold HamModel.E2, HamModel.E1, id_op. cbn [fst snd].
    destruct (Hsg a) as [Ha Ha']. destruct (Hsg b) as [Hb Hb'].
    rewrite !ravel_mod, !ravel_div by assumption.
    rewrite (delta_split b a sites Hnd Hin) by congruence. rewrite delta_rest_swap.
    destruct (Nat.eqb (sg a) (sg' a)); ring.
  Qed.

  Lemma E2_add w X Y : E2 w (madd X Y) = (E2 w X + E2 w Y)%Qc.
  Proof. unfold HamModel.E2, madd. ring. Qed.
  Lemma E2_divn w X n : E2 w (mdivn X n) = (E2 w X / zq (Z.of_nat n))%Qc.
  Proof. unfold HamModel.E2, mdivn, Qcdiv. ring. Qed.

  (* ---- dictionary bookkeeping ---- *)

  Lemma total_nil : total [] = 0%Qc.
  Proof. reflexivity. Qed.
  Lemma total_cons k v r : total ((k, v) :: r) = (E2 k v + total r)%Qc.
  Proof. reflexivity. Qed.
  Lemma total1_cons a h r : total1 ((a, h) :: r) = (E1 a h + total1 r)%Qc.
  Proof. reflexivity. Qed.

  Lemma total_app l m : total (l ++ m) = (total l + total m)%Qc.
  Proof.
    induction l as [|[k v] r IH]; cbn [app].
    - rewrite total_nil. ring.
    - rewrite !total_cons, IH. ring.
  Qed.

  Lemma total_snoc l k v : total (l ++ [(k, v)]) = (total l + E2 k v)%Qc.
  Proof.
    induction l as [|[k' v'] r IH]; cbn [app].
    - unfold HamModel.total. cbn [fold_right fst snd]. ring.
    - rewrite !total_cons, IH. ring.
  Qed.

  Lemma total_remove k l X : lookup k l = Some X -> total l = (E2 k X + total (remove k l))%Qc.
  Proof.
    induction l as [|[k' v] r IH]; cbn [lookup remove]; [discriminate|].
    destruct (key_eqb k k') eqn:E.
    - intros H. injection H as ->. apply key_eqb_eq in E. subst k'. apply total_cons.
    - intros H. rewrite !total_cons. rewrite (IH H). ring.
  Qed.

  Lemma total_update k l Y v : lookup k l = Some Y ->
    (total (update k v l) + E2 k Y = total l + E2 k v)%Qc.
  Proof.
    induction l as [|[k' v'] r IH]; cbn [lookup update]; [discriminate|].
    destruct (key_eqb k k') eqn:E.
    - intros H. injection H as ->. apply key_eqb_eq in E. subst k'.
      rewrite !total_cons. ring.
    - intros H. rewrite !total_cons.
      specialize (IH H). rewrite <- Qcplus_assoc, IH. ring.
  Qed.

  (* ---- first loop: ordering the keys does not change the sum ---- *)

  Lemma flip_one_total terms w : total (flip_one d terms w) = total terms.
  Proof.
    unfold flip_one. destruct (fst w <? snd w); [reflexivity|].
    destruct (lookup w terms) as [X|] eqn:HX; [|reflexivity].
    rewrite (total_remove _ _ _ HX). destruct w as [a b]. cbn [fst snd].
    destruct (lookup (b, a) (remove (a, b) terms)) as [Y|] eqn:HY.
    - pose proof (total_update _ _ _ (madd Y (flipm d X)) HY) as H.
      rewrite E2_add, flip_swaps in H.
      assert (G : forall x y z u : Qc, (x + y = z + (y + u) -> x = z + u)%Qc).
      { intros x y z u E. assert (E' : (x + y - y = z + (y + u) - y)%Qc) by (rewrite E; reflexivity).
        ring_simplify in E'. rewrite E'. ring. }
      rewrite (G _ _ _ _ H). ring.
    - rewrite total_snoc. rewrite flip_swaps. ring.
  Qed.

  Lemma flip_phase_total terms : total (flip_phase d terms) = total terms.
  Proof.
    unfold flip_phase. generalize (map fst terms) as ws. intros ws. revert terms.
    induction ws as [|w r IH]; intros terms; cbn [fold_left]; [reflexivity|].
    rewrite IH. apply flip_one_total.
  Qed.

  (* ---- keys stay well formed ---- *)

  Definition good_key (w : key) : Prop := fst w <> snd w /\ In (fst w) sites /\ In (snd w) sites.
  Definition good (l : dict) : Prop := forall w, In w (keys l) -> good_key w.

  Lemma flip_one_good terms w : good terms -> good (flip_one d terms w).
  Proof.
    intros G. unfold flip_one. destruct (fst w <? snd w); [exact G|].
    destruct (lookup w terms) as [X|] eqn:HX; [|exact G].
    assert (Gw : good_key w) by (apply G; eapply lookup_in; exact HX).
    assert (G1 : good (remove w terms)) by (intros u Hu; apply G; eapply keys_remove_incl; exact Hu).
    destruct (lookup (snd w, fst w) (remove w terms)) as [Y|].
    - intros u Hu. rewrite keys_update in Hu. apply G1. exact Hu.
    - intros u Hu. unfold keys in Hu. rewrite map_app in Hu. apply in_app_iff in Hu as [Hu|Hu].
      + apply G1. exact Hu.
      + cbn in Hu. destruct Hu as [<-|[]]. destruct Gw as (A & B & C). repeat split; cbn; auto.
  Qed.

  Lemma flip_phase_good terms : good terms -> good (flip_phase d terms).
  Proof.
    unfold flip_phase. generalize (map fst terms) as ws. intros ws. revert terms.
    induction ws as [|w r IH]; intros terms G; cbn [fold_left]; [exact G|].
    apply IH. apply flip_one_good. exact G.
  Qed.

  (* ---- second loop: absorbing one single-site term adds exactly it ---- *)

  Lemma covering_in site terms pair : In pair (covering site terms) ->
    In pair (keys terms) /\ (fst pair = site \/ snd pair = site).
  Proof.
    unfold covering. intros H. apply in_flat_map in H as (w & Hw & Hin).
    apply in_app_iff in Hin as [Hin|Hin].
    - destruct (fst w =? site) eqn:E; [|destruct Hin]. destruct Hin as [<-|[]].
      split; [exact Hw|left; apply Z.eqb_eq; exact E].
    - destruct (snd w =? site) eqn:E; [|destruct Hin]. destruct Hin as [<-|[]].
      split; [exact Hw|right; apply Z.eqb_eq; exact E].
  Qed.

  Lemma add_into_total site H n tm pair :
    good tm -> In pair (keys tm) -> (fst pair = site \/ snd pair = site) ->
    total (add_into d site H n tm pair) = (total tm + E1 site H / zq (Z.of_nat n))%Qc
    /\ keys (add_into d site H n tm pair) = keys tm.
  Proof.
    intros G Hin Hs. unfold add_into. destruct (in_lookup _ _ Hin) as (Y & HY). rewrite HY.
    split; [|apply keys_update].
    pose proof (total_update _ _ _ (madd Y (mdivn (if fst pair =? site then op_id d H else id_op d H) n)) HY) as HT.
    rewrite E2_add, E2_divn in HT.
    destruct (G _ Hin) as (Hne & Ha & Hb). destruct pair as [a b]. cbn [fst snd] in *.
    assert (HE : E2 (a, b) (if a =? site then op_id d H else id_op d H) = E1 site H).
    { destruct (a =? site) eqn:E.
      - apply Z.eqb_eq in E. subst site. apply op_id_embeds; assumption.
      - apply Z.eqb_neq in E. destruct Hs as [Hs|Hs]; [congruence|]. subst site.
        apply id_op_embeds; assumption. }
    rewrite HE in HT.
    assert (G' : forall x y z u : Qc, (x + y = z + (y + u) -> x = z + u)%Qc).
    { intros x y z u E. assert (E' : (x + y - y = z + (y + u) - y)%Qc) by (rewrite E; reflexivity).
      ring_simplify in E'. rewrite E'. ring. }
    apply (G' _ _ _ _ HT).
  Qed.

  Lemma good_keys_eq a b : keys a = keys b -> good b -> good a.
  Proof. unfold good. intros ->. auto. Qed.

  Lemma fold_add_into_total site H n : forall pairs tm,
    good tm -> (forall p, In p pairs -> In p (keys tm) /\ (fst p = site \/ snd p = site)) ->
    total (fold_left (add_into d site H n) pairs tm)
      = (total tm + zq (Z.of_nat (length pairs)) * (E1 site H / zq (Z.of_nat n)))%Qc
    /\ keys (fold_left (add_into d site H n) pairs tm) = keys tm.
  Proof.
    induction pairs as [|p r IH]; intros tm G Hp; cbn [fold_left length].
    - cbn. rewrite zq_0. split; [ring|reflexivity].
    - destruct (Hp p (or_introl eq_refl)) as (Hin & Hs).
      destruct (add_into_total site H n tm p G Hin Hs) as (T1 & K1).
      destruct (IH (add_into d site H n tm p)) as (T2 & K2).
      + eapply good_keys_eq; [exact K1|exact G].
      + intros q Hq. rewrite K1. apply Hp. right. exact Hq.
      + split; [|congruence]. rewrite T2, T1. rewrite Nat2Z.inj_succ. unfold Z.succ. rewrite zq_add, zq_1. ring.
  Qed.

  Lemma distribute_one_total terms sh t1 : good terms -> distribute_one d terms sh = Some t1 ->
    total t1 = (total terms + E1 (fst sh) (snd sh))%Qc /\ keys t1 = keys terms.
  Proof.
    intros G. unfold distribute_one. destruct (length (covering (fst sh) terms)) as [|m] eqn:En; [discriminate|].
    intros H. injection H as <-.
    destruct (fold_add_into_total (fst sh) (snd sh) (S m) (covering (fst sh) terms) terms G
                (fun p Hp => covering_in _ _ _ Hp)) as (T & K).
    split; [|exact K]. rewrite T, En. field. apply zq_nz. lia.
  Qed.

  Lemma distribute_total : forall h1 terms t1, good terms -> distribute d terms h1 = Some t1 ->
    total t1 = (total terms + total1 h1)%Qc /\ keys t1 = keys terms.
  Proof.
    induction h1 as [|sh r IH]; intros terms t1 G; cbn [distribute].
    - intros H. injection H as <-. split; [|reflexivity]. change (total1 []) with 0%Qc. ring.
    - destruct sh as [a h]. destruct (distribute_one d terms (a, h)) as [t0|] eqn:H0; [|discriminate].
      intros H. destruct (distribute_one_total _ _ _ G H0) as (T0 & K0).
      destruct (IH t0 t1 (good_keys_eq _ _ K0 G) H) as (T & K).
      split; [|congruence]. rewrite T, T0, total1_cons. cbn [fst snd]. ring.
  Qed.

  (* the stored pair terms denote sum(H2) + sum(H1) *)
  Theorem localham_sum H2 h1 dflt terms : good H2 -> localham d H2 h1 dflt = Some terms ->
    total terms = (total H2 + total1 (h1_full (sites_of H2) h1 dflt))%Qc.
  Proof.
    intros G H. unfold localham in H.
    destruct (distribute_total _ _ _ (flip_phase_good _ G) H) as (T & _).
    rewrite T, flip_phase_total. reflexivity.
  Qed.
End Sum.

(* a single-site term on a site no pair covers is rejected, and only then *)
Lemma distribute_one_rejects d terms sh :
  distribute_one d terms sh = None <-> covering (fst sh) terms = [].
Proof.
  unfold distribute_one. destruct (covering (fst sh) terms); cbn; split; intros H; try reflexivity; discriminate.
Qed.

(* after the first loop every key is ordered (provided there are no self loops) *)
Lemma flip_one_keys_ordered d terms w :
  (forall u, In u (keys terms) -> u <> w -> fst u < snd u) -> fst w <> snd w -> In w (keys terms) ->
  NoDup (keys terms) ->
  forall u, In u (keys (flip_one d terms w)) -> fst u < snd u.
Proof.
  intros Ho Hne Hin Hnd u. unfold flip_one. destruct (fst w <? snd w) eqn:E.
  - intros Hu. destruct (key_eqb u w) eqn:Eu.
    + apply key_eqb_eq in Eu. subst u. apply Z.ltb_lt. exact E.
    + apply Ho; [exact Hu|]. intros ->. rewrite key_eqb_refl in Eu. discriminate.
  - apply Z.ltb_ge in E. destruct (in_lookup _ _ Hin) as (X & HX). rewrite HX.
    assert (Hrem : forall v, In v (keys (remove w terms)) -> In v (keys terms) /\ v <> w).
    { clear -Hnd. induction terms as [|[k' v'] r IH]; cbn [remove keys map fst]; [tauto|].
      inversion Hnd as [|? ? Hk Hr]; subst. destruct (key_eqb w k') eqn:E.
      - apply key_eqb_eq in E. subst k'. intros v Hv. split; [right; exact Hv|]. intros ->. apply Hk. exact Hv.
      - cbn [map fst In]. intros v [<-|Hv].
        + split; [left; reflexivity|]. intros ->. rewrite key_eqb_refl in E. discriminate.
        + destruct (IH Hr v Hv). split; [right|]; assumption. }
    destruct (lookup (snd w, fst w) (remove w terms)) as [Y|].
    + rewrite keys_update. intros Hu. destruct (Hrem _ Hu). apply Ho; assumption.
    + unfold keys. rewrite map_app. intros Hu. apply in_app_iff in Hu as [Hu|Hu].
      * destruct (Hrem _ Hu). apply Ho; assumption.
      * cbn in Hu. destruct Hu as [<-|[]]. cbn. lia.
Qed.

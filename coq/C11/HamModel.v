(* C11 model (b): LocalHamGen.__init__ / LocalHam1D.__init__ term bookkeeping
   (quimb/tensor/tnag/tebd.py, quimb/tensor/tn1d/tebd.py) on matrices over Qc.
   A matrix is a function row -> column -> entry on raveled two-site indices
   (r = i * d + j); dictionaries are insertion-ordered association lists.
   Hand-written; tied to the implementation by correspondence (harness/c11.py). *)
From Coq Require Import ZArith QArith Qcanon List Bool.
From QV Require Import C11.Model.
Import ListNotations.
Open Scope Z_scope.

Definition mat := nat -> nat -> Qc.
Definition madd (x y : mat) : mat := fun r c => (x r c + y r c)%Qc.
Definition mdivn (x : mat) (n : nat) : mat := fun r c => (x r c / zq (Z.of_nat n))%Qc.

(* _flip_cached: reshape (d,d,d,d), transpose (1,0,3,2), reshape (d*d, d*d) *)
Definition flipm (d : nat) (x : mat) : mat :=
  fun r c => x ((r mod d) * d + r / d)%nat ((c mod d) * d + c / d)%nat.
(* _op_id_cached: kron(h, eye(d));  _id_op_cached: kron(eye(d), h) *)
Definition op_id (d : nat) (h : mat) : mat :=
  fun r c => if Nat.eqb (r mod d) (c mod d) then h (r / d)%nat (c / d)%nat else 0%Qc.
Definition id_op (d : nat) (h : mat) : mat :=
  fun r c => if Nat.eqb (r / d) (c / d) then h (r mod d)%nat (c mod d)%nat else 0%Qc.

Definition key := (Z * Z)%type.
Definition key_eqb (a b : key) : bool := (fst a =? fst b) && (snd a =? snd b).
Definition dict := list (key * mat).

Fixpoint lookup (k : key) (l : dict) : option mat :=
  match l with
  | [] => None
  | (k', v) :: r => if key_eqb k k' then Some v else lookup k r
  end.
Fixpoint remove (k : key) (l : dict) : dict :=
  match l with
  | [] => []
  | (k', v) :: r => if key_eqb k k' then r else (k', v) :: remove k r
  end.
(* d[k] = v for a key that is present: position kept *)
Fixpoint update (k : key) (v : mat) (l : dict) : dict :=
  match l with
  | [] => []
  | (k', v') :: r => if key_eqb k k' then (k', v) :: r else (k', v') :: update k v r
  end.

(* first loop of LocalHamGen.__init__: make every key ordered, flipping the term *)
Definition flip_one (d : nat) (terms : dict) (w : key) : dict :=
  if fst w <? snd w then terms
  else match lookup w terms with
       | None => terms
       | Some X =>
           let terms1 := remove w terms in
           let X12 := flipm d X in
           let nw := (snd w, fst w) in
           match lookup nw terms1 with
           | Some Y => update nw (madd Y X12) terms1
           | None => terms1 ++ [(nw, X12)]
           end
       end.
Definition flip_phase (d : nat) (terms : dict) : dict :=
  fold_left (flip_one d) (map fst terms) terms.

(* _sites_to_covering_terms[site] *)
Definition covering (site : Z) (terms : dict) : list key :=
  flat_map (fun w => (if fst w =? site then [w] else []) ++ (if snd w =? site then [w] else []))
           (map fst terms).

Definition add_into (d : nat) (site : Z) (H : mat) (n : nat) (tm : dict) (pair : key) : dict :=
  let Ht := if fst pair =? site then op_id d H else id_op d H in    (* H_tensoreds[pair.index(site)] *)
  match lookup pair tm with
  | Some Y => update pair (madd Y (mdivn Ht n)) tm
  | None => tm
  end.

(* absorb one single-site term; None = ValueError (site not coupled to anything) *)
Definition distribute_one (d : nat) (terms : dict) (sh : Z * mat) : option dict :=
  let pairs := covering (fst sh) terms in
  let n := length pairs in
  match n with
  | O => None
  | _ => Some (fold_left (add_into d (fst sh) (snd sh) n) pairs terms)
  end.

Fixpoint distribute (d : nat) (terms : dict) (h1 : list (Z * mat)) : option dict :=
  match h1 with
  | [] => Some terms
  | sh :: r => match distribute_one d terms sh with None => None | Some t1 => distribute d t1 r end
  end.

Fixpoint dedup_sorted (l : list Z) : list Z :=
  match l with
  | x :: ((y :: _) as r) => if x =? y then dedup_sorted r else x :: dedup_sorted r
  | _ => l
  end.
(* self.sites = tuple(sorted({coo for where in terms for coo in where})) *)
Definition sites_of (terms : dict) : list Z :=
  dedup_sorted (sorted (flat_map (fun w => [fst w; snd w]) (map fst terms))).

(* H1s: explicit entries, then the default for every remaining site (setdefault) *)
Definition h1_full (sites : list Z) (h1 : list (Z * mat)) (dflt : option mat) : list (Z * mat) :=
  match dflt with
  | None => h1
  | Some D => h1 ++ map (fun s => (s, D))
                        (filter (fun s => negb (existsb (fun sh => fst sh =? s) h1)) sites)
  end.

Definition localham (d : nat) (H2 : dict) (h1 : list (Z * mat)) (dflt : option mat) : option dict :=
  distribute d (flip_phase d H2) (h1_full (sites_of H2) h1 dflt).

(* LocalHam1D.__init__: fill missing nearest-neighbour pairs with the default term *)
Definition mem_key (k : key) (l : dict) : bool := match lookup k l with Some _ => true | None => false end.
Definition ham1d_fill (L : Z) (cyc : bool) (H2 : dict) (dflt2 : option mat) : dict :=
  match dflt2 with
  | None => H2
  | Some X =>
      fold_left (fun acc i =>
                   let a := Z.of_nat i in let b := (a + 1) mod L in
                   if mem_key (a, b) acc || mem_key (b, a) acc then acc else acc ++ [((a, b), X)])
                (seq 0 (Z.to_nat (L + (if cyc then 1 else 0) - 1))) H2
  end.
Definition localham1d (d : nat) (L : Z) (cyc : bool) (H2 : dict) (dflt2 : option mat)
  (h1 : list (Z * mat)) (dflt1 : option mat) : option dict :=
  localham d (ham1d_fill L cyc H2 dflt2) h1 dflt1.

(* get_gate(where) = terms[tuple(sorted(where))] *)
Definition get_gate (terms : dict) (w : key) : option mat :=
  lookup (if fst w <=? snd w then w else (snd w, fst w)) terms.

(* ---------------------------------------------------------------- *)
(* what a dictionary of two-site terms denotes: the matrix element
   <sigma| sum_pairs embed(term) |sigma'> of the many-body operator      *)

Section Denote.
  Variable d : nat.
  Variable sites : list Z.
  Variables sg sg' : Z -> nat.     (* bra / ket configurations *)

  (* product over the sites not in `excl` of delta(sg k, sg' k) *)
  Fixpoint delta_rest (excl : list Z) (l : list Z) : Qc :=
    match l with
    | [] => 1%Qc
    | k :: r => if existsb (Z.eqb k) excl then delta_rest excl r
                else if Nat.eqb (sg k) (sg' k) then delta_rest excl r else 0%Qc
    end.

  Definition E2 (w : key) (X : mat) : Qc :=
    (X (sg (fst w) * d + sg (snd w))%nat (sg' (fst w) * d + sg' (snd w))%nat
     * delta_rest [fst w; snd w] sites)%Qc.
  Definition E1 (a : Z) (h : mat) : Qc :=
    (h (sg a) (sg' a) * delta_rest [a] sites)%Qc.

  Definition total (terms : dict) : Qc :=
    fold_right (fun kv acc => (E2 (fst kv) (snd kv) + acc)%Qc) 0%Qc terms.
  Definition total1 (h1 : list (Z * mat)) : Qc :=
    fold_right (fun sh acc => (E1 (fst sh) (snd sh) + acc)%Qc) 0%Qc h1.
End Denote.

(* tabulate a matrix for comparison with the implementation *)
Definition tab (n : nat) (x : mat) : list Qc :=
  flat_map (fun r => map (fun c => x r c) (seq 0 n)) (seq 0 n).

(* C11 model (b): LocalHamGen.__init__ / LocalHam1D.__init__ term bookkeeping
   (quimb/tensor/tnag/tebd.py, quimb/tensor/tn1d/tebd.py) on matrices over Qc.
   A matrix is a function row -> column -> entry on raveled two-site indices
   (r = i * d + j); dictionaries are insertion-ordered association lists.
   Hand-written; tied to the implementation by correspondence (harness/c11.py). *)
From Coq Require Import ZArith QArith Qcanon List Bool.
From QV Require Import C11.Model.
Import ListNotations.
Open Scope Z_scope.

Definition mat := nat -> nat -> Qc.
Definition madd (x y : mat) : mat := fun r c => (x r c + y r c)%Qc.
Definition mdivn (x : mat) (n : nat) : mat := fun r c => (x r c / zq (Z.of_nat n))%Qc.

(* _flip_cached: reshape (d,d,d,d), transpose (1,0,3,2), reshape (d*d, d*d) *)
Definition flipm (d : nat) (x : mat) : mat :=
  fun r c => x ((r mod d) * d + r / d)%nat ((c mod d) * d + c / d)%nat.
(* _op_id_cached: kron(h, eye(d));  _id_op_cached: kron(eye(d), h) *)
Definition op_id (d : nat) (h : mat) : mat :=
  fun r c => if Nat.eqb (r mod d) (c mod d) then h (r / d)%nat (c / d)%nat else 0%Qc.
Definition id_op (d : nat) (h : mat) : mat :=
  fun r c => if Nat.eqb (r / d) (c / d) then h (r mod d)%nat (c mod d)%nat else 0%Qc.

Definition key := (Z * Z)%type.
Definition key_eqb (a b : key) : bool := (fst a =? fst b) && (snd a =? snd b).
Definition dict := list (key * mat).

Fixpoint lookup (k : key) (l : dict) : option mat :=
  match l with
  | [] => None
  | (k', v) :: r => if key_eqb k k' then Some v else lookup k r
  end.
Fixpoint remove (k : key) (l : dict) : dict :=
  match l with
  | [] => []
  | (k', v) :: r => if key_eqb k k' then r else (k', v) :: remove k r
  end.
(* d[k] = v for a key that is present: position kept *)
Fixpoint update (k : key) (v : mat) (l : dict) : dict :=
  match l with
  | [] => []
  | (k', v') :: r => if key_eqb k k' then (k', v) :: r else (k', v') :: update k v r
  end.

(* first loop of LocalHamGen.__init__: make every key ordered, flipping the term *)
Definition flip_one (d : nat) (terms : dict) (w : key) : dict :=
  if fst w <? snd w then terms
  else match lookup w terms with
       | None => terms
       | Some X =>
           let terms1 := remove w terms in
           let X12 := flipm d X in
           let nw := (snd w, fst w) in
           match lookup nw terms1 with
           | Some Y => update nw (madd Y X12) terms1
           | None => terms1 ++ [(nw, X12)]
           end
       end.
Definition flip_phase (d : nat) (terms : dict) : dict :=
  fold_left (flip_one d) (map fst terms) terms.

(* _sites_to_covering_terms[site] *)
Definition covering (site : Z) (terms : dict) : list key :=
  flat_map (fun w => (if fst w =? site then [w] else []) ++ (if snd w =? site then [w] else []))
           (map fst terms).

Definition add_into (d : nat) (site : Z) (H : mat) (n : nat) (tm : dict) (pair : key) : dict :=
  let Ht := if fst pair =? site then op_id d H else id_op d H in    (* H_tensoreds[pair.index(site)] *)
  match lookup pair tm with
  | Some Y => update pair (madd Y (mdivn Ht n)) tm
  | None => tm
  end.

(* absorb one single-site term; None = ValueError (site not coupled to anything) *)
Definition distribute_one (d : nat) (terms : dict) (sh : Z * mat) : option dict :=
  let pairs := covering (fst sh) terms in
  let n := length pairs in
  match n with
  | O => None
  | _ => Some (fold_left (add_into d (fst sh) (snd sh) n) pairs terms)
  end.

Fixpoint distribute (d : nat) (terms : dict) (h1 : list (Z * mat)) : option dict :=
  match h1 with
  | [] => Some terms
  | sh :: r => match distribute_one d terms sh with None => None | Some t1 => distribute d t1 r end
  end.

Fixpoint dedup_sorted (l : list Z) : list Z :=
  match l with
  | x :: ((y :: _) as r) => if x =? y then dedup_sorted r else x :: dedup_sorted r
  | _ => l
  end.
(* self.sites = tuple(sorted({coo for where in terms for coo in where})) *)
Definition sites_of (terms : dict) : list Z :=
  dedup_sorted (sorted (flat_map (fun w => [fst w; snd w]) (map fst terms))).

(* H1s: explicit entries, then the default for every remaining site (setdefault) *)
Definition h1_full (sites : list Z) (h1 : list (Z * mat)) (dflt : option mat) : list (Z * mat) :=
  match dflt with
  | None => h1
  | Some D => h1 ++ map (fun s => (s, D))
                        (filter (fun s => negb (existsb (fun sh => fst sh =? s) h1)) sites)
  end.

Definition localham (d : nat) (H2 : dict) (h1 : list (Z * mat)) (dflt : option mat) : option dict :=
  distribute d (flip_phase d H2) (h1_full (sites_of H2) h1 dflt).

(* LocalHam1D.__init__: fill missing nearest-neighbour pairs with the default term *)
Definition mem_key (k : key) (l : dict) : bool := match lookup k l with Some _ => true | None => false end.
Definition ham1d_fill (L : Z) (cyc : bool) (H2 : dict) (dflt2 : option mat) : dict :=
  match dflt2 with
  | None => H2
  | Some X =>
      fold_left (fun acc i =>
                   let a := Z.of_nat i in let b := (a + 1) mod L in
                   if mem_key (a, b) acc || mem_key (b, a) acc then acc else acc ++ [((a, b), X)])
                (seq 0 (Z.to_nat (L + (if cyc then 1 else 0) - 1))) H2
  end.
Definition localham1d (d : nat) (L : Z) (cyc : bool) (H2 : dict) (dflt2 : option mat)
  (h1 : list (Z * mat)) (dflt1 : option mat) : option dict :=
  localham d (ham1d_fill L cyc H2 dflt2) h1 dflt1.

(* LocalHam2D / LocalHam3D.__init__: the default term is stored under every DIRECTED bond
   (coo_a, coo_b) that gen_2d_bonds / gen_3d_bonds yields and that is not yet present in either
   orientation.  Sites (i, j) / (i, j, k) are raveled row-major (i * Ly + j, ...): the order of
   the raveled numbers is the lexicographic order of the tuples Python compares. *)
Definition fill_default (bs : list key) (H2 : dict) (X : mat) : dict :=
  fold_left (fun acc b => if mem_key b acc || mem_key (snd b, fst b) acc then acc else acc ++ [(b, X)]) bs H2.

Definition wrap_coo (w L : Z) (cyc : bool) : option Z :=
  if (0 <=? w) && (w <? L) then Some w else if cyc then Some (w mod L) else None.

Definition zrange (n : Z) : list Z := map Z.of_nat (seq 0 (Z.to_nat n)).

(* gen_2d_bonds(Lx, Ly, steppers=[(i, j+1), (i+1, j)], cyclic=(cx, cy)) *)
Definition bonds2d (Lx Ly : Z) (cx cy : bool) : list key :=
  flat_map (fun i => flat_map (fun j =>
    flat_map (fun st : Z * Z =>
      match wrap_coo (fst st) Lx cx, wrap_coo (snd st) Ly cy with
      | Some i2, Some j2 => [(i * Ly + j, i2 * Ly + j2)]
      | _, _ => []
      end) [(i, j + 1); (i + 1, j)]) (zrange Ly)) (zrange Lx).

(* gen_3d_bonds(..., steppers=[(i, j, k+1), (i, j+1, k), (i+1, j, k)], cyclic=(cx, cy, cz)) *)
Definition bonds3d (Lx Ly Lz : Z) (cx cy cz : bool) : list key :=
  flat_map (fun i => flat_map (fun j => flat_map (fun k =>
    flat_map (fun st : Z * Z * Z =>
      match wrap_coo (fst (fst st)) Lx cx, wrap_coo (snd (fst st)) Ly cy, wrap_coo (snd st) Lz cz with
      | Some i2, Some j2, Some k2 => [((i * Ly + j) * Lz + k, (i2 * Ly + j2) * Lz + k2)]
      | _, _, _ => []
      end) [(i, j, k + 1); (i, j + 1, k); (i + 1, j, k)]) (zrange Lz)) (zrange Ly)) (zrange Lx).

Definition with_default (bs : list key) (H2 : dict) (dflt2 : option mat) : dict :=
  match dflt2 with None => H2 | Some X => fill_default bs H2 X end.
Definition localham2d (d : nat) (Lx Ly : Z) (cx cy : bool) (H2 : dict) (dflt2 : option mat)
  (h1 : list (Z * mat)) (dflt1 : option mat) : option dict :=
  localham d (with_default (bonds2d Lx Ly cx cy) H2 dflt2) h1 dflt1.
Definition localham3d (d : nat) (Lx Ly Lz : Z) (cx cy cz : bool) (H2 : dict) (dflt2 : option mat)
  (h1 : list (Z * mat)) (dflt1 : option mat) : option dict :=
  localham d (with_default (bonds3d Lx Ly Lz cx cy cz) H2 dflt2) h1 dflt1.

(* ---------------------------------------------------------------- *)
(* TEBDSweepMixin.sweep / evolve (arbitrary geometry TEBD, simple update, 2D TEBD): which term is
   exponentiated with which exponent.  An entry (w, x) stands for the gate expm(-x * h_w). *)
Definition sweep_order (ordering : list key) (reflect : bool) : list key :=
  if reflect then ordering ++ rev ordering else ordering.       (* tuple(ordering) + tuple(reversed(ordering)) *)
Definition sweep_gates (ordering : list key) (reflect : bool) (tau : Qc) : list (key * Qc) :=
  map (fun w => (w, if reflect then (tau / qtwo)%Qc else tau)) (sweep_order ordering reflect).

(* evolve(steps, tau): zip(range(steps), chain(tau, repeat(tau[-1]))) for a sequence, repeat(tau) for a
   scalar (a one element list here); `orderings` = the ordering each sweep used (a callable ordering is
   consulted once per sweep) *)
Definition evolve_taus (steps : nat) (taus : list Qc) : list Qc :=
  firstn steps (taus ++ repeat (last taus 0%Qc) steps).
Fixpoint evolve_gates (orderings : list (list key)) (reflect : bool) (taus : list Qc) : list (key * Qc) :=
  match orderings, taus with
  | o :: os, t :: ts => sweep_gates o reflect t ++ evolve_gates os reflect ts
  | _, _ => []
  end.

(* total exponent a term receives / how often a pair occurs in an ordering *)
Fixpoint term_exponent (w : key) (g : list (key * Qc)) : Qc :=
  match g with
  | [] => 0%Qc
  | (w', x) :: r => ((if key_eqb w w' then x else 0) + term_exponent w r)%Qc
  end.
Fixpoint kcount (w : key) (o : list key) : nat :=
  match o with [] => O | w' :: r => ((if key_eqb w w' then 1 else 0) + kcount w r)%nat end.

(* get_gate(where) = terms[tuple(sorted(where))] *)
Definition get_gate (terms : dict) (w : key) : option mat :=
  lookup (if fst w <=? snd w then w else (snd w, fst w)) terms.

(* ---------------------------------------------------------------- *)
(* what a dictionary of two-site terms denotes: the matrix element
   <sigma| sum_pairs embed(term) |sigma'> of the many-body operator      *)

Section Denote.
  Variable d : nat.
  Variable sites : list Z.
  Variables sg sg' : Z -> nat.     (* bra / ket configurations *)

  (* product over the sites not in `excl` of delta(sg k, sg' k) *)
  Fixpoint delta_rest (excl : list Z) (l : list Z) : Qc :=
    match l with
    | [] => 1%Qc
    | k :: r => if existsb (Z.eqb k) excl then delta_rest excl r
                else if Nat.eqb (sg k) (sg' k) then delta_rest excl r else 0%Qc
    end.

  Definition E2 (w : key) (X : mat) : Qc :=
    (X (sg (fst w) * d + sg (snd w))%nat (sg' (fst w) * d + sg' (snd w))%nat
     * delta_rest [fst w; snd w] sites)%Qc.
  Definition E1 (a : Z) (h : mat) : Qc :=
    (h (sg a) (sg' a) * delta_rest [a] sites)%Qc.

  Definition total (terms : dict) : Qc :=
    fold_right (fun kv acc => (E2 (fst kv) (snd kv) + acc)%Qc) 0%Qc terms.
  Definition total1 (h1 : list (Z * mat)) : Qc :=
    fold_right (fun sh acc => (E1 (fst sh) (snd sh) + acc)%Qc) 0%Qc h1.
End Denote.

(* tabulate a matrix for comparison with the implementation *)
Definition tab (n : nat) (x : mat) : list Qc :=
  flat_map (fun r => map (fun c => x r c) (seq 0 n)) (seq 0 n).

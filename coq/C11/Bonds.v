(* C11: the right (even) and left (odd) sweeps of TEBD.sweep together touch
   every bond of the chain, and touch as many bonds as the chain has - so every
   Hamiltonian term is exponentiated exactly once per unit fraction. *)
From Coq Require Import ZArith List Bool Lia.
From QV Require Import C11.Model.
Import ListNotations.
Open Scope Z_scope.

Definition nbonds (c : cfg) : Z := if cCyc c then cL c else cL c - 1.

Lemma in_even_map L i n : 0 <= i -> i mod 2 = 0 -> i / 2 < Z.of_nat n ->
  In (i, (i + 1) mod L) (map (fun k => (2 * Z.of_nat k, (2 * Z.of_nat k + 1) mod L)) (seq 0 n)).
Proof.
  intros H0 Hm Hn. apply in_map_iff. exists (Z.to_nat (i / 2)).
  assert (E : 2 * Z.of_nat (Z.to_nat (i / 2)) = i).
  { rewrite Z2Nat.id by (apply Z.div_pos; lia). Z.div_mod_to_equations. lia. }
  split; [rewrite E; reflexivity|]. apply in_seq. split; [lia|].
  cbn. apply Nat2Z.inj_lt. rewrite Z2Nat.id by (apply Z.div_pos; lia). exact Hn.
Qed.

Lemma in_odd_map L i n : 0 <= i -> i mod 2 = 1 -> (i - 1) / 2 < Z.of_nat n ->
  In (i, (i + 1) mod L) (map (fun k => (2 * Z.of_nat k + 1, (2 * Z.of_nat k + 2) mod L)) (seq 0 n)).
Proof.
  intros H0 Hm Hn. apply in_map_iff. exists (Z.to_nat ((i - 1) / 2)).
  assert (E : 2 * Z.of_nat (Z.to_nat ((i - 1) / 2)) + 1 = i).
  { rewrite Z2Nat.id by (apply Z.div_pos; Z.div_mod_to_equations; lia). Z.div_mod_to_equations. lia. }
  split.
  - rewrite <- E at 3 4. f_equal. f_equal. lia.
  - apply in_seq. split; [lia|]. cbn. apply Nat2Z.inj_lt.
    rewrite Z2Nat.id by (apply Z.div_pos; Z.div_mod_to_equations; lia). exact Hn.
Qed.

Theorem sweeps_cover_every_bond c i : 2 <= cL c -> 0 <= i < nbonds c ->
  In (i, (i + 1) mod cL c) (bonds c Right ++ bonds c Left).
Proof.
  intros HL Hi. unfold nbonds in Hi. cbn [bonds]. unfold right_bonds, left_bonds.
  set (L := cL c) in *.
  destruct (Z_lt_le_dec i (L - 1)) as [Hlt|Hge].
  - (* an interior bond *)
    destruct (Z.eq_dec (i mod 2) 0) as [He|Ho].
    + apply in_or_app. left. apply in_or_app. left. apply in_even_map; [lia|exact He|].
      rewrite Z2Nat.id by (apply Z.div_pos; lia). Z.div_mod_to_equations. lia.
    + apply in_or_app. right. apply in_or_app. right. apply in_rev. rewrite rev_involutive.
      apply in_odd_map; [lia|Z.div_mod_to_equations; lia|].
      rewrite Z2Nat.id by (apply Z.div_pos; lia). Z.div_mod_to_equations. lia.
  - (* the periodic boundary bond *)
    destruct (cCyc c) eqn:Hc; [|lia]. assert (i = L - 1) by lia. subst i.
    replace ((L - 1 + 1) mod L) with 0 by (rewrite Z.sub_add, Z.mod_same; lia).
    destruct (Z.eq_dec (L mod 2) 1) as [Ho|He].
    + apply in_or_app. left. apply in_or_app. right.
      replace (L mod 2 =? 1) with true by (symmetry; apply Z.eqb_eq; exact Ho). cbn. auto.
    + apply in_or_app. right. apply in_or_app. left.
      replace (L mod 2 =? 0) with true by (symmetry; apply Z.eqb_eq; Z.div_mod_to_equations; lia). cbn. auto.
Qed.

Theorem sweeps_touch_nbonds c : 2 <= cL c ->
  Z.of_nat (length (bonds c Right ++ bonds c Left)) = nbonds c.
Proof.
  intros HL. unfold nbonds. cbn [bonds]. unfold right_bonds, left_bonds. set (L := cL c) in *.
  rewrite !app_length, rev_length, !map_length, !seq_length.
  rewrite !Nat2Z.inj_add, !Z2Nat.id by (apply Z.div_pos; lia).
  destruct (cCyc c); cbn [andb];
    destruct (Z.eqb_spec (L mod 2) 1); destruct (Z.eqb_spec (L mod 2) 0); cbn [length andb];
    Z.div_mod_to_equations; lia.
Qed.

(* C11: the right (even) and left (odd) sweeps of TEBD.sweep together touch
   every bond of the chain, and touch as many bonds as the chain has - so every
   Hamiltonian term is exponentiated exactly once per unit fraction. *)
From Coq Require Import ZArith List Bool Lia.
From QV Require Import C11.Model.
Import ListNotations.
Open Scope Z_scope.

Definition nbonds (c : cfg) : Z := if cCyc c then cL c else cL c - 1.

Lemma in_even_map L i n : 0 <= i -> i mod 2 = 0 -> i / 2 < Z.of_nat n ->
  In (i, (i + 1) mod L) (map (fun k => (2 * Z.of_nat k, (2 * Z.of_nat k + 1) mod L)) (seq 0 n)).
Proof.
  intros H0 Hm Hn. apply in_map_iff. exists (Z.to_nat (i / 2)).
  assert (E : 2 * Z.of_nat (Z.to_nat (i / 2)) = i).
  { rewrite Z2Nat.id by (apply Z.div_pos; lia). Z.div_mod_to_equations. lia. }
  split; [rewrite E; reflexivity|]. apply in_seq. split; [lia|].
  cbn. apply Nat2Z.inj_lt. rewrite Z2Nat.id by (apply Z.div_pos; lia). exact Hn.
Qed.

Lemma in_odd_map L i n : 0 <= i -> i mod 2 = 1 -> (i - 1) / 2 < Z.of_nat n ->
  In (i, (i + 1) mod L) (map (fun k => (2 * Z.of_nat k + 1, (2 * Z.of_nat k + 2) mod L)) (seq 0 n)).
Proof.
  intros H0 Hm Hn. apply in_map_iff. exists (Z.to_nat ((i - 1) / 2)).
  assert (E : 2 * Z.of_nat (Z.to_nat ((i - 1) / 2)) + 1 = i).
  { rewrite Z2Nat.id by (apply Z.div_pos; Z.div_mod_to_equations; lia). Z.div_mod_to_equations. lia. }
  split.
  - rewrite <- E at 3 4. f_equal. f_equal. lia.
  - apply in_seq. split; [lia|]. cbn. apply Nat2Z.inj_lt.
    rewrite Z2Nat.id by (apply Z.div_pos; Z.div_mod_to_equations; lia). exact Hn.
Qed.

Theorem sweeps_cover_every_bond c i : 2 <= cL c -> 0 <= i < nbonds c ->
  In (i, (i + 1) mod cL c) (bonds c Right ++ bonds c Left).
Proof.
  intros HL Hi. unfold nbonds in Hi. cbn [bonds]. unfold right_bonds, left_bonds.
  set (L := cL c) in *.
  destruct (Z_lt_le_dec i (L - 1)) as [Hlt|Hge].
  - (* an interior bond *)
    destruct (Z.eq_dec (i mod 2) 0) as [He|Ho].
    + apply in_or_app. left. apply in_or_app. left. apply in_even_map; [lia|exact He|].
      rewrite Z2Nat.id by (apply Z.div_pos; lia). Z.div_mod_to_equations. lia.
    + apply in_or_app. right. apply in_or_app. right. apply in_rev. rewrite rev_involutive.
      apply in_odd_map; [lia|Z.div_mod_to_equations; lia|].
      rewrite Z2Nat.id by (apply Z.div_pos; lia). Z.div_mod_to_equations. lia.
  - (* the periodic boundary bond *)
    destruct (cCyc c) eqn:Hc; [|lia]. assert (i = L - 1) by lia. subst i.
    replace ((L - 1 + 1) mod L) with 0 by (rewrite Z.sub_add, Z.mod_same; lia).
    destruct (Z.eq_dec (L mod 2) 1) as [Ho|He].
    + apply in_or_app. left. apply in_or_app. right.
      replace (L mod 2 =? 1) with true by (symmetry; apply Z.eqb_eq; exact Ho). cbn. auto.
    + apply in_or_app. right. apply in_or_app. left.
      replace (L mod 2 =? 0) with true by (symmetry; apply Z.eqb_eq; Z.div_mod_to_equations; lia). cbn. auto.
Qed.

Theorem sweeps_touch_nbonds c : 2 <= cL c ->
  Z.of_nat (length (bonds c Right ++ bonds c Left)) = nbonds c.
Proof.
  intros HL. unfold nbonds. cbn [bonds]. unfold right_bonds, left_bonds. set (L := cL c) in *.
  rewrite !app_length, rev_length, !map_length, !seq_length.
  rewrite !Nat2Z.inj_add, !Z2Nat.id by (apply Z.div_pos; lia).
  destruct (cCyc c); cbn [andb];
    destruct (Z.eqb_spec (L mod 2) 1); destruct (Z.eqb_spec (L mod 2) 0); cbn [length andb];
    Z.div_mod_to_equations; lia.
Qed.

(* ---------------------------------------------------------------- *)
(* Except on odd periodic chains the gates of one sweep act on pairwise
   disjoint sites: they commute, so executing two adjacent sweeps of the same
   direction as one sweep with the summed time (the queue's merge rule, the
   normal form `normr` of the theorems) does not change the operator.  On odd
   periodic chains (0,1) and (L-1,0) share site 0 - the colouring is not a
   splitting into commuting layers there. *)
From Coq Require Import Permutation.

Definition sites_of_bonds (l : list (Z * Z)) : list Z := flat_map (fun b => [fst b; snd b]) l.

Lemma even_sites n : flat_map (fun k => [2 * Z.of_nat k; 2 * Z.of_nat k + 1]) (seq 0 n)
                     = map Z.of_nat (seq 0 (2 * n)).
Proof.
  induction n as [|n IH]; [reflexivity|].
  rewrite seq_S, flat_map_app, IH. cbn [flat_map app Nat.add].
  replace (2 * S n)%nat with (S (S (2 * n))) by lia.
  rewrite !seq_S, !map_app. cbn [map Nat.add]. rewrite <- app_assoc. cbn [app].
  f_equal. f_equal; [lia|]. f_equal. lia.
Qed.

Lemma NoDup_map_of_nat (f : nat -> Z) (l : list nat) : (forall a b, f a = f b -> a = b) -> NoDup l -> NoDup (map f l).
Proof.
  intros Hinj. induction 1 as [|x r Hx Hr IH]; cbn; constructor; [|exact IH].
  intros Hin. apply in_map_iff in Hin as (y & Hy & Hin). apply Hinj in Hy. subst. exact (Hx Hin).
Qed.

Lemma sites_map_ext (f g : nat -> Z * Z) l : (forall k, In k l -> f k = g k) ->
  sites_of_bonds (map f l) = sites_of_bonds (map g l).
Proof. intros H. rewrite (map_ext_in f g l H). reflexivity. Qed.

Lemma right_sites c : 2 <= cL c -> (cCyc c = true -> (cL c) mod 2 = 0) ->
  sites_of_bonds (right_bonds c) = map Z.of_nat (seq 0 (2 * Z.to_nat (cL c / 2))).
Proof.
  intros HL Hc. unfold right_bonds. set (L := cL c) in *.
  assert (E : (L mod 2 =? 1) && cCyc c = false).
  { destruct (cCyc c); [|apply andb_false_r]. rewrite (Hc eq_refl). reflexivity. }
  rewrite E, app_nil_r.
  rewrite (sites_map_ext _ (fun k => (2 * Z.of_nat k, 2 * Z.of_nat k + 1))).
  - unfold sites_of_bonds. rewrite flat_map_concat_map, map_map, <- flat_map_concat_map. cbn [fst snd].
    apply even_sites.
  - intros k Hk. apply in_seq in Hk. f_equal. apply Z.mod_small.
    assert (Hq : 0 <= L / 2) by (apply Z.div_pos; lia).
    assert (Z.of_nat k < L / 2) by (rewrite <- (Z2Nat.id (L / 2)) by exact Hq; apply Nat2Z.inj_lt; lia).
    Z.div_mod_to_equations. lia.
Qed.

Theorem right_sweep_gates_disjoint c : 2 <= cL c -> (cCyc c = true -> (cL c) mod 2 = 0) ->
  NoDup (sites_of_bonds (bonds c Right)).
Proof.
  intros HL Hc. cbn [bonds]. rewrite (right_sites c HL Hc).
  apply NoDup_map_of_nat; [intros a b; apply Nat2Z.inj|apply seq_NoDup].
Qed.

Lemma odd_sites n : flat_map (fun k => [2 * Z.of_nat k + 1; 2 * Z.of_nat k + 2]) (seq 0 n)
                    = map (fun i => Z.of_nat i + 1) (seq 0 (2 * n)).
Proof.
  induction n as [|n IH]; [reflexivity|].
  rewrite seq_S, flat_map_app, IH. cbn [flat_map app Nat.add].
  replace (2 * S n)%nat with (S (S (2 * n))) by lia.
  rewrite !seq_S, !map_app. cbn [map Nat.add]. rewrite <- app_assoc. cbn [app].
  f_equal. f_equal; [lia|]. f_equal. lia.
Qed.

Theorem left_sweep_gates_disjoint c : 2 <= cL c -> NoDup (sites_of_bonds (bonds c Left)).
Proof.
  intros HL. cbn [bonds]. unfold left_bonds. set (L := cL c) in *.
  set (m := Z.to_nat ((L - 1) / 2)).
  assert (Hm : Z.of_nat m = (L - 1) / 2) by (apply Z2Nat.id; apply Z.div_pos; lia).
  (* the odd bonds, in any order, cover sites 1 .. 2m *)
  assert (P : Permutation (sites_of_bonds (rev (map (fun k => (2 * Z.of_nat k + 1, (2 * Z.of_nat k + 2) mod L)) (seq 0 m))))
                          (map (fun i => Z.of_nat i + 1) (seq 0 (2 * m)))).
  { unfold sites_of_bonds. eapply Permutation_trans.
    - apply Permutation_flat_map. apply Permutation_sym, Permutation_rev.
    - rewrite (map_ext_in _ (fun k => (2 * Z.of_nat k + 1, 2 * Z.of_nat k + 2))).
      + rewrite flat_map_concat_map, map_map, <- flat_map_concat_map. cbn [fst snd]. rewrite odd_sites. apply Permutation_refl.
      + intros k Hk. apply in_seq in Hk. f_equal. apply Z.mod_small.
        assert (Z.of_nat k < (L - 1) / 2) by lia. Z.div_mod_to_equations. lia. }
  assert (N : NoDup (map (fun i => Z.of_nat i + 1) (seq 0 (2 * m)))).
  { apply NoDup_map_of_nat; [intros a b H; lia|apply seq_NoDup]. }
  destruct (cCyc c && (L mod 2 =? 0)) eqn:E.
  - apply andb_true_iff in E as [_ E]. apply Z.eqb_eq in E.
    unfold sites_of_bonds. cbn [flat_map app fst snd]. fold (sites_of_bonds (rev (map (fun k => (2 * Z.of_nat k + 1, (2 * Z.of_nat k + 2) mod L)) (seq 0 m)))).
    assert (R : forall x, In x (sites_of_bonds (rev (map (fun k => (2 * Z.of_nat k + 1, (2 * Z.of_nat k + 2) mod L)) (seq 0 m)))) -> 1 <= x <= L - 2).
    { intros x Hx. apply (Permutation_in _ P) in Hx. apply in_map_iff in Hx as (i & <- & Hi). apply in_seq in Hi.
      Z.div_mod_to_equations. lia. }
    constructor; [|constructor].
    + intros [H|H]; [lia|]. apply R in H. lia.
    + intros H. apply R in H. lia.
    + eapply Permutation_NoDup; [apply Permutation_sym; exact P|exact N].
  - cbn [app]. eapply Permutation_NoDup; [apply Permutation_sym; exact P|exact N].
Qed.

(* C11 proofs (a): the TEBD clock / queue machine executes the product formula. *)
From Coq Require Import ZArith QArith Qcanon List Bool Lia Field.
From QV Require Import C11.Model.
Import ListNotations.
Open Scope Z_scope.

(* ---------------------------------------------------------------- *)
(* Qc helpers                                                         *)

Lemma zq_nz z : z <> 0 -> zq z <> 0%Qc.
Proof.
  intros Hz H. unfold zq in H. change 0%Qc with (Q2Qc 0) in H.
  apply Q2Qc_eq_iff in H. unfold Qeq, inject_Z in H. cbn in H. lia.
Qed.

Lemma rescale (c r : Z) (f : Qc) : c <> 0 -> (zq c * (f * (zq r / zq c)) = zq r * f)%Qc.
Proof. intros Hc. field. apply zq_nz; exact Hc. Qed.

Lemma dir_eqb_eq a b : dir_eqb a b = true -> a = b.
Proof. destruct a, b; cbn; congruence. Qed.
Lemma dir_eqb_refl a : dir_eqb a a = true.
Proof. destruct a; reflexivity. Qed.

(* ---------------------------------------------------------------- *)
(* merged form                                                        *)

Lemma normr_app a b : normr (a ++ b) = fold_left push b (normr a).
Proof. unfold normr. apply fold_left_app. Qed.

Lemma push_merge acc d (a b : Qc) : push (push acc (d, a)) (d, b) = push acc (d, (a + b)%Qc).
Proof.
  destruct acc as [|[d' f'] r]; cbn [push fst snd].
  - rewrite dir_eqb_refl. reflexivity.
  - destruct (dir_eqb d d') eqn:E; cbn [push fst snd].
    + rewrite E. f_equal. f_equal. ring.
    + rewrite dir_eqb_refl. reflexivity.
Qed.

Lemma normr_snoc a e : normr (a ++ [e]) = push (normr a) e.
Proof. rewrite normr_app. reflexivity. Qed.

Lemma fold_push_normr a ev : fold_left push ev (normr a) = normr (a ++ ev).
Proof. symmetry. apply normr_app. Qed.

(* ---------------------------------------------------------------- *)
(* frame: what a sweep never touches                                  *)

Definition frame (st st' : state) : Prop :=
  cur st' = cur st /\ clk st' = clk st /\ errlog st' = errlog st
  /\ dflt_dt st' = dflt_dt st /\ dflt_tol st' = dflt_tol st.

Lemma frame_refl st : frame st st.
Proof. repeat split. Qed.
Lemma frame_trans a b c : frame a b -> frame b c -> frame a c.
Proof. unfold frame. intuition congruence. Qed.

Lemma exec_some c d f st cv : cur st = Some cv ->
  exec c d f st = Some (set_log st (log st ++ [(d, (zq cv * f)%Qc)])).
Proof. unfold exec. intros ->. reflexivity. Qed.

(* the event a sweep call contributes, in physical time *)
Definition ev_len (dtarg : option Z) (cv : Z) : Z :=
  match dtarg with None => cv | Some r => r end.

Lemma scale_event frac dtarg st cv f : cur st = Some cv -> scale frac dtarg st = Some f ->
  (zq cv * f = zq (ev_len dtarg cv) * frac)%Qc.
Proof.
  unfold scale, ev_len. intros Hc. rewrite Hc. destruct dtarg as [r|].
  - destruct (cv =? 0) eqn:E; [discriminate|]. intros H. injection H as <-.
    apply rescale. lia.
  - intros H. injection H as <-. reflexivity.
Qed.

Lemma sweep_spec c d frac dtarg queue st st' cv :
  cur st = Some cv -> sweep c d frac dtarg queue st = Some st' ->
  frame st st'
  /\ normr (pending st') = push (normr (pending st)) (d, (zq (ev_len dtarg cv) * frac)%Qc)
  /\ (queue = false -> queued st' = None).
Proof.
  intros Hc. unfold sweep. destruct (scale frac dtarg st) as [f|] eqn:Hs; [|discriminate].
  rewrite <- (scale_event _ _ _ _ _ Hc Hs).
  destruct queue.
  - destruct (queued st) as [[qd qf]|] eqn:Hq.
    + destruct (dir_eqb d qd) eqn:E.
      * intros H. injection H as <-. apply dir_eqb_eq in E. subst qd.
        split; [repeat split|]. split; [|discriminate].
        unfold pending. cbn [queued cur log set_queued]. rewrite Hc, Hq.
        rewrite !normr_app. cbn [fold_left]. rewrite push_merge. do 2 f_equal. ring.
      * rewrite (exec_some _ _ _ _ cv) by exact Hc.
        intros H. injection H as <-.
        split; [repeat split|]. split; [|discriminate].
        unfold pending. cbn [queued cur log set_queued set_log]. rewrite Hc, Hq.
        apply normr_snoc.
    + intros H. injection H as <-.
      split; [repeat split|]. split; [|discriminate].
      unfold pending. cbn [queued cur log set_queued]. rewrite Hc, Hq.
      rewrite app_nil_r. rewrite normr_app. reflexivity.
  - destruct (queued st) as [[qd qf]|] eqn:Hq.
    + rewrite (exec_some _ _ _ _ cv) by exact Hc.
      rewrite (exec_some _ _ _ _ cv) by exact Hc.
      intros H. injection H as <-.
      split; [repeat split|]. split; [|reflexivity].
      unfold pending. cbn [queued cur log set_queued set_log]. rewrite Hc, Hq.
      rewrite app_nil_r. rewrite (normr_app (log st ++ _)). reflexivity.
    + rewrite (exec_some _ _ _ _ cv) by exact Hc.
      intros H. injection H as <-.
      split; [repeat split|]. split; [|intros _; exact Hq].
      unfold pending. cbn [queued cur log set_log]. rewrite Hc, Hq.
      rewrite !app_nil_r. rewrite normr_app. reflexivity.
Qed.

Lemma formula_cons k f d r len : dir_of k = Some d ->
  formula ((k, f) :: r) len = (d, (zq len * f)%Qc) :: formula r len.
Proof. unfold formula, dirs_of. cbn [flat_map fst snd]. intros ->. reflexivity. Qed.

Lemma sweeps_spec c dtarg queue l : forall st st' cv,
  cur st = Some cv -> sweeps c l dtarg queue st = Some st' ->
  frame st st'
  /\ normr (pending st') = fold_left push (formula l (ev_len dtarg cv)) (normr (pending st))
  /\ (queue = false -> l <> [] \/ queued st = None -> queued st' = None).
Proof.
  induction l as [|[k f] r IH]; intros st st' cv Hc; cbn [sweeps].
  - intros H. injection H as <-. split; [apply frame_refl|]. split; [reflexivity|].
    intros _ [H|H]; [congruence|exact H].
  - destruct (dir_of k) as [d|] eqn:Hk; [|discriminate].
    destruct (sweep c d f dtarg queue st) as [st1|] eqn:Hs; [|discriminate].
    intros Hr. destruct (sweep_spec _ _ _ _ _ _ _ _ Hc Hs) as (F1 & N1 & Q1).
    assert (Hc1 : cur st1 = Some cv) by (destruct F1 as (-> & _); exact Hc).
    destruct (IH _ _ _ Hc1 Hr) as (F2 & N2 & Q2).
    split; [eapply frame_trans; eassumption|]. split.
    + rewrite N2, N1. rewrite (formula_cons _ _ _ _ _ Hk). reflexivity.
    + intros Hq _. apply Q2; [exact Hq|]. right. apply Q1. exact Hq.
Qed.

(* the two-layer schedules are never empty and only name layers 0 and 1 *)
Lemma sched2_shape s order l : sched s 2 order = Some l ->
  l <> [] /\ Forall (fun kf => dir_of (fst kf) <> None) l.
Proof.
  unfold sched. destruct (order =? 1); [|destruct (order =? 2); [|destruct (order =? 4); [|discriminate]]];
  intros H; injection H as H; subst l; (split; [discriminate|]); cbn;
  repeat (apply Forall_cons; [cbn; discriminate|]); apply Forall_nil.
Qed.

Lemma step_spec c s order dtarg queue st st' cv :
  cur st = Some cv -> step c s order dtarg queue st = Some st' ->
  exists l, sched s 2 order = Some l
  /\ cur st' = Some cv /\ dflt_dt st' = dflt_dt st /\ dflt_tol st' = dflt_tol st
  /\ clk st' = clk st + ev_len dtarg cv
  /\ errlog st' = errlog st ++ [(order, ev_len dtarg cv)]
  /\ normr (pending st') = fold_left push (formula l (ev_len dtarg cv)) (normr (pending st))
  /\ (queue = false -> queued st' = None).
Proof.
  intros Hc. unfold step. destruct (sched s 2 order) as [l|] eqn:Hl; [|discriminate].
  destruct (sweeps c l dtarg queue st) as [st1|] eqn:Hs; [|discriminate].
  destruct (sweeps_spec _ _ _ _ _ _ _ Hc Hs) as ((F1 & F2 & F3 & F4 & F5) & N & Q).
  assert (Hd : (match dtarg with None => cur st1 | Some d => Some d end) = Some (ev_len dtarg cv)).
  { unfold ev_len. destruct dtarg; [reflexivity|]. rewrite F1. exact Hc. }
  rewrite Hd. intros H. injection H as <-. exists l. split; [reflexivity|].
  assert (Hp : forall a b, pending (set_clk_err st1 a b) = pending st1) by reflexivity.
  rewrite Hp. cbn [cur dflt_dt dflt_tol clk errlog queued set_clk_err].
  split; [rewrite F1; exact Hc|]. split; [exact F4|]. split; [exact F5|].
  split; [rewrite F2; reflexivity|]. split; [rewrite F3; reflexivity|]. split; [exact N|].
  intros Hq. apply Q; [exact Hq|]. left. apply (sched2_shape _ _ _ Hl).
Qed.

Lemma repeat_snoc {A} (x : A) n : repeat x n ++ [x] = x :: repeat x n.
Proof. induction n; cbn; [reflexivity|]. rewrite IHn. reflexivity. Qed.

Lemma loop_spec c s order T l : sched s 2 order = Some l -> forall fuel st st' cv,
  cur st = Some cv -> loop c s order T fuel st = Some st' ->
  exists n : nat,
    clk st' = clk st + Z.of_nat n * cv
    /\ ~ (clk st' < T - cv)
    /\ ((0 < n)%nat -> clk st + (Z.of_nat n - 1) * cv < T - cv)
    /\ cur st' = Some cv /\ dflt_dt st' = dflt_dt st /\ dflt_tol st' = dflt_tol st
    /\ errlog st' = errlog st ++ repeat (order, cv) n
    /\ normr (pending st') = fold_left push (repeat_app (formula l cv) n) (normr (pending st)).
Proof.
  intros Hl. induction fuel as [|fuel IH]; intros st st' cv Hc; cbn [loop]; rewrite Hc.
  - destruct (clk st <? T - cv) eqn:E; [discriminate|].
    intros H. injection H as <-. exists O. cbn. rewrite app_nil_r. repeat split; try lia; assumption.
  - destruct (clk st <? T - cv) eqn:E.
    + destruct (step c s order None true st) as [st1|] eqn:Hs; [|discriminate].
      intros Hr. destruct (step_spec _ _ _ _ _ _ _ _ Hc Hs) as (l' & Hl' & C1 & D1 & D2 & K1 & E1 & N1 & _).
      rewrite Hl in Hl'. injection Hl' as <-. cbn [ev_len] in *.
      destruct (IH _ _ _ C1 Hr) as (n & K2 & X2 & P2 & C2 & D3 & D4 & E2 & N2).
      exists (S n). rewrite Nat2Z.inj_succ.
      split; [rewrite K2, K1; lia|]. split; [exact X2|]. split.
      { intros _. destruct n as [|n'].
        - cbn. lia.
        - assert (H := P2 ltac:(lia)). rewrite K1 in H. lia. }
      split; [exact C2|]. split; [congruence|]. split; [congruence|]. split.
      { rewrite E2, E1. rewrite <- app_assoc. cbn [repeat app]. reflexivity. }
      rewrite N2, N1. cbn [repeat_app]. rewrite fold_left_app. reflexivity.
    + intros H. injection H as <-. exists O. cbn. rewrite app_nil_r.
      repeat split; try lia; assumption.
Qed.

Lemma compute_dt_spec dtarg tolarg chosen st st1 : compute_dt dtarg tolarg chosen st = Some st1 ->
  exists d, st1 = set_cur st (Some d)
    /\ d = match (match dtarg with None => dflt_dt st | Some x => Some x end) with
           | Some x => x | None => chosen end.
Proof.
  unfold compute_dt.
  destruct (negb _); [discriminate|]. destruct (_ && _); [discriminate|].
  destruct (match dtarg with None => dflt_dt st | Some d => Some d end) as [x|];
    intros H; injection H as <-; eexists; split; reflexivity.
Qed.

Lemma nfull_char t T d (n : nat) : 1 <= d ->
  ~ (t + Z.of_nat n * d < T - d) ->
  ((0 < n)%nat -> t + (Z.of_nat n - 1) * d < T - d) ->
  Z.of_nat n = nfull t T d.
Proof.
  intros Hd H1 H2. unfold nfull. destruct n as [|n'].
  - cbn in *. assert ((T - t - 1) / d <= 0); [|lia].
    destruct (Z_lt_le_dec (T - t - 1) 0) as [L|L].
    + assert ((T - t - 1) / d < 0) by (apply Z.div_lt_upper_bound; lia). lia.
    + assert ((T - t - 1) / d < 1) by (apply Z.div_lt_upper_bound; lia). lia.
  - specialize (H2 ltac:(lia)). set (m := Z.of_nat (S n')) in *.
    assert (Hm : 0 <= m) by lia.
    assert ((T - t - 1) / d = m); [|lia].
    symmetry. apply (Z.div_unique_pos _ _ m (T - t - 1 - m * d)); nia.
Qed.

(* the main theorem: from ANY state (something may be queued, any clock),
   update_to reaches exactly T, leaves nothing queued, and the executed log is,
   up to merging adjacent equal-direction sweeps, what was pending + n full
   product-formula steps + one final step of the remaining length *)
Theorem update_to_spec c s T dtarg tolarg chosen order st st' :
  update_to c s T dtarg tolarg chosen order st = Some st' ->
  exists d l (n : nat),
    sched s 2 order = Some l
    /\ cur st' = Some d
    /\ d = match (match dtarg with None => dflt_dt st | Some x => Some x end) with
           | Some x => x | None => chosen end
    /\ clk st - cTolU c <= T
    /\ clk st' = T
    /\ queued st' = None
    /\ dflt_dt st' = dflt_dt st /\ dflt_tol st' = dflt_tol st
    /\ ~ (clk st + Z.of_nat n * d < T - d)
    /\ ((0 < n)%nat -> clk st + (Z.of_nat n - 1) * d < T - d)
    /\ normr (log st') =
         normr (pending (set_cur st (Some d)) ++ repeat_app (formula l d) n
                ++ formula l (T - (clk st + Z.of_nat n * d)))
    /\ errlog st' = errlog st ++ repeat (order, d) n ++ [(order, T - (clk st + Z.of_nat n * d))].
Proof.
  unfold update_to. destruct (T <? clk st - cTolU c) eqn:ET; [discriminate|].
  destruct (compute_dt dtarg tolarg chosen st) as [st1|] eqn:Hc; [|discriminate].
  destruct (compute_dt_spec _ _ _ _ _ Hc) as (d & -> & Hd).
  set (st1 := set_cur st (Some d)) in *.
  destruct (loop c s order T (Z.to_nat (T - clk st1)) st1) as [st2|] eqn:Hl; [|discriminate].
  intros Hs.
  assert (C1 : cur st1 = Some d) by reflexivity.
  (* the final step tells us the schedule exists *)
  assert (exists l, sched s 2 order = Some l) as (l & Hsch).
  { unfold step in Hs. destruct (sched s 2 order) as [l|]; [eexists; reflexivity|discriminate]. }
  destruct (loop_spec _ _ _ _ _ Hsch _ _ _ _ C1 Hl) as (n & K2 & X2 & P2 & C2 & D1 & D2 & E2 & N2).
  destruct (step_spec _ _ _ _ _ _ _ _ C2 Hs) as (l' & Hl' & C3 & D3 & D4 & K3 & E3 & N3 & Q3).
  rewrite Hsch in Hl'. injection Hl' as <-. cbn [ev_len] in *.
  specialize (Q3 eq_refl).
  exists d, l, n. change (clk st1) with (clk st) in *.
  split; [exact Hsch|]. split; [exact C3|]. split; [exact Hd|]. split; [lia|].
  split; [lia|]. split; [exact Q3|]. split; [rewrite D3, D1; reflexivity|].
  split; [rewrite D4, D2; reflexivity|]. split; [rewrite <- K2; exact X2|]. split; [exact P2|].
  split.
  - assert (Hp : pending st' = log st').
    { unfold pending. rewrite Q3. apply app_nil_r. }
    rewrite <- Hp, N3, N2. rewrite <- fold_left_app. rewrite fold_push_normr.
    rewrite K2. reflexivity.
  - rewrite E3, E2. change (errlog st1) with (errlog st). rewrite <- app_assoc. rewrite K2. reflexivity.
Qed.

(* ... and the number of full steps and the final step are the documented ones *)
Corollary update_to_counts c s T dtarg tolarg chosen order st st' d :
  update_to c s T dtarg tolarg chosen order st = Some st' -> cur st' = Some d -> 1 <= d ->
  let n := nfull (clk st) T d in
  let r := T - (clk st + n * d) in
  0 <= n /\ r <= d /\ (0 < n -> 0 < r) /\ (n = 0 -> r = T - clk st) /\ - Z.max 0 (cTolU c) <= r
  /\ errlog st' = errlog st ++ repeat (order, d) (Z.to_nat n) ++ [(order, r)].
Proof.
  intros H Hc Hd. destruct (update_to_spec _ _ _ _ _ _ _ _ _ H)
    as (d' & l & n & _ & C & _ & HT & _ & _ & _ & _ & X & P & _ & E).
  rewrite Hc in C. injection C as <-.
  pose proof (nfull_char _ _ _ _ Hd X P) as Hn. cbn zeta. rewrite <- Hn.
  rewrite Nat2Z.id. split; [lia|]. split; [lia|]. split.
  { intros Hpos. specialize (P ltac:(lia)). lia. }
  split; [intros H0; rewrite H0; lia|]. split; [|exact E].
  destruct n; [cbn; lia|]. specialize (P ltac:(lia)). lia.
Qed.

(* ---------------------------------------------------------------- *)
(* termination: with a positive step, a valid order and consistent
   dt / tol arguments the call returns                                *)

Lemma sweep_total c d frac dtarg queue st cv :
  cur st = Some cv -> (dtarg <> None -> cv <> 0) -> exists st', sweep c d frac dtarg queue st = Some st'.
Proof.
  intros Hc Hz. unfold sweep, scale. rewrite Hc.
  assert (exists f, (match dtarg with None => Some frac | Some d0 =>
            if cv =? 0 then None else Some (frac * (zq d0 / zq cv))%Qc end) = Some f) as (f & ->).
  { destruct dtarg; [|eexists; reflexivity]. destruct (cv =? 0) eqn:E; [|eexists; reflexivity].
    exfalso. apply Hz; [discriminate|lia]. }
  destruct queue; destruct (queued st) as [[qd qf]|].
  - destruct (dir_eqb d qd); [eexists; reflexivity|]. rewrite (exec_some _ _ _ _ cv) by exact Hc. eexists; reflexivity.
  - eexists; reflexivity.
  - rewrite (exec_some _ _ _ _ cv) by exact Hc. rewrite (exec_some _ _ _ _ cv) by exact Hc. eexists; reflexivity.
  - rewrite (exec_some _ _ _ _ cv) by exact Hc. eexists; reflexivity.
Qed.

Lemma sweeps_total c dtarg queue l : Forall (fun kf => dir_of (fst kf) <> None) l -> forall st cv,
  cur st = Some cv -> (dtarg <> None -> cv <> 0) -> exists st', sweeps c l dtarg queue st = Some st'.
Proof.
  induction 1 as [|[k f] r Hk _ IH]; intros st cv Hc Hz; cbn [sweeps].
  - eexists; reflexivity.
  - cbn in Hk. destruct (dir_of k) as [d|]; [|congruence].
    destruct (sweep_total c d f dtarg queue st cv Hc Hz) as (st1 & Hs). rewrite Hs.
    destruct (sweep_spec _ _ _ _ _ _ _ _ Hc Hs) as ((F1 & _) & _).
    apply (IH st1 cv); [rewrite F1; exact Hc|exact Hz].
Qed.

Definition valid_order (order : Z) : Prop := order = 1 \/ order = 2 \/ order = 4.

Lemma sched_valid s order : valid_order order -> exists l, sched s 2 order = Some l.
Proof. intros [-> | [-> | ->]]; eexists; reflexivity. Qed.

Lemma step_total c s order dtarg queue st cv : valid_order order ->
  cur st = Some cv -> (dtarg <> None -> cv <> 0) -> exists st', step c s order dtarg queue st = Some st'.
Proof.
  intros Ho Hc Hz. destruct (sched_valid s order Ho) as (l & Hl). unfold step. rewrite Hl.
  destruct (sweeps_total c dtarg queue l (proj2 (sched2_shape _ _ _ Hl)) st cv Hc Hz) as (st1 & Hs).
  rewrite Hs. destruct (sweeps_spec _ _ _ _ _ _ _ Hc Hs) as ((F1 & _) & _).
  destruct dtarg; [eexists; reflexivity|]. rewrite F1, Hc. eexists; reflexivity.
Qed.

Lemma loop_total c s order T : valid_order order -> forall fuel st cv,
  cur st = Some cv -> 1 <= cv -> T - clk st <= Z.of_nat fuel ->
  exists st', loop c s order T fuel st = Some st'.
Proof.
  intros Ho. induction fuel as [|fuel IH]; intros st cv Hc Hp Hm; cbn [loop]; rewrite Hc.
  - destruct (clk st <? T - cv) eqn:E; [lia|eexists; reflexivity].
  - destruct (clk st <? T - cv) eqn:E; [|eexists; reflexivity].
    destruct (step_total c s order None true st cv Ho Hc ltac:(congruence)) as (st1 & Hs). rewrite Hs.
    destruct (step_spec _ _ _ _ _ _ _ _ Hc Hs) as (_ & _ & C1 & _ & _ & K1 & _).
    cbn [ev_len] in K1. apply (IH st1 cv C1 Hp). lia.
Qed.

Theorem update_to_total c s T dtarg tolarg chosen order st st1 d :
  valid_order order -> clk st - cTolU c <= T ->
  compute_dt dtarg tolarg chosen st = Some st1 -> cur st1 = Some d -> 1 <= d ->
  exists st', update_to c s T dtarg tolarg chosen order st = Some st'.
Proof.
  intros Ho HT Hc Hd Hp. unfold update_to.
  destruct (T <? clk st - cTolU c) eqn:E; [lia|]. rewrite Hc.
  destruct (loop_total c s order T Ho (Z.to_nat (T - clk st1)) st1 d Hd Hp ltac:(lia)) as (st2 & Hl).
  rewrite Hl.
  destruct (compute_dt_spec _ _ _ _ _ Hc) as (d' & -> & _).
  destruct (sched_valid s order Ho) as (l & Hsch).
  destruct (loop_spec _ _ _ _ _ Hsch _ _ _ _ Hd Hl) as (n & _ & _ & _ & C2 & _).
  apply (step_total c s order _ false st2 d Ho C2). intros _. lia.
Qed.

(* going backwards by more than TARGET_TOL is rejected *)
Lemma update_to_backwards c s T dtarg tolarg chosen order st :
  T < clk st - cTolU c -> update_to c s T dtarg tolarg chosen order st = None.
Proof. intros H. unfold update_to. destruct (T <? clk st - cTolU c) eqn:E; [reflexivity|lia]. Qed.

(* ---------------------------------------------------------------- *)
(* at_times = successive update_to's with one common dt               *)

Lemma update_each_spec c s dt order : forall ts st st',
  update_each c s ts dt order st = Some st' -> ts <> [] ->
  clk st' = last ts 0 /\ queued st' = None /\ cur st' = Some dt.
Proof.
  induction ts as [|T r IH]; intros st st' H Hne; [congruence|]. cbn [update_each] in H.
  destruct (update_to c s T (Some dt) (Some false) 0 order st) as [st1|] eqn:Hu; [|discriminate].
  destruct (update_to_spec _ _ _ _ _ _ _ _ _ Hu) as (d & l & n & _ & C & Hd & _ & K & Q & _).
  destruct r as [|T' r'].
  - cbn in H. injection H as <-. cbn. subst d. auto.
  - destruct (IH _ _ H ltac:(discriminate)) as (A & B & C'). split; [|auto].
    rewrite A. reflexivity.
Qed.

Lemma update_each_unfold c s dt order ts st :
  update_each c s ts dt order st =
  fold_left (fun acc T => match acc with None => None
                          | Some x => update_to c s T (Some dt) (Some false) 0 order x end) ts (Some st).
Proof.
  revert st. induction ts as [|T r IH]; intros st; cbn; [reflexivity|].
  destruct (update_to c s T (Some dt) (Some false) 0 order st) as [st1|]; [apply IH|].
  clear. induction r; cbn; auto.
Qed.

Theorem at_times_spec c s ts dtarg tolarg chosen order st st' :
  at_times c s ts dtarg tolarg chosen order st = Some st' ->
  exists d, compute_dt dtarg tolarg chosen st = Some (set_cur st (Some d))
    /\ Some st' = fold_left (fun acc T => match acc with None => None
                    | Some x => update_to c s T (Some d) (Some false) 0 order x end)
                    (sorted ts) (Some (set_cur st (Some d)))
    /\ clk st' = last (sorted ts) 0 /\ queued st' = None /\ cur st' = Some d.
Proof.
  unfold at_times. destruct (sorted ts) as [|T0 r] eqn:Hs; [discriminate|].
  destruct (compute_dt dtarg tolarg chosen st) as [st1|] eqn:Hc; [|discriminate].
  destruct (compute_dt_spec _ _ _ _ _ Hc) as (d & -> & _).
  cbn [cur set_cur]. intros H. exists d. split; [reflexivity|].
  split; [rewrite <- update_each_unfold; symmetry; exact H|].
  apply (update_each_spec _ _ _ _ _ _ _ H). discriminate.
Qed.

(* sorted really sorts (so `last` is the maximum requested time) *)
Fixpoint is_sorted (l : list Z) : bool :=
  match l with
  | x :: ((y :: _) as r) => (x <=? y) && is_sorted r
  | _ => true
  end.

Lemma insert_sorted_ok x l : is_sorted l = true -> is_sorted (insert_sorted x l) = true.
Proof.
  induction l as [|y r IH]; intros H; cbn [insert_sorted]; [reflexivity|].
  destruct (x <=? y) eqn:E.
  - cbn [is_sorted]. rewrite E. exact H.
  - cbn [is_sorted] in H. destruct r as [|z r'].
    + cbn. rewrite andb_true_r. apply Z.leb_le. lia.
    + apply andb_true_iff in H as [H1 H2]. specialize (IH H2).
      cbn [insert_sorted] in *. destruct (x <=? z) eqn:E2.
      * cbn [is_sorted]. rewrite E2. cbn [is_sorted] in H2. rewrite H2.
        replace (y <=? x) with true by (symmetry; apply Z.leb_le; lia). reflexivity.
      * cbn [is_sorted]. rewrite H1. exact IH.
Qed.

Lemma sorted_ok l : is_sorted (sorted l) = true.
Proof. induction l; cbn [sorted fold_right]; [reflexivity|]. apply insert_sorted_ok. exact IHl. Qed.

Lemma insert_sorted_in x l y : In y (insert_sorted x l) <-> y = x \/ In y l.
Proof.
  induction l as [|z r IH]; cbn [insert_sorted].
  - cbn. intuition.
  - destruct (x <=? z); cbn [In]; [intuition|]. rewrite IH. intuition.
Qed.

Lemma sorted_in l y : In y (sorted l) <-> In y l.
Proof.
  induction l as [|x r IH]; cbn [sorted fold_right]; [reflexivity|].
  rewrite insert_sorted_in. fold (sorted r). rewrite IH. cbn. intuition.
Qed.

(* ---------------------------------------------------------------- *)
(* invariants over ALL histories                                      *)

(* the clock is always t0 + the sum of the recorded step lengths *)
Definition steps_sum (e : list (Z * Z)) : Z := fold_right (fun p a => snd p + a) 0 e.

Lemma steps_sum_app a b : steps_sum (a ++ b) = steps_sum a + steps_sum b.
Proof. induction a; cbn; [reflexivity|]. unfold steps_sum in *. cbn. rewrite IHa. lia. Qed.

Lemma steps_sum_repeat o d n : steps_sum (repeat (o, d) n) = Z.of_nat n * d.
Proof. induction n; [reflexivity|]. rewrite Nat2Z.inj_succ. cbn [repeat]. unfold steps_sum in *. cbn. rewrite IHn. lia. Qed.

Definition clock_inv (st : state) (t0 : Z) : Prop := clk st = t0 + steps_sum (errlog st).

Lemma exec_frame c d f st st' : exec c d f st = Some st' ->
  cur st' = cur st /\ clk st' = clk st /\ errlog st' = errlog st /\ queued st' = queued st.
Proof.
  unfold exec. destruct (cur st) eqn:E.
  - intros H; injection H as <-. cbn. auto.
  - destruct (has_gates c d); [discriminate|]. intros H; injection H as <-. auto.
Qed.

(* holds whatever self._dt is (even None) *)
Lemma sweep_frame c d frac dtarg queue st st' :
  sweep c d frac dtarg queue st = Some st' ->
  cur st' = cur st /\ clk st' = clk st /\ errlog st' = errlog st
  /\ (queue = false -> queued st' = None).
Proof.
  unfold sweep. destruct (scale frac dtarg st); [|discriminate].
  destruct queue; destruct (queued st) as [[qd qf]|] eqn:Hq.
  - destruct (dir_eqb d qd).
    + intros H; injection H as <-. cbn. repeat split; discriminate.
    + intros H. apply exec_frame in H. cbn in H. destruct H as (A & B & C & _).
      repeat split; try assumption. discriminate.
  - intros H; injection H as <-. cbn. repeat split; discriminate.
  - destruct (exec c qd qf (set_queued st None)) as [st1|] eqn:E1; [|discriminate].
    intros H. apply exec_frame in E1. apply exec_frame in H. cbn in E1.
    destruct E1 as (A1 & B1 & C1 & D1). destruct H as (A & B & C & D).
    split; [congruence|]. split; [congruence|]. split; [congruence|]. intros _. congruence.
  - intros H. apply exec_frame in H. destruct H as (A & B & C & D).
    split; [assumption|]. split; [assumption|]. split; [assumption|]. intros _. congruence.
Qed.

Lemma sweeps_frame c dtarg queue l : forall st st',
  sweeps c l dtarg queue st = Some st' ->
  cur st' = cur st /\ clk st' = clk st /\ errlog st' = errlog st
  /\ (queue = false -> l <> [] \/ queued st = None -> queued st' = None).
Proof.
  induction l as [|[k f] r IH]; intros st st'; cbn [sweeps].
  - intros H; injection H as <-. repeat split. intros _ [H|H]; [congruence|exact H].
  - destruct (dir_of k); [|discriminate].
    destruct (sweep c d f dtarg queue st) as [st1|] eqn:Hs; [|discriminate].
    intros Hr. destruct (sweep_frame _ _ _ _ _ _ _ Hs) as (A & B & C & D).
    destruct (IH _ _ Hr) as (A' & B' & C' & D').
    split; [congruence|]. split; [congruence|]. split; [congruence|].
    intros Hq _. apply D'; [exact Hq|]. right. apply D. exact Hq.
Qed.

Lemma step_clock c s order dtarg queue st st' t0 :
  step c s order dtarg queue st = Some st' -> clock_inv st t0 -> clock_inv st' t0.
Proof.
  unfold step, clock_inv. destruct (sched s 2 order); [|discriminate].
  destruct (sweeps c l dtarg queue st) as [st1|] eqn:Hs; [|discriminate].
  destruct (sweeps_frame _ _ _ _ _ _ Hs) as (_ & A & B & _).
  destruct (match dtarg with None => cur st1 | Some d => Some d end); [|discriminate].
  intros H; injection H as <-. cbn [clk errlog set_clk_err]. rewrite steps_sum_app, A, B. cbn. lia.
Qed.

Lemma update_to_clock c s T dtarg tolarg chosen order st st' t0 :
  update_to c s T dtarg tolarg chosen order st = Some st' -> clock_inv st t0 -> clock_inv st' t0.
Proof.
  intros H. destruct (update_to_spec _ _ _ _ _ _ _ _ _ H) as (d & l & n & _ & _ & _ & _ & K & _ & _ & _ & _ & _ & _ & E).
  unfold clock_inv. rewrite K, E. rewrite !steps_sum_app, steps_sum_repeat. cbn. lia.
Qed.

Lemma update_each_clock c s dt order : forall ts st st' t0,
  update_each c s ts dt order st = Some st' -> clock_inv st t0 -> clock_inv st' t0.
Proof.
  induction ts as [|T r IH]; intros st st' t0; cbn [update_each].
  - intros H; injection H as <-; auto.
  - destruct (update_to c s T (Some dt) (Some false) 0 order st) as [st1|] eqn:Hu; [|discriminate].
    intros H Hi. eapply IH; [exact H|]. eapply update_to_clock; eassumption.
Qed.

Lemma apply_op_clock c s o st st' t0 :
  apply_op c s o st = Some st' -> clock_inv st t0 -> clock_inv st' t0.
Proof.
  destruct o; cbn [apply_op].
  - intros H. unfold clock_inv. destruct (sweep_frame _ _ _ _ _ _ _ H) as (_ & -> & -> & _). auto.
  - apply step_clock.
  - apply update_to_clock.
  - unfold at_times. destruct (sorted ts); [discriminate|].
    destruct (compute_dt dt tol chosen st) as [st1|] eqn:Hc; [|discriminate].
    destruct (compute_dt_spec _ _ _ _ _ Hc) as (d & -> & _). cbn [cur set_cur].
    intros H Hi. eapply update_each_clock; [exact H|]. exact Hi.
Qed.

Theorem run_clock c s ops : forall st st' t0,
  run c s ops st = Some st' -> clock_inv st t0 -> clock_inv st' t0.
Proof.
  induction ops as [|o r IH]; intros st st' t0; cbn [run].
  - intros H; injection H as <-; auto.
  - destruct (apply_op c s o st) as [st1|] eqn:Ha; [|discriminate].
    intros H Hi. eapply IH; [exact H|]. eapply apply_op_clock; eassumption.
Qed.

(* whatever happened before (queued sweeps, direct sweep / step calls, other
   step sizes), a history that ends with update_to / at_times ends at the
   requested time with nothing queued *)
Theorem run_ends_drained c s ops o st st' :
  run c s (ops ++ [o]) st = Some st' ->
  match o with
  | OUpdateTo T _ _ _ _ => clk st' = T /\ queued st' = None
  | OAtTimes ts _ _ _ _ => clk st' = last (sorted ts) 0 /\ queued st' = None
  | OSweep _ _ _ q | OStep _ _ q => q = false -> queued st' = None
  end.
Proof.
  revert st. induction ops as [|o' r IH]; intros st; cbn [app run].
  - destruct (apply_op c s o st) as [st1|] eqn:Ha; [|discriminate].
    intros H; injection H as <-. destruct o; cbn [apply_op] in Ha.
    + intros ->. apply (sweep_frame _ _ _ _ _ _ _ Ha). reflexivity.
    + intros ->. unfold step in Ha. destruct (sched s 2 order) as [l|] eqn:Hl; [|discriminate].
      destruct (sweeps c l dt false st) as [st2|] eqn:Hs; [|discriminate].
      destruct (match dt with None => cur st2 | Some d => Some d end); [|discriminate].
      injection Ha as <-. cbn [queued set_clk_err].
      apply (sweeps_frame _ _ _ _ _ _ Hs); [reflexivity|]. left. apply (sched2_shape _ _ _ Hl).
    + destruct (update_to_spec _ _ _ _ _ _ _ _ _ Ha) as (d & l & n & _ & _ & _ & _ & K & Q & _). auto.
    + destruct (at_times_spec _ _ _ _ _ _ _ _ _ Ha) as (d & _ & _ & K & Q & _). auto.
  - destruct (apply_op c s o' st) as [st1|]; [|discriminate]. apply IH.
Qed.

(* ---------------------------------------------------------------- *)
(* canonical centre and imaginary-time normalisation site             *)

Lemma right_sweep_normalises_centre c : sweep_normsite c Right = sweep_centre c Right.
Proof. reflexivity. Qed.

Lemma left_sweep_normalises_centre_iff c : sweep_normsite c Left = sweep_centre c Left <-> cLns c = 0.
Proof. cbn. tauto. Qed.

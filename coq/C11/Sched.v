(* C11 proofs: trotter_schedule for ANY number of layers: every layer's
   fractions sum to one (orders 1, 2, 4, any value of the Suzuki coefficient),
   orders 2 and 4 are palindromic. *)
From Coq Require Import ZArith QArith Qcanon List Bool Lia Field PeanoNat.
From QV Require Import C11.Model.
Import ListNotations.
Open Scope Qc_scope.

Lemma qtwo_nz : qtwo <> 0.
Proof. intro H. discriminate H. Qed.

Lemma half_half : qhalf + qhalf = 1.
Proof. unfold qhalf, qtwo. field. intro H; discriminate H. Qed.

Lemma layer_sum_app k a b : layer_sum k (a ++ b) = layer_sum k a + layer_sum k b.
Proof. induction a as [|[k' f] r IH]; cbn [layer_sum app]; [ring|]. rewrite IH. ring. Qed.

Lemma layer_sum_rev k l : layer_sum k (rev l) = layer_sum k l.
Proof.
  induction l as [|[k' f] r IH]; cbn [rev]; [reflexivity|].
  rewrite layer_sum_app, IH. cbn [layer_sum]. ring.
Qed.

Lemma layer_sum_scale k l f : layer_sum k (scale_sched l f) = layer_sum k l * f.
Proof.
  induction l as [|[k' g] r IH]; cbn [scale_sched map layer_sum fst snd]; [ring|].
  fold (scale_sched r f). rewrite IH. destruct (Nat.eqb k' k); ring.
Qed.

Lemma layer_sum_const k h : forall m a,
  layer_sum k (map (fun j => (j, h)) (seq a m)) = if (a <=? k)%nat && (k <? a + m)%nat then h else 0.
Proof.
  induction m as [|m IH]; intros a; cbn [seq map layer_sum].
  - destruct (a <=? k)%nat eqn:E1; destruct (k <? a + 0)%nat eqn:E2; cbn; try reflexivity.
    apply Nat.leb_le in E1. apply Nat.ltb_lt in E2. lia.
  - rewrite IH. destruct (Nat.eqb a k) eqn:E.
    + apply Nat.eqb_eq in E. subst a.
      replace (S k <=? k)%nat with false by (symmetry; apply Nat.leb_gt; lia).
      replace (k <=? k)%nat with true by (symmetry; apply Nat.leb_le; lia).
      replace (k <? k + S m)%nat with true by (symmetry; apply Nat.ltb_lt; lia).
      cbn. ring.
    + apply Nat.eqb_neq in E.
      destruct (Nat.leb_spec (S a) k); destruct (Nat.leb_spec a k);
      destruct (Nat.ltb_spec k (S a + m)); destruct (Nat.ltb_spec k (a + S m));
      cbn [andb]; try ring; exfalso; lia.
Qed.

Lemma sched2_layer_sum n k : (k < n)%nat -> layer_sum k (sched2 n) = 1.
Proof.
  destruct n as [|m]; [lia|]. intros Hk. unfold sched2.
  rewrite !layer_sum_app. rewrite map_rev, layer_sum_rev. rewrite layer_sum_const.
  cbn [layer_sum]. replace (0 <=? k)%nat with true by (symmetry; apply Nat.leb_le; lia). cbn [andb Nat.add].
  destruct (k <? m)%nat eqn:E.
  - apply Nat.ltb_lt in E. replace (Nat.eqb m k) with false by (symmetry; apply Nat.eqb_neq; lia).
    rewrite <- half_half. ring.
  - apply Nat.ltb_ge in E. replace (Nat.eqb m k) with true by (symmetry; apply Nat.eqb_eq; lia). ring.
Qed.

Theorem sched_layer_sum s n order l k : sched s n order = Some l -> (k < n)%nat -> layer_sum k l = 1.
Proof.
  unfold sched. intros H Hk.
  destruct (order =? 1)%Z.
  { injection H as <-. rewrite layer_sum_const.
    replace (0 <=? k)%nat with true by (symmetry; apply Nat.leb_le; lia).
    replace (k <? 0 + n)%nat with true by (symmetry; apply Nat.ltb_lt; lia). reflexivity. }
  destruct (order =? 2)%Z.
  { injection H as <-. apply sched2_layer_sum. exact Hk. }
  destruct (order =? 4)%Z; [|discriminate].
  injection H as <-. unfold suzuki_factors. cbn [flat_map].
  rewrite !layer_sum_app, !layer_sum_scale, sched2_layer_sum by exact Hk.
  cbn [layer_sum]. unfold qfour, qtwo. ring.
Qed.

Lemma sched2_palindrome n : rev (sched2 n) = sched2 n.
Proof.
  destruct n as [|m]; [reflexivity|]. unfold sched2.
  rewrite map_rev. rewrite !rev_app_distr. rewrite rev_involutive. cbn [rev app].
  rewrite <- app_assoc. reflexivity.
Qed.

Lemma scale_sched_rev l f : rev (scale_sched l f) = scale_sched (rev l) f.
Proof. unfold scale_sched. symmetry. apply map_rev. Qed.

Theorem sched_palindrome s n order l : (order = 2 \/ order = 4)%Z -> sched s n order = Some l -> rev l = l.
Proof.
  intros [-> | ->]; cbn; intros H; injection H as <-.
  - apply sched2_palindrome.
  - unfold suzuki_factors. cbn [flat_map]. rewrite !rev_app_distr. cbn [rev app].
    rewrite !scale_sched_rev, sched2_palindrome. rewrite <- !app_assoc. rewrite app_nil_r. reflexivity.
Qed.

(* invalid orders are rejected, valid ones are not *)
Lemma sched_defined s n order : (exists l, sched s n order = Some l) <-> (order = 1 \/ order = 2 \/ order = 4)%Z.
Proof.
  unfold sched. split.
  - intros (l & H). destruct (order =? 1)%Z eqn:E1; [left; lia|].
    destruct (order =? 2)%Z eqn:E2; [right; left; lia|].
    destruct (order =? 4)%Z eqn:E4; [right; right; lia|discriminate].
  - intros [-> | [-> | ->]]; eexists; reflexivity.
Qed.

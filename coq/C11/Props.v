(* C11 property theorems (statements only; proofs in C11/Proofs.v, Sched.v, Suzuki.v). *)
From Coq Require Import ZArith QArith Qcanon List Bool Reals.
From QV Require Import C11.Model C11.Proofs C11.Sched C11.Suzuki C11.Bonds C11.HamModel C11.HamProofs C11.GenProofs.
Import ListNotations.
Open Scope Z_scope.

(* update_to, from ANY state (whatever is queued, whatever happened before): if
   the call returns, the clock is exactly T, nothing is left queued, and the
   executed sweep log - adjacent equal-direction sweeps merged - is what was
   pending, then n full product-formula steps of the requested order, then one
   final step of the remaining length; n is characterised by the loop test. *)
Theorem C11_update_to_executes_product_formula :
  forall c s T dtarg tolarg chosen order st st',
  update_to c s T dtarg tolarg chosen order st = Some st' ->
  exists d l (n : nat),
    sched s 2 order = Some l
    /\ cur st' = Some d
    /\ d = match (match dtarg with None => dflt_dt st | Some x => Some x end) with
           | Some x => x | None => chosen end
    /\ clk st - cTolU c <= T
    /\ clk st' = T
    /\ queued st' = None
    /\ dflt_dt st' = dflt_dt st /\ dflt_tol st' = dflt_tol st
    /\ ~ (clk st + Z.of_nat n * d < T - d)
    /\ ((0 < n)%nat -> clk st + (Z.of_nat n - 1) * d < T - d)
    /\ normr (log st') =
         normr (pending (set_cur st (Some d)) ++ repeat_app (formula l d) n
                ++ formula l (T - (clk st + Z.of_nat n * d)))
    /\ errlog st' = errlog st ++ repeat (order, d) n ++ [(order, T - (clk st + Z.of_nat n * d))].
Proof. exact update_to_spec. Qed.
Print Assumptions C11_update_to_executes_product_formula.

(* the right number of full steps plus one final shorter step *)
Theorem C11_update_to_step_counts :
  forall c s T dtarg tolarg chosen order st st' d,
  update_to c s T dtarg tolarg chosen order st = Some st' -> cur st' = Some d -> 1 <= d ->
  let n := nfull (clk st) T d in
  let r := T - (clk st + n * d) in
  0 <= n /\ r <= d /\ (0 < n -> 0 < r) /\ (n = 0 -> r = T - clk st) /\ - Z.max 0 (cTolU c) <= r
  /\ errlog st' = errlog st ++ repeat (order, d) (Z.to_nat n) ++ [(order, r)].
Proof. exact update_to_counts. Qed.
Print Assumptions C11_update_to_step_counts.

(* with a positive step, a supported order and an admissible target the call returns *)
Theorem C11_update_to_terminates :
  forall c s T dtarg tolarg chosen order st st1 d,
  (order = 1 \/ order = 2 \/ order = 4) -> clk st - cTolU c <= T ->
  compute_dt dtarg tolarg chosen st = Some st1 -> cur st1 = Some d -> 1 <= d ->
  exists st', update_to c s T dtarg tolarg chosen order st = Some st'.
Proof. exact update_to_total. Qed.
Print Assumptions C11_update_to_terminates.

Theorem C11_update_to_backwards_rejected :
  forall c s T dtarg tolarg chosen order st,
  T < clk st - cTolU c -> update_to c s T dtarg tolarg chosen order st = None.
Proof. exact update_to_backwards. Qed.
Print Assumptions C11_update_to_backwards_rejected.

(* at_times = successive update_to's over the sorted times with one common dt;
   it ends exactly at the largest requested time with nothing queued *)
Theorem C11_at_times_is_successive_update_to :
  forall c s ts dtarg tolarg chosen order st st',
  at_times c s ts dtarg tolarg chosen order st = Some st' ->
  exists d, compute_dt dtarg tolarg chosen st = Some (set_cur st (Some d))
    /\ Some st' = fold_left (fun acc T => match acc with None => None
                    | Some x => update_to c s T (Some d) (Some false) 0 order x end)
                    (sorted ts) (Some (set_cur st (Some d)))
    /\ clk st' = last (sorted ts) 0 /\ queued st' = None /\ cur st' = Some d.
Proof. exact at_times_spec. Qed.
Print Assumptions C11_at_times_is_successive_update_to.

Theorem C11_sorted_sorts : forall l, is_sorted (sorted l) = true /\ (forall y, In y (sorted l) <-> In y l).
Proof. intros l. split; [apply sorted_ok|intros y; apply sorted_in]. Qed.
Print Assumptions C11_sorted_sorts.

(* invariants over ALL histories of public calls (sweep / step with or without
   queueing, update_to, at_times, any arguments) *)
Theorem C11_clock_is_sum_of_steps_all_histories :
  forall c s ops st st' t0, run c s ops st = Some st' ->
  clk st = t0 + steps_sum (errlog st) -> clk st' = t0 + steps_sum (errlog st').
Proof. exact run_clock. Qed.
Print Assumptions C11_clock_is_sum_of_steps_all_histories.

Theorem C11_history_ends_drained :
  forall c s ops o st st', run c s (ops ++ [o]) st = Some st' ->
  match o with
  | OUpdateTo T _ _ _ _ => clk st' = T /\ queued st' = None
  | OAtTimes ts _ _ _ _ => clk st' = last (sorted ts) 0 /\ queued st' = None
  | OSweep _ _ _ q | OStep _ _ q => q = false -> queued st' = None
  end.
Proof. exact run_ends_drained. Qed.
Print Assumptions C11_history_ends_drained.

(* one sweep call, queued or not, adds exactly its own (direction, time) to what is pending *)
Theorem C11_sweep_merge_rule :
  forall c d frac dtarg queue st st' cv,
  cur st = Some cv -> sweep c d frac dtarg queue st = Some st' ->
  frame st st'
  /\ normr (pending st') = push (normr (pending st)) (d, (zq (ev_len dtarg cv) * frac)%Qc)
  /\ (queue = false -> queued st' = None).
Proof. exact sweep_spec. Qed.
Print Assumptions C11_sweep_merge_rule.

(* trotter_schedule, any number of layers, any value of the order-4 coefficient *)
Theorem C11_schedule_layer_fractions_sum_to_one :
  forall s n order l k, sched s n order = Some l -> (k < n)%nat -> layer_sum k l = 1%Qc.
Proof. exact sched_layer_sum. Qed.
Print Assumptions C11_schedule_layer_fractions_sum_to_one.

Theorem C11_schedule_palindromic :
  forall s n order l, order = 2 \/ order = 4 -> sched s n order = Some l -> rev l = l.
Proof. exact sched_palindrome. Qed.
Print Assumptions C11_schedule_palindromic.

Theorem C11_schedule_orders :
  forall s n order, (exists l, sched s n order = Some l) <-> (order = 1 \/ order = 2 \/ order = 4).
Proof. exact sched_defined. Qed.
Print Assumptions C11_schedule_orders.

(* the order-4 condition for s = 1 / (4 - 4^(1/3)) (real numbers) *)
Theorem C11_suzuki_cubic :
  (let s := 1 / (4 - Rpower 4 (/ 3)) in 4 * s ^ 3 + (1 - 4 * s) ^ 3 = 0)%R.
Proof. exact suzuki_cubic. Qed.
Print Assumptions C11_suzuki_cubic.

(* imaginary time: a right sweep divides the centre tensor by its norm; a left
   sweep does so iff the site it divides (cLns, read off the implementation) is 0 *)
Theorem C11_sweep_normalises_centre :
  forall c, sweep_normsite c Right = sweep_centre c Right
            /\ (sweep_normsite c Left = sweep_centre c Left <-> cLns c = 0).
Proof. intros c. split; [apply right_sweep_normalises_centre|apply left_sweep_normalises_centre_iff]. Qed.
Print Assumptions C11_sweep_normalises_centre.

(* the even (right) and odd (left) sweeps together touch every bond of the chain
   - open or periodic, odd or even length - and no more bonds than the chain has *)
Theorem C11_sweeps_cover_every_bond_once :
  forall c, 2 <= cL c ->
  (forall i, 0 <= i < nbonds c -> In (i, (i + 1) mod cL c) (bonds c Right ++ bonds c Left))
  /\ Z.of_nat (length (bonds c Right ++ bonds c Left)) = nbonds c.
Proof. intros c H. split; [intros i; apply sweeps_cover_every_bond; exact H|apply sweeps_touch_nbonds; exact H]. Qed.
Print Assumptions C11_sweeps_cover_every_bond_once.

(* except on odd periodic chains the gates of one sweep act on pairwise disjoint
   sites, hence commute: merging adjacent sweeps of the same direction (the queue,
   the normal form `normr` above) does not change the operator that is applied.
   On odd periodic chains (0,1) and (L-1,0) share a site (property: first order only). *)
Theorem C11_sweep_gates_act_on_disjoint_sites :
  forall c, 2 <= cL c ->
  NoDup (sites_of_bonds (bonds c Left))
  /\ ((cCyc c = true -> (cL c) mod 2 = 0) -> NoDup (sites_of_bonds (bonds c Right))).
Proof. intros c H. split; [apply left_sweep_gates_disjoint; exact H|apply right_sweep_gates_disjoint; exact H]. Qed.
Print Assumptions C11_sweep_gates_act_on_disjoint_sites.

(* LocalHamGen: for every graph (no self loops; every site named by a key),
   every local dimension and every pair of configurations, the matrix element of
   the sum of the stored pair terms equals that of sum(H2) + sum(H1): single-site
   terms are shared among the covering pairs without changing the sum, and (j, i)
   keys are flipped correctly.  (If the constructor returns; it raises exactly
   when a single-site term sits on an uncovered site, next theorem.) *)
Theorem C11_localham_sum :
  forall (d : nat) (sites : list Z) (sg sg' : Z -> nat),
  (0 < d)%nat -> (forall k, (sg k < d)%nat /\ (sg' k < d)%nat) -> NoDup sites ->
  forall H2 h1 dflt terms,
  (forall w, In w (keys H2) -> fst w <> snd w /\ In (fst w) sites /\ In (snd w) sites) ->
  localham d H2 h1 dflt = Some terms ->
  total d sites sg sg' terms
  = (total d sites sg sg' H2 + total1 sites sg sg' (h1_full (sites_of H2) h1 dflt))%Qc.
Proof. intros d sites sg sg' Hd Hsg Hnd H2 h1 dflt terms G. exact (localham_sum d sites sg sg' Hd Hsg Hnd H2 h1 dflt terms G). Qed.
Print Assumptions C11_localham_sum.

Theorem C11_uncovered_single_site_term_rejected :
  forall d terms sh, distribute_one d terms sh = None <-> covering (fst sh) terms = [].
Proof. exact distribute_one_rejects. Qed.
Print Assumptions C11_uncovered_single_site_term_rejected.

(* flipping a term given as (j, i) is conjugation with the swap of the two sites *)
Theorem C11_flip_is_swap_conjugation :
  forall (d : nat) (sites : list Z) (sg sg' : Z -> nat),
  (forall k, (sg k < d)%nat /\ (sg' k < d)%nat) ->
  forall a b X, E2 d sites sg sg' (b, a) (flipm d X) = E2 d sites sg sg' (a, b) X.
Proof. intros d sites sg sg' Hsg a b X. exact (flip_swaps d sites sg sg' Hsg a b X). Qed.
Print Assumptions C11_flip_is_swap_conjugation.

(* TEBDSweepMixin.sweep (arbitrary geometry TEBD / simple update / 2D TEBD), any ordering, with
   or without second_order_reflect: every term is exponentiated for tau times the number of
   occurrences of its pair in the ordering (exactly tau for an ordering without repetitions), and
   the reflected sweep is palindromic (the symmetric second-order formula) *)
Theorem C11_generic_sweep_term_exponents :
  forall w o reflect tau,
  term_exponent w (sweep_gates o reflect tau) = (zq (Z.of_nat (kcount w o)) * tau)%Qc
  /\ (NoDup o -> In w o -> term_exponent w (sweep_gates o reflect tau) = tau)
  /\ length (sweep_gates o reflect tau) = ((if reflect then 2 else 1) * length o)%nat.
Proof.
  intros w o reflect tau. split; [apply sweep_term_exponent|]. split; [apply sweep_term_exponent_once|apply sweep_gates_length].
Qed.
Print Assumptions C11_generic_sweep_term_exponents.

Theorem C11_reflected_sweep_palindromic :
  forall o tau, rev (sweep_gates o true tau) = sweep_gates o true tau.
Proof. exact sweep_gates_palindromic. Qed.
Print Assumptions C11_reflected_sweep_palindromic.

(* LocalHam2D / LocalHam3D: the default two-site term is added under DIRECTED bonds of the lattice
   generator only (never under a re-ordered key), after the explicitly given terms *)
Theorem C11_default_term_goes_under_directed_bonds :
  forall bs H2 X, exists added, fill_default bs H2 X = H2 ++ added
    /\ Forall (fun kv => In (fst kv) bs /\ snd kv = X) added.
Proof. exact fill_default_spec. Qed.
Print Assumptions C11_default_term_goes_under_directed_bonds.

(* non-vacuity: concrete runs of the models *)
Example C11_examples :
  (* update_to(10) from t = 0 with dt = 4, order 2: two full steps (merged across
     the step boundary) and a final step of length 2 *)
  (exists st0 st', init 0 (Some 4) false = Some st0
     /\ update_to (Build_cfg 4 false 1 0) (Q2Qc (41 # 100)) 10 None None 0 2 st0 = Some st'
     /\ clk st' = 10 /\ queued st' = None
     /\ map fst (log st') = [Right; Left; Right; Left; Right; Right; Left; Right]
     /\ errlog st' = [(2, 4); (2, 4); (2, 2)])
  /\ nfull 0 10 4 = 2
  /\ bonds (Build_cfg 7 true 1 0) Right = [(0, 1); (2, 3); (4, 5); (6, 0)]
  /\ bonds (Build_cfg 6 true 1 0) Left = [(5, 0); (3, 4); (1, 2)]
  /\ sweep_order [(0, 1); (1, 2); (0, 2)] true = [(0, 1); (1, 2); (0, 2); (0, 2); (1, 2); (0, 1)]
  /\ bonds2d 3 2 true false = [(0, 1); (0, 2); (1, 3); (2, 3); (2, 4); (3, 5); (4, 5); (4, 0); (5, 1)]
  /\ (exists t, localham 2 [((1, 0), fun r c => zq (Z.of_nat (r * 4 + c)))] [(0, fun r c => zq (Z.of_nat (r + c)))] None = Some t
        /\ map fst t = [(0, 1)]).
Proof.
  split; [|split; [|split; [|split; [|split; [|split]]]]]; try reflexivity.
  - eexists. eexists. split; [reflexivity|]. split; [vm_compute; reflexivity|]. vm_compute. repeat split.
  - eexists. split; [vm_compute; reflexivity|]. reflexivity.
Qed.

(* C19 model: configuration ranking kernels of quimb/operator/configcore.py.
   Hand-written, one definition per Python kernel, same loop structure
   (loops become structural recursion over the configuration / site count).
   Tied to the implementation by exhaustive correspondence (harness/c19.py). *)
From Coq Require Import ZArith List Bool.
Import ListNotations.
Open Scope Z_scope.

(* flatconfig_to_rank_nosymm:  r = 0; for xi in flatconfig: r = (r << 1) | xi *)
Definition rank_nosymm (c : list Z) : Z :=
  fold_left (fun r xi => Z.lor (Z.shiftl r 1) xi) c 0.

(* rank_into_flatconfig_nosymm: for i in range(n-1,-1,-1): cfg[i] = r & 1; r >>= 1 *)
Fixpoint unrank_nosymm_aux (n : nat) (r : Z) (acc : list Z) : list Z :=
  match n with
  | O => acc
  | S n' => unrank_nosymm_aux n' (Z.shiftr r 1) (Z.land r 1 :: acc)
  end.
Definition unrank_nosymm (r : Z) (n : nat) : list Z := unrank_nosymm_aux n r [].

(* calculate_strides: strides[n-1] = 1; strides[i] = strides[i+1] * sizes[i+1] *)
Fixpoint strides (sizes : list Z) : list Z :=
  match sizes with
  | [] => []
  | _ :: t => fold_right Z.mul 1 t :: strides t
  end.

(* flatconfig_to_rank_mixed_radix_nosymm: r += cfg[i] * strides[i] *)
Fixpoint rank_mixed (c st : list Z) : Z :=
  match c, st with
  | x :: c', s :: st' => x * s + rank_mixed c' st'
  | _, _ => 0
  end.

(* rank_into_flatconfig_mixed_radix_nosymm: cfg[i] = (r // strides[i]) % sizes[i] *)
Fixpoint unrank_mixed (r : Z) (sizes st : list Z) : list Z :=
  match sizes, st with
  | d :: sizes', s :: st' => ((r / s) mod d) :: unrank_mixed r sizes' st'
  | _, _ => []
  end.

(* flatconfig_to_rank_z2: like nosymm, ignoring the last bit *)
Definition rank_z2 (c : list Z) : Z := rank_nosymm (removelast c).

(* rank_into_flatconfig_z2:
     prem = 0; m = 1 << (n-2)
     for i in range(n-1): xi = (r & m != 0); cfg[i] = xi; m >>= 1; prem ^= xi
     cfg[n-1] = prem ^ p                                                   *)
Fixpoint unrank_z2_loop (k : nat) (r m prem : Z) : list Z * Z :=
  match k with
  | O => ([], prem)
  | S k' =>
      let xi := if Z.land r m =? 0 then 0 else 1 in
      let '(rest, prem') := unrank_z2_loop k' r (Z.shiftr m 1) (Z.lxor prem xi) in
      (xi :: rest, prem')
  end.
Definition unrank_z2 (r : Z) (n : nat) (p : Z) : list Z :=
  match n with
  | O => []   (* the Python kernel indexes cfg[-1]: n >= 1 is its domain *)
  | S k =>
      let '(pre, prem) := unrank_z2_loop k r (Z.shiftl 1 (Z.of_nat k - 1)) 0 in
      pre ++ [Z.lxor prem p]
  end.

(* build_pascal_table: pt[n,0] = 1; pt[n,k] = pt[n-1,k-1] + pt[n-1,k]; 0 above the diagonal *)
Fixpoint binom (n k : nat) : Z :=
  match n, k with
  | _, O => 1
  | O, S _ => 0
  | S n', S k' => binom n' k' + binom n' k
  end.

(* flatconfig_to_rank_u1_pascal:
     r = 0; krem = k; j = n
     for xi in cfg: j -= 1; r += xi * pt[j, krem]; krem -= xi               *)
Fixpoint rank_u1 (c : list Z) (krem : nat) : Z :=
  match c with
  | [] => 0
  | xi :: c' =>
      let j := length c' in
      xi * binom j krem + rank_u1 c' (if xi =? 0 then krem else Nat.pred krem)
  end.

(* rank_into_flatconfig_u1_pascal:
     for i in range(n): j -= 1; t = pt[j, krem]
        if r >= t: cfg[i] = 1; r -= t; krem -= 1   else: cfg[i] = 0         *)
Fixpoint unrank_u1 (n : nat) (r : Z) (krem : nat) : list Z :=
  match n with
  | O => []
  | S j =>
      let t := binom j krem in
      if r >=? t then 1 :: unrank_u1 j (r - t) (Nat.pred krem)
      else 0 :: unrank_u1 j r krem
  end.

(* u1u1: Db = pt[nb,kb]; rank = rank_a * Db + rank_b; unrank by divmod Db *)
Definition rank_u1u1 (c : list Z) (na ka nb kb : nat) : Z :=
  rank_u1 (firstn na c) ka * binom nb kb + rank_u1 (skipn na c) kb.
Definition unrank_u1u1 (r : Z) (na ka nb kb : nat) : list Z :=
  let Db := binom nb kb in
  unrank_u1 na (r / Db) ka ++ unrank_u1 nb (r mod Db) kb.

(* predicates *)
Definition bit (x : Z) : Prop := x = 0 \/ x = 1.
Definition bits (c : list Z) : Prop := Forall bit c.
Fixpoint weight (c : list Z) : Z := match c with [] => 0 | x :: t => x + weight t end.
Definition parity (c : list Z) : Z := fold_left Z.lxor c 0.
Fixpoint digits_ok (c sizes : list Z) : Prop :=
  match c, sizes with
  | [], [] => True
  | x :: c', d :: s' => 0 <= x < d /\ digits_ok c' s'
  | _, _ => False
  end.

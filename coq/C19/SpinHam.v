(* C19 model, part 2: the spin-chain MPO of quimb/tensor/tensor_builder.py
   (spin_ham_mpo_tensor, SpinHam1D.build_mpo).  Hand-written, executable.

   A term list is  one-site terms (factor, s)  and  two-site terms
   (factor, s1, s2);  the two-site term (f, A, B) on the bond (i, i+1) means
   f * A_i B_{i+1}  (A on the LEFT site).  spin_ham_mpo_tensor writes the
   (BL x B x D x D) array

        H[-1, 0]     += factor * s          one-site terms (accumulated)
        H[-1, 1 + t]  = factor_t * s1_t     t-th term of the bond to the RIGHT
        H[1 + t, 0]   = s2_t                t-th term of the bond to the LEFT
        H[0, 0] = H[-1, -1] = identity      (BL = |left| + 2, B = |right| + 2)

   The slots are pairwise distinct because BL, B >= 2, so the array after the
   assignments is the block matrix written row by row in [mpo_tensor].
   The model is polymorphic in the entry type X (a D x D array in the
   correspondence, an element of an arbitrary semiring in the theorem) and
   the factor type C. *)
From Coq Require Import List Arith ZArith.
Import ListNotations.

Section Layout.
  Variables (X C : Type).
  Variable xzero : X.
  Variable xadd : X -> X -> X.
  Variable xscale : C -> X -> X.
  Variable xid : X.

  Definition term1 := (C * X)%type.        (* (factor, s)      *)
  Definition term2 := (C * X * X)%type.    (* (factor, s1, s2) *)

  (* H[-1, 0, :, :] += factor * s, starting from zeros *)
  Definition onsite (one : list term1) : X :=
    fold_left (fun acc t => xadd acc (xscale (fst t) (snd t))) one xzero.

  Definition open_slot (t : term2) : X := xscale (fst (fst t)) (snd (fst t)).   (* factor * s1 *)
  Definition close_slot (t : term2) : X := snd t.                                (* s2 *)

  (* rows 0 .. BL-1, each of length B = |two| + 2 *)
  Definition mpo_tensor (one : list term1) (two left : list term2) : list (list X) :=
    let m := length two in
    (xid :: repeat xzero (S m))
      :: map (fun t => close_slot t :: repeat xzero (S m)) left
      ++ [ (onsite one :: map open_slot two) ++ [xid] ].

  (* which = 'L' / 'R' of an open chain: HL = H[-1, :], HR = H[:, 0] *)
  Definition tensor_L (H : list (list X)) : list X := last H [].
  Definition tensor_R (H : list (list X)) : list X := map (fun row => hd xzero row) H.

  (* cyclic=True: HL = zeros_like(H); HL[0, :] = H[-1, :]; HL[1:-1, -1] = H[1:-1, 0]; HR = H *)
  Definition tensor_L_cyclic (H : list (list X)) : list (list X) :=
    match H with
    | [] => []
    | r0 :: rest =>
        let B := length r0 in
        last H []
          :: map (fun row => repeat xzero (B - 1) ++ [hd xzero row]) (removelast rest)
          ++ match rest with [] => [] | _ => [repeat xzero B] end
    end.

  (* site / bond specific terms take precedence over the defaults:
     var_one_site_terms.get(i, one_site_terms), var_two_site_terms.get((i, i+1), two_site_terms);
     a bond is keyed by its left site *)
  Fixpoint lookup {A : Type} (k : nat) (var : list (nat * A)) (dflt : A) : A :=
    match var with
    | [] => dflt
    | (k', v) :: var' => if Nat.eqb k k' then v else lookup k var' dflt
    end.

  Variable one : list term1.
  Variable two : list term2.
  Variable var1 : list (nat * list term1).
  Variable var2 : list (nat * list term2).

  Definition site_terms (i : nat) : list term1 := lookup i var1 one.
  Definition bond_terms (i : nat) : list term2 := lookup i var2 two.       (* bond (i, i+1) *)
  (* bond (i-1, i); for i = 0 the key (-1, 0) is never set: the default *)
  Definition left_bond_terms (i : nat) : list term2 :=
    match i with O => two | S j => bond_terms j end.

  (* gen_tensors of build_mpo, before the `which` selection *)
  Definition site_tensor (i : nat) : list (list X) :=
    mpo_tensor (site_terms i) (bond_terms i) (left_bond_terms i).
End Layout.

Arguments lookup {A} k var dflt.

(* ------------------------------------------------------------------------ *)
(* What the open-chain MPO denotes: the product of operator-valued matrices
   HL . W_1 ... W_{L-2} . HR, the product of entries being the tensor
   (Kronecker) product.  That product is associative, bilinear and has a unit
   (the 1 x 1 identity), so the statement is made over an arbitrary -
   non-commutative - semiring R with a distinguished element e (the identity of
   one site).  Factors are elements of R as well (f * A). *)
Section Value.
  Variable R : Type.
  Variables (r0 r1 : R) (radd rmul : R -> R -> R).
  Variable e : R.

  Definition rsum (l : list R) : R := fold_right radd r0 l.
  Fixpoint zipmul (u w : list R) : list R :=
    match u, w with
    | x :: u', y :: w' => rmul x y :: zipmul u' w'
    | _, _ => []
    end.
  Definition dot (u w : list R) : R := rsum (zipmul u w).
  Definition matvec (W : list (list R)) (w : list R) : list R := map (fun row => dot row w) W.
  Fixpoint pw (k : nat) : R := match k with O => r1 | S k' => rmul e (pw k') end.   (* e (x) ... (x) e *)

  Variable one : list (R * R).
  Variable two : list (R * R * R).
  Variable var1 : list (nat * list (R * R)).
  Variable var2 : list (nat * list (R * R * R)).

  Definition siteT (i : nat) : list (list R) := site_tensor R R r0 radd rmul e one two var1 var2 i.

  (* contraction of the sites i, i+1, ..., i+n, the last one being the right end *)
  Fixpoint col_from (n i : nat) : list R :=
    match n with
    | O => tensor_R R r0 (siteT i)
    | S n' => matvec (siteT i) (col_from n' (S i))
    end.

  (* build_mpo(L) of an open chain, L >= 2 (for L = 1 the code hands a 3-dimensional
     array to a one-site MPO and raises) *)
  Definition mpo_value (L : nat) : option R :=
    match L with
    | S (S n) => Some (dot (tensor_L R (siteT 0)) (col_from n 1))
    | _ => None
    end.

  (* the meaning of the term list *)
  Definition h1 (i : nat) : R := onsite R R r0 radd rmul (site_terms R R one var1 i).      (* sum f * s *)
  Definition h2 (i : nat) : R :=                                                          (* sum (f * A) * B *)
    rsum (map (fun t => rmul (rmul (fst (fst t)) (snd (fst t))) (snd t)) (bond_terms R R two var2 i)).
  Definition ham_ref (L : nat) : R :=
    radd (rsum (map (fun i => rmul (rmul (pw i) (h1 i)) (pw (L - S i))) (seq 0 L)))
         (rsum (map (fun i => rmul (rmul (pw i) (h2 i)) (pw (L - S (S i)))) (seq 0 (L - 1)))).

  (* cyclic=True: the first tensor is tensor_L_cyclic, every other one the full array, and the bond leaving
     the last site re-enters the first: the value is the trace
         sum_b  HLc[b, :] . W_1 ... W_{L-2} . H_{L-1}[:, b]                                   *)
  Fixpoint zipcons (xs : list R) (cols : list (list R)) : list (list R) :=
    match xs, cols with
    | x :: xs', c :: cols' => (x :: c) :: zipcons xs' cols'
    | _, _ => []
    end.
  Fixpoint columns (W : list (list R)) : list (list R) :=
    match W with
    | [] => []
    | [row] => map (fun x => [x]) row
    | row :: W' => zipcons row (columns W')
    end.
  Fixpoint mid_apply (n i : nat) (w : list R) : list R :=      (* W_i . W_{i+1} ... W_{i+n-1} . w *)
    match n with
    | O => w
    | S n' => matvec (siteT i) (mid_apply n' (S i) w)
    end.
  Definition mpo_value_cyclic (L : nat) : option R :=
    match L with
    | S (S n) =>
        Some (rsum (map (fun rc => dot (fst rc) (mid_apply n 1 (snd rc)))
                        (combine (tensor_L_cyclic R r0 (siteT 0)) (columns (siteT (S n))))))
    | _ => None
    end.
  (* the periodic bond (L-1, 0) carries the default terms: A on site L-1, B on site 0 *)
  Definition ham_ref_cyclic (L : nat) : R :=
    radd (ham_ref L)
         (rsum (map (fun t => rmul (snd t) (rmul (pw (L - 2)) (rmul (fst (fst t)) (snd (fst t))))) two)).
End Value.

(* ------------------------------------------------------------------------ *)
(* executable instance for the correspondence: D x D arrays (flat, row-major)
   of Gaussian integers, Gaussian-integer factors *)
Open Scope Z_scope.
Definition G := (Z * Z)%type.
Definition gadd (a b : G) : G := (fst a + fst b, snd a + snd b).
Definition gmul (a b : G) : G := (fst a * fst b - snd a * snd b, fst a * snd b + snd a * fst b).
Definition geqb (a b : G) : bool := (fst a =? fst b) && (snd a =? snd b).
Definition GM := list G.
Fixpoint gm_add (a b : GM) : GM :=
  match a, b with x :: a', y :: b' => gadd x y :: gm_add a' b' | _, _ => [] end.
Definition gm_scale (c : G) (a : GM) : GM := map (gmul c) a.
Definition gm_zero (d : nat) : GM := repeat (0, 0) (d * d).
Definition gm_id (d : nat) : GM :=
  map (fun k => if Nat.eqb (Nat.div k d) (Nat.modulo k d) then (1, 0) else (0, 0)) (seq 0 (d * d)).
Fixpoint gm_eqb (a b : GM) : bool :=
  match a, b with
  | [], [] => true
  | x :: a', y :: b' => geqb x y && gm_eqb a' b'
  | _, _ => false
  end.
Fixpoint list_eqb {A : Type} (eqb : A -> A -> bool) (a b : list A) : bool :=
  match a, b with
  | [], [] => true
  | x :: a', y :: b' => eqb x y && list_eqb eqb a' b'
  | _, _ => false
  end.
Definition row_eqb := list_eqb gm_eqb.
Definition mat_eqb := list_eqb row_eqb.

Definition G_tensor (d : nat) := mpo_tensor GM G (gm_zero d) gm_add gm_scale (gm_id d).
Definition G_site_tensor (d : nat) := site_tensor GM G (gm_zero d) gm_add gm_scale (gm_id d).
Definition G_L (d : nat) := tensor_L GM.
Definition G_R (d : nat) := tensor_R GM (gm_zero d).
Definition G_L_cyclic (d : nat) := tensor_L_cyclic GM (gm_zero d).

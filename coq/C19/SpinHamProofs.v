(* C19 proofs, part 2: the open-chain MPO assembled by SpinHam1D.build_mpo
   denotes the term list's Hamiltonian  sum_i e^i h1_i e^(L-1-i) + sum_i e^i h2_i e^(L-2-i)
   over every (non-commutative) semiring. *)
From Coq Require Import List Arith Lia.
From QV Require Import C19.SpinHam.
Import ListNotations.

Record semiring (R : Type) (r0 r1 : R) (radd rmul : R -> R -> R) : Prop := {
  sr_add_comm : forall a b, radd a b = radd b a;
  sr_add_assoc : forall a b c, radd a (radd b c) = radd (radd a b) c;
  sr_add_0_l : forall a, radd r0 a = a;
  sr_mul_assoc : forall a b c, rmul a (rmul b c) = rmul (rmul a b) c;
  sr_mul_1_l : forall a, rmul r1 a = a;
  sr_mul_1_r : forall a, rmul a r1 = a;
  sr_mul_0_l : forall a, rmul r0 a = r0;
  sr_mul_0_r : forall a, rmul a r0 = r0;
  sr_distr_l : forall a b c, rmul a (radd b c) = radd (rmul a b) (rmul a c);
  sr_distr_r : forall a b c, rmul (radd a b) c = radd (rmul a c) (rmul b c)
}.

Section Proofs.
  Variable R : Type.
  Variables (r0 r1 : R) (radd rmul : R -> R -> R).
  Hypothesis SR : semiring R r0 r1 radd rmul.
  Variable e : R.

  Infix "+" := radd.
  Infix "*" := rmul.
  Notation rsum := (rsum R r0 radd).
  Notation dot := (dot R r0 radd rmul).
  Notation zipmul := (zipmul R rmul).
  Notation pw := (pw R r1 rmul e).

  Let add_comm := sr_add_comm _ _ _ _ _ SR.
  Let add_assoc := sr_add_assoc _ _ _ _ _ SR.
  Let add_0_l := sr_add_0_l _ _ _ _ _ SR.
  Let mul_assoc := sr_mul_assoc _ _ _ _ _ SR.
  Let mul_1_l := sr_mul_1_l _ _ _ _ _ SR.
  Let mul_1_r := sr_mul_1_r _ _ _ _ _ SR.
  Let mul_0_l := sr_mul_0_l _ _ _ _ _ SR.
  Let mul_0_r := sr_mul_0_r _ _ _ _ _ SR.
  Let distr_l := sr_distr_l _ _ _ _ _ SR.
  Let distr_r := sr_distr_r _ _ _ _ _ SR.

  Lemma add_0_r a : a + r0 = a.
  Proof. rewrite add_comm. apply add_0_l. Qed.

  Lemma add_swap a b c d : (a + b) + (c + d) = (a + c) + (b + d).
  Proof.
    rewrite <- (add_assoc a b (c + d)), (add_assoc b c d), (add_comm b c),
      <- (add_assoc c b d), (add_assoc a c (b + d)). reflexivity.
  Qed.

  (* ---------------------------------------------------------------- sums *)
  Lemma rsum_mul_l a l : a * rsum l = rsum (map (fun x => a * x) l).
  Proof.
    induction l as [|x l IH]; cbn [rsum fold_right map].
    - apply mul_0_r.
    - rewrite distr_l. f_equal. exact IH.
  Qed.

  Lemma rsum_mul_r a l : rsum l * a = rsum (map (fun x => x * a) l).
  Proof.
    induction l as [|x l IH]; cbn [rsum fold_right map].
    - apply mul_0_l.
    - rewrite distr_r. f_equal. exact IH.
  Qed.

  Lemma rsum_shift (t : nat -> R) k :
    rsum (map t (seq 0 (S k))) = t 0 + rsum (map (fun j => t (S j)) (seq 0 k)).
  Proof.
    cbn [seq map rsum fold_right]. f_equal. rewrite <- seq_shift, map_map. reflexivity.
  Qed.

  Lemma rsum_ext {A : Type} (t t' : A -> R) l : (forall j, t j = t' j) -> rsum (map t l) = rsum (map t' l).
  Proof. intros H. f_equal. apply map_ext. exact H. Qed.

  (* ----------------------------------------------------------- dot rows *)
  Lemma dot_zeros k w : rsum (zipmul (repeat r0 k) w) = r0.
  Proof.
    revert w. induction k as [|k IH]; intros [|y w]; cbn [repeat zipmul rsum fold_right]; try reflexivity.
    fold (rsum (zipmul (repeat r0 k) w)). rewrite IH, mul_0_l. apply add_0_l.
  Qed.

  Lemma dot_head x k y w : dot (x :: repeat r0 k) (y :: w) = x * y.
  Proof.
    unfold dot. cbn [zipmul rsum fold_right]. fold (rsum (zipmul (repeat r0 k) w)).
    rewrite dot_zeros. apply add_0_r.
  Qed.

  Lemma dot_tail {A : Type} (g k : A -> R) (l : list A) p z :
    rsum (zipmul (map g l ++ [p]) (map k l ++ [z])) = rsum (map (fun t => g t * k t) l) + p * z.
  Proof.
    induction l as [|t l IH]; cbn [map app zipmul rsum fold_right].
    - rewrite add_0_r, add_0_l. reflexivity.
    - fold (rsum (zipmul (map g l ++ [p]) (map k l ++ [z]))).
      fold (rsum (map (fun t => g t * k t) l)). rewrite IH. apply add_assoc.
  Qed.

  Lemma dot_last_row {A : Type} x (g k : A -> R) (l : list A) a z :
    dot ((x :: map g l) ++ [e]) ((a :: map k l) ++ [z])
    = x * a + (rsum (map (fun t => g t * k t) l) + e * z).
  Proof.
    unfold dot. cbn [app zipmul rsum fold_right].
    fold (rsum (zipmul (map g l ++ [e]) (map k l ++ [z]))). rewrite dot_tail. reflexivity.
  Qed.

  (* ------------------------------------------------ the reference sum *)
  Definition hamsum (f g : nat -> R) (n : nat) : R :=
    rsum (map (fun j => (pw j * f j) * pw (n - j)) (seq 0 (S n)))
    + rsum (map (fun j => (pw j * g j) * pw (n - S j)) (seq 0 n)).

  Lemma hamsum_ext f f' g g' n : (forall j, f j = f' j) -> (forall j, g j = g' j) ->
    hamsum f g n = hamsum f' g' n.
  Proof.
    intros Hf Hg. unfold hamsum. f_equal; apply rsum_ext; intros j; [rewrite Hf | rewrite Hg]; reflexivity.
  Qed.

  Lemma hamsum_step f g n :
    hamsum f g (S n) = (f 0 * pw (S n) + g 0 * pw n) + e * hamsum (fun j => f (S j)) (fun j => g (S j)) n.
  Proof.
    unfold hamsum at 1.
    rewrite (rsum_shift (fun j => (pw j * f j) * pw (S n - j)) (S n)).
    rewrite (rsum_shift (fun j => (pw j * g j) * pw (S n - S j)) n).
    cbn [Nat.sub]. rewrite Nat.sub_0_r.
    change (pw 0) with r1. rewrite !mul_1_l.
    rewrite (rsum_ext (fun j => (pw (S j) * f (S j)) * pw (n - j))
                      (fun j => e * ((pw j * f (S j)) * pw (n - j)))).
    2:{ intros j. cbn [SpinHam.pw]. rewrite !mul_assoc. reflexivity. }
    rewrite (rsum_ext (fun j => (pw (S j) * g (S j)) * pw (n - S j))
                      (fun j => e * ((pw j * g (S j)) * pw (n - S j)))).
    2:{ intros j. cbn [SpinHam.pw]. rewrite !mul_assoc. reflexivity. }
    rewrite <- (map_map (fun j => (pw j * f (S j)) * pw (n - j)) (fun x => e * x)).
    rewrite <- (map_map (fun j => (pw j * g (S j)) * pw (n - S j)) (fun x => e * x)).
    rewrite <- !rsum_mul_l.
    rewrite add_swap. unfold hamsum. rewrite distr_l. reflexivity.
  Qed.

  (* ------------------------------------------------------------ tensors *)
  Variable one : list (R * R).
  Variable two : list (R * R * R).
  Variable var1 : list (nat * list (R * R)).
  Variable var2 : list (nat * list (R * R * R)).

  Notation siteT := (siteT R r0 radd rmul e one two var1 var2).
  Notation col_from := (col_from R r0 radd rmul e one two var1 var2).
  Notation h1 := (h1 R r0 radd rmul one var1).
  Notation h2 := (h2 R r0 radd rmul two var2).
  Notation bondT := (bond_terms R R two var2).
  Notation leftT := (left_bond_terms R R two var2).
  Notation open_slot := (open_slot R R rmul).
  Notation close_slot := (close_slot R R).

  Definition Hs (n i : nat) : R := hamsum (fun j => h1 (j + i)) (fun j => h2 (j + i)) n.

  Definition last_row (i : nat) : list R := (h1 i :: map open_slot (bondT i)) ++ [e].

  Lemma siteT_rows i :
    siteT i = (e :: repeat r0 (S (length (bondT i))))
                :: map (fun t => close_slot t :: repeat r0 (S (length (bondT i)))) (leftT i)
                ++ [last_row i].
  Proof. reflexivity. Qed.

  Lemma tensor_L_site i : tensor_L R (siteT i) = last_row i.
  Proof.
    rewrite siteT_rows. unfold tensor_L. rewrite app_comm_cons. apply last_last.
  Qed.

  Lemma tensor_R_site i : tensor_R R r0 (siteT i) = (e :: map close_slot (leftT i)) ++ [h1 i].
  Proof.
    rewrite siteT_rows. unfold tensor_R. cbn [map hd app]. f_equal.
    rewrite map_app, map_map. cbn [map hd last_row app]. reflexivity.
  Qed.

  Lemma inter_mul i x :
    rsum (map (fun t => open_slot t * (close_slot t * x)) (bondT i)) = h2 i * x.
  Proof.
    unfold SpinHam.h2. rewrite rsum_mul_r, map_map. apply rsum_ext. intros t.
    unfold SpinHam.open_slot, SpinHam.close_slot. rewrite mul_assoc. reflexivity.
  Qed.

  (* the last row of site i against the contraction of the sites to its right *)
  Lemma last_row_dot i n :
    dot (last_row i) (pw (S n) :: map (fun t => close_slot t * pw n) (bondT i) ++ [Hs n (S i)])
    = Hs (S n) i.
  Proof.
    change (dot (last_row i) ((pw (S n) :: map (fun t => close_slot t * pw n) (bondT i)) ++ [Hs n (S i)])
            = Hs (S n) i).
    unfold last_row. rewrite dot_last_row, inter_mul.
    unfold Hs. rewrite hamsum_step. cbn [Nat.add]. rewrite add_assoc. f_equal. f_equal.
    apply hamsum_ext; intros j; rewrite Nat.add_succ_r; reflexivity.
  Qed.

  Lemma col_from_closed n : forall i,
    col_from n i = (pw (S n) :: map (fun t => close_slot t * pw n) (leftT i)) ++ [Hs n i].
  Proof.
    induction n as [|n IH]; intros i.
    - cbn [SpinHam.col_from]. rewrite tensor_R_site. cbn [SpinHam.pw]. rewrite mul_1_r.
      f_equal.
      + f_equal. apply map_ext. intros t. rewrite mul_1_r. reflexivity.
      + unfold Hs, hamsum. cbn [seq map SpinHam.rsum fold_right Nat.sub Nat.add SpinHam.pw].
        rewrite mul_1_l, mul_1_r, !add_0_r. reflexivity.
    - cbn [SpinHam.col_from]. rewrite IH. change (leftT (S i)) with (bondT i).
      rewrite siteT_rows. unfold matvec. cbn [map app]. rewrite map_app, map_map. cbn [map].
      rewrite last_row_dot. f_equal.
      + apply dot_head.
      + f_equal. apply map_ext. intros t. apply dot_head.
  Qed.

  Theorem mpo_denotes_hamiltonian L : 2 <= L ->
    mpo_value R r0 radd rmul e one two var1 var2 L = Some (ham_ref R r0 r1 radd rmul e one two var1 var2 L).
  Proof.
    destruct L as [|[|n]]; try lia. intros _. unfold mpo_value. f_equal.
    rewrite tensor_L_site, col_from_closed. change (leftT 1) with (bondT 0). cbn [app].
    rewrite last_row_dot. unfold Hs, ham_ref.
    rewrite (hamsum_ext _ (fun j => h1 j) _ (fun j => h2 j)) by (intros j; rewrite Nat.add_0_r; reflexivity).
    reflexivity.
  Qed.

  (* ------------------------------------------------------------ periodic *)
  Notation mid_apply := (mid_apply R r0 radd rmul e one two var1 var2).
  Notation columns := (columns R).
  Notation zipcons := (zipcons R).
  Notation matvec := (matvec R r0 radd rmul).

  Lemma dot_unit_last u p x : dot (u ++ [p]) (repeat r0 (length u) ++ [x]) = p * x.
  Proof.
    unfold dot. induction u as [|a u IH]; cbn [app length repeat SpinHam.zipmul SpinHam.rsum fold_right].
    - apply add_0_r.
    - fold (rsum (zipmul (u ++ [p]) (repeat r0 (length u) ++ [x]))). rewrite IH, mul_0_r. apply add_0_l.
  Qed.

  Lemma dot_head_unit_last a m x : dot (a :: repeat r0 (S m)) (repeat r0 (S m) ++ [x]) = r0.
  Proof.
    change (a :: repeat r0 (S m)) with (a :: r0 :: repeat r0 m). rewrite (repeat_cons m r0).
    rewrite app_comm_cons.
    replace (S m) with (length (a :: repeat r0 m)) by (cbn [length]; rewrite repeat_length; reflexivity).
    rewrite dot_unit_last. apply mul_0_l.
  Qed.

  Lemma last_row_unit_last i x : dot (last_row i) (repeat r0 (S (length (bondT i))) ++ [x]) = e * x.
  Proof.
    unfold last_row.
    replace (S (length (bondT i))) with (length (h1 i :: map open_slot (bondT i)))
      by (cbn [length]; rewrite map_length; reflexivity).
    apply dot_unit_last.
  Qed.

  Lemma matvec_unit_last i x :
    matvec (siteT i) (repeat r0 (S (length (bondT i))) ++ [x]) = repeat r0 (S (length (leftT i))) ++ [e * x].
  Proof.
    rewrite siteT_rows. unfold SpinHam.matvec. cbn [map]. rewrite map_app. cbn [map].
    rewrite last_row_unit_last, dot_head_unit_last, map_map.
    rewrite (map_ext _ (fun _ => r0)) by (intros t; apply dot_head_unit_last).
    cbn [repeat app]. f_equal. f_equal.
    induction (leftT i) as [|t l IH]; cbn [map length repeat]; [reflexivity | f_equal; exact IH].
  Qed.

  Lemma mid_apply_unit_last n : forall i x,
    mid_apply n i (repeat r0 (S (length (leftT (n + i)))) ++ [x]) = repeat r0 (S (length (leftT i))) ++ [pw n * x].
  Proof.
    induction n as [|n IH]; intros i x.
    - cbn [SpinHam.mid_apply Nat.add SpinHam.pw]. rewrite mul_1_l. reflexivity.
    - cbn [SpinHam.mid_apply]. replace (S n + i)%nat with (n + S i)%nat by lia. rewrite IH.
      change (leftT (S i)) with (bondT i). rewrite matvec_unit_last. cbn [SpinHam.pw].
      rewrite mul_assoc. reflexivity.
  Qed.

  Lemma col_from_mid_apply n : forall i,
    col_from n i = mid_apply n i (tensor_R R r0 (siteT (n + i))).
  Proof.
    induction n as [|n IH]; intros i.
    - reflexivity.
    - cbn [SpinHam.col_from SpinHam.mid_apply]. rewrite IH. replace (n + S i)%nat with (S n + i)%nat by lia. reflexivity.
  Qed.

  (* the columns of a site tensor *)
  Lemma zipcons_zeros {A : Type} (f : A -> list R) (l : list A) k : k = length l ->
    zipcons (repeat r0 k) (map f l) = map (fun t => r0 :: f t) l.
  Proof.
    intros ->. induction l as [|t l IH]; cbn [length repeat map SpinHam.zipcons]; [reflexivity | f_equal; exact IH].
  Qed.

  Lemma columns_cons row W : W <> [] -> columns (row :: W) = zipcons row (columns W).
  Proof. destruct W; [congruence | reflexivity]. Qed.

  Lemma columns_mids (mids : list (R * R * R)) (lastr : list R) k x0 : k = length lastr ->
    columns (map (fun t => close_slot t :: repeat r0 k) mids ++ [x0 :: lastr])
    = (map close_slot mids ++ [x0]) :: map (fun x => repeat r0 (length mids) ++ [x]) lastr.
  Proof.
    intros ->. induction mids as [|t mids IH].
    - cbn [map app SpinHam.columns length repeat]. reflexivity.
    - cbn [map app]. rewrite columns_cons by (destruct mids; discriminate).
      rewrite IH. cbn [SpinHam.zipcons length]. f_equal.
      rewrite zipcons_zeros by reflexivity. reflexivity.
  Qed.

  Lemma columns_site i :
    columns (siteT i)
    = tensor_R R r0 (siteT i)
      :: map (fun x => repeat r0 (S (length (leftT i))) ++ [x]) (map open_slot (bondT i) ++ [e]).
  Proof.
    rewrite tensor_R_site, siteT_rows. unfold last_row. cbn [app].
    rewrite columns_cons by (destruct (leftT i); discriminate).
    rewrite (columns_mids (leftT i) (map open_slot (bondT i) ++ [e]))
      by (rewrite app_length, map_length; cbn [length]; lia).
    cbn [SpinHam.zipcons]. f_equal.
    replace (S (length (bondT i))) with (length (map open_slot (bondT i) ++ [e]))
      by (rewrite app_length, map_length; cbn [length]; lia).
    rewrite zipcons_zeros by reflexivity. reflexivity.
  Qed.

  Lemma tensor_L_cyclic_site i :
    tensor_L_cyclic R r0 (siteT i)
    = last_row i
      :: map (fun t => repeat r0 (S (length (bondT i))) ++ [close_slot t]) (leftT i)
      ++ [repeat r0 (S (S (length (bondT i))))].
  Proof.
    rewrite <- tensor_L_site. rewrite siteT_rows at 1. unfold tensor_L_cyclic.
    rewrite <- siteT_rows. f_equal. rewrite removelast_last, map_map.
    cbn [length hd Nat.sub]. rewrite repeat_length. f_equal.
    destruct (map _ (leftT i)); reflexivity.
  Qed.

  Lemma combine_map_snoc {A B T : Type} (f : T -> A) (g : T -> B) (l : list T) a b :
    combine (map f l ++ [a]) (map g l ++ [b]) = map (fun t => (f t, g t)) l ++ [(a, b)].
  Proof. induction l as [|t l IH]; cbn [map app combine]; [reflexivity | f_equal; exact IH]. Qed.

  Lemma rsum_cons x l : rsum (x :: l) = x + rsum l.
  Proof. reflexivity. Qed.

  Lemma rsum_snoc l x : rsum (l ++ [x]) = rsum l + x.
  Proof.
    induction l as [|y l IH]; cbn [app SpinHam.rsum fold_right].
    - rewrite add_0_r, add_0_l. reflexivity.
    - fold (rsum (l ++ [x])). fold (rsum l). rewrite IH. apply add_assoc.
  Qed.

  Theorem mpo_cyclic_denotes_hamiltonian L : 2 <= L -> bondT (L - 1) = two ->
    mpo_value_cyclic R r0 radd rmul e one two var1 var2 L
    = Some (ham_ref_cyclic R r0 r1 radd rmul e one two var1 var2 L).
  Proof.
    destruct L as [|[|n]]; try lia. intros _ Hclose. cbn [Nat.sub] in Hclose.
    unfold mpo_value_cyclic, ham_ref_cyclic. f_equal.
    rewrite tensor_L_cyclic_site, columns_site. change (leftT 0) with two. rewrite Hclose.
    rewrite map_app, (map_map open_slot). cbn [map combine].
    rewrite combine_map_snoc, rsum_cons. cbn [fst snd].
    rewrite map_app. cbn [map]. rewrite rsum_snoc, map_map. cbn [fst snd].
    (* the b = 0 term: the open chain *)
    replace (siteT (S n)) with (siteT (n + 1)%nat) by (f_equal; lia).
    rewrite <- col_from_mid_apply, <- tensor_L_site.
    pose proof (mpo_denotes_hamiltonian (S (S n)) ltac:(lia)) as Hopen.
    unfold mpo_value in Hopen. injection Hopen as Hopen. rewrite Hopen.
    f_equal.
    (* the last row of HLc is zero *)
    unfold SpinHam.dot at 2. rewrite dot_zeros, add_0_r.
    (* the rows 1 + t: B_t on site 0, e on the sites between, f_t A_t on site L-1 *)
    apply rsum_ext. intros t.
    replace (leftT (S n)) with (leftT (n + 1)%nat) by (f_equal; lia).
    rewrite mid_apply_unit_last.
    change (leftT 1) with (bondT 0).
    replace (S (length (bondT 0))) with (length (repeat r0 (S (length (bondT 0))))) at 2
      by (rewrite repeat_length; reflexivity).
    rewrite dot_unit_last. cbn [Nat.sub]. rewrite Nat.sub_0_r. reflexivity.
  Qed.
End Proofs.

(* ------------------------------------------------------------------------ *)
(* the end tensors in closed form, for every entry type: the left end does not
   depend on left_two_site_terms, the right end does not depend on two_site_terms *)
Lemma end_tensors (X C : Type) (xzero : X) (xadd : X -> X -> X) (xscale : C -> X -> X) (xid : X)
      (one : list (C * X)) (two left : list (C * X * X)) :
  tensor_L X (mpo_tensor X C xzero xadd xscale xid one two left)
    = (onsite X C xzero xadd xscale one :: map (open_slot X C xscale) two) ++ [xid]
  /\ tensor_R X xzero (mpo_tensor X C xzero xadd xscale xid one two left)
    = (xid :: map (close_slot X C) left) ++ [onsite X C xzero xadd xscale one]
  /\ length (mpo_tensor X C xzero xadd xscale xid one two left) = length left + 2
  /\ Forall (fun row => length row = length two + 2) (mpo_tensor X C xzero xadd xscale xid one two left).
Proof.
  unfold mpo_tensor, tensor_L, tensor_R, term2, term1. repeat split.
  - rewrite app_comm_cons. apply last_last.
  - cbn [map hd app]. f_equal. rewrite map_app, map_map. reflexivity.
  - cbn [length]. rewrite app_length, map_length. cbn [length]. lia.
  - constructor.
    + cbn [length]. rewrite repeat_length. lia.
    + apply Forall_app. split.
      * apply Forall_forall. intros row Hin. apply in_map_iff in Hin. destruct Hin as [t [<- _]].
        cbn [length]. rewrite repeat_length. lia.
      * constructor; [|constructor]. cbn [length app]. rewrite app_length, map_length. cbn [length]. lia.
Qed.

(* ------------------------------------------------------------------------ *)
(* non-vacuity: 2 x 2 integer matrices form a non-commutative semiring *)
From Coq Require Import ZArith.
Open Scope Z_scope.
Definition M2 := (Z * Z * Z * Z)%type.
Definition m2_0 : M2 := (0, 0, 0, 0).
Definition m2_1 : M2 := (1, 0, 0, 1).
Definition m2_add (a b : M2) : M2 :=
  let '(a1, a2, a3, a4) := a in let '(b1, b2, b3, b4) := b in (a1 + b1, a2 + b2, a3 + b3, a4 + b4).
Definition m2_mul (a b : M2) : M2 :=
  let '(a1, a2, a3, a4) := a in let '(b1, b2, b3, b4) := b in
  (a1 * b1 + a2 * b3, a1 * b2 + a2 * b4, a3 * b1 + a4 * b3, a3 * b2 + a4 * b4).

Lemma m2_eq (a b c d a' b' c' d' : Z) : a = a' -> b = b' -> c = c' -> d = d' -> (a, b, c, d) = (a', b', c', d').
Proof. intros -> -> -> ->. reflexivity. Qed.

Lemma m2_semiring : semiring M2 m2_0 m2_1 m2_add m2_mul.
Proof.
  constructor; intros; repeat match goal with x : M2 |- _ => destruct x as [[[? ?] ?] ?] end;
    unfold m2_add, m2_mul, m2_0, m2_1; apply m2_eq; ring.
Qed.

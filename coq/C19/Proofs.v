(* C19 proofs: every ranking kernel is a bijection between the sector's
   configurations and [0, sector size). *)
From Coq Require Import ZArith List Bool Lia ZifyBool.
From QV Require Import C19.Model.
Import ListNotations.
Open Scope Z_scope.

(* ------------------------------------------------------------------ bits *)
Lemma shl_or r x : 0 <= r -> bit x -> Z.lor (Z.shiftl r 1) x = 2 * r + x.
Proof.
  intros Hr [-> | ->].
  - rewrite Z.lor_0_r, Z.shiftl_mul_pow2 by lia. lia.
  - destruct r as [|p|p]; [reflexivity | reflexivity | lia].
Qed.

Definition step (r xi : Z) : Z := Z.lor (Z.shiftl r 1) xi.

Lemma fold_step_val c : bits c -> forall a, 0 <= a ->
  fold_left step c a = a * 2 ^ Z.of_nat (length c) + fold_left step c 0
  /\ 0 <= fold_left step c 0 < 2 ^ Z.of_nat (length c).
Proof.
  induction 1 as [|x c Hx Hc IH]; intros a Ha.
  - cbn. lia.
  - cbn [fold_left length].
    assert (Hx' : 0 <= x <= 1) by (destruct Hx; lia).
    assert (Ea : step a x = 2 * a + x) by (apply shl_or; assumption).
    assert (E0 : step 0 x = 2 * 0 + x) by (apply shl_or; [lia | assumption]).
    rewrite Ea, E0.
    destruct (IH (2 * a + x) ltac:(lia)) as [E1 B]. destruct (IH (2 * 0 + x) ltac:(lia)) as [E2 _].
    rewrite E1, E2. rewrite Nat2Z.inj_succ, Z.pow_succ_r by lia. split; [lia|].
    assert (0 < 2 ^ Z.of_nat (length c)) by (apply Z.pow_pos_nonneg; lia). nia.
Qed.

Lemma rank_nosymm_bound c : bits c -> 0 <= rank_nosymm c < 2 ^ Z.of_nat (length c).
Proof. intros H. apply (fold_step_val c H 0). lia. Qed.

Lemma rank_nosymm_snoc c x : bits c -> bit x -> rank_nosymm (c ++ [x]) = 2 * rank_nosymm c + x.
Proof.
  intros Hc Hx. unfold rank_nosymm. rewrite fold_left_app. cbn [fold_left].
  apply shl_or; [|exact Hx]. apply (rank_nosymm_bound c Hc).
Qed.

Lemma rank_nosymm_cons x c : bits c -> bit x ->
  rank_nosymm (x :: c) = x * 2 ^ Z.of_nat (length c) + rank_nosymm c.
Proof.
  intros Hc Hx. change (fold_left step c (step 0 x) = x * 2 ^ Z.of_nat (length c) + fold_left step c 0).
  assert (E0 : step 0 x = x) by (unfold step; rewrite shl_or by (lia || assumption); lia).
  rewrite E0. assert (0 <= x) by (destruct Hx; lia).
  destruct (fold_step_val c Hc x ltac:(lia)) as [E _]. rewrite E. lia.
Qed.

Lemma land1 r : Z.land r 1 = r mod 2.
Proof. change 1 with (Z.ones 1). rewrite Z.land_ones by lia. reflexivity. Qed.

Lemma shr1 r : Z.shiftr r 1 = r / 2.
Proof. rewrite Z.shiftr_div_pow2 by lia. reflexivity. Qed.

Lemma unrank_rank_nosymm_aux c : bits c -> forall acc,
  unrank_nosymm_aux (length c) (rank_nosymm c) acc = c ++ acc.
Proof.
  induction c as [|x c IH] using rev_ind; intros Hc acc; [reflexivity|].
  apply Forall_app in Hc. destruct Hc as [Hc Hx]. inversion Hx as [|? ? Hbx _]; subst.
  rewrite app_length. cbn [length]. rewrite Nat.add_1_r. cbn [unrank_nosymm_aux].
  rewrite rank_nosymm_snoc by assumption. rewrite land1, shr1.
  assert (0 <= x <= 1) by (destruct Hbx; lia).
  replace ((2 * rank_nosymm c + x) / 2) with (rank_nosymm c) by (apply Z.div_unique with x; lia).
  replace ((2 * rank_nosymm c + x) mod 2) with x by (apply Z.mod_unique with (rank_nosymm c); lia).
  rewrite IH by assumption. rewrite <- app_assoc. reflexivity.
Qed.

Theorem unrank_rank_nosymm c : bits c -> unrank_nosymm (rank_nosymm c) (length c) = c.
Proof. intros H. unfold unrank_nosymm. rewrite unrank_rank_nosymm_aux by assumption. apply app_nil_r. Qed.

Lemma unrank_nosymm_aux_shape n : forall r acc,
  length (unrank_nosymm_aux n r acc) = (n + length acc)%nat /\ (bits acc -> bits (unrank_nosymm_aux n r acc)).
Proof.
  induction n as [|n IH]; intros r acc; cbn [unrank_nosymm_aux]; [split; [reflexivity | auto]|].
  destruct (IH (Z.shiftr r 1) (Z.land r 1 :: acc)) as [L B]. split.
  - rewrite L. cbn [length]. lia.
  - intros Hacc. apply B. constructor; [|exact Hacc]. rewrite land1.
    pose proof (Z.mod_pos_bound r 2 ltac:(lia)). unfold bit. lia.
Qed.

Lemma rank_unrank_nosymm_aux n : forall r acc, 0 <= r ->
  fold_left step (unrank_nosymm_aux n r acc) 0 = fold_left step acc (r mod 2 ^ Z.of_nat n).
Proof.
  induction n as [|n IH]; intros r acc Hr.
  - cbn. rewrite Z.mod_1_r. reflexivity.
  - cbn [unrank_nosymm_aux]. rewrite IH by (rewrite shr1; apply Z.div_pos; lia).
    cbn [fold_left]. f_equal. unfold step. rewrite land1, shr1.
    pose proof (Z.mod_pos_bound r 2 ltac:(lia)).
    assert (0 < 2 ^ Z.of_nat n) by (apply Z.pow_pos_nonneg; lia).
    pose proof (Z.mod_pos_bound (r / 2) (2 ^ Z.of_nat n) ltac:(lia)).
    rewrite shl_or by (unfold bit; lia).
    rewrite Nat2Z.inj_succ, Z.pow_succ_r by lia.
    rewrite Z.rem_mul_r by lia. lia.
Qed.

Theorem rank_unrank_nosymm n r : 0 <= r < 2 ^ Z.of_nat n ->
  rank_nosymm (unrank_nosymm r n) = r /\ length (unrank_nosymm r n) = n /\ bits (unrank_nosymm r n).
Proof.
  intros Hr. unfold unrank_nosymm, rank_nosymm. split; [|split].
  - change (fun r0 xi => Z.lor (Z.shiftl r0 1) xi) with step.
    rewrite rank_unrank_nosymm_aux by lia. cbn. apply Z.mod_small. lia.
  - destruct (unrank_nosymm_aux_shape n r []) as [L _]. rewrite L. cbn. lia.
  - apply (unrank_nosymm_aux_shape n r []). constructor.
Qed.

(* ------------------------------------------------------------ mixed radix *)
Definition prodZ (l : list Z) : Z := fold_right Z.mul 1 l.

Lemma prodZ_pos l : Forall (fun d => 0 < d) l -> 0 < prodZ l.
Proof. induction 1 as [|d l Hd Hl IH]; [cbn; lia|]. change (prodZ (d :: l)) with (d * prodZ l). nia. Qed.

Lemma prodZ_cons d l : prodZ (d :: l) = d * prodZ l.
Proof. reflexivity. Qed.

Lemma rank_mixed_bound c : forall sizes, digits_ok c sizes -> Forall (fun d => 0 < d) sizes ->
  0 <= rank_mixed c (strides sizes) < prodZ sizes.
Proof.
  induction c as [|x c IH]; intros [|d sizes] Hok Hpos; cbn in Hok; try tauto; [cbn; lia|].
  destruct Hok as [Hx Hok]. inversion Hpos as [|? ? Hd Hpos']; subst.
  specialize (IH sizes Hok Hpos'). cbn [strides rank_mixed]. fold (prodZ sizes). rewrite prodZ_cons. nia.
Qed.

(* the digits below position i only see r modulo the product of the lower sizes *)
Lemma unrank_mixed_mod sizes : Forall (fun d => 0 < d) sizes -> forall q t,
  unrank_mixed (q * prodZ sizes + t) sizes (strides sizes) = unrank_mixed t sizes (strides sizes).
Proof.
  induction 1 as [|d sizes Hd Hpos IH]; intros q t; [reflexivity|].
  cbn [strides unrank_mixed]. fold (prodZ sizes). rewrite prodZ_cons.
  pose proof (prodZ_pos sizes Hpos) as HP. f_equal.
  - replace (q * (d * prodZ sizes) + t) with (t + (q * d) * prodZ sizes) by lia.
    rewrite Z.div_add by lia. rewrite Z.add_mod by lia. rewrite Z.mod_mul by lia.
    rewrite Z.add_0_r. apply Z.mod_mod. lia.
  - replace (q * (d * prodZ sizes) + t) with ((q * d) * prodZ sizes + t) by lia. apply IH.
Qed.

Theorem unrank_rank_mixed c : forall sizes, digits_ok c sizes -> Forall (fun d => 0 < d) sizes ->
  unrank_mixed (rank_mixed c (strides sizes)) sizes (strides sizes) = c.
Proof.
  induction c as [|x c IH]; intros [|d sizes] Hok Hpos; cbn in Hok; try tauto.
  destruct Hok as [Hx Hok]. inversion Hpos as [|? ? Hd Hpos']; subst.
  cbn [strides rank_mixed unrank_mixed]. fold (prodZ sizes).
  pose proof (rank_mixed_bound c sizes Hok Hpos') as HB.
  pose proof (prodZ_pos sizes Hpos') as HP. f_equal.
  - rewrite Z.div_add_l by lia. rewrite (Z.div_small _ _ HB). rewrite Z.add_0_r. apply Z.mod_small. lia.
  - rewrite unrank_mixed_mod by assumption. apply IH; assumption.
Qed.

Theorem rank_unrank_mixed sizes : Forall (fun d => 0 < d) sizes -> forall r, 0 <= r < prodZ sizes ->
  rank_mixed (unrank_mixed r sizes (strides sizes)) (strides sizes) = r
  /\ digits_ok (unrank_mixed r sizes (strides sizes)) sizes.
Proof.
  induction 1 as [|d sizes Hd Hpos IH]; intros r Hr.
  - cbn in *. split; [lia | exact I].
  - cbn [strides unrank_mixed rank_mixed digits_ok]. fold (prodZ sizes).
    rewrite prodZ_cons in Hr.
    pose proof (prodZ_pos sizes Hpos) as HP.
    pose proof (Z.div_mod r (prodZ sizes) ltac:(lia)) as Hdm.
    pose proof (Z.mod_pos_bound r (prodZ sizes) HP) as Hm.
    assert (Hq : 0 <= r / prodZ sizes < d).
    { split; [apply Z.div_pos; lia | apply Z.div_lt_upper_bound; lia]. }
    rewrite (Z.mod_small _ _ Hq).
    assert (Hu : unrank_mixed r sizes (strides sizes) = unrank_mixed (r mod prodZ sizes) sizes (strides sizes)).
    { rewrite <- (unrank_mixed_mod sizes Hpos (r / prodZ sizes) (r mod prodZ sizes)). f_equal. lia. }
    rewrite Hu.
    destruct (IH (r mod prodZ sizes) Hm) as [E Ok]. rewrite E. split; [lia|]. split; [lia | exact Ok].
Qed.

(* ------------------------------------------------------------------ u1 *)
Lemma binom_nonneg n : forall k, 0 <= binom n k.
Proof. induction n as [|n IH]; intros [|k]; cbn; try lia. pose proof (IH k); pose proof (IH (S k)); lia. Qed.

Lemma binom_n_0 n : binom n 0 = 1.
Proof. destruct n; reflexivity. Qed.

Lemma weight_bits_nonneg c : bits c -> 0 <= weight c.
Proof. induction 1 as [|x c Hx Hc IH]; cbn; [lia|]. destruct Hx; lia. Qed.

Lemma rank_u1_bound c : bits c -> forall k, weight c = Z.of_nat k ->
  0 <= rank_u1 c k < binom (length c) k.
Proof.
  induction 1 as [|x c Hx Hc IH]; intros k Hw.
  - cbn in *. assert (k = O) by lia. subst. cbn. lia.
  - cbn [rank_u1 weight length] in *. pose proof (weight_bits_nonneg c Hc) as Hwc.
    destruct Hx as [-> | ->].
    + cbn [Z.eqb]. specialize (IH k ltac:(lia)).
      destruct k as [|k]; cbn [binom]; [rewrite binom_n_0 in IH; lia|].
      pose proof (binom_nonneg (length c) k). lia.
    + replace (1 =? 0) with false by reflexivity.
      destruct k as [|k]; [lia|]. cbn [Nat.pred binom].
      specialize (IH k ltac:(lia)). pose proof (binom_nonneg (length c) (S k)). lia.
Qed.

Theorem unrank_rank_u1 c : bits c -> forall k, weight c = Z.of_nat k ->
  unrank_u1 (length c) (rank_u1 c k) k = c.
Proof.
  induction 1 as [|x c Hx Hc IH]; intros k Hw; [reflexivity|].
  cbn [rank_u1 weight length unrank_u1] in *. pose proof (weight_bits_nonneg c Hc) as Hwc.
  destruct Hx as [-> | ->].
  - cbn [Z.eqb]. pose proof (rank_u1_bound c Hc k ltac:(lia)) as HB.
    replace (0 * binom (length c) k + rank_u1 c k >=? binom (length c) k) with false by lia.
    f_equal. rewrite Z.mul_0_l, Z.add_0_l. apply IH. lia.
  - replace (1 =? 0) with false by reflexivity.
    destruct k as [|k]; [lia|]. cbn [Nat.pred].
    pose proof (rank_u1_bound c Hc k ltac:(lia)) as HB.
    replace (1 * binom (length c) (S k) + rank_u1 c k >=? binom (length c) (S k)) with true by lia.
    f_equal. replace (1 * binom (length c) (S k) + rank_u1 c k - binom (length c) (S k)) with (rank_u1 c k) by lia.
    apply IH. lia.
Qed.

Theorem rank_unrank_u1 n : forall k r, 0 <= r < binom n k ->
  let c := unrank_u1 n r k in
  rank_u1 c k = r /\ length c = n /\ bits c /\ weight c = Z.of_nat k.
Proof.
  induction n as [|n IH]; intros k r Hr; cbn zeta.
  - destruct k; cbn in *; [|lia]. repeat split; try lia. constructor.
  - cbn [unrank_u1]. destruct (r >=? binom n k) eqn:E.
    + destruct k as [|k]; [rewrite binom_n_0 in E; cbn in Hr; lia|].
      cbn [binom] in Hr. cbn [Nat.pred].
      destruct (IH k (r - binom n (S k)) ltac:(lia)) as (E1 & L & B & W).
      cbn [rank_u1 length weight]. rewrite L. replace (1 =? 0) with false by reflexivity. cbn [Nat.pred].
      rewrite E1. repeat split; try lia. constructor; [right; reflexivity | exact B].
    + assert (Hr' : 0 <= r < binom n k) by lia.
      destruct (IH k r Hr') as (E1 & L & B & W).
      cbn [rank_u1 length weight]. rewrite L. cbn [Z.eqb]. rewrite E1.
      repeat split; try lia. constructor; [left; reflexivity | exact B].
Qed.

(* ------------------------------------------------------------------ u1u1 *)
Lemma firstn_len_app (a b : list Z) : firstn (length a) (a ++ b) = a.
Proof. induction a as [|x a IH]; cbn; [reflexivity | congruence]. Qed.
Lemma skipn_len_app (a b : list Z) : skipn (length a) (a ++ b) = b.
Proof. induction a as [|x a IH]; cbn; [reflexivity | exact IH]. Qed.

Theorem unrank_rank_u1u1 ca cb ka kb : bits ca -> bits cb ->
  weight ca = Z.of_nat ka -> weight cb = Z.of_nat kb ->
  unrank_u1u1 (rank_u1u1 (ca ++ cb) (length ca) ka (length cb) kb) (length ca) ka (length cb) kb = ca ++ cb.
Proof.
  intros Ha Hb Wa Wb. unfold rank_u1u1, unrank_u1u1.
  rewrite firstn_len_app, skipn_len_app.
  pose proof (rank_u1_bound cb Hb kb Wb) as HB.
  rewrite Z.div_add_l by lia. rewrite (Z.div_small _ _ HB), Z.add_0_r.
  rewrite Z.add_comm, Z.mod_add by lia. rewrite (Z.mod_small _ _ HB).
  rewrite unrank_rank_u1 by assumption. rewrite unrank_rank_u1 by assumption. reflexivity.
Qed.

Theorem rank_unrank_u1u1 na ka nb kb r : 0 <= r < binom na ka * binom nb kb ->
  let c := unrank_u1u1 r na ka nb kb in
  rank_u1u1 c na ka nb kb = r /\ length c = (na + nb)%nat /\ bits c
  /\ weight (firstn na c) = Z.of_nat ka /\ weight (skipn na c) = Z.of_nat kb.
Proof.
  intros Hr. cbn zeta. unfold unrank_u1u1, rank_u1u1.
  pose proof (binom_nonneg na ka). pose proof (binom_nonneg nb kb).
  assert (HDb : 0 < binom nb kb) by nia.
  pose proof (Z.mod_pos_bound r (binom nb kb) HDb) as Hm.
  assert (Hq : 0 <= r / binom nb kb < binom na ka).
  { split; [apply Z.div_pos; lia | apply Z.div_lt_upper_bound; nia]. }
  destruct (rank_unrank_u1 na ka _ Hq) as (Ea & La & Ba & Wa).
  destruct (rank_unrank_u1 nb kb _ Hm) as (Eb & Lb & Bb & Wb).
  set (A := unrank_u1 na (r / binom nb kb) ka) in *.
  set (B := unrank_u1 nb (r mod binom nb kb) kb) in *.
  rewrite <- La. rewrite firstn_len_app, skipn_len_app.
  rewrite Ea, Eb. rewrite app_length, Lb.
  pose proof (Z.div_mod r (binom nb kb) ltac:(lia)).
  repeat split; try assumption; try lia. apply Forall_app; split; assumption.
Qed.

(* ------------------------------------------------------------------ z2 *)
Lemma land_pow2_eqb r j : 0 <= j -> (Z.land r (2 ^ j) =? 0) = negb (Z.testbit r j).
Proof.
  intros Hj. destruct (Z.testbit r j) eqn:T; cbn [negb].
  - apply Z.eqb_neq. intros E.
    assert (Hb : Z.testbit (Z.land r (2 ^ j)) j = true).
    { rewrite Z.land_spec, T, Z.pow2_bits_true by lia. reflexivity. }
    rewrite E, Z.bits_0 in Hb. discriminate.
  - apply Z.eqb_eq. apply Z.bits_inj'. intros n Hn.
    rewrite Z.land_spec, Z.bits_0, Z.pow2_bits_eqb by lia.
    destruct (j =? n) eqn:E; [|apply andb_false_r].
    apply Z.eqb_eq in E. subst. rewrite T. reflexivity.
Qed.

Lemma mask_bit r j : 0 <= j -> (if Z.land r (2 ^ j) =? 0 then 0 else 1) = (r / 2 ^ j) mod 2.
Proof.
  intros Hj. rewrite land_pow2_eqb by lia. rewrite <- Z.testbit_spec' by lia.
  destruct (Z.testbit r j); reflexivity.
Qed.

Lemma mask_next k : Z.shiftr (Z.shiftl 1 (Z.of_nat (S k) - 1)) 1 = Z.shiftl 1 (Z.of_nat k - 1).
Proof.
  destruct k as [|k]; [reflexivity|].
  rewrite !Z.shiftl_1_l. rewrite Z.shiftr_div_pow2 by lia.
  replace (Z.of_nat (S (S k)) - 1) with (Z.succ (Z.of_nat (S k) - 1)) by lia.
  rewrite Z.pow_succ_r by lia. rewrite Z.pow_1_r. rewrite Z.mul_comm, Z.div_mul by lia. reflexivity.
Qed.

Lemma fold_lxor_acc L : forall a, fold_left Z.lxor L a = Z.lxor a (fold_left Z.lxor L 0).
Proof.
  induction L as [|x L IH]; intros a; cbn [fold_left]; [rewrite Z.lxor_0_r; reflexivity|].
  rewrite (IH (Z.lxor a x)), (IH (Z.lxor 0 x)). rewrite Z.lxor_0_l. apply Z.lxor_assoc.
Qed.

Lemma lxor_bit a b : bit a -> bit b -> bit (Z.lxor a b).
Proof. intros [-> | ->] [-> | ->]; cbn; unfold bit; lia. Qed.

Lemma parity_bit L : bits L -> bit (parity L).
Proof.
  unfold parity. induction L as [|x L IH] using rev_ind; intros H; [left; reflexivity|].
  apply Forall_app in H. destruct H as [HL Hx]. inversion Hx; subst.
  rewrite fold_left_app. cbn [fold_left]. apply lxor_bit; [apply IH; exact HL | assumption].
Qed.

Lemma z2_loop_spec k : forall r prem, 0 <= r ->
  let '(L, q) := unrank_z2_loop k r (Z.shiftl 1 (Z.of_nat k - 1)) prem in
  length L = k /\ bits L /\ rank_nosymm L = r mod 2 ^ Z.of_nat k /\ q = fold_left Z.lxor L prem.
Proof.
  induction k as [|k IH]; intros r prem Hr.
  - cbn. repeat split; try constructor. rewrite Z.mod_1_r. reflexivity.
  - cbn [unrank_z2_loop]. rewrite mask_next.
    replace (Z.shiftl 1 (Z.of_nat (S k) - 1)) with (2 ^ Z.of_nat k)
      by (rewrite Z.shiftl_1_l; f_equal; lia).
    rewrite mask_bit by lia. set (xi := (r / 2 ^ Z.of_nat k) mod 2).
    specialize (IH r (Z.lxor prem xi) Hr).
    destruct (unrank_z2_loop k r (Z.shiftl 1 (Z.of_nat k - 1)) (Z.lxor prem xi)) as [rest q].
    destruct IH as (L & B & R & Q).
    assert (Hxi : bit xi).
    { unfold xi. pose proof (Z.mod_pos_bound (r / 2 ^ Z.of_nat k) 2 ltac:(lia)). unfold bit. lia. }
    repeat split.
    + cbn [length]. lia.
    + constructor; assumption.
    + rewrite rank_nosymm_cons by assumption. rewrite L, R.
      rewrite Nat2Z.inj_succ, Z.pow_succ_r by lia.
      assert (0 < 2 ^ Z.of_nat k) by (apply Z.pow_pos_nonneg; lia).
      rewrite (Z.mul_comm 2). rewrite Z.rem_mul_r by lia. unfold xi. lia.
    + cbn [fold_left]. exact Q.
Qed.

Lemma rank_nosymm_inj a b : bits a -> bits b -> length a = length b ->
  rank_nosymm a = rank_nosymm b -> a = b.
Proof.
  intros Ha Hb HL HR. rewrite <- (unrank_rank_nosymm a Ha), <- (unrank_rank_nosymm b Hb).
  rewrite HL, HR. reflexivity.
Qed.

Theorem unrank_rank_z2 pre last p : bits (pre ++ [last]) -> parity (pre ++ [last]) = p ->
  unrank_z2 (rank_z2 (pre ++ [last])) (length (pre ++ [last])) p = pre ++ [last].
Proof.
  intros Hb Hp. apply Forall_app in Hb. destruct Hb as [Hpre Hlast].
  unfold rank_z2. rewrite removelast_last. rewrite app_length. cbn [length]. rewrite Nat.add_1_r.
  cbn [unrank_z2].
  pose proof (rank_nosymm_bound pre Hpre) as HB.
  pose proof (z2_loop_spec (length pre) (rank_nosymm pre) 0 ltac:(lia)) as S.
  destruct (unrank_z2_loop (length pre) (rank_nosymm pre) (Z.shiftl 1 (Z.of_nat (length pre) - 1)) 0) as [L q].
  destruct S as (HL & HbL & HR & Hq).
  rewrite Z.mod_small in HR by lia.
  assert (L = pre) by (apply rank_nosymm_inj; assumption). subst L.
  f_equal. f_equal. subst q. subst p. unfold parity. rewrite fold_left_app. cbn [fold_left].
  fold (parity pre).
  rewrite <- Z.lxor_assoc. rewrite Z.lxor_nilpotent. apply Z.lxor_0_l.
Qed.

Theorem rank_unrank_z2 n r p : 0 <= r < 2 ^ Z.of_nat n -> bit p ->
  let c := unrank_z2 r (S n) p in
  rank_z2 c = r /\ length c = S n /\ bits c /\ parity c = p.
Proof.
  intros Hr Hp. cbn zeta. cbn [unrank_z2].
  pose proof (z2_loop_spec n r 0 ltac:(lia)) as S.
  destruct (unrank_z2_loop n r (Z.shiftl 1 (Z.of_nat n - 1)) 0) as [L q].
  destruct S as (HL & HbL & HR & Hq). rewrite Z.mod_small in HR by lia.
  unfold rank_z2. rewrite removelast_last. rewrite app_length. cbn [length].
  assert (Hq' : q = parity L) by exact Hq.
  repeat split.
  - exact HR.
  - lia.
  - apply Forall_app. split; [exact HbL|]. constructor; [|constructor].
    apply lxor_bit; [rewrite Hq'; apply parity_bit; exact HbL | exact Hp].
  - unfold parity. rewrite fold_left_app. cbn [fold_left]. fold (parity L). rewrite Hq'.
    rewrite <- Z.lxor_assoc. rewrite Z.lxor_nilpotent. apply Z.lxor_0_l.
Qed.

(* C19 property theorems: configuration ranking is a bijection between
   [0, sector size) and the sector's configurations, with the combinatorial
   sizes 2^n, prod sizes, 2^(n-1), C(n,k), C(na,ka)*C(nb,kb).
   Statements only; proofs in C19/Proofs.v; models in C19/Model.v (hand-written
   from quimb/operator/configcore.py, tied by exhaustive correspondence). *)
From Coq Require Import ZArith List Bool.
From QV Require Import C19.Model C19.Proofs C19.SpinHam C19.SpinHamProofs.
Import ListNotations.
Open Scope Z_scope.

(* unconstrained qubits: size 2^n *)
Theorem C19_nosymm_unrank_rank : forall c, bits c -> unrank_nosymm (rank_nosymm c) (length c) = c.
Proof. exact unrank_rank_nosymm. Qed.
Print Assumptions C19_nosymm_unrank_rank.

Theorem C19_nosymm_rank_unrank : forall n r, 0 <= r < 2 ^ Z.of_nat n ->
  rank_nosymm (unrank_nosymm r n) = r /\ length (unrank_nosymm r n) = n /\ bits (unrank_nosymm r n).
Proof. exact rank_unrank_nosymm. Qed.
Print Assumptions C19_nosymm_rank_unrank.

Theorem C19_nosymm_rank_in_range : forall c, bits c -> 0 <= rank_nosymm c < 2 ^ Z.of_nat (length c).
Proof. exact rank_nosymm_bound. Qed.
Print Assumptions C19_nosymm_rank_in_range.

(* mixed radix: size prod sizes *)
Theorem C19_mixed_unrank_rank : forall c sizes, digits_ok c sizes -> Forall (fun d => 0 < d) sizes ->
  unrank_mixed (rank_mixed c (strides sizes)) sizes (strides sizes) = c.
Proof. exact unrank_rank_mixed. Qed.
Print Assumptions C19_mixed_unrank_rank.

Theorem C19_mixed_rank_unrank : forall sizes, Forall (fun d => 0 < d) sizes ->
  forall r, 0 <= r < prodZ sizes ->
  rank_mixed (unrank_mixed r sizes (strides sizes)) (strides sizes) = r
  /\ digits_ok (unrank_mixed r sizes (strides sizes)) sizes.
Proof. exact rank_unrank_mixed. Qed.
Print Assumptions C19_mixed_rank_unrank.

Theorem C19_mixed_rank_in_range : forall c sizes, digits_ok c sizes -> Forall (fun d => 0 < d) sizes ->
  0 <= rank_mixed c (strides sizes) < prodZ sizes.
Proof. exact rank_mixed_bound. Qed.
Print Assumptions C19_mixed_rank_in_range.

(* Z2 parity sector: size 2^(n-1) *)
Theorem C19_z2_unrank_rank : forall pre last p, bits (pre ++ [last]) -> parity (pre ++ [last]) = p ->
  unrank_z2 (rank_z2 (pre ++ [last])) (length (pre ++ [last])) p = pre ++ [last].
Proof. exact unrank_rank_z2. Qed.
Print Assumptions C19_z2_unrank_rank.

Theorem C19_z2_rank_unrank : forall n r p, 0 <= r < 2 ^ Z.of_nat n -> bit p ->
  let c := unrank_z2 r (S n) p in
  rank_z2 c = r /\ length c = S n /\ bits c /\ parity c = p.
Proof. exact rank_unrank_z2. Qed.
Print Assumptions C19_z2_rank_unrank.

(* U1 particle-number sector: size C(n,k), via the Pascal table recurrence *)
Theorem C19_u1_unrank_rank : forall c, bits c -> forall k, weight c = Z.of_nat k ->
  unrank_u1 (length c) (rank_u1 c k) k = c.
Proof. exact unrank_rank_u1. Qed.
Print Assumptions C19_u1_unrank_rank.

Theorem C19_u1_rank_unrank : forall n k r, 0 <= r < binom n k ->
  let c := unrank_u1 n r k in
  rank_u1 c k = r /\ length c = n /\ bits c /\ weight c = Z.of_nat k.
Proof. exact rank_unrank_u1. Qed.
Print Assumptions C19_u1_rank_unrank.

Theorem C19_u1_rank_in_range : forall c, bits c -> forall k, weight c = Z.of_nat k ->
  0 <= rank_u1 c k < binom (length c) k.
Proof. exact rank_u1_bound. Qed.
Print Assumptions C19_u1_rank_in_range.

(* U1 x U1: size C(na,ka) * C(nb,kb) *)
Theorem C19_u1u1_unrank_rank : forall ca cb ka kb, bits ca -> bits cb ->
  weight ca = Z.of_nat ka -> weight cb = Z.of_nat kb ->
  unrank_u1u1 (rank_u1u1 (ca ++ cb) (length ca) ka (length cb) kb) (length ca) ka (length cb) kb = ca ++ cb.
Proof. exact unrank_rank_u1u1. Qed.
Print Assumptions C19_u1u1_unrank_rank.

Theorem C19_u1u1_rank_unrank : forall na ka nb kb r, 0 <= r < binom na ka * binom nb kb ->
  let c := unrank_u1u1 r na ka nb kb in
  rank_u1u1 c na ka nb kb = r /\ length c = (na + nb)%nat /\ bits c
  /\ weight (firstn na c) = Z.of_nat ka /\ weight (skipn na c) = Z.of_nat kb.
Proof. exact rank_unrank_u1u1. Qed.
Print Assumptions C19_u1u1_rank_unrank.

(* spin-chain MPO (spin_ham_mpo_tensor / SpinHam1D.build_mpo, open boundary): over every -
   non-commutative - semiring (product = tensor product of site operators, e = identity of
   one site) the product of the operator-valued site matrices, with site / bond specific
   terms taking precedence over the defaults, is the Hamiltonian of the term list: the
   one-site sums h1_i at site i and, for the bond (i, i+1), sum (f * A) * B with A on site i
   and B on site i+1.  Model: C19/SpinHam.v, tied to the arrays the code builds by the
   exact layout correspondence of harness/c19.py. *)
Theorem C19_spinham_mpo_denotes_hamiltonian :
  forall (R : Type) (r0 r1 : R) (radd rmul : R -> R -> R), semiring R r0 r1 radd rmul ->
  forall (e : R) (one : list (R * R)) (two : list (R * R * R))
         (var1 : list (nat * list (R * R))) (var2 : list (nat * list (R * R * R))) (L : nat),
  (2 <= L)%nat ->
  mpo_value R r0 radd rmul e one two var1 var2 L
  = Some (ham_ref R r0 r1 radd rmul e one two var1 var2 L).
Proof. exact mpo_denotes_hamiltonian. Qed.
Print Assumptions C19_spinham_mpo_denotes_hamiltonian.

(* cyclic=True: the first tensor is HL = tensor_L_cyclic(H), the others the full array, and the value is the
   trace over the bond that leaves the last site and re-enters the first.  When the periodic bond carries the
   default terms (no bond-specific entry under the key (L-1, L)), the trace is the open-chain Hamiltonian plus,
   for every default term (f, A, B),  B e^(L-2) (f A):  A on site L-1 and B on site 0. *)
Theorem C19_spinham_mpo_cyclic_denotes_hamiltonian :
  forall (R : Type) (r0 r1 : R) (radd rmul : R -> R -> R), semiring R r0 r1 radd rmul ->
  forall (e : R) (one : list (R * R)) (two : list (R * R * R))
         (var1 : list (nat * list (R * R))) (var2 : list (nat * list (R * R * R))) (L : nat),
  (2 <= L)%nat -> bond_terms R R two var2 (L - 1) = two ->
  mpo_value_cyclic R r0 radd rmul e one two var1 var2 L
  = Some (ham_ref_cyclic R r0 r1 radd rmul e one two var1 var2 L).
Proof. exact mpo_cyclic_denotes_hamiltonian. Qed.
Print Assumptions C19_spinham_mpo_cyclic_denotes_hamiltonian.

(* which = 'L' / 'R': the left end is the last row and does not depend on the terms of a bond
   to its left, the right end is the first column and does not depend on a bond to its right;
   the array is (|left| + 2) x (|two| + 2) *)
Theorem C19_spinham_end_tensors :
  forall (X C : Type) (xzero : X) (xadd : X -> X -> X) (xscale : C -> X -> X) (xid : X)
         (one : list (C * X)) (two left : list (C * X * X)),
  tensor_L X (mpo_tensor X C xzero xadd xscale xid one two left)
    = (onsite X C xzero xadd xscale one :: map (open_slot X C xscale) two) ++ [xid]
  /\ tensor_R X xzero (mpo_tensor X C xzero xadd xscale xid one two left)
    = (xid :: map (close_slot X C) left) ++ [onsite X C xzero xadd xscale one]
  /\ length (mpo_tensor X C xzero xadd xscale xid one two left) = (length left + 2)%nat
  /\ Forall (fun row => length row = (length two + 2)%nat) (mpo_tensor X C xzero xadd xscale xid one two left).
Proof. exact end_tensors. Qed.
Print Assumptions C19_spinham_end_tensors.

(* non-vacuity *)
(* 2 x 2 integer matrices are a non-commutative semiring; there the MPO of the lone term
   (1, A, B) on three sites is A B e + e A B, which is not B A e + e B A *)
Example C19_spinham_example :
  semiring M2 m2_0 m2_1 m2_add m2_mul
  /\ let A := (0, 1, 0, 0) in let B := (1, 0, 0, -1) in let e := (2, 0, 0, 3) in
     mpo_value M2 m2_0 m2_add m2_mul e [] [(m2_1, A, B)] [] [] 3
       = Some (m2_add (m2_mul (m2_mul A B) e) (m2_mul e (m2_mul A B)))
     /\ m2_add (m2_mul (m2_mul A B) e) (m2_mul e (m2_mul A B))
        <> m2_add (m2_mul (m2_mul B A) e) (m2_mul e (m2_mul B A))
     /\ mpo_value_cyclic M2 m2_0 m2_add m2_mul e [] [(m2_1, A, B)] [] [] 3
       = Some (m2_add (m2_add (m2_mul (m2_mul A B) e) (m2_mul e (m2_mul A B))) (m2_mul B (m2_mul e A))).
Proof. split; [exact m2_semiring | vm_compute; repeat split; try reflexivity; discriminate]. Qed.

Example C19_examples :
  rank_u1 [1;0;1;0] 2 = 4 /\ unrank_u1 4 4 2 = [1;0;1;0] /\ binom 4 2 = 6
  /\ unrank_z2 5 4 1 = [1;0;1;1] /\ rank_z2 [1;0;1;1] = 5
  /\ unrank_mixed 7 [2;3;2] (strides [2;3;2]) = [1;0;1] /\ rank_mixed [1;0;1] (strides [2;3;2]) = 7.
Proof. vm_compute. repeat split. Qed.

(* C19 property theorems: configuration ranking is a bijection between
   [0, sector size) and the sector's configurations, with the combinatorial
   sizes 2^n, prod sizes, 2^(n-1), C(n,k), C(na,ka)*C(nb,kb).
   Statements only; proofs in C19/Proofs.v; models in C19/Model.v (hand-written
   from quimb/operator/configcore.py, tied by exhaustive correspondence). *)
From Coq Require Import ZArith List Bool.
From QV Require Import C19.Model C19.Proofs.
Import ListNotations.
Open Scope Z_scope.

(* unconstrained qubits: size 2^n *)
Theorem C19_nosymm_unrank_rank : forall c, bits c -> unrank_nosymm (rank_nosymm c) (length c) = c.
Proof. exact unrank_rank_nosymm. Qed.
Print Assumptions C19_nosymm_unrank_rank.

Theorem C19_nosymm_rank_unrank : forall n r, 0 <= r < 2 ^ Z.of_nat n ->
  rank_nosymm (unrank_nosymm r n) = r /\ length (unrank_nosymm r n) = n /\ bits (unrank_nosymm r n).
Proof. exact rank_unrank_nosymm. Qed.
Print Assumptions C19_nosymm_rank_unrank.

Theorem C19_nosymm_rank_in_range : forall c, bits c -> 0 <= rank_nosymm c < 2 ^ Z.of_nat (length c).
Proof. exact rank_nosymm_bound. Qed.
Print Assumptions C19_nosymm_rank_in_range.

(* mixed radix: size prod sizes *)
Theorem C19_mixed_unrank_rank : forall c sizes, digits_ok c sizes -> Forall (fun d => 0 < d) sizes ->
  unrank_mixed (rank_mixed c (strides sizes)) sizes (strides sizes) = c.
Proof. exact unrank_rank_mixed. Qed.
Print Assumptions C19_mixed_unrank_rank.

Theorem C19_mixed_rank_unrank : forall sizes, Forall (fun d => 0 < d) sizes ->
  forall r, 0 <= r < prodZ sizes ->
  rank_mixed (unrank_mixed r sizes (strides sizes)) (strides sizes) = r
  /\ digits_ok (unrank_mixed r sizes (strides sizes)) sizes.
Proof. exact rank_unrank_mixed. Qed.
Print Assumptions C19_mixed_rank_unrank.

Theorem C19_mixed_rank_in_range : forall c sizes, digits_ok c sizes -> Forall (fun d => 0 < d) sizes ->
  0 <= rank_mixed c (strides sizes) < prodZ sizes.
Proof. exact rank_mixed_bound. Qed.
Print Assumptions C19_mixed_rank_in_range.

(* Z2 parity sector: size 2^(n-1) *)
Theorem C19_z2_unrank_rank : forall pre last p, bits (pre ++ [last]) -> parity (pre ++ [last]) = p ->
  unrank_z2 (rank_z2 (pre ++ [last])) (length (pre ++ [last])) p = pre ++ [last].
Proof. exact unrank_rank_z2. Qed.
Print Assumptions C19_z2_unrank_rank.

Theorem C19_z2_rank_unrank : forall n r p, 0 <= r < 2 ^ Z.of_nat n -> bit p ->
  let c := unrank_z2 r (S n) p in
  rank_z2 c = r /\ length c = S n /\ bits c /\ parity c = p.
Proof. exact rank_unrank_z2. Qed.
Print Assumptions C19_z2_rank_unrank.

(* U1 particle-number sector: size C(n,k), via the Pascal table recurrence *)
Theorem C19_u1_unrank_rank : forall c, bits c -> forall k, weight c = Z.of_nat k ->
  unrank_u1 (length c) (rank_u1 c k) k = c.
Proof. exact unrank_rank_u1. Qed.
Print Assumptions C19_u1_unrank_rank.

Theorem C19_u1_rank_unrank : forall n k r, 0 <= r < binom n k ->
  let c := unrank_u1 n r k in
  rank_u1 c k = r /\ length c = n /\ bits c /\ weight c = Z.of_nat k.
Proof. exact rank_unrank_u1. Qed.
Print Assumptions C19_u1_rank_unrank.

Theorem C19_u1_rank_in_range : forall c, bits c -> forall k, weight c = Z.of_nat k ->
  0 <= rank_u1 c k < binom (length c) k.
Proof. exact rank_u1_bound. Qed.
Print Assumptions C19_u1_rank_in_range.

(* U1 x U1: size C(na,ka) * C(nb,kb) *)
Theorem C19_u1u1_unrank_rank : forall ca cb ka kb, bits ca -> bits cb ->
  weight ca = Z.of_nat ka -> weight cb = Z.of_nat kb ->
  unrank_u1u1 (rank_u1u1 (ca ++ cb) (length ca) ka (length cb) kb) (length ca) ka (length cb) kb = ca ++ cb.
Proof. exact unrank_rank_u1u1. Qed.
Print Assumptions C19_u1u1_unrank_rank.

Theorem C19_u1u1_rank_unrank : forall na ka nb kb r, 0 <= r < binom na ka * binom nb kb ->
  let c := unrank_u1u1 r na ka nb kb in
  rank_u1u1 c na ka nb kb = r /\ length c = (na + nb)%nat /\ bits c
  /\ weight (firstn na c) = Z.of_nat ka /\ weight (skipn na c) = Z.of_nat kb.
Proof. exact rank_unrank_u1u1. Qed.
Print Assumptions C19_u1u1_rank_unrank.

(* non-vacuity *)
Example C19_examples :
  rank_u1 [1;0;1;0] 2 = 4 /\ unrank_u1 4 4 2 = [1;0;1;0] /\ binom 4 2 = 6
  /\ unrank_z2 5 4 1 = [1;0;1;1] /\ rank_z2 [1;0;1;1] = 5
  /\ unrank_mixed 7 [2;3;2] (strides [2;3;2]) = [1;0;1] /\ rank_mixed [1;0;1] (strides [2;3;2]) = 7.
Proof. vm_compute. repeat split. Qed.

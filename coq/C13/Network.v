(* C13, network level (Base/TN semantics, any commutative ring with involution):
   the reduced-density-matrix NETWORK that make_reduced_density_matrix builds -
   the ket tensors together with a conjugated copy whose bond labels are mangled
   and whose kept site labels are renamed - denotes
       sum over the traced site labels of  (ket value) * conj (ket value at the
       renamed assignment),
   i.e. exactly rho[k.., b..] = sum_rest psi[k, rest] conj psi[b, rest]. *)
From Coq Require Import Arith List Lia Ring PeanoNat Permutation.
From QV Require Import Base.Sums Base.TN.
Import ListNotations.

Section Net.
  Variable K : Type.
  Variables (k0 k1 : K) (kadd kmul ksub : K -> K -> K) (kopp : K -> K).
  Hypothesis Kring : ring_theory k0 k1 kadd kmul ksub kopp eq.
  Add Ring KrN : Kring.
  Variable dim : nat -> nat.
  Infix "+" := kadd. Infix "*" := kmul.
  Notation sum := (sum K k0 kadd).
  Notation sum_over := (sum_over K k0 kadd dim).
  Notation value := (value K k0 k1 kadd kmul dim).
  Notation tprod := (tprod K k1 kmul).
  Notation prodK := (prodK K k1 kmul).
  Notation wf := (wf K).
  Notation ext := (ext K).
  Notation indep := (indep K).

  Lemma tprod_app A B s : tprod (A ++ B) s = tprod A s * tprod B s.
  Proof.
    unfold TN.tprod. induction A as [|a A IH]; cbn [map app TN.prodK]; [ring|].
    unfold TN.tprod in IH. rewrite IH. ring.
  Qed.

  (* a sum over labels L of a function that does not depend on i, with i not in L,
     does not depend on i *)
  Lemma indep_sum_over L h i : ext h -> indep h i -> ~ In i L -> indep (sum_over L h) i.
  Proof.
    intros Hext Hind. induction L as [|j L IH]; intros Hni s v; cbn [TN.sum_over].
    - apply Hind.
    - assert (Hij : i <> j) by (intros E; apply Hni; left; symmetry; exact E).
      apply (sum_ext K k0 kadd). intros w _.
      rewrite (sum_over_aeq K k0 kadd dim L h Hext (upd (upd s i v) j w) (upd (upd s j w) i v)).
      + apply IH. intros H; apply Hni; right; exact H.
      + apply upd_comm. exact Hij.
  Qed.

  (* Two layers A, B whose internal (summed) labels SA, SB are private to their
     layer: the union network, summed over the shared labels T and the private
     ones, factorises layer by layer under the sum over T.  (Mangling the bra's
     bond labels is what makes SB private.) *)
  Theorem double_layer_factorises A B SA SB T s :
    Forall wf A -> Forall wf B ->
    (forall i t, In i SA -> In t B -> ~ In i (tinds K t)) ->
    (forall i t, In i SB -> In t A -> ~ In i (tinds K t)) ->
    (forall i, In i SA -> ~ In i SB) ->
    value (A ++ B) (T ++ SA ++ SB) s
    = sum_over T (fun s' => value A SA s' * value B SB s') s.
  Proof.
    intros HA HB HfA HfB Hd. unfold TN.value.
    rewrite (sum_over_app K k0 kadd dim).
    apply (sum_over_ext_fun K k0 kadd dim). intros s1.
    rewrite (sum_over_app K k0 kadd dim).
    (* inner: sum over SB of tprod A * tprod B, tprod A independent of SB *)
    rewrite (sum_over_ext_fun K k0 kadd dim SA _
               (fun s2 => sum_over SB (tprod B) s2 * tprod A s2)).
    2:{ intros s2.
        rewrite (sum_over_ext_fun K k0 kadd dim SB _ (fun s3 => tprod B s3 * tprod A s3)).
        2:{ intros s3. rewrite tprod_app. ring. }
        apply (sum_over_factor K k0 k1 kadd kmul ksub kopp Kring dim).
        intros i Hi. apply indep_tprod; [exact HA|]. intros t Ht. apply HfB; assumption. }
    (* outer: sum over SA, the B factor independent of SA *)
    rewrite (sum_over_ext_fun K k0 kadd dim SA _
               (fun s2 => tprod A s2 * sum_over SB (tprod B) s2)) by (intros; ring).
    apply (sum_over_factor K k0 k1 kadd kmul ksub kopp Kring dim).
    intros i Hi. apply indep_sum_over.
    - apply ext_tprod. exact HB.
    - apply indep_tprod; [exact HB|]. intros t Ht. apply HfA; assumption.
    - apply Hd. exact Hi.
  Qed.

  (* ---- the bra layer: conjugate and rename ------------------------------------- *)
  Variable conj : K -> K.
  Hypothesis conj_add : forall a b, conj (a + b) = conj a + conj b.
  Hypothesis conj_mul : forall a b, conj (a * b) = conj a * conj b.
  Hypothesis conj_invol : forall a, conj (conj a) = a.

  Lemma conj_0' : conj k0 = k0.
  Proof.
    assert (H : conj k0 = conj k0 + conj k0) by (rewrite <- conj_add; f_equal; ring).
    assert (H2 : conj k0 + kopp (conj k0) = (conj k0 + conj k0) + kopp (conj k0)) by (rewrite <- H; reflexivity).
    ring_simplify in H2. symmetry. exact H2.
  Qed.

  Lemma conj_1' : conj k1 = k1.
  Proof.
    assert (H : conj k1 = conj (k1 * conj k1)).
    { rewrite conj_mul, conj_invol. ring. }
    rewrite H. replace (k1 * conj k1) with (conj k1) by ring. apply conj_invol.
  Qed.

  Lemma conj_sum' n f : conj (sum n f) = sum n (fun i => conj (f i)).
  Proof. induction n as [|n IH]; cbn; [apply conj_0'|]. rewrite conj_add, IH. reflexivity. Qed.

  (* ren : label renaming applied to the bra layer (kept site label k_i -> b_i,
     bond label x -> mangled x, traced site labels fixed) *)
  Variable ren : nat -> nat.
  Hypothesis ren_inj : forall i j, ren i = ren j -> i = j.
  Hypothesis ren_dim : forall i, dim (ren i) = dim i.

  Definition bra_tensor (t : tensor K) : tensor K :=
    {| tinds := map ren (tinds K t); tval := fun s => conj (tval K t (fun i => s (ren i))) |}.

  Lemma wf_bra t : wf t -> wf (bra_tensor t).
  Proof.
    intros H s s' E. cbn [bra_tensor tval tinds] in *. f_equal. apply H.
    intros i Hi. apply E. apply in_map. exact Hi.
  Qed.

  Lemma tprod_bra ts s : tprod (map bra_tensor ts) s = conj (tprod ts (fun i => s (ren i))).
  Proof.
    unfold TN.tprod. induction ts as [|t ts IH]; cbn [map TN.prodK]; [symmetry; apply conj_1'|].
    rewrite IH. rewrite conj_mul. reflexivity.
  Qed.

  Lemma upd_ren s i v : aeq (fun j => upd s (ren i) v (ren j)) (upd (fun j => s (ren j)) i v).
  Proof.
    intros j. unfold upd. destruct (Nat.eqb (ren j) (ren i)) eqn:E1; destruct (Nat.eqb j i) eqn:E2; try reflexivity.
    - apply Nat.eqb_eq in E1. apply ren_inj in E1. apply Nat.eqb_neq in E2. contradiction.
    - apply Nat.eqb_eq in E2. subst. rewrite Nat.eqb_refl in E1. discriminate.
  Qed.

  (* summing the renamed labels of a renamed function = summing the original one *)
  Lemma sum_over_ren L f : ext f -> forall s,
    sum_over (map ren L) (fun s' => f (fun i => s' (ren i))) s = sum_over L f (fun i => s (ren i)).
  Proof.
    intros Hf. induction L as [|i L IH]; intros s; cbn [map TN.sum_over]; [reflexivity|].
    rewrite ren_dim. apply (sum_ext K k0 kadd). intros v _.
    rewrite IH. apply (sum_over_aeq K k0 kadd dim L f Hf). apply upd_ren.
  Qed.

  Lemma conj_sum_over L f s : conj (sum_over L f s) = sum_over L (fun s' => conj (f s')) s.
  Proof.
    revert s. induction L as [|i L IH]; intros s; cbn [TN.sum_over]; [reflexivity|].
    rewrite conj_sum'. apply (sum_ext K k0 kadd). intros v _. apply IH.
  Qed.

  (* value of the bra layer = conjugate of the ket value at the renamed assignment *)
  Theorem bra_layer_value ts S s : Forall wf ts ->
    value (map bra_tensor ts) (map ren S) s = conj (value ts S (fun i => s (ren i))).
  Proof.
    intros Hw. unfold TN.value.
    rewrite (sum_over_ext_fun K k0 kadd dim (map ren S) _
               (fun s' => (fun s'' => conj (tprod ts s'')) (fun i => s' (ren i)))).
    2:{ intros s'. apply tprod_bra. }
    rewrite (sum_over_ren S (fun s'' => conj (tprod ts s''))).
    - symmetry. apply conj_sum_over.
    - intros a b E. f_equal. apply (ext_tprod K k1 kmul ts Hw). exact E.
  Qed.

  (* The reduced-density-matrix network: ket tensors ts with bond labels S and
     traced site labels T; the bra layer is the conjugated, renamed copy.  ren
     fixes the traced labels T, maps bonds S to fresh labels (not used by the
     ket) and the kept site labels to the bra labels.  Its value is
        sum_T psi(s) * conj psi(s o ren),     psi = value ts S
     - the construction rho[k.., b..] = sum_rest psi[k,rest] conj psi[b,rest]. *)
  Theorem rdm_network_sound ts S T s :
    Forall wf ts ->
    (forall i t, In i S -> In t ts -> ~ In (ren i) (tinds K t)) ->   (* mangled bonds are fresh for the ket *)
    (forall i t, In i S -> In t ts -> forall j, In j (tinds K t) -> ren j <> i) -> (* ket bonds do not occur in the bra *)
    (forall i, In i S -> ~ In i (map ren S)) ->
    value (ts ++ map bra_tensor ts) (T ++ S ++ map ren S) s
    = sum_over T (fun s' => value ts S s' * conj (value ts S (fun i => s' (ren i)))) s.
  Proof.
    intros Hw Hfresh Hket Hd.
    rewrite double_layer_factorises.
    - apply (sum_over_ext_fun K k0 kadd dim). intros s'. rewrite bra_layer_value by exact Hw. reflexivity.
    - exact Hw.
    - apply Forall_forall. intros t Ht. apply in_map_iff in Ht. destruct Ht as [t0 [<- Ht0]].
      apply wf_bra. rewrite Forall_forall in Hw. apply Hw. exact Ht0.
    - intros i t Hi Ht. apply in_map_iff in Ht. destruct Ht as [t0 [<- Ht0]].
      cbn [bra_tensor tinds]. intros Hin. apply in_map_iff in Hin. destruct Hin as [j [Ej Hj]].
      exact (Hket i t0 Hi Ht0 j Hj Ej).
    - intros i t Hi Ht. apply in_map_iff in Hi. destruct Hi as [i0 [<- Hi0]].
      apply Hfresh; assumption.
    - exact Hd.
  Qed.
End Net.

(* C13 model: the reduced-density-matrix and local-expectation CONSTRUCTIONS.

   Generic part (Section Constructions): a state is a function
   psi : kept multi-index -> rest multi-index -> K over any type K with
   0, +, * and an involution conj.  rho, expec, apply_op, sandwich are the
   sums that quimb's exact routes build as tensor networks
   (make_reduced_density_matrix / partial_trace_exact / local_expectation_exact:
   ket = psi, bra = conj psi with the kept site labels renamed).

   Executable part: the same definitions instantiated at Z[i] on a dense
   row-major state over sites 0..n-1 (obtained with Base/TNExec.dense from the
   dumped tensors of the implementation's state network), for an arbitrary
   tuple `where` of distinct sites in ANY order: the fused matrix has row
   (ket) and column (bra) multi-indices in the order of `where`. *)
From Coq Require Import ZArith Arith List Bool PeanoNat.
From QV Require Import Base.Sums Base.TN Base.TNExec.
Import ListNotations.

Section Constructions.
  Variable K : Type.
  Variable k0 : K.
  Variables kadd kmul : K -> K -> K.
  Variable conj : K -> K.
  Notation sum := (sum K k0 kadd).

  Variable psi : nat -> nat -> K.      (* psi kept rest *)
  Variables dk dr : nat.               (* sizes of the kept / traced spaces *)

  (* rho[k, b] = sum_rest psi[k, rest] * conj psi[b, rest]   (k: ket / row, b: bra / column) *)
  Definition rho (k b : nat) : K := sum dr (fun r => kmul (psi k r) (conj (psi b r))).

  Definition tr_rho : K := sum dk (fun k => rho k k).

  (* local expectation as built by local_expectation_exact:
     tensordot(rho[k.., b..], G[b.., k..])  =  sum_{k,b} G[b,k] * rho[k,b] *)
  Definition expec (O : nat -> nat -> K) : K :=
    sum dk (fun k => sum dk (fun b => kmul (O b k) (rho k b))).

  (* the other pairing (operator transposed): what a route with the wrong
     convention would compute *)
  Definition expec_transposed (O : nat -> nat -> K) : K :=
    sum dk (fun k => sum dk (fun b => kmul (O k b) (rho k b))).

  (* dense definition: (O (x) 1) psi, then the inner product with psi *)
  Definition apply_op (O : nat -> nat -> K) (b r : nat) : K := sum dk (fun k => kmul (O b k) (psi k r)).
  Definition sandwich (O : nat -> nat -> K) : K :=
    sum dk (fun b => sum dr (fun r => kmul (conj (psi b r)) (apply_op O b r))).
End Constructions.

(* <phi|phi> of a flat state *)
Definition norm2_flat (K : Type) (k0 : K) (kadd kmul : K -> K -> K) (conj : K -> K)
    (phi : nat -> K) (n : nat) : K :=
  sum K k0 kadd n (fun x => kmul (phi x) (conj (phi x))).

(* two kept sites (i, j) with dimensions d1, d2: flat kept index in the order
   (i, j) is ki*d2 + kj, in the order (j, i) it is kj*d1 + ki *)
Section TwoSites.
  Variable K : Type.
  Variable psi2 : nat -> nat -> nat -> K.   (* psi2 ki kj rest *)
  Variables d1 d2 : nat.
  Definition psi_ij (k r : nat) : K := psi2 (k / d2) (k mod d2) r.
  Definition psi_ji (k r : nat) : K := psi2 (k mod d1) (k / d1) r.
  (* flat (j,i) index -> flat (i,j) index *)
  Definition sw (x : nat) : nat := (x mod d1) * d2 + x / d1.
  (* the same two-site operator with its factors listed in the order (j, i) *)
  Definition swap_op (O : nat -> nat -> K) (b k : nat) : K := O (sw b) (sw k).
End TwoSites.

(* Kronecker product of two one-site operators; dB = dimension of the second factor *)
Definition kron_op (K : Type) (kmul : K -> K -> K) (dB : nat) (A B : nat -> nat -> K) (b k : nat) : K :=
  kmul (A (b / dB) (k / dB)) (B (b mod dB) (k mod dB)).

(* ---- executable instance over Z[i] ------------------------------------------- *)

Definition prodn (l : list nat) : nat := fold_right Nat.mul 1 l.
Definition sel_dims (dims where_ : list nat) : list nat := map (fun s => nth s dims 1) where_.
Definition rest_sites (n : nat) (where_ : list nat) : list nat :=
  filter (fun s => negb (existsb (Nat.eqb s) where_)) (seq 0 n).

(* table[k][r] = psi[full index with the kept sites set from k (in `where` order)
   and the remaining sites (ascending) set from r] *)
Definition table (dims : list nat) (psi : list G) (where_ : list nat) : list (list G) :=
  let n := length dims in
  let rest := rest_sites n where_ in
  let kd := sel_dims dims where_ in
  let rd := sel_dims dims rest in
  map (fun k =>
    let kv := unravel kd k in
    map (fun r =>
      let a := asg_of (where_ ++ rest) (kv ++ unravel rd r) in
      nth (ravel dims (map a (seq 0 n))) psi g0)
      (seq 0 (prodn rd)))
    (seq 0 (prodn kd)).

Definition psi_of (tbl : list (list G)) (k r : nat) : G := nth r (nth k tbl []) g0.

Definition grho := rho G g0 gadd gmul gconj.
Definition gexpec := expec G g0 gadd gmul gconj.

(* fused reduced density matrix, row-major, rows = ket multi-index, columns = bra multi-index *)
Definition rdm (dims : list nat) (psi : list G) (where_ : list nat) : list G :=
  let tbl := table dims psi where_ in
  let dk := prodn (sel_dims dims where_) in
  let dr := prodn (sel_dims dims (rest_sites (length dims) where_)) in
  flat_map (fun k => map (fun b => grho (psi_of tbl) dr k b) (seq 0 dk)) (seq 0 dk).

Definition mat_of (dk : nat) (O : list G) (b k : nat) : G := nth (b * dk + k) O g0.

(* <psi| O_where |psi>, O a dk x dk row-major matrix *)
Definition expect (dims : list nat) (psi : list G) (where_ : list nat) (O : list G) : G :=
  let tbl := table dims psi where_ in
  let dk := prodn (sel_dims dims where_) in
  let dr := prodn (sel_dims dims (rest_sites (length dims) where_)) in
  gexpec (psi_of tbl) dk dr (mat_of dk O).

Definition gnorm2 (psi : list G) : G :=
  norm2_flat G g0 gadd gmul gconj (fun x => nth x psi g0) (length psi).

(* ---- correspondence checks ----------------------------------------------------- *)
(* ldims : label dimensions, ts : the implementation's state tensors, outs : the
   physical labels of sites 0..n-1 in canonical site order.  One case = one
   state and one site tuple: every unnormalised reduced density matrix and every
   unnormalised expectation value the implementation's routes returned must
   equal the model's. *)
Definition state_of (ldims : list (nat * nat)) (ts : list (tensor G)) (outs : list nat) : list nat * list G :=
  (map (lookup ldims) outs, dense ldims ts outs).

Definition check_where (ldims : list (nat * nat)) (ts : list (tensor G)) (outs : list nat)
    (where_ : list nat) (rdms : list (list G)) (norms : list G)
    (exps : list (list G * list G)) : bool :=
  let st := state_of ldims ts outs in
  let dims := fst st in let psi := snd st in
  let r := rdm dims psi where_ in
  let n2 := gnorm2 psi in
  forallb (glist_eqb r) rdms
  && forallb (geqb n2) norms
  && forallb (fun p => let v := expect dims psi where_ (fst p) in forallb (geqb v) (snd p)) exps.

(* one case = one state, every site tuple checked on the same dense state *)
Definition check_state (ldims : list (nat * nat)) (ts : list (tensor G)) (outs : list nat)
    (norms : list G)
    (items : list (list nat * list (list G) * list (list G * list G))) : bool :=
  let st := state_of ldims ts outs in
  let dims := fst st in let psi := snd st in
  let n2 := gnorm2 psi in
  forallb (geqb n2) norms
  && forallb (fun it =>
       let w := fst (fst it) in
       let r := rdm dims psi w in
       forallb (glist_eqb r) (snd (fst it))
       && forallb (fun p => let v := expect dims psi w (fst p) in forallb (geqb v) (snd p)) (snd it)) items.

(* ---- states that hold part of their scale in `exponent` ------------------------
   The implementation's state is 10^e x (its tensors), e >= 0 an integer here so
   that everything is exact.  The unnormalised quantities of the state are
   (10^e)^2 x the model's values on the tensors (theorems C13_scaled_state_rdm and _expectation): the exponent
   must be counted exactly twice, by every route that returns an unnormalised value. *)
Definition sq10 (e : Z) : Z := (10 ^ e * 10 ^ e)%Z.

Definition check_where_scaled (e : Z) (ldims : list (nat * nat)) (ts : list (tensor G)) (outs : list nat)
    (where_ : list nat) (rdms : list (list G)) (norms : list G)
    (exps : list (list G * list G)) : bool :=
  let st := state_of ldims ts outs in
  let dims := fst st in let psi := snd st in
  let c := sq10 e in
  let r := map (gscale c) (rdm dims psi where_) in
  let n2 := gscale c (gnorm2 psi) in
  forallb (glist_eqb r) rdms
  && forallb (geqb n2) norms
  && forallb (fun p => let v := gscale c (expect dims psi where_ (fst p)) in forallb (geqb v) (snd p)) exps.

Definition check_state_scaled (e : Z) (ldims : list (nat * nat)) (ts : list (tensor G)) (outs : list nat)
    (norms : list G)
    (items : list (list nat * list (list G) * list (list G * list G))) : bool :=
  let st := state_of ldims ts outs in
  let dims := fst st in let psi := snd st in
  let c := sq10 e in
  let n2 := gscale c (gnorm2 psi) in
  forallb (geqb n2) norms
  && forallb (fun it =>
       let w := fst (fst it) in
       let r := map (gscale c) (rdm dims psi w) in
       forallb (glist_eqb r) (snd (fst it))
       && forallb (fun p => let v := gscale c (expect dims psi w (fst p)) in forallb (geqb v) (snd p)) (snd it)) items.

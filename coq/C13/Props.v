(* C13 property theorems: statements only (proofs in C13/Proofs.v).
   K is an ARBITRARY commutative ring with an involution conj (so Z, Z[i], Q,
   R, C ...).  A state is a function psi : kept multi-index -> rest
   multi-index -> K; rho / expec / sandwich are the constructions of
   C13/Model.v, the very functions the correspondence executes over Z[i]. *)
From Coq Require Import ZArith Arith List Bool Ring PeanoNat.
From QV Require Import Base.Sums Base.TN Base.TNExec C13.Model C13.Proofs C13.Network C13.Options.
Import ListNotations.

Section C13.
  Variable K : Type.
  Variables (k0 k1 : K) (kadd kmul ksub : K -> K -> K) (kopp : K -> K).
  Hypothesis Kring : ring_theory k0 k1 kadd kmul ksub kopp eq.
  Variable conj : K -> K.
  Hypothesis conj_add : forall a b, conj (kadd a b) = kadd (conj a) (conj b).
  Hypothesis conj_mul : forall a b, conj (kmul a b) = kmul (conj a) (conj b).
  Hypothesis conj_invol : forall a, conj (conj a) = a.

  (* reduced density matrices are Hermitian: rho[b,k] = conj rho[k,b] *)
  Theorem C13_rdm_hermitian : forall (psi : nat -> nat -> K) dr k b,
    rho K k0 kadd kmul conj psi dr b k = conj (rho K k0 kadd kmul conj psi dr k b).
  Proof. exact (rho_hermitian K k0 k1 kadd kmul ksub kopp Kring conj conj_add conj_mul conj_invol). Qed.

  (* tr rho = <psi|psi> (the unnormalised rdm carries the norm; the normalised
     one, rho / tr rho, has trace 1), whether the kept sites lead or trail in
     the flat layout of the dense state *)
  Theorem C13_rdm_trace_is_norm_kept_first : forall (psi : nat -> nat -> K) dk dr (phi : nat -> K),
    (forall k r, (k < dk)%nat -> (r < dr)%nat -> psi k r = phi (k * dr + r)%nat) ->
    tr_rho K k0 kadd kmul conj psi dk dr = norm2_flat K k0 kadd kmul conj phi (dk * dr).
  Proof. exact (trace_rho_is_norm_kept_first K k0 k1 kadd kmul ksub kopp Kring conj). Qed.

  Theorem C13_rdm_trace_is_norm_kept_last : forall (psi : nat -> nat -> K) dk dr (phi : nat -> K),
    (forall k r, (k < dk)%nat -> (r < dr)%nat -> psi k r = phi (r * dk + k)%nat) ->
    tr_rho K k0 kadd kmul conj psi dk dr = norm2_flat K k0 kadd kmul conj phi (dr * dk).
  Proof. exact (trace_rho_is_norm_kept_last K k0 k1 kadd kmul ksub kopp Kring conj). Qed.

  Theorem C13_rdm_trace_real : forall (psi : nat -> nat -> K) dk dr,
    conj (tr_rho K k0 kadd kmul conj psi dk dr) = tr_rho K k0 kadd kmul conj psi dk dr.
  Proof. exact (trace_rho_real K k0 k1 kadd kmul ksub kopp Kring conj conj_add conj_mul conj_invol). Qed.

  (* The expectation every exact route builds, sum_{k,b} O[b,k] * rho[k,b], is
     <psi| (O (x) 1) |psi> with O acting as a matrix on the ket: this pins the
     transposition convention (O's row label meets the bra, its column label
     the ket). *)
  Theorem C13_expectation_is_dense_sandwich : forall (psi : nat -> nat -> K) dk dr O,
    expec K k0 kadd kmul conj psi dk dr O = sandwich K k0 kadd kmul conj psi dk dr O.
  Proof. exact (expec_is_sandwich K k0 k1 kadd kmul ksub kopp Kring conj). Qed.

  (* expectation of the identity = tr rho: the factor normalised routes divide by *)
  Theorem C13_expectation_of_identity_is_trace : forall (psi : nat -> nat -> K) dk dr,
    expec K k0 kadd kmul conj psi dk dr (fun b k => if Nat.eqb b k then k1 else k0)
    = tr_rho K k0 kadd kmul conj psi dk dr.
  Proof. exact (expec_identity K k0 k1 kadd kmul ksub kopp Kring conj). Qed.

  Theorem C13_expectation_linear : forall (psi : nat -> nat -> K) dk dr c O1 O2,
    expec K k0 kadd kmul conj psi dk dr (fun b k => kadd (kmul c (O1 b k)) (O2 b k))
    = kadd (kmul c (expec K k0 kadd kmul conj psi dk dr O1)) (expec K k0 kadd kmul conj psi dk dr O2).
  Proof. exact (expec_linear K k0 k1 kadd kmul ksub kopp Kring conj). Qed.

  (* <O^dagger> = conj <O>  (so Hermitian operators have real expectations) *)
  Theorem C13_expectation_of_adjoint : forall (psi : nat -> nat -> K) dk dr O,
    expec K k0 kadd kmul conj psi dk dr (fun b k => conj (O k b))
    = conj (expec K k0 kadd kmul conj psi dk dr O).
  Proof. exact (expec_adjoint K k0 k1 kadd kmul ksub kopp Kring conj conj_add conj_mul conj_invol). Qed.

  (* site order = operator factor order: the rdm on (j,i) is the rdm on (i,j)
     with both fused indices re-ordered, the expectation of a two-site operator
     on (i,j) equals that of the factor-swapped operator on (j,i), and
     <A (x) B>_(i,j) = <B (x) A>_(j,i) *)
  Theorem C13_rdm_site_order : forall (psi2 : nat -> nat -> nat -> K) d1 d2 dr k b,
    (k < d2 * d1)%nat -> (b < d2 * d1)%nat ->
    rho K k0 kadd kmul conj (psi_ji K psi2 d1) dr k b
    = rho K k0 kadd kmul conj (psi_ij K psi2 d2) dr (sw d1 d2 k) (sw d1 d2 b).
  Proof. exact (rho_swap_sites K k0 kadd kmul conj). Qed.

  Theorem C13_expectation_site_order : forall (psi2 : nat -> nat -> nat -> K) d1 d2 dr O,
    expec K k0 kadd kmul conj (psi_ji K psi2 d1) (d2 * d1) dr (swap_op K d1 d2 O)
    = expec K k0 kadd kmul conj (psi_ij K psi2 d2) (d1 * d2) dr O.
  Proof. exact (expec_swap_sites K k0 k1 kadd kmul ksub kopp Kring conj). Qed.

  Theorem C13_product_operator_site_order : forall (psi2 : nat -> nat -> nat -> K) d1 d2 dr A B,
    expec K k0 kadd kmul conj (psi_ij K psi2 d2) (d1 * d2) dr (kron_op K kmul d2 A B)
    = expec K k0 kadd kmul conj (psi_ji K psi2 d1) (d2 * d1) dr (kron_op K kmul d1 B A).
  Proof. exact (expec_product_swap K k0 k1 kadd kmul ksub kopp Kring conj). Qed.

  (* a state with an overall factor c (quimb: 10^exponent, or a factor multiplied into the
     tensors): every unnormalised reduced density matrix / expectation carries c * conj c,
     so the factor must be counted exactly once per layer, and the normalised value
     <O>/<1> (cross-multiplied) does not depend on it *)
  Theorem C13_scaled_state_rdm : forall (psi : nat -> nat -> K) dr c k b,
    rho K k0 kadd kmul conj (fun k r => kmul c (psi k r)) dr k b
    = kmul (kmul c (conj c)) (rho K k0 kadd kmul conj psi dr k b).
  Proof. exact (rho_scale K k0 k1 kadd kmul ksub kopp Kring conj conj_mul). Qed.

  Theorem C13_scaled_state_expectation : forall (psi : nat -> nat -> K) dk dr c O,
    expec K k0 kadd kmul conj (fun k r => kmul c (psi k r)) dk dr O
    = kmul (kmul c (conj c)) (expec K k0 kadd kmul conj psi dk dr O).
  Proof. exact (expec_scale K k0 k1 kadd kmul ksub kopp Kring conj conj_mul). Qed.

  Theorem C13_normalised_value_scale_independent : forall (psi : nat -> nat -> K) dk dr c O,
    kmul (expec K k0 kadd kmul conj (fun k r => kmul c (psi k r)) dk dr O) (tr_rho K k0 kadd kmul conj psi dk dr)
    = kmul (expec K k0 kadd kmul conj psi dk dr O) (tr_rho K k0 kadd kmul conj (fun k r => kmul c (psi k r)) dk dr).
  Proof. exact (normalised_value_scale_independent K k0 k1 kadd kmul ksub kopp Kring conj conj_mul). Qed.
End C13.

Print Assumptions C13_rdm_hermitian.
Print Assumptions C13_rdm_trace_is_norm_kept_first.
Print Assumptions C13_rdm_trace_is_norm_kept_last.
Print Assumptions C13_rdm_trace_real.
Print Assumptions C13_expectation_is_dense_sandwich.
Print Assumptions C13_expectation_of_identity_is_trace.
Print Assumptions C13_expectation_linear.
Print Assumptions C13_expectation_of_adjoint.
Print Assumptions C13_rdm_site_order.
Print Assumptions C13_expectation_site_order.
Print Assumptions C13_product_operator_site_order.
Print Assumptions C13_scaled_state_rdm.
Print Assumptions C13_scaled_state_expectation.
Print Assumptions C13_normalised_value_scale_independent.

(* ---- option flow and scale bookkeeping of the cluster / loop-expansion routes (C13/Options.v) ---- *)

(* local_expectation_cluster / compute_local_expectation_cluster: whichever backend the
   `max_bond` switch selects (exact or compressed contraction of the cluster), the caller's
   normalized in {True, False} decides between <G>/<1> and <G> *)
Theorem C13_cluster_dispatch_forwards_normalisation : forall (max_bond : bool) (nz : nmode),
  bool_mode nz = true -> cluster_route max_bond nz = requested nz.
Proof. exact cluster_route_forwards. Qed.
Print Assumptions C13_cluster_dispatch_forwards_normalisation.

Theorem C13_partial_trace_cluster_forwards_normalisation : forall nz,
  (bool_mode nz = true \/ nz = NReturn) -> partial_trace_cluster_route nz = requested nz.
Proof. exact partial_trace_cluster_forwards. Qed.
Print Assumptions C13_partial_trace_cluster_forwards_normalisation.

(* loop expansions: every documented (combine, normalized) pair returns what was requested -
   True / "prod" / "local" / "separate" (/ "global" for compute_local_expectation_gloop_expand)
   a ratio, False the raw value; the only rejected pairs are combine="sum" with "return" / "global" *)
Theorem C13_loop_expansion_mode_table : forall (csum : bool) (nz : nmode),
  (expansion_mode nz = true -> expand_route csum nz = requested nz)
  /\ ((expansion_mode nz = true \/ nz = NGlobal) -> compute_gloop_route csum nz = requested nz)
  /\ (expand_route csum nz = Rejected <-> (csum = true /\ (nz = NReturn \/ nz = NGlobal))).
Proof. exact loop_expansion_mode_table. Qed.
Print Assumptions C13_loop_expansion_mode_table.

Section C13opt.
  Variable K : Type.
  Variables (k0 k1 : K) (kadd kmul ksub : K -> K -> K) (kopp : K -> K).
  Hypothesis Kring : ring_theory k0 k1 kadd kmul ksub kopp eq.

  (* _combine_expansion_expectations over ANY commutative ring, values as fractions num/den:
     for ANY list of regions whose counts sum to 1 and whose contractions all are (E, N) - in
     particular the single region spanning the network - every documented combine x normalized
     mode yields E/N (cross-multiplied equality), resp. E for normalized=False *)
  Theorem C13_expansion_combine_exact_for_uniform_regions : forall (E N : K) csum nz rs,
    expansion_mode nz = true ->
    Forall (fun r => re K r = E /\ rn K r = N) rs ->
    fold_right Z.add 0%Z (map (rC K) rs) = 1%Z ->
    exists f, combine_value K k0 k1 kadd kmul kopp csum nz rs = Some f
              /\ feq K kmul f (if truthy nz then Frac K E N else Frac K E k1).
  Proof. exact (combine_exact_for_uniform_regions K k0 k1 kadd kmul ksub kopp Kring). Qed.

  (* where the scale is held: (tensor factor t, exponent register x) denotes t * 10^x * psi0 *)
  Variable pow10 : Z -> K.
  Hypothesis pow10_0 : pow10 0%Z = k1.

  (* normalized="global": divide by nfactor, MOVE THE REGISTER INTO THE TENSORS, then contract
     sub-networks unnormalised: with nfactor^2 = <psi|psi> the result times <psi|psi> is <psi|G|psi> *)
  Theorem C13_global_normalisation_distributes_exponent : forall (E0 N0 c : K) (s : net K),
    kmul (kmul c c) (contract K kmul pow10 N0 s) = k1 ->
    kmul (contract K kmul pow10 E0 (subnet K (global_prepare K kmul pow10 c s))) (contract K kmul pow10 N0 s)
    = contract K kmul pow10 E0 s.
  Proof. exact (global_normalisation_sound K k0 k1 kadd kmul ksub kopp Kring pow10 pow10_0). Qed.

  (* and the step is necessary: without it the terms are off by exactly (10^x)^2 *)
  Theorem C13_global_without_distribution_off_by_exponent : forall (E0 c : K) (s : net K),
    kmul (contract K kmul pow10 E0 (subnet K (smul K kmul c s))) (kmul (pow10 (expo K s)) (pow10 (expo K s)))
    = contract K kmul pow10 E0 (smul K kmul c s).
  Proof. exact (global_without_distribution_off_by_exponent K k0 k1 kadd kmul ksub kopp Kring pow10 pow10_0). Qed.

  (* any unnormalised value read off a selected sub-network misses the register twice ... *)
  Theorem C13_subnetwork_unnormalised_off_by_exponent : forall (E0 : K) (s : net K),
    kmul (contract K kmul pow10 E0 (subnet K s)) (kmul (pow10 (expo K s)) (pow10 (expo K s)))
    = contract K kmul pow10 E0 s.
  Proof. exact (subnet_unnormalised_off_by_exponent K k0 k1 kadd kmul ksub kopp Kring pow10 pow10_0). Qed.

  (* ... while any ratio read off it is independent of where the scale is held *)
  Theorem C13_subnetwork_ratio_exponent_independent : forall (E0 N0 : K) (s : net K),
    kmul (contract K kmul pow10 E0 (subnet K s)) (contract K kmul pow10 N0 s)
    = kmul (contract K kmul pow10 E0 s) (contract K kmul pow10 N0 (subnet K s)).
  Proof. exact (subnet_ratio_exponent_independent K k0 k1 kadd kmul ksub kopp Kring pow10). Qed.
End C13opt.

Print Assumptions C13_expansion_combine_exact_for_uniform_regions.
Print Assumptions C13_global_normalisation_distributes_exponent.
Print Assumptions C13_global_without_distribution_off_by_exponent.
Print Assumptions C13_subnetwork_unnormalised_off_by_exponent.
Print Assumptions C13_subnetwork_ratio_exponent_independent.

(* non-vacuity of the option / scale theorems over Z: three regions with counts 1, 1, -1 (two
   loops and their intersection), every contraction (6, 4): prod gives 6^2*4 / (4^2*6) = 6/4;
   a network (t, x) = (3, 2): 300 psi0, prepared with c = 1 its sub-networks see 300 *)
Example C13_options_nonvacuous :
  let rs := [Region Z 6 4 1; Region Z 6 4 1; Region Z 6 4 (-1)]%Z in
  combine_value Z 0%Z 1%Z Z.add Z.mul Z.opp false NTrue rs = Some (Frac Z 144 96)%Z
  /\ combine_value Z 0%Z 1%Z Z.add Z.mul Z.opp true NSeparate rs = Some (Frac Z 6 4)%Z
  /\ combine_value Z 0%Z 1%Z Z.add Z.mul Z.opp true NGlobal rs = None
  /\ scale Z Z.mul (fun x => 10 ^ x)%Z (subnet Z (z_global_prepare 1 (Net Z 3 2)))%Z = 300%Z
  /\ scale Z Z.mul (fun x => 10 ^ x)%Z (subnet Z (Net Z 3 2))%Z = 3%Z
  /\ register_after_global 3 2 = 0%Z.
Proof. vm_compute. repeat split; reflexivity. Qed.

(* ---- network level (Base/TN semantics) ----------------------------------------- *)
Section C13net.
  Variable K : Type.
  Variables (k0 k1 : K) (kadd kmul ksub : K -> K -> K) (kopp : K -> K).
  Hypothesis Kring : ring_theory k0 k1 kadd kmul ksub kopp eq.
  Variable dim : nat -> nat.
  Variable conj : K -> K.
  Hypothesis conj_add : forall a b, conj (kadd a b) = kadd (conj a) (conj b).
  Hypothesis conj_mul : forall a b, conj (kmul a b) = kmul (conj a) (conj b).
  Hypothesis conj_invol : forall a, conj (conj a) = a.
  Variable ren : nat -> nat.
  Hypothesis ren_inj : forall i j, ren i = ren j -> i = j.
  Hypothesis ren_dim : forall i, dim (ren i) = dim i.

  (* two layers whose summed labels are private to their layer factorise under
     the sum over the shared (traced) labels: why mangling the bra's bonds makes
     the double layer network a product of ket and bra values *)
  Theorem C13_double_layer_factorises : forall A B SA SB T s,
    Forall (wf K) A -> Forall (wf K) B ->
    (forall i t, In i SA -> In t B -> ~ In i (tinds K t)) ->
    (forall i t, In i SB -> In t A -> ~ In i (tinds K t)) ->
    (forall i, In i SA -> ~ In i SB) ->
    value K k0 k1 kadd kmul dim (A ++ B) (T ++ SA ++ SB) s
    = sum_over K k0 kadd dim T
        (fun s' => kmul (value K k0 k1 kadd kmul dim A SA s') (value K k0 k1 kadd kmul dim B SB s')) s.
  Proof. exact (double_layer_factorises K k0 k1 kadd kmul ksub kopp Kring dim). Qed.

  (* the conjugated, relabelled copy denotes the conjugate of the ket value at the
     renamed assignment *)
  Theorem C13_bra_layer_value : forall ts S s, Forall (wf K) ts ->
    value K k0 k1 kadd kmul dim (map (bra_tensor K conj ren) ts) (map ren S) s
    = conj (value K k0 k1 kadd kmul dim ts S (fun i => s (ren i))).
  Proof. exact (bra_layer_value K k0 k1 kadd kmul ksub kopp Kring dim conj conj_add conj_mul conj_invol ren ren_inj ren_dim). Qed.

  (* make_reduced_density_matrix: ket ts (bonds S, traced site labels T) plus the
     conjugated copy with bonds mangled and kept site labels renamed denotes
     rho = sum_T psi * conj (psi o ren) *)
  Theorem C13_rdm_network_sound : forall ts S T s,
    Forall (wf K) ts ->
    (forall i t, In i S -> In t ts -> ~ In (ren i) (tinds K t)) ->
    (forall i t, In i S -> In t ts -> forall j, In j (tinds K t) -> ren j <> i) ->
    (forall i, In i S -> ~ In i (map ren S)) ->
    value K k0 k1 kadd kmul dim (ts ++ map (bra_tensor K conj ren) ts) (T ++ S ++ map ren S) s
    = sum_over K k0 kadd dim T
        (fun s' => kmul (value K k0 k1 kadd kmul dim ts S s')
                        (conj (value K k0 k1 kadd kmul dim ts S (fun i => s' (ren i))))) s.
  Proof. exact (rdm_network_sound K k0 k1 kadd kmul ksub kopp Kring dim conj conj_add conj_mul conj_invol ren ren_inj ren_dim). Qed.
End C13net.

Print Assumptions C13_double_layer_factorises.
Print Assumptions C13_bra_layer_value.
Print Assumptions C13_rdm_network_sound.

(* the executable instance (Z[i], gconj) satisfies the hypotheses, and the
   executed rdm is, entry by entry, the generic construction applied to the
   table function of the dense state *)
Theorem C13_executable_rdm_hermitian : forall (psi : nat -> nat -> G) dr k b,
  grho psi dr b k = gconj (grho psi dr k b).
Proof. exact (rho_hermitian G g0 g1 gadd gmul gsub gopp G_ring gconj gconj_add gconj_mul gconj_invol). Qed.
Print Assumptions C13_executable_rdm_hermitian.

Theorem C13_executable_expectation_is_sandwich : forall (psi : nat -> nat -> G) dk dr O,
  gexpec psi dk dr O = sandwich G g0 gadd gmul gconj psi dk dr O.
Proof. exact (expec_is_sandwich G g0 g1 gadd gmul gsub gopp G_ring gconj). Qed.
Print Assumptions C13_executable_expectation_is_sandwich.

Theorem C13_executable_rdm_entries : forall dims psi w k b,
  (k < prodn (sel_dims dims w))%nat -> (b < prodn (sel_dims dims w))%nat ->
  nth (k * prodn (sel_dims dims w) + b) (rdm dims psi w) g0
  = grho (psi_of (table dims psi w)) (prodn (sel_dims dims (rest_sites (length dims) w))) k b.
Proof. exact rdm_entry. Qed.
Print Assumptions C13_executable_rdm_entries.

(* non-vacuity: a 3-site state (dims 2,2,2) psi = |000> + i|011> + 2|101> + (1+i)|110>,
   sites (2,0) vs (0,2), a NON-symmetric operator: the two orders give the
   same value only with the factor-swapped operator, and the transposed pairing
   gives a different value *)
Example C13_nonvacuous :
  let dims := [2; 2; 2]%nat in
  let psi := [(1,0); (0,0); (0,0); (0,1); (0,0); (2,0); (1,1); (0,0)]%Z in
  let O := [(1,0); (2,1); (0,0); (0,3);  (0,0); (1,0); (5,0); (0,0);
            (0,1); (0,0); (2,0); (1,0);  (7,0); (0,0); (0,0); (1,1)]%Z in
  let Osw := map (fun x => nth (sw 2 2 (x / 4) * 4 + sw 2 2 (x mod 4)) O g0) (seq 0 16) in
  expect dims psi [0; 2]%nat O = expect dims psi [2; 0]%nat Osw
  /\ expect dims psi [0; 2]%nat O <> expect dims psi [2; 0]%nat O
  /\ expect dims psi [0; 2]%nat O
     <> expec_transposed G g0 gadd gmul gconj (psi_of (table dims psi [0; 2]%nat)) 4 2 (mat_of 4 O)
  /\ nth 0 (rdm dims psi [1]%nat) g0 = (5, 0)%Z
  /\ gnorm2 psi = (8, 0)%Z.
Proof. vm_compute. repeat split; discriminate. Qed.

(* non-vacuity of the network theorem: a 2-site ket a[k0,x] b[x,k1] (site labels
   0 kept / 1 traced, bond 2), bra labels ren 0 = 10, ren 2 = 12, ren 1 = 1: the
   hypotheses hold and the double-layer network evaluates to rho[k=1, b=0] *)
Example C13_network_nonvacuous :
  let dim := fun _ : nat => 2%nat in
  let ren := fun i : nat => if Nat.eqb i 1 then 1%nat else (i + 10)%nat in
  let a := arr_tensor [0; 2]%nat [2; 2]%nat [(1,0); (0,1); (2,0); (1,1)]%Z in
  let b := arr_tensor [2; 1]%nat [2; 2]%nat [(1,1); (0,0); (3,0); (0,-1)]%Z in
  let s := upd (upd (fun _ => 0%nat) 0%nat 1%nat) 10%nat 0%nat in
  value G g0 g1 gadd gmul dim ([a; b] ++ map (bra_tensor G gconj ren) [a; b]) ([1] ++ [2] ++ map ren [2])%nat s
  = sum_over G g0 gadd dim [1%nat]
      (fun s' => gmul (value G g0 g1 gadd gmul dim [a; b] [2%nat] s')
                      (gconj (value G g0 g1 gadd gmul dim [a; b] [2%nat] (fun i => s' (ren i))))) s
  /\ value G g0 g1 gadd gmul dim ([a; b] ++ map (bra_tensor G gconj ren) [a; b]) ([1] ++ [2] ++ map ren [2])%nat s
     = (26, -16)%Z.
Proof.
  intros dim ren a b s. split.
  - apply (rdm_network_sound G g0 g1 gadd gmul gsub gopp G_ring dim gconj gconj_add gconj_mul gconj_invol ren).
    + intros i j. unfold ren.
      destruct (Nat.eqb i 1) eqn:Ei; destruct (Nat.eqb j 1) eqn:Ej;
        rewrite ?Nat.eqb_eq, ?Nat.eqb_neq in *; Lia.lia.
    + reflexivity.
    + repeat constructor; apply arr_tensor_wf.
    + intros i t Hi Ht. cbn in Hi, Ht. destruct Hi as [<-|[]].
      destruct Ht as [<-|[<-|[]]]; cbn; Lia.lia.
    + intros i t Hi Ht j Hj. cbn in Hi, Ht. destruct Hi as [<-|[]].
      destruct Ht as [<-|[<-|[]]]; cbn in Hj; unfold ren;
        destruct Hj as [<-|[<-|[]]]; cbn; Lia.lia.
    + intros i Hi. cbn in Hi. destruct Hi as [<-|[]]. cbn. Lia.lia.
  - vm_compute. reflexivity.
Qed.

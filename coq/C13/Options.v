(* C13: the OPTION FLOW and SCALE BOOKKEEPING of the cluster / loop-expansion routes
   (quimb/tensor/tnag/core.py: partial_trace_exact, partial_trace, local_expectation_cluster,
   local_expectation_{g,s}loop_expand, _combine_expansion_expectations,
   compute_local_expectation_gloop_expand).

   Part 1 (finite tables): which of  e/n  (Ratio),  e  (Raw),  (e, n)  (Pair)  a route hands
   back for every normalisation mode x backend x combine, mirroring the tests the code makes
   (`if normalized:`, `normalized is True`, `normalized == "return"`, ...).
   Part 2 (any commutative ring): the VALUE _combine_expansion_expectations computes from
   the per-region pairs (e_r, n_r) and region counts C_r, as a fraction num/den (no division
   needed), and the theorem that for ANY list of region counts that sum to 1 every documented
   combine / normalized mode returns E/N (resp. E) as soon as every region's contraction is
   (E, N) - in particular for the single region that spans the network.
   Part 3 (any commutative ring): where the overall scale of the state is held.  A network is
   (tensor scale t, exponent register x): it denotes  t * 10^x * psi0.  Contracting the network
   itself sees both; a sub-network selected from it (select(..., virtual=False) without
   with_exponent) sees the tensors only.  normalized="global" divides by the norm and must then
   move the exponent into the tensors (distribute_exponent) before the per-term sub-networks
   are selected. *)
From Coq Require Import ZArith List Bool Ring Lia Setoid.
From Coq Require Import setoid_ring.InitialRing.
Import ListNotations.

(* ---- Part 1: option flow ------------------------------------------------------- *)

Inductive nmode := NTrue | NFalse | NReturn | NProd | NLocal | NSeparate | NGlobal.
(* Python: `if normalized:` - only False is falsy, every string is truthy *)
Definition truthy (n : nmode) : bool := match n with NFalse => false | _ => true end.
(* Python: `normalized is True` *)
Definition is_True (n : nmode) : bool := match n with NTrue => true | _ => false end.

Inductive out := Ratio | Raw | Pair | Rejected.
Definition out_eqb (a b : out) : bool :=
  match a, b with
  | Ratio, Ratio | Raw, Raw | Pair, Pair | Rejected, Rejected => true
  | _, _ => false
  end.

(* partial_trace_exact / local_expectation_exact: nfactor is computed `if normalized:`,
   divided in only when `normalized is True`, returned separately when == "return" *)
Definition exact_kernel (nz : nmode) : out :=
  match nz with
  | NReturn => Pair
  | _ => if is_True nz then Ratio else Raw
  end.
(* partial_trace / local_expectation (compressed contraction): `if normalized: rho / trace` *)
Definition compressed_kernel (nz : nmode) : out := if truthy nz then Ratio else Raw.

(* local_expectation_cluster: `if max_bond is not None` -> compressed kernel on the cluster,
   else the exact kernel; BOTH receive the caller's `normalized` *)
Definition cluster_route (max_bond : bool) (nz : nmode) : out :=
  if max_bond then compressed_kernel nz else exact_kernel nz.
(* partial_trace_cluster: always the exact kernel on the cluster *)
Definition partial_trace_cluster_route (nz : nmode) : out := exact_kernel nz.

(* _combine_expansion_expectations *)
Definition combine_class (csum : bool) (nz : nmode) : out :=
  let csum' := match nz with NProd => false | _ => csum end in
  let nz' := match nz with NProd => NTrue | _ => nz end in
  if negb csum' then (if truthy nz' then Ratio else Raw)
  else match nz' with
       | NTrue | NLocal | NSeparate => Ratio
       | NFalse => Raw
       | _ => Rejected
       end.
(* the loop expansions contract every region with normalized="return" and unpack a pair *)
Definition expand_route (csum : bool) (nz : nmode) : out :=
  match exact_kernel NReturn with
  | Pair => combine_class csum nz
  | _ => Rejected
  end.
(* compute_local_expectation_gloop_expand: "global" = the unnormalised expansion of the state
   divided by its expansion norm (Part 3), i.e. a ratio for the caller *)
Definition compute_gloop_route (csum : bool) (nz : nmode) : out :=
  match nz with
  | NGlobal => match expand_route csum NFalse with Raw => Ratio | o => o end
  | _ => expand_route csum nz
  end.

(* what the caller asked for *)
Definition requested (nz : nmode) : out :=
  match nz with NReturn => Pair | _ => if truthy nz then Ratio else Raw end.

Definition bool_mode (nz : nmode) : bool := match nz with NTrue | NFalse => true | _ => false end.
Definition expansion_mode (nz : nmode) : bool :=
  match nz with NTrue | NFalse | NProd | NLocal | NSeparate => true | _ => false end.

Lemma cluster_route_forwards : forall mb nz, bool_mode nz = true -> cluster_route mb nz = requested nz.
Proof. intros [|] [| | | | | |]; cbn; intros H; try discriminate H; reflexivity. Qed.

Lemma partial_trace_cluster_forwards : forall nz,
  (bool_mode nz = true \/ nz = NReturn) -> partial_trace_cluster_route nz = requested nz.
Proof. intros [| | | | | |] [H|H]; cbn in *; try discriminate H; reflexivity. Qed.

Lemma expand_route_spec : forall csum nz, expansion_mode nz = true -> expand_route csum nz = requested nz.
Proof. intros [|] [| | | | | |]; cbn; intros H; try discriminate H; reflexivity. Qed.

Lemma compute_gloop_route_spec : forall csum nz,
  (expansion_mode nz = true \/ nz = NGlobal) -> compute_gloop_route csum nz = requested nz.
Proof. intros [|] [| | | | | |] [H|H]; cbn in *; try discriminate H; reflexivity. Qed.

Lemma expand_route_rejects : forall csum nz,
  expand_route csum nz = Rejected <-> (csum = true /\ (nz = NReturn \/ nz = NGlobal)).
Proof.
  intros [|] [| | | | | |]; cbn; split; intros H; try discriminate H;
    try (split; [reflexivity|]; (left; reflexivity) || (right; reflexivity));
    try reflexivity;
    (destruct H as [H1 H2]; try discriminate H1; destruct H2 as [H2|H2]; discriminate H2).
Qed.

Lemma loop_expansion_mode_table : forall (csum : bool) (nz : nmode),
  (expansion_mode nz = true -> expand_route csum nz = requested nz)
  /\ ((expansion_mode nz = true \/ nz = NGlobal) -> compute_gloop_route csum nz = requested nz)
  /\ (expand_route csum nz = Rejected <-> (csum = true /\ (nz = NReturn \/ nz = NGlobal))).
Proof.
  intros csum nz. split; [apply expand_route_spec | split; [apply compute_gloop_route_spec | apply expand_route_rejects]].
Qed.

(* ---- Part 2: the value of the expansion --------------------------------------- *)

Section Values.
  Variable K : Type.
  Variables (k0 k1 : K) (kadd kmul ksub : K -> K -> K) (kopp : K -> K).
  Hypothesis Kring : ring_theory k0 k1 kadd kmul ksub kopp eq.
  Add Ring KrOpt : Kring.
  Infix "+" := kadd. Infix "*" := kmul.

  (* the image of an integer (a region count) in K *)
  Definition phi : Z -> K := gen_phiZ k0 k1 kadd kmul kopp.
  Lemma phi_add a b : phi (a + b) = phi a + phi b.
  Proof. unfold phi. apply (gen_phiZ_add (Eqsth K) (Eq_ext kadd kmul kopp) Kring). Qed.
  Lemma phi_0 : phi 0 = k0. Proof. reflexivity. Qed.
  Lemma phi_1 : phi 1 = k1. Proof. reflexivity. Qed.

  Record frac := Frac { fnum : K; fden : K }.
  (* a/b = c/d, cross-multiplied *)
  Definition feq (a b : frac) : Prop := fnum a * fden b = fnum b * fden a.
  Definition fone := Frac k1 k1.
  Definition fzero := Frac k0 k1.
  Definition fmul (a b : frac) := Frac (fnum a * fnum b) (fden a * fden b).
  Definition fadd (a b : frac) := Frac (fnum a * fden b + fnum b * fden a) (fden a * fden b).
  Definition finv (a : frac) := Frac (fden a) (fnum a).
  Fixpoint fpow (a : frac) (k : nat) : frac := match k with O => fone | S k' => fmul a (fpow a k') end.
  (* x ** C for an integer power C *)
  Definition fpowZ (a : frac) (C : Z) : frac :=
    match C with
    | Z0 => fone
    | Zpos p => fpow a (Pos.to_nat p)
    | Zneg p => fpow (finv a) (Pos.to_nat p)
    end.

  Record region := Region { re : K; rn : K; rC : Z }.   (* <G> and <1> of the region, its count *)

  (* combine_local_contractions(vals) = prod x ** C *)
  Definition prod_from (base : frac) (vals : list (K * Z)) : frac :=
    fold_right (fun v acc => fmul (fpowZ (Frac (fst v) k1) (snd v)) acc) base vals.
  Definition ksum (l : list K) : K := fold_right kadd k0 l.

  Definition combine_value (csum : bool) (nz : nmode) (rs : list region) : option frac :=
    let csum' := match nz with NProd => false | _ => csum end in
    let nz' := match nz with NProd => NTrue | _ => nz end in
    if negb csum' then
      Some (prod_from fone (map (fun r => (re r, rC r)) rs
                            ++ (if truthy nz' then map (fun r => (rn r, (- rC r)%Z)) rs else [])))
    else match nz' with
         | NTrue | NLocal =>
             Some (fold_right (fun r acc => fadd (Frac (phi (rC r) * re r) (rn r)) acc) fzero rs)
         | NSeparate =>
             Some (Frac (ksum (map (fun r => phi (rC r) * re r) rs))
                        (ksum (map (fun r => phi (rC r) * rn r) rs)))
         | NFalse => Some (Frac (ksum (map (fun r => phi (rC r) * re r) rs)) k1)
         | _ => None
         end.

  Definition total (rs : list region) : Z := fold_right Z.add 0%Z (map rC rs).

  (* -- every region's contraction is (E, N) -- *)
  Variables E N : K.
  Definition uniform (rs : list region) : Prop := Forall (fun r => re r = E /\ rn r = N) rs.

  Fixpoint kpow (x : K) (k : nat) : K := match k with O => k1 | S k' => x * kpow x k' end.
  Lemma kpow_add x a b : kpow x (a + b) = kpow x a * kpow x b.
  Proof. induction a as [|a IH]; cbn [kpow Nat.add]; [ring|]. rewrite IH. ring. Qed.

  (* f = E^a N^b / (E^c N^d) *)
  Definition shape (f : frac) (a b c d : nat) : Prop :=
    fnum f = kpow E a * kpow N b /\ fden f = kpow E c * kpow N d.

  Lemma shape_mul f g a b c d a' b' c' d' :
    shape f a b c d -> shape g a' b' c' d' -> shape (fmul f g) (a + a') (b + b') (c + c') (d + d').
  Proof.
    intros [H1 H2] [H3 H4]. split; cbn [fmul fnum fden]; rewrite ?H1, ?H2, ?H3, ?H4, !kpow_add; ring.
  Qed.

  Lemma shape_pow_E k : shape (fpow (Frac E k1) k) k 0 0 0.
  Proof.
    induction k as [|k IH]; cbn [fpow].
    - split; cbn; ring.
    - replace (S k) with (1 + k)%nat by reflexivity.
      apply (shape_mul (Frac E k1) (fpow (Frac E k1) k) 1 0 0 0 k 0 0 0); [split; cbn; ring | exact IH].
  Qed.
  Lemma shape_pow_invE k : shape (fpow (finv (Frac E k1)) k) 0 0 k 0.
  Proof.
    induction k as [|k IH]; cbn [fpow].
    - split; cbn; ring.
    - replace (S k) with (1 + k)%nat by reflexivity.
      apply (shape_mul (finv (Frac E k1)) (fpow (finv (Frac E k1)) k) 0 0 1 0 0 0 k 0); [split; cbn; ring | exact IH].
  Qed.
  Lemma shape_pow_N k : shape (fpow (Frac N k1) k) 0 k 0 0.
  Proof.
    induction k as [|k IH]; cbn [fpow].
    - split; cbn; ring.
    - replace (S k) with (1 + k)%nat by reflexivity.
      apply (shape_mul (Frac N k1) (fpow (Frac N k1) k) 0 1 0 0 0 k 0 0); [split; cbn; ring | exact IH].
  Qed.
  Lemma shape_pow_invN k : shape (fpow (finv (Frac N k1)) k) 0 0 0 k.
  Proof.
    induction k as [|k IH]; cbn [fpow].
    - split; cbn; ring.
    - replace (S k) with (1 + k)%nat by reflexivity.
      apply (shape_mul (finv (Frac N k1)) (fpow (finv (Frac N k1)) k) 0 0 0 1 0 0 0 k); [split; cbn; ring | exact IH].
  Qed.

  (* E ** C: exponents (p, q) with p - q = C *)
  Lemma shape_powZ_E C : exists p q, shape (fpowZ (Frac E k1) C) p 0 q 0 /\ (Z.of_nat p - Z.of_nat q = C)%Z.
  Proof.
    destruct C as [|p|p]; cbn [fpowZ].
    - exists 0%nat, 0%nat. split; [split; cbn; ring | reflexivity].
    - exists (Pos.to_nat p), 0%nat. split; [apply shape_pow_E | lia].
    - exists 0%nat, (Pos.to_nat p). split; [apply shape_pow_invE | lia].
  Qed.
  (* N ** C': exponents (p, q) with p - q = C' *)
  Lemma shape_powZ_N C : exists p q, shape (fpowZ (Frac N k1) C) 0 p 0 q /\ (Z.of_nat p - Z.of_nat q = C)%Z.
  Proof.
    destruct C as [|p|p]; cbn [fpowZ].
    - exists 0%nat, 0%nat. split; [split; cbn; ring | reflexivity].
    - exists (Pos.to_nat p), 0%nat. split; [apply shape_pow_N | lia].
    - exists 0%nat, (Pos.to_nat p). split; [apply shape_pow_invN | lia].
  Qed.

  Definition zsum (cs : list Z) : Z := fold_right Z.add 0%Z cs.

  Lemma shape_prod_E cs : forall base a b c d, shape base a b c d ->
    exists a' c', shape (prod_from base (map (fun C => (E, C)) cs)) a' b c' d
                  /\ (Z.of_nat a' - Z.of_nat c' = Z.of_nat a - Z.of_nat c + zsum cs)%Z.
  Proof.
    induction cs as [|C cs IH]; intros base a b c d Hb; cbn [map prod_from fold_right zsum].
    - exists a, c. split; [exact Hb | lia].
    - destruct (IH base a b c d Hb) as (a1 & c1 & Hs & Hz).
      destruct (shape_powZ_E C) as (p & q & Hp & Hpq).
      exists (p + a1)%nat, (q + c1)%nat. split.
      + cbn [fst snd]. unfold prod_from in Hs.
        pose proof (shape_mul _ _ _ _ _ _ _ _ _ _ Hp Hs) as H. cbn [Nat.add] in H. exact H.
      + fold (zsum cs). lia.
  Qed.

  Lemma shape_prod_N cs : forall base a b c d, shape base a b c d ->
    exists b' d', shape (prod_from base (map (fun C => (N, C)) cs)) a b' c d'
                  /\ (Z.of_nat b' - Z.of_nat d' = Z.of_nat b - Z.of_nat d + zsum cs)%Z.
  Proof.
    induction cs as [|C cs IH]; intros base a b c d Hb; cbn [map prod_from fold_right zsum].
    - exists b, d. split; [exact Hb | lia].
    - destruct (IH base a b c d Hb) as (b1 & d1 & Hs & Hz).
      destruct (shape_powZ_N C) as (p & q & Hp & Hpq).
      exists (p + b1)%nat, (q + d1)%nat. split.
      + cbn [fst snd]. unfold prod_from in Hs.
        pose proof (shape_mul _ _ _ _ _ _ _ _ _ _ Hp Hs) as H. cbn [Nat.add] in H. exact H.
      + fold (zsum cs). lia.
  Qed.

  Lemma uniform_map_e rs : uniform rs -> map (fun r => (re r, rC r)) rs = map (fun C => (E, C)) (map rC rs).
  Proof.
    induction 1 as [|r rs [He Hn] _ IH]; cbn [map]; [reflexivity|]. rewrite IH, He. reflexivity.
  Qed.
  Lemma uniform_map_n rs : uniform rs ->
    map (fun r => (rn r, (- rC r)%Z)) rs = map (fun C => (N, C)) (map Z.opp (map rC rs)).
  Proof.
    induction 1 as [|r rs [He Hn] _ IH]; cbn [map]; [reflexivity|]. rewrite IH, Hn. reflexivity.
  Qed.
  Lemma zsum_opp cs : zsum (map Z.opp cs) = (- zsum cs)%Z.
  Proof. induction cs as [|c cs IH]; cbn [map zsum fold_right]; [reflexivity|]. fold (zsum (map Z.opp cs)) (zsum cs). lia. Qed.

  Lemma kpow_S x k : kpow x (S k) = x * kpow x k. Proof. reflexivity. Qed.

  (* product combination, normalised: prod e^C * prod n^-C = E/N when the counts sum to 1 *)
  Lemma prod_normalised_uniform rs : uniform rs -> total rs = 1%Z ->
    feq (prod_from fone (map (fun r => (re r, rC r)) rs ++ map (fun r => (rn r, (- rC r)%Z)) rs)) (Frac E N).
  Proof.
    intros Hu Ht. unfold prod_from. rewrite fold_right_app.
    rewrite (uniform_map_e rs Hu), (uniform_map_n rs Hu).
    assert (H0 : shape fone 0 0 0 0) by (split; cbn; ring).
    destruct (shape_prod_N (map Z.opp (map rC rs)) fone 0 0 0 0 H0) as (b & d & Hs & Hz).
    destruct (shape_prod_E (map rC rs) _ 0 b 0 d Hs) as (a & c & [Hn Hd] & Hz2).
    rewrite zsum_opp in Hz. unfold total in Ht. fold (zsum (map rC rs)) in Ht. rewrite Ht in Hz, Hz2.
    unfold prod_from in Hn, Hd. unfold feq. cbn [fnum fden]. rewrite Hn, Hd.
    assert (Ea : a = S c) by lia. assert (Ed : d = S b) by lia. subst a d.
    rewrite !kpow_S. ring.
  Qed.

  (* product combination, unnormalised: prod e^C = E *)
  Lemma prod_unnormalised_uniform rs : uniform rs -> total rs = 1%Z ->
    feq (prod_from fone (map (fun r => (re r, rC r)) rs ++ [])) (Frac E k1).
  Proof.
    intros Hu Ht. rewrite app_nil_r, (uniform_map_e rs Hu).
    assert (H0 : shape fone 0 0 0 0) by (split; cbn; ring).
    destruct (shape_prod_E (map rC rs) fone 0 0 0 0 H0) as (a & c & [Hn Hd] & Hz).
    unfold total in Ht. fold (zsum (map rC rs)) in Ht. rewrite Ht in Hz.
    unfold feq. cbn [fnum fden]. rewrite Hn, Hd.
    assert (Ea : a = S c) by lia. subst a. rewrite kpow_S. cbn [kpow]. ring.
  Qed.

  Lemma ksum_uniform (X : K) (f : region -> K) rs :
    (forall r, In r rs -> f r = phi (rC r) * X) -> ksum (map f rs) = phi (total rs) * X.
  Proof.
    induction rs as [|r rs IH]; intros H; cbn [map ksum fold_right total].
    - rewrite phi_0. ring.
    - fold (ksum (map f rs)). fold (total rs). rewrite phi_add.
      rewrite IH by (intros r' Hr'; apply H; right; exact Hr').
      rewrite (H r) by (left; reflexivity). ring.
  Qed.

  Lemma local_sum_uniform rs : uniform rs ->
    let f := fold_right (fun r acc => fadd (Frac (phi (rC r) * re r) (rn r)) acc) fzero rs in
    fnum f * N = phi (total rs) * E * fden f.
  Proof.
    induction 1 as [|r rs [He Hn] Hu IH]; cbn [fold_right total map].
    - change (total []) with 0%Z. rewrite phi_0. cbn [fzero fnum fden]. ring.
    - cbn zeta in IH. fold (total rs). set (acc := fold_right _ fzero rs) in *.
      cbn [fadd fnum fden]. rewrite phi_add, He, Hn.
      transitivity (phi (rC r) * E * (fden acc * N) + (fnum acc * N) * N); [ring|]. rewrite IH. ring.
  Qed.

  Definition documented (nz : nmode) : bool := expansion_mode nz.

  (* MAIN: whatever the region counts (summing to 1), if every region's contraction is (E, N)
     then every documented combine / normalized mode returns E/N, resp. E when unnormalised *)
  Theorem combine_exact_for_uniform_regions : forall csum nz rs,
    documented nz = true -> uniform rs -> total rs = 1%Z ->
    exists f, combine_value csum nz rs = Some f
              /\ feq f (if truthy nz then Frac E N else Frac E k1).
  Proof.
    intros csum nz rs Hd Hu Ht.
    assert (Hsep_e : ksum (map (fun r => phi (rC r) * re r) rs) = E).
    { rewrite (ksum_uniform E). - rewrite Ht, phi_1. ring.
      - intros r Hr. unfold uniform in Hu. rewrite Forall_forall in Hu. destruct (Hu r Hr) as [-> _]. reflexivity. }
    assert (Hsep_n : ksum (map (fun r => phi (rC r) * rn r) rs) = N).
    { rewrite (ksum_uniform N). - rewrite Ht, phi_1. ring.
      - intros r Hr. unfold uniform in Hu. rewrite Forall_forall in Hu. destruct (Hu r Hr) as [_ ->]. reflexivity. }
    assert (Hloc := local_sum_uniform rs Hu). cbn zeta in Hloc. rewrite Ht, phi_1 in Hloc.
    destruct csum, nz; try discriminate Hd; unfold combine_value; cbn [negb truthy];
      eexists; (split; [reflexivity|]);
      try (apply prod_normalised_uniform; assumption);
      try (apply prod_unnormalised_uniform; assumption);
      unfold feq; cbn [fnum fden]; rewrite ?Hsep_e, ?Hsep_n; try ring.
    all: rewrite Hloc; ring.
  Qed.

  (* the class table of Part 1 is the class of this value: Some <-> not Rejected *)
  Lemma combine_value_defined : forall csum nz rs,
    (exists f, combine_value csum nz rs = Some f) <-> combine_class csum nz <> Rejected.
  Proof.
    intros [|] [| | | | | |] rs; unfold combine_value, combine_class; cbn; split; intros H;
      try (eexists; reflexivity); try discriminate; try (destruct H as [f H]; discriminate H);
      try (exfalso; apply H; reflexivity).
  Qed.
End Values.

(* ---- Part 3: where the scale is held -------------------------------------------- *)

Section Scale.
  Variable K : Type.
  Variables (k0 k1 : K) (kadd kmul ksub : K -> K -> K) (kopp : K -> K).
  Hypothesis Kring : ring_theory k0 k1 kadd kmul ksub kopp eq.
  Add Ring KrScale : Kring.
  Infix "*" := kmul.
  (* 10 ** x in K *)
  Variable pow10 : Z -> K.
  Hypothesis pow10_0 : pow10 0%Z = k1.

  Record net := Net { tens : K; expo : Z }.       (* overall factor held in the tensors / exponent register *)
  Definition scale (s : net) : K := tens s * pow10 (expo s).
  (* TensorNetwork.multiply(c): the factor goes into the tensors, `exponent` is untouched *)
  Definition smul (c : K) (s : net) : net := Net (c * tens s) (expo s).
  (* TensorNetwork.distribute_exponent(): the register is multiplied into the tensors and cleared *)
  Definition distribute (s : net) : net := Net (tens s * pow10 (expo s)) 0%Z.
  (* select(..., virtual=False) with with_exponent=False: the sub-network has a fresh register *)
  Definition subnet (s : net) : net := Net (tens s) 0%Z.
  (* <bra|O|ket> of a network whose tensors alone contract to v0 (real scale: both layers carry it) *)
  Definition contract (v0 : K) (s : net) : K := scale s * scale s * v0.
  (* compute_local_expectation_gloop_expand(normalized="global"): tn = self / nfactor; tn.distribute_exponent() *)
  Definition global_prepare (inv_nfactor : K) (s : net) : net := distribute (smul inv_nfactor s).

  Lemma scale_distribute s : scale (distribute s) = scale s.
  Proof. unfold scale, distribute. cbn [tens expo]. rewrite pow10_0. ring. Qed.

  Lemma subnet_keeps_scale_when_register_clear s : expo s = 0%Z -> scale (subnet s) = scale s.
  Proof. intros H. unfold scale, subnet. cbn [tens expo]. rewrite H. reflexivity. Qed.

  Lemma global_prepare_clears_register c s : expo (global_prepare c s) = 0%Z.
  Proof. reflexivity. Qed.

  (* E0, N0: <G> and <1> of the bare tensors.  With 1/nfactor^2 = 1/<psi|psi>, the unnormalised
     contraction of a sub-network of the prepared network, times <psi|psi>, is <psi|G|psi> *)
  Theorem global_normalisation_sound E0 N0 c s :
    c * c * contract N0 s = k1 ->
    contract E0 (subnet (global_prepare c s)) * contract N0 s = contract E0 s.
  Proof.
    intros H. unfold contract in *. rewrite subnet_keeps_scale_when_register_clear by reflexivity.
    unfold global_prepare. rewrite scale_distribute. unfold scale, smul in *. cbn [tens expo] in *.
    transitivity (tens s * pow10 (expo s) * (tens s * pow10 (expo s)) * E0
                  * (c * c * (tens s * pow10 (expo s) * (tens s * pow10 (expo s)) * N0))); [ring|].
    rewrite H. ring.
  Qed.

  (* without the distribution step the sub-networks lose the register: off by exactly (10^x)^2 *)
  Theorem global_without_distribution_off_by_exponent E0 c s :
    contract E0 (subnet (smul c s)) * (pow10 (expo s) * pow10 (expo s)) = contract E0 (smul c s).
  Proof. unfold contract, scale, subnet, smul. cbn [tens expo]. rewrite pow10_0. ring. Qed.

  (* same for every unnormalised value read off a sub-network (cluster, loop, canonical window, plaquette) *)
  Theorem subnet_unnormalised_off_by_exponent E0 s :
    contract E0 (subnet s) * (pow10 (expo s) * pow10 (expo s)) = contract E0 s.
  Proof. unfold contract, scale, subnet. cbn [tens expo]. rewrite pow10_0. ring. Qed.

  (* ... while every RATIO read off a sub-network is independent of where the scale is held *)
  Theorem subnet_ratio_exponent_independent E0 N0 s :
    contract E0 (subnet s) * contract N0 s = contract E0 s * contract N0 (subnet s).
  Proof. unfold contract, scale, subnet. cbn [tens expo]. ring. Qed.
End Scale.

(* executable instance of the register bookkeeping (K = Z, integer exponents >= 0) for the correspondence *)
Definition znet := net Z.
Definition z_global_prepare (c : Z) (s : znet) : znet := global_prepare Z Z.mul (fun x => (10 ^ x)%Z) c s.
Definition register_after_global (t x : Z) : Z := expo Z (z_global_prepare 1%Z (Net Z t x)).

(* the class a route returns, by API name (the harness passes these constructors) *)
Inductive api := ClusterLocal | ClusterCompute | ClusterRdm | GloopLocal | GloopCompute | SloopLocal | SloopCompute.
Definition route_class (a : api) (max_bond csum : bool) (nz : nmode) : out :=
  match a with
  | ClusterLocal | ClusterCompute => cluster_route max_bond nz
  | ClusterRdm => partial_trace_cluster_route nz
  | GloopLocal | SloopLocal | SloopCompute => expand_route csum nz
  | GloopCompute => compute_gloop_route csum nz
  end.

(* C13 proofs: properties of the reduced-density-matrix / expectation
   constructions of C13/Model.v over an ARBITRARY commutative ring K with an
   involution conj (Section variables + ring_theory: no axioms). *)
From Coq Require Import ZArith Arith List Bool Lia Ring PeanoNat.
From QV Require Import Base.Sums Base.TN Base.TNExec C13.Model.
Import ListNotations.

Section C13.
  Variable K : Type.
  Variables (k0 k1 : K) (kadd kmul ksub : K -> K -> K) (kopp : K -> K).
  Hypothesis Kring : ring_theory k0 k1 kadd kmul ksub kopp eq.
  Add Ring Kr13 : Kring.
  Variable conj : K -> K.
  Hypothesis conj_add : forall a b, conj (kadd a b) = kadd (conj a) (conj b).
  Hypothesis conj_mul : forall a b, conj (kmul a b) = kmul (conj a) (conj b).
  Hypothesis conj_invol : forall a, conj (conj a) = a.
  Infix "+" := kadd. Infix "*" := kmul.
  Notation sum := (sum K k0 kadd).
  Notation sum_ext := (sum_ext K k0 kadd).
  Notation sum_swap := (sum_swap K k0 k1 kadd kmul ksub kopp Kring).
  Notation sum_mul_l := (sum_mul_l K k0 k1 kadd kmul ksub kopp Kring).
  Notation sum_mul_r := (sum_mul_r K k0 k1 kadd kmul ksub kopp Kring).
  Notation sum_prod := (sum_prod K k0 k1 kadd kmul ksub kopp Kring).
  Notation sum_delta := (sum_delta K k0 k1 kadd kmul ksub kopp Kring).
  Notation rho := (rho K k0 kadd kmul conj).
  Notation expec := (expec K k0 kadd kmul conj).
  Notation tr_rho := (tr_rho K k0 kadd kmul conj).
  Notation sandwich := (sandwich K k0 kadd kmul conj).
  Notation apply_op := (apply_op K k0 kadd kmul).

  Lemma conj_0 : conj k0 = k0.
  Proof.
    assert (H : conj k0 = conj k0 + conj k0) by (rewrite <- conj_add; f_equal; ring).
    assert (H2 : conj k0 + kopp (conj k0) = (conj k0 + conj k0) + kopp (conj k0)) by (rewrite <- H; reflexivity).
    ring_simplify in H2. symmetry. exact H2.
  Qed.

  Lemma conj_sum n f : conj (sum n f) = sum n (fun i => conj (f i)).
  Proof. induction n as [|n IH]; cbn; [apply conj_0|]. rewrite conj_add, IH. reflexivity. Qed.

  (* ---- one kept block --------------------------------------------------------- *)
  Section OneBlock.
    Variable psi : nat -> nat -> K.
    Variables dk dr : nat.

    (* the reduced density matrix is Hermitian: rho[b,k] = conj rho[k,b] *)
    Theorem rho_hermitian k b : rho psi dr b k = conj (rho psi dr k b).
    Proof.
      unfold Model.rho. rewrite conj_sum. apply sum_ext. intros r _.
      rewrite conj_mul, conj_invol. ring.
    Qed.

    (* tr rho = <psi|psi>, kept sites leading in the flat layout ... *)
    Theorem trace_rho_is_norm_kept_first (phi : nat -> K) :
      (forall k r, (k < dk)%nat -> (r < dr)%nat -> psi k r = phi (k * dr + r)%nat) ->
      tr_rho psi dk dr = norm2_flat K k0 kadd kmul conj phi (dk * dr).
    Proof.
      intros H. unfold Model.tr_rho, Model.rho, norm2_flat. rewrite sum_prod.
      apply sum_ext. intros k Hk. apply sum_ext. intros r Hr. rewrite H by assumption. reflexivity.
    Qed.

    (* ... or trailing *)
    Theorem trace_rho_is_norm_kept_last (phi : nat -> K) :
      (forall k r, (k < dk)%nat -> (r < dr)%nat -> psi k r = phi (r * dk + k)%nat) ->
      tr_rho psi dk dr = norm2_flat K k0 kadd kmul conj phi (dr * dk).
    Proof.
      intros H. unfold Model.tr_rho, Model.rho, norm2_flat. rewrite sum_prod. rewrite sum_swap.
      apply sum_ext. intros r Hr. apply sum_ext. intros k Hk. rewrite H by assumption. reflexivity.
    Qed.

    (* the trace is real (fixed by conj) *)
    Corollary trace_rho_real : conj (tr_rho psi dk dr) = tr_rho psi dk dr.
    Proof.
      unfold Model.tr_rho. rewrite conj_sum. apply sum_ext. intros k _. symmetry. apply rho_hermitian.
    Qed.

    (* The expectation built from rho IS <psi| (O (x) 1) |psi> with O acting as a
       matrix on the ket: (O psi)[b,r] = sum_k O[b,k] psi[k,r].  This pins the
       transposition convention: O's first (row) label meets the bra. *)
    Theorem expec_is_sandwich O : expec psi dk dr O = sandwich psi dk dr O.
    Proof.
      unfold Model.expec, Model.sandwich, Model.apply_op, Model.rho.
      (* lhs: sum_k sum_b O b k * sum_r psi k r * conj psi b r *)
      rewrite sum_swap.
      apply sum_ext. intros b _.
      (* sum_k O b k * sum_r ...  =  sum_r conj psi b r * sum_k O b k * psi k r *)
      rewrite (sum_ext dk _ (fun k => sum dr (fun r => O b k * (psi k r * conj (psi b r))))).
      2:{ intros k _. symmetry. apply sum_mul_l. }
      rewrite sum_swap. apply sum_ext. intros r _.
      rewrite <- sum_mul_l. apply sum_ext. intros k _. ring.
    Qed.

    (* expectation of the identity = tr rho  (the normalisation every route divides by) *)
    Theorem expec_identity :
      expec psi dk dr (fun b k => if Nat.eqb b k then k1 else k0) = tr_rho psi dk dr.
    Proof.
      unfold Model.expec, Model.tr_rho. apply sum_ext. intros k Hk.
      rewrite (sum_ext dk _ (fun b => if Nat.eqb b k then rho psi dr k b else k0)).
      2:{ intros b _. destruct (Nat.eqb b k); ring. }
      apply sum_delta. exact Hk.
    Qed.

    (* linearity in the operator *)
    Theorem expec_linear c O1 O2 :
      expec psi dk dr (fun b k => c * O1 b k + O2 b k) = c * expec psi dk dr O1 + expec psi dk dr O2.
    Proof.
      unfold Model.expec.
      rewrite <- sum_mul_l. rewrite <- (sum_add K k0 k1 kadd kmul ksub kopp Kring). apply sum_ext. intros k _.
      rewrite <- sum_mul_l. rewrite <- (sum_add K k0 k1 kadd kmul ksub kopp Kring). apply sum_ext. intros b _. ring.
    Qed.

    (* expectation of the adjoint operator is the conjugate expectation *)
    Theorem expec_adjoint O :
      expec psi dk dr (fun b k => conj (O k b)) = conj (expec psi dk dr O).
    Proof.
      unfold Model.expec. rewrite conj_sum. rewrite sum_swap. apply sum_ext. intros b _.
      rewrite conj_sum. apply sum_ext. intros k _.
      rewrite conj_mul. rewrite <- (rho_hermitian b k). reflexivity.
    Qed.

    (* ---- overall scale: the state c * psi (quimb: tensors + a scalar prefactor
       10^exponent).  Every unnormalised quantity picks up c * conj c, so the
       normalised ones do not depend on where the scale is held. *)
    Theorem rho_scale c k b :
      Model.rho K k0 kadd kmul conj (fun k r => c * psi k r) dr k b = (c * conj c) * rho psi dr k b.
    Proof.
      unfold Model.rho. rewrite <- sum_mul_l. apply sum_ext. intros r _. rewrite conj_mul. ring.
    Qed.

    Theorem tr_rho_scale c :
      Model.tr_rho K k0 kadd kmul conj (fun k r => c * psi k r) dk dr = (c * conj c) * tr_rho psi dk dr.
    Proof.
      unfold Model.tr_rho. rewrite <- sum_mul_l. apply sum_ext. intros k _. apply rho_scale.
    Qed.

    Theorem expec_scale c O :
      Model.expec K k0 kadd kmul conj (fun k r => c * psi k r) dk dr O = (c * conj c) * expec psi dk dr O.
    Proof.
      unfold Model.expec. rewrite <- sum_mul_l. apply sum_ext. intros k _.
      rewrite <- sum_mul_l. apply sum_ext. intros b _. rewrite rho_scale. ring.
    Qed.

    (* <O>/<1> cross-multiplied: the same for psi and for c * psi *)
    Corollary normalised_value_scale_independent c O :
      Model.expec K k0 kadd kmul conj (fun k r => c * psi k r) dk dr O * tr_rho psi dk dr
      = expec psi dk dr O * Model.tr_rho K k0 kadd kmul conj (fun k r => c * psi k r) dk dr.
    Proof. rewrite expec_scale, tr_rho_scale. ring. Qed.
  End OneBlock.

  (* ---- two kept sites: site order = operator factor order --------------------- *)
  Section TwoSites.
    Variable psi2 : nat -> nat -> nat -> K.
    Variables d1 d2 dr : nat.
    Notation psi_ij := (psi_ij K psi2 d2).
    Notation psi_ji := (psi_ji K psi2 d1).
    Notation sw := (sw d1 d2).

    Lemma div_flat i b j : (j < b)%nat -> ((i * b + j) / b = i)%nat.
    Proof. intros H. rewrite Nat.div_add_l by lia. rewrite Nat.div_small by exact H. lia. Qed.
    Lemma mod_flat i b j : (j < b)%nat -> ((i * b + j) mod b = j)%nat.
    Proof. intros H. rewrite Nat.add_comm, Nat.mod_add by lia. apply Nat.mod_small. exact H. Qed.

    (* summing over the flat pair index in either order *)
    Lemma sum_flat_swap (f : nat -> nat -> K) :
      sum (d2 * d1) (fun x => f (x mod d1) (x / d1)) = sum (d1 * d2) (fun x => f (x / d2) (x mod d2)).
    Proof.
      rewrite !sum_prod. rewrite sum_swap. apply sum_ext. intros i Hi. apply sum_ext. intros j Hj.
      rewrite mod_flat, div_flat, div_flat, mod_flat by assumption. reflexivity.
    Qed.

    Definition rhoP (ki kj bi bj : nat) : K := sum dr (fun r => psi2 ki kj r * conj (psi2 bi bj r)).

    (* the reduced density matrix on (j,i) is the one on (i,j) with both fused
       indices re-ordered *)
    Theorem rho_swap_sites k b : (k < d2 * d1)%nat -> (b < d2 * d1)%nat ->
      rho psi_ji dr k b = rho psi_ij dr (sw k) (sw b).
    Proof.
      intros Hk Hb. unfold Model.rho, Model.psi_ij, Model.psi_ji, Model.sw.
      assert (Hd : forall x, (x < d2 * d1)%nat -> (x mod d1 < d1)%nat /\ (x / d1 < d2)%nat).
      { intros x Hx. assert (d1 <> 0)%nat by (intros E; subst; lia). split.
        - apply Nat.mod_upper_bound; assumption.
        - apply Nat.div_lt_upper_bound; [assumption | lia]. }
      destruct (Hd k Hk) as [_ Hk2]. destruct (Hd b Hb) as [_ Hb2].
      apply sum_ext. intros r _.
      rewrite !div_flat, !mod_flat by assumption. reflexivity.
    Qed.

    (* <O> on sites (i,j) = <O with its factors swapped> on sites (j,i) *)
    Theorem expec_swap_sites O :
      expec psi_ji (d2 * d1) dr (swap_op K d1 d2 O) = expec psi_ij (d1 * d2) dr O.
    Proof.
      unfold Model.expec.
      (* outer index *)
      pose (F := fun ki kj => sum (d2 * d1) (fun b' =>
                   O (sw b') (ki * d2 + kj)%nat * rhoP ki kj (b' mod d1) (b' / d1))).
      rewrite (sum_ext (d2 * d1) _ (fun k' => F (k' mod d1) (k' / d1)%nat)).
      2:{ intros k' _. unfold F. apply sum_ext. intros b' _. reflexivity. }
      rewrite (sum_flat_swap F).
      apply sum_ext. intros k Hk. unfold F.
      assert (Hd2 : d2 <> 0%nat) by (intros E; subst; lia).
      pose (H := fun bi bj => O (bi * d2 + bj)%nat (k / d2 * d2 + k mod d2)%nat * rhoP (k / d2) (k mod d2) bi bj).
      rewrite (sum_ext (d2 * d1) _ (fun b' => H (b' mod d1) (b' / d1)%nat)).
      2:{ intros b' _. reflexivity. }
      rewrite (sum_flat_swap H).
      apply sum_ext. intros b Hb. unfold H.
      assert (Ek : (k / d2 * d2 + k mod d2 = k)%nat).
      { pose proof (Nat.div_mod k d2 Hd2). lia. }
      assert (Eb : (b / d2 * d2 + b mod d2 = b)%nat).
      { pose proof (Nat.div_mod b d2 Hd2). lia. }
      rewrite Ek, Eb. reflexivity.
    Qed.

    (* product operators: O1 (x) O2 on (i,j) = O2 (x) O1 on (j,i) *)
    Lemma swap_kron A B b k : (b < d2 * d1)%nat -> (k < d2 * d1)%nat ->
      swap_op K d1 d2 (kron_op K kmul d2 A B) b k = kron_op K kmul d1 B A b k.
    Proof.
      intros Hb Hk. unfold swap_op, kron_op, Model.sw.
      assert (Hd : forall x, (x < d2 * d1)%nat -> (x / d1 < d2)%nat).
      { intros x Hx. apply Nat.div_lt_upper_bound; [intros E; subst; lia | lia]. }
      rewrite !div_flat, !mod_flat by (apply Hd; assumption). ring.
    Qed.

    Theorem expec_product_swap A B :
      expec psi_ij (d1 * d2) dr (kron_op K kmul d2 A B) = expec psi_ji (d2 * d1) dr (kron_op K kmul d1 B A).
    Proof.
      rewrite <- expec_swap_sites. unfold Model.expec.
      apply sum_ext. intros k Hk. apply sum_ext. intros b Hb.
      rewrite swap_kron by assumption. reflexivity.
    Qed.
  End TwoSites.
End C13.

(* ---- the executable instance satisfies the hypotheses ------------------------- *)
Lemma gconj_add a b : gconj (gadd a b) = gadd (gconj a) (gconj b).
Proof. destruct a, b. unfold gconj, gadd. cbn [fst snd]. f_equal. ring. Qed.
Lemma gconj_mul a b : gconj (gmul a b) = gmul (gconj a) (gconj b).
Proof. destruct a, b. unfold gconj, gmul. cbn [fst snd]. f_equal; ring. Qed.
Lemma gconj_invol a : gconj (gconj a) = a.
Proof. destruct a. unfold gconj. cbn [fst snd]. f_equal. ring. Qed.

(* the executed rdm entries / expectation are exactly the generic constructions
   applied to the table function: rdm is row-major over (k, b) *)
Lemma rdm_length dims psi w :
  length (rdm dims psi w) = (prodn (sel_dims dims w) * prodn (sel_dims dims w))%nat.
Proof.
  unfold rdm. set (dk := prodn (sel_dims dims w)).
  set (g := fun k : nat => _).
  assert (H : forall l, length (flat_map g l) = (length l * dk)%nat).
  { induction l as [|x l IH]; [reflexivity|]. cbn [flat_map]. rewrite app_length, IH.
    unfold g at 1. rewrite map_length, seq_length. cbn. reflexivity. }
  rewrite H, seq_length. reflexivity.
Qed.

Lemma nth_flat_map_rows (A : Type) (d : A) (f : nat -> nat -> A) n m k b :
  (k < n)%nat -> (b < m)%nat ->
  nth (k * m + b) (flat_map (fun k => map (fun b => f k b) (seq 0 m)) (seq 0 n)) d = f k b.
Proof.
  intros Hk Hb.
  assert (G : forall s n k, (k < n)%nat ->
    nth (k * m + b) (flat_map (fun k => map (fun b => f k b) (seq 0 m)) (seq s n)) d = f (s + k)%nat b).
  { intros s n'. revert s. induction n' as [|n' IH]; intros s k' Hk'; [lia|].
    cbn [seq flat_map]. destruct k' as [|k'].
    - cbn [Nat.mul Nat.add]. rewrite app_nth1 by (rewrite map_length, seq_length; exact Hb).
      rewrite (nth_indep _ d (f s 0%nat)) by (rewrite map_length, seq_length; exact Hb).
      rewrite (map_nth (fun b => f s b)). rewrite seq_nth by exact Hb. rewrite Nat.add_0_r. reflexivity.
    - rewrite app_nth2 by (rewrite map_length, seq_length; lia).
      rewrite map_length, seq_length.
      replace (S k' * m + b - m)%nat with (k' * m + b)%nat by lia.
      rewrite IH by lia. f_equal. lia. }
  apply (G 0%nat n k Hk).
Qed.

Theorem rdm_entry dims psi w k b :
  let dk := prodn (sel_dims dims w) in
  let dr := prodn (sel_dims dims (rest_sites (length dims) w)) in
  (k < dk)%nat -> (b < dk)%nat ->
  nth (k * dk + b) (rdm dims psi w) g0 = grho (psi_of (table dims psi w)) dr k b.
Proof.
  intros dk dr Hk Hb. unfold rdm. fold dk. fold dr.
  apply (nth_flat_map_rows G g0 (fun k b => grho (psi_of (table dims psi w)) dr k b)); assumption.
Qed.

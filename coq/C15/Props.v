(* C15 property theorems (statements only; proofs in C15/Proofs.v, C15/Adjoint.v). *)
From Coq Require Import ZArith List Bool Ring.
From QV Require Import Base.Sums C15.Model C15.Proofs C15.Adjoint.
Import ListNotations.
Open Scope Z_scope.

(* kron(..., ownership=(ri, rf)): for every dimension list and every range
   0 <= ri < rf <= D the bookkeeping accepts the range, slices a block of rows
   [ri_got, rf_got) that contains [ri, rf), the sliced product has exactly
   rf_got - ri_got rows, and the final slice [lo, hi) of it is exactly rows
   ri .. rf-1 of the full product. *)
Theorem C15_row_ownership_exact : forall dims ri rf, pos dims -> 0 <= ri -> ri < rf -> rf <= prodZ dims ->
  exists p, ownership dims ri rf = Some p
    /\ op_ri_got p <= ri /\ rf <= op_rf_got p
    /\ op_nrows p = op_rf_got p - op_ri_got p
    /\ op_ri_got p + op_lo p = ri /\ op_ri_got p + op_hi p = rf
    /\ 0 <= op_lo p /\ op_lo p < op_hi p /\ op_hi p <= op_nrows p.
Proof. exact ownership_sound. Qed.
Print Assumptions C15_row_ownership_exact.

Theorem C15_bad_ownership_rejected : forall dims ri rf,
  ~ (0 <= ri < prodZ dims /\ 0 < rf <= prodZ dims) -> ownership dims ri rf = None.
Proof. exact ownership_rejects. Qed.
Print Assumptions C15_bad_ownership_rejected.

(* the sliced rows are contiguous in the full product: every matched digit pair
   except the last is a single row *)
Theorem C15_sliced_block_contiguous : forall a b, Forall (fun p => fst p = snd p) (removelast (matching a b)).
Proof. exact matching_shape. Qed.
Print Assumptions C15_sliced_block_contiguous.

(* ikron: the emitted Kronecker factors (identities and operators) exactly
   fill the composite space; a non-1 dangling overlay marks a call outside the
   domain (operator that never fitted). *)
Theorem C15_ikron_factors_fill_space : forall dims ind inds szs cid cov k cur bl ov,
  pos dims -> 1 <= cid -> 1 <= cov ->
  ikron_loop ind dims inds szs cid cov k cur = Some (bl, ov) ->
  (cov > 1 -> nth (Nat.pred k) szs 0 = cur) ->
  blocks_size szs bl * ov = cid * cov * prodZ dims /\ 1 <= ov.
Proof. intros dims ind inds szs cid cov k cur bl ov Hp. exact (ikron_fill dims Hp ind inds szs cid cov k cur bl ov). Qed.
Print Assumptions C15_ikron_factors_fill_space.

Theorem C15_ikron_valid_call_size : forall dims inds szs bl, pos dims ->
  ikron_blocks dims inds szs = Some (bl, 1) -> blocks_size szs bl = prodZ dims.
Proof. exact ikron_blocks_fill. Qed.
Print Assumptions C15_ikron_valid_call_size.

Theorem C15_dim_compress_preserves_size : forall dims inds, pos dims ->
  pairs_size (dim_compress dims inds) = prodZ dims.
Proof. exact dim_compress_size. Qed.
Print Assumptions C15_dim_compress_preserves_size.

(* partial-trace kernels address exactly the entries of the traced subsystem *)
Theorem C15_trace_lose_rows : forall a e b i t, 0 < b -> 0 <= i ->
  lose_row e b i t = ravel3 a e b (i / b) t (i mod b).
Proof. exact lose_row_is_ravel. Qed.
Print Assumptions C15_trace_lose_rows.

Theorem C15_trace_lose_slice_length : forall e b i, 0 < b -> 0 < e ->
  forall t, 0 <= t -> (lose_row e b i t < lose_stop e b i <-> t < e).
Proof. exact lose_slice_len. Qed.
Print Assumptions C15_trace_lose_slice_length.

Theorem C15_trace_keep_rows : forall a s b i k y, keep_row s b i k y = ravel3 a s b k i y.
Proof. exact keep_row_is_ravel. Qed.
Print Assumptions C15_trace_keep_rows.

Theorem C15_ravel3_injective : forall d1 d2 d3 x y z x' y' z',
  0 <= y < d2 -> 0 <= z < d3 -> 0 <= y' < d2 -> 0 <= z' < d3 ->
  ravel3 d1 d2 d3 x y z = ravel3 d1 d2 d3 x' y' z' -> x = x' /\ y = y' /\ z = z'.
Proof. exact ravel3_bijective. Qed.
Print Assumptions C15_ravel3_injective.

(* multi-dimensional coordinates are flattened with row-major strides, for any number of axes *)
Theorem C15_dim_map_nd_strides_row_major : forall d t, nd_strides (d :: t) = row_major (d :: t).
Proof. exact nd_strides_row_major. Qed.
Print Assumptions C15_dim_map_nd_strides_row_major.

(* partial trace is the adjoint of embedding, over ANY commutative ring *)
Theorem C15_ptr_adjoint_of_embedding :
  forall (K : Type) (k0 k1 : K) (kadd kmul ksub : K -> K -> K) (kopp : K -> K),
  ring_theory k0 k1 kadd kmul ksub kopp eq ->
  forall (a s b : nat) (rho : idx3 -> idx3 -> K) (A : nat -> nat -> K),
  tr_embed_rho K k0 kadd kmul a s b rho A = tr_A_ptr K k0 kadd kmul a s b rho A.
Proof. exact ptr_adjoint. Qed.
Print Assumptions C15_ptr_adjoint_of_embedding.

Example C15_examples :
  dynal 3279 [13; 2; 7; 3; 10] = [7; 1; 4; 0; 9]
  /\ (exists p, ownership [2; 3; 2] 3 9 = Some p /\ op_lo p = 3 /\ op_hi p = 9 /\ op_nrows p = 12)
  /\ ikron_blocks [2; 2; 3; 2] [1; 2] [6] = Some ([BId 2; BOp 0; BId 2], 1)
  /\ ikron_blocks [3; 2; 2] [1] [4] = Some ([BId 3], 4)
  /\ dim_compress [2;2;2;2;2;2;2;2;2;2] [3;4] = [(8, 0); (4, 1); (32, 0)].
Proof. vm_compute. repeat split. eexists. repeat split. Qed.

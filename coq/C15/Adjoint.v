(* Partial trace is the adjoint of embedding, over any commutative ring:
   Tr[(1_a (x) A (x) 1_b) rho] = Tr[A ptr_keep(rho)], in triple-index form
   (flat index = ravel3, see ravel3_bijective / keep_row_is_ravel). *)
From Coq Require Import Arith List Lia Ring PeanoNat.
From QV Require Import Base.Sums.

Section Adjoint.
  Variable K : Type.
  Variables (k0 k1 : K) (kadd kmul ksub : K -> K -> K) (kopp : K -> K).
  Hypothesis Kring : ring_theory k0 k1 kadd kmul ksub kopp eq.
  Add Ring Kr2 : Kring.
  Infix "+" := kadd. Infix "*" := kmul.
  Notation sum := (sum K k0 kadd).

  Variables a s b : nat.
  Definition idx3 := (nat * nat * nat)%type.
  Variable rho : idx3 -> idx3 -> K.
  Variable A : nat -> nat -> K.

  (* (1_a (x) A (x) 1_b) [(x,i,y),(x',j,y')] *)
  Definition embed3 (r c : idx3) : K :=
    let '(x, i, y) := r in let '(x', j, y') := c in
    if Nat.eqb x' x then (if Nat.eqb y' y then A i j else k0) else k0.

  (* _trace_keep: rhos[i,j] = sum_k sum_y rho[(k,i,y),(k,j,y)] *)
  Definition trace_keep (i j : nat) : K :=
    sum a (fun k => sum b (fun y => rho (k, i, y) (k, j, y))).

  Definition sum3 (f : idx3 -> K) : K :=
    sum a (fun x => sum s (fun i => sum b (fun y => f (x, i, y)))).

  Definition tr_embed_rho : K := sum3 (fun r => sum3 (fun c => embed3 r c * rho c r)).
  Definition tr_A_ptr : K := sum s (fun i => sum s (fun j => A i j * trace_keep j i)).

  Lemma inner_collapse x i y : (x < a)%nat -> (y < b)%nat ->
    sum3 (fun c => embed3 (x, i, y) c * rho c (x, i, y))
    = sum s (fun j => A i j * rho (x, j, y) (x, i, y)).
  Proof.
    intros Hx Hy. unfold sum3, embed3.
    (* collapse x' *)
    rewrite (sum_ext K k0 kadd a _
      (fun x' => if Nat.eqb x' x then sum s (fun j => sum b (fun y' =>
          (if Nat.eqb y' y then A i j else k0) * rho (x', j, y') (x, i, y))) else k0)).
    2:{ intros x' _. destruct (Nat.eqb x' x); [reflexivity|].
        apply (sum_all_zero K k0 k1 kadd kmul ksub kopp Kring). intros j _.
        apply (sum_all_zero K k0 k1 kadd kmul ksub kopp Kring). intros y' _. ring. }
    rewrite (sum_delta K k0 k1 kadd kmul ksub kopp Kring a x) by exact Hx.
    apply sum_ext. intros j _.
    rewrite (sum_ext K k0 kadd b _
      (fun y' => if Nat.eqb y' y then A i j * rho (x, j, y') (x, i, y) else k0)).
    2:{ intros y' _. destruct (Nat.eqb y' y); ring. }
    rewrite (sum_delta K k0 k1 kadd kmul ksub kopp Kring b y) by exact Hy. reflexivity.
  Qed.

  Theorem ptr_adjoint : tr_embed_rho = tr_A_ptr.
  Proof.
    unfold tr_embed_rho, tr_A_ptr, sum3 at 1, trace_keep.
    (* rewrite the inner sum pointwise *)
    rewrite (sum_ext K k0 kadd a _
      (fun x => sum s (fun i => sum b (fun y => sum s (fun j => A i j * rho (x, j, y) (x, i, y)))))).
    2:{ intros x Hx. apply sum_ext. intros i _. apply sum_ext. intros y Hy. apply inner_collapse; assumption. }
    (* now reorder: sum_x sum_i sum_y sum_j  ->  sum_i sum_j sum_x sum_y *)
    rewrite (sum_swap K k0 k1 kadd kmul ksub kopp Kring a s).
    apply sum_ext. intros i _.
    rewrite (sum_ext K k0 kadd a _
      (fun x => sum s (fun j => sum b (fun y => A i j * rho (x, j, y) (x, i, y))))).
    2:{ intros x _. apply (sum_swap K k0 k1 kadd kmul ksub kopp Kring b s). }
    rewrite (sum_swap K k0 k1 kadd kmul ksub kopp Kring a s).
    apply sum_ext. intros j _.
    rewrite <- (sum_mul_l K k0 k1 kadd kmul ksub kopp Kring). apply sum_ext. intros x _.
    rewrite <- (sum_mul_l K k0 k1 kadd kmul ksub kopp Kring). reflexivity.
  Qed.
End Adjoint.

(* C15 property theorems about permute (statements only; model and proofs: coq/C15/Permute.v).
   For ALL dimension lists with positive entries and ALL permutations of the subsystems. *)
From Coq Require Import ZArith List Bool Permutation.
From QV Require Import C20.Model C20.Proofs C15.Permute.
Import ListNotations.
Open Scope Z_scope.

(* the sparse route's strides (accumulate / divide) are the row-major strides, and its coordinate pairs
   (ninds, oinds) are exactly (permute_index o, o): sparse and dense permute move every entry alike *)
Theorem C15_permute_sparse_pairs_are_the_dense_map : forall dims perm b,
  pos_dims dims -> is_perm perm (length dims) -> digits_ok b dims ->
  sparse_oind dims b = ravel dims b /\
  sparse_nind dims perm b = permute_index dims perm (sparse_oind dims b).
Proof. exact sparse_pairs. Qed.
Print Assumptions C15_permute_sparse_pairs_are_the_dense_map.

(* the permuted space has the same total dimension and every entry lands inside it *)
Theorem C15_permute_stays_in_range : forall dims perm o,
  pos_dims dims -> is_perm perm (length dims) -> 0 <= o < prodZ dims ->
  0 <= permute_index dims perm o < prodZ dims /\ prodZ (takeZ perm dims) = prodZ dims.
Proof. exact permute_index_in_range. Qed.
Print Assumptions C15_permute_stays_in_range.

(* permuting with the inverse permutation undoes it, from both sides: the index map is a bijection
   (the matrix the sparse route builds from the pairs is a permutation matrix) *)
Theorem C15_permute_inverse_undoes : forall dims perm,
  pos_dims dims -> is_perm perm (length dims) ->
  (forall o, 0 <= o < prodZ dims ->
     permute_index (takeZ perm dims) (inv perm) (permute_index dims perm o) = o) /\
  (forall m, 0 <= m < prodZ (takeZ perm dims) ->
     permute_index dims perm (permute_index (takeZ perm dims) (inv perm) m) = m) /\
  (forall o o', 0 <= o < prodZ dims -> 0 <= o' < prodZ dims ->
     permute_index dims perm o = permute_index dims perm o' -> o = o').
Proof.
  intros dims perm Hp H. split; [|split].
  - intros o Ho. exact (permute_index_left_inverse dims perm o Hp H Ho).
  - intros m Hm. exact (permute_index_right_inverse dims perm m Hp H Hm).
  - intros o o' Ho Ho'. exact (permute_index_injective dims perm o o' Hp H Ho Ho').
Qed.
Print Assumptions C15_permute_inverse_undoes.

Theorem C15_permute_identity : forall dims o, pos_dims dims -> 0 <= o < prodZ dims ->
  permute_index dims (seq 0 (length dims)) o = o.
Proof. exact permute_index_identity. Qed.
Print Assumptions C15_permute_identity.

(* permute(permute(p, dims, p1), dims[p1], p2) = permute(p, dims, p1[p2]) *)
Theorem C15_permute_composes : forall dims p1 p2 o, pos_dims dims ->
  is_perm p1 (length dims) -> is_perm p2 (length dims) -> 0 <= o < prodZ dims ->
  permute_index (takeZ p1 dims) p2 (permute_index dims p1 o) = permute_index dims (takeN p2 p1) o.
Proof. exact permute_index_compose. Qed.
Print Assumptions C15_permute_composes.

Example C15_permute_example :
  permute_index [2; 3; 4] [2; 0; 1]%nat 17 = 10 /\ inv [2; 0; 1]%nat = [1; 2; 0]%nat
  /\ permute_index [4; 2; 3] [1; 2; 0]%nat 10 = 17
  /\ sparse_nind [2; 3; 4] [2; 0; 1]%nat [1; 1; 1] = 10 /\ acc_strides [2; 3; 4] = [12; 4; 1]
  /\ is_perm [2; 0; 1]%nat 3.
Proof.
  repeat split; try (vm_compute; reflexivity).
  unfold is_perm. cbn. apply (Permutation_cons_app [0; 1]%nat nil 2%nat). rewrite app_nil_r. apply Permutation_refl.
Qed.

(* C15 - permute: the index arithmetic of quimb.core._permute_sparse / _permute_dense.

   Dense route: p.reshape(dims).transpose(perm).reshape(-1): the entry with multi-index b
   moves to the row-major position of b[perm] in the space of dimensions dims[perm].
   Sparse route: a permutation matrix with entries (ninds, oinds),
       odim_stride = accumulate(dims[::-1])[::-1] // dims,  oinds = sum odim_stride * b,
       ndim_stride = the same for dims[perm],               ninds = sum ndim_stride * b[perm].
   Both are the map `permute_index dims perm` below.  Theorems (all dimension lists with
   positive entries, all permutations, no bound): the accumulate/divide strides are the
   row-major strides; the sparse (ninds, oinds) pairs are exactly (permute_index o, o); the
   map stays inside [0, prod dims) of a space of the same total size; it has a two-sided
   inverse given by the inverse permutation (so it is a bijection - the matrix built from
   the pairs is a permutation matrix); the identity permutation is the identity; permuting
   twice is permuting once with the composed permutation. *)
From Coq Require Import ZArith List Lia Bool Permutation Arith PeanoNat.
From QV Require Import C20.Model C20.Proofs.
Import ListNotations.

(* l[perm] *)
Definition take {A} (d : A) (perm : list nat) (l : list A) : list A := map (fun k => nth k l d) perm.
Definition takeZ := @take Z 0%Z.
Definition takeN := @take nat 0%nat.

Definition is_perm (perm : list nat) (n : nat) : Prop := Permutation perm (seq 0 n).

(* position of the first occurrence *)
Fixpoint index_of (i : nat) (l : list nat) : nat :=
  match l with [] => 0 | x :: t => if Nat.eqb x i then 0 else S (index_of i t) end.
(* the inverse permutation (numpy: argsort(perm)) *)
Definition inv (perm : list nat) : list nat := map (fun i => index_of i perm) (seq 0 (length perm)).

Open Scope Z_scope.

(* the sparse kernel's strides *)
Fixpoint suffix_prods (dims : list Z) : list Z :=
  match dims with [] => [] | d :: t => prodZ (d :: t) :: suffix_prods t end.
Fixpoint zip_div (a b : list Z) : list Z :=
  match a, b with x :: a', y :: b' => (x / y) :: zip_div a' b' | _, _ => [] end.
Definition acc_strides (dims : list Z) : list Z := zip_div (suffix_prods dims) dims.
Fixpoint dot (a b : list Z) : Z :=
  match a, b with x :: a', y :: b' => x * y + dot a' b' | _, _ => 0 end.

Definition sparse_oind (dims b : list Z) : Z := dot (acc_strides dims) b.
Definition sparse_nind (dims : list Z) (perm : list nat) (b : list Z) : Z :=
  dot (acc_strides (takeZ perm dims)) (takeZ perm b).

(* where the entry at flat position o goes *)
Definition permute_index (dims : list Z) (perm : list nat) (o : Z) : Z :=
  ravel (takeZ perm dims) (takeZ perm (unravel dims o)).

(* ---- strides ------------------------------------------------------------------------------ *)
Lemma dot_acc_strides_ravel : forall dims b, pos_dims dims -> length b = length dims ->
  dot (acc_strides dims) b = ravel dims b.
Proof.
  induction dims as [|d ds IH]; intros [|x xs] Hp Hl; try discriminate; [reflexivity|].
  inversion Hp as [|? ? Hd Hp']; subst. cbn in Hl.
  unfold acc_strides in *. cbn [suffix_prods zip_div dot ravel].
  rewrite IH by (assumption || lia). f_equal.
  rewrite prodZ_cons. rewrite (Z.mul_comm d (prodZ ds)), Z.div_mul by lia. ring.
Qed.

(* ---- take --------------------------------------------------------------------------------- *)
Lemma take_length {A} (d : A) perm l : length (take d perm l) = length perm.
Proof. unfold take. apply map_length. Qed.

Lemma nth_take {A} (d : A) perm l k : (k < length perm)%nat ->
  nth k (take d perm l) d = nth (nth k perm 0%nat) l d.
Proof.
  intros Hk. unfold take.
  rewrite (nth_indep _ d (nth (nth 0%nat perm 0%nat) l d)) by (rewrite map_length; exact Hk).
  change (nth (nth 0%nat perm 0%nat) l d) with ((fun k0 => nth k0 l d) (nth 0%nat perm 0%nat)).
  rewrite map_nth. f_equal. apply nth_indep. exact Hk.
Qed.

Lemma is_perm_length perm n : is_perm perm n -> length perm = n.
Proof. intros H. apply Permutation_length in H. rewrite seq_length in H. exact H. Qed.

Lemma is_perm_lt perm n k : is_perm perm n -> (k < length perm)%nat -> (nth k perm 0 < n)%nat.
Proof.
  intros H Hk. assert (In (nth k perm 0%nat) perm) by (apply nth_In; exact Hk).
  apply (Permutation_in _ H) in H0. apply in_seq in H0. lia.
Qed.

Lemma is_perm_NoDup perm n : is_perm perm n -> NoDup perm.
Proof. intros H. eapply Permutation_NoDup; [symmetry; exact H | apply seq_NoDup]. Qed.

Lemma is_perm_In perm n i : is_perm perm n -> (i < n)%nat -> In i perm.
Proof. intros H Hi. apply (Permutation_in _ (Permutation_sym H)). apply in_seq. lia. Qed.

Lemma take_seq {A} (d : A) l : take d (seq 0 (length l)) l = l.
Proof.
  apply (nth_ext _ _ d d); [rewrite take_length, seq_length; reflexivity|].
  intros k Hk. rewrite take_length, seq_length in Hk.
  rewrite nth_take by (rewrite seq_length; exact Hk). rewrite seq_nth by exact Hk. reflexivity.
Qed.

Lemma take_perm {A} (d : A) perm l : is_perm perm (length l) -> Permutation (take d perm l) l.
Proof.
  intros H. rewrite <- (take_seq d l) at 2. unfold take. apply Permutation_map. exact H.
Qed.

Lemma index_of_nth perm i : In i perm -> nth (index_of i perm) perm 0%nat = i /\ (index_of i perm < length perm)%nat.
Proof.
  induction perm as [|x t IH]; intros Hin; [contradiction|]. cbn [index_of].
  destruct (Nat.eqb x i) eqn:E.
  - apply Nat.eqb_eq in E. subst. cbn. split; [reflexivity | lia].
  - destruct Hin as [->|Hin]; [rewrite Nat.eqb_refl in E; discriminate|].
    destruct (IH Hin) as [H1 H2]. cbn. split; [exact H1 | lia].
Qed.

Lemma index_of_nth_NoDup perm k : NoDup perm -> (k < length perm)%nat -> index_of (nth k perm 0%nat) perm = k.
Proof.
  revert k. induction perm as [|x t IH]; intros k ND Hk; [cbn in Hk; lia|].
  inversion ND as [|? ? Hnx NDt]; subst. destruct k as [|k]; cbn [nth index_of].
  - rewrite Nat.eqb_refl. reflexivity.
  - cbn in Hk. destruct (Nat.eqb x (nth k t 0%nat)) eqn:E.
    + apply Nat.eqb_eq in E. exfalso. apply Hnx. rewrite E. apply nth_In. lia.
    + f_equal. apply IH; [exact NDt | lia].
Qed.

Lemma inv_length perm : length (inv perm) = length perm.
Proof. unfold inv. rewrite map_length, seq_length. reflexivity. Qed.

Lemma nth_inv perm i : (i < length perm)%nat -> nth i (inv perm) 0%nat = index_of i perm.
Proof.
  intros Hi. unfold inv.
  rewrite (nth_indep _ 0%nat (index_of 0%nat perm)) by (rewrite map_length, seq_length; exact Hi).
  change (index_of 0%nat perm) with ((fun j => index_of j perm) 0%nat).
  rewrite map_nth. rewrite seq_nth by exact Hi. reflexivity.
Qed.

(* l[perm][inv perm] = l  and  l[inv perm][perm] = l *)
Lemma take_inv_take {A} (d : A) perm l : is_perm perm (length l) ->
  take d (inv perm) (take d perm l) = l.
Proof.
  intros H. pose proof (is_perm_length _ _ H) as HL.
  apply (nth_ext _ _ d d); [rewrite take_length, inv_length; exact HL|].
  intros i Hi. rewrite take_length, inv_length in Hi.
  rewrite nth_take by (rewrite inv_length; exact Hi). rewrite nth_inv by exact Hi.
  assert (Hil : (i < length l)%nat) by lia.
  destruct (index_of_nth perm i (is_perm_In perm (length l) i H Hil)) as [E Hlt].
  rewrite nth_take by exact Hlt. rewrite E. reflexivity.
Qed.

Lemma take_take_inv {A} (d : A) perm l : is_perm perm (length l) ->
  take d perm (take d (inv perm) l) = l.
Proof.
  intros H. pose proof (is_perm_length _ _ H) as HL.
  apply (nth_ext _ _ d d); [rewrite take_length; exact HL|].
  intros k Hk. rewrite take_length in Hk.
  rewrite nth_take by exact Hk.
  pose proof (is_perm_lt _ _ k H Hk) as Hlt.
  rewrite nth_take by (rewrite inv_length; lia). rewrite nth_inv by lia.
  rewrite index_of_nth_NoDup by (eauto using is_perm_NoDup). reflexivity.
Qed.

(* l[p1][p2] = l[p1[p2]] *)
Lemma take_take {A} (d : A) p1 p2 l : (forall k, In k p2 -> (k < length p1)%nat) ->
  take d p2 (take d p1 l) = take d (takeN p2 p1) l.
Proof.
  intros H. unfold takeN, take. rewrite map_map. apply map_ext_in. intros k Hk.
  change (map (fun k0 => nth k0 l d) p1) with (take d p1 l). apply nth_take. apply H. exact Hk.
Qed.

(* ---- digits, positivity and size under take ------------------------------------------------- *)
Lemma digits_ok_pointwise idx dims : digits_ok idx dims <->
  (length idx = length dims /\ forall k, (k < length dims)%nat -> 0 <= nth k idx 0 < nth k dims 0).
Proof.
  revert dims. induction idx as [|x xs IH]; intros [|d ds]; cbn [digits_ok length].
  - split; [intros _; split; [reflexivity | intros k Hk; inversion Hk] | intros _; exact I].
  - split; [tauto | intros [H _]; discriminate].
  - split; [tauto | intros [H _]; discriminate].
  - rewrite IH. split.
    + intros [Hx [Hl Hk]]. split; [lia|]. intros [|k] Hlt; cbn [nth]; [exact Hx | apply Hk; lia].
    + intros [Hl Hk]. split; [apply (Hk 0%nat); lia|]. split; [lia|].
      intros k Hlt. apply (Hk (S k)). lia.
Qed.

Lemma digits_ok_take perm idx dims : is_perm perm (length dims) -> digits_ok idx dims ->
  digits_ok (takeZ perm idx) (takeZ perm dims).
Proof.
  intros H Hd. apply digits_ok_pointwise in Hd. destruct Hd as [Hl Hk].
  apply digits_ok_pointwise. unfold takeZ. rewrite !take_length. split; [reflexivity|].
  intros k Hlt. rewrite !nth_take by exact Hlt. apply Hk. apply (is_perm_lt _ _ k H Hlt).
Qed.

Lemma pos_dims_take perm dims : is_perm perm (length dims) -> pos_dims dims -> pos_dims (takeZ perm dims).
Proof.
  intros H Hp. unfold pos_dims. eapply Permutation_Forall; [symmetry; apply take_perm; exact H | exact Hp].
Qed.

Lemma prodZ_perm l l' : Permutation l l' -> prodZ l = prodZ l'.
Proof.
  induction 1 as [|x l l' HP IH|x y l|l l' l'' HP1 IH1 HP2 IH2].
  - reflexivity.
  - rewrite !prodZ_cons, IH. reflexivity.
  - rewrite !prodZ_cons. ring.
  - congruence.
Qed.

Lemma prodZ_take perm dims : is_perm perm (length dims) -> prodZ (takeZ perm dims) = prodZ dims.
Proof. intros H. apply prodZ_perm. apply take_perm. exact H. Qed.

Lemma unravel_length dims r : length (unravel dims r) = length dims.
Proof. revert r. induction dims as [|d ds IH]; intros r; cbn; [reflexivity | f_equal; apply IH]. Qed.

(* ---- the theorems ---------------------------------------------------------------------------- *)
(* the sparse route's coordinate pairs are (permute_index o, o) *)
Theorem sparse_pairs dims perm b : pos_dims dims -> is_perm perm (length dims) -> digits_ok b dims ->
  sparse_oind dims b = ravel dims b /\
  sparse_nind dims perm b = permute_index dims perm (sparse_oind dims b).
Proof.
  intros Hp H Hd. pose proof (digits_ok_length _ _ Hd) as Hl.
  unfold sparse_oind, sparse_nind, permute_index.
  rewrite (dot_acc_strides_ravel dims b Hp Hl). split; [reflexivity|].
  rewrite (unravel_ravel b dims Hd Hp).
  apply dot_acc_strides_ravel; [apply pos_dims_take; assumption|].
  unfold takeZ. rewrite !take_length. reflexivity.
Qed.

Theorem permute_index_in_range dims perm o : pos_dims dims -> is_perm perm (length dims) ->
  0 <= o < prodZ dims ->
  0 <= permute_index dims perm o < prodZ dims /\ prodZ (takeZ perm dims) = prodZ dims.
Proof.
  intros Hp H Ho. destruct (ravel_unravel dims Hp o Ho) as [_ Hd].
  split; [|apply prodZ_take; exact H].
  rewrite <- (prodZ_take perm dims H). unfold permute_index.
  apply ravel_bound; [apply digits_ok_take; assumption | apply pos_dims_take; assumption].
Qed.

(* permuting back with the inverse permutation (in the permuted space) undoes the move *)
Theorem permute_index_left_inverse dims perm o : pos_dims dims -> is_perm perm (length dims) ->
  0 <= o < prodZ dims ->
  permute_index (takeZ perm dims) (inv perm) (permute_index dims perm o) = o.
Proof.
  intros Hp H Ho. destruct (ravel_unravel dims Hp o Ho) as [Er Hd].
  unfold permute_index at 1. unfold permute_index.
  rewrite (unravel_ravel _ _ (digits_ok_take perm _ _ H Hd) (pos_dims_take perm dims H Hp)).
  unfold takeZ. rewrite (take_inv_take 0 perm dims H).
  rewrite (take_inv_take 0 perm (unravel dims o)) by (rewrite unravel_length; exact H).
  exact Er.
Qed.

Theorem permute_index_right_inverse dims perm m : pos_dims dims -> is_perm perm (length dims) ->
  0 <= m < prodZ (takeZ perm dims) ->
  permute_index dims perm (permute_index (takeZ perm dims) (inv perm) m) = m.
Proof.
  intros Hp H Hm.
  pose proof (pos_dims_take perm dims H Hp) as Hp'.
  destruct (ravel_unravel (takeZ perm dims) Hp' m Hm) as [Er Hd].
  set (c := unravel (takeZ perm dims) m) in *.
  assert (Hlc : length c = length perm).
  { apply digits_ok_length in Hd. rewrite Hd. unfold takeZ. apply take_length. }
  pose proof (is_perm_length _ _ H) as HL.
  unfold permute_index at 2. fold c. unfold takeZ at 1 2. rewrite (take_inv_take 0 perm dims H).
  (* the digits of the intermediate index are c[inv perm], valid for dims *)
  assert (Hd2 : digits_ok (takeZ (inv perm) c) dims).
  { apply digits_ok_pointwise. unfold takeZ. rewrite take_length, inv_length. split; [exact HL|].
    intros i Hi. rewrite nth_take by (rewrite inv_length; lia). rewrite nth_inv by lia.
    destruct (index_of_nth perm i (is_perm_In _ _ _ H Hi)) as [E Hlt].
    apply digits_ok_pointwise in Hd. destruct Hd as [_ Hk].
    unfold takeZ in Hk. rewrite take_length in Hk. specialize (Hk _ Hlt).
    rewrite nth_take in Hk by exact Hlt. rewrite E in Hk. exact Hk. }
  unfold permute_index. rewrite (unravel_ravel _ _ Hd2 Hp).
  unfold takeZ. rewrite (take_take_inv 0 perm c) by (rewrite Hlc, HL; exact H).
  exact Er.
Qed.

(* hence injective: two different entries never land on the same position *)
Theorem permute_index_injective dims perm o o' : pos_dims dims -> is_perm perm (length dims) ->
  0 <= o < prodZ dims -> 0 <= o' < prodZ dims ->
  permute_index dims perm o = permute_index dims perm o' -> o = o'.
Proof.
  intros Hp H Ho Ho' E.
  rewrite <- (permute_index_left_inverse dims perm o Hp H Ho).
  rewrite <- (permute_index_left_inverse dims perm o' Hp H Ho'). rewrite E. reflexivity.
Qed.

Theorem permute_index_identity dims o : pos_dims dims -> 0 <= o < prodZ dims ->
  permute_index dims (seq 0 (length dims)) o = o.
Proof.
  intros Hp Ho. unfold permute_index, takeZ. rewrite take_seq.
  rewrite <- (unravel_length dims o) at 1. rewrite take_seq.
  apply (ravel_unravel dims Hp o Ho).
Qed.

(* permute(permute(p, dims, p1), dims[p1], p2) = permute(p, dims, p1[p2]) *)
Theorem permute_index_compose dims p1 p2 o : pos_dims dims ->
  is_perm p1 (length dims) -> is_perm p2 (length dims) -> 0 <= o < prodZ dims ->
  permute_index (takeZ p1 dims) p2 (permute_index dims p1 o) = permute_index dims (takeN p2 p1) o.
Proof.
  intros Hp H1 H2 Ho. destruct (ravel_unravel dims Hp o Ho) as [_ Hd].
  unfold permute_index.
  rewrite (unravel_ravel _ _ (digits_ok_take p1 _ _ H1 Hd) (pos_dims_take p1 dims H1 Hp)).
  unfold takeZ.
  assert (Hlt : forall k, In k p2 -> (k < length p1)%nat).
  { intros k Hk. apply (Permutation_in _ H2) in Hk. apply in_seq in Hk.
    rewrite (is_perm_length _ _ H1). lia. }
  rewrite !take_take by exact Hlt. reflexivity.
Qed.

(* C15 proofs. *)
From Coq Require Import ZArith List Bool Lia ZifyBool.
From QV Require Import C15.Model.
Import ListNotations.
Open Scope Z_scope.

Definition pos (dims : list Z) : Prop := Forall (fun d => 0 < d) dims.

Lemma prodZ_cons d l : prodZ (d :: l) = d * prodZ l.
Proof. reflexivity. Qed.

Lemma prodZ_pos l : pos l -> 0 < prodZ l.
Proof. induction 1 as [|d l Hd Hl IH]; [cbn; lia|]. rewrite prodZ_cons. nia. Qed.

Lemma prodZ_nil : prodZ [] = 1.
Proof. reflexivity. Qed.

Lemma prodZ_app a b : prodZ (a ++ b) = prodZ a * prodZ b.
Proof. induction a as [|x a IH]; [cbn [app]; rewrite prodZ_nil; lia|]. cbn [app]. rewrite !prodZ_cons, IH. lia. Qed.

(* ------------------------------------------------------------ ownership *)
Lemma lead_strides_cons k s t : lead_strides (S k) (s :: t) = prodZ t :: lead_strides k t.
Proof. reflexivity. Qed.

Lemma matching_length a b : (length (matching a b) <= length a)%nat.
Proof.
  revert b. induction a as [|x a IH]; intros [|y b]; cbn; try lia.
  destruct (x =? y); cbn; [specialize (IH b); lia | lia].
Qed.

Lemma dynal_length x dims : length (dynal x dims) = length dims.
Proof. revert x. induction dims as [|s t IH]; intros x; cbn; [reflexivity|]. rewrite IH. reflexivity. Qed.

Lemma dot1_cons a b m x bs : dot1 ((a, b) :: m) (x :: bs) = a * x + dot1 m bs.
Proof. reflexivity. Qed.
Lemma dot2_cons a b m x bs : dot2 ((a, b) :: m) (x :: bs) = b * x + dot2 m bs.
Proof. reflexivity. Qed.
Lemma slice_rows_cons a b m s t : slice_rows ((a, b) :: m) (s :: t) = (b - a + 1) * slice_rows m t.
Proof. reflexivity. Qed.

Definition got1 (m : list (Z * Z)) (bs : list Z) : Z := dot1 m bs.
Definition got2 (m : list (Z * Z)) (bs : list Z) : Z := dot2 m bs + last bs 0.

Lemma own_ind dims : pos dims -> forall ri rf, 0 <= ri -> ri < rf -> rf <= prodZ dims ->
  let m := matching (dynal ri dims) (dynal (rf - 1) dims) in
  let bs := lead_strides (length m) dims in
  (m = [] -> dims = []) /\
  (m <> [] -> got1 m bs <= ri /\ rf <= got2 m bs /\ slice_rows m dims = got2 m bs - got1 m bs
              /\ length bs = length m).
Proof.
  induction 1 as [|s t Hs Ht IH]; intros ri rf H0 Hlt Hle; cbn zeta.
  - cbn. split; [reflexivity | intros C; contradiction].
  - rewrite prodZ_cons in Hle. pose proof (prodZ_pos t Ht) as HP.
    cbn [dynal]. set (P := prodZ t) in *. set (d1 := ri / P). set (d2 := (rf - 1) / P).
    pose proof (Z.div_mod ri P ltac:(lia)) as E1. pose proof (Z.mod_pos_bound ri P HP) as B1.
    pose proof (Z.div_mod (rf - 1) P ltac:(lia)) as E2. pose proof (Z.mod_pos_bound (rf - 1) P HP) as B2.
    fold d1 in E1. fold d2 in E2.
    cbn [matching]. destruct (d1 =? d2) eqn:Ed.
    + assert (d1 = d2) by lia. split; [discriminate|]. intros _.
      specialize (IH (ri - d1 * P) (rf - d1 * P) ltac:(lia) ltac:(lia) ltac:(nia)).
      cbn zeta in IH. replace (rf - d1 * P - 1) with (rf - 1 - d2 * P) in IH by lia.
      set (m' := matching (dynal (ri - d1 * P) t) (dynal (rf - 1 - d2 * P) t)) in *.
      cbn [length]. rewrite lead_strides_cons. fold P.
      destruct IH as [Hnil Hcons]. unfold got1, got2 in *.
      destruct m' as [|p m''] eqn:Em.
      * specialize (Hnil eq_refl). subst t. unfold P in *. rewrite prodZ_nil in *. cbn [dot1 dot2 slice_rows lead_strides last length]. rewrite prodZ_nil. repeat split; try lia.
      * destruct (Hcons ltac:(discriminate)) as (G1 & G2 & SR & L).
        set (bs' := lead_strides (length (p :: m'')) t) in *.
        assert (bs' <> []) by (intros C; rewrite C in L; cbn in L; lia).
        rewrite dot1_cons, dot2_cons, slice_rows_cons.
        replace (last (P :: bs') 0) with (last bs' 0) by (destruct bs'; [contradiction | reflexivity]).
        replace (d2 - d1 + 1) with 1 by lia. cbn [length] in *.
        repeat split; try lia.
    + split; [discriminate|]. intros _. unfold got1, got2. cbn [length].
      rewrite lead_strides_cons. fold P. cbn [lead_strides dot1 dot2 slice_rows last length].
      assert (d1 < d2). { assert (d1 <= d2) by (apply Z.div_le_mono; lia). lia. }
      repeat split; try nia.
Qed.

Theorem ownership_sound dims ri rf : pos dims -> 0 <= ri -> ri < rf -> rf <= prodZ dims ->
  exists p, ownership dims ri rf = Some p
    /\ op_ri_got p <= ri /\ rf <= op_rf_got p
    /\ op_nrows p = op_rf_got p - op_ri_got p
    /\ op_ri_got p + op_lo p = ri /\ op_ri_got p + op_hi p = rf
    /\ 0 <= op_lo p /\ op_lo p < op_hi p /\ op_hi p <= op_nrows p.
Proof.
  intros Hp H0 Hlt Hle. unfold ownership.
  replace (negb ((0 <=? ri) && (ri <? prodZ dims) && (0 <? rf) && (rf <=? prodZ dims))) with false by lia.
  destruct (own_ind dims Hp ri rf H0 Hlt Hle) as [Hnil Hcons]. cbn zeta in Hnil, Hcons.
  set (m := matching (dynal ri dims) (dynal (rf - 1) dims)) in *.
  destruct m as [|q m'] eqn:Em.
  - specialize (Hnil eq_refl). subst dims. cbn in *. eexists. split; [reflexivity|]. cbn.
    assert (ri = 0) by lia. assert (rf = 1) by lia. subst. cbn. lia.
  - destruct (Hcons ltac:(discriminate)) as (G1 & G2 & SR & L). unfold got1, got2 in *.
    eexists. split; [reflexivity|]. cbn [op_ri_got op_rf_got op_nrows op_lo op_hi op_di op_df].
    rewrite SR.
    destruct (rf - (dot2 (q :: m') (lead_strides (length (q :: m')) dims)
                    + last (lead_strides (length (q :: m')) dims) 0) =? 0) eqn:E; lia.
Qed.

Theorem ownership_rejects dims ri rf : ~ (0 <= ri < prodZ dims /\ 0 < rf <= prodZ dims) ->
  ownership dims ri rf = None.
Proof.
  intros H. unfold ownership.
  replace (negb ((0 <=? ri) && (ri <? prodZ dims) && (0 <? rf) && (rf <=? prodZ dims))) with true by lia.
  reflexivity.
Qed.

(* rows of the sliced product are a contiguous block of the full product:
   all matched pairs but the last are equal, so the leading digits are fixed *)
Lemma matching_shape a b : Forall (fun p => fst p = snd p) (removelast (matching a b)).
Proof.
  revert b. induction a as [|x a IH]; intros [|y b]; cbn [matching]; try constructor.
  destruct (x =? y) eqn:E; [|cbn; constructor].
  specialize (IH b). destruct (matching a b) as [|p m] eqn:Em; [cbn; constructor|].
  cbn [removelast]. constructor; [cbn; lia | exact IH].
Qed.

(* ---------------------------------------------------------------- ikron *)
Definition blocks_size (szs : list Z) (bl : list block) : Z := prodZ (map (block_size szs) bl).

Lemma blocks_size_app szs a b : blocks_size szs (a ++ b) = blocks_size szs a * blocks_size szs b.
Proof. unfold blocks_size. rewrite map_app. apply prodZ_app. Qed.

Lemma blocks_size_cons szs b r : blocks_size szs (b :: r) = block_size szs b * blocks_size szs r.
Proof. reflexivity. Qed.

Lemma pre_size szs c : 1 <= c -> blocks_size szs (if c >? 1 then [BId c] else []) = c.
Proof. intros H. destruct (c >? 1) eqn:E; unfold blocks_size; cbn; lia. Qed.

Theorem ikron_fill dims : pos dims -> forall ind inds szs cid cov k cur bl ov,
  1 <= cid -> 1 <= cov ->
  ikron_loop ind dims inds szs cid cov k cur = Some (bl, ov) ->
  (cov > 1 -> nth (Nat.pred k) szs 0 = cur) ->
  blocks_size szs bl * ov = cid * cov * prodZ dims /\ 1 <= ov.
Proof.
  induction 1 as [|dim dims Hd Hds IH]; intros ind inds szs cid cov k cur bl ov Hci Hco Hrun Hcur.
  - cbn in Hrun. injection Hrun as <- <-. rewrite pre_size by lia. cbn. lia.
  - cbn [ikron_loop] in Hrun. rewrite prodZ_cons.
    destruct (existsb (Z.eqb ind) inds) eqn:Ein.
    + destruct (cov =? 1) eqn:Ef.
      * (* fetch a new operator *)
        destruct (nth_error szs k) as [sz|] eqn:En; [|discriminate].
        assert (Hnth : nth k szs 0 = sz) by (apply nth_error_nth; exact En).
        replace (dim =? -1) with false in Hrun by lia. rewrite orb_false_r in Hrun.
        destruct (cov * dim =? sz) eqn:Efit.
        -- destruct (ikron_loop (ind + 1) dims inds szs 1 1 (S k) sz) as [[r ov']|] eqn:Er; [|discriminate].
           injection Hrun as <- <-.
           destruct (IH (ind + 1) inds szs 1 1 (S k) sz r ov' ltac:(lia) ltac:(lia) Er ltac:(lia)) as [E O].
           rewrite blocks_size_app, pre_size by lia.
           rewrite blocks_size_cons. cbn [block_size Nat.pred]. rewrite Hnth. split; [nia | exact O].
        -- destruct (ikron_loop (ind + 1) dims inds szs 1 (cov * dim) (S k) sz) as [[r ov']|] eqn:Er; [|discriminate].
           injection Hrun as <- <-.
           destruct (IH (ind + 1) inds szs 1 (cov * dim) (S k) sz r ov' ltac:(lia) ltac:(nia) Er (fun _ => Hnth)) as [E O].
           rewrite blocks_size_app, pre_size by lia. split; [nia | exact O].
      * (* continue overlaying the current operator *)
        replace (dim =? -1) with false in Hrun by lia. rewrite orb_false_r in Hrun.
        specialize (Hcur ltac:(lia)).
        destruct (cov * dim =? cur) eqn:Efit.
        -- destruct (ikron_loop (ind + 1) dims inds szs 1 1 k cur) as [[r ov']|] eqn:Er; [|discriminate].
           injection Hrun as <- <-.
           destruct (IH (ind + 1) inds szs 1 1 k cur r ov' ltac:(lia) ltac:(lia) Er ltac:(lia)) as [E O].
           rewrite blocks_size_app, pre_size by lia.
           rewrite blocks_size_cons. cbn [block_size]. rewrite Hcur. split; [nia | exact O].
        -- destruct (ikron_loop (ind + 1) dims inds szs 1 (cov * dim) k cur) as [[r ov']|] eqn:Er; [|discriminate].
           injection Hrun as <- <-.
           destruct (IH (ind + 1) inds szs 1 (cov * dim) k cur r ov' ltac:(lia) ltac:(nia) Er (fun _ => Hcur)) as [E O].
           rewrite blocks_size_app, pre_size by lia. split; [nia | exact O].
    + destruct (cov >? 1) eqn:Eov.
      * destruct (IH (ind + 1) inds szs cid (cov * dim) k cur bl ov Hci ltac:(nia) Hrun (fun _ => Hcur ltac:(lia))) as [E O]. split; [nia | exact O].
      * assert (cov = 1) by lia. subst cov.
        destruct (IH (ind + 1) inds szs (cid * dim) 1 k cur bl ov ltac:(nia) ltac:(lia) Hrun ltac:(lia)) as [E O]. split; [nia | exact O].
Qed.

Corollary ikron_blocks_fill dims inds szs bl : pos dims ->
  ikron_blocks dims inds szs = Some (bl, 1) -> blocks_size szs bl = prodZ dims.
Proof.
  intros Hp H. unfold ikron_blocks in H.
  destruct (ikron_fill dims Hp 0 inds szs 1 1 O 0 bl 1 ltac:(lia) ltac:(lia) H ltac:(lia)) as [E _]. lia.
Qed.

(* ----------------------------------------------------------- dim_compress *)
Definition pairs_size (l : list (Z * Z)) : Z := prodZ (map (fun p => Z.max 1 (fst p)) l).

Lemma pairs_size_app a b : pairs_size (a ++ b) = pairs_size a * pairs_size b.
Proof. unfold pairs_size. rewrite map_app. apply prodZ_app. Qed.

Lemma pairs_pre c f : 1 <= c -> pairs_size (if c >? 1 then [(c, f)] else []) = c.
Proof.
  intros H. destruct (c >? 1) eqn:E; unfold pairs_size; cbn [map fst]; rewrite ?prodZ_cons, ?prodZ_nil; lia.
Qed.

Lemma compress_size dims : pos dims -> forall i inds bid bop, 1 <= bid -> 1 <= bop ->
  (bid = 1 \/ bop = 1) ->
  pairs_size (compress_loop i dims inds bid bop) = bid * bop * prodZ dims.
Proof.
  induction 1 as [|dim dims Hd Hds IH]; intros i inds bid bop Hbi Hbo Hone.
  - cbn [compress_loop]. rewrite prodZ_nil. unfold pairs_size.
    destruct (bop >? 1) eqn:E1; [cbn [map fst]; rewrite prodZ_cons, prodZ_nil; lia|].
    destruct (bid >? 1) eqn:E2; cbn [map fst]; rewrite ?prodZ_cons, ?prodZ_nil; lia.
  - cbn [compress_loop]. rewrite prodZ_cons. destruct (existsb (Z.eqb i) inds).
    + rewrite pairs_size_app, pairs_pre by lia. rewrite IH by (lia || nia). nia.
    + rewrite pairs_size_app, pairs_pre by lia. rewrite IH by (lia || nia). nia.
Qed.

Theorem dim_compress_size dims inds : pos dims -> pairs_size (dim_compress dims inds) = prodZ dims.
Proof. intros H. unfold dim_compress. rewrite compress_size by (assumption || lia). lia. Qed.

(* ------------------------------------------------------ partial-trace kernels *)
Theorem lose_row_is_ravel a e b i t : 0 < b -> 0 <= i ->
  lose_row e b i t = ravel3 a e b (i / b) t (i mod b).
Proof. intros Hb Hi. unfold lose_row, ravel3. ring. Qed.

Theorem lose_slice_len e b i : 0 < b -> 0 < e ->
  (* p[i_i : i_f : b] has exactly e entries: t = 0 .. e-1 *)
  forall t, 0 <= t -> (lose_row e b i t < lose_stop e b i <-> t < e).
Proof. intros Hb He t Ht. unfold lose_row, lose_stop. nia. Qed.

Theorem keep_row_is_ravel a s b i k y : keep_row s b i k y = ravel3 a s b k i y.
Proof. unfold keep_row, ravel3. ring. Qed.

Theorem ravel3_bijective d1 d2 d3 x y z x' y' z' :
  0 <= y < d2 -> 0 <= z < d3 -> 0 <= y' < d2 -> 0 <= z' < d3 ->
  ravel3 d1 d2 d3 x y z = ravel3 d1 d2 d3 x' y' z' -> x = x' /\ y = y' /\ z = z'.
Proof. unfold ravel3. intros. assert (x * d2 + y = x' * d2 + y') by nia. assert (x = x') by nia. subst. lia. Qed.

(* ------------------------------------------------------------ _dim_map_nd *)
Lemma nd_strides_loop_spec l : forall post y,
  nd_strides_loop l (row_major (y :: post)) = row_major (y :: rev l ++ post).
Proof.
  induction l as [|e l IH]; intros post y; [reflexivity|].
  cbn [nd_strides_loop rev]. rewrite <- app_assoc. cbn [app].
  change (row_major (y :: post)) with (prodZ post :: row_major post). cbn [hd].
  change (e * prodZ post :: prodZ post :: row_major post) with (row_major (y :: e :: post)).
  apply IH.
Qed.

Theorem nd_strides_row_major d t : nd_strides (d :: t) = row_major (d :: t).
Proof.
  unfold nd_strides. cbn [tl]. change [1] with (row_major [d]).
  rewrite nd_strides_loop_spec. rewrite rev_involutive, app_nil_r. reflexivity.
Qed.

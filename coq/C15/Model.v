(* C15 model: the index bookkeeping of quimb/core.py's kron (row ownership),
   ikron (block emitter), dim_compress, dim_map, partial-trace kernels, and the
   entry-level specifications of kron / embedding / partial trace.
   Hand-written; tied to the implementation by correspondence (harness/c15.py). *)
From Coq Require Import ZArith List Bool.
Import ListNotations.
Open Scope Z_scope.

Definition prodZ (l : list Z) : Z := fold_right Z.mul 1 l.

(* dynal(x, bases): for b in [prod(bases[i+1:])]: div = x // b; yield div; x -= div*b *)
Fixpoint dynal (x : Z) (bases : list Z) : list Z :=
  match bases with
  | [] => []
  | _ :: t => let b := prodZ t in let d := x / b in d :: dynal (x - d * b) t
  end.

(* gen_matching_dynal: equal leading pairs, plus the first differing pair *)
Fixpoint matching (a b : list Z) : list (Z * Z) :=
  match a, b with
  | x :: a', y :: b' => if x =? y then (x, y) :: matching a' b' else [(x, y)]
  | _, _ => []
  end.

(* mtchn_bs = [prod(dims[i+1:]) for i in range(len(matching))] *)
Fixpoint lead_strides (k : nat) (dims : list Z) : list Z :=
  match k, dims with
  | S k', _ :: t => prodZ t :: lead_strides k' t
  | _, _ => []
  end.

Fixpoint dot1 (m : list (Z * Z)) (bs : list Z) : Z :=
  match m, bs with (d, _) :: m', b :: bs' => d * b + dot1 m' bs' | _, _ => 0 end.
Fixpoint dot2 (m : list (Z * Z)) (bs : list Z) : Z :=
  match m, bs with (_, d) :: m', b :: bs' => d * b + dot2 m' bs' | _, _ => 0 end.

Record own_plan := {
  op_slices : list (Z * Z);   (* leading operators are sliced to rows d1..d2 inclusive *)
  op_ri_got : Z; op_rf_got : Z;
  op_di : Z; op_df : Z;
  op_nrows : Z;               (* rows of the kron of the sliced operators *)
  op_lo : Z; op_hi : Z        (* X[di : (None if df == 0 else df)] keeps rows [lo, hi) of those *)
}.

Fixpoint slice_rows (m : list (Z * Z)) (dims : list Z) : Z :=
  match m, dims with
  | (d1, d2) :: m', _ :: t => (d2 - d1 + 1) * slice_rows m' t
  | _, _ => prodZ dims
  end.

(* kron(..., ownership=(ri, rf)) bookkeeping; None = the ValueError branch *)
Definition ownership (dims : list Z) (ri rf : Z) : option own_plan :=
  let D := prodZ dims in
  if negb ((0 <=? ri) && (ri <? D) && (0 <? rf) && (rf <=? D)) then None else
  let m := matching (dynal ri dims) (dynal (rf - 1) dims) in
  let bs := lead_strides (length m) dims in
  let '(ri_got, rf_got) :=
    match m with
    | [] => (0, D)
    | _ => (dot1 m bs, dot2 m bs + last bs 0)
    end in
  let di := ri - ri_got in
  let df := rf - rf_got in
  let n := slice_rows m dims in
  Some {| op_slices := m; op_ri_got := ri_got; op_rf_got := rf_got; op_di := di; op_df := df;
          op_nrows := n; op_lo := di; op_hi := if df =? 0 then n else n + df |}.

(* ---- ikron block emitter ------------------------------------------------- *)
(* gen_ops of ikron: dims (may contain -1 = autoplace), set of target indices,
   operator sizes in the order they are consumed (sorted by index, cycled).
   Emits identity blocks and operator blocks in tensor order. *)
Inductive block := BId (sz : Z) | BOp (k : nat).

Fixpoint ikron_loop (ind : Z) (dims : list Z) (inds : list Z) (szs : list Z)
    (cff_id cff_ov : Z) (k : nat) (cur : Z) : option (list block * Z) :=
  match dims with
  | [] => Some ((if cff_id >? 1 then [BId cff_id] else []), cff_ov)
  | dim :: dims' =>
      if existsb (Z.eqb ind) inds then
        let pre := if cff_id >? 1 then [BId cff_id] else [] in
        (* if cff_ov == 1: op = next(ops) *)
        let fetch := cff_ov =? 1 in
        match (if fetch then nth_error szs k else Some cur) with
        | None => None   (* StopIteration: no operator left *)
        | Some sz_op =>
            let k' := if fetch then S k else k in
            if (cff_ov * dim =? sz_op) || (dim =? -1) then
              match ikron_loop (ind + 1) dims' inds szs 1 1 k' sz_op with
              | None => None
              | Some (r, ov) => Some (pre ++ BOp (Nat.pred k') :: r, ov)
              end
            else
              match ikron_loop (ind + 1) dims' inds szs 1 (cff_ov * dim) k' sz_op with
              | None => None
              | Some (r, ov) => Some (pre ++ r, ov)
              end
        end
      else if cff_ov >? 1 then ikron_loop (ind + 1) dims' inds szs cff_id (cff_ov * dim) k cur
      else ikron_loop (ind + 1) dims' inds szs (cff_id * dim) cff_ov k cur
  end.

(* (blocks, dangling overlay size): a result with dangling <> 1 means an operator
   was fetched but never fitted - the call is outside ikron's domain *)
Definition ikron_blocks (dims inds szs : list Z) : option (list block * Z) :=
  ikron_loop 0 dims inds szs 1 1 O 0.

Definition block_size (szs : list Z) (b : block) : Z :=
  match b with BId s => s | BOp k => nth k szs 0 end.

(* ---- dim_compress ---------------------------------------------------------- *)
(* _dim_compressor without autoplace (-1) entries: merge adjacent marked /
   unmarked dims; yields (size, flag) pairs. *)
Fixpoint compress_loop (i : Z) (dims inds : list Z) (bid bop : Z) : list (Z * Z) :=
  match dims with
  | [] => if bop >? 1 then [(bop, 1)] else if bid >? 1 then [(bid, 0)] else []
  | dim :: dims' =>
      if existsb (Z.eqb i) inds then
        (if bid >? 1 then [(bid, 0)] else []) ++ compress_loop (i + 1) dims' inds 1 (bop * dim)
      else
        (if bop >? 1 then [(bop, 1)] else []) ++ compress_loop (i + 1) dims' inds (bid * dim) 1
  end.
Definition dim_compress (dims inds : list Z) : list (Z * Z) := compress_loop 0 dims inds 1 1.

(* ---- partial-trace kernels: index arithmetic ------------------------------- *)
(* _trace_lose: dims ~ [a; e; b]; reduced row i <-> full rows i_i + t*b, t < e *)
Definition lose_row (e b i t : Z) : Z := e * b * (i / b) + (i mod b) + t * b.
Definition lose_stop (e b i : Z) : Z := e * b * (i / b) + (i mod b) + (e - 1) * b + 1.
(* _trace_keep: dims ~ [a; s; b]; reduced row i <-> full rows b*i + s*b*k + y, k < a, y < b *)
Definition keep_row (s b i k y : Z) : Z := b * i + s * b * k + y.
Definition ravel3 (d1 d2 d3 x y z : Z) : Z := (x * d2 + y) * d3 + z.

(* ---- _dim_map_nd strides ----------------------------------------------------
     strides = [1]
     for sz in szs[-1:0:-1]: strides.insert(0, sz * strides[0])                 *)
Fixpoint nd_strides_loop (rev_tail : list Z) (acc : list Z) : list Z :=
  match rev_tail with
  | [] => acc
  | sz :: t => nd_strides_loop t (sz * hd 1 acc :: acc)
  end.
Definition nd_strides (szs : list Z) : list Z := nd_strides_loop (rev (tl szs)) [1].

(* row-major strides: stride of axis i = product of the later axis lengths *)
Fixpoint row_major (szs : list Z) : list Z :=
  match szs with [] => [] | _ :: t => prodZ t :: row_major t end.

Fixpoint dotZ (a b : list Z) : Z :=
  match a, b with x :: a', y :: b' => x * y + dotZ a' b' | _, _ => 0 end.
(* flat index of a coordinate tuple as _dim_map_nd computes it *)
Definition nd_flat (szs coo : list Z) : Z := dotZ coo (nd_strides szs).

(* C17: soundness of the correspondence checker: an implementation output accepted by
   `valid_selection` satisfies the hypotheses of C17_selection_unique_up_to_ties, so its key
   multiset is the model's. *)
From Coq Require Import ZArith List Bool Lia ZifyBool QArith Permutation Sorted.
From QV Require Import C17.Model C17.SortProofs C17.KeyProofs C17.SelectProofs C17.Check.
Import ListNotations.
Open Scope Z_scope.

(* ------------------------------------------------------------ soundness of valid_selection *)
Lemma cz_eqb_eq a b : cz_eqb a b = true -> a = b.
Proof. destruct a, b; unfold cz_eqb; cbn. intros. f_equal; lia. Qed.

Lemma remove1_perm x l l' : remove1 x l = Some l' -> Permutation (x :: l') l.
Proof.
  revert l'. induction l as [|y t IH]; cbn; intros l'; [discriminate|].
  destruct (cz_eqb x y) eqn:E.
  - intros [= <-]. apply cz_eqb_eq in E. now subst.
  - destruct (remove1 x t) as [t'|]; [|discriminate]. intros [= <-].
    rewrite perm_swap. constructor. now apply IH.
Qed.

Lemma remove_all_perm out : forall a rest, remove_all out a = Some rest -> Permutation (out ++ rest) a.
Proof.
  induction out as [|x t IH]; cbn; intros a rest.
  - intros [= <-]. reflexivity.
  - destruct (remove1 x a) as [a'|] eqn:E; [|discriminate]. intros H.
    apply IH in H. apply remove1_perm in E. rewrite <- E. now constructor.
Qed.

Theorem valid_selection_sound r s k a out :
  valid_selection r s k a out = true ->
  exists rest, Permutation (out ++ rest) a
    /\ length out = length (select r s k a)
    /\ (forall x y, In x out -> In y rest -> by_key r s x y = true).
Proof.
  unfold valid_selection. destruct (remove_all out a) as [rest|] eqn:E; [|discriminate].
  intros H. apply andb_true_iff in H as [HL HB]. exists rest.
  split; [now apply remove_all_perm|]. split; [now apply Nat.eqb_eq|].
  intros x y Hx Hy. rewrite forallb_forall in HB. specialize (HB x Hx).
  rewrite forallb_forall in HB. now apply HB.
Qed.

(* an accepted implementation output has exactly the model's multiset of keys *)
Theorem accepted_output_has_model_keys r s k a out :
  valid_selection r s k a out = true ->
  Permutation (map (int_key r s) out) (map (int_key r s) (select r s k a)).
Proof.
  intros H. destruct (valid_selection_sound _ _ _ _ _ H) as (rest & HP & HL & HB).
  eapply select_unique; eauto.
Qed.

(* the model's own output is always accepted *)
Example model_accepts_itself :
  valid_selection TM (3 # 2)%Q 3 (reals [0; 2; -1; 3; 1; -2]) (select TM (3 # 2)%Q 3 (reals [0; 2; -1; 3; 1; -2])) = true.
Proof. vm_compute. reflexivity. Qed.

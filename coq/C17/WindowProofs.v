(* C17: backend decision table, relative-window arithmetic, eigh_window. *)
From Coq Require Import ZArith List Bool Lia ZifyBool QArith Lqa Permutation Sorted.
From QV Require Import C17.Model C17.SortProofs C17.KeyProofs C17.SelectProofs.
Import ListNotations.
Open Scope Z_scope.

(* ------------------------------------------------------------ choose_backend *)
Theorem choose_backend_total d k ie al bl sl sp nnz :
  k <> 0 -> exists b, choose_backend d k ie al bl sl sp nnz = Ok b.
Proof.
  intros Hk. unfold choose_backend. destruct (k =? 0) eqn:E; [lia|].
  destruct (_ && _); [eauto|]. destruct (_ && _); [|eauto]. destruct (_ && _); eauto.
Qed.

Theorem choose_backend_raises_iff d k ie al bl sl sp nnz :
  choose_backend d k ie al bl sl sp nnz = Raises <-> k = 0.
Proof.
  unfold choose_backend. destruct (k =? 0) eqn:E; [split; [lia|reflexivity]|].
  split; [|lia]. destruct (_ && _); [discriminate|]. destruct (_ && _); [|discriminate].
  destruct (_ && _); discriminate.
Qed.

Theorem choose_backend_available d k ie al bl sl sp nnz b :
  choose_backend d k ie al bl sl sp nnz = Ok b ->
  (sl = false -> b = NUMPY \/ b = SCIPY)
  /\ (al = true \/ bl = true -> b <> NUMPY)
  /\ (b = SLEPC \/ b = SLEPC_NOMPI -> sl = true /\ bl = false)
  /\ (b = SLEPC -> sp = true /\ 10000 < nnz)
  /\ b <> PRIMME /\ b <> LOBPCG.
Proof.
  unfold choose_backend. destruct (k =? 0); [discriminate|].
  destruct (small_d_big_k d k ie), al, bl, sl, sp, (10000 <? nnz) eqn:En; cbn; intros [= <-];
    repeat split; try (intros [|]; discriminate); try discriminate; try (intros; discriminate);
    try (intros; lia); auto;
    try match goal with H : _ \/ _ |- _ => destruct H; discriminate end;
    try match goal with H : _ = _ |- _ => discriminate H end; try lia.
Qed.

Theorem choose_backend_numpy_iff d k ie al bl sl sp nnz : 0 < k ->
  (choose_backend d k ie al bl sl sp nnz = Ok NUMPY
   <-> d * d < (if ie then 10000 else 2000) * k /\ al = false /\ bl = false).
Proof.
  intros Hk. unfold choose_backend, small_d_big_k.
  destruct (k =? 0) eqn:E0; [lia|]. destruct (0 <? k) eqn:E1; [|lia].
  destruct (d * d <? (if ie then 10000 else 2000) * k) eqn:E2, al, bl, sl, sp, (10000 <? nnz);
    cbn; split; try discriminate; try (intros (? & ? & ?); try discriminate; lia); intros; repeat split; lia.
Qed.

Theorem dispatch_total req d k sg al bl sl sp nnz :
  k <> 0 -> exists b, dispatch req d k sg al bl sl sp nnz = Ok b.
Proof. intros. destruct req; cbn; [eauto|]. now apply choose_backend_total. Qed.

Theorem dispatch_explicit b d k sg al bl sl sp nnz : dispatch (Some b) d k sg al bl sl sp nnz = Ok b.
Proof. reflexivity. Qed.

(* ------------------------------------------------------------ window arithmetic *)
Open Scope Q_scope.

Theorem rel_window_spec lmin lmax w0 wsz :
  let '(c, lo, hi) := rel_window lmin lmax w0 wsz in
  c == lmin + w0 * (lmax - lmin)
  /\ c == rel_window_centre lmin lmax w0
  /\ hi - lo == wsz * (lmax - lmin)
  /\ (lo + hi) / 2 == c.
Proof.
  unfold rel_window, rel_window_centre. repeat split; field.
Qed.

Theorem rel_window_centre_inside lmin lmax w0 :
  lmin <= lmax -> 0 <= w0 -> w0 <= 1 ->
  lmin <= rel_window_centre lmin lmax w0 /\ rel_window_centre lmin lmax w0 <= lmax.
Proof. unfold rel_window_centre. intros. split; nra. Qed.

(* the default width 1.1 centred anywhere inside the spectrum never cuts at the centre's side:
   with w0 = 1/2 the window strictly contains the whole spectrum *)
Theorem default_window_contains_spectrum lmin lmax x :
  lmin < lmax -> lmin <= x -> x <= lmax ->
  let '(_, lo, hi) := rel_window lmin lmax (1 # 2) default_wsz in lo < x /\ x < hi.
Proof.
  unfold rel_window, default_wsz. intros. split.
  - apply Qlt_le_trans with (y := lmin); [|assumption].
    setoid_replace (lmin + (1 # 2) * (lmax - lmin) - (11 # 10) * (lmax - lmin) / 2)
      with (lmin - (1 # 20) * (lmax - lmin)) by field. nra.
  - apply Qle_lt_trans with (y := lmax); [assumption|].
    setoid_replace (lmin + (1 # 2) * (lmax - lmin) + (11 # 10) * (lmax - lmin) / 2)
      with (lmax + (1 # 20) * (lmax - lmin)) by field. nra.
Qed.

Lemma Qltb_lt x y : Qltb x y = true <-> x < y.
Proof.
  unfold Qltb. rewrite negb_true_iff. split.
  - intros H. apply Qnot_le_lt. intros C. apply Qle_bool_iff in C. congruence.
  - intros H. destruct (Qle_bool y x) eqn:E; [|reflexivity].
    apply Qle_bool_iff in E. exfalso. eapply Qlt_not_le; eauto.
Qed.

Lemma in_window_iff lo hi x : in_window lo hi x = true <-> lo < inject_Z x /\ inject_Z x < hi.
Proof. unfold in_window. rewrite andb_true_iff, !Qltb_lt. tauto. Qed.

Close Scope Q_scope.

(* ------------------------------------------------------------ lists of reals *)
Lemma re_parts_reals a : re_parts (reals a) = a.
Proof. unfold re_parts, reals. rewrite map_map. cbn. apply map_id. Qed.

Lemma reals_im_zero a x : In x (reals a) -> snd x = 0.
Proof. unfold reals. intros H. apply in_map_iff in H as (z & <- & _). reflexivity. Qed.

Lemma Permutation_filter' {A} (f : A -> bool) l l' :
  Permutation l l' -> Permutation (filter f l) (filter f l').
Proof.
  induction 1; cbn.
  - constructor.
  - destruct (f x); [constructor|]; assumption.
  - destruct (f x), (f y); solve [apply perm_swap | reflexivity].
  - etransitivity; eassumption.
Qed.

Lemma filter_length_le {A} (f : A -> bool) l : (length (filter f l) <= length l)%nat.
Proof. induction l as [|a t IH]; cbn; [lia|]. destruct (f a); cbn; lia. Qed.

Lemma SS_filter {A} (R : A -> A -> Prop) f l : StronglySorted R l -> StronglySorted R (filter f l).
Proof.
  induction 1 as [|a t Hs IH Hall]; cbn; [constructor|].
  destruct (f a); [|assumption]. constructor; [assumption|].
  rewrite Forall_forall in *. intros z Hz. apply filter_In in Hz as [Hz _]. auto.
Qed.

Lemma SS_last_max (R : Z -> Z -> Prop) l d : (forall x, R x x) ->
  StronglySorted R l -> l <> [] -> forall x, In x l -> R x (last l d).
Proof.
  intros Hr. induction 1 as [|a t Hs IH Hall]; intros Hne x Hx; [contradiction|].
  destruct t as [|b t'].
  - destruct Hx as [<-|[]]. cbn. apply Hr.
  - change (last (a :: b :: t') d) with (last (b :: t') d).
    destruct Hx as [<-|Hx].
    + rewrite Forall_forall in Hall. apply Hall. clear. generalize b.
      induction t' as [|c t'' IH']; intros b0; cbn; [now left|]. right. apply IH'.
    + apply IH; [discriminate|assumption].
Qed.

Lemma last_In {A} (l : list A) d : l <> [] -> In (last l d) l.
Proof.
  induction l as [|a t IH]; [contradiction|]. intros _. destruct t as [|b t'].
  - now left.
  - right. apply IH. discriminate.
Qed.

(* the ascending spectrum of a hermitian operator *)
Definition sorted_reals (a : list Z) : list Z := re_parts (ascending (reals a)).

Lemma sorted_reals_perm a : Permutation (sorted_reals a) a.
Proof.
  unfold sorted_reals. rewrite <- (re_parts_reals a) at 2.
  apply Permutation_map, ascending_perm.
Qed.

Lemma sorted_reals_sorted a : StronglySorted Z.le (sorted_reals a).
Proof.
  unfold sorted_reals, re_parts. apply StronglySorted_map.
  pose proof (ascending_sorted (reals a)) as H. unfold value_sorted in H.
  eapply SS_impl; [|exact H]. intros x y Hxy. unfold lex_leb in Hxy. lia.
Qed.

(* eigh_window on a dense operator: exactly the eigenvalues strictly inside the window,
   whatever k is *)
Theorem eigh_window_dense_spec a w0 k wsz out :
  eigh_window_dense a w0 k wsz = Ok out ->
  exists lmin lmax,
    In lmin a /\ In lmax a /\ (forall x, In x a -> lmin <= x <= lmax) /\
    let '(_, lo, hi) := rel_window (inject_Z lmin) (inject_Z lmax) w0
                          (match wsz with Some w => w | None => default_wsz end) in
    Permutation out (filter (in_window lo hi) a)
    /\ StronglySorted Z.le out
    /\ (forall x, In x out <-> In x a /\ (lo < inject_Z x)%Q /\ (inject_Z x < hi)%Q).
Proof.
  unfold eigh_window_dense. fold (sorted_reals a).
  pose proof (sorted_reals_perm a) as HP. pose proof (sorted_reals_sorted a) as HS.
  destruct (sorted_reals a) as [|lmin t] eqn:E; [discriminate|].
  set (lk := lmin :: t) in *. set (lmax := last lk lmin).
  destruct (rel_window _ _ _ _) as [[c lo] hi] eqn:EW. intros H.
  assert (Hout : out = filter (in_window lo hi) lk) by congruence. clear H. subst out.
  exists lmin, lmax.
  assert (Hmin : In lmin a) by (eapply Permutation_in; [exact HP|now left]).
  assert (Hmax : In lmax a).
  { eapply Permutation_in; [exact HP|]. apply last_In. discriminate. }
  split; [exact Hmin|]. split; [exact Hmax|]. split.
  - intros x Hx. assert (Hx' : In x lk) by (eapply Permutation_in; [symmetry; exact HP|exact Hx]).
    split.
    + inversion HS as [|? ? _ Hall]; subst. destruct Hx' as [<-|Hx']; [lia|].
      rewrite Forall_forall in Hall. now apply Hall.
    + apply (SS_last_max Z.le lk lmin Z.le_refl HS); [discriminate|assumption].
  - rewrite EW. split; [now apply Permutation_filter'|]. split; [now apply SS_filter|].
    intros x. rewrite filter_In, in_window_iff. split.
    + intros [Hx Hw]. split; [|exact Hw]. eapply Permutation_in; [exact HP|exact Hx].
    + intros [Hx Hw]. split; [|exact Hw]. eapply Permutation_in; [symmetry; exact HP|exact Hx].
Qed.

(* the partial branch: never more than k values, all inside the window, all eigenvalues,
   ascending; and nothing left out is closer to the shifted centre than something returned
   before the window cut *)
Theorem eigh_window_partial_spec a w0 k wsz off out :
  0 <= k -> eigh_window_partial a w0 k wsz off = Ok out ->
  (length out <= Z.to_nat k)%nat
  /\ (forall x, In x out -> In x a)
  /\ StronglySorted Z.le out
  /\ exists lo hi c sel,
       (forall x, In x out <-> In x (re_parts sel) /\ (lo < inject_Z x)%Q /\ (inject_Z x < hi)%Q)
       /\ Permutation (sel ++ unselected TR c k (reals a)) (reals a)
       /\ (forall x y, In x sel -> In y (unselected TR c k (reals a)) ->
             lex_leb (int_key TR c x) (int_key TR c y) = true).
Proof.
  intros Hk. unfold eigh_window_partial.
  destruct (eigs_numpy (Some SA) None 1 true (reals a)) as [[|[lmin ?] ?]| |]; try discriminate.
  destruct (eigs_numpy (Some LA) None 1 true (reals a)) as [[|[lmax ?] ?]| |]; try discriminate.
  destruct (rel_window _ _ _ _) as [[c lo] hi].
  set (c' := Qred _).
  destruct (eigensystem_partial_numpy None (Some c') k true (reals a)) as [lk| |] eqn:E; try discriminate.
  intros [= <-].
  unfold eigensystem_partial_numpy in E. cbn [resolve_which] in E.
  apply eigs_numpy_spec in E as (r & [= <-] & _ & Hperm & Hbest & Hlen & Hsort & _).
  cbn [sigma_or_0] in *.
  specialize (Hlen Hk). specialize (Hsort eq_refl).
  assert (Hin : forall x, In x lk -> In x (reals a)).
  { intros x Hx. eapply Permutation_in; [exact Hperm|]. apply in_or_app. now left. }
  repeat split.
  - etransitivity; [apply filter_length_le|]. unfold re_parts. unfold cz in *. rewrite map_length, Hlen. apply Nat.le_min_l.
  - intros x Hx. apply filter_In in Hx as [Hx _]. unfold re_parts in Hx.
    apply in_map_iff in Hx as (zz & <- & Hz). apply Hin in Hz.
    unfold reals in Hz. apply in_map_iff in Hz as (w & <- & Hw). exact Hw.
  - apply SS_filter. unfold re_parts. apply StronglySorted_map.
    eapply SS_impl; [|exact Hsort]. intros x y Hxy. unfold lex_leb in Hxy. lia.
  - exists lo, hi, c', lk. split; [|split; assumption].
    intros x. rewrite filter_In, in_window_iff. tauto.
Qed.

(* ------------------------------------------------------------ the two branches agree when k covers the spectrum *)
Lemma forallb_true {A} (f : A -> bool) l : (forall x, f x = true) -> forallb f l = true.
Proof. intros H. induction l; cbn; [reflexivity|]. now rewrite H. Qed.

Lemma isort_singleton {A} (le : A -> A -> bool) x : isort le [x] = [x].
Proof. reflexivity. Qed.

Lemma py_firstn_all {A} k (l : list A) : Z.of_nat (length l) <= k -> py_firstn k l = l.
Proof.
  intros H. unfold py_firstn. destruct (k <? 0) eqn:E; [lia|]. apply firstn_all2. lia.
Qed.

Lemma sorted_head_min {A} (R : A -> A -> Prop) x t : StronglySorted R (x :: t) -> forall y, In y t -> R x y.
Proof. intros H y Hy. inversion H as [|? ? _ Hall]; subst. rewrite Forall_forall in Hall. auto. Qed.

(* bound_spectrum through the selection model = first / last of the ascending spectrum *)
Lemma select_SA_1 a x t : ascending (reals a) = x :: t -> select SA 0%Q 1 (reals a) = [x].
Proof. unfold select, py_firstn, ascending. cbn [Z.ltb Z.compare Z.to_nat Pos.to_nat Pos.iter_op]. intros ->. reflexivity. Qed.

Lemma select_LA_1_max a : a <> [] ->
  exists m i, select LA 0%Q 1 (reals a) = [(m, i)] /\ In m a /\ forall y, In y a -> y <= m.
Proof.
  intros Hne. unfold select, py_firstn. cbn [Z.ltb Z.compare Z.to_nat Pos.to_nat Pos.iter_op].
  pose proof (isort_key_sorted LA 0%Q (reals a)) as HS.
  pose proof (isort_perm _ (by_key LA 0%Q) (reals a)) as HP.
  destruct (isort (by_key LA 0%Q) (reals a)) as [|[m i] t] eqn:E.
  - apply Permutation_nil in HP. destruct a; [contradiction|discriminate].
  - exists m, i. split; [reflexivity|].
    assert (Hin : In (m, i) (reals a)) by (eapply Permutation_in; [exact HP|now left]).
    split.
    + unfold reals in Hin. apply in_map_iff in Hin as (z & [= <- _] & Hz). exact Hz.
    + intros y Hy. assert (Hy' : In (y, 0) ((m, i) :: t)).
      { eapply Permutation_in; [symmetry; exact HP|]. unfold reals. apply in_map_iff. eauto. }
      destruct Hy' as [[= -> _]|Hy']; [lia|].
      pose proof (sorted_head_min _ _ _ HS _ Hy') as Hk. cbn beta in Hk.
      rewrite by_key_int in Hk. unfold lex_leb, int_key in Hk. cbn [fst snd] in Hk. lia.
Qed.

Theorem eigh_window_agree_when_k_covers a w0 k wsz off :
  Z.of_nat (length a) <= k ->
  eigh_window_partial a w0 k wsz off = eigh_window_dense a w0 k wsz.
Proof.
  intros Hk. destruct a as [|a0 a'] eqn:Ea.
  - reflexivity.
  - rewrite <- Ea in *. assert (Hne : a <> []) by (subst; discriminate).
    unfold eigh_window_partial, eigh_window_dense.
    pose proof (sorted_reals_perm a) as HP. pose proof (sorted_reals_sorted a) as HS.
    unfold sorted_reals in HP, HS.
    (* SA *)
    unfold eigs_numpy at 1. cbn [is_target]. rewrite forallb_true by reflexivity.
    destruct (ascending (reals a)) as [|[lmin i0] t] eqn:EA.
    { cbn in HP. apply Permutation_nil in HP. contradiction. }
    rewrite (select_SA_1 a _ _ EA). unfold ascending at 1. rewrite isort_singleton.
    (* LA *)
    unfold eigs_numpy at 1. cbn [is_target]. rewrite forallb_true by reflexivity.
    destruct (select_LA_1_max a Hne) as (m & i & -> & Hm & Hmax).
    unfold ascending at 1. rewrite isort_singleton.
    cbn [re_parts map fst].
    set (lk := lmin :: map fst t).
    assert (Elast : last lk lmin = m).
    { assert (HSl : StronglySorted Z.le lk) by exact HS.
      assert (HPl : Permutation lk a) by exact HP.
      apply Z.le_antisymm.
      - apply Hmax. eapply Permutation_in; [exact HPl|]. apply last_In. discriminate.
      - apply (SS_last_max Z.le lk lmin Z.le_refl HSl); [discriminate|].
        eapply Permutation_in; [symmetry; exact HPl|exact Hm]. }
    rewrite Elast.
    destruct (rel_window _ _ _ _) as [[c lo] hi].
    unfold eigensystem_partial_numpy, eigs_numpy. cbn [resolve_which is_target].
    rewrite forallb_true by reflexivity.
    assert (Easc : ascending (select TR (Qred (c + (inject_Z m - inject_Z lmin) * off)) k (reals a)) = ascending (reals a)).
    { unfold select. rewrite py_firstn_all.
      - apply eig_numpy_sorted_unique; [|apply ascending_sorted].
        rewrite ascending_perm. apply isort_perm.
      - rewrite isort_length. unfold reals. rewrite map_length. exact Hk. }
    rewrite Easc, EA. reflexivity.
Qed.

(* F14: on the same spectrum the dense branch returns more than k values, the partial branch does not *)
Theorem window_dense_ignores_k_witness :
  exists a w0 k out out',
    eigh_window_dense a w0 k None = Ok out /\ (Z.to_nat k < length out)%nat
    /\ eigh_window_partial a w0 k None default_offset = Ok out' /\ (length out' <= Z.to_nat k)%nat
    /\ out <> out'.
Proof.
  exists [0; 1; 2; 3; 4; 5; 6; 7; 8; 9], (1 # 2)%Q, 3, [0; 1; 2; 3; 4; 5; 6; 7; 8; 9], [4; 5; 6].
  vm_compute. repeat split; try lia. discriminate.
Qed.

(* C17: boolean checkers used by the correspondence (harness/c17.py embeds what the running
   implementation returned and evaluates these with vm_compute).  Definitions only (cheap to
   load); their soundness is proved in C17/CheckProofs.v. *)
From Coq Require Import ZArith List Bool QArith.
From QV Require Import C17.Model.
Import ListNotations.
Open Scope Z_scope.

Definition cz_eqb (a b : cz) : bool := (fst a =? fst b) && (snd a =? snd b).

Fixpoint list_eqb {A} (eqb : A -> A -> bool) (l1 l2 : list A) : bool :=
  match l1, l2 with
  | [], [] => true
  | x :: t1, y :: t2 => eqb x y && list_eqb eqb t1 t2
  | _, _ => false
  end.

Fixpoint remove1 (x : cz) (l : list cz) : option (list cz) :=
  match l with
  | [] => None
  | y :: t => if cz_eqb x y then Some t
              else match remove1 x t with Some t' => Some (y :: t') | None => None end
  end.

Fixpoint remove_all (out a : list cz) : option (list cz) :=
  match out with
  | [] => Some a
  | x :: t => match remove1 x a with Some a' => remove_all t a' | None => None end
  end.

Fixpoint adjacent_ok {A} (le : A -> A -> bool) (l : list A) : bool :=
  match l with
  | x :: ((y :: _) as t) => le x y && adjacent_ok le t
  | _ => true
  end.

(* out is a sub-multiset of the spectrum, has the model's length, and is no worse than what is left *)
Definition valid_selection (r : rule) (s : Q) (k : Z) (a out : list cz) : bool :=
  match remove_all out a with
  | None => false
  | Some rest =>
      (length out =? length (select r s k a))%nat
      && forallb (fun x => forallb (fun y => by_key r s x y) rest) out
  end.

(* no two eigenvalues have equivalent keys *)
Definition no_ties (r : rule) (s : Q) (a : list cz) : bool :=
  adjacent_ok (fun x y => negb (by_key r s y x)) (isort (by_key r s) a).

Definition is_perm_of_range (inds : list nat) (n : nat) : bool :=
  list_eqb Nat.eqb (isort Nat.leb inds) (seq 0 n).

Definition sig0 (sigma : option Q) : Q := match sigma with Some s => s | None => 0%Q end.

Definition sort_inds_check (r : rule) (sigma : option Q) (a : list cz) (impl : option (list nat)) : bool :=
  match sort_inds r sigma a, impl with
  | Raises, None => true
  | Unmodelled, _ => true
  | Ok m, Some inds =>
      is_perm_of_range inds (length a)
      && adjacent_ok (by_key r (sig0 sigma)) (map (fun i => nth i a (0, 0)) inds)
      && (if no_ties r (sig0 sigma) a then list_eqb Nat.eqb inds m else true)
  | _, _ => false
  end.

(* strict = the computed eigenvalues carry no rounding noise that could reorder equal real parts
   (hermitian problems, exactly diagonal non-hermitian ones); otherwise an ascending result is only
   required to be ascending in the real parts *)
Definition eigs_check (which : option rule) (sigma : option Q) (k : Z) (sort : bool) (a : list cz)
  (impl : option (list cz)) (strict : bool) : bool :=
  match eigs_numpy which sigma k sort a, impl, which with
  | Raises, None, _ => true
  | Unmodelled, _, _ => true
  | Ok m, Some out, Some r =>
      valid_selection r (sig0 sigma) k a out
      && (if sort then adjacent_ok (by_key (if strict then SA else SR) 0%Q) out
          else adjacent_ok (by_key r (sig0 sigma)) out)
      && (if no_ties r (sig0 sigma) a
          then (if sort && negb strict then list_eqb cz_eqb (ascending out) (ascending m)
                else list_eqb cz_eqb out m)
          else true)
  | _, _, _ => false
  end.

(* eigensystem_partial(backend='numpy'): default `which` first *)
Definition esp_check (which : option rule) (sigma : option Q) (k : Z) (sort : bool) (a : list cz)
  (impl : option (list cz)) (strict : bool) : bool :=
  eigs_check (Some (resolve_which which sigma)) sigma k sort a impl strict.

(* full spectrum *)
Definition full_check (sort strict : bool) (a out : list cz) : bool :=
  if sort && strict then list_eqb cz_eqb out (eig_numpy_sorted a)
  else (if sort then adjacent_ok (by_key SR 0%Q) out else true)
       && list_eqb cz_eqb (ascending out) (ascending a).

Definition rule_eqb (a b : rule) : bool :=
  match a, b with
  | LM, LM | SM, SM | SA, SA | SR, SR | SI, SI | LA, LA | LR, LR | LI, LI | TM, TM | TR, TR | TI, TI => true
  | _, _ => false
  end.

Definition backend_eqb (a b : backend) : bool :=
  match a, b with
  | NUMPY, NUMPY | SCIPY, SCIPY | PRIMME, PRIMME | LOBPCG, LOBPCG | SLEPC, SLEPC | SLEPC_NOMPI, SLEPC_NOMPI => true
  | _, _ => false
  end.

Definition backend_check (m : res backend) (impl : option backend) : bool :=
  match m, impl with
  | Ok b, Some b' => backend_eqb b b'
  | Raises, None => true
  | _, _ => false
  end.

Definition zlist_eqb := list_eqb Z.eqb.

(* eigh_window: 1 = as coded for this representation, 2 = only the documented behaviour
   (dense input trimmed to the k nearest), 0 = neither *)
Definition window_check (dense : bool) (a : list Z) (w0 : Q) (k : Z) (wsz : option Q) (impl : option (list Z)) : Z :=
  let coded := if dense then eigh_window_dense a w0 k wsz else eigh_window_partial a w0 k wsz default_offset in
  let agree (m : res (list Z)) := match m, impl with
                                  | Ok l, Some o => zlist_eqb l o
                                  | Raises, None => true
                                  | _, _ => false end in
  if agree coded then 1 else if agree (eigh_window_documented a w0 k wsz default_offset) then 2 else 0.

Definition blocks_check (edges : list (Z * Z)) (d : Z) (impl : list (list Z)) : bool :=
  list_eqb zlist_eqb (compute_blocks edges d) impl.

(* C17 property theorems (statements only; proofs in C17/{Sort,Key,Select,Window,Blocks}Proofs.v). *)
From Coq Require Import ZArith List Bool QArith Permutation Sorted.
From QV Require Import C17.Model C17.SortProofs C17.KeyProofs C17.SelectProofs C17.WindowProofs C17.BlocksProofs C17.Check C17.CheckProofs.
Import ListNotations.
Open Scope Z_scope.

(* The sort keys of `sort_inds` (-|a|, -|1/a|, a, a.real, ..., -1/|a.real - sigma|, evaluated in the
   extended rationals with -1/0 = -inf) order eigenvalues exactly as the documentation says:
   LM by decreasing |a|, SM by increasing |a| (0 first), SA/LA lexicographically on (re, im),
   T* by increasing distance |.. - sigma| (a value ON the target first). *)
Theorem C17_sort_keys_order_as_documented : forall r sigma a b,
  by_key r sigma a b = lex_leb (int_key r sigma a) (int_key r sigma b).
Proof. exact by_key_int. Qed.
Print Assumptions C17_sort_keys_order_as_documented.

(* sort_inds returns a permutation of the indices that puts the values in key order; a target rule
   without sigma raises *)
Theorem C17_sort_inds_is_an_argsort : forall r sigma a inds,
  sort_inds r sigma a = Ok inds ->
  (is_target r = true -> sigma <> None)
  /\ Permutation inds (seq 0 (length a))
  /\ key_sorted r (sigma_or_0 sigma) (map (fun i => nth i a (0, 0)) inds).
Proof. exact sort_inds_spec. Qed.
Print Assumptions C17_sort_inds_is_an_argsort.

(* lk[sort_inds(lk, which, sigma)[:k]] : for every spectrum, rule, sigma and k the returned values and
   the values left out are a split of the spectrum, min(k, d) values are returned, they come in key
   order, and every returned value is at least as good as every value left out (ties: any). *)
Theorem C17_selection_is_k_best : forall r sigma k a,
  Permutation (select r sigma k a ++ unselected r sigma k a) a
  /\ (0 <= k -> length (select r sigma k a) = Nat.min (Z.to_nat k) (length a))
  /\ key_sorted r sigma (select r sigma k a)
  /\ (forall x y, In x (select r sigma k a) -> In y (unselected r sigma k a) ->
        lex_leb (int_key r sigma x) (int_key r sigma y) = true).
Proof.
  intros. split; [apply select_split|]. split; [apply select_length|].
  split; [apply select_key_sorted|apply select_best_int].
Qed.
Print Assumptions C17_selection_is_k_best.

(* ... and that pins the answer down up to ties: ANY split of the spectrum into `out` (as many values
   as the model returns) and `rest` with "out no worse than rest" has the same multiset of keys. *)
Theorem C17_selection_unique_up_to_ties : forall r sigma k a out rest,
  Permutation (out ++ rest) a ->
  length out = length (select r sigma k a) ->
  (forall x y, In x out -> In y rest -> by_key r sigma x y = true) ->
  Permutation (map (int_key r sigma) out) (map (int_key r sigma) (select r sigma k a)).
Proof. exact select_unique. Qed.
Print Assumptions C17_selection_unique_up_to_ties.

(* the correspondence's checker is sound: an implementation output it accepts (sub-multiset of the
   spectrum, model's length, no worse than what is left) has exactly the model's multiset of keys *)
Theorem C17_accepted_output_has_model_keys : forall r s k a out,
  valid_selection r s k a out = true ->
  Permutation (map (int_key r s) out) (map (int_key r s) (select r s k a)).
Proof. exact accepted_output_has_model_keys. Qed.
Print Assumptions C17_accepted_output_has_model_keys.

(* eigs_numpy as a whole (which / sigma handling, trim, optional ascending re-sort) *)
Theorem C17_eigs_numpy_returns_requested_part : forall which sigma k sort a out,
  eigs_numpy which sigma k sort a = Ok out ->
  exists r, which = Some r /\ (is_target r = true -> sigma <> None) /\
    Permutation (out ++ unselected r (sigma_or_0 sigma) k a) a
    /\ (forall x y, In x out -> In y (unselected r (sigma_or_0 sigma) k a) ->
          lex_leb (int_key r (sigma_or_0 sigma) x) (int_key r (sigma_or_0 sigma) y) = true)
    /\ (0 <= k -> length out = Nat.min (Z.to_nat k) (length a))
    /\ (sort = true -> value_sorted out)
    /\ (sort = false -> key_sorted r (sigma_or_0 sigma) out).
Proof. exact eigs_numpy_spec. Qed.
Print Assumptions C17_eigs_numpy_returns_requested_part.

(* eig_numpy(sort=True): the ascending spectrum is unique, so the model's answer is THE answer *)
Theorem C17_full_spectrum_sorted : forall a,
  Permutation (eig_numpy_sorted a) a /\ value_sorted (eig_numpy_sorted a)
  /\ forall out, Permutation out a -> value_sorted out -> out = eig_numpy_sorted a.
Proof.
  intros a. split; [apply ascending_perm|]. split; [apply ascending_sorted|apply eig_numpy_sorted_unique].
Qed.
Print Assumptions C17_full_spectrum_sorted.

(* default `which` of eigensystem_partial; a defaulted call never fails for lack of a target;
   scipy is handed LM exactly when shift-invert targets sigma *)
Theorem C17_default_which : forall which sigma,
  (forall w, which = Some w -> resolve_which which sigma = w)
  /\ (which = None -> sigma = None -> resolve_which which sigma = SA)
  /\ (which = None -> sigma <> None -> resolve_which which sigma = TR).
Proof. exact resolve_which_spec. Qed.
Print Assumptions C17_default_which.

Theorem C17_defaulted_call_never_lacks_target : forall sigma k sort a,
  eigensystem_partial_numpy None sigma k sort a <> Raises.
Proof. exact resolved_never_lacks_sigma. Qed.
Print Assumptions C17_defaulted_call_never_lacks_target.

Theorem C17_scipy_which : forall which sigma,
  (sigma = None -> scipy_which which sigma = resolve_which which sigma)
  /\ (sigma <> None -> is_target (resolve_which which sigma) = true -> scipy_which which sigma = LM).
Proof. exact scipy_which_spec. Qed.
Print Assumptions C17_scipy_which.

(* choose_backend is total (k <> 0), only ever picks an available backend, never a dense solver for a
   linear operator, and picks the dense solver exactly below the d^2/k threshold *)
Theorem C17_choose_backend_total : forall d k ie al bl sl sp nnz,
  k <> 0 -> exists b, choose_backend d k ie al bl sl sp nnz = Ok b.
Proof. exact choose_backend_total. Qed.
Print Assumptions C17_choose_backend_total.

Theorem C17_choose_backend_available : forall d k ie al bl sl sp nnz b,
  choose_backend d k ie al bl sl sp nnz = Ok b ->
  (sl = false -> b = NUMPY \/ b = SCIPY)
  /\ (al = true \/ bl = true -> b <> NUMPY)
  /\ (b = SLEPC \/ b = SLEPC_NOMPI -> sl = true /\ bl = false)
  /\ (b = SLEPC -> sp = true /\ 10000 < nnz)
  /\ b <> PRIMME /\ b <> LOBPCG.
Proof. exact choose_backend_available. Qed.
Print Assumptions C17_choose_backend_available.

Theorem C17_choose_backend_threshold : forall d k ie al bl sl sp nnz, 0 < k ->
  (choose_backend d k ie al bl sl sp nnz = Ok NUMPY
   <-> d * d < (if ie then 10000 else 2000) * k /\ al = false /\ bl = false).
Proof. exact choose_backend_numpy_iff. Qed.
Print Assumptions C17_choose_backend_threshold.

(* relative window -> absolute window *)
Theorem C17_rel_window_arithmetic : forall lmin lmax w0 wsz,
  let '(c, lo, hi) := rel_window lmin lmax w0 wsz in
  (c == lmin + w0 * (lmax - lmin)
  /\ c == rel_window_centre lmin lmax w0
  /\ hi - lo == wsz * (lmax - lmin)
  /\ (lo + hi) / 2 == c)%Q.
Proof. exact rel_window_spec. Qed.
Print Assumptions C17_rel_window_arithmetic.

Theorem C17_window_centre_inside_spectrum : forall lmin lmax w0,
  (lmin <= lmax -> 0 <= w0 -> w0 <= 1 ->
   lmin <= rel_window_centre lmin lmax w0 /\ rel_window_centre lmin lmax w0 <= lmax)%Q.
Proof. exact rel_window_centre_inside. Qed.
Print Assumptions C17_window_centre_inside_spectrum.

Theorem C17_default_window_contains_spectrum : forall lmin lmax x,
  (lmin < lmax -> lmin <= x -> x <= lmax ->
   let '(_, lo, hi) := rel_window lmin lmax (1 # 2) default_wsz in lo < x /\ x < hi)%Q.
Proof. exact default_window_contains_spectrum. Qed.
Print Assumptions C17_default_window_contains_spectrum.

(* eigh_window, dense branch as coded: exactly the eigenvalues strictly inside the window, ascending
   (k is not read) *)
Theorem C17_eigh_window_dense_exact : forall a w0 k wsz out,
  eigh_window_dense a w0 k wsz = Ok out ->
  exists lmin lmax,
    In lmin a /\ In lmax a /\ (forall x, In x a -> lmin <= x <= lmax) /\
    let '(_, lo, hi) := rel_window (inject_Z lmin) (inject_Z lmax) w0
                          (match wsz with Some w => w | None => default_wsz end) in
    Permutation out (filter (in_window lo hi) a)
    /\ StronglySorted Z.le out
    /\ (forall x, In x out <-> In x a /\ (lo < inject_Z x)%Q /\ (inject_Z x < hi)%Q).
Proof. exact eigh_window_dense_spec. Qed.
Print Assumptions C17_eigh_window_dense_exact.

(* eigh_window, partial branch (= the documented behaviour): at most k eigenvalues, those nearest the
   shifted centre, cut to the window, ascending *)
Theorem C17_eigh_window_partial_at_most_k_nearest : forall a w0 k wsz off out,
  0 <= k -> eigh_window_partial a w0 k wsz off = Ok out ->
  (length out <= Z.to_nat k)%nat
  /\ (forall x, In x out -> In x a)
  /\ StronglySorted Z.le out
  /\ exists lo hi c sel,
       (forall x, In x out <-> In x (re_parts sel) /\ (lo < inject_Z x)%Q /\ (inject_Z x < hi)%Q)
       /\ Permutation (sel ++ unselected TR c k (reals a)) (reals a)
       /\ (forall x y, In x sel -> In y (unselected TR c k (reals a)) ->
             lex_leb (int_key TR c x) (int_key TR c y) = true).
Proof. exact eigh_window_partial_spec. Qed.
Print Assumptions C17_eigh_window_partial_at_most_k_nearest.

(* the two branches differ ONLY by the trim to k: with k >= d they return the same eigenvalues *)
Theorem C17_eigh_window_branches_agree_when_k_covers : forall a w0 k wsz off,
  Z.of_nat (length a) <= k ->
  eigh_window_partial a w0 k wsz off = eigh_window_dense a w0 k wsz.
Proof. exact eigh_window_agree_when_k_covers. Qed.
Print Assumptions C17_eigh_window_branches_agree_when_k_covers.

(* DESIGN section 5, F14: the dense branch does not honour k (faithful model; replayed on the
   implementation by the harness, known finding eigh_window:dense:k_ignored) *)
Theorem C17_window_dense_ignores_k_refuted :
  exists a w0 k out out',
    eigh_window_dense a w0 k None = Ok out /\ (Z.to_nat k < length out)%nat
    /\ eigh_window_partial a w0 k None default_offset = Ok out' /\ (length out' <= Z.to_nat k)%nat
    /\ out <> out'.
Proof. exact window_dense_ignores_k_witness. Qed.
Print Assumptions C17_window_dense_ignores_k_refuted.

(* compute_blocks returns the connected components of the non-zero pattern *)
Theorem C17_compute_blocks_connected_components : forall edges d,
  edges_in_range edges d ->
  let bs := compute_blocks edges d in
  Permutation (concat bs) (zrange d)
  /\ Forall (fun b => b <> [] /\ StronglySorted Z.le b) bs
  /\ StronglySorted (fun a b => head_leb a b = true) bs
  /\ (forall i j, In (i, j) edges -> exists b, In b bs /\ In i b /\ In j b)
  /\ (forall b x y, In b bs -> In x b -> In y b -> conn edges x y).
Proof. exact compute_blocks_spec. Qed.
Print Assumptions C17_compute_blocks_connected_components.

Theorem C17_no_entry_joins_two_blocks : forall edges d i j b1 b2,
  edges_in_range edges d -> In (i, j) edges ->
  In b1 (compute_blocks edges d) -> In b2 (compute_blocks edges d) ->
  In i b1 -> In j b2 -> b1 = b2.
Proof. exact no_entry_joins_two_blocks. Qed.
Print Assumptions C17_no_entry_joins_two_blocks.

Example C17_examples :
  sort_inds SM None (reals [0; 2; -1; 3]) = Ok [0; 2; 1; 3]%nat
  /\ sort_inds TM (Some (2 # 1)%Q) (reals [0; 2; -1; 3]) = Ok [1; 2; 3; 0]%nat
  /\ sort_inds TR None (reals [1; 2]) = Raises
  /\ sort_inds LA None [(0, 0); (3, 4); (1, -1); (-2, 0); (1, 1)] = Ok [1; 4; 2; 0; 3]%nat
  /\ eigs_numpy (Some LM) None 2 true (reals [1; -5; 3; 4]) = Ok (reals [-5; 4])
  /\ eigensystem_partial_numpy None (Some (5 # 2)%Q) 2 true (reals [0; 1; 2; 3; 4]) = Ok (reals [2; 3])
  /\ choose_backend 44 1 false false false false false 0 = Ok NUMPY
  /\ choose_backend 45 1 false false false false false 0 = Ok SCIPY
  /\ choose_backend 10 5 false true false false false 0 = Ok SCIPY
  /\ eigh_window_partial [0; 1; 2; 3; 4; 5; 6; 7; 8; 9; 10] (1 # 2)%Q 4 (Some (1 # 4)%Q) default_offset = Ok [4; 5; 6]
  /\ compute_blocks [(1, 2); (2, 1); (4, 8); (1, 4); (3, 5); (6, 6); (5, 9); (9, 3); (8, 2)] 11
     = [[0]; [1; 2; 4; 8]; [3; 5; 9]; [6]; [7]; [10]].
Proof. vm_compute. repeat split. Qed.

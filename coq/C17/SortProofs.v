(* C17: generic facts about the stable insertion sort and "first k of the sorted list". *)
From Coq Require Import ZArith List Bool Lia Permutation Sorted.
From QV Require Import C17.Model.
Import ListNotations.

Section SortFacts.
  Variable A : Type.
  Variable le : A -> A -> bool.
  Hypothesis le_total : forall x y, le x y = true \/ le y x = true.
  Hypothesis le_trans : forall x y z, le x y = true -> le y z = true -> le x z = true.

  Definition leP (x y : A) : Prop := le x y = true.

  Lemma insert_perm x l : Permutation (insert le x l) (x :: l).
  Proof.
    induction l as [|y t IH]; cbn; [reflexivity|].
    destruct (le x y); [reflexivity|].
    rewrite IH. apply perm_swap.
  Qed.

  Lemma isort_perm l : Permutation (isort le l) l.
  Proof.
    induction l as [|x t IH]; cbn; [reflexivity|].
    rewrite insert_perm. now constructor.
  Qed.

  Lemma isort_length l : length (isort le l) = length l.
  Proof. apply Permutation_length, isort_perm. Qed.

  Lemma insert_sorted x l : StronglySorted leP l -> StronglySorted leP (insert le x l).
  Proof.
    induction 1 as [|y t Hs IH Hall]; cbn.
    - constructor; constructor.
    - destruct (le x y) eqn:E.
      + constructor; [constructor; assumption|].
        constructor; [exact E|].
        eapply Forall_impl; [|exact Hall]. intros z Hz. unfold leP in *. eauto.
      + constructor; [exact IH|].
        assert (Hyx : le y x = true) by (destruct (le_total x y); congruence).
        eapply Permutation_Forall; [symmetry; apply insert_perm|].
        constructor; assumption.
  Qed.

  Lemma isort_sorted l : StronglySorted leP (isort le l).
  Proof.
    induction l as [|x t IH]; cbn; [constructor|]. apply insert_sorted, IH.
  Qed.

  Lemma sorted_app_le l1 l2 : StronglySorted leP (l1 ++ l2) ->
    forall x y, In x l1 -> In y l2 -> leP x y.
  Proof.
    induction l1 as [|a t IH]; cbn; intros Hs x y Hx Hy; [contradiction|].
    inversion Hs as [|? ? Hs' Hall]; subst.
    destruct Hx as [<-|Hx].
    - rewrite Forall_forall in Hall. apply Hall, in_or_app. now right.
    - eapply IH; eauto.
  Qed.

  Lemma sorted_app_l l1 l2 : StronglySorted leP (l1 ++ l2) -> StronglySorted leP l1.
  Proof.
    induction l1 as [|a t IH]; cbn; intros Hs; [constructor|].
    inversion Hs as [|? ? Hs' Hall]; subst. constructor; [auto|].
    rewrite Forall_forall in *. intros z Hz. apply Hall, in_or_app. now left.
  Qed.

  Lemma sorted_app_r l1 l2 : StronglySorted leP (l1 ++ l2) -> StronglySorted leP l2.
  Proof.
    induction l1 as [|a t IH]; cbn; intros Hs; [assumption|].
    inversion Hs; subst. auto.
  Qed.

  Lemma sorted_app_intro l1 l2 : StronglySorted leP l1 -> StronglySorted leP l2 ->
    (forall x y, In x l1 -> In y l2 -> leP x y) -> StronglySorted leP (l1 ++ l2).
  Proof.
    induction 1 as [|a t Hs IH Hall]; cbn; intros H2 Hc; [assumption|].
    constructor.
    - apply IH; [assumption|]. intros; apply Hc; [now right|assumption].
    - rewrite Forall_forall in *. intros z Hz. apply in_app_or in Hz as [Hz|Hz]; [auto|].
      apply Hc; [now left|assumption].
  Qed.

  (* first n of the sorted list / the remainder *)
  Lemma firstn_best n l x y :
    In x (firstn n (isort le l)) -> In y (skipn n (isort le l)) -> leP x y.
  Proof.
    intros Hx Hy. eapply sorted_app_le; eauto.
    rewrite firstn_skipn. apply isort_sorted.
  Qed.

  Lemma firstn_sorted n l : StronglySorted leP (firstn n (isort le l)).
  Proof.
    eapply sorted_app_l. rewrite firstn_skipn. apply isort_sorted.
  Qed.

  Lemma firstn_skipn_perm n l : Permutation (firstn n (isort le l) ++ skipn n (isort le l)) l.
  Proof. rewrite firstn_skipn. apply isort_perm. Qed.

  (* the sort only depends on the comparisons between elements of the list *)
  Lemma insert_ext (le' : A -> A -> bool) x l :
    (forall y, In y l -> le x y = le' x y) -> insert le x l = insert le' x l.
  Proof.
    induction l as [|y t IH]; cbn; intros H; [reflexivity|].
    rewrite <- (H y) by now left. destruct (le x y); [reflexivity|].
    f_equal. apply IH. intros; apply H; now right.
  Qed.
End SortFacts.

Lemma isort_ext {A} (le le' : A -> A -> bool) l :
  (forall x y, In x l -> In y l -> le x y = le' x y) -> isort le l = isort le' l.
Proof.
  induction l as [|x t IH]; intros H; [reflexivity|].
  change (insert le x (isort le t) = insert le' x (isort le' t)).
  rewrite <- IH by (intros; apply H; now right).
  apply insert_ext. intros y Hy. apply H; [now left|].
  right. eapply Permutation_in; [apply isort_perm|exact Hy].
Qed.

(* ---------- python slicing ---------- *)
Lemma firstn_min_length {A} m (l : list A) : firstn (Nat.min m (length l)) l = firstn m l.
Proof.
  destruct (Nat.le_ge_cases m (length l)) as [H|H].
  - now rewrite Nat.min_l.
  - rewrite Nat.min_r by assumption. rewrite firstn_all. symmetry. now apply firstn_all2.
Qed.

Lemma py_firstn_is_firstn {A} k (l : list A) :
  py_firstn k l = firstn (length (py_firstn k l)) l.
Proof.
  unfold py_firstn. destruct (k <? 0)%Z; rewrite firstn_length, firstn_min_length; reflexivity.
Qed.

Lemma py_firstn_length {A} k (l : list A) : (0 <= k)%Z ->
  length (py_firstn k l) = Nat.min (Z.to_nat k) (length l).
Proof.
  intros Hk. unfold py_firstn. destruct (k <? 0)%Z eqn:E; [lia|]. apply firstn_length.
Qed.

Lemma py_firstn_neg_length {A} k (l : list A) : (k < 0)%Z ->
  length (py_firstn k l) = (length l - Z.to_nat (- k))%nat.
Proof.
  intros Hk. unfold py_firstn. destruct (k <? 0)%Z eqn:E; [|lia]. rewrite firstn_length. lia.
Qed.

(* ---------- two sorted permutations over an antisymmetric order are equal ---------- *)
Section Antisym.
  Variable K : Type.
  Variable kle : K -> K -> bool.
  Hypothesis kle_antisym : forall x y, kle x y = true -> kle y x = true -> x = y.
  Hypothesis kle_refl : forall x, kle x x = true.

  Lemma sorted_perm_eq (l1 l2 : list K) :
    StronglySorted (leP K kle) l1 -> StronglySorted (leP K kle) l2 -> Permutation l1 l2 -> l1 = l2.
  Proof.
    revert l2. induction l1 as [|x t1 IH]; intros l2 H1 H2 HP.
    - apply Permutation_nil in HP. now subst.
    - destruct l2 as [|y t2]; [symmetry in HP; apply Permutation_nil in HP; discriminate|].
      inversion H1 as [|? ? Hs1 Ha1]; subst. inversion H2 as [|? ? Hs2 Ha2]; subst.
      rewrite Forall_forall in Ha1, Ha2.
      assert (Hxy : x = y).
      { assert (Hx : In x (y :: t2)) by (eapply Permutation_in; [exact HP|now left]).
        assert (Hy : In y (x :: t1)) by (eapply Permutation_in; [symmetry; exact HP|now left]).
        destruct Hx as [->|Hx]; [reflexivity|]. destruct Hy as [->|Hy]; [reflexivity|].
        apply kle_antisym; [apply Ha1, Hy|apply Ha2, Hx]. }
      subst y. f_equal. apply IH; try assumption. eapply Permutation_cons_inv; eassumption.
  Qed.
End Antisym.

Lemma StronglySorted_map {A B} (f : A -> B) (R : B -> B -> Prop) l :
  StronglySorted (fun x y => R (f x) (f y)) l -> StronglySorted R (map f l).
Proof.
  induction 1 as [|a t Hs IH Hall]; cbn; constructor; [assumption|].
  rewrite Forall_forall in *. intros z Hz. apply in_map_iff in Hz as (w & <- & Hw). auto.
Qed.

Lemma SS_impl {A} (R R' : A -> A -> Prop) l :
  (forall x y, R x y -> R' x y) -> StronglySorted R l -> StronglySorted R' l.
Proof.
  intros H. induction 1 as [|a t Hs IH Hall]; constructor; [assumption|].
  eapply Forall_impl; [|exact Hall]. auto.
Qed.

(* C17 model: the SELECTION layer of quimb.linalg on exact spectra.

   Hand-written, one definition per Python function, same branch structure:
     numpy_linalg.sort_inds / eigs_numpy / eig_numpy(sort)      -> sort_key, sort_inds, eigs_numpy, eig_numpy_sorted
     base_linalg.eigensystem_partial (default `which`, dispatch)  -> resolve_which, scipy_which, dispatch
     base_linalg.choose_backend                                   -> choose_backend
     base_linalg._rel_window_to_abs_window / eigh_window          -> rel_window, eigh_window_dense, eigh_window_partial
     base_linalg.expm_multiply (AUTO backend)                     -> expm_multiply_backend
     autoblock.compute_blocks                                     -> compute_blocks
   Spectra are exact: an eigenvalue is a Gaussian integer (re, im); real spectra have
   im = 0 (for a real numpy array a.real = a, a.imag = 0, so one model serves both).
   Sort keys are the expressions of `_SORT_FUNCS`, evaluated in the extended rationals
   (-inf is what numpy produces for -1/0).  `np.argsort` is modelled by a stable
   insertion sort; the theorems are stated "ties: any" and the correspondence compares
   exactly only where the keys have no ties.
   Tied to the implementation by harness/c17.py (correspondence evaluated inside Coq). *)
From Coq Require Import ZArith List Bool QArith.
Import ListNotations.
Open Scope Z_scope.

(* what a Python call does: returns, raises, or lies outside the exactly modelled family *)
Inductive res (A : Type) : Type := Ok (a : A) | Raises | Unmodelled.
Arguments Ok {A} a.
Arguments Raises {A}.
Arguments Unmodelled {A}.

Definition cz := (Z * Z)%type.

Inductive rule := LM | SM | SA | SR | SI | LA | LR | LI | TM | TR | TI.

Definition is_target (r : rule) : bool := match r with TM | TR | TI => true | _ => false end.

(* ------------------------------------------------------------------ keys *)
(* extended rationals: NInf, or n/d with d > 0 *)
Inductive ext := NInf | Fin (n : Z) (d : positive).

Definition ext_leb (x y : ext) : bool :=
  match x, y with
  | NInf, _ => true
  | Fin _ _, NInf => false
  | Fin a b, Fin c d => a * Zpos d <=? c * Zpos b
  end.

(* a key is a (possibly complex) number: numpy orders complex keys lexicographically *)
Definition key := (ext * ext)%type.
Definition key_leb (a b : key) : bool :=
  ext_leb (fst a) (fst b) && (negb (ext_leb (fst b) (fst a)) || ext_leb (snd a) (snd b)).

Definition zext (z : Z) : ext := Fin z 1.

(* -1 / |n/d| ; numpy gives -inf when n = 0 *)
Definition neg_inv_abs (n : Z) (d : positive) : ext :=
  if n =? 0 then NInf else Fin (- Zpos d) (Z.to_pos (Z.abs n)).

(* |a| for a Gaussian integer, when it is an integer (real, imaginary, Pythagorean) *)
Definition mag (a : cz) : option Z :=
  let n := fst a * fst a + snd a * snd a in
  let s := Z.sqrt n in
  if s * s =? n then Some s else None.

Definition mag0 (a : cz) : Z := match mag a with Some m => m | None => 0 end.

(* is the key of `a` under rule r inside the exactly modelled family? *)
Definition key_ok (r : rule) (a : cz) : bool :=
  match r with
  | LM | SM | TM => match mag a with Some _ => true | None => false end
  | _ => true
  end.

(* _SORT_FUNCS[method](a), sigma = p/q.  (sigma is only read by TM / TR / TI) *)
Definition sort_key (r : rule) (sigma : Q) (a : cz) : key :=
  let re := fst a in
  let im := snd a in
  let p := Qnum sigma in
  let q := Qden sigma in
  match r with
  | LM => (zext (- mag0 a), zext 0)                      (* -abs(a) *)
  | SM => (neg_inv_abs (mag0 a) 1, zext 0)               (* -abs(1 / a) *)
  | SA => (zext re, zext im)                             (* a *)
  | SR => (zext re, zext 0)                              (* a.real *)
  | SI => (zext im, zext 0)                              (* a.imag *)
  | LA => (zext (- re), zext (- im))                     (* -a *)
  | LR => (zext (- re), zext 0)                          (* -a.real *)
  | LI => (zext (- im), zext 0)                          (* -a.imag *)
  | TM => (neg_inv_abs (mag0 a * Zpos q - p) q, zext 0)  (* -1 / abs(abs(a) - sigma) *)
  | TR => (neg_inv_abs (re * Zpos q - p) q, zext 0)      (* -1 / abs(a.real - sigma) *)
  | TI => (neg_inv_abs (im * Zpos q - p) q, zext 0)      (* -1 / abs(a.imag - sigma) *)
  end.

(* ------------------------------------------------------------------ stable sort *)
Section Sort.
  Variable A : Type.
  Variable le : A -> A -> bool.
  Fixpoint insert (x : A) (l : list A) : list A :=
    match l with
    | [] => [x]
    | y :: t => if le x y then x :: l else y :: insert x t
    end.
  Definition isort (l : list A) : list A := fold_right insert [] l.
End Sort.
Arguments insert {A} le x l.
Arguments isort {A} le l.

(* Python  l[:k]  (negative k counts from the end) *)
Definition py_firstn {A : Type} (k : Z) (l : list A) : list A :=
  if k <? 0 then firstn (length l - Z.to_nat (- k)) l else firstn (Z.to_nat k) l.

Fixpoint enumerate_from {A : Type} (i : nat) (l : list A) : list (nat * A) :=
  match l with [] => [] | x :: t => (i, x) :: enumerate_from (S i) t end.

Definition by_key (r : rule) (sigma : Q) (x y : cz) : bool :=
  key_leb (sort_key r sigma x) (sort_key r sigma y).

(* sort_inds(a, method, sigma): the indices and the values in sorted order *)
Definition sort_pairs (r : rule) (sigma : Q) (a : list cz) : list (nat * cz) :=
  isort (fun x y => by_key r sigma (snd x) (snd y)) (enumerate_from 0 a).

Definition sort_inds (r : rule) (sigma : option Q) (a : list cz) : res (list nat) :=
  match sigma, is_target r with
  | None, true => Raises                        (* abs(a) - None : TypeError *)
  | _, _ =>
      if forallb (key_ok r) a
      then Ok (map fst (sort_pairs r (match sigma with Some s => s | None => 0%Q end) a))
      else Unmodelled
  end.

(* ascending order of values: np.argsort(lk) / np.sort(lk) (lexicographic for complex) *)
Definition ascending (l : list cz) : list cz := isort (by_key SA 0%Q) l.

(* the k selected values, in key order:  lk[sort_inds(lk, which, sigma)[:k]] *)
Definition select (r : rule) (sigma : Q) (k : Z) (a : list cz) : list cz :=
  py_firstn k (isort (by_key r sigma) a).

(* values NOT selected *)
Definition unselected (r : rule) (sigma : Q) (k : Z) (a : list cz) : list cz :=
  let s := isort (by_key r sigma) a in
  skipn (length (py_firstn k s)) s.

(* eigs_numpy(A, k, which=, sigma=, sort=) on the exact spectrum `a` of A *)
Definition eigs_numpy (which : option rule) (sigma : option Q) (k : Z) (sort : bool) (a : list cz)
  : res (list cz) :=
  match which with
  | None => Raises                               (* None.upper() : AttributeError *)
  | Some r =>
      match sigma, is_target r with
      | None, true => Raises
      | _, _ =>
          if forallb (key_ok r) a then
            let s := select r (match sigma with Some s => s | None => 0%Q end) k a in
            Ok (if sort then ascending s else s)
          else Unmodelled
      end
  end.

(* eigensystem_partial: default `which` *)
Definition resolve_which (which : option rule) (sigma : option Q) : rule :=
  match which, sigma with
  | None, None => SA
  | None, Some _ => TR
  | Some w, _ => w
  end.

(* eigs_scipy: the `which` handed to ARPACK (shift-invert needs LM) *)
Definition scipy_which (which : option rule) (sigma : option Q) : rule :=
  match which, sigma with
  | None, None => SA
  | None, Some _ => LM
  | Some w, Some _ => if is_target w then LM else w
  | Some w, None => w
  end.

Definition eigensystem_partial_numpy (which : option rule) (sigma : option Q) (k : Z) (sort : bool)
  (a : list cz) : res (list cz) :=
  eigs_numpy (Some (resolve_which which sigma)) sigma k sort a.

(* eig_numpy(sort=True): the whole spectrum ascending *)
Definition eig_numpy_sorted (a : list cz) : list cz := ascending a.

(* ------------------------------------------------------------------ backend choice *)
Inductive backend := NUMPY | SCIPY | PRIMME | LOBPCG | SLEPC | SLEPC_NOMPI.

(* choose_backend(A, k, int_eps, B):  d = A.shape[0]; d**2 / k < (10000 if int_eps else 2000) *)
Definition small_d_big_k (d k : Z) (int_eps : bool) : bool :=
  let t := if int_eps then 10000 else 2000 in
  if 0 <? k then d * d <? t * k else true (* k < 0: the quotient is <= 0 *).

Definition choose_backend (d k : Z) (int_eps a_linop b_linop slepc a_sparse : bool) (nnz : Z)
  : res backend :=
  if k =? 0 then Raises (* ZeroDivisionError *) else
  if small_d_big_k d k int_eps && negb (a_linop || b_linop) then Ok NUMPY else
  if slepc && negb b_linop then
    (if a_sparse && (10000 <? nnz) then Ok SLEPC else Ok SLEPC_NOMPI)
  else Ok SCIPY.

(* eigensystem_partial: bkd = 'AUTO' if backend is None else backend.upper() *)
Definition dispatch (requested : option backend) (d k : Z) (sigma_given a_linop b_linop slepc a_sparse : bool)
  (nnz : Z) : res backend :=
  match requested with
  | Some b => Ok b
  | None => choose_backend d k sigma_given a_linop b_linop slepc a_sparse nnz
  end.

(* expm_multiply(backend='AUTO'): SLEPC if found and vec.size > 2**10 else SCIPY *)
Definition expm_multiply_backend (slepc : bool) (vec_size : Z) : backend :=
  if slepc && (1024 <? vec_size) then SLEPC else SCIPY.

(* ------------------------------------------------------------------ windows *)
Open Scope Q_scope.

Definition Qltb (x y : Q) : bool := negb (Qle_bool y x).

(* _rel_window_to_abs_window(el_min, el_max, w_0, w_sz) -> (l_0, l_min, l_max) *)
Definition rel_window (el_min el_max w0 wsz : Q) : Q * Q * Q :=
  let el_range := el_max - el_min in
  let el_w_0 := el_min + w0 * el_range in
  let el_w_min := el_w_0 - wsz * el_range / 2 in
  let el_w_max := el_w_0 + wsz * el_range / 2 in
  (el_w_0, el_w_min, el_w_max).

Definition rel_window_centre (el_min el_max w0 : Q) : Q := el_min + w0 * (el_max - el_min).

Definition default_wsz : Q := 11 # 10.
Definition default_offset : Q := 1 # 104729.

Definition in_window (lo hi : Q) (x : Z) : bool := Qltb lo (inject_Z x) && Qltb (inject_Z x) hi.

Definition reals (l : list Z) : list cz := map (fun x => (x, 0%Z)) l.
Definition re_parts (l : list cz) : list Z := map fst l.

(* eigh_window, dense / backend='numpy' branch AS CODED: all eigenvalues, k is never read *)
Definition eigh_window_dense (a : list Z) (w0 : Q) (k : Z) (wsz : option Q) : res (list Z) :=
  let lk := re_parts (ascending (reals a)) in
  match lk with
  | [] => Raises                                      (* lk[0] : IndexError *)
  | lmin :: _ =>
      let lmax := last lk lmin in
      let '(_, lo, hi) := rel_window (inject_Z lmin) (inject_Z lmax) w0
                            (match wsz with Some w => w | None => default_wsz end) in
      Ok (filter (in_window lo hi) lk)
  end.

(* eigh_window, partial branch (sparse / linear operator input):
   bound_spectrum, shifted centre, k eigenvalues nearest the centre, then the window *)
Definition eigh_window_partial (a : list Z) (w0 : Q) (k : Z) (wsz : option Q) (offset : Q)
  : res (list Z) :=
  match eigs_numpy (Some SA) None 1 true (reals a), eigs_numpy (Some LA) None 1 true (reals a) with
  | Ok ((lmin, _) :: _), Ok ((lmax, _) :: _) =>
      let '(c, lo, hi) := rel_window (inject_Z lmin) (inject_Z lmax) w0
                            (match wsz with Some w => w | None => default_wsz end) in
      let c' := c + (inject_Z lmax - inject_Z lmin) * offset in
      match eigensystem_partial_numpy None (Some (Qred c')) k true (reals a) with
      | Ok lk => Ok (filter (in_window lo hi) (re_parts lk))
      | Raises => Raises
      | Unmodelled => Unmodelled
      end
  | _, _ => Raises
  end.

(* what the documentation of eigh_window promises for every input representation
   ("k : target number of eigenpairs", "el : (k,) array"): the dense branch with the same
   trimming to the k eigenvalues nearest the (shifted) centre as the partial branch *)
Definition eigh_window_documented := eigh_window_partial.

Close Scope Q_scope.

(* ------------------------------------------------------------------ autoblock.compute_blocks *)
Definition memZ (x : Z) (l : list Z) : bool := existsb (Z.eqb x) l.
Definition addZ (x : Z) (l : list Z) : list Z := if memZ x l then l else l ++ [x].

Definition touches (i j : Z) (g : list Z) : bool := memZ i g || memZ j g.

(* one non-zero entry (i, j):
     every group containing i or j receives the other index and is recorded in `merge`;
     no such group -> a new group {i, j};
     several -> all are united into the first one, the others are cleared (left empty). *)
Fixpoint merge_into (i j : Z) (acc : list Z) (seen : bool) (gs : list (list Z)) : list (list Z) * list Z * bool :=
  (* returns (groups with hit groups emptied, union of the hit groups, any hit) *)
  match gs with
  | [] => ([], acc, seen)
  | g :: t =>
      if touches i j g
      then let '(t', u, s) := merge_into i j (acc ++ g) true t in ([] :: t', u, s)
      else let '(t', u, s) := merge_into i j acc seen t in (g :: t', u, s)
  end.

(* put the union back at the position of the first hit group *)
Fixpoint place_first (i j : Z) (u : list Z) (orig gs' : list (list Z)) : list (list Z) :=
  match orig, gs' with
  | g :: t, g' :: t' => if touches i j g then u :: t' else g' :: place_first i j u t t'
  | _, _ => gs'
  end.

Definition step_edge (gs : list (list Z)) (e : Z * Z) : list (list Z) :=
  let '(i, j) := e in
  let '(gs', u, hit) := merge_into i j [] false gs in
  if hit then place_first i j (addZ j (addZ i u)) gs gs'
  else gs ++ [addZ j [i]].

(* "make sure kernel added as subspace" *)
Fixpoint add_kernel (n : nat) (i : Z) (gs : list (list Z)) : list (list Z) :=
  match n with
  | O => gs
  | S n' => add_kernel n' (i + 1) (if existsb (memZ i) gs then gs else gs ++ [[i]])
  end.

Definition nonempty (g : list Z) : bool := match g with [] => false | _ => true end.
Definition head_leb (a b : list Z) : bool :=
  match a, b with x :: _, y :: _ => x <=? y | [], _ => true | _, [] => false end.

(* sorted([sorted(g) for g in groups if g]) ; groups are disjoint, so lexicographic
   order of the sorted groups is the order of their first elements *)
Definition compute_blocks (edges : list (Z * Z)) (d : Z) : list (list Z) :=
  let gs := fold_left step_edge edges [] in
  let gs := add_kernel (Z.to_nat d) 0 gs in
  isort head_leb (map (isort Z.leb) (filter nonempty gs)).

(* C17: the sort keys form a total preorder; integer characterisation of every rule. *)
From Coq Require Import ZArith List Bool Lia ZifyBool QArith Permutation Sorted.
From QV Require Import C17.Model C17.SortProofs.
Import ListNotations.
Open Scope Z_scope.

Lemma ext_leb_refl x : ext_leb x x = true.
Proof. destruct x as [|a b]; cbn; [reflexivity|]. lia. Qed.

Lemma ext_leb_total x y : ext_leb x y = true \/ ext_leb y x = true.
Proof. destruct x as [|a b], y as [|c d]; cbn; auto. lia. Qed.

Lemma ext_leb_trans x y z : ext_leb x y = true -> ext_leb y z = true -> ext_leb x z = true.
Proof.
  destruct x as [|a b], y as [|c d], z as [|e f]; cbn; try reflexivity; try discriminate.
  intros H1 H2. apply Z.leb_le in H1, H2. apply Z.leb_le.
  pose proof (Pos2Z.is_pos b). pose proof (Pos2Z.is_pos d). pose proof (Pos2Z.is_pos f).
  assert (E1 : a * Z.pos d * Z.pos f <= c * Z.pos b * Z.pos f) by nia.
  assert (E2 : c * Z.pos f * Z.pos b <= e * Z.pos d * Z.pos b) by nia.
  assert (E3 : (a * Z.pos f) * Z.pos d <= (e * Z.pos b) * Z.pos d) by nia.
  nia.
Qed.

Lemma key_leb_refl a : key_leb a a = true.
Proof. unfold key_leb. rewrite !ext_leb_refl. reflexivity. Qed.

Lemma key_leb_total a b : key_leb a b = true \/ key_leb b a = true.
Proof.
  unfold key_leb.
  destruct (ext_leb_total (fst a) (fst b)) as [H|H], (ext_leb_total (snd a) (snd b)) as [G|G];
    rewrite ?H, ?G; destruct (ext_leb (fst b) (fst a)) eqn:E1; destruct (ext_leb (fst a) (fst b)) eqn:E2;
    cbn; rewrite ?G; auto; try discriminate.
Qed.

Lemma key_leb_trans a b c : key_leb a b = true -> key_leb b c = true -> key_leb a c = true.
Proof.
  unfold key_leb. intros H1 H2.
  apply andb_true_iff in H1 as [A1 A2]. apply andb_true_iff in H2 as [B1 B2].
  apply andb_true_iff. split; [eapply ext_leb_trans; eauto|].
  destruct (ext_leb (fst c) (fst a)) eqn:E; [|reflexivity]. cbn.
  assert (Hba : ext_leb (fst b) (fst a) = true) by (eapply ext_leb_trans; eauto).
  assert (Hcb : ext_leb (fst c) (fst b) = true) by (eapply ext_leb_trans; eauto).
  rewrite Hba in A2. rewrite Hcb in B2. cbn in A2, B2. eapply ext_leb_trans; eauto.
Qed.

Lemma by_key_total r s x y : by_key r s x y = true \/ by_key r s y x = true.
Proof. apply key_leb_total. Qed.

Lemma by_key_trans r s x y z : by_key r s x y = true -> by_key r s y z = true -> by_key r s x z = true.
Proof. apply key_leb_trans. Qed.

(* ------------------------------------------------------------ integer characterisation *)
Definition lex_leb (a b : Z * Z) : bool :=
  (fst a <? fst b) || ((fst a =? fst b) && (snd a <=? snd b)).

(* what each rule orders by, as plain integers (sigma = p / q):
     LM: -|a|   SM: |a|   SA: (re, im)   SR: re   SI: im   LA: (-re, -im)   LR: -re   LI: -im
     TM: | |a| q - p |    TR: | re q - p |    TI: | im q - p |                           *)
Definition int_key (r : rule) (sigma : Q) (a : cz) : Z * Z :=
  let re := fst a in
  let im := snd a in
  let p := Qnum sigma in
  let q := Zpos (Qden sigma) in
  match r with
  | LM => (- mag0 a, 0)
  | SM => (Z.abs (mag0 a), 0)
  | SA => (re, im)
  | SR => (re, 0)
  | SI => (im, 0)
  | LA => (- re, - im)
  | LR => (- re, 0)
  | LI => (- im, 0)
  | TM => (Z.abs (mag0 a * q - p), 0)
  | TR => (Z.abs (re * q - p), 0)
  | TI => (Z.abs (im * q - p), 0)
  end.

Lemma zext_pair_leb x y x' y' :
  key_leb (zext x, zext y) (zext x', zext y') = lex_leb (x, y) (x', y').
Proof. unfold key_leb, lex_leb, zext; cbn. lia. Qed.

Lemma neg_inv_abs_leb n n' d :
  ext_leb (neg_inv_abs n d) (neg_inv_abs n' d) = (Z.abs n <=? Z.abs n').
Proof.
  unfold neg_inv_abs.
  destruct (n =? 0) eqn:E1, (n' =? 0) eqn:E2; cbn [ext_leb]; try lia.
  rewrite !Z2Pos.id by lia. pose proof (Pos2Z.is_pos d). nia.
Qed.

Lemma neg_inv_abs_pair_leb n n' d :
  key_leb (neg_inv_abs n d, zext 0) (neg_inv_abs n' d, zext 0) = lex_leb (Z.abs n, 0) (Z.abs n', 0).
Proof.
  unfold key_leb, lex_leb. cbn [fst snd]. rewrite !neg_inv_abs_leb. cbn. lia.
Qed.

Theorem by_key_int r s a b : by_key r s a b = lex_leb (int_key r s a) (int_key r s b).
Proof.
  unfold by_key. destruct r; cbn [sort_key int_key];
    try apply zext_pair_leb; apply neg_inv_abs_pair_leb.
Qed.

Lemma lex_leb_antisym a b : lex_leb a b = true -> lex_leb b a = true -> a = b.
Proof. destruct a, b; unfold lex_leb; cbn. intros. f_equal; lia. Qed.

Lemma lex_leb_refl a : lex_leb a a = true.
Proof. destruct a; unfold lex_leb; cbn. lia. Qed.

(* magnitudes *)
Lemma mag_spec a m : mag a = Some m -> 0 <= m /\ m * m = fst a * fst a + snd a * snd a.
Proof.
  unfold mag. destruct (_ =? _) eqn:E; [|discriminate]. intros [= <-].
  split; [apply Z.sqrt_nonneg|lia].
Qed.

Lemma mag_real x : mag (x, 0) = Some (Z.abs x).
Proof.
  unfold mag. cbn [fst snd]. replace (x * x + 0 * 0) with (Z.abs x * Z.abs x) by lia.
  rewrite Z.sqrt_square by lia. now rewrite Z.eqb_refl.
Qed.

(* C17: what sort_inds / eigs_numpy / eig_numpy return, for every spectrum, rule, sigma, k. *)
From Coq Require Import ZArith List Bool Lia ZifyBool QArith Permutation Sorted.
From QV Require Import C17.Model C17.SortProofs C17.KeyProofs.
Import ListNotations.
Open Scope Z_scope.

Definition key_sorted (r : rule) (s : Q) (l : list cz) : Prop :=
  StronglySorted (fun x y => by_key r s x y = true) l.

(* ascending in value: real parts first, then imaginary parts (numpy's complex order) *)
Definition value_sorted (l : list cz) : Prop :=
  StronglySorted (fun x y => lex_leb x y = true) l.

Lemma isort_key_sorted r s l : key_sorted r s (isort (by_key r s) l).
Proof. apply (isort_sorted cz (by_key r s) (by_key_total r s) (by_key_trans r s)). Qed.

Theorem select_split r s k a : Permutation (select r s k a ++ unselected r s k a) a.
Proof.
  unfold select, unselected. set (S := isort (by_key r s) a).
  pose proof (py_firstn_is_firstn k S) as E. set (n := length (py_firstn k S)) in *.
  rewrite E. apply firstn_skipn_perm.
Qed.

Theorem select_best r s k a x y :
  In x (select r s k a) -> In y (unselected r s k a) -> by_key r s x y = true.
Proof.
  unfold select, unselected. set (S := isort (by_key r s) a).
  pose proof (py_firstn_is_firstn k S) as E. set (n := length (py_firstn k S)) in *.
  rewrite E. apply (firstn_best cz (by_key r s) (by_key_total r s) (by_key_trans r s)).
Qed.

Theorem select_length r s k a : 0 <= k ->
  length (select r s k a) = Nat.min (Z.to_nat k) (length a).
Proof.
  intros Hk. unfold select. rewrite py_firstn_length by assumption. now rewrite isort_length.
Qed.

Theorem select_key_sorted r s k a : key_sorted r s (select r s k a).
Proof.
  unfold select. rewrite py_firstn_is_firstn.
  apply (firstn_sorted cz (by_key r s) (by_key_total r s) (by_key_trans r s)).
Qed.

Theorem ascending_perm l : Permutation (ascending l) l.
Proof. apply isort_perm. Qed.

Theorem ascending_sorted l : value_sorted (ascending l).
Proof.
  unfold value_sorted, ascending.
  apply (SS_impl (fun x y => by_key SA 0%Q x y = true)); [|apply (isort_key_sorted SA 0%Q)].
  intros x y H. rewrite by_key_int in H. destruct x, y. exact H.
Qed.

(* in integer terms: every returned value is at least as good as every value left out *)
Theorem select_best_int r s k a x y :
  In x (select r s k a) -> In y (unselected r s k a) -> lex_leb (int_key r s x) (int_key r s y) = true.
Proof. intros. rewrite <- by_key_int. eapply select_best; eauto. Qed.

(* eigs_numpy as a whole *)
Definition sigma_or_0 (sigma : option Q) : Q := match sigma with Some s => s | None => 0%Q end.

Theorem eigs_numpy_spec which sigma k sort a out :
  eigs_numpy which sigma k sort a = Ok out ->
  exists r, which = Some r /\ (is_target r = true -> sigma <> None) /\
    Permutation (out ++ unselected r (sigma_or_0 sigma) k a) a
    /\ (forall x y, In x out -> In y (unselected r (sigma_or_0 sigma) k a) ->
          lex_leb (int_key r (sigma_or_0 sigma) x) (int_key r (sigma_or_0 sigma) y) = true)
    /\ (0 <= k -> length out = Nat.min (Z.to_nat k) (length a))
    /\ (sort = true -> value_sorted out)
    /\ (sort = false -> key_sorted r (sigma_or_0 sigma) out).
Proof.
  unfold eigs_numpy. destruct which as [r|]; [|discriminate]. intros H.
  exists r. split; [reflexivity|].
  assert (Hcore : (if forallb (key_ok r) a then
            Ok (if sort then ascending (select r (sigma_or_0 sigma) k a) else select r (sigma_or_0 sigma) k a)
            else Unmodelled) = Ok out /\ (is_target r = true -> sigma <> None)).
  { destruct sigma as [s|]; [split; [destruct (is_target r); exact H|discriminate]|].
    destruct (is_target r); [discriminate|]. split; [exact H|discriminate]. }
  destruct Hcore as [Hc Hs]. split; [exact Hs|].
  destruct (forallb (key_ok r) a); [|discriminate]. injection Hc as <-.
  set (s := sigma_or_0 sigma).
  assert (HP : Permutation (if sort then ascending (select r s k a) else select r s k a) (select r s k a)).
  { destruct sort; [apply ascending_perm|reflexivity]. }
  repeat split.
  - rewrite HP. apply select_split.
  - intros x y Hx Hy. eapply select_best_int; [|exact Hy]. eapply Permutation_in; [exact HP|exact Hx].
  - intros Hk. rewrite (Permutation_length HP). now apply select_length.
  - intros ->. apply ascending_sorted.
  - intros ->. apply select_key_sorted.
Qed.

(* ------------------------------------------------------------ uniqueness up to ties *)
Lemma int_sorted_of_key_sorted r s l :
  key_sorted r s l -> StronglySorted (leP (Z * Z) lex_leb) (map (int_key r s) l).
Proof.
  intros H. apply StronglySorted_map.
  apply (SS_impl (fun x y => by_key r s x y = true)); [|exact H].
  intros x y Hxy. unfold leP. now rewrite <- by_key_int.
Qed.

Theorem select_unique r s k a out rest :
  Permutation (out ++ rest) a ->
  length out = length (select r s k a) ->
  (forall x y, In x out -> In y rest -> by_key r s x y = true) ->
  Permutation (map (int_key r s) out) (map (int_key r s) (select r s k a)).
Proof.
  intros HP HL HB.
  set (le := by_key r s).
  set (s' := isort le out). set (r' := isort le rest).
  assert (Ps : Permutation s' out) by apply isort_perm.
  assert (Pr : Permutation r' rest) by apply isort_perm.
  assert (S1 : key_sorted r s (s' ++ r')).
  { apply (sorted_app_intro cz le); try apply isort_key_sorted.
    intros x y Hx Hy. apply HB; [eapply Permutation_in; [exact Ps|exact Hx]|eapply Permutation_in; [exact Pr|exact Hy]]. }
  assert (P1 : Permutation (s' ++ r') (isort le a)).
  { rewrite Ps, Pr, HP. symmetry. apply isort_perm. }
  assert (E : map (int_key r s) (s' ++ r') = map (int_key r s) (isort le a)).
  { apply (sorted_perm_eq (Z * Z) lex_leb lex_leb_antisym).
    - now apply int_sorted_of_key_sorted.
    - apply int_sorted_of_key_sorted, isort_key_sorted.
    - now apply Permutation_map. }
  assert (Hsel : select r s k a = firstn (length out) (isort le a)).
  { rewrite HL. unfold select. apply py_firstn_is_firstn. }
  assert (E' : map (int_key r s) s' = map (int_key r s) (select r s k a)).
  { rewrite Hsel, <- firstn_map, <- E, firstn_map. f_equal.
    rewrite <- (Permutation_length Ps), firstn_app, Nat.sub_diag, firstn_all.
    cbn [firstn]. now rewrite app_nil_r. }
  rewrite <- E'. apply Permutation_map. now symmetry.
Qed.

(* whole spectrum, ascending: eig_numpy(sort=True) returns THE sorted spectrum *)
Theorem eig_numpy_sorted_unique a out :
  Permutation out a -> value_sorted out -> out = eig_numpy_sorted a.
Proof.
  intros HP HS. apply (sorted_perm_eq cz lex_leb lex_leb_antisym).
  - exact HS.
  - apply ascending_sorted.
  - rewrite HP. symmetry. apply ascending_perm.
Qed.

(* default `which` *)
Theorem resolve_which_spec which sigma :
  (forall w, which = Some w -> resolve_which which sigma = w)
  /\ (which = None -> sigma = None -> resolve_which which sigma = SA)
  /\ (which = None -> sigma <> None -> resolve_which which sigma = TR).
Proof.
  repeat split.
  - intros w ->. reflexivity.
  - intros -> ->. reflexivity.
  - intros -> H. destruct sigma; [reflexivity|contradiction].
Qed.

(* a default-resolved call never raises for lack of a target *)
Theorem resolved_never_lacks_sigma sigma k sort a :
  eigensystem_partial_numpy None sigma k sort a <> Raises.
Proof.
  unfold eigensystem_partial_numpy, eigs_numpy, resolve_which.
  destruct sigma; cbn; destruct (forallb _ a); discriminate.
Qed.

(* scipy: shift-invert always asks ARPACK for LM; without sigma the rule is passed through *)
Theorem scipy_which_spec which sigma :
  (sigma = None -> scipy_which which sigma = resolve_which which sigma)
  /\ (sigma <> None -> is_target (resolve_which which sigma) = true -> scipy_which which sigma = LM).
Proof.
  split.
  - intros ->. destruct which; reflexivity.
  - intros H. destruct sigma; [|contradiction]. destruct which as [w|]; cbn; [|reflexivity].
    intros ->. reflexivity.
Qed.

(* ------------------------------------------------------------ sort_inds itself *)
Lemma enumerate_from_fst {A} (l : list A) : forall i, map fst (enumerate_from i l) = seq i (length l).
Proof. induction l as [|x t IH]; intros i; cbn; [reflexivity|]. now rewrite IH. Qed.

Lemma enumerate_from_nth {A} (l : list A) d : forall i p,
  In p (enumerate_from i l) -> (i <= fst p)%nat /\ nth (fst p - i) l d = snd p.
Proof.
  induction l as [|x t IH]; intros i p; cbn; [contradiction|].
  intros [<-|H]; cbn.
  - rewrite Nat.sub_diag. split; [lia|reflexivity].
  - destruct (IH (S i) p H) as [H1 H2]. split; [lia|].
    destruct (fst p - i)%nat as [|m] eqn:E; [lia|]. replace m with (fst p - S i)%nat by lia. exact H2.
Qed.

Theorem sort_inds_spec r sigma a inds :
  sort_inds r sigma a = Ok inds ->
  (is_target r = true -> sigma <> None)
  /\ Permutation inds (seq 0 (length a))
  /\ key_sorted r (sigma_or_0 sigma) (map (fun i => nth i a (0, 0)) inds).
Proof.
  unfold sort_inds. intros H.
  assert (Hcore : (if forallb (key_ok r) a then Ok (map fst (sort_pairs r (sigma_or_0 sigma) a)) else Unmodelled) = Ok inds
                  /\ (is_target r = true -> sigma <> None)).
  { destruct sigma as [s|]; [split; [destruct (is_target r); exact H|discriminate]|].
    destruct (is_target r); [discriminate|]. split; [exact H|discriminate]. }
  destruct Hcore as [Hc Hs]. split; [exact Hs|].
  destruct (forallb (key_ok r) a); [|discriminate]. injection Hc as <-.
  set (s := sigma_or_0 sigma). unfold sort_pairs.
  set (le' := fun x y : nat * cz => by_key r s (snd x) (snd y)).
  assert (Ht : forall x y, le' x y = true \/ le' y x = true) by (intros; apply by_key_total).
  assert (Htr : forall x y z, le' x y = true -> le' y z = true -> le' x z = true)
    by (intros x y z; apply by_key_trans).
  pose proof (isort_perm _ le' (enumerate_from 0 a)) as HP.
  split.
  - rewrite <- (enumerate_from_fst a 0). now apply Permutation_map.
  - rewrite map_map.
    rewrite (map_ext_in _ snd).
    + apply StronglySorted_map. apply (isort_sorted _ le' Ht Htr).
    + intros p Hp. apply (Permutation_in _ HP) in Hp.
      destruct (enumerate_from_nth a (0, 0) 0%nat p Hp) as [_ E]. now rewrite Nat.sub_0_r in E.
Qed.

(* C17: autoblock.compute_blocks returns the connected components of the non-zero pattern:
   a partition of [0, d), every non-zero entry inside one block, every block connected. *)
From Coq Require Import ZArith List Bool Lia ZifyBool Permutation Sorted.
From QV Require Import C17.Model C17.SortProofs.
Import ListNotations.
Open Scope Z_scope.

(* ------------------------------------------------------------ sets as lists *)
Lemma NoDup_app_intro {A} (l1 l2 : list A) :
  NoDup l1 -> NoDup l2 -> (forall x, In x l1 -> ~ In x l2) -> NoDup (l1 ++ l2).
Proof.
  induction 1 as [|a t Hn Hnd IH]; cbn; intros H2 Hd; [assumption|].
  constructor.
  - rewrite in_app_iff. intros [H|H]; [contradiction|]. eapply Hd; [now left|exact H].
  - apply IH; [assumption|]. intros x Hx. apply Hd. now right.
Qed.

Lemma memZ_In x l : memZ x l = true <-> In x l.
Proof.
  unfold memZ. rewrite existsb_exists. split.
  - intros (y & Hy & E). apply Z.eqb_eq in E. now subst.
  - intros H. exists x. split; [assumption|apply Z.eqb_refl].
Qed.

Lemma memZ_false x l : memZ x l = false <-> ~ In x l.
Proof. rewrite <- memZ_In. destruct (memZ x l); split; congruence. Qed.

Lemma In_addZ y x l : In y (addZ x l) <-> y = x \/ In y l.
Proof.
  unfold addZ. destruct (memZ x l) eqn:E.
  - apply memZ_In in E. split; [auto|]. intros [->|H]; assumption.
  - rewrite in_app_iff. cbn. split; [intros [H|[H|[]]]; auto|intros [H|H]; auto].
Qed.

Lemma touches_iff i j g : touches i j g = true <-> In i g \/ In j g.
Proof. unfold touches. now rewrite orb_true_iff, !memZ_In. Qed.

Lemma touches_false i j g : touches i j g = false <-> ~ In i g /\ ~ In j g.
Proof. unfold touches. now rewrite orb_false_iff, !memZ_false. Qed.

Definition clearg (i j : Z) (g : list Z) : list Z := if touches i j g then [] else g.
Definition ntouch (i j : Z) (g : list Z) : bool := negb (touches i j g).

Lemma merge_into_spec i j gs : forall acc seen,
  merge_into i j acc seen gs =
  (map (clearg i j) gs, acc ++ concat (filter (touches i j) gs), seen || existsb (touches i j) gs).
Proof.
  induction gs as [|g t IH]; intros acc seen; cbn [merge_into map filter existsb concat].
  - now rewrite app_nil_r, orb_false_r.
  - unfold clearg at 1. destruct (touches i j g) eqn:E; rewrite IH; cbn [concat].
    + now rewrite app_assoc, orb_true_r.
    + reflexivity.
Qed.

Lemma place_first_spec i j u gs : existsb (touches i j) gs = true ->
  exists pre g post, gs = pre ++ g :: post /\ touches i j g = true
    /\ forallb (ntouch i j) pre = true
    /\ place_first i j u gs (map (clearg i j) gs) = pre ++ u :: map (clearg i j) post.
Proof.
  induction gs as [|g t IH]; cbn [existsb]; [discriminate|].
  destruct (touches i j g) eqn:E; cbn [orb]; intros H.
  - exists [], g, t. cbn. rewrite E. auto.
  - destruct (IH H) as (pre & g0 & post & -> & Hg & Hpre & Hp).
    exists (g :: pre), g0, post. cbn [app map place_first forallb]. rewrite E.
    unfold ntouch at 1. rewrite E. cbn. repeat split; try assumption.
    unfold clearg at 1. rewrite E. now rewrite Hp.
Qed.

Lemma concat_clear i j l : concat (map (clearg i j) l) = concat (filter (ntouch i j) l).
Proof.
  induction l as [|g t IH]; [reflexivity|]. cbn [map filter]. unfold ntouch at 1, clearg at 1.
  destruct (touches i j g); cbn [negb concat app]; now rewrite IH.
Qed.

Lemma filter_all {A} (f : A -> bool) l : forallb f l = true -> filter f l = l.
Proof.
  induction l as [|a t IH]; cbn; [reflexivity|]. intros H. apply andb_true_iff in H as [-> H].
  now rewrite IH.
Qed.

Lemma concat_partition (f : list Z -> bool) l :
  Permutation (concat l) (concat (filter f l) ++ concat (filter (fun g => negb (f g)) l)).
Proof.
  induction l as [|g t IH]; cbn; [constructor|]. destruct (f g); cbn.
  - rewrite <- app_assoc. now apply Permutation_app_head.
  - rewrite IH. rewrite !app_assoc. apply Permutation_app_tail. apply Permutation_app_comm.
Qed.

(* the groups after one entry, when some group is touched *)
Definition merged (i j : Z) (gs : list (list Z)) : list Z :=
  addZ j (addZ i (concat (filter (touches i j) gs))).

Lemma step_edge_cases gs i j :
  (existsb (touches i j) gs = false /\ step_edge gs (i, j) = gs ++ [addZ j [i]])
  \/ (exists pre g post, gs = pre ++ g :: post /\ touches i j g = true /\ forallb (ntouch i j) pre = true
        /\ step_edge gs (i, j) = pre ++ merged i j gs :: map (clearg i j) post).
Proof.
  unfold step_edge. rewrite merge_into_spec. cbn [orb app].
  destruct (existsb (touches i j) gs) eqn:E.
  - right. destruct (place_first_spec i j (merged i j gs) gs E) as (pre & g & post & H1 & H2 & H3 & H4).
    exists pre, g, post. repeat split; assumption.
  - left. split; reflexivity.
Qed.

Lemma existsb_false_forall {A} (f : A -> bool) l : existsb f l = false -> forall x, In x l -> f x = false.
Proof.
  intros H x Hx. destruct (f x) eqn:E; [|reflexivity].
  assert (existsb f l = true) by (apply existsb_exists; eauto). congruence.
Qed.

Lemma not_in_concat_ntouch i j gs x : (x = i \/ x = j) -> ~ In x (concat (filter (ntouch i j) gs)).
Proof.
  intros Hx H. apply in_concat in H as (g & Hg & Hxg). apply filter_In in Hg as [_ Hn].
  unfold ntouch in Hn. apply negb_true_iff, touches_false in Hn. destruct Hx; subst; tauto.
Qed.

Lemma concat_step_perm gs i j :
  exists extra, Permutation (concat (step_edge gs (i, j))) (extra ++ concat gs)
    /\ NoDup extra /\ (forall x, In x extra -> (x = i \/ x = j) /\ ~ In x (concat gs))
    /\ (forall x, x = i \/ x = j -> In x extra \/ In x (concat gs)).
Proof.
  destruct (step_edge_cases gs i j) as [[E ->]|(pre & g & post & Hgs & Hg & Hpre & ->)].
  - (* new group *)
    pose proof (existsb_false_forall _ _ E) as Hno.
    assert (Hni : forall x, x = i \/ x = j -> ~ In x (concat gs)).
    { intros x Hx H. apply in_concat in H as (g & Hg & Hxg). specialize (Hno g Hg).
      apply touches_false in Hno. destruct Hx; subst; tauto. }
    exists (addZ j [i]). rewrite concat_app. cbn [concat]. rewrite app_nil_r. repeat split.
    + apply Permutation_app_comm.
    + unfold addZ. destruct (memZ j [i]) eqn:Ej; [repeat constructor; auto|].
      apply memZ_false in Ej. cbn. repeat constructor; cbn in *; intuition.
    + apply In_addZ in H. cbn in H. intuition.
    + apply Hni. apply In_addZ in H. cbn in H. intuition.
    + intros x Hx. left. apply In_addZ. cbn. intuition.
  - (* merge *)
    set (T := concat (filter (touches i j) gs)). set (N := concat (filter (ntouch i j) gs)).
    assert (HP : Permutation (concat gs) (T ++ N)) by apply (concat_partition (touches i j)).
    assert (HN : N = concat pre ++ concat (filter (ntouch i j) post)).
    { unfold N. rewrite Hgs, filter_app. cbn [filter]. unfold ntouch at 2. rewrite Hg. cbn [negb].
      rewrite concat_app. now rewrite (filter_all _ _ Hpre). }
    assert (HR : Permutation (concat (pre ++ merged i j gs :: map (clearg i j) post)) (merged i j gs ++ N)).
    { rewrite concat_app. cbn [concat]. rewrite concat_clear, HN.
      rewrite !app_assoc. apply Permutation_app_tail. apply Permutation_app_comm. }
    (* extras: the endpoints not yet present *)
    exists ((if memZ i T then [] else [i]) ++ (if memZ j (addZ i T) then [] else [j])).
    assert (HiN : ~ In i N) by (apply not_in_concat_ntouch; auto).
    assert (HjN : ~ In j N) by (apply not_in_concat_ntouch; auto).
    assert (Hin : forall x, In x (concat gs) <-> In x T \/ In x N).
    { intros x. rewrite <- in_app_iff. split; apply Permutation_in; [exact HP|symmetry; exact HP]. }
    repeat split.
    + rewrite HR. unfold merged. fold T. unfold addZ at 1.
      destruct (memZ j (addZ i T)) eqn:Ej; unfold addZ; destruct (memZ i T) eqn:Ei; cbn [app];
        rewrite ?app_nil_r.
      * rewrite HP. reflexivity.
      * rewrite HP. rewrite <- app_assoc. cbn. rewrite <- Permutation_middle. reflexivity.
      * rewrite HP. rewrite <- app_assoc. cbn. rewrite <- Permutation_middle. reflexivity.
      * rewrite HP. rewrite <- !app_assoc. cbn. rewrite <- !Permutation_middle. reflexivity.
    + destruct (memZ i T) eqn:Ei, (memZ j (addZ i T)) eqn:Ej; cbn; repeat constructor; cbn; try tauto.
      intros [H|[]]. subst. apply memZ_false in Ej. apply Ej, In_addZ. now left.
    + apply in_app_iff in H. destruct H as [H|H].
      * destruct (memZ i T); cbn in H; intuition.
      * destruct (memZ j (addZ i T)); cbn in H; intuition.
    + apply in_app_iff in H. rewrite Hin. destruct H as [H|H].
      * destruct (memZ i T) eqn:Ei; cbn in H; [tauto|]. destruct H as [<-|[]].
        apply memZ_false in Ei. tauto.
      * destruct (memZ j (addZ i T)) eqn:Ej; cbn in H; [tauto|]. destruct H as [<-|[]].
        apply memZ_false in Ej. rewrite In_addZ in Ej. tauto.
    + intros x Hx. rewrite in_app_iff, Hin. destruct Hx as [->| ->].
      * destruct (memZ i T) eqn:Ei; [apply memZ_In in Ei; tauto|cbn; tauto].
      * destruct (memZ j (addZ i T)) eqn:Ej; [|cbn; tauto].
        apply memZ_In, In_addZ in Ej. destruct Ej as [->|Ej]; [|tauto].
        destruct (memZ i T) eqn:Ei; [apply memZ_In in Ei; tauto|cbn; tauto].
Qed.

Lemma step_NoDup gs e : NoDup (concat gs) -> NoDup (concat (step_edge gs e)).
Proof.
  destruct e as [i j]. intros H.
  destruct (concat_step_perm gs i j) as (extra & HP & Hnd & Hex & _).
  eapply Permutation_NoDup; [symmetry; exact HP|].
  apply NoDup_app_intro; try assumption. intros x Hx. now apply Hex.
Qed.

Lemma step_In gs i j x :
  In x (concat (step_edge gs (i, j))) <-> x = i \/ x = j \/ In x (concat gs).
Proof.
  destruct (concat_step_perm gs i j) as (extra & HP & _ & Hex & Hcov). split.
  - intros H. apply (Permutation_in _ HP), in_app_iff in H. destruct H as [H|H]; [|tauto].
    apply Hex in H. tauto.
  - intros H. apply (Permutation_in _ (Permutation_sym HP)), in_app_iff.
    destruct H as [H|[H|H]]; [apply Hcov; auto|apply Hcov; auto|tauto].
Qed.

(* groups only grow: every old group is inside a new one; the new entry is inside one group *)
Lemma In_merged i j gs x : In x (merged i j gs) <-> x = j \/ x = i \/ In x (concat (filter (touches i j) gs)).
Proof. unfold merged. now rewrite !In_addZ. Qed.

Lemma step_mono gs i j g : In g gs -> exists g', In g' (step_edge gs (i, j)) /\ incl g g'.
Proof.
  intros Hg.
  destruct (step_edge_cases gs i j) as [[E ->]|(pre & g0 & post & Hgs & Hg0 & Hpre & ->)].
  - exists g. split; [apply in_or_app; now left|apply incl_refl].
  - destruct (touches i j g) eqn:Et.
    + exists (merged i j gs). split; [apply in_or_app; right; now left|].
      intros x Hx. apply In_merged. right. right. apply in_concat. exists g. split; [|assumption].
      apply filter_In. now split.
    + exists g. split; [|apply incl_refl]. rewrite Hgs in Hg.
      apply in_app_iff in Hg. apply in_or_app. destruct Hg as [Hg|[Hg|Hg]]; [now left| |].
      * subst. congruence.
      * right. right. apply in_map_iff. exists g. split; [|assumption]. unfold clearg. now rewrite Et.
Qed.

Lemma step_covers gs i j : exists g', In g' (step_edge gs (i, j)) /\ In i g' /\ In j g'.
Proof.
  destruct (step_edge_cases gs i j) as [[E ->]|(pre & g0 & post & Hgs & Hg0 & Hpre & ->)].
  - exists (addZ j [i]). split; [apply in_or_app; right; now left|]. rewrite !In_addZ. cbn. tauto.
  - exists (merged i j gs). split; [apply in_or_app; right; now left|]. rewrite !In_merged. tauto.
Qed.

(* ------------------------------------------------------------ connectivity *)
Inductive conn (E : list (Z * Z)) : Z -> Z -> Prop :=
| conn_refl x : conn E x x
| conn_edge i j : In (i, j) E -> conn E i j
| conn_sym x y : conn E x y -> conn E y x
| conn_trans x y z : conn E x y -> conn E y z -> conn E x z.

Lemma conn_mono E E' x y : incl E E' -> conn E x y -> conn E' x y.
Proof.
  intros Hi. induction 1.
  - apply conn_refl.
  - apply conn_edge. auto.
  - now apply conn_sym.
  - eapply conn_trans; eauto.
Qed.

Definition groups_connected (E : list (Z * Z)) (gs : list (list Z)) : Prop :=
  forall g x y, In g gs -> In x g -> In y g -> conn E x y.

Lemma step_connected E gs i j :
  groups_connected E gs -> groups_connected (E ++ [(i, j)]) (step_edge gs (i, j)).
Proof.
  intros HC.
  assert (Hold : forall g x y, In g gs -> In x g -> In y g -> conn (E ++ [(i, j)]) x y).
  { intros. eapply conn_mono; [|eapply HC; eauto]. apply incl_appl, incl_refl. }
  assert (Hij : conn (E ++ [(i, j)]) i j) by (apply conn_edge, in_or_app; right; now left).
  destruct (step_edge_cases gs i j) as [[E0 ->]|(pre & g0 & post & Hgs & Hg0 & Hpre & ->)].
  - intros g x y Hg Hx Hy. apply in_app_iff in Hg as [Hg|[<-|[]]]; [eauto|].
    rewrite In_addZ in Hx, Hy. cbn in Hx, Hy.
    destruct Hx as [->|[->|[]]], Hy as [->|[->|[]]];
      try apply conn_refl; try assumption; now apply conn_sym.
  - (* everything in the merged group is connected to i *)
    assert (Hm : forall x, In x (merged i j gs) -> conn (E ++ [(i, j)]) x i).
    { intros x Hx. apply In_merged in Hx as [->|[->|Hx]].
      - now apply conn_sym.
      - apply conn_refl.
      - apply in_concat in Hx as (g & Hg & Hxg). apply filter_In in Hg as [Hg Ht].
        apply touches_iff in Ht as [Hi|Hj].
        + eapply Hold; eauto.
        + eapply conn_trans; [eapply Hold; [exact Hg|exact Hxg|exact Hj]|now apply conn_sym]. }
    intros g x y Hg Hx Hy. apply in_app_iff in Hg as [Hg|[<-|Hg]].
    + eapply Hold; [rewrite Hgs; apply in_or_app; left; exact Hg|assumption|assumption].
    + eapply conn_trans; [apply Hm, Hx|apply conn_sym, Hm, Hy].
    + apply in_map_iff in Hg as (g1 & <- & Hg1). unfold clearg in *.
      destruct (touches i j g1); [contradiction|].
      eapply Hold; [rewrite Hgs; apply in_or_app; right; right; exact Hg1|assumption|assumption].
Qed.

(* ------------------------------------------------------------ the loop over all entries *)
Record inv (E : list (Z * Z)) (gs : list (list Z)) : Prop := {
  inv_nodup : NoDup (concat gs);
  inv_in : forall x, In x (concat gs) <-> exists i j, In (i, j) E /\ (x = i \/ x = j);
  inv_cover : forall i j, In (i, j) E -> exists g, In g gs /\ In i g /\ In j g;
  inv_conn : groups_connected E gs
}.

Lemma inv_nil : inv [] [].
Proof.
  constructor; cbn.
  - constructor.
  - intros x. split; [contradiction|]. intros (i & j & [] & _).
  - contradiction.
  - intros g x y [].
Qed.

Lemma inv_step E gs e : inv E gs -> inv (E ++ [e]) (step_edge gs e).
Proof.
  destruct e as [i j]. intros [H1 H2 H3 H4]. constructor.
  - now apply step_NoDup.
  - intros x. rewrite step_In, H2. split.
    + intros [->|[->|(a & b & Hab & Hx)]].
      * exists i, j. split; [apply in_or_app; right; now left|auto].
      * exists i, j. split; [apply in_or_app; right; now left|auto].
      * exists a, b. split; [apply in_or_app; now left|auto].
    + intros (a & b & Hab & Hx). apply in_app_iff in Hab as [Hab|[[= -> ->]|[]]].
      * right. right. eauto.
      * destruct Hx; auto.
  - intros a b Hab. apply in_app_iff in Hab as [Hab|[[= -> ->]|[]]].
    + destruct (H3 a b Hab) as (g & Hg & Ha & Hb).
      destruct (step_mono gs i j g Hg) as (g' & Hg' & Hincl). exists g'. auto.
    + apply step_covers.
  - now apply step_connected.
Qed.

Lemma fold_left_inv edges : forall E gs, inv E gs -> inv (E ++ edges) (fold_left step_edge edges gs).
Proof.
  induction edges as [|e t IH]; intros E gs H; cbn [fold_left].
  - now rewrite app_nil_r.
  - replace (E ++ e :: t) with ((E ++ [e]) ++ t) by (rewrite <- app_assoc; reflexivity).
    apply IH. now apply inv_step.
Qed.

(* ------------------------------------------------------------ kernel singletons *)
Lemma existsb_memZ_concat x gs : existsb (memZ x) gs = true <-> In x (concat gs).
Proof.
  rewrite existsb_exists, in_concat. split; intros (g & Hg & H); exists g; split; try assumption;
    now apply memZ_In.
Qed.

Lemma add_kernel_spec n : forall i gs,
  NoDup (concat gs) ->
  let gs' := add_kernel n i gs in
  NoDup (concat gs')
  /\ (forall x, In x (concat gs') <-> In x (concat gs) \/ i <= x < i + Z.of_nat n)
  /\ (forall g, In g gs -> In g gs')
  /\ (forall g, In g gs' -> In g gs \/ exists x, g = [x]).
Proof.
  induction n as [|n IH]; intros i gs Hnd; cbn [add_kernel]; cbn zeta.
  - split; [assumption|]. split; [|split; [auto|auto]].
    intros x. split; [tauto|]. intros [H|H]; [assumption|lia].
  - destruct (existsb (memZ i) gs) eqn:E.
    + destruct (IH (i + 1) gs Hnd) as (A & B & C & D). cbn zeta in *.
      split; [assumption|]. split; [|split; assumption].
      intros x. rewrite B. apply existsb_memZ_concat in E. split.
      * intros [H|H]; [tauto|right; lia].
      * intros [H|H]; [tauto|]. destruct (Z.eq_dec x i) as [->|Hne]; [tauto|right; lia].
    + assert (Hni : ~ In i (concat gs)).
      { intros H. apply existsb_memZ_concat in H. congruence. }
      assert (Hnd' : NoDup (concat (gs ++ [[i]]))).
      { rewrite concat_app. cbn. apply NoDup_app_intro; [assumption|repeat constructor; auto|].
        intros x Hx [<-|[]]. contradiction. }
      destruct (IH (i + 1) (gs ++ [[i]]) Hnd') as (A & B & C & D). cbn zeta in *.
      split; [assumption|]. split; [|split].
      * intros x. rewrite B, concat_app, in_app_iff. cbn. split.
        -- intros [[H|[<-|[]]]|H]; [tauto|right; lia|right; lia].
        -- intros [H|H]; [tauto|]. destruct (Z.eq_dec x i) as [->|Hne]; [tauto|right; lia].
      * intros g Hg. apply C, in_or_app. now left.
      * intros g Hg. apply D in Hg as [Hg|Hg]; [|tauto].
        apply in_app_iff in Hg as [Hg|[<-|[]]]; [tauto|right; eauto].
Qed.

(* ------------------------------------------------------------ final sorting *)
Lemma concat_filter_nonempty gs : concat (filter nonempty gs) = concat gs.
Proof. induction gs as [|[|x g] t IH]; cbn; [reflexivity|assumption|now rewrite IH]. Qed.

Lemma concat_perm_map (f : list Z -> list Z) gs :
  (forall g, Permutation (f g) g) -> Permutation (concat (map f gs)) (concat gs).
Proof.
  intros H. induction gs as [|g t IH]; cbn; [constructor|]. now apply Permutation_app.
Qed.

Lemma Permutation_concat (l l' : list (list Z)) : Permutation l l' -> Permutation (concat l) (concat l').
Proof.
  induction 1; cbn.
  - constructor.
  - now apply Permutation_app_head.
  - rewrite !app_assoc. apply Permutation_app_tail, Permutation_app_comm.
  - etransitivity; eassumption.
Qed.

Lemma Zleb_total x y : (x <=? y) = true \/ (y <=? x) = true.
Proof. lia. Qed.
Lemma Zleb_trans x y z : (x <=? y) = true -> (y <=? z) = true -> (x <=? z) = true.
Proof. lia. Qed.

Lemma head_leb_total a b : head_leb a b = true \/ head_leb b a = true.
Proof. destruct a, b; cbn; auto. lia. Qed.
Lemma head_leb_trans a b c : head_leb a b = true -> head_leb b c = true -> head_leb a c = true.
Proof. destruct a, b, c; cbn; try reflexivity; try discriminate. lia. Qed.

Lemma isortZ_perm g : Permutation (isort Z.leb g) g.
Proof. apply isort_perm. Qed.

Lemma NoDup_app_disj {A} (l1 l2 : list A) x : NoDup (l1 ++ l2) -> In x l1 -> In x l2 -> False.
Proof.
  induction l1 as [|a t IH]; cbn; [contradiction|]. intros Hnd [->|H1] H2.
  - inversion Hnd as [|? ? Hn _]; subst. apply Hn, in_or_app. now right.
  - inversion Hnd; subst. eauto.
Qed.

Lemma NoDup_app_r {A} (l1 l2 : list A) : NoDup (l1 ++ l2) -> NoDup l2.
Proof. induction l1; cbn; [auto|]. inversion 1; auto. Qed.

Lemma NoDup_concat_unique (bs : list (list Z)) b1 b2 x :
  NoDup (concat bs) -> In b1 bs -> In b2 bs -> In x b1 -> In x b2 -> b1 = b2.
Proof.
  induction bs as [|b t IH]; cbn; [contradiction|]. intros Hnd H1 H2 Hx1 Hx2.
  assert (Hsep : forall g, In g t -> In x b -> In x g -> False).
  { intros g Hg Hb Hxg. eapply NoDup_app_disj; [exact Hnd|exact Hb|]. apply in_concat. eauto. }
  destruct H1 as [<-|H1], H2 as [<-|H2].
  - reflexivity.
  - exfalso. eauto.
  - exfalso. eauto.
  - apply IH; try assumption. eapply NoDup_app_r; eauto.
Qed.

Definition zrange (d : Z) : list Z := map Z.of_nat (seq 0 (Z.to_nat d)).

Lemma In_zrange d x : In x (zrange d) <-> 0 <= x < d.
Proof.
  unfold zrange. rewrite in_map_iff. split.
  - intros (n & <- & Hn). apply in_seq in Hn. lia.
  - intros H. exists (Z.to_nat x). split; [lia|]. apply in_seq. lia.
Qed.

Lemma NoDup_zrange d : NoDup (zrange d).
Proof.
  unfold zrange. apply FinFun.Injective_map_NoDup; [|apply seq_NoDup].
  intros a b H. lia.
Qed.

(* ------------------------------------------------------------ main theorem *)
Definition edges_in_range (edges : list (Z * Z)) (d : Z) : Prop :=
  forall i j, In (i, j) edges -> 0 <= i < d /\ 0 <= j < d.

Theorem compute_blocks_spec edges d :
  edges_in_range edges d ->
  let bs := compute_blocks edges d in
  (* every basis index 0..d-1 lies in exactly one block *)
  Permutation (concat bs) (zrange d)
  (* blocks are non-empty and ascending; the list of blocks is ordered by first element *)
  /\ Forall (fun b => b <> [] /\ StronglySorted Z.le b) bs
  /\ StronglySorted (fun a b => head_leb a b = true) bs
  (* no non-zero entry joins two different blocks *)
  /\ (forall i j, In (i, j) edges -> exists b, In b bs /\ In i b /\ In j b)
  (* every block is connected by non-zero entries: the blocks are the connected components *)
  /\ (forall b x y, In b bs -> In x b -> In y b -> conn edges x y).
Proof.
  intros Hr. unfold compute_blocks.
  pose proof (fold_left_inv edges [] [] inv_nil) as Hinv. cbn [app] in Hinv.
  set (g1 := fold_left step_edge edges []) in *.
  destruct Hinv as [I1 I2 I3 I4].
  destruct (add_kernel_spec (Z.to_nat d) 0 g1 I1) as (K1 & K2 & K3 & K4).
  set (g2 := add_kernel (Z.to_nat d) 0 g1) in *.
  set (g3 := map (isort Z.leb) (filter nonempty g2)).
  assert (P3 : Permutation (concat g3) (concat g2)).
  { unfold g3. rewrite concat_perm_map by apply isortZ_perm. now rewrite concat_filter_nonempty. }
  assert (PF : Permutation (isort head_leb g3) g3) by apply isort_perm.
  assert (In3 : forall g, In g g2 -> g <> [] -> In (isort Z.leb g) g3).
  { intros g Hg Hne. unfold g3. apply in_map, filter_In. split; [assumption|]. destruct g; [contradiction|reflexivity]. }
  repeat split.
  - rewrite (Permutation_concat _ _ PF), P3.
    apply NoDup_Permutation; [assumption|apply NoDup_zrange|].
    intros x. rewrite K2, In_zrange, I2. split.
    + intros [(i & j & Hij & Hx)|H]; [|lia]. destruct (Hr i j Hij). destruct Hx; subst; lia.
    + intros H. right. lia.
  - rewrite Forall_forall. intros b Hb. apply (Permutation_in _ PF) in Hb.
    unfold g3 in Hb. apply in_map_iff in Hb as (g & <- & Hg). apply filter_In in Hg as [_ Hne].
    split.
    + intros C. destruct g; [discriminate|].
      pose proof (Permutation_length (isortZ_perm (z :: g))) as HL. rewrite C in HL. discriminate.
    + eapply SS_impl; [|apply (isort_sorted Z Z.leb Zleb_total Zleb_trans)]. unfold leP. intros; lia.
  - apply (isort_sorted (list Z) head_leb head_leb_total head_leb_trans).
  - intros i j Hij. destruct (I3 i j Hij) as (g & Hg & Hi & Hj).
    exists (isort Z.leb g). split; [|split].
    + apply (Permutation_in _ (Permutation_sym PF)). apply In3; [now apply K3|]. intros ->. contradiction.
    + apply (Permutation_in _ (Permutation_sym (isortZ_perm g))), Hi.
    + apply (Permutation_in _ (Permutation_sym (isortZ_perm g))), Hj.
  - intros b x y Hb Hx Hy. apply (Permutation_in _ PF) in Hb.
    unfold g3 in Hb. apply in_map_iff in Hb as (g & <- & Hg). apply filter_In in Hg as [Hg _].
    apply (Permutation_in _ (isortZ_perm g)) in Hx, Hy.
    destruct (K4 g Hg) as [H|(z & ->)].
    + eapply I4; eauto.
    + destruct Hx as [<-|[]], Hy as [<-|[]]. apply conn_refl.
Qed.

Corollary no_entry_joins_two_blocks edges d i j b1 b2 :
  edges_in_range edges d -> In (i, j) edges ->
  In b1 (compute_blocks edges d) -> In b2 (compute_blocks edges d) ->
  In i b1 -> In j b2 -> b1 = b2.
Proof.
  intros Hr Hij H1 H2 Hi Hj.
  destruct (compute_blocks_spec edges d Hr) as (HP & _ & _ & Hc & _).
  destruct (Hc i j Hij) as (b & Hb & Hbi & Hbj).
  assert (Hnd : NoDup (concat (compute_blocks edges d))).
  { eapply Permutation_NoDup; [symmetry; exact HP|apply NoDup_zrange]. }
  transitivity b.
  - eapply NoDup_concat_unique; eauto.
  - eapply NoDup_concat_unique; eauto.
Qed.

(* C01 - the exponent / return-shape bookkeeping of the contraction entry points.

   quimb's `tensor_contract`, `TensorNetwork.contract_tags`, `TensorNetwork.contract`
   (the non-structured, non-compressed dispatch), `maybe_unwrap` and
   `TensorNetwork.contract_cumulative` differ only in how they route the stored
   base-10 exponent of the network, the exponent stripped from the contracted
   tensor and the shape of what they return (scalar, Tensor, (mantissa, exponent)
   pair, or network).  Each is modelled here as a function with the branch
   structure of the Python code (quimb/tensor/tensor_core.py), over

     * the tensor-network semantics of Base/TN.v on an ARBITRARY commutative
       ring K and the scaled states of C04/Proofs.v
           den (ts, summed, e) = ten e * value ts summed,
     * an arbitrary exponent type E with a homomorphism `ten : E -> K`
       (quimb: floats and 10**e),
     * an arbitrary mantissa/exponent splitting `stripf` (quimb: divide by the
       norm, exponent log10 of the norm), used only through its contract
       `strip_ok` (t = ten d * m), which fails exactly for the all-zero tensor
       (documented edge),
     * ANY contraction path for the tagged tensors (`steps` of Base/TN.v).

   The theorems say: whatever the options, the returned object denotes
   den (network) - nothing of the exponent is dropped or counted twice - and
   the return shape is the one tabulated by the executable `*_shape` functions,
   which the harness compares with the implementation over the whole option
   cube. *)
From Coq Require Import Arith List Lia Ring PeanoNat Permutation Bool.
From QV Require Import Base.Sums Base.TN C04.Rules C04.Proofs.
Import ListNotations.

(* ------------------------------------------------------------------------- *)
(* executable control tables (no ring needed)                                  *)
(* ------------------------------------------------------------------------- *)
Inductive eqopt := EqAuto | EqTrue | EqFalse.

(* what a call returns *)
Inductive kind := KScalar | KTensor | KPairScalar | KPairTensor | KNet.

Definition resolve_eq (eq : eqopt) (strip : bool) : bool :=
  match eq with EqAuto => strip | EqTrue => true | EqFalse => false end.

(* tensor_contract(..., strip_exponent, exponent, preserve_tensor) with output labels empty or not *)
Definition tensor_contract_shape (strip outs_empty preserve : bool) : kind :=
  let scalar := outs_empty && negb preserve in
  if strip then (if scalar then KPairScalar else KPairTensor) else (if scalar then KScalar else KTensor).

(* contract_tags: (strip_exponent handed to tensor_contract, preserve_tensor handed to
   tensor_contract, kind of the returned object, "the network's stored exponent was increased") *)
Definition contract_tags_shape (strip : bool) (eq : eqopt) (inplace preserve outs_empty rest_empty exp_zero : bool)
  : bool * bool * kind * bool :=
  let equalize := resolve_eq eq strip in
  let preserve' := preserve || inplace || negb rest_empty in
  let scalar := outs_empty && negb preserve' in
  let has_exp := equalize || strip in
  if rest_empty && negb inplace then
    let has_exp' := has_exp || negb exp_zero in
    (equalize, preserve',
     (if has_exp' && strip then (if scalar then KPairScalar else KPairTensor)
      else (if scalar then KScalar else KTensor)), false)
  else (equalize, preserve', KNet, has_exp).

(* TensorNetwork.contract without max_bond on a class without structured contraction:
   true = the whole network goes straight to tensor_contract(exponent=self.exponent),
   false = contract_tags *)
Definition contract_dispatch (all_tags inplace : bool) : bool := all_tags && negb inplace.

(* maybe_unwrap on a network with n tensors / on a tensor *)
Definition maybe_unwrap_shape (is_net : bool) (n_is_one preserve_tn preserve strip outs_empty : bool) : kind :=
  let scalar := outs_empty && negb preserve in
  if is_net && (preserve_tn || negb n_is_one) then KNet
  else if strip then (if scalar then KPairScalar else KPairTensor) else (if scalar then KScalar else KTensor).

(* ------------------------------------------------------------------------- *)
Section Flow.
  Variable K : Type.
  Variables (k0 k1 : K) (kadd kmul ksub : K -> K -> K) (kopp : K -> K).
  Hypothesis Kring : ring_theory k0 k1 kadd kmul ksub kopp eq.
  Add Ring Krc01e : Kring.
  Infix "+" := kadd. Infix "*" := kmul.
  Variable dim : ind -> nat.

  Variable E : Type.
  Variable eadd : E -> E -> E.
  Variable ten : E -> K.
  Hypothesis ten_add : forall a b, ten (eadd a b) = ten a * ten b.
  Variable e0 : E.                                   (* quimb: 0.0 *)
  Hypothesis ten_e0 : ten e0 = k1.
  Variable ez : E -> bool.                           (* quimb: `exponent == 0.0` *)
  Hypothesis ez_sound : forall e, ez e = true -> ten e = k1.

  Notation value := (TN.value K k0 k1 kadd kmul dim).
  Notation tensor := (TN.tensor K).
  Notation tval := (TN.tval K).
  Notation wf := (TN.wf K).
  Notation steps := (TN.steps K k0 kadd kmul dim).
  Notation scale := (Rules.scale K kmul).
  Notation state := (Proofs.state K E).
  Notation den := (Proofs.den K k0 k1 kadd kmul dim E ten).
  Notation rws := (Proofs.rws K k0 k1 kadd kmul dim E eadd ten).
  Notation inrange := (Rules.inrange dim).

  (* the mantissa / exponent splitting (norm and log10 in quimb): only its contract is used *)
  Variable stripf : tensor -> tensor * E.
  Definition strip_ok (t : tensor) : Prop :=
    forall s', tval t s' = ten (snd (stripf t)) * tval (fst (stripf t)) s'.

  (* returned objects; the flag says "unwrapped to a scalar" *)
  Inductive result :=
  | RVal (scalar : bool) (t : tensor)
  | RPair (scalar : bool) (t : tensor) (e : E)
  | RNet (x : state).

  Definition rden (r : result) (s : asg) : K :=
    match r with
    | RVal _ t => tval t s
    | RPair _ t e => ten e * tval t s
    | RNet x => den x s
    end.

  Definition rkind (r : result) : kind :=
    match r with
    | RVal true _ => KScalar | RVal false _ => KTensor
    | RPair true _ _ => KPairScalar | RPair false _ _ => KPairTensor
    | RNet _ => KNet
    end.

  Definition topt (o : option E) : K := match o with Some x => ten x | None => k1 end.

  (* ---- tensor_contract (tensor_core.py:224-358): V is the contracted array ---------- *)
  Definition tensor_contract_flow (V : tensor) (strip : bool) (exponent : option E)
             (outs_empty preserve : bool) : result :=
    let scalar := outs_empty && negb preserve in
    if strip then
      let (m, d) := stripf V in
      RPair scalar m (match exponent with Some x => eadd d x | None => d end)
    else
      match exponent with
      | Some x => RVal scalar (scale (ten x) V)
      | None => RVal scalar V
      end.

  Lemma tensor_contract_flow_sound V strip ex oe pr s :
    (strip = true -> strip_ok V) ->
    rden (tensor_contract_flow V strip ex oe pr) s = topt ex * tval V s.
  Proof.
    intros Hs. unfold tensor_contract_flow. destruct strip.
    - specialize (Hs eq_refl s). destruct (stripf V) as [m d]. cbn [fst snd] in Hs. cbn [rden].
      rewrite Hs. destruct ex as [x|]; cbn [topt]; [rewrite ten_add|]; ring.
    - destruct ex as [x|]; cbn [rden topt scale TN.tval]; ring.
  Qed.

  Lemma tensor_contract_flow_kind V strip ex oe pr :
    rkind (tensor_contract_flow V strip ex oe pr) = tensor_contract_shape strip oe pr.
  Proof.
    unfold tensor_contract_flow, tensor_contract_shape.
    destruct strip; [destruct (stripf V) as [m d]|destruct ex]; destruct (oe && negb pr); reflexivity.
  Qed.

  (* the whole network handed to tensor_contract with exponent=tn.exponent (contract(all), not inplace) *)
  Theorem contract_all_sound ts L e V strip oe pr s :
    Forall wf ts -> steps (ts, L) ([V], []) -> (strip = true -> strip_ok V) ->
    rden (tensor_contract_flow V strip (Some e) oe pr) s = den (ts, L, e) s.
  Proof.
    intros Hw Hp Hs. rewrite tensor_contract_flow_sound by exact Hs. cbn [topt].
    unfold Proofs.den. cbn [Proofs.st_exp Proofs.st_tensors Proofs.st_summed fst snd].
    rewrite (path_to_single K k0 k1 kadd kmul ksub kopp Kring dim ts L V s Hp Hw). reflexivity.
  Qed.

  (* ---- contract_tags (tensor_core.py:9440-9600) ------------------------------------- *)
  (* e: the network's stored exponent; V: the contraction of the tagged tensors (any path);
     rest: the untagged tensors; S': the labels still summed afterwards *)
  Definition is_nil {A} (l : list A) : bool := match l with [] => true | _ => false end.

  Definition contract_tags_flow (e : E) (V : tensor) (rest : list tensor) (S' : list ind)
             (strip : bool) (eq : eqopt) (inplace preserve outs_empty : bool) : result :=
    let rest_empty := is_nil rest in
    let equalize := resolve_eq eq strip in
    let preserve' := preserve || inplace || negb rest_empty in
    (* t = tensor_contract of the tagged tensors with strip_exponent=equalize_norms, preserve_tensor=preserve_tensor *)
    let '(scalar, t, ex) :=
      match tensor_contract_flow V equalize None outs_empty preserve' with
      | RPair sc m d => (sc, m, Some d)                       (* exponent already returned separately *)
      | RVal sc v =>
          if strip then let (m, d) := stripf v in (sc, m, Some d)   (* explicitly remove exponent now *)
          else (sc, v, None)
      | RNet _ => (false, V, None)
      end in
    if rest_empty && negb inplace then
      (* contracted all down to a single tensor or scalar: do not drop the network's own exponent *)
      let ex := if ez e then ex
                else Some (match ex with None => e | Some d => eadd d e end) in
      match ex with
      | Some d => if strip then RPair scalar t d else RVal scalar (scale (ten d) t)
      | None => RVal scalar t
      end
    else
      RNet (t :: rest, S', match ex with Some d => eadd e d | None => e end).

  Lemma den_single t e s : den ([t], [], e) s = ten e * tval t s.
  Proof.
    unfold Proofs.den, TN.value, TN.tprod. cbn. ring.
  Qed.

  Theorem contract_tags_flow_sound ts L e V rest S' strip eq inplace preserve oe s :
    Forall wf ts -> steps (ts, L) (V :: rest, S') ->
    (rest = [] -> inplace = false -> S' = []) ->
    (resolve_eq eq strip || strip = true -> strip_ok V) ->
    rden (contract_tags_flow e V rest S' strip eq inplace preserve oe) s = den (ts, L, e) s.
  Proof.
    intros Hw Hp Hnil Hs.
    assert (Hv : den (ts, L, e) s = den (V :: rest, S', e) s).
    { unfold Proofs.den. cbn [Proofs.st_exp Proofs.st_tensors Proofs.st_summed fst snd]. f_equal.
      exact (path_sound K k0 k1 kadd kmul ksub kopp Kring dim _ _ Hp Hw s). }
    rewrite Hv. clear Hv Hp Hw.
    unfold contract_tags_flow, tensor_contract_flow.
    destruct (resolve_eq eq strip) eqn:Eq.
    - (* tensor_contract stripped it *)
      assert (Hok : strip_ok V) by (apply Hs; reflexivity). specialize (Hok).
      destruct (stripf V) as [m d] eqn:Est.
      assert (Hm : forall s', tval V s' = ten d * tval m s').
      { intros s'. pose proof (Hok s') as H. rewrite Est in H. exact H. }
      destruct (is_nil rest && negb inplace) eqn:Edir.
      + apply andb_true_iff in Edir. destruct Edir as [Hr Hi].
        destruct rest; [|discriminate]. apply negb_true_iff in Hi.
        rewrite (Hnil eq_refl Hi). rewrite den_single.
        destruct (ez e) eqn:Ez.
        * rewrite (ez_sound e Ez). destruct strip; cbn [rden scale TN.tval]; rewrite Hm; ring.
        * destruct strip; cbn [rden scale TN.tval]; rewrite ten_add, Hm; ring.
      + cbn [rden]. apply (strip_exponent_sound K k0 k1 kadd kmul ksub kopp Kring dim E eadd ten ten_add). exact Hm.
    - destruct strip eqn:Estrip.
      + (* explicit norm strip after an unstripped contraction *)
        assert (Hok : strip_ok V) by (apply Hs; reflexivity). cbv beta iota.
        destruct (stripf V) as [m d] eqn:Est.
        assert (Hm : forall s', tval V s' = ten d * tval m s').
        { intros s'. pose proof (Hok s') as H. rewrite Est in H. exact H. }
        destruct (is_nil rest && negb inplace) eqn:Edir.
        * apply andb_true_iff in Edir. destruct Edir as [Hr Hi].
          destruct rest; [|discriminate]. apply negb_true_iff in Hi.
          rewrite (Hnil eq_refl Hi). rewrite den_single.
          destruct (ez e) eqn:Ez.
          -- rewrite (ez_sound e Ez). cbn [rden]. rewrite Hm. ring.
          -- cbn [rden]. rewrite ten_add, Hm. ring.
        * cbn [rden]. apply (strip_exponent_sound K k0 k1 kadd kmul ksub kopp Kring dim E eadd ten ten_add). exact Hm.
      + (* nothing stripped *)
        destruct (is_nil rest && negb inplace) eqn:Edir.
        * apply andb_true_iff in Edir. destruct Edir as [Hr Hi].
          destruct rest; [|discriminate]. apply negb_true_iff in Hi.
          rewrite (Hnil eq_refl Hi). rewrite den_single.
          destruct (ez e) eqn:Ez.
          -- rewrite (ez_sound e Ez). cbn [rden]. ring.
          -- cbn [rden scale TN.tval]. ring.
        * cbn [rden]. reflexivity.
  Qed.

  (* the shape table is the shape of the flow *)
  Definition net_exp_changed (r : result) (ex_added : bool) : bool := match r with RNet _ => ex_added | _ => false end.

  Theorem contract_tags_flow_kind e V rest S' strip eq inplace preserve oe :
    let sh := contract_tags_shape strip eq inplace preserve oe (is_nil rest) (ez e) in
    rkind (contract_tags_flow e V rest S' strip eq inplace preserve oe) = snd (fst sh).
  Proof.
    unfold contract_tags_flow, contract_tags_shape, tensor_contract_flow.
    destruct (resolve_eq eq strip), strip, (is_nil rest), inplace, preserve, oe, (ez e); cbn;
      destruct (stripf V) as [m d]; reflexivity.
  Qed.

  (* a returned network keeps the untagged tensors and the still-summed labels; its stored exponent is the
     old one exactly when the table says nothing was added *)
  Theorem contract_tags_flow_net e V rest S' strip eq inplace preserve oe x :
    contract_tags_flow e V rest S' strip eq inplace preserve oe = RNet x ->
    tl (Proofs.st_tensors K E x) = rest /\ Proofs.st_summed K E x = S' /\
    (snd (contract_tags_shape strip eq inplace preserve oe (is_nil rest) (ez e)) = false -> Proofs.st_exp K E x = e).
  Proof.
    clear Kring ten_add ten_e0 ez_sound.
    unfold contract_tags_flow, contract_tags_shape, tensor_contract_flow.
    destruct (resolve_eq eq strip), strip, (is_nil rest), inplace, (ez e); cbn;
      destruct (stripf V) as [m d]; cbn;
      intros H; try discriminate; inversion H; subst; cbn; repeat split; auto; discriminate.
  Qed.

  (* ---- TensorNetwork.contract dispatch (tensor_core.py:9602-9739; max_bond=None, no structured route) ---- *)
  Definition contract_flow (all_tags : bool) (e : E) (V : tensor) (rest : list tensor) (S' : list ind)
             (strip inplace preserve outs_empty : bool) : result :=
    if contract_dispatch all_tags inplace
    then tensor_contract_flow V strip (Some e) outs_empty preserve
    else contract_tags_flow e V rest S' strip EqAuto inplace preserve outs_empty.

  Theorem contract_flow_sound all_tags ts L e V rest S' strip inplace preserve oe s :
    Forall wf ts -> steps (ts, L) (V :: rest, S') ->
    (all_tags = true -> rest = [] /\ S' = []) ->
    (rest = [] -> inplace = false -> S' = []) ->
    (strip = true -> strip_ok V) ->
    rden (contract_flow all_tags e V rest S' strip inplace preserve oe) s = den (ts, L, e) s.
  Proof.
    intros Hw Hp Hall Hnil Hs. unfold contract_flow, contract_dispatch.
    destruct (all_tags && negb inplace) eqn:Ed.
    - apply andb_true_iff in Ed. destruct Ed as [Ha _]. destruct (Hall Ha) as [Hr HS]. subst.
      apply contract_all_sound; assumption.
    - apply contract_tags_flow_sound; try assumption.
      cbn [resolve_eq]. rewrite orb_diag. exact Hs.
  Qed.

  (* ---- maybe_unwrap (tensor_core.py:1842-1917) ---------------------------------------- *)
  Definition finish (t : tensor) (ex : E) (preserve strip outs_empty : bool) : result :=
    let scalar := outs_empty && negb preserve in
    if strip then let (m, d) := stripf t in RPair scalar m (eadd ex d)
    else if ez ex then RVal scalar t else RVal scalar (scale (ten ex) t).

  Lemma finish_sound t ex preserve strip oe s :
    (strip = true -> strip_ok t) ->
    rden (finish t ex preserve strip oe) s = ten ex * tval t s.
  Proof.
    intros Hs. unfold finish. destruct strip.
    - specialize (Hs eq_refl s). destruct (stripf t) as [m d]. cbn [fst snd] in Hs.
      cbn [rden]. rewrite ten_add, Hs. ring.
    - destruct (ez ex) eqn:Ez; cbn [rden scale TN.tval]; [rewrite (ez_sound ex Ez)|]; ring.
  Qed.

  (* xe is the network after the optional `equalize_norms_` call (xe = x when equalize_norms is off) *)
  Definition maybe_unwrap_net (xe : state) (preserve_tn preserve strip outs_empty : bool) : result :=
    match Proofs.st_tensors K E xe with
    | [t] => if preserve_tn then RNet xe else finish t (Proofs.st_exp K E xe) preserve strip outs_empty
    | _ => RNet xe
    end.

  Definition maybe_unwrap_tensor (t : tensor) (preserve strip outs_empty : bool) : result :=
    finish t e0 preserve strip outs_empty.

  Theorem maybe_unwrap_net_sound x xe preserve_tn preserve strip oe s :
    rws x xe -> Forall wf (Proofs.st_tensors K E x) -> inrange s ->
    (forall t, Proofs.st_tensors K E xe = [t] -> preserve_tn = false ->
       Proofs.st_summed K E xe = [] /\ (strip = true -> strip_ok t)) ->
    rden (maybe_unwrap_net xe preserve_tn preserve strip oe) s = den x s.
  Proof.
    intros Hr Hw Hin H1.
    rewrite (rewrite_star_sound K k0 k1 kadd kmul ksub kopp Kring dim E eadd ten ten_add x xe Hr Hw s Hin).
    unfold maybe_unwrap_net. destruct xe as [[tsx Sx] ex]. cbn [Proofs.st_tensors Proofs.st_exp fst snd] in *.
    destruct tsx as [|t [|u tsx]]; try reflexivity.
    destruct preserve_tn; [reflexivity|].
    destruct (H1 t eq_refl eq_refl) as [HS Hok]. cbn [Proofs.st_summed fst snd] in HS. subst Sx.
    rewrite finish_sound by exact Hok. rewrite den_single. reflexivity.
  Qed.

  Theorem maybe_unwrap_tensor_sound t preserve strip oe s :
    (strip = true -> strip_ok t) ->
    rden (maybe_unwrap_tensor t preserve strip oe) s = tval t s.
  Proof.
    intros Hs. unfold maybe_unwrap_tensor. rewrite finish_sound by exact Hs. rewrite ten_e0. ring.
  Qed.

  Theorem maybe_unwrap_net_kind xe preserve_tn preserve strip oe :
    rkind (maybe_unwrap_net xe preserve_tn preserve strip oe)
    = maybe_unwrap_shape true (match Proofs.st_tensors K E xe with _ :: nil => true | _ => false end)
                         preserve_tn preserve strip oe.
  Proof.
    unfold maybe_unwrap_net, maybe_unwrap_shape, finish. destruct xe as [[tsx Sx] ex].
    cbn [Proofs.st_tensors Proofs.st_exp fst snd].
    destruct tsx as [|t [|u tsx]]; cbn; try (destruct preserve_tn; reflexivity).
    destruct (stripf t) as [m d].
    destruct preserve_tn, strip, oe, preserve, (ez ex); reflexivity.
  Qed.

  (* ---- contract_cumulative (tensor_core.py:9741-9829) ---------------------------------- *)
  (* one round: contract_tags_(c_tags, equalize_norms=eqz) - in place, strip_exponent not forwarded *)
  Definition cum_round (e : E) (V : tensor) (rest : list tensor) (S' : list ind) (eqz : bool) : state :=
    if eqz then let (m, d) := stripf V in (m :: rest, S', eadd e d) else (V :: rest, S', e).

  Lemma cum_round_is_contract_tags e V rest S' (eqz : bool) preserve oe :
    contract_tags_flow e V rest S' false (if eqz then EqTrue else EqFalse) true preserve oe
    = RNet (cum_round e V rest S' eqz).
  Proof.
    unfold contract_tags_flow, cum_round, tensor_contract_flow.
    destruct eqz; cbn [resolve_eq]; [destruct (stripf V) as [m d]|];
      rewrite andb_false_r; reflexivity.
  Qed.

  (* any number of rounds, each with its own tag group and its own contraction path *)
  Inductive cum_rounds (eqz : bool) : state -> state -> Prop :=
  | cum_done x : cum_rounds eqz x x
  | cum_more ts L e V rest S' y :
      Forall wf ts -> steps (ts, L) (V :: rest, S') -> (eqz = true -> strip_ok V /\ wf (fst (stripf V))) ->
      cum_rounds eqz (cum_round e V rest S' eqz) y ->
      cum_rounds eqz (ts, L, e) y.

  Lemma cum_round_sound ts L e V rest S' (eqz : bool) s :
    Forall wf ts -> steps (ts, L) (V :: rest, S') -> (eqz = true -> strip_ok V) ->
    den (cum_round e V rest S' eqz) s = den (ts, L, e) s.
  Proof.
    intros Hw Hp Hs.
    pose proof (contract_tags_flow_sound ts L e V rest S' false (if eqz then EqTrue else EqFalse) true false false s Hw Hp) as H.
    rewrite cum_round_is_contract_tags in H. cbn [rden] in H. apply H.
    - intros _ Hc. discriminate.
    - destruct eqz; cbn [resolve_eq orb]; [intros _; apply Hs; reflexivity | discriminate].
  Qed.

  Theorem cum_rounds_sound eqz x y : cum_rounds eqz x y -> forall s, den y s = den x s.
  Proof.
    induction 1 as [x|ts L e V rest S' y Hw Hp Hs Hrest IH]; intros s; [reflexivity|].
    rewrite IH. apply cum_round_sound; try assumption. intros Hq. apply (Hs Hq).
  Qed.

  (* the whole of contract_cumulative: the rounds, then maybe_unwrap with equalisation xe of the last network *)
  Theorem contract_cumulative_sound eqz x y xe preserve_tn preserve strip oe s :
    cum_rounds eqz x y -> rws y xe -> Forall wf (Proofs.st_tensors K E y) -> inrange s ->
    (forall t, Proofs.st_tensors K E xe = [t] -> preserve_tn = false ->
       Proofs.st_summed K E xe = [] /\ (strip = true -> strip_ok t)) ->
    rden (maybe_unwrap_net xe preserve_tn preserve strip oe) s = den x s.
  Proof.
    intros Hc Hr Hw Hin H1. rewrite <- (cum_rounds_sound eqz x y Hc s).
    apply maybe_unwrap_net_sound; assumption.
  Qed.
End Flow.

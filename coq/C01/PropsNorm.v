(* C01 property theorems for norm / overlap with explicit output labels: statements only
   (proofs: coq/C01/Norm.v on top of coq/C13/Network.v).  Any commutative ring with an involution. *)
From Coq Require Import ZArith Arith List Ring Lia.
From QV Require Import Base.Sums Base.TN Base.TNExec C13.Network C01.Norm.
Import ListNotations.

Section C01Norm.
  Variable K : Type.
  Variables (k0 k1 : K) (kadd kmul ksub : K -> K -> K) (kopp : K -> K).
  Hypothesis Kring : ring_theory k0 k1 kadd kmul ksub kopp eq.
  Variable dim : nat -> nat.
  Variable conj : K -> K.
  Hypothesis conj_add : forall a b, conj (kadd a b) = kadd (conj a) (conj b).
  Hypothesis conj_mul : forall a b, conj (kmul a b) = kmul (conj a) (conj b).
  Hypothesis conj_invol : forall a, conj (conj a) = a.
  Variable ren : nat -> nat.
  Hypothesis ren_inj : forall i j, ren i = ren j -> i = j.
  Hypothesis ren_dim : forall i, dim (ren i) = dim i.

  (* overlap(A, B, output_inds = T) = sum_T A[T] * conj(B[T]) where A[T] / B[T] sum over ALL other labels
     (SA / SB) of their own network: every non-output label of the bra has to be renamed (ren maps SB to
     labels that are fresh for A and disjoint from SA, and keeps B's output labels). *)
  Theorem C01_overlap_with_output_inds : forall A B SA SB T s,
    Forall (wf K) A -> Forall (wf K) B ->
    (forall i, In i (labels K B) -> ~ In i SB -> ren i = i) ->
    (forall i t j, In i SA -> In t B -> In j (tinds K t) -> ren j <> i) ->
    (forall i t, In i SB -> In t A -> ~ In (ren i) (tinds K t)) ->
    (forall i, In i SA -> ~ In i (map ren SB)) ->
    value K k0 k1 kadd kmul dim (A ++ map (bra_tensor K conj ren) B) (T ++ SA ++ map ren SB) s
    = sum_over K k0 kadd dim T (fun s' => kmul (value K k0 k1 kadd kmul dim A SA s')
                                              (conj (value K k0 k1 kadd kmul dim B SB s'))) s.
  Proof. exact (overlap_network_value K k0 k1 kadd kmul ksub kopp Kring dim conj conj_add conj_mul conj_invol ren ren_inj ren_dim). Qed.

  (* norm(output_inds = T)^2 = sum_T A[T] * conj(A[T]) *)
  Theorem C01_norm_with_output_inds : forall A SA T s,
    Forall (wf K) A ->
    (forall i, In i (labels K A) -> ~ In i SA -> ren i = i) ->
    (forall i t j, In i SA -> In t A -> In j (tinds K t) -> ren j <> i) ->
    (forall i t, In i SA -> In t A -> ~ In (ren i) (tinds K t)) ->
    (forall i, In i SA -> ~ In i (map ren SA)) ->
    value K k0 k1 kadd kmul dim (A ++ map (bra_tensor K conj ren) A) (T ++ SA ++ map ren SA) s
    = sum_over K k0 kadd dim T (fun s' => kmul (value K k0 k1 kadd kmul dim A SA s')
                                              (conj (value K k0 k1 kadd kmul dim A SA s'))) s.
  Proof. exact (norm_network_value K k0 k1 kadd kmul ksub kopp Kring dim conj conj_add conj_mul conj_invol ren ren_inj ren_dim). Qed.
End C01Norm.

Print Assumptions C01_overlap_with_output_inds.
Print Assumptions C01_norm_with_output_inds.

(* non-vacuity over Z[i]: one tensor a[0,1], output label 0, dangling NON-output label 1 renamed to the
   fresh label 2 in the bra (ren swaps 1 and 2): the hypotheses hold and
   norm(output_inds=[0])^2 = |a00+a01|^2 + |a10+a11|^2 = |1+2i + 3|^2 + |1 + (-1)|^2 = 20,
   not |a00|^2+|a01|^2+|a10|^2+|a11|^2 = 16 *)
Definition swap12 (i : nat) : nat := match i with 1 => 2 | 2 => 1 | _ => i end.
Example C01_norm_example :
  let a := arr_tensor [0; 1] [2; 2] [(1,2); (3,0); (1,0); (-1,0)]%Z in
  let dims := [(0, 2); (1, 2); (2, 2)] in
  (forall i j, swap12 i = swap12 j -> i = j) /\
  (forall i, lookup dims (swap12 i) = lookup dims i) /\
  (forall i, In i (labels G [a]) -> ~ In i [1] -> swap12 i = i) /\
  (forall i t j, In i [1] -> In t [a] -> In j (tinds G t) -> swap12 j <> i) /\
  (forall i t, In i [1] -> In t [a] -> ~ In (swap12 i) (tinds G t)) /\
  (forall i, In i [1] -> ~ In i (map swap12 [1])) /\
  value G g0 g1 gadd gmul (lookup dims) ([a] ++ map (bra_tensor G gconj swap12) [a]) ([0] ++ [1] ++ map swap12 [1]) (fun _ => 0)
  = (20, 0)%Z.
Proof.
  cbv zeta. repeat split.
  - intros i j. unfold swap12. destruct i as [|[|[|i]]], j as [|[|[|j]]]; intros H; try reflexivity; try discriminate; exact H.
  - intros i. unfold swap12. destruct i as [|[|[|i]]]; reflexivity.
  - intros i Hi Hn. cbn in Hi. destruct Hi as [<-|[<-|[]]]; [reflexivity|]. exfalso. apply Hn. left. reflexivity.
  - intros i t j Hi Ht Hj. destruct Hi as [<-|[]]. destruct Ht as [<-|[]]. cbn in Hj. destruct Hj as [<-|[<-|[]]]; cbn; lia.
  - intros i t Hi Ht. destruct Hi as [<-|[]]. destruct Ht as [<-|[]]. cbn. intros [H|[H|[]]]; lia.
  - intros i Hi. destruct Hi as [<-|[]]. cbn. intros [H|[]]. lia.
Qed.

(* C01 property theorems about the exponent / return-shape bookkeeping of the
   contraction entry points: statements only (model and proofs: coq/C01/Exponent.v).
   K is an ARBITRARY commutative ring, E an arbitrary exponent type with a
   homomorphism ten : E -> K, stripf an arbitrary mantissa/exponent splitting used
   only through its contract strip_ok; the tagged tensors are contracted along ANY
   path (steps of Base/TN.v).  No axioms. *)
From Coq Require Import ZArith Arith List Ring Permutation Bool Lia.
From QV Require Import Base.Sums Base.TN Base.TNExec C04.Rules C04.Proofs C01.Exponent.
Import ListNotations.

Section C01Exp.
  Variable K : Type.
  Variables (k0 k1 : K) (kadd kmul ksub : K -> K -> K) (kopp : K -> K).
  Hypothesis Kring : ring_theory k0 k1 kadd kmul ksub kopp eq.
  Variable dim : nat -> nat.
  Variable E : Type.
  Variable eadd : E -> E -> E.
  Variable ten : E -> K.
  Hypothesis ten_add : forall a b, ten (eadd a b) = kmul (ten a) (ten b).
  Variable e0 : E.
  Hypothesis ten_e0 : ten e0 = k1.
  Variable ez : E -> bool.
  Hypothesis ez_sound : forall e, ez e = true -> ten e = k1.
  Variable stripf : tensor K -> tensor K * E.

  Notation den := (Proofs.den K k0 k1 kadd kmul dim E ten).
  Notation rden := (rden K k0 k1 kadd kmul dim E ten).
  Notation strip_ok := (strip_ok K kmul E ten stripf).
  Notation steps := (TN.steps K k0 kadd kmul dim).

  (* tn.contract(all) / tn ^ all, not in place: the whole network goes to tensor_contract with
     exponent=tn.exponent.  With or without strip_exponent, scalar or tensor, the returned object
     denotes ten(exponent) * value - the stored exponent is neither dropped nor applied twice. *)
  Theorem C01_contract_all_keeps_exponent : forall ts L e V strip outs_empty preserve s,
    Forall (wf K) ts -> steps (ts, L) ([V], []) -> (strip = true -> strip_ok V) ->
    rden (tensor_contract_flow K kmul E eadd ten stripf V strip (Some e) outs_empty preserve) s = den (ts, L, e) s.
  Proof. intros *; eapply contract_all_sound; eassumption. Qed.

  (* contract_tags / contract(tags): for EVERY combination of strip_exponent, equalize_norms in
     {auto, True, False}, inplace, preserve_tensor, scalar or tensor output, tags covering all tensors or
     not, stored exponent zero or not, and ANY contraction path of the tagged tensors, what is returned -
     scalar, tensor, (mantissa, exponent) pair or network - denotes the value of the network it was called on. *)
  Theorem C01_contract_tags_keeps_value : forall ts L e V rest S' strip eq inplace preserve outs_empty s,
    Forall (wf K) ts -> steps (ts, L) (V :: rest, S') ->
    (rest = [] -> inplace = false -> S' = []) ->
    (resolve_eq eq strip || strip = true -> strip_ok V) ->
    rden (contract_tags_flow K kmul E eadd ten ez stripf e V rest S' strip eq inplace preserve outs_empty) s
    = den (ts, L, e) s.
  Proof. intros *; eapply contract_tags_flow_sound; eassumption. Qed.

  (* the executable shape table (compared with the implementation over the whole option cube) is the
     shape of the modelled flow *)
  Theorem C01_contract_tags_shape_table : forall e V rest S' strip eq inplace preserve outs_empty,
    rkind K E (contract_tags_flow K kmul E eadd ten ez stripf e V rest S' strip eq inplace preserve outs_empty)
    = snd (fst (contract_tags_shape strip eq inplace preserve outs_empty (is_nil rest) (ez e))).
  Proof. intros *; eapply contract_tags_flow_kind; eassumption. Qed.

  Theorem C01_contract_tags_network_result : forall e V rest S' strip eq inplace preserve outs_empty x,
    contract_tags_flow K kmul E eadd ten ez stripf e V rest S' strip eq inplace preserve outs_empty = RNet K E x ->
    tl (Proofs.st_tensors K E x) = rest /\ Proofs.st_summed K E x = S' /\
    (snd (contract_tags_shape strip eq inplace preserve outs_empty (is_nil rest) (ez e)) = false ->
     Proofs.st_exp K E x = e).
  Proof. intros *; eapply contract_tags_flow_net; eassumption. Qed.

  (* TensorNetwork.contract (max_bond=None, no structured route): both dispatch targets agree with den *)
  Theorem C01_contract_dispatch_keeps_value : forall all_tags ts L e V rest S' strip inplace preserve outs_empty s,
    Forall (wf K) ts -> steps (ts, L) (V :: rest, S') ->
    (all_tags = true -> rest = [] /\ S' = []) ->
    (rest = [] -> inplace = false -> S' = []) ->
    (strip = true -> strip_ok V) ->
    rden (contract_flow K kmul E eadd ten ez stripf all_tags e V rest S' strip inplace preserve outs_empty) s
    = den (ts, L, e) s.
  Proof. intros *; eapply contract_flow_sound; eassumption. Qed.

  (* maybe_unwrap of a network (after the optional equalize_norms_, any composition xe of C04's sound
     rules) and of a bare tensor *)
  Theorem C01_maybe_unwrap_network_keeps_value : forall x xe preserve_tn preserve strip outs_empty s,
    Proofs.rws K k0 k1 kadd kmul dim E eadd ten x xe -> Forall (wf K) (Proofs.st_tensors K E x) ->
    Rules.inrange dim s ->
    (forall t, Proofs.st_tensors K E xe = [t] -> preserve_tn = false ->
       Proofs.st_summed K E xe = [] /\ (strip = true -> strip_ok t)) ->
    rden (maybe_unwrap_net K kmul E eadd ten ez stripf xe preserve_tn preserve strip outs_empty) s = den x s.
  Proof. intros *; eapply maybe_unwrap_net_sound; eassumption. Qed.

  Theorem C01_maybe_unwrap_tensor_keeps_value : forall t preserve strip outs_empty s,
    (strip = true -> strip_ok t) ->
    rden (maybe_unwrap_tensor K kmul E eadd ten e0 ez stripf t preserve strip outs_empty) s = tval K t s.
  Proof. intros *; eapply maybe_unwrap_tensor_sound; eassumption. Qed.

  Theorem C01_maybe_unwrap_shape_table : forall xe preserve_tn preserve strip outs_empty,
    rkind K E (maybe_unwrap_net K kmul E eadd ten ez stripf xe preserve_tn preserve strip outs_empty)
    = maybe_unwrap_shape true (match Proofs.st_tensors K E xe with _ :: nil => true | _ => false end)
                         preserve_tn preserve strip outs_empty.
  Proof. intros *; eapply maybe_unwrap_net_kind; eassumption. Qed.

  (* contract_cumulative: ANY number of in-place rounds (each with its own tag group, its own path, with or
     without norm equalisation) followed by maybe_unwrap denotes the network it started from *)
  Theorem C01_contract_cumulative_keeps_value : forall eqz x y xe preserve_tn preserve strip outs_empty s,
    cum_rounds K k0 kadd kmul dim E eadd ten stripf eqz x y ->
    Proofs.rws K k0 k1 kadd kmul dim E eadd ten y xe -> Forall (wf K) (Proofs.st_tensors K E y) ->
    Rules.inrange dim s ->
    (forall t, Proofs.st_tensors K E xe = [t] -> preserve_tn = false ->
       Proofs.st_summed K E xe = [] /\ (strip = true -> strip_ok t)) ->
    rden (maybe_unwrap_net K kmul E eadd ten ez stripf xe preserve_tn preserve strip outs_empty) s = den x s.
  Proof. intros *; eapply contract_cumulative_sound; eassumption. Qed.
End C01Exp.

Print Assumptions C01_contract_all_keeps_exponent.
Print Assumptions C01_contract_tags_keeps_value.
Print Assumptions C01_contract_tags_shape_table.
Print Assumptions C01_contract_tags_network_result.
Print Assumptions C01_contract_dispatch_keeps_value.
Print Assumptions C01_maybe_unwrap_network_keeps_value.
Print Assumptions C01_maybe_unwrap_tensor_keeps_value.
Print Assumptions C01_maybe_unwrap_shape_table.
Print Assumptions C01_contract_cumulative_keeps_value.

(* non-vacuity: the hypotheses are satisfiable over the Gaussian integers with E = nat, ten n = 10^n,
   and a splitting that takes out one factor of ten from a tensor all of whose entries are multiples of ten;
   the flow on a concrete two-tensor network with stored exponent 2 returns a pair denoting 100 * value *)
Definition gten (n : nat) : G := (Z.pow 10 (Z.of_nat n), 0%Z).
Example C01_exponent_flow_example :
  let a := arr_tensor [0; 1] [2; 2] [(10,0); (20,0); (30,0); (40,0)]%Z in
  let b := arr_tensor [1] [2] [(1,0); (0,1)]%Z in
  let dims := [(0, 2); (1, 2)] in
  let V := contract2 G g0 gadd gmul (lookup dims) a b [1] in
  let M := contract2 G g0 gadd gmul (lookup dims) (arr_tensor [0; 1] [2; 2] [(1,0); (2,0); (3,0); (4,0)]%Z) b [1] in
  let stripf := fun (t : tensor G) => (M, 1) in
  (* V = 10 * M entrywise, so the splitting contract holds for V *)
  (forall v, v < 2 -> tval G V (fun _ => v) = gmul (gten 1) (tval G M (fun _ => v)))
  /\ rkind G nat (contract_tags_flow G gmul nat Nat.add gten (Nat.eqb 0) stripf 2 V [] [] true EqAuto false false false) = KPairTensor
  /\ rden G g0 g1 gadd gmul (lookup dims) nat gten
       (contract_tags_flow G gmul nat Nat.add gten (Nat.eqb 0) stripf 2 V [] [] true EqAuto false false false) (fun _ => 1)
     = gmul (gten 2) (tval G V (fun _ => 1)).
Proof.
  cbv zeta. split; [|split].
  - intros v Hv. destruct v as [|[|v]]; [vm_compute; reflexivity | vm_compute; reflexivity | lia].
  - vm_compute. reflexivity.
  - vm_compute. reflexivity.
Qed.

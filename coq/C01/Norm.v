(* C01 - norm / overlap with explicit output labels (TensorNetwork.conj(mangle_inner, output_inds),
   make_norm, norm, make_overlap, overlap).  The bra is the conjugated copy in which EVERY label
   that is not a requested output is renamed to a fresh one (`oset(tn.ind_map) - output_inds`):
   then ket and bra share exactly the output labels, and the network  ket | bra  summed over
   everything denotes
        sum_O  A[O] * conj(B[O]),      A[O] = sum over all non-output labels of the ket,
   i.e. vdot(B.to_dense(O), A.to_dense(O)), and for B = A the squared norm of to_dense(O) -
   whatever the internal structure (hyper labels, dangling labels that are not outputs).
   Built on C13/Network.v (double_layer_factorises, bra_layer_value) over any commutative
   ring with an involution. *)
From Coq Require Import Arith List Lia Ring PeanoNat.
From QV Require Import Base.Sums Base.TN C13.Network.
Import ListNotations.

Section Norm.
  Variable K : Type.
  Variables (k0 k1 : K) (kadd kmul ksub : K -> K -> K) (kopp : K -> K).
  Hypothesis Kring : ring_theory k0 k1 kadd kmul ksub kopp eq.
  Variable dim : nat -> nat.
  Variable conj : K -> K.
  Hypothesis conj_add : forall a b, conj (kadd a b) = kadd (conj a) (conj b).
  Hypothesis conj_mul : forall a b, conj (kmul a b) = kmul (conj a) (conj b).
  Hypothesis conj_invol : forall a, conj (conj a) = a.
  Variable ren : nat -> nat.
  Hypothesis ren_inj : forall i j, ren i = ren j -> i = j.
  Hypothesis ren_dim : forall i, dim (ren i) = dim i.

  Notation value := (TN.value K k0 k1 kadd kmul dim).
  Notation sum_over := (TN.sum_over K k0 kadd dim).
  Notation bra := (bra_tensor K conj ren).

  (* a sum over the labels L of a function that only reads the labels P depends only on P minus L *)
  Lemma sum_over_bound (P : list nat) L f :
    (forall s s', (forall i, In i P -> s i = s' i) -> f s = f s') ->
    forall s s', (forall i, In i P -> ~ In i L -> s i = s' i) ->
    sum_over L f s = sum_over L f s'.
  Proof.
    intros Hf. induction L as [|i L IH]; intros s s' H; cbn [TN.sum_over].
    - apply Hf. intros j Hj. apply H; [exact Hj | intros []].
    - apply sum_ext. intros v _. apply IH. intros j HjP Hj. unfold upd.
      destruct (Nat.eqb j i) eqn:E; [reflexivity|]. apply H; [exact HjP|]. intros [Hji|Hin]; [|contradiction].
      subst. rewrite Nat.eqb_refl in E. discriminate.
  Qed.

  Definition labels (ts : list (tensor K)) : list nat := flat_map (tinds K) ts.

  Lemma tprod_reads_labels ts : Forall (wf K) ts ->
    forall s s', (forall i, In i (labels ts) -> s i = s' i) -> tprod K k1 kmul ts s = tprod K k1 kmul ts s'.
  Proof.
    induction 1 as [|t ts Ht Hts IH]; intros s s' H; [reflexivity|].
    unfold tprod in *. cbn [map prodK]. f_equal.
    - apply Ht. intros i Hi. apply H. unfold labels. cbn [flat_map]. apply in_or_app. left. exact Hi.
    - apply IH. intros i Hi. apply H. unfold labels. cbn [flat_map]. apply in_or_app. right. exact Hi.
  Qed.

  (* overlap(A, B, output_inds = T): SA / SB are ALL the other labels of A / B; ren renames B's to fresh
     ones and is the identity elsewhere *)
  Theorem overlap_network_value A B SA SB T s :
    Forall (wf K) A -> Forall (wf K) B ->
    (forall i, In i (labels B) -> ~ In i SB -> ren i = i) ->                     (* B's output labels keep their names *)
    (forall i t j, In i SA -> In t B -> In j (tinds K t) -> ren j <> i) ->        (* the bra carries none of A's summed labels *)
    (forall i t, In i SB -> In t A -> ~ In (ren i) (tinds K t)) ->                (* the renamed labels are fresh for A *)
    (forall i, In i SA -> ~ In i (map ren SB)) ->
    value (A ++ map bra B) (T ++ SA ++ map ren SB) s
    = sum_over T (fun s' => kmul (value A SA s') (conj (value B SB s'))) s.
  Proof.
    intros HA HB Hid HfA HfB Hd.
    rewrite (double_layer_factorises K k0 k1 kadd kmul ksub kopp Kring dim).
    - apply (sum_over_ext_fun K k0 kadd dim). intros s'.
      rewrite (bra_layer_value K k0 k1 kadd kmul ksub kopp Kring dim conj conj_add conj_mul conj_invol ren ren_inj ren_dim) by exact HB.
      f_equal. f_equal. unfold TN.value. apply (sum_over_bound (labels B)).
      + apply tprod_reads_labels. exact HB.
      + intros i HiP Hi. rewrite (Hid i HiP Hi). reflexivity.
    - exact HA.
    - apply Forall_forall. intros t Ht. apply in_map_iff in Ht. destruct Ht as [t0 [<- Ht0]].
      apply wf_bra. rewrite Forall_forall in HB. apply HB. exact Ht0.
    - intros i t Hi Ht. apply in_map_iff in Ht. destruct Ht as [t0 [<- Ht0]].
      cbn [bra_tensor tinds]. intros Hin. apply in_map_iff in Hin. destruct Hin as [j [Ej Hj]].
      exact (HfA i t0 j Hi Ht0 Hj Ej).
    - intros i t Hi Ht. apply in_map_iff in Hi. destruct Hi as [i0 [<- Hi0]]. apply HfB; assumption.
    - exact Hd.
  Qed.

  (* norm(output_inds = T)^2 = sum_T |A[T]|^2 *)
  Corollary norm_network_value A SA T s :
    Forall (wf K) A ->
    (forall i, In i (labels A) -> ~ In i SA -> ren i = i) ->
    (forall i t j, In i SA -> In t A -> In j (tinds K t) -> ren j <> i) ->
    (forall i t, In i SA -> In t A -> ~ In (ren i) (tinds K t)) ->
    (forall i, In i SA -> ~ In i (map ren SA)) ->
    value (A ++ map bra A) (T ++ SA ++ map ren SA) s
    = sum_over T (fun s' => kmul (value A SA s') (conj (value A SA s'))) s.
  Proof. intros HA Hid H1 H2 H3. apply overlap_network_value; assumption. Qed.

End Norm.

(* C01 property theorems: statements only (proofs: coq/Base/TN.v, Base/TNExec.v).
   K is an ARBITRARY commutative ring (so Z, Z[i], Q, R, C ...): no axioms. *)
From Coq Require Import ZArith Arith List Ring Permutation.
From QV Require Import Base.Sums Base.TN Base.TNExec.
Import ListNotations.

Section C01.
  Variable K : Type.
  Variables (k0 k1 : K) (kadd kmul ksub : K -> K -> K) (kopp : K -> K).
  Hypothesis Kring : ring_theory k0 k1 kadd kmul ksub kopp eq.
  Variable dim : nat -> nat.

  (* One pairwise contraction over labels S that occur on no other tensor and
     are neither outputs nor summed later preserves the value of the network -
     hyper-indices included (a label is summed at a step only when nothing else
     carries it). *)
  Theorem C01_contract_step_sound : forall a b others S R s,
    wf K a -> wf K b -> Forall (wf K) others ->
    (forall i, In i S -> ~ In i R) ->
    (forall i t, In i S -> In t others -> ~ In i (tinds K t)) ->
    value K k0 k1 kadd kmul dim (a :: b :: others) (S ++ R) s
    = value K k0 k1 kadd kmul dim (contract2 K k0 kadd kmul dim a b S :: others) R s.
  Proof. exact (contract_step_sound K k0 k1 kadd kmul ksub kopp Kring dim). Qed.

  (* Every contraction path (any pairing order, any order of summing labels)
     denotes the same value as the original network. *)
  Theorem C01_every_path_same_value : forall x y,
    steps K k0 kadd kmul dim x y -> Forall (wf K) (fst x) ->
    forall s, value K k0 k1 kadd kmul dim (fst x) (snd x) s = value K k0 k1 kadd kmul dim (fst y) (snd y) s.
  Proof. exact (path_sound K k0 k1 kadd kmul ksub kopp Kring dim). Qed.

  (* Contracting down to one tensor returns exactly the network value as that tensor's entries. *)
  Theorem C01_full_contraction_returns_value : forall ts L t s,
    steps K k0 kadd kmul dim (ts, L) ([t], []) -> Forall (wf K) ts ->
    value K k0 k1 kadd kmul dim ts L s = tval K t s.
  Proof. exact (path_to_single K k0 k1 kadd kmul ksub kopp Kring dim). Qed.

  (* tensor insertion order is irrelevant *)
  Theorem C01_value_tensor_order_irrelevant : forall ts ts' summed s, Permutation ts ts' ->
    value K k0 k1 kadd kmul dim ts summed s = value K k0 k1 kadd kmul dim ts' summed s.
  Proof. exact (value_perm K k0 k1 kadd kmul ksub kopp Kring dim). Qed.

  (* the order in which labels are summed is irrelevant *)
  Theorem C01_value_summation_order_irrelevant : forall ts A B s, Forall (wf K) ts ->
    (forall i, In i A -> ~ In i B) ->
    value K k0 k1 kadd kmul dim ts (A ++ B) s = value K k0 k1 kadd kmul dim ts (B ++ A) s.
  Proof. exact (value_summed_swap K k0 k1 kadd kmul ksub kopp Kring dim). Qed.
End C01.

Print Assumptions C01_contract_step_sound.
Print Assumptions C01_every_path_same_value.
Print Assumptions C01_full_contraction_returns_value.
Print Assumptions C01_value_tensor_order_irrelevant.
Print Assumptions C01_value_summation_order_irrelevant.

(* the executable instance used by the correspondence satisfies the theorems *)
Theorem C01_executable_instance_paths : forall dims x y,
  steps G g0 gadd gmul (lookup dims) x y -> Forall (wf G) (fst x) ->
  forall s, gvalue dims (fst x) (snd x) s = gvalue dims (fst y) (snd y) s.
Proof. exact gpath_sound. Qed.
Print Assumptions C01_executable_instance_paths.

Theorem C01_array_tensors_wellformed : forall inds shape data, wf G (arr_tensor inds shape data).
Proof. exact arr_tensor_wf. Qed.
Print Assumptions C01_array_tensors_wellformed.

(* non-vacuity: a 3-tensor hyper network (label 1 on all three tensors), one legal step *)
Example C01_hyper_example :
  let a := arr_tensor [0; 1] [2; 2] [(1,0); (2,0); (3,0); (4,0)]%Z in
  let b := arr_tensor [1; 2] [2; 2] [(0,1); (1,0); (1,0); (0,0)]%Z in
  let c := arr_tensor [1] [2] [(5,0); (7,0)]%Z in
  let dims := [(0, 2); (1, 2); (2, 2)] in
  dense dims [a; b; c] [0] = [(19, 5); (43, 15)]%Z
  /\ dense dims [contract2 G g0 gadd gmul (lookup dims) a b [2]; c] [0] = [(19, 5); (43, 15)]%Z.
Proof. vm_compute. split; reflexivity. Qed.

(* C02 - the invariant and its preservation by the primitive heap operations. *)
From Coq Require Import List Arith Bool PeanoNat Lia.
From QV Require Import C02.Model C02.Lists.
Import ListNotations.

(* ------------------------------------------------------------------ *)
(* more list facts                                                     *)

Lemma In_aget_iff : forall {V} k (v : V) m, NoDup (akeys m) -> (In (k, v) m <-> aget k m = Some v).
Proof. intros; split; [apply In_aget; auto|apply aget_In]. Qed.

Lemma aget_In_snd : forall k (v : nat) (m : list (nat * nat)), aget k m = Some v -> In v (map snd m).
Proof. intros. apply aget_In in H. apply (in_map snd) in H; auto. Qed.

Lemma aget_inj : forall (m : list (nat * nat)) k1 k2 v,
  NoDup (map snd m) -> aget k1 m = Some v -> aget k2 m = Some v -> k1 = k2.
Proof.
  induction m as [|[k0 v0] m]; simpl; intros k1 k2 v ND H1 H2; [discriminate|].
  inversion ND; subst.
  destruct (k1 =? k0) eqn:E1; destruct (k2 =? k0) eqn:E2.
  - apply Nat.eqb_eq in E1, E2; congruence.
  - inversion H1; subst. apply aget_In_snd in H2. tauto.
  - inversion H2; subst. apply aget_In_snd in H1. tauto.
  - eapply IHm; eauto.
Qed.

Lemma In_aset_iff : forall {V} k (v : V) k' v' m, NoDup (akeys m) ->
  (In (k', v') (aset k v m) <-> (k' = k /\ v' = v) \/ (k' <> k /\ In (k', v') m)).
Proof.
  intros. rewrite In_aget_iff by (apply akeys_aset_NoDup; auto).
  destruct (Nat.eq_dec k' k) as [->|Hn].
  - rewrite aget_aset_same. split.
    + intros E; inversion E; auto.
    + intros [[_ ->]|[? _]]; [auto|congruence].
  - rewrite aget_aset_other by auto. rewrite <- In_aget_iff by auto. split; auto.
    intros [[? _]|[_ ?]]; [congruence|auto].
Qed.

Lemma NoDup_app_single : forall {A} (l : list A) x, NoDup l -> ~ In x l -> NoDup (l ++ [x]).
Proof.
  induction l; simpl; intros.
  - constructor; [intros []|constructor].
  - inversion H; subst. constructor.
    + rewrite in_app_iff; simpl. intros [?|[?|[]]]; auto; subst; apply H0; auto.
    + apply IHl; auto.
Qed.

Lemma NoDup_map_filter : forall {A B} (f : A -> B) p l, NoDup (map f l) -> NoDup (map f (filter p l)).
Proof.
  induction l; simpl; intros; auto.
  inversion H; subst. destruct (p a); simpl; auto.
  constructor; auto. intros Hin; apply H2.
  apply in_map_iff in Hin as [x [E Hx]]. apply filter_In in Hx as [Hx _]. rewrite <- E; apply in_map; auto.
Qed.

Lemma aget_filter_live : forall (p : nat -> bool) (m : list (nat * nat)) k v,
  NoDup (akeys m) ->
  (aget k (filter (fun q => p (fst q)) m) = Some v <-> aget k m = Some v /\ p k = true).
Proof.
  intros p m k v ND.
  assert (NoDup (akeys (filter (fun q => p (fst q)) m))) as ND' by (apply NoDup_map_filter; auto).
  rewrite <- !In_aget_iff by auto. rewrite filter_In; simpl; tauto.
Qed.

(* ------------------------------------------------------------------ *)
(* the invariant                                                       *)

Definition holds (h : heap) (m tid r : nat) : Prop := aget tid (n_tmap (h_N h m)) = Some r.
Definition Cind (h : heap) (m tid i : nat) : Prop := exists r, holds h m tid r /\ In i (t_inds (h_T h r)).
Definition Ctag (h : heap) (m tid g : nat) : Prop := exists r, holds h m tid r /\ In g (t_tags (h_T h r)).

Record NetGood (h : heap) (m : nat) : Prop := mkNG {
  ng_keys : NoDup (akeys (n_tmap (h_N h m)));
  ng_vals : NoDup (map snd (n_tmap (h_N h m)));          (* no tensor object twice *)
  ng_range : forall tid r, holds h m tid r -> r < h_nt h;
  ng_imap : map_ok (n_imap (h_N h m)) (Cind h m);
  ng_gmap : map_ok (n_gmap (h_N h m)) (Ctag h m);
  ng_io : io_ok (n_imap (h_N h m)) (n_inner (h_N h m)) (n_outer (h_N h m))
}.

Record Good (h : heap) : Prop := mkGood {
  g_nets : forall m, live h m = true -> NetGood h m;
  g_live_range : forall m, live h m = true -> m < h_nn h;
  g_inds : forall r, NoDup (t_inds (h_T h r));           (* no label twice on one tensor *)
  g_own_keys : forall r, NoDup (akeys (t_owners (h_T h r)));
  g_own_range : forall r m tid, In (m, tid) (t_owners (h_T h r)) -> m < h_nn h;
  g_own : forall r m tid, live h m = true -> (In (m, tid) (t_owners (h_T h r)) <-> holds h m tid r);
  g_pub : forall r, In r (h_pub h) -> r < h_nt h
}.

(* a network's part of the invariant only depends on its own maps and on the
   label / tag sets of the tensors it holds *)
Lemma NetGood_frame : forall h h' m,
  n_tmap (h_N h' m) = n_tmap (h_N h m) -> n_imap (h_N h' m) = n_imap (h_N h m) ->
  n_gmap (h_N h' m) = n_gmap (h_N h m) -> n_inner (h_N h' m) = n_inner (h_N h m) ->
  n_outer (h_N h' m) = n_outer (h_N h m) -> h_nt h <= h_nt h' ->
  (forall tid r, holds h m tid r ->
     (forall j, In j (t_inds (h_T h' r)) <-> In j (t_inds (h_T h r)))
     /\ (forall g, In g (t_tags (h_T h' r)) <-> In g (t_tags (h_T h r)))) ->
  NetGood h m -> NetGood h' m.
Proof.
  intros h h' m E1 E2 E3 E4 E5 Hnt HT [K V R I G IO].
  assert (forall tid r, holds h' m tid r <-> holds h m tid r) as Hh by (intros; unfold holds; rewrite E1; tauto).
  constructor; rewrite ?E1, ?E2, ?E3, ?E4, ?E5; auto.
  - intros tid r Hr. apply Hh in Hr. apply R in Hr. lia.
  - eapply map_ok_ext; [|apply I]. intros t i; unfold Cind; split; intros [r [Hr Hi]]; exists r.
    + split; [apply Hh; auto|apply (HT t r); auto].
    + apply Hh in Hr. split; auto. apply (HT t r); auto.
  - eapply map_ok_ext; [|apply G]. intros t i; unfold Ctag; split; intros [r [Hr Hi]]; exists r.
    + split; [apply Hh; auto|apply (HT t r); auto].
    + apply Hh in Hr. split; auto. apply (HT t r); auto.
Qed.

Lemma Good_same : forall h h',
  h_T h' = h_T h -> h_nt h' = h_nt h -> h_N h' = h_N h -> h_nn h' = h_nn h ->
  (forall r, In r (h_pub h') -> r < h_nt h) -> Good h -> Good h'.
Proof.
  intros h h' ET Ent EN Enn Hp [A B C D E F G].
  assert (forall m, live h' m = live h m) as Lv by (intros; unfold live; rewrite EN; auto).
  constructor; try rewrite ET; try rewrite Enn; try rewrite Ent; auto.
  - intros m Hm. rewrite Lv in Hm. apply (NetGood_frame h); rewrite ?EN, ?ET, ?Ent; auto. intros; tauto.
  - intros m Hm. rewrite Lv in Hm. auto.
  - intros r m tid Hm. rewrite Lv in Hm. unfold holds. rewrite EN. apply F; auto.
Qed.

Lemma Good_andok : forall h b, Good h -> Good (andok h b).
Proof. intros h b H; apply (Good_same h); auto. apply (g_pub _ H). Qed.

Lemma Good_set_fresh : forall h f, Good h -> Good (set_fresh h f).
Proof. intros h b H; apply (Good_same h); auto. apply (g_pub _ H). Qed.

(* ------------------------------------------------------------------ *)
(* alloc_tensor / alloc_net                                            *)

Lemma alloc_tensor_good : forall h inds tags, Good h -> NoDup inds -> Good (fst (alloc_tensor h inds tags)).
Proof.
  intros h inds tags [A B C D E F G] ND. unfold alloc_tensor; cbn [fst].
  constructor; cbn [h_T h_nt h_N h_nn h_pub].
  - intros m Hm. change (live h m = true) in Hm.
    apply (NetGood_frame h); cbn [h_T h_nt h_N]; auto.
    intros tid r Hr. apply (ng_range _ _ (A m Hm)) in Hr.
    destruct (Nat.eqb_spec r (h_nt h)); [lia|tauto].
  - intros m Hm. apply B; auto.
  - intros r. destruct (Nat.eqb_spec r (h_nt h)); cbn [t_inds]; auto.
  - intros r. destruct (Nat.eqb_spec r (h_nt h)); cbn [t_owners]; auto. constructor.
  - intros r m tid. destruct (Nat.eqb_spec r (h_nt h)); cbn [t_owners]; [intros []|apply E].
  - intros r m tid Hm. change (live h m = true) in Hm.
    destruct (Nat.eqb_spec r (h_nt h)) as [->|Hn]; cbn [t_owners]; [|apply F; auto].
    split; [intros []|]. intros Hr. change (holds h m tid (h_nt h)) in Hr.
    apply (ng_range _ _ (A m Hm)) in Hr. lia.
  - intros r Hr. apply G in Hr. lia.
Qed.

Lemma empty_NetGood : forall h m, n_tmap (h_N h m) = [] -> n_imap (h_N h m) = [] -> n_gmap (h_N h m) = [] ->
  n_inner (h_N h m) = [] -> n_outer (h_N h m) = [] -> NetGood h m.
Proof.
  intros h m E1 E2 E3 E4 E5.
  assert (forall tid r, ~ holds h m tid r) as Hh by (intros tid r; unfold holds; rewrite E1; discriminate).
  constructor; rewrite ?E1, ?E2, ?E3, ?E4, ?E5; simpl.
  - constructor.
  - constructor.
  - intros tid r Hr; exfalso; eapply Hh; eauto.
  - eapply map_ok_ext; [|apply map_ok_empty]. intros t i; split; [tauto|]. intros [r [Hr _]]; eapply Hh; eauto.
  - eapply map_ok_ext; [|apply map_ok_empty]. intros t i; split; [tauto|]. intros [r [Hr _]]; eapply Hh; eauto.
  - apply io_ok_empty.
Qed.

Lemma alloc_net_good : forall h, Good h -> Good (fst (alloc_net h)).
Proof.
  intros h [A B C D E F G]. unfold alloc_net; cbn [fst].
  constructor; cbn [h_T h_nt h_N h_nn h_pub].
  - intros m Hm. unfold live in Hm; cbn [h_N] in Hm.
    destruct (Nat.eq_dec m (h_nn h)) as [Em|Hn].
    + subst m. apply empty_NetGood; cbn [h_N]; rewrite Nat.eqb_refl; auto.
    + pose proof (proj2 (Nat.eqb_neq _ _) Hn) as Eb. rewrite Eb in Hm.
      apply (NetGood_frame h); cbn [h_T h_nt h_N]; rewrite ?Eb; auto.
      intros; tauto.
  - intros m Hm. unfold live in Hm; cbn [h_N] in Hm.
    destruct (Nat.eq_dec m (h_nn h)) as [Em|Hn]; [lia|].
    rewrite (proj2 (Nat.eqb_neq _ _) Hn) in Hm. specialize (B m Hm). lia.
  - exact C.
  - exact D.
  - intros r m tid Hi. specialize (E r m tid Hi). lia.
  - intros r m tid Hm. unfold live in Hm; cbn [h_N] in Hm. unfold holds; cbn [h_N].
    destruct (Nat.eq_dec m (h_nn h)) as [Em|Hn].
    + subst m. rewrite Nat.eqb_refl. split; [intros Hi; specialize (E r _ tid Hi); lia|discriminate].
    + rewrite (proj2 (Nat.eqb_neq _ _) Hn) in *. apply F; auto.
  - exact G.
Qed.

(* ------------------------------------------------------------------ *)
(* attach (the core of add_tensor)                                     *)

Lemma attach_good : forall h m r tid ctr,
  Good h -> live h m = true -> r < h_nt h ->
  aget tid (n_tmap (h_N h m)) = None -> ~ In r (map snd (n_tmap (h_N h m))) ->
  Good (attach h m r tid ctr).
Proof.
  intros h m r tid ctr [A B C D E F G] Hm Hr Hfresh Hnew.
  pose proof (A m Hm) as [K V R I Gm IO].
  unfold attach.
  destruct (link_inds (t_inds (h_T h r)) tid (n_imap (h_N h m), n_inner (h_N h m), n_outer (h_N h m)))
    as [[im inn] out] eqn:EL.
  assert (ist_ok (im, inn, out) (fun t j => Cind h m t j \/ (t = tid /\ In j (t_inds (h_T h r))))) as HL.
  { rewrite <- EL. apply link_inds_ok; [split; auto|apply C|].
    intros i _ [r0 [Hh _]]. unfold holds in Hh. congruence. }
  destruct HL as [HLm HLio].
  pose proof (link_tags_ok (t_tags (h_T h r)) tid _ _ Gm) as HG.
  set (h' := setN _ _ _).
  assert (forall k, t_inds (h_T h' k) = t_inds (h_T h k)) as Ti.
  { intros k; subst h'; cbn [h_T setN setT]. destruct (Nat.eqb_spec k r) as [->|]; auto. }
  assert (forall k, t_tags (h_T h' k) = t_tags (h_T h k)) as Tg.
  { intros k; subst h'; cbn [h_T setN setT]. destruct (Nat.eqb_spec k r) as [->|]; auto. }
  assert (forall k, t_owners (h_T h' k) = if k =? r then aset m tid (t_owners (h_T h r)) else t_owners (h_T h k)) as To.
  { intros k; subst h'; cbn [h_T setN setT]. destruct (k =? r); auto. }
  assert (forall k, live h' k = live h k) as Lv.
  { intros k; subst h'; unfold live; cbn [h_N setN setT]. destruct (Nat.eqb_spec k m) as [->|]; auto. }
  assert (forall k, k <> m -> h_N h' k = h_N h k) as Nk.
  { intros k Hk; subst h'; cbn [h_N setN setT]. destruct (Nat.eqb_spec k m); [lia|auto]. }
  assert (n_tmap (h_N h' m) = aset tid r (n_tmap (h_N h m))) as Tm.
  { subst h'; cbn [h_N setN setT]. rewrite Nat.eqb_refl; auto. }
  assert (n_imap (h_N h' m) = im /\ n_inner (h_N h' m) = inn /\ n_outer (h_N h' m) = out
          /\ n_gmap (h_N h' m) = link_tags (t_tags (h_T h r)) tid (n_gmap (h_N h m))) as (Im & Inn & Out & Gmm).
  { subst h'; cbn [h_N setN setT]. rewrite Nat.eqb_refl; auto. }
  assert (h_nt h' = h_nt h /\ h_nn h' = h_nn h /\ h_pub h' = h_pub h) as (Ent & Enn & Epub).
  { subst h'; cbn; auto. }
  clearbody h'.
  assert (forall t r0, holds h' m t r0 <-> (t = tid /\ r0 = r) \/ (t <> tid /\ holds h m t r0)) as Hh.
  { intros t r0. unfold holds. rewrite Tm. destruct (Nat.eq_dec t tid) as [->|Hn].
    - rewrite aget_aset_same. split; [intros E0; inversion E0; auto|intros [[_ ->]|[? _]]; [auto|lia]].
    - rewrite aget_aset_other by auto. split; [auto|intros [[? _]|[_ ?]]; [lia|auto]]. }
  constructor.
  - intros k Hk. rewrite Lv in Hk. destruct (Nat.eq_dec k m) as [->|Hn].
    + constructor.
      * rewrite Tm. apply akeys_aset_NoDup; auto.
      * rewrite Tm, aset_fresh, map_app by auto. simpl. apply NoDup_app_single; auto.
      * intros t r0 H0. rewrite Ent. apply Hh in H0 as [[_ ->]|[_ H0]]; [|apply R in H0]; auto.
      * rewrite Im.
        eapply map_ok_ext; [|apply HLm]. intros t j. unfold Cind. split.
        -- intros [Hc|[-> Hj]].
           ++ destruct Hc as [r0 [H0 Hj]]. exists r0. split.
              ** apply Hh. right; split; auto. intros ->. unfold holds in H0; congruence.
              ** rewrite Ti; auto.
           ++ exists r. split; [apply Hh; auto|rewrite Ti; auto].
        -- intros [r0 [H0 Hj]]. rewrite Ti in Hj. apply Hh in H0 as [[-> ->]|[_ H0]]; [auto|].
           left; exists r0; auto.
      * rewrite Gmm.
        eapply map_ok_ext; [|apply HG]. intros t j. unfold Ctag. split.
        -- intros [Hc|[-> Hj]].
           ++ destruct Hc as [r0 [H0 Hj]]. exists r0. split.
              ** apply Hh. right; split; auto. intros ->. unfold holds in H0; congruence.
              ** rewrite Tg; auto.
           ++ exists r. split; [apply Hh; auto|rewrite Tg; auto].
        -- intros [r0 [H0 Hj]]. rewrite Tg in Hj. apply Hh in H0 as [[-> ->]|[_ H0]]; [auto|].
           left; exists r0; auto.
      * rewrite Im, Inn, Out. auto.
    + apply (NetGood_frame h); rewrite ?Nk by auto; auto; try lia.
      intros; rewrite Ti, Tg; tauto.
  - intros k Hk. rewrite Lv in Hk. rewrite Enn. apply B; auto.
  - intros k. rewrite Ti; auto.
  - intros k. rewrite To. destruct (Nat.eqb_spec k r) as [->|]; auto.
    apply akeys_aset_NoDup; auto.
  - intros k m0 t0. rewrite To, Enn. destruct (Nat.eqb_spec k r) as [->|]; [|apply E].
    rewrite In_aset_iff by auto. intros [[-> _]|[_ Hi]]; [apply B; auto|eapply E; eauto].
  - intros k m0 t0 Hk. rewrite Lv in Hk. rewrite To.
    destruct (Nat.eq_dec m0 m) as [->|Hm0].
    + rewrite Hh. destruct (Nat.eqb_spec k r) as [->|Hk'].
      * rewrite In_aset_iff by auto. split.
        -- intros [[_ ->]|[? _]]; [auto|lia].
        -- intros [[-> _]|[_ H0]]; [auto|]. exfalso. apply Hnew. eapply aget_In_snd; eauto.
      * rewrite F by auto. split.
        -- intros H0. right; split; auto. intros ->. unfold holds in H0; congruence.
        -- intros [[_ ?]|[_ ?]]; [lia|auto].
    + assert (holds h' m0 t0 k <-> holds h m0 t0 k) as -> by (unfold holds; rewrite Nk by auto; tauto).
      destruct (Nat.eqb_spec k r) as [->|Hk'].
      * rewrite In_aset_iff by auto. rewrite <- F by auto. split.
        -- intros [[? _]|[_ ?]]; [lia|auto].
        -- auto.
      * apply F; auto.
  - intros k Hk. rewrite Epub in Hk. rewrite Ent. apply G; auto.
Qed.

(* C02 - unconditional structural facts about every operation of the model:
   the ghost flag only ever goes from true to false, live networks stay live
   (except under Kill), the tensor store only grows. *)
From Coq Require Import List Arith Bool PeanoNat Lia.
From QV Require Import C02.Model C02.Lists.
Import ListNotations.

Record st (h h' : heap) : Prop := mkSt {
  st_ok : h_ok h' = true -> h_ok h = true;
  st_live : forall m, live h m = true -> live h' m = true;
  st_nt : h_nt h <= h_nt h'
}.

Lemma st_refl : forall h, st h h.
Proof. intros; constructor; auto. Qed.

Lemma st_trans : forall a b c, st a b -> st b c -> st a c.
Proof. intros a b c [A1 A2 A3] [B1 B2 B3]; constructor; auto; lia. Qed.

Lemma st_fold : forall {A} (f : heap -> A -> heap), (forall h x, st h (f h x)) -> forall l h, st h (fold_left f l h).
Proof.
  intros A f Hf l; induction l; simpl; intros; [apply st_refl|].
  eapply st_trans; [apply Hf|apply IHl].
Qed.

Lemma st_andok : forall h b, st h (andok h b).
Proof. intros; constructor; auto. cbn. intros H; apply andb_true_iff in H; tauto. Qed.

Lemma st_set_fresh : forall h f, st h (set_fresh h f).
Proof. intros; constructor; auto. Qed.

Lemma st_set_pub : forall h p, st h (set_pub h p).
Proof. intros; constructor; auto. Qed.

Lemma st_publish : forall h, st h (publish h).
Proof. intros; apply st_set_pub. Qed.

Lemma st_publish1 : forall h r, st h (publish1 h r).
Proof. intros; unfold publish1; destruct (mem r (h_pub h)); [apply st_refl|apply st_set_pub]. Qed.

Lemma st_alloc_tensor : forall h i t, st h (fst (alloc_tensor h i t)).
Proof.
  intros; constructor; cbn; auto. intros H; apply andb_true_iff in H; tauto.
Qed.

Lemma st_alloc_net : forall h, st h (fst (alloc_net h)).
Proof.
  intros; constructor; cbn; auto. intros m Hm. unfold live in *; cbn.
  destruct (m =? h_nn h); auto.
Qed.

Lemma live_setN_same_alive : forall h m x k, n_alive x = n_alive (h_N h m) -> live (setN h m x) k = live h k.
Proof. intros; unfold live; cbn. destruct (Nat.eqb_spec k m) as [->|]; auto. Qed.

Lemma st_set_ctr : forall h m c, st h (set_ctr h m c).
Proof.
  intros; constructor; auto. intros k Hk. unfold set_ctr. rewrite live_setN_same_alive; auto.
Qed.

Lemma st_attach : forall h m r tid ctr, st h (attach h m r tid ctr).
Proof.
  intros; unfold attach. destruct (link_inds _ _ _) as [[i inn] out].
  constructor; auto. intros k Hk. rewrite live_setN_same_alive; auto.
Qed.

Lemma st_add_tensor : forall h m r topt v, st h (add_tensor h m r topt v).
Proof.
  intros; unfold add_tensor. destruct (choose_tid _ _) as [tid ctr]. destruct v.
  - eapply st_trans; [apply st_andok|apply st_attach].
  - eapply st_trans; [apply (st_alloc_tensor h)|apply st_attach].
Qed.

Lemma st_pop_tensor : forall h m tid h' r, pop_tensor h m tid = Some (h', r) -> st h h'.
Proof.
  intros h m tid h' r H. unfold pop_tensor in H. destruct (aget tid _) as [r0|]; [|discriminate].
  destruct (unlink_inds _ _ _) as [[i inn] out]. injection H as <- <-.
  constructor; auto. intros k Hk. unfold live; cbn [h_N setT setN].
  destruct (Nat.eqb_spec k m) as [->|]; auto.
Qed.

Lemma notify_live : forall f, (forall x t, n_alive (f x t) = n_alive x) ->
  forall owners h k, live (notify f h owners) k = live h k.
Proof.
  intros f Hf owners; induction owners as [|p l IH]; intros h k; unfold notify in *; simpl; auto.
  rewrite IH. apply live_setN_same_alive. apply Hf.
Qed.

Lemma notify_ok_nt : forall f owners h, h_ok (notify f h owners) = h_ok h /\ h_nt (notify f h owners) = h_nt h.
Proof.
  intros f owners; induction owners as [|p l IH]; intros h; unfold notify in *; simpl; auto.
  destruct (IH (setN h (fst p) (f (h_N h (fst p)) (snd p)))) as [A B]. rewrite A, B; auto.
Qed.

Lemma net_modify_inds_alive : forall x o n t, n_alive (net_modify_inds x o n t) = n_alive x.
Proof. intros; unfold net_modify_inds. destruct (link_inds _ _ _) as [[? ?] ?]; auto. Qed.

Lemma modify_inds_core_facts : forall h r inds,
  h_ok (modify_inds_core h r inds) = h_ok h /\ h_nt (modify_inds_core h r inds) = h_nt h
  /\ forall k, live (modify_inds_core h r inds) k = live h k.
Proof.
  intros; unfold modify_inds_core. destruct (negb (set_eqb _ _)).
  - set (f := fun x tid => net_modify_inds x _ _ tid).
    destruct (notify_ok_nt f (t_owners (h_T (prune_owners h r) r)) (prune_owners h r)) as [A B].
    cbn [h_ok h_nt setT]. rewrite A, B. repeat split; auto.
    intros k. unfold live at 1; cbn [h_N setT]. change (live (notify f (prune_owners h r) (t_owners (h_T (prune_owners h r) r))) k = live h k).
    rewrite notify_live; auto. intros; apply net_modify_inds_alive.
  - cbn; auto.
Qed.

Lemma st_modify_inds : forall h r inds, st h (modify_inds h r inds).
Proof.
  intros; unfold modify_inds. destruct (modify_inds_core_facts (andok h (nodupb inds)) r inds) as (A & B & C).
  constructor.
  - rewrite A. apply (st_ok _ _ (st_andok h _)).
  - intros m Hm. rewrite C. auto.
  - rewrite B; auto.
Qed.

Lemma modify_inds_ok : forall h r inds, h_ok (modify_inds h r inds) = h_ok h && nodupb inds.
Proof. intros; unfold modify_inds. destruct (modify_inds_core_facts (andok h (nodupb inds)) r inds) as (A & _). rewrite A; auto. Qed.

Lemma modify_tags_facts : forall h r tags,
  h_ok (modify_tags h r tags) = h_ok h /\ h_nt (modify_tags h r tags) = h_nt h
  /\ forall k, live (modify_tags h r tags) k = live h k.
Proof.
  intros; unfold modify_tags.
  set (f := fun x tid => net_modify_tags x _ _ tid).
  destruct (notify_ok_nt f (t_owners (h_T (prune_owners h r) r)) (prune_owners h r)) as [A B].
  cbn [h_ok h_nt setT]. rewrite A, B. repeat split; auto.
  intros k. unfold live at 1; cbn [h_N setT]. change (live (notify f (prune_owners h r) (t_owners (h_T (prune_owners h r) r))) k = live h k).
  rewrite notify_live; auto.
Qed.

Lemma st_modify_tags : forall h r tags, st h (modify_tags h r tags).
Proof.
  intros. destruct (modify_tags_facts h r tags) as (A & B & C).
  constructor; [rewrite A; auto|intros m Hm; rewrite C; auto|rewrite B; auto].
Qed.

Lemma st_t_reindex : forall h r f, st h (t_reindex h r f).
Proof. intros; apply st_modify_inds. Qed.
Lemma st_t_retag : forall h r f, st h (t_retag h r f).
Proof. intros; apply st_modify_tags. Qed.
Lemma st_t_add_tag : forall h r f, st h (t_add_tag h r f).
Proof. intros; apply st_modify_tags. Qed.
Lemma st_t_drop_tags : forall h r f, st h (t_drop_tags h r f).
Proof. intros; unfold t_drop_tags; destruct f; apply st_modify_tags. Qed.

Lemma copy_entry_st : forall m v acc p, st (fst acc) (fst (copy_entry m v acc p))
  /\ h_N (fst (copy_entry m v acc p)) = h_N (fst acc) /\ h_nn (fst (copy_entry m v acc p)) = h_nn (fst acc).
Proof.
  intros m v [h tm] [tid r]; unfold copy_entry, alloc_tensor. destruct v; cbn [fst].
  - split; [|split; auto]. constructor; auto.
  - split; [|split; auto]. constructor; cbn; auto. intros H; apply andb_true_iff in H; tauto.
Qed.

Lemma copy_fold_st : forall m v l acc,
  st (fst acc) (fst (fold_left (copy_entry m v) l acc))
  /\ h_N (fst (fold_left (copy_entry m v) l acc)) = h_N (fst acc)
  /\ h_nn (fst (fold_left (copy_entry m v) l acc)) = h_nn (fst acc).
Proof.
  intros m v l; induction l as [|p l IH]; intros acc; simpl.
  - split; [apply st_refl|split; auto].
  - destruct (IH (copy_entry m v acc p)) as (A & B & C). destruct (copy_entry_st m v acc p) as (A' & B' & C').
    split; [eapply st_trans; eauto|split; congruence].
Qed.

Lemma st_copy_net : forall h src v, st h (fst (copy_net h src v)) /\ snd (copy_net h src v) = h_nn h
  /\ live (fst (copy_net h src v)) (h_nn h) = true.
Proof.
  intros; unfold copy_net. unfold alloc_net.
  set (h1 := mkH _ _ _ _ _ _ _).
  destruct (copy_fold_st (h_nn h) v (n_tmap (h_N h src)) (h1, [])) as (A & B & C). cbn [fst] in *.
  destruct (fold_left _ _ _) as [h2 tm]. cbn [fst snd] in *.
  split; [|split; auto].
  - assert (st h h1) as S1 by (apply (st_alloc_net h)).
    eapply st_trans; [exact S1|]. eapply st_trans; [exact A|].
    constructor; auto. intros k Hk. unfold live in *; cbn [h_N setN]. destruct (k =? h_nn h); auto.
  - unfold live; cbn [h_N setN]. rewrite Nat.eqb_refl; auto.
Qed.

Lemma st_pop_many : forall tids h m h' rs, pop_many h m tids = Some (h', rs) -> st h h'.
Proof.
  induction tids as [|tid tids IH]; simpl; intros h m h' rs H.
  - injection H as <- <-. apply st_refl.
  - destruct (pop_tensor h m tid) as [[h1 r]|] eqn:E; [|discriminate].
    destruct (pop_many h1 m tids) as [[h2 rs']|] eqn:E2; [|discriminate].
    injection H as <- <-. eapply st_trans; [eapply st_pop_tensor; eauto|eapply IH; eauto].
Qed.

Lemma st_add_net_entry : forall dst v clash reind h p, st h (add_net_entry dst v clash reind h p).
Proof.
  intros dst v clash reind h [tid r]; unfold add_net_entry.
  destruct (negb (isnil clash) && existsb _ _).
  - destruct v.
    + eapply st_trans; [apply st_modify_inds|apply st_add_tensor].
    + eapply st_trans; [apply (st_alloc_tensor h)|]. apply st_add_tensor.
  - apply st_add_tensor.
Qed.

Lemma st_add_net : forall h dst src v cc, st h (add_net h dst src v cc).
Proof.
  intros; unfold add_net. eapply st_trans; [apply st_set_fresh|]. apply st_fold. intros; apply st_add_net_entry.
Qed.

Lemma st_add_item : forall m v cc h it, st h (add_item m v cc h it).
Proof. intros; destruct it; [apply st_add_tensor|apply st_add_net]. Qed.

Lemma st_build_net : forall h items v cc, st h (fst (build_net h items v cc)) /\ snd (build_net h items v cc) = h_nn h
  /\ live (fst (build_net h items v cc)) (h_nn h) = true.
Proof.
  intros; unfold build_net, alloc_net. set (h1 := mkH _ _ _ _ _ _ _). cbn [fst snd].
  assert (st h h1) as S1 by (apply (st_alloc_net h)).
  pose proof (st_fold (add_item (h_nn h) v cc) (st_add_item _ _ _) items h1) as S2.
  split; [eapply st_trans; eauto|split; auto].
  apply (st_live _ _ S2). unfold live; subst h1; cbn. rewrite Nat.eqb_refl; auto.
Qed.

Lemma st_for_tids : forall f, (forall h r, st h (f h r)) -> forall tids h m h', for_tids f h m tids = Some h' -> st h h'.
Proof.
  intros f Hf tids; induction tids as [|tid tids IH]; simpl; intros h m h' H.
  - injection H as <-. apply st_refl.
  - destruct (aget tid _) as [r|]; [|discriminate]. eapply st_trans; [apply Hf|eapply IH; eauto].
Qed.

Lemma st_add_selected : forall tids n m v h h', add_selected n m v h tids = Some h' -> st h h'.
Proof.
  induction tids as [|tid tids IH]; simpl; intros n m v h h' H.
  - injection H as <-. apply st_refl.
  - destruct (aget tid _) as [r|]; [|discriminate]. eapply st_trans; [apply st_add_tensor|eapply IH; eauto].
Qed.

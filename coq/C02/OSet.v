(* C02 - model of quimb.utils.oset (an insertion-ordered, duplicate-free set
   stored as the keys of a dict) as a list, a small register machine over it
   for the correspondence with the implementation, and the proofs that every
   operation refines the finite-set operation, keeps the list duplicate free
   and preserves first-insertion order. *)
From Coq Require Import List Arith Bool PeanoNat Lia.
From QV Require Import C02.Model C02.Lists.
Import ListNotations.

(* ------------------------------------------------------------------ *)
(* the operations (n-ary forms as the implementation has them)          *)

Definition o_update (a : list nat) (others : list (list nat)) : list nat :=
  fold_left (fun acc o => fold_left (fun acc x => oadd x acc) o acc) others a.
Definition o_inter (a : list nat) (others : list (list nat)) : list nat :=
  filter (fun x => forallb (mem x) others) a.
Definition o_diff (a : list nat) (others : list (list nat)) : list nat :=
  filter (fun x => negb (existsb (mem x) others)) a.
Definition o_popleft (a : list nat) : option (nat * list nat) :=
  match a with [] => None | x :: a' => Some (x, a') end.
Definition o_popright (a : list nat) : option (nat * list nat) :=
  match rev a with [] => None | x :: r => Some (x, rev r) end.

(* ------------------------------------------------------------------ *)
(* register machine: 4 osets; every operation returns a number (popped
   element / truth value / length; 0 otherwise) or is rejected (raises)  *)

Inductive oarg := AReg (r : nat) | ARaw (l : list nat).

Inductive oop :=
| ONew (d : nat) (l : list nat)             (* oset(iterable) *)
| OCopy (d r : nat)
| OAdd (r x : nat) | ODiscard (r x : nat) | ORemove (r x : nat) | OClear (r : nat)
| OUpdate (r : nat) (args : list oarg)      (* update(others..), |= *)
| OUnion (d r : nat) (args : list oarg)     (* union(others..), | *)
| OInterUpd (r : nat) (args : list nat)     (* intersection_update(others..), &= *)
| OInter (d r : nat) (args : list nat)      (* intersection(others..), & *)
| ODiffUpd (r : nat) (args : list nat)      (* difference_update(others..), -= *)
| ODiff (d r : nat) (args : list nat)       (* difference(others..), - *)
| OPopLeft (r : nat) | OPopRight (r : nat)
| OContains (r x : nat) | OLen (r : nat) | OEq (r s : nat).

Definition ostate := list (list nat).
Definition oget (s : ostate) (r : nat) : list nat := nth r s [].
Fixpoint oput (s : ostate) (r : nat) (v : list nat) : ostate :=
  match s, r with
  | [], _ => []
  | _ :: s', 0 => v :: s'
  | x :: s', S r' => x :: oput s' r' v
  end.
Definition ostate0 : ostate := [[]; []; []; []].

Definition arg_val (s : ostate) (a : oarg) : list nat :=
  match a with AReg r => oget s r | ARaw l => l end.
Definition b2n' (b : bool) : nat := if b then 1 else 0.

Definition ostep (s : ostate) (o : oop) : option (ostate * nat) :=
  match o with
  | ONew d l => Some (oput s d (oset_of l), 0)
  | OCopy d r => Some (oput s d (oget s r), 0)
  | OAdd r x => Some (oput s r (oadd x (oget s r)), 0)
  | ODiscard r x => Some (oput s r (odiscard x (oget s r)), 0)
  | ORemove r x => if mem x (oget s r) then Some (oput s r (odiscard x (oget s r)), 0) else None   (* KeyError *)
  | OClear r => Some (oput s r [], 0)
  | OUpdate r args => Some (oput s r (o_update (oget s r) (map (arg_val s) args)), 0)
  | OUnion d r args => Some (oput s d (o_update (oget s r) (map (arg_val s) args)), 0)
  | OInterUpd r args =>
      match args with [] => None                                                 (* others[0]: IndexError *)
      | _ => Some (oput s r (o_inter (oget s r) (map (oget s) args)), 0) end
  | OInter d r args => Some (oput s d (o_inter (oget s r) (map (oget s) args)), 0)   (* no argument: a copy *)
  | ODiffUpd r args =>
      match args with [] => None
      | _ => Some (oput s r (o_diff (oget s r) (map (oget s) args)), 0) end
  | ODiff d r args =>
      match args with [] => None
      | _ => Some (oput s d (o_diff (oget s r) (map (oget s) args)), 0) end
  | OPopLeft r => match o_popleft (oget s r) with Some (x, a) => Some (oput s r a, x) | None => None end
  | OPopRight r => match o_popright (oget s r) with Some (x, a) => Some (oput s r a, x) | None => None end
  | OContains r x => Some (s, b2n' (mem x (oget s r)))
  | OLen r => Some (s, length (oget s r))
  | OEq r t => Some (s, b2n' (set_eqb (oget s r) (oget s t)))
  end.

(* observation after one operation: returned normally?, result, all registers in iteration order *)
Definition oser (s : ostate) (ok : bool) (res : nat) : list nat :=
  b2n' ok :: res :: flat_map (fun l => length l :: l) s.

(* ------------------------------------------------------------------ *)
(* proofs                                                              *)

Inductive subseq {A} : list A -> list A -> Prop :=
| ss_nil : subseq [] []
| ss_skip : forall x l l', subseq l l' -> subseq l (x :: l')
| ss_keep : forall x l l', subseq l l' -> subseq (x :: l) (x :: l').

Lemma subseq_refl : forall {A} (l : list A), subseq l l.
Proof. induction l; [constructor|constructor 3; auto]. Qed.

Lemma subseq_nil : forall {A} (l : list A), subseq [] l.
Proof. induction l; constructor; auto. Qed.

Lemma subseq_trans : forall {A} (a b c : list A), subseq a b -> subseq b c -> subseq a c.
Proof.
  intros A a b c H1 H2. revert a H1. induction H2; intros a H1.
  - exact H1.
  - constructor. apply IHsubseq; auto.
  - inversion H1; subst.
    + constructor. apply IHsubseq; auto.
    + constructor 3. apply IHsubseq; auto.
Qed.

Lemma filter_subseq : forall {A} (p : A -> bool) l, subseq (filter p l) l.
Proof. induction l; simpl; [constructor|]. destruct (p a); [constructor 3|constructor 2]; auto. Qed.

Lemma subseq_app_l : forall {A} (p a b : list A), subseq a b -> subseq (p ++ a) (p ++ b).
Proof. induction p; simpl; intros; auto. constructor 3; auto. Qed.

Lemma filter_filter : forall {A} (p q : A -> bool) l, filter p (filter q l) = filter (fun x => q x && p x) l.
Proof. induction l; simpl; auto. destruct (q a); simpl; [destruct (p a)|]; rewrite ?IHl; auto. Qed.

Lemma filter_ext_in' : forall {A} (p q : A -> bool) l, (forall x, In x l -> p x = q x) -> filter p l = filter q l.
Proof. induction l; simpl; intros H; auto. rewrite (H a) by auto. rewrite IHl; auto. Qed.

(* union / update / add: old elements keep their position, new ones are
   appended in the order of their first occurrence *)
Lemma fold_oadd_app : forall b a,
  fold_left (fun acc x => oadd x acc) b a = a ++ odiff (oset_of b) a.
Proof.
  induction b as [|x b IH]; intros a.
  - simpl. rewrite app_nil_r; auto.
  - assert (oset_of (x :: b) = x :: odiff (oset_of b) [x]) as E.
    { unfold oset_of at 1. simpl. change (oadd x []) with [x]. rewrite IH. reflexivity. }
    simpl. rewrite IH, E. unfold oadd. destruct (mem x a) eqn:Em.
    + f_equal. unfold odiff at 2. simpl. rewrite Em. simpl. unfold odiff. rewrite filter_filter.
      apply filter_ext_in'. intros y _. simpl. destruct (Nat.eqb_spec y x) as [->|]; simpl; [rewrite Em; auto|].
      destruct (mem y a); auto.
    + rewrite <- app_assoc. f_equal. unfold odiff at 2. simpl. rewrite Em. simpl. f_equal.
      unfold odiff. rewrite filter_filter. apply filter_ext_in'. intros y _. simpl.
      unfold mem at 1. rewrite existsb_app. simpl. fold (mem y a).
      destruct (Nat.eqb_spec y x) as [->|]; simpl; [rewrite Em; auto|]. rewrite orb_false_r.
      destruct (mem y a); auto.
Qed.

Lemma oset_of_subseq : forall b, subseq (oset_of b) b.
Proof.
  induction b as [|x b IH]; [constructor|].
  assert (oset_of (x :: b) = x :: odiff (oset_of b) [x]) as E.
  { unfold oset_of at 1. simpl. change (oadd x []) with [x]. rewrite fold_oadd_app. reflexivity. }
  rewrite E. constructor 3. eapply subseq_trans; [apply filter_subseq|exact IH].
Qed.

Theorem oadd_spec : forall x a, NoDup a ->
  NoDup (oadd x a) /\ (forall y, In y (oadd x a) <-> y = x \/ In y a) /\ exists t, oadd x a = a ++ t.
Proof.
  intros x a ND. split; [apply oadd_NoDup; auto|]. split; [intros; apply oadd_In|].
  unfold oadd. destruct (mem x a); [exists []; rewrite app_nil_r; auto|exists [x]; auto].
Qed.

Theorem odiscard_spec : forall x a, NoDup a ->
  NoDup (odiscard x a) /\ (forall y, In y (odiscard x a) <-> In y a /\ y <> x) /\ subseq (odiscard x a) a.
Proof.
  intros x a ND. split; [apply odiscard_NoDup; auto|]. split; [intros; apply odiscard_In|apply filter_subseq].
Qed.

Theorem oset_of_spec : forall l,
  NoDup (oset_of l) /\ (forall y, In y (oset_of l) <-> In y l) /\ subseq (oset_of l) l.
Proof. intros; split; [apply oset_of_NoDup|split; [intros; apply oset_of_In|apply oset_of_subseq]]. Qed.

Lemma subseq_app : forall {A} (a b c d : list A), subseq a b -> subseq c d -> subseq (a ++ c) (b ++ d).
Proof. intros A a b c d H1 H2. induction H1; simpl; auto; [constructor 2|constructor 3]; auto. Qed.

(* n-ary update / union: old elements keep their place, the new ones follow in
   the order in which the arguments list them *)
Theorem o_update_spec : forall others a, NoDup a ->
  NoDup (o_update a others)
  /\ (forall y, In y (o_update a others) <-> In y a \/ exists o, In o others /\ In y o)
  /\ (exists t, o_update a others = a ++ t /\ subseq t (concat others)).
Proof.
  induction others as [|o others IH]; intros a ND; unfold o_update in *; simpl.
  - split; auto. split.
    + intros y; split; auto. intros [?|[? [[] _]]]; auto.
    + exists []. rewrite app_nil_r; split; auto; constructor.
  - assert (NoDup (fold_left (fun acc x => oadd x acc) o a)) as ND1 by (apply fold_oadd_NoDup; auto).
    destruct (IH _ ND1) as (A & B & (t & Et & St)). split; auto. split.
    + intros y. rewrite B, fold_oadd_In. split.
      * intros [[?|?]|[o' [Ho Hy]]]; eauto.
      * intros [?|[o' [[<-|Ho] Hy]]]; eauto.
    + rewrite Et, fold_oadd_app, <- app_assoc. eexists; split; [reflexivity|].
      apply subseq_app; auto. eapply subseq_trans; [apply filter_subseq|apply oset_of_subseq].
Qed.

(* n-ary intersection / difference: a sub-sequence of the receiver *)
Theorem o_inter_spec : forall a others, NoDup a ->
  NoDup (o_inter a others)
  /\ (forall y, In y (o_inter a others) <-> In y a /\ forall o, In o others -> In y o)
  /\ subseq (o_inter a others) a.
Proof.
  intros a others ND. unfold o_inter. split; [apply NoDup_filter; auto|]. split; [|apply filter_subseq].
  intros y. rewrite filter_In, forallb_forall. split; intros [H1 H2]; split; auto; intros o Ho.
  - apply mem_In; auto.
  - apply mem_In; auto.
Qed.

Theorem o_diff_spec : forall a others, NoDup a ->
  NoDup (o_diff a others)
  /\ (forall y, In y (o_diff a others) <-> In y a /\ forall o, In o others -> ~ In y o)
  /\ subseq (o_diff a others) a.
Proof.
  intros a others ND. unfold o_diff. split; [apply NoDup_filter; auto|]. split; [|apply filter_subseq].
  intros y. rewrite filter_In, negb_true_iff. split.
  - intros [H1 H2]; split; auto. intros o Ho Hy.
    assert (existsb (mem y) others = true) as Hc by (apply existsb_exists; exists o; split; auto; apply mem_In; auto).
    congruence.
  - intros [H1 H2]; split; auto. destruct (existsb (mem y) others) eqn:E; auto.
    apply existsb_exists in E as [o [Ho Hm]]. apply mem_In in Hm. exfalso; eapply H2; eauto.
Qed.

Theorem o_pop_spec : forall a, NoDup a ->
  (forall x r, o_popleft a = Some (x, r) -> a = x :: r /\ NoDup r)
  /\ (forall x r, o_popright a = Some (x, r) -> a = r ++ [x] /\ NoDup r)
  /\ (o_popleft a = None <-> a = []) /\ (o_popright a = None <-> a = []).
Proof.
  intros a ND. repeat split.
  - destruct a; simpl in H; [discriminate|]. injection H as <- <-; auto.
  - destruct a; simpl in H; [discriminate|]. injection H as <- <-. inversion ND; auto.
  - unfold o_popright in H. destruct (rev a) eqn:E; [discriminate|]. injection H as <- <-.
    rewrite <- (rev_involutive a), E. simpl. auto.
  - unfold o_popright in H. destruct (rev a) eqn:E; [discriminate|]. injection H as <- <-.
    assert (a = rev l ++ [n]) as Ea by (rewrite <- (rev_involutive a), E; auto).
    rewrite Ea in ND. apply NoDup_remove_1 in ND. rewrite app_nil_r in ND. auto.
  - destruct a; simpl; [auto|discriminate].
  - intros ->; auto.
  - unfold o_popright. destruct (rev a) eqn:E; [|discriminate]. intros _.
    rewrite <- (rev_involutive a), E; auto.
  - intros ->; auto.
Qed.

(* dict equality of two osets = equality as sets *)
Theorem o_eq_spec : forall a b, NoDup a -> NoDup b -> (set_eqb a b = true <-> forall x, In x a <-> In x b).
Proof.
  intros a b Ha Hb. split; [apply set_eqb_sound; auto|]. intros H. unfold set_eqb. apply andb_true_iff. split.
  - apply Nat.eqb_eq. apply Nat.le_antisymm; apply NoDup_incl_length; auto; intros x Hx; apply H; auto.
  - apply forallb_forall. intros x Hx. apply mem_In, H; auto.
Qed.

(* every register stays duplicate free under every operation *)
Definition owf (s : ostate) : Prop := Forall (@NoDup nat) s.

Lemma oget_NoDup : forall s r, owf s -> NoDup (oget s r).
Proof.
  unfold owf, oget; intros s r H. revert r. induction H; intros [|r]; simpl; auto; constructor.
Qed.

Lemma oput_wf : forall s r v, owf s -> NoDup v -> owf (oput s r v).
Proof.
  unfold owf; intros s r v H Hv. revert r. induction H; intros [|r]; simpl; constructor; auto.
Qed.

Theorem ostep_wf : forall s o s' res, owf s -> ostep s o = Some (s', res) -> owf s'.
Proof.
  intros s o s' res W E. pose proof (fun r => oget_NoDup s r W) as G.
  destruct o; simpl in E;
    try (injection E as <- <-; auto; apply oput_wf; auto).
  - apply oset_of_NoDup.
  - apply oadd_NoDup; auto.
  - apply odiscard_NoDup; auto.
  - destruct (mem x (oget s r)); [|discriminate]. injection E as <- <-. apply oput_wf; auto. apply odiscard_NoDup; auto.
  - constructor.
  - apply o_update_spec; auto.
  - apply o_update_spec; auto.
  - destruct args; [discriminate|]. injection E as <- <-. apply oput_wf; auto. apply o_inter_spec; auto.
  - apply o_inter_spec; auto.
  - destruct args; [discriminate|]. injection E as <- <-. apply oput_wf; auto. apply o_diff_spec; auto.
  - destruct args; [discriminate|]. injection E as <- <-. apply oput_wf; auto. apply o_diff_spec; auto.
  - destruct (o_popleft (oget s r)) as [[x a]|] eqn:Ep; [|discriminate]. injection E as <- <-.
    apply oput_wf; auto. eapply (proj1 (o_pop_spec _ (G r))); eauto.
  - destruct (o_popright (oget s r)) as [[x a]|] eqn:Ep; [|discriminate]. injection E as <- <-.
    apply oput_wf; auto. eapply (proj1 (proj2 (o_pop_spec _ (G r)))); eauto.
Qed.

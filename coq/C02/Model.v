(* C02 - executable model of quimb's tensor / tensor-network bookkeeping
   (quimb/tensor/tensor_core.py: Tensor.modify / add_owner / remove_owner /
   check_owners, TensorNetwork.__init__ (copy branch), _link_* / _unlink_*,
   _next_tid, add_tensor, add_tensor_network, pop_tensor, __setitem__, delete,
   partition(_tensors), _select_tids, _select_without_tids, select, reindex,
   retag, add_tag, drop_tags; quimb/utils.py: oset).

   Definitions only (no proofs) so that the model still runs when a proof
   breaks.  Labels, tags, tensor ids, network ids and tensor references are
   nat.  Python dicts and osets are insertion-ordered lists and the model keeps
   that order exactly.  The object store (address -> object) is a function.

   Ghost state: [h_ok] is not read by any operation; it records whether the
   history stayed inside the domain of the positive theorem:
     (a) no tensor was ever given a label twice ('a','a'), and
     (b) no tensor object was added as a view to a network already holding it.
   [h_pub] is the table "handle -> tensor reference" through which operations
   name tensors (the harness keeps the same table of Python objects). *)
From Coq Require Import List Arith Bool PeanoNat.
Import ListNotations.

(* ------------------------------------------------------------------ *)
(* ordered sets: quimb.utils.oset = the keys of a dict                  *)

Definition mem (x : nat) (l : list nat) : bool := existsb (Nat.eqb x) l.
Definition oadd (x : nat) (l : list nat) : list nat := if mem x l then l else l ++ [x].
Definition odiscard (x : nat) (l : list nat) : list nat := filter (fun y => negb (y =? x)) l.
Definition oset_of (l : list nat) : list nat := fold_left (fun acc x => oadd x acc) l [].
Definition odiff (a b : list nat) : list nat := filter (fun x => negb (mem x b)) a.
Definition ointer (a b : list nat) : list nat := filter (fun x => mem x b) a.
(* dict equality of two osets (order is irrelevant for dict ==) *)
Definition set_eqb (a b : list nat) : bool := (length a =? length b) && forallb (fun x => mem x b) a.
Fixpoint nodupb (l : list nat) : bool :=
  match l with [] => true | x :: l' => negb (mem x l') && nodupb l' end.
Definition isnil {A} (l : list A) : bool := match l with [] => true | _ => false end.

(* ------------------------------------------------------------------ *)
(* insertion ordered maps with nat keys: Python dict                    *)

Section AMap.
  Context {V : Type}.
  Fixpoint aget (k : nat) (m : list (nat * V)) : option V :=
    match m with
    | [] => None
    | (k', v) :: m' => if k =? k' then Some v else aget k m'
    end.
  Fixpoint aset (k : nat) (v : V) (m : list (nat * V)) : list (nat * V) :=
    match m with
    | [] => [(k, v)]
    | (k', v') :: m' => if k =? k' then (k, v) :: m' else (k', v') :: aset k v m'
    end.
  Definition adel (k : nat) (m : list (nat * V)) : list (nat * V) :=
    filter (fun p => negb (fst p =? k)) m.
  Definition amem (k : nat) (m : list (nat * V)) : bool :=
    match aget k m with Some _ => true | None => false end.
  Definition akeys (m : list (nat * V)) : list nat := map fst m.
End AMap.

Definition imap_t := list (nat * list nat).
Definition aget0 (k : nat) (m : imap_t) : list nat := match aget k m with Some l => l | None => [] end.

(* ------------------------------------------------------------------ *)
(* objects                                                             *)

Record tensor := mkT {
  t_inds : list nat;              (* tuple of labels, may repeat *)
  t_tags : list nat;              (* oset *)
  t_owners : list (nat * nat)     (* hash(network) -> tid ; weakref liveness is n_alive *)
}.

Record net := mkN {
  n_tmap : list (nat * nat);      (* tensor_map : tid -> tensor reference *)
  n_imap : imap_t;                (* ind_map *)
  n_gmap : imap_t;                (* tag_map *)
  n_inner : list nat;             (* _inner_inds *)
  n_outer : list nat;             (* _outer_inds *)
  n_ctr : nat;                    (* _tid_counter *)
  n_alive : bool                  (* false once garbage collected *)
}.

Record heap := mkH {
  h_T : nat -> tensor;
  h_nt : nat;
  h_N : nat -> net;
  h_nn : nat;
  h_fresh : nat;                  (* rand_uuid counter *)
  h_pub : list nat;               (* handle -> tensor reference *)
  h_ok : bool                     (* ghost *)
}.

Definition FRESH0 : nat := 100.
Definition empty_tensor := mkT [] [] [].
Definition dead_net := mkN [] [] [] [] [] 0 false.
Definition new_net := mkN [] [] [] [] [] 0 true.
Definition h0 : heap := mkH (fun _ => empty_tensor) 0 (fun _ => dead_net) 0 FRESH0 [] true.

Definition setT (h : heap) (r : nat) (t : tensor) : heap :=
  mkH (fun k => if k =? r then t else h_T h k) (h_nt h) (h_N h) (h_nn h) (h_fresh h) (h_pub h) (h_ok h).
Definition setN (h : heap) (m : nat) (x : net) : heap :=
  mkH (h_T h) (h_nt h) (fun k => if k =? m then x else h_N h k) (h_nn h) (h_fresh h) (h_pub h) (h_ok h).
Definition andok (h : heap) (b : bool) : heap :=
  mkH (h_T h) (h_nt h) (h_N h) (h_nn h) (h_fresh h) (h_pub h) (h_ok h && b).
Definition set_fresh (h : heap) (f : nat) : heap :=
  mkH (h_T h) (h_nt h) (h_N h) (h_nn h) f (h_pub h) (h_ok h).
Definition set_pub (h : heap) (p : list nat) : heap :=
  mkH (h_T h) (h_nt h) (h_N h) (h_nn h) (h_fresh h) p (h_ok h).
Definition live (h : heap) (m : nat) : bool := n_alive (h_N h m).

(* a new tensor object; owners always start empty (Tensor.__init__) *)
Definition alloc_tensor (h : heap) (inds tags : list nat) : heap * nat :=
  (mkH (fun k => if k =? h_nt h then mkT inds tags [] else h_T h k) (S (h_nt h))
       (h_N h) (h_nn h) (h_fresh h) (h_pub h) (h_ok h && nodupb inds), h_nt h).
Definition alloc_net (h : heap) : heap * nat :=
  (mkH (h_T h) (h_nt h) (fun k => if k =? h_nn h then new_net else h_N h k) (S (h_nn h))
       (h_fresh h) (h_pub h) (h_ok h), h_nn h).

(* ------------------------------------------------------------------ *)
(* _link_tags / _unlink_tags / _link_inds / _unlink_inds               *)

Definition link_tag1 (tid : nat) (m : imap_t) (g : nat) : imap_t :=
  match aget g m with
  | Some l => aset g (oadd tid l) m
  | None => aset g [tid] m
  end.
Definition link_tags (tags : list nat) (tid : nat) (m : imap_t) : imap_t :=
  fold_left (link_tag1 tid) tags m.

Definition unlink_tag1 (tid : nat) (m : imap_t) (g : nat) : imap_t :=
  match aget g m with
  | Some l => match odiscard tid l with
              | [] => adel g m
              | l' => aset g l' m
              end
  | None => m      (* KeyError swallowed *)
  end.
Definition unlink_tags (tags : list nat) (tid : nat) (m : imap_t) : imap_t :=
  fold_left (unlink_tag1 tid) tags m.

Definition ist := (imap_t * list nat * list nat)%type.   (* ind_map, _inner_inds, _outer_inds *)

Definition link_ind1 (tid : nat) (s : ist) (i : nat) : ist :=
  let '(im, inn, out) := s in
  match aget i im with
  | Some l => (aset i (oadd tid l) im, oadd i inn, odiscard i out)
  | None => (aset i [tid] im, inn, oadd i out)
  end.
Definition link_inds (inds : list nat) (tid : nat) (s : ist) : ist :=
  fold_left (link_ind1 tid) inds s.

Definition unlink_ind1 (tid : nat) (s : ist) (i : nat) : ist :=
  let '(im, inn, out) := s in
  match aget i im with
  | Some l =>
      let l' := odiscard tid l in
      match length l' with
      | 0 => (adel i im, inn, odiscard i out)
      | 1 => (aset i l' im, odiscard i inn, oadd i out)
      | _ => (aset i l' im, inn, out)
      end
  | None => s      (* KeyError swallowed: "repeated index" *)
  end.
Definition unlink_inds (inds : list nat) (tid : nat) (s : ist) : ist :=
  fold_left (unlink_ind1 tid) inds s.

(* _next_tid: while self._tid_counter in self.tensor_map: += 1 *)
Fixpoint next_tid_loop (fuel c : nat) (tmap : list (nat * nat)) : nat :=
  match fuel with
  | 0 => c
  | S f => if amem c tmap then next_tid_loop f (S c) tmap else c
  end.
Definition next_tid (c : nat) (tmap : list (nat * nat)) : nat :=
  next_tid_loop (S (length tmap)) c tmap.

(* ------------------------------------------------------------------ *)
(* add_tensor / pop_tensor                                             *)

Definition choose_tid (x : net) (tid_opt : option nat) : nat * nat :=   (* (tid, new counter) *)
  match tid_opt with
  | Some t => if amem t (n_tmap x)
              then let c := next_tid (n_ctr x) (n_tmap x) in (c, c)
              else (t, n_ctr x)
  | None => let c := next_tid (n_ctr x) (n_tmap x) in (c, c)
  end.

Definition add_owner (t : tensor) (m tid : nat) : tensor :=
  mkT (t_inds t) (t_tags t) (aset m tid (t_owners t)).
Definition remove_owner (t : tensor) (m : nat) : tensor :=
  mkT (t_inds t) (t_tags t) (adel m (t_owners t)).

(* the part of add_tensor after the tensor object T is known:
   self.tensor_map[tid] = T; T.add_owner(self, tid); _link_tags; _link_inds *)
Definition attach (h : heap) (m r tid ctr : nat) : heap :=
  let x := h_N h m in
  let t := h_T h r in
  let h2 := setT h r (add_owner t m tid) in
  let g := link_tags (t_tags t) tid (n_gmap x) in
  let '(i, inn, out) := link_inds (t_inds t) tid (n_imap x, n_inner x, n_outer x) in
  setN h2 m (mkN (aset tid r (n_tmap x)) i g inn out ctr (n_alive x)).

Definition add_tensor (h : heap) (m r : nat) (tid_opt : option nat) (virtual : bool) : heap :=
  let '(tid, ctr) := choose_tid (h_N h m) tid_opt in
  let '(h1, r') :=
    if virtual then (andok h (negb (mem r (map snd (n_tmap (h_N h m))))), r)
    else alloc_tensor h (t_inds (h_T h r)) (t_tags (h_T h r)) in
  attach h1 m r' tid ctr.

Definition pop_tensor (h : heap) (m tid : nat) : option (heap * nat) :=
  let x := h_N h m in
  match aget tid (n_tmap x) with
  | None => None
  | Some r =>
      let t := h_T h r in
      let g := unlink_tags (t_tags t) tid (n_gmap x) in
      let '(i, inn, out) := unlink_inds (t_inds t) tid (n_imap x, n_inner x, n_outer x) in
      let h1 := setN h m (mkN (adel tid (n_tmap x)) i g inn out (n_ctr x) (n_alive x)) in
      Some (setT h1 r (remove_owner t m), r)
  end.

(* ------------------------------------------------------------------ *)
(* Tensor.modify(inds=...) / Tensor.modify(tags=...)                   *)

(* check_owners: drop entries whose weak reference is dead *)
Definition prune_owners (h : heap) (r : nat) : heap :=
  let t := h_T h r in
  setT h r (mkT (t_inds t) (t_tags t) (filter (fun p => live h (fst p)) (t_owners t))).

(* _modify_tensor_inds(old, new, tid): old, new are osets *)
Definition net_modify_inds (x : net) (old new : list nat) (tid : nat) : net :=
  let s1 := unlink_inds (odiff old new) tid (n_imap x, n_inner x, n_outer x) in
  let '(i, inn, out) := link_inds (odiff new old) tid s1 in
  mkN (n_tmap x) i (n_gmap x) inn out (n_ctr x) (n_alive x).

Definition net_modify_tags (x : net) (old new : list nat) (tid : nat) : net :=
  let g := link_tags (odiff new old) tid (unlink_tags (odiff old new) tid (n_gmap x)) in
  mkN (n_tmap x) (n_imap x) g (n_inner x) (n_outer x) (n_ctr x) (n_alive x).

Definition notify (f : net -> nat -> net) (h : heap) (owners : list (nat * nat)) : heap :=
  fold_left (fun hh p => setN hh (fst p) (f (h_N hh (fst p)) (snd p))) owners h.

Definition modify_inds_core (h : heap) (r : nat) (inds : list nat) : heap :=
  let old := oset_of (t_inds (h_T h r)) in
  let new := oset_of inds in
  let h1 := if negb (set_eqb old new)                 (* (old_inds != new_inds) and self.check_owners() *)
            then let h' := prune_owners h r in
                 notify (fun x tid => net_modify_inds x old new tid) h' (t_owners (h_T h' r))
            else h in
  let t1 := h_T h1 r in
  setT h1 r (mkT inds (t_tags t1) (t_owners t1)).

(* the ghost flag records whether a tensor is ever given a repeated label *)
Definition modify_inds (h : heap) (r : nat) (inds : list nat) : heap :=
  modify_inds_core (andok h (nodupb inds)) r inds.

Definition modify_tags (h : heap) (r : nat) (tags : list nat) : heap :=
  let old := t_tags (h_T h r) in
  let new := oset_of tags in                          (* tags_to_oset *)
  let h' := prune_owners h r in
  let h1 := notify (fun x tid => net_modify_tags x old new tid) h' (t_owners (h_T h' r)) in
  let t1 := h_T h1 r in
  setT h1 r (mkT (t_inds t1) new (t_owners t1)).

Definition subst (f : list (nat * nat)) (i : nat) : nat :=
  match aget i f with Some j => j | None => i end.

Definition t_reindex (h : heap) (r : nat) (f : list (nat * nat)) : heap :=
  modify_inds h r (map (subst f) (t_inds (h_T h r))).
Definition t_retag (h : heap) (r : nat) (f : list (nat * nat)) : heap :=
  modify_tags h r (map (subst f) (t_tags (h_T h r))).
Definition t_add_tag (h : heap) (r : nat) (tags : list nat) : heap :=
  modify_tags h r (t_tags (h_T h r) ++ tags).
Definition t_drop_tags (h : heap) (r : nat) (tags : option (list nat)) : heap :=
  match tags with
  | None => modify_tags h r []
  | Some tg => modify_tags h r (odiff (t_tags (h_T h r)) (oset_of tg))
  end.

(* ------------------------------------------------------------------ *)
(* TensorNetwork.__init__ copy branch (also copy.deepcopy / pickle: contract =
   an isomorphic heap whose tensors are new objects owned by the new network) *)

Definition copy_entry (m : nat) (virtual : bool) (acc : heap * list (nat * nat)) (p : nat * nat)
  : heap * list (nat * nat) :=
  let '(h, tm) := acc in
  let '(tid, r) := p in
  let '(h1, r') := if virtual then (h, r) else alloc_tensor h (t_inds (h_T h r)) (t_tags (h_T h r)) in
  (setT h1 r' (add_owner (h_T h1 r') m tid), tm ++ [(tid, r')]).

Definition copy_net (h : heap) (src : nat) (virtual : bool) : heap * nat :=
  let x := h_N h src in
  let '(h1, m) := alloc_net h in
  let '(h2, tm) := fold_left (copy_entry m virtual) (n_tmap x) (h1, []) in
  (setN h2 m (mkN tm (n_imap x) (n_gmap x) (n_inner x) (n_outer x) (n_ctr x) true), m).

(* ------------------------------------------------------------------ *)
(* selection: _get_tids_from / _get_tids_from_tags                     *)

Inductive which := WAll | WAny | WNAll | WNAny.

Fixpoint amap_gets (xmap : imap_t) (xs : list nat) : option (list (list nat)) :=
  match xs with
  | [] => Some []
  | x :: xs' =>
      match aget x xmap with
      | None => None                                    (* KeyError *)
      | Some l => match amap_gets xmap xs' with
                  | None => None
                  | Some ls => Some (l :: ls)
                  end
      end
  end.

Definition combine_all (sets : list (list nat)) : list nat :=
  match sets with
  | [] => []
  | x0 :: rest => filter (fun t => forallb (mem t) rest) x0
  end.
Definition combine_any (sets : list (list nat)) : list nat := oset_of (concat sets).

Definition get_tids_from (x : net) (xmap : imap_t) (xs : list nat) (w : which) : option (list nat) :=
  match amap_gets xmap (oset_of xs) with
  | None => None
  | Some sets =>
      let base := match w with WAll | WNAll => combine_all sets | _ => combine_any sets end in
      Some (match w with
            | WNAll | WNAny => odiff (akeys (n_tmap x)) base
            | _ => base
            end)
  end.

Definition get_tids_from_tags (x : net) (tags : option (list nat)) (w : which) : option (list nat) :=
  match tags with
  | None => Some (akeys (n_tmap x))
  | Some tg => get_tids_from x (n_gmap x) tg w
  end.
Definition get_tids_from_inds (x : net) (inds : list nat) (w : which) : option (list nat) :=
  get_tids_from x (n_imap x) inds w.

(* ------------------------------------------------------------------ *)
(* composite operations                                                *)

Definition obind {A B} (o : option A) (f : A -> option B) : option B :=
  match o with Some a => f a | None => None end.

Fixpoint pop_many (h : heap) (m : nat) (tids : list nat) : option (heap * list nat) :=
  match tids with
  | [] => Some (h, [])
  | tid :: tids' =>
      match pop_tensor h m tid with
      | None => None
      | Some (h1, r) => match pop_many h1 m tids' with
                        | None => None
                        | Some (h2, rs) => Some (h2, r :: rs)
                        end
      end
  end.

(* add_tensor_network *)
Definition add_net_entry (dst : nat) (virtual : bool) (clash : list nat) (reind : list (nat * nat))
           (h : heap) (p : nat * nat) : heap :=
  let '(tid, r) := p in
  let inds := t_inds (h_T h r) in
  let '(h1, r1) :=
    if negb (isnil clash) && existsb (fun i => amem i reind) inds
    then let inds' := map (subst reind) inds in
         if virtual then (modify_inds h r inds', r)
         else alloc_tensor h inds' (t_tags (h_T h r))
    else (h, r) in
  add_tensor h1 dst r1 (Some tid) virtual.

Definition add_net (h : heap) (dst src : nat) (virtual cc : bool) : heap :=
  let clash := if cc then ointer (n_inner (h_N h dst)) (n_inner (h_N h src)) else [] in
  let reind := combine clash (seq (h_fresh h) (length clash)) in
  let h1 := set_fresh h (h_fresh h + length clash) in
  fold_left (add_net_entry dst virtual clash reind) (n_tmap (h_N h src)) h1.

Inductive item := ITensor (k : nat) | INet (s : nat).

Definition resolve (h : heap) (k : nat) : option nat := nth_error (h_pub h) k.

(* TensorNetwork(ts, virtual=, check_collisions=) given already resolved tensor refs *)
Inductive ritem := RTensor (r : nat) | RNet (s : nat).

Definition add_item (m : nat) (virtual cc : bool) (h : heap) (it : ritem) : heap :=
  match it with
  | RTensor r => add_tensor h m r None virtual
  | RNet s => add_net h m s virtual cc
  end.

Definition build_net (h : heap) (items : list ritem) (virtual cc : bool) : heap * nat :=
  let '(h1, m) := alloc_net h in
  (fold_left (add_item m virtual cc) items h1, m).

Fixpoint resolve_items (h : heap) (items : list item) : option (list ritem) :=
  match items with
  | [] => Some []
  | ITensor k :: rest =>
      obind (resolve h k) (fun r => obind (resolve_items h rest) (fun l => Some (RTensor r :: l)))
  | INet s :: rest =>
      if live h s then obind (resolve_items h rest) (fun l => Some (RNet s :: l)) else None
  end.

Fixpoint insert_sorted (x : nat) (l : list nat) : list nat :=
  match l with
  | [] => [x]
  | y :: l' => if x <=? y then x :: l else y :: insert_sorted x l'
  end.
Definition sort_nat (l : list nat) : list nat := fold_right insert_sorted [] l.

(* for tid in tids: f(tensor_map[tid]) - a missing tid is a KeyError *)
Fixpoint for_tids (f : heap -> nat -> heap) (h : heap) (m : nat) (tids : list nat) : option heap :=
  match tids with
  | [] => Some h
  | tid :: tids' =>
      match aget tid (n_tmap (h_N h m)) with
      | None => None
      | Some r => for_tids f (f h r) m tids'
      end
  end.

(* _select_tids: tn.add_tensor(self.tensor_map[tid], tid=tid, virtual=virtual) *)
Fixpoint add_selected (n m : nat) (virtual : bool) (h : heap) (tids : list nat) : option heap :=
  match tids with
  | [] => Some h
  | tid :: l' =>
      match aget tid (n_tmap (h_N h n)) with
      | None => None
      | Some r => add_selected n m virtual (add_tensor h m r (Some tid) virtual) l'
      end
  end.

Inductive op :=
| NewTensor (inds tags : list nat)
| TCopy (k : nat)
| NewNet (items : list item) (virtual cc : bool)
| Add (n k : nat) (virtual : bool)
| AddNet (n s : nat) (virtual cc : bool)
| Pop (n tid : nat)
| PopTags (n : nat) (tags : list nat) (w : which)
| Delete (n : nat) (tags : list nat) (w : which)
| SetItem (n : nat) (tags : list nat) (k : nat)
| TModInds (k : nat) (inds : list nat)
| TModTags (k : nat) (tags : list nat)
| TReindex (k : nat) (f : list (nat * nat))
| TRetag (k : nat) (f : list (nat * nat))
| TAddTag (k : nat) (tags : list nat)
| TDropTags (k : nat) (tags : option (list nat))
| NReindex (n : nat) (f : list (nat * nat)) (inplace : bool)
| NRetag (n : nat) (f : list (nat * nat)) (inplace : bool)
| NAddTag (n : nat) (tag : nat) (where_ : option (list nat)) (w : which)
| NDropTags (n : nat) (tags : option (list nat))
| Copy (n : nat) (virtual : bool)
| DeepCopy (n : nat)
| Select (n : nat) (tags : option (list nat)) (w : which) (virtual : bool)
| SelectWithout (n : nat) (tids : list nat) (virtual : bool)
| Partition (n : nat) (tags : list nat) (w : which) (inplace : bool)
| PartitionTensors (n : nat) (tags : list nat) (w : which) (inplace : bool)
| MakeTidsConsecutive (n : nat) (tid0 : nat)
| Kill (n : nat)
| RemoveAll (n : nat).

Definition set_ctr (h : heap) (m c : nat) : heap :=
  let x := h_N h m in
  setN h m (mkN (n_tmap x) (n_imap x) (n_gmap x) (n_inner x) (n_outer x) c (n_alive x)).

Definition kill (h : heap) (m : nat) : heap :=
  let x := h_N h m in
  setN h m (mkN (n_tmap x) (n_imap x) (n_gmap x) (n_inner x) (n_outer x) (n_ctr x) false).

(* remove_all_tensors: every held tensor forgets this network, all maps are
   cleared, the tid counter restarts at 0 *)
Definition remove_all (h : heap) (m : nat) : heap :=
  let x := h_N h m in
  let h1 := fold_left (fun hh p => setT hh (snd p) (remove_owner (h_T hh (snd p)) m)) (n_tmap x) h in
  setN h1 m (mkN [] [] [] [] [] 0 (n_alive x)).

Definition publish1 (h : heap) (r : nat) : heap :=
  if mem r (h_pub h) then h else set_pub h (h_pub h ++ [r]).

Definition publish (h : heap) : heap :=
  set_pub h
    (fold_left
       (fun pub m =>
          if live h m
          then fold_left (fun pub p => if mem (snd p) pub then pub else pub ++ [snd p]) (n_tmap (h_N h m)) pub
          else pub)
       (seq 0 (h_nn h)) (h_pub h)).

Definition ifb (b : bool) {A} (x : option A) : option A := if b then x else None.

Definition step_core (h : heap) (o : op) : option heap :=
  match o with
  | NewTensor inds tags =>
      let '(h1, r) := alloc_tensor h inds (oset_of tags) in Some (publish1 h1 r)
  | TCopy k =>
      obind (resolve h k) (fun r =>
        let '(h1, r') := alloc_tensor h (t_inds (h_T h r)) (t_tags (h_T h r)) in Some (publish1 h1 r'))
  | NewNet items virtual cc =>
      obind (resolve_items h items) (fun its => Some (fst (build_net h its virtual cc)))
  | Add n k virtual =>
      ifb (live h n) (obind (resolve h k) (fun r => Some (add_tensor h n r None virtual)))
  | AddNet n s virtual cc =>
      ifb (live h n && live h s && negb (n =? s)) (Some (add_net h n s virtual cc))
  | Pop n tid =>
      ifb (live h n) (obind (pop_tensor h n tid) (fun p => Some (fst p)))
  | PopTags n tags w =>
      ifb (live h n)
        (obind (get_tids_from_tags (h_N h n) (Some tags) w) (fun tids =>
           match tids with
           | [tid] => obind (pop_tensor h n tid) (fun p => Some (fst p))
           | _ => None
           end))
  | Delete n tags w =>
      ifb (live h n)
        (obind (get_tids_from_tags (h_N h n) (Some tags) w) (fun tids =>
           obind (pop_many h n tids) (fun p => Some (fst p))))
  | SetItem n tags k =>
      ifb (live h n)
        (obind (get_tids_from_tags (h_N h n) (Some tags) WAll) (fun tids =>
           match tids with
           | [tid] => obind (resolve h k) (fun r =>
                        obind (pop_tensor h n tid) (fun p =>
                          Some (add_tensor (fst p) n r (Some tid) true)))
           | _ => None
           end))
  | TModInds k inds => obind (resolve h k) (fun r => Some (modify_inds h r inds))
  | TModTags k tags => obind (resolve h k) (fun r => Some (modify_tags h r tags))
  | TReindex k f => obind (resolve h k) (fun r => Some (t_reindex h r f))
  | TRetag k f => obind (resolve h k) (fun r => Some (t_retag h r f))
  | TAddTag k tags => obind (resolve h k) (fun r => Some (t_add_tag h r tags))
  | TDropTags k tags => obind (resolve h k) (fun r => Some (t_drop_tags h r tags))
  | NReindex n f inplace =>
      ifb (live h n)
        (let '(h1, m) := if inplace then (h, n) else copy_net h n false in
         let tids := oset_of (concat (map (fun p => aget0 (fst p) (n_imap (h_N h1 m))) f)) in
         for_tids (fun hh r => t_reindex hh r f) h1 m tids)
  | NRetag n f inplace =>
      ifb (live h n)
        (let '(h1, m) := if inplace then (h, n) else copy_net h n false in
         obind (get_tids_from_tags (h_N h1 m) (Some (map fst f)) WAny) (fun tids =>
           for_tids (fun hh r => t_retag hh r f) h1 m tids))
  | NAddTag n tag where_ w =>
      ifb (live h n)
        (obind (get_tids_from_tags (h_N h n) where_ w) (fun tids =>
           for_tids (fun hh r => t_add_tag hh r [tag]) h n tids))
  | NDropTags n tags =>
      ifb (live h n)
        (obind (match tags with
                | Some tg => get_tids_from_tags (h_N h n) (Some tg) WAny
                | None => Some (akeys (n_tmap (h_N h n)))
                end) (fun tids =>
           (* _tids_get: tensors resolved lazily, one at a time *)
           for_tids (fun hh r => t_drop_tags hh r tags) h n tids))
  | Copy n virtual => ifb (live h n) (Some (fst (copy_net h n virtual)))
  | DeepCopy n => ifb (live h n) (Some (fst (copy_net h n false)))
  | Select n tags w virtual =>
      ifb (live h n)
        (obind (get_tids_from_tags (h_N h n) tags w) (fun tids =>
           let '(h1, m) := alloc_net h in add_selected n m virtual h1 tids))
  | SelectWithout n tids virtual =>
      ifb (live h n)
        (let '(h1, m) := copy_net h n virtual in
         obind (pop_many h1 m tids) (fun p => Some (fst p)))
  | Partition n tags w inplace =>
      ifb (live h n)
        (obind (get_tids_from_tags (h_N h n) (Some tags) w) (fun tids =>
           if inplace
           then obind (pop_many h n tids) (fun p =>
                  Some (fst (build_net (fst p) (map RTensor (snd p)) false false)))
           else
             let t1s := filter (fun p => negb (mem (fst p) tids)) (n_tmap (h_N h n)) in
             let t2s := filter (fun p => mem (fst p) tids) (n_tmap (h_N h n)) in
             let '(h1, _) := build_net h (map (fun p => RTensor (snd p)) t1s) false false in
             Some (fst (build_net h1 (map (fun p => RTensor (snd p)) t2s) false false))))
  | PartitionTensors n tags w inplace =>
      ifb (live h n)
        (obind (get_tids_from_tags (h_N h n) (Some tags) w) (fun tids =>
           let '(h1, m) := if inplace then (h, n) else copy_net h n false in
           obind (pop_many h1 m (sort_nat tids)) (fun p => Some (fst p))))
  | MakeTidsConsecutive n tid0 =>
      ifb (live h n)
        (obind (pop_many h n (akeys (n_tmap (h_N h n)))) (fun p =>
           Some (fold_left (fun hh r => add_tensor hh n r None true) (snd p) (set_ctr (fst p) n tid0))))
  | Kill n => ifb (live h n) (Some (kill h n))
  | RemoveAll n => ifb (live h n) (Some (remove_all h n))
  end.

(* an operation that raises before mutating anything leaves the heap as it
   was; outcome true = returned normally *)
Definition step (h : heap) (o : op) : heap * bool :=
  match step_core h o with
  | Some h' => (publish h', true)
  | None => (h, false)
  end.

Definition run (ops : list op) : heap := fold_left (fun h o => fst (step h o)) ops h0.

(* ------------------------------------------------------------------ *)
(* observable state                                                    *)

Fixpoint index_of (x : nat) (l : list nat) : nat :=
  match l with [] => 0 | y :: l' => if x =? y then 0 else S (index_of x l') end.

Fixpoint insert_pair (p : nat * nat) (l : list (nat * nat)) : list (nat * nat) :=
  match l with
  | [] => [p]
  | q :: l' => if fst p <=? fst q then p :: l else q :: insert_pair p l'
  end.
Definition sort_pairs (l : list (nat * nat)) : list (nat * nat) := fold_right insert_pair [] l.

Definition net_dump := (list (nat * nat) * imap_t * imap_t * list nat * list nat * nat)%type.
Definition tensor_dump := (list nat * list nat * list (nat * nat))%type.
Definition state_dump := (list (nat * net_dump) * list tensor_dump)%type.

Definition dump_net (h : heap) (x : net) : net_dump :=
  (map (fun p => (fst p, index_of (snd p) (h_pub h))) (n_tmap x),
   n_imap x, n_gmap x, n_inner x, n_outer x, n_ctr x).
Definition dump_tensor (h : heap) (r : nat) : tensor_dump :=
  let t := h_T h r in
  (t_inds t, t_tags t, sort_pairs (filter (fun p => live h (fst p)) (t_owners t))).
Definition dump (h : heap) : state_dump :=
  (map (fun m => (m, dump_net h (h_N h m))) (filter (live h) (seq 0 (h_nn h))),
   map (dump_tensor h) (h_pub h)).

(* ------------------------------------------------------------------ *)
(* executable fresh scan (used by the model-side searcher and by the
   correspondence to cross-check the harness' own scan)                *)

Definition carriers (h : heap) (x : net) (sel : tensor -> list nat) (i : nat) : list nat :=
  map fst (filter (fun p => mem i (sel (h_T h (snd p)))) (n_tmap x)).
Definition occ (h : heap) (x : net) (i : nat) : nat :=
  fold_right (fun p acc => count_occ Nat.eq_dec (t_inds (h_T h (snd p))) i + acc) 0 (n_tmap x).
Definition all_labels (h : heap) (x : net) (sel : tensor -> list nat) : list nat :=
  oset_of (concat (map (fun p => sel (h_T h (snd p))) (n_tmap x))).
Definition same_set (a b : list nat) : bool :=
  forallb (fun x => mem x b) a && forallb (fun x => mem x a) b.

Definition map_exact (h : heap) (x : net) (sel : tensor -> list nat) (m : imap_t) : bool :=
  same_set (akeys m) (all_labels h x sel)
  && forallb (fun p => same_set (snd p) (carriers h x sel (fst p))) m.

Definition net_invb (h : heap) (m : nat) : bool :=
  let x := h_N h m in
  map_exact h x t_inds (n_imap x) && map_exact h x t_tags (n_gmap x)
  && same_set (n_inner x) (filter (fun i => 2 <=? occ h x i) (all_labels h x t_inds))
  && same_set (n_outer x) (filter (fun i => occ h x i =? 1) (all_labels h x t_inds)).

Definition owners_invb (h : heap) (r : nat) : bool :=
  let live_owners := filter (fun p => live h (fst p)) (t_owners (h_T h r)) in
  forallb (fun p => match aget (snd p) (n_tmap (h_N h (fst p))) with Some r' => r' =? r | None => false end) live_owners
  && forallb (fun m => negb (live h m)
                       || forallb (fun p => negb (snd p =? r)
                                            || match aget m (t_owners (h_T h r)) with Some tid => tid =? fst p | None => false end)
                                  (n_tmap (h_N h m)))
             (seq 0 (h_nn h)).

Definition invb (h : heap) : bool :=
  forallb (fun m => negb (live h m) || net_invb h m) (seq 0 (h_nn h))
  && forallb (owners_invb h) (seq 0 (h_nt h)).

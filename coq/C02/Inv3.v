(* C02 - invariant preservation: Tensor.modify(inds=...) / Tensor.modify(tags=...)
   (owner notification). *)
From Coq Require Import List Arith Bool PeanoNat Lia.
From QV Require Import C02.Model C02.Lists C02.Inv.
Import ListNotations.

Lemma notify_fields : forall f owners h,
  h_T (notify f h owners) = h_T h /\ h_nt (notify f h owners) = h_nt h /\ h_nn (notify f h owners) = h_nn h
  /\ h_pub (notify f h owners) = h_pub h /\ h_ok (notify f h owners) = h_ok h
  /\ h_fresh (notify f h owners) = h_fresh h.
Proof.
  intros f owners; induction owners as [|p l IH]; intros h; unfold notify in *; simpl; [repeat split; auto|].
  destruct (IH (setN h (fst p) (f (h_N h (fst p)) (snd p)))) as (A & B & C & D & E & F).
  repeat split; [rewrite A|rewrite B|rewrite C|rewrite D|rewrite E|rewrite F]; auto.
Qed.

Lemma notify_N : forall f owners h m, NoDup (akeys owners) ->
  h_N (notify f h owners) m = match aget m owners with Some tid => f (h_N h m) tid | None => h_N h m end.
Proof.
  intros f owners; induction owners as [|[k t] l IH]; intros h m ND; unfold notify in *; simpl; auto.
  inversion ND; subst. rewrite IH by auto. cbn [h_N setN fst snd].
  destruct (Nat.eqb_spec m k) as [->|Hn].
  - assert (aget k l = None) as -> by (apply aget_None; auto). auto.
  - destruct (aget m l); auto.
Qed.

(* after check_owners: exactly the live owners remain, and (under the
   invariant) those are exactly the live networks holding the tensor *)
Lemma pruned_owner_iff : forall h r m tid, Good h ->
  (aget m (filter (fun p => live h (fst p)) (t_owners (h_T h r))) = Some tid <-> live h m = true /\ holds h m tid r).
Proof.
  intros h r m tid H.
  rewrite (aget_filter_live (live h)) by (apply (g_own_keys _ H)).
  rewrite <- In_aget_iff by (apply (g_own_keys _ H)).
  split.
  - intros [Hi Hl]; split; auto. apply (g_own _ H); auto.
  - intros [Hl Hh]; split; auto. apply (g_own _ H); auto.
Qed.

Lemma holds_unique : forall h m t1 t2 r, NetGood h m -> holds h m t1 r -> holds h m t2 r -> t1 = t2.
Proof. intros h m t1 t2 r NG H1 H2. eapply aget_inj; eauto. apply (ng_vals _ _ NG). Qed.

Lemma holds_fun : forall h m t r1 r2, holds h m t r1 -> holds h m t r2 -> r1 = r2.
Proof. unfold holds; intros; congruence. Qed.

(* ------------------------------------------------------------------ *)

Lemma modify_inds_core_good : forall h r inds, Good h -> NoDup inds -> Good (modify_inds_core h r inds).
Proof.
  intros h r inds H ND. unfold modify_inds_core.
  set (old := oset_of (t_inds (h_T h r))). set (new := oset_of inds).
  assert (forall j, In j old <-> In j (t_inds (h_T h r))) as Hold by (intros; apply oset_of_In).
  assert (forall j, In j new <-> In j inds) as Hnew by (intros; apply oset_of_In).
  destruct (set_eqb old new) eqn:Eq; cbn [negb].
  - (* same label set: nobody is notified *)
    pose proof (set_eqb_sound old new (oset_of_NoDup _) (oset_of_NoDup _) Eq) as Hsame.
    set (h' := setT _ _ _).
    assert (forall k, t_owners (h_T h' k) = t_owners (h_T h k)) as To.
    { intros k; subst h'; cbn [h_T setT]. destruct (Nat.eqb_spec k r) as [->|]; auto. }
    assert (forall k, t_tags (h_T h' k) = t_tags (h_T h k)) as Tg.
    { intros k; subst h'; cbn [h_T setT]. destruct (Nat.eqb_spec k r) as [->|]; auto. }
    assert (forall k, t_inds (h_T h' k) = if k =? r then inds else t_inds (h_T h k)) as Ti.
    { intros k; subst h'; cbn [h_T setT]. destruct (k =? r); auto. }
    assert (h_N h' = h_N h /\ h_nt h' = h_nt h /\ h_nn h' = h_nn h /\ h_pub h' = h_pub h) as (EN & Ent & Enn & Epub).
    { subst h'; cbn; auto. }
    clearbody h'.
    assert (forall k j, In j (t_inds (h_T h' k)) <-> In j (t_inds (h_T h k))) as Tim.
    { intros k j. rewrite Ti. destruct (Nat.eqb_spec k r) as [->|]; [|tauto].
      rewrite <- Hnew, <- Hold. symmetry; apply Hsame. }
    destruct H as [A B C D E F G].
    assert (forall m, live h' m = live h m) as Lv by (intros; unfold live; rewrite EN; auto).
    constructor; rewrite ?Enn, ?Ent, ?Epub; auto.
    + intros m Hm. rewrite Lv in Hm. apply (NetGood_frame h); rewrite ?EN; auto; try lia.
      intros; split; intros; [apply Tim|rewrite Tg; tauto].
    + intros m Hm. rewrite Lv in Hm. auto.
    + intros k. rewrite Ti. destruct (k =? r); auto.
    + intros k. rewrite To; auto.
    + intros k m tid. rewrite To. apply E.
    + intros k m tid Hm. rewrite Lv in Hm. rewrite To. unfold holds. rewrite EN. apply F; auto.
  - (* label set changes: prune dead owners, notify the live ones *)
    set (own' := filter (fun p => live h (fst p)) (t_owners (h_T h r))).
    set (hp := prune_owners h r).
    assert (t_owners (h_T hp r) = own') as Eown.
    { subst hp; unfold prune_owners; cbn [h_T setT]. rewrite Nat.eqb_refl. auto. }
    rewrite Eown.
    assert (NoDup (akeys own')) as NDown by (apply NoDup_map_filter, (g_own_keys _ H)).
    set (f := fun (x : net) (tid : nat) => net_modify_inds x old new tid).
    pose proof (notify_fields f own' hp) as (NT & Nnt & Nnn & Npub & _ & _).
    pose proof (fun m => notify_N f own' hp m NDown) as NN.
    set (hN := notify f hp own') in *.
    set (h' := setT _ _ _).
    assert (forall k, t_owners (h_T h' k) = if k =? r then own' else t_owners (h_T h k)) as To.
    { intros k; subst h'; cbn [h_T setT]. rewrite NT. subst hp; unfold prune_owners; cbn [h_T setT].
      destruct (Nat.eqb_spec k r) as [->|]; auto; try (rewrite Nat.eqb_refl; auto). }
    assert (forall k, t_tags (h_T h' k) = t_tags (h_T h k)) as Tg.
    { intros k; subst h'; cbn [h_T setT]. rewrite NT. subst hp; unfold prune_owners; cbn [h_T setT].
      destruct (Nat.eqb_spec k r) as [->|]; auto; try (rewrite Nat.eqb_refl; auto). }
    assert (forall k, t_inds (h_T h' k) = if k =? r then inds else t_inds (h_T h k)) as Ti.
    { intros k; subst h'; cbn [h_T setT]. rewrite NT. subst hp; unfold prune_owners; cbn [h_T setT].
      destruct (k =? r); auto. }
    assert (forall m, h_N h' m = match aget m own' with Some tid => f (h_N h m) tid | None => h_N h m end) as EN.
    { intros m; subst h'; cbn [h_N setT]. rewrite NN. subst hp; unfold prune_owners; cbn [h_N setT]. auto. }
    assert (h_nt h' = h_nt h /\ h_nn h' = h_nn h /\ h_pub h' = h_pub h) as (Ent & Enn & Epub).
    { subst h'; cbn [h_nt h_nn h_pub setT]. rewrite Nnt, Nnn, Npub. subst hp; cbn; auto. }
    clearbody h'. clear NN NT Nnt Nnn Npub. clearbody hN. clear hN. clear Eown. clearbody hp. clear hp.
    assert (forall m, n_tmap (h_N h' m) = n_tmap (h_N h m) /\ n_gmap (h_N h' m) = n_gmap (h_N h m)
                      /\ n_alive (h_N h' m) = n_alive (h_N h m)) as Nsame.
    { intros m. rewrite EN. destruct (aget m own'); auto. subst f; unfold net_modify_inds.
      destruct (link_inds _ _ _) as [[? ?] ?]; auto. }
    assert (forall m, live h' m = live h m) as Lv by (intros m; unfold live; apply Nsame).
    assert (forall m t k, holds h' m t k <-> holds h m t k) as Hh.
    { intros; unfold holds. destruct (Nsame m) as (-> & _); tauto. }
    pose proof H as [A B C D E F G].
    constructor; rewrite ?Enn, ?Ent, ?Epub; auto.
    + intros m Hm. rewrite Lv in Hm. pose proof (A m Hm) as NG. destruct (Nsame m) as (E1 & E2 & E3).
      destruct (aget m own') as [tid|] eqn:Eo.
      * pose proof (EN m) as ENm. rewrite Eo in ENm. clear EN; rename ENm into EN.
        apply (pruned_owner_iff h r m tid H) in Eo as [_ Hr].
        assert (forall t k, holds h m t k -> (k = r <-> t = tid)) as Hkr.
        { intros t k Hk; split; intros ->; [eapply holds_unique; eauto|eapply holds_fun; eauto]. }
        subst f; cbv beta in EN. unfold net_modify_inds in EN.
        destruct (link_inds (odiff new old) tid
                   (unlink_inds (odiff old new) tid (n_imap (h_N h m), n_inner (h_N h m), n_outer (h_N h m))))
          as [[im inn] out] eqn:EL.
        assert (ist_ok (im, inn, out) (fun t j => (t <> tid /\ Cind h m t j) \/ (t = tid /\ In j new))) as [HLm HLio].
        { rewrite <- EL. apply modify_inds_ist_ok; [split; [apply (ng_imap _ _ NG)|apply (ng_io _ _ NG)]|apply oset_of_NoDup|].
          intros i. rewrite Hold. unfold Cind. split.
          - intros [k [Hk Hi]]. assert (k = r) as -> by (apply (Hkr tid k Hk); auto). auto.
          - intros Hi; exists r; auto. }
        destruct NG as [K V R I Gm IO].
        constructor; rewrite ?E1, ?E2; auto.
        -- intros t k Hk. apply Hh in Hk. rewrite Ent. eapply R; eauto.
        -- rewrite EN; cbn [n_imap]. eapply map_ok_ext; [|apply HLm]. intros t j. unfold Cind. split.
           ++ intros [[Hn [k [Hk Hj]]]|[-> Hj]].
              ** exists k. split; [apply Hh; auto|]. rewrite Ti.
                 destruct (Nat.eqb_spec k r) as [->|]; auto. exfalso; apply Hn. apply (Hkr t r Hk); auto.
              ** exists r. split; [apply Hh; auto|]. rewrite Ti, Nat.eqb_refl. apply Hnew; auto.
           ++ intros [k [Hk Hj]]. apply Hh in Hk. rewrite Ti in Hj. destruct (Nat.eqb_spec k r) as [->|Hn].
              ** right. split; [apply (Hkr t r Hk); auto|apply Hnew; auto].
              ** left. split; [intros ->; apply Hn; apply (Hkr tid k Hk); auto|exists k; auto].
        -- eapply map_ok_ext; [|apply Gm]. intros t j. unfold Ctag. split; intros [k [Hk Hj]]; exists k.
           ++ split; [apply Hh; auto|rewrite Tg; auto].
           ++ apply Hh in Hk. rewrite Tg in Hj. auto.
        -- rewrite EN; cbn [n_imap n_inner n_outer]. auto.
      * (* m does not hold r *)
        assert (forall t, ~ holds h m t r) as Hno.
        { intros t Ht. assert (aget m own' = Some t) as Hx by (apply (pruned_owner_iff h r m t H); auto). congruence. }
        specialize (EN m). rewrite Eo in EN.
        apply (NetGood_frame h); rewrite ?EN; auto; try lia.
        intros t k Hk. rewrite Ti, Tg. destruct (Nat.eqb_spec k r) as [->|]; [exfalso; eapply Hno; eauto|tauto].
    + intros m Hm. rewrite Lv in Hm. auto.
    + intros k. rewrite Ti. destruct (k =? r); auto.
    + intros k. rewrite To. destruct (k =? r); auto.
    + intros k m tid. rewrite To. destruct (k =? r); [|apply E].
      subst own'. rewrite filter_In. intros [Hi _]. eapply E; eauto.
    + intros k m tid Hm. rewrite Lv in Hm. rewrite Hh, To. destruct (Nat.eqb_spec k r) as [->|]; [|apply F; auto].
      subst own'. rewrite filter_In; cbn [fst]. rewrite (F r m tid Hm). tauto.
Qed.

Lemma modify_inds_good : forall h r inds, Good h -> NoDup inds -> Good (modify_inds h r inds).
Proof. intros. unfold modify_inds. apply modify_inds_core_good; auto. apply Good_andok; auto. Qed.

(* ------------------------------------------------------------------ *)

Lemma modify_tags_good : forall h r tags, Good h -> Good (modify_tags h r tags).
Proof.
  intros h r tags H. unfold modify_tags.
  set (old := t_tags (h_T h r)). set (new := oset_of tags).
  set (own' := filter (fun p => live h (fst p)) (t_owners (h_T h r))).
  set (hp := prune_owners h r).
  assert (t_owners (h_T hp r) = own') as Eown.
  { subst hp; unfold prune_owners; cbn [h_T setT]. rewrite Nat.eqb_refl. auto. }
  rewrite Eown.
  assert (NoDup (akeys own')) as NDown by (apply NoDup_map_filter, (g_own_keys _ H)).
  set (f := fun (x : net) (tid : nat) => net_modify_tags x old new tid).
  pose proof (notify_fields f own' hp) as (NT & Nnt & Nnn & Npub & _ & _).
  pose proof (fun m => notify_N f own' hp m NDown) as NN.
  set (hN := notify f hp own') in *.
  set (h' := setT _ _ _).
  assert (forall k, t_owners (h_T h' k) = if k =? r then own' else t_owners (h_T h k)) as To.
  { intros k; subst h'; cbn [h_T setT]. rewrite NT. subst hp; unfold prune_owners; cbn [h_T setT].
    destruct (Nat.eqb_spec k r) as [->|]; auto; try (rewrite Nat.eqb_refl; auto). }
  assert (forall k, t_inds (h_T h' k) = t_inds (h_T h k)) as Ti.
  { intros k; subst h'; cbn [h_T setT]. rewrite NT. subst hp; unfold prune_owners; cbn [h_T setT].
    destruct (Nat.eqb_spec k r) as [->|]; auto; try (rewrite Nat.eqb_refl; auto). }
  assert (forall k, t_tags (h_T h' k) = if k =? r then new else t_tags (h_T h k)) as Tg.
  { intros k; subst h'; cbn [h_T setT]. rewrite NT. subst hp; unfold prune_owners; cbn [h_T setT].
    destruct (k =? r); auto. }
  assert (forall m, h_N h' m = match aget m own' with Some tid => f (h_N h m) tid | None => h_N h m end) as EN.
  { intros m; subst h'; cbn [h_N setT]. rewrite NN. subst hp; unfold prune_owners; cbn [h_N setT]. auto. }
  assert (h_nt h' = h_nt h /\ h_nn h' = h_nn h /\ h_pub h' = h_pub h) as (Ent & Enn & Epub).
  { subst h'; cbn [h_nt h_nn h_pub setT]. rewrite Nnt, Nnn, Npub. subst hp; cbn; auto. }
  clearbody h'. clear NN NT Nnt Nnn Npub. clearbody hN. clear hN. clear Eown. clearbody hp. clear hp.
  assert (forall m, n_tmap (h_N h' m) = n_tmap (h_N h m) /\ n_imap (h_N h' m) = n_imap (h_N h m)
                    /\ n_inner (h_N h' m) = n_inner (h_N h m) /\ n_outer (h_N h' m) = n_outer (h_N h m)
                    /\ n_alive (h_N h' m) = n_alive (h_N h m)) as Nsame.
  { intros m. rewrite EN. destruct (aget m own'); auto; subst f; unfold net_modify_tags; cbn; auto. }
  assert (forall m, live h' m = live h m) as Lv by (intros m; unfold live; apply Nsame).
  assert (forall m t k, holds h' m t k <-> holds h m t k) as Hh.
  { intros; unfold holds. destruct (Nsame m) as (-> & _); tauto. }
  assert (forall j, In j new <-> In j tags) as Hnew by (intros; apply oset_of_In).
  pose proof H as [A B C D E F G].
  constructor; rewrite ?Enn, ?Ent, ?Epub; auto.
  - intros m Hm. rewrite Lv in Hm. pose proof (A m Hm) as NG. destruct (Nsame m) as (E1 & E2 & E3 & E4 & E5).
    destruct (aget m own') as [tid|] eqn:Eo.
    + pose proof (EN m) as ENm. rewrite Eo in ENm. clear EN; rename ENm into EN.
      apply (pruned_owner_iff h r m tid H) in Eo as [_ Hr].
      assert (forall t k, holds h m t k -> (k = r <-> t = tid)) as Hkr.
      { intros t k Hk; split; intros ->; [eapply holds_unique; eauto|eapply holds_fun; eauto]. }
      subst f; cbv beta in EN. unfold net_modify_tags in EN.
      assert (map_ok (n_gmap (h_N h' m)) (fun t g => (t <> tid /\ Ctag h m t g) \/ (t = tid /\ In g new))) as HLm.
      { rewrite EN; cbn [n_gmap]. apply modify_tags_map_ok; [apply (ng_gmap _ _ NG)|].
        intros g. unfold Ctag. split.
        - intros [k [Hk Hi]]. assert (k = r) as -> by (apply (Hkr tid k Hk); auto). auto.
        - intros Hi; exists r; auto. }
      destruct NG as [K V R I Gm IO].
      constructor; rewrite ?E1, ?E2, ?E3, ?E4; auto.
      * intros t k Hk. apply Hh in Hk. rewrite Ent. eapply R; eauto.
      * eapply map_ok_ext; [|apply I]. intros t j. unfold Cind. split; intros [k [Hk Hj]]; exists k.
        -- split; [apply Hh; auto|rewrite Ti; auto].
        -- apply Hh in Hk. rewrite Ti in Hj. auto.
      * eapply map_ok_ext; [|apply HLm]. intros t j. unfold Ctag. split.
        -- intros [[Hn [k [Hk Hj]]]|[-> Hj]].
           ++ exists k. split; [apply Hh; auto|]. rewrite Tg.
              destruct (Nat.eqb_spec k r) as [->|]; auto. exfalso; apply Hn. apply (Hkr t r Hk); auto.
           ++ exists r. split; [apply Hh; auto|]. rewrite Tg, Nat.eqb_refl. auto.
        -- intros [k [Hk Hj]]. apply Hh in Hk. rewrite Tg in Hj. destruct (Nat.eqb_spec k r) as [->|Hn].
           ++ right. split; [apply (Hkr t r Hk); auto|auto].
           ++ left. split; [intros ->; apply Hn; apply (Hkr tid k Hk); auto|exists k; auto].
    + assert (forall t, ~ holds h m t r) as Hno.
      { intros t Ht. assert (aget m own' = Some t) as Hx by (apply (pruned_owner_iff h r m t H); auto). congruence. }
      specialize (EN m). rewrite Eo in EN.
      apply (NetGood_frame h); rewrite ?EN; auto; try lia.
      intros t k Hk. rewrite Ti, Tg. destruct (Nat.eqb_spec k r) as [->|]; [exfalso; eapply Hno; eauto|tauto].
  - intros m Hm. rewrite Lv in Hm. auto.
  - intros k. rewrite Ti; auto.
  - intros k. rewrite To. destruct (k =? r); auto.
  - intros k m tid. rewrite To. destruct (k =? r); [|apply E].
    subst own'. rewrite filter_In. intros [Hi _]. eapply E; eauto.
  - intros k m tid Hm. rewrite Lv in Hm. rewrite Hh, To. destruct (Nat.eqb_spec k r) as [->|]; [|apply F; auto].
    subst own'. rewrite filter_In; cbn [fst]. rewrite (F r m tid Hm). tauto.
Qed.
